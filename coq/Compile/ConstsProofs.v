(* Proofs about Compile/Consts.v (property C12, order arguments for C06). *)
From Coq Require Import Permutation Znumtheory.
From GV Require Import Base.Util Compile.Consts.

(* ------------------------------------------------------------------ equality tests *)

Lemma uty_eqb_eq a b : uty_eqb a b = true <-> a = b.
Proof. destruct a, b; cbn; split; congruence. Qed.
Lemma sty_eqb_eq a b : sty_eqb a b = true <-> a = b.
Proof. destruct a, b; cbn; split; congruence. Qed.
Lemma cty_eqb_eq a b : cty_eqb a b = true <-> a = b.
Proof.
  destruct a as [|u|s], b as [|u'|s']; cbn; try (split; congruence).
  - rewrite uty_eqb_eq. split; congruence.
  - rewrite sty_eqb_eq. split; congruence.
Qed.
Lemma cty_eqb_refl a : cty_eqb a a = true.
Proof. now apply cty_eqb_eq. Qed.

Lemma key_eqb_eq a b : key_eqb a b = true <-> a = b.
Proof.
  destruct a as [x|p x], b as [y|q y]; cbn [key_eqb]; try (split; congruence).
  - rewrite N.eqb_eq. split; congruence.
  - rewrite andb_true_iff, !N.eqb_eq. split; [intros [-> ->]; reflexivity|]. intro H; inversion H; auto.
Qed.
Lemma key_eqb_refl a : key_eqb a a = true.
Proof. now apply key_eqb_eq. Qed.
Lemma key_eqb_neq a b : a <> b -> key_eqb a b = false.
Proof. intro H. destruct (key_eqb a b) eqn:E; [|reflexivity]. apply key_eqb_eq in E. contradiction. Qed.

Lemma dkey_eqb_eq a b : dkey_eqb a b = true <-> a = b.
Proof.
  destruct a as [p x], b as [q y]. unfold dkey_eqb. cbn [fst snd].
  rewrite andb_true_iff, !N.eqb_eq. split; [intros [-> ->]; reflexivity|]. intro H; inversion H; auto.
Qed.
Lemma dkey_eqb_refl a : dkey_eqb a a = true.
Proof. now apply dkey_eqb_eq. Qed.

Lemma kget_kset_same {V} (m : kmap V) k v : kget (kset m k v) k = Some v.
Proof. unfold kset. cbn [kget]. now rewrite key_eqb_refl. Qed.
Lemma kget_kset_other {V} (m : kmap V) k k' v : k' <> k -> kget (kset m k v) k' = kget m k'.
Proof. intro H. unfold kset. cbn [kget]. now rewrite key_eqb_neq. Qed.

(* ------------------------------------------------------------------ induction principles *)

Section CexprInd.
  Variable P : cexpr -> Prop.
  Hypothesis HT : P ETrue.
  Hypothesis HF : P EFalse.
  Hypothesis HU : forall n t, P (EUns n t).
  Hypothesis HS : forall z t, P (ESig z t).
  Hypothesis HE : forall p n, P (EExt p n).
  Hypothesis HI : forall n, P (EId n).
  Hypothesis HMax : forall args, Forall P args -> P (EMax args).
  Hypothesis HMin : forall args, Forall P args -> P (EMin args).
  Hypothesis HAdd : forall a b, P a -> P b -> P (EAdd a b).
  Hypothesis HSub : forall a b, P a -> P b -> P (ESub a b).
  Fixpoint cexpr_ind2 (e : cexpr) : P e :=
    match e with
    | ETrue => HT | EFalse => HF | EUns n t => HU n t | ESig z t => HS z t
    | EExt p n => HE p n | EId n => HI n
    | EMax args => HMax args ((fix go l : Forall P l :=
                                 match l with [] => Forall_nil P | x :: r => Forall_cons x (cexpr_ind2 x) (go r) end) args)
    | EMin args => HMin args ((fix go l : Forall P l :=
                                 match l with [] => Forall_nil P | x :: r => Forall_cons x (cexpr_ind2 x) (go r) end) args)
    | EAdd a b => HAdd a b (cexpr_ind2 a) (cexpr_ind2 b)
    | ESub a b => HSub a b (cexpr_ind2 a) (cexpr_ind2 b)
    end.
End CexprInd.

Section PtyInd.
  Variable P : pty -> Prop.
  Hypothesis HB : P PBool.
  Hypothesis HU : forall u, P (PU u).
  Hypothesis HS : forall s, P (PS s).
  Hypothesis HA : forall e n, P e -> P (PArr e n).
  Hypothesis HC : forall e c, P e -> P (PArrC e c).
  Hypothesis HE : forall e x, P e -> P (PArrE e x).
  Hypothesis HT : forall l, Forall P l -> P (PTup l).
  Fixpoint pty_ind2 (t : pty) : P t :=
    match t with
    | PBool => HB | PU u => HU u | PS s => HS s
    | PArr e n => HA e n (pty_ind2 e)
    | PArrC e c => HC e c (pty_ind2 e)
    | PArrE e x => HE e x (pty_ind2 e)
    | PTup l => HT l ((fix go l : Forall P l :=
                         match l with [] => Forall_nil P | x :: r => Forall_cons x (pty_ind2 x) (go r) end) l)
    end.
End PtyInd.

(* ------------------------------------------------------------------ the model reads its maps
   only through kget: maps with the same lookups give the same results *)

Definition kequiv {V} (m m' : kmap V) : Prop := forall k, kget m k = kget m' k.

Lemma kequiv_kset {V} (m m' : kmap V) k v : kequiv m m' -> kequiv (kset m k v) (kset m' k v).
Proof. intros H k'. unfold kset. cbn [kget]. now rewrite H. Qed.

Lemma fold_left_ext_in {A B} (f g : A -> B -> A) l :
  Forall (fun b => forall a, f a b = g a b) l -> forall a, fold_left f l a = fold_left g l a.
Proof. induction 1 as [|b r Hb _ IH]; cbn [fold_left]; intro a; [reflexivity|]. now rewrite Hb, IH. Qed.

Lemma resolve_ext c k bits m m' e : kequiv m m' -> resolve c k bits m e = resolve c k bits m' e.
Proof.
  intro H. induction e as [| |n t|z t|p n|n|args IH|args IH|a b IHa IHb|a b IHa IHb] using cexpr_ind2;
    cbn [resolve]; try reflexivity.
  - now rewrite H.
  - now rewrite H.
  - apply fold_left_ext_in. eapply Forall_impl; [|exact IH]. cbn beta. intros a Ha acc. now rewrite Ha.
  - apply fold_left_ext_in. eapply Forall_impl; [|exact IH]. cbn beta. intros a Ha acc. now rewrite Ha.
  - now rewrite IHa, IHb.
  - now rewrite IHa, IHb.
Qed.

Lemma psize_ext c m m' t : kequiv m m' -> psize c m t = psize c m' t.
Proof.
  intro H. induction t as [|u|s|e n IH|e k IH|e x IH|l IH] using pty_ind2; cbn [psize]; try reflexivity.
  - now rewrite IH.
  - now rewrite IH, H.
  - rewrite IH. unfold resolve_usize. now rewrite (resolve_ext c KUsize 32 m m' x H).
  - apply fold_left_ext_in. eapply Forall_impl; [|exact IH]. cbn beta. intros a Ha acc. now rewrite Ha.
Qed.

Lemma mapM_res_ext {A B} (f g : A -> res B) l : (forall a, f a = g a) -> mapM_res f l = mapM_res g l.
Proof. intro H. induction l as [|a r IH]; cbn [mapM_res]; [reflexivity|]. now rewrite H, IH. Qed.

Lemma wire_params_ext c m m' ps : kequiv m m' -> wire_params c m ps = wire_params c m' ps.
Proof.
  intro H. unfold wire_params.
  assert (HM : mapM_res (fun t => let* s := psize c m t in Ok (1%Z, s)) ps =
               mapM_res (fun t => let* s := psize c m' t in Ok (1%Z, s)) ps).
  { apply mapM_res_ext. intro t. now rewrite (psize_ext c m m' t H). }
  destruct ps as [|p [|q r]]; try exact HM; [|destruct p; exact HM].
  destruct p as [| | |e n|e k|e x|l]; try exact HM.
  - now rewrite (psize_ext c m m' e H).
  - rewrite (H (KC k)). now rewrite (psize_ext c m m' e H).
  - unfold resolve_usize. rewrite (resolve_ext c KUsize 32 m m' x H). now rewrite (psize_ext c m m' e H).
Qed.

Lemma list_sizes_ext d defs m m' : kequiv m m' -> list_sizes d defs m = list_sizes d defs m'.
Proof.
  intro H. unfold list_sizes. generalize (map (fun x => KE (fst (fst x)) (snd (fst x))) d ++
                                          map (fun x => KC (cd_name x)) defs).
  induction l as [|k r IH]; cbn [fold_right]; [reflexivity|]. now rewrite IH, H.
Qed.

(* ------------------------------------------------------------------ arithmetic *)

Definition lo (t : cty) : Z :=
  match t with TS s => (- 2 ^ (Z.of_N (sbits s) - 1))%Z | _ => 0%Z end.
Definition hi (t : cty) : Z :=
  match t with
  | TBool => 2%Z
  | TU u => (2 ^ Z.of_N (ubits u))%Z
  | TS s => (2 ^ (Z.of_N (sbits s) - 1))%Z
  end.

Lemma in_range_iff t v : in_range t v = true <-> (lo t <= v < hi t)%Z.
Proof.
  destruct t as [|u|s]; unfold in_range, lo, hi; rewrite andb_true_iff.
  - rewrite !Z.leb_le. lia.
  - rewrite Z.leb_le, Z.ltb_lt. lia.
  - rewrite Z.leb_le, Z.ltb_lt. lia.
Qed.

Definition kind_of (t : cty) : kind := match t with TS _ => KI64 | _ => KU64 end.

Lemma range_in_kind t : cty_ok t = true -> is_num t = true ->
  (kmin (kind_of t) <= lo t /\ hi t <= kmax (kind_of t) + 1)%Z.
Proof.
  destruct t as [|[]|[]]; cbn; intros Hok Hn; try discriminate; split; lia.
Qed.

Lemma umod_small b z : (0 <= z < 2 ^ Z.of_N b)%Z -> umod b z = z.
Proof. intro H. unfold umod. now apply Z.mod_small. Qed.

Lemma smod_small b z : (0 < b)%N -> (- 2 ^ (Z.of_N b - 1) <= z < 2 ^ (Z.of_N b - 1))%Z -> smod b z = z.
Proof.
  intros Hb H. unfold smod.
  assert (E : (2 ^ Z.of_N b = 2 * 2 ^ (Z.of_N b - 1))%Z).
  { rewrite <- Z.pow_succ_r by lia. f_equal. lia. }
  rewrite Z.mod_small by lia. lia.
Qed.

Lemma wrap64_in_range t v : cty_ok t = true -> is_num t = true -> in_range t v = true ->
  wrap64 (kind_of t) v = v.
Proof.
  intros Hok Hn Hr. apply in_range_iff in Hr. destruct (range_in_kind t Hok Hn) as [H1 H2].
  destruct t as [|u|s]; [discriminate| |]; cbn [kind_of wrap64] in *.
  - apply umod_small. cbn [kmin kmax] in *. change (Z.of_N 64) with 64%Z. lia.
  - apply smod_small; [lia|]. cbn [kmin kmax] in *. change (Z.of_N 64 - 1)%Z with 63%Z. lia.
Qed.

Lemma umod_range b z : (0 <= umod b z < 2 ^ Z.of_N b)%Z.
Proof. unfold umod. apply Z.mod_pos_bound. apply Z.pow_pos_nonneg; lia. Qed.

Lemma smod_range b z : (0 < b)%N -> (- 2 ^ (Z.of_N b - 1) <= smod b z < 2 ^ (Z.of_N b - 1))%Z.
Proof.
  intro Hb. unfold smod.
  assert (E : (2 ^ Z.of_N b = 2 * 2 ^ (Z.of_N b - 1))%Z).
  { rewrite <- Z.pow_succ_r by lia. f_equal. lia. }
  assert (0 < 2 ^ (Z.of_N b - 1))%Z by (apply Z.pow_pos_nonneg; lia).
  pose proof (Z.mod_pos_bound (z + 2 ^ (Z.of_N b - 1)) (2 ^ Z.of_N b) ltac:(lia)). lia.
Qed.

(* truncation to b <= 64 bits after wrapping at 64 bits = wrapping at b bits *)
Lemma pow_split b : (b <= 64)%N -> (2 ^ 64 = 2 ^ Z.of_N b * 2 ^ (64 - Z.of_N b))%Z.
Proof. intro H. rewrite <- Z.pow_add_r by lia. f_equal. lia. Qed.

Lemma umod_umod64 b z : (b <= 64)%N -> umod b (umod 64 z) = umod b z.
Proof.
  intro H. unfold umod. change (Z.of_N 64) with 64%Z. symmetry.
  apply Zmod_div_mod; try (apply Z.pow_pos_nonneg; lia).
  exists (2 ^ (64 - Z.of_N b))%Z. rewrite (pow_split b H). ring.
Qed.

Lemma smod64_eq z : exists q, smod 64 z = (z - 2 ^ 64 * q)%Z.
Proof.
  unfold smod. change (Z.of_N 64) with 64%Z. change (64 - 1)%Z with 63%Z.
  exists ((z + 2 ^ 63) / 2 ^ 64)%Z.
  pose proof (Z.div_mod (z + 2 ^ 63) (2 ^ 64) ltac:(lia)). lia.
Qed.

Lemma umod_shift b z q : (b <= 64)%N -> umod b (z - 2 ^ 64 * q) = umod b z.
Proof.
  intro H. unfold umod. rewrite (pow_split b H).
  replace (z - 2 ^ Z.of_N b * 2 ^ (64 - Z.of_N b) * q)%Z
    with (z + (- (2 ^ (64 - Z.of_N b) * q)) * 2 ^ Z.of_N b)%Z by ring.
  apply Z_mod_plus_full.
Qed.

Lemma smod_smod64 b z : (b <= 64)%N -> smod b (smod 64 z) = smod b z.
Proof.
  intro H. destruct (smod64_eq z) as [q ->]. unfold smod. f_equal.
  replace (z - 2 ^ 64 * q + 2 ^ (Z.of_N b - 1))%Z with ((z + 2 ^ (Z.of_N b - 1)) - 2 ^ 64 * q)%Z by ring.
  apply (umod_shift b _ q H).
Qed.

Lemma cty_bits_bounds t : (0 < cty_bits t <= 64)%N.
Proof. destruct t as [|[]|[]]; cbn; lia. Qed.

(* + and - of the repaired code = wrapping in the const's own type *)
Lemma arith_repaired t z : is_num t = true ->
  arith repaired (kind_of t) (cty_bits t) z = Ok (wrap_ty t z) /\ in_range t (wrap_ty t z) = true.
Proof.
  intro Hn. pose proof (cty_bits_bounds t) as Hb.
  unfold arith. cbn [c_own_width repaired]. unfold truncw.
  replace ((64 <? cty_bits t) || (cty_bits t =? 0)) with false.
  2:{ symmetry. apply orb_false_iff. split; [apply N.ltb_ge|apply N.eqb_neq]; lia. }
  destruct t as [|u|s]; [discriminate| |]; cbn [kind_of wrap64 wrap_ty cty_bits] in *.
  - rewrite umod_umod64 by lia. split; [reflexivity|]. apply in_range_iff. cbn [lo hi]. apply umod_range.
  - rewrite smod_smod64 by lia. split; [reflexivity|]. apply in_range_iff. cbn [lo hi]. apply smod_range. lia.
Qed.

Lemma in_range_max t a b : in_range t a = true -> in_range t b = true -> in_range t (Z.max a b) = true.
Proof. rewrite !in_range_iff. lia. Qed.
Lemma in_range_min t a b : in_range t a = true -> in_range t b = true -> in_range t (Z.min a b) = true.
Proof. rewrite !in_range_iff. lia. Qed.

(* ------------------------------------------------------------------ resolve = spec_expr *)

Section ResolveSpec.
  Variables (dp : deps) (decl : list (N * cty)) (t : cty) (sup : supplied) (cv : list (N * Z)) (m : kmap Z).
  Hypothesis Hok : cty_ok t = true.
  Hypothesis Hnum : is_num t = true.
  (* the external constants recorded at type t are supplied, acceptable and registered *)
  Hypothesis Hext : forall p n meta, dget dp (p, n) = Some (t, meta) ->
    exists l v, sup_get sup p n = Some l /\ lit_val l = Some v /\ in_range t v = true /\
                kget m (KE p n) = Some v.
  (* the consts of type t declared earlier have a value, registered *)
  Hypothesis Hid : forall i, assocN decl i = Some t ->
    exists v, assocN cv i = Some v /\ in_range t v = true /\ kget m (KC i) = Some v.

  Definition good (e : cexpr) : Prop :=
    exists v, resolve repaired (kind_of t) (cty_bits t) m e = Ok v /\ spec_expr t sup cv e = Some v /\
              in_range t v = true.

  Lemma fold_max_good args r :
    Forall good args -> in_range t r = true ->
    exists v,
      fold_left (fun acc a => let* r := acc in
                              let* v := resolve repaired (kind_of t) (cty_bits t) m a in Ok (Z.max r v))
                args (Ok r) = Ok v /\
      fold_left (fun acc x => opt2 Z.max acc (spec_expr t sup cv x)) args (Some r) = Some v /\
      in_range t v = true.
  Proof.
    intro H. revert r. induction H as [|a l (v & Hr & Hs & Hv) _ IH]; intros r Hrr; cbn [fold_left].
    - eauto.
    - rewrite Hr, Hs. cbn [bind opt2]. apply IH. now apply in_range_max.
  Qed.

  Lemma fold_min_good args r :
    Forall good args -> in_range t r = true ->
    exists v,
      fold_left (fun acc a => let* r := acc in
                              let* v := resolve repaired (kind_of t) (cty_bits t) m a in Ok (Z.min r v))
                args (Ok r) = Ok v /\
      fold_left (fun acc x => opt2 Z.min acc (spec_expr t sup cv x)) args (Some r) = Some v /\
      in_range t v = true.
  Proof.
    intro H. revert r. induction H as [|a l (v & Hr & Hs & Hv) _ IH]; intros r Hrr; cbn [fold_left].
    - eauto.
    - rewrite Hr, Hs. cbn [bind opt2]. apply IH. now apply in_range_min.
  Qed.

  Lemma resolve_ok e : wt_cexpr dp decl t e = true -> good e.
  Proof.
    induction e as [| |n u|z s|p n|i|args IH|args IH|a b IHa IHb|a b IHa IHb] using cexpr_ind2;
      cbn [wt_cexpr]; intro W.
    - apply cty_eqb_eq in W. pose proof Hnum as Hn. rewrite W in Hn. discriminate.
    - apply cty_eqb_eq in W. pose proof Hnum as Hn. rewrite W in Hn. discriminate.
    - apply andb_true_iff in W as [W1 W2]. apply cty_eqb_eq in W1.
      exists (Z.of_N n). cbn [resolve spec_expr]. rewrite wrap64_in_range by assumption. auto.
    - apply andb_true_iff in W as [W1 W2]. apply cty_eqb_eq in W1.
      exists z. cbn [resolve spec_expr c_signed_lit repaired]. rewrite wrap64_in_range by assumption. auto.
    - destruct (dget dp (p, n)) as [[t' meta]|] eqn:E; [|discriminate]. apply cty_eqb_eq in W. subst t'.
      destruct (Hext p n meta E) as (l & v & H1 & H2 & H3 & H4).
      exists v. cbn [resolve spec_expr]. rewrite H4, H1. cbn [of_option]. auto.
    - destruct (assocN decl i) as [t'|] eqn:E; [|discriminate]. apply cty_eqb_eq in W. subst t'.
      destruct (Hid i E) as (v & H1 & H2 & H3).
      exists v. cbn [resolve spec_expr]. rewrite H3. cbn [of_option]. auto.
    - apply andb_true_iff in W as [W W3]. apply andb_true_iff in W as [_ W2].
      assert (G : Forall good args).
      { rewrite forallb_forall in W3. rewrite Forall_forall in IH |- *. intros x Hx. apply IH; auto. }
      destruct args as [|a r]; [discriminate|]. inversion G as [|? ? (va & Ha1 & Ha2 & Ha3) Gr]; subst.
      destruct (range_in_kind t Hok Hnum) as [K1 K2]. apply in_range_iff in Ha3 as Ha3'.
      destruct (fold_max_good r va Gr Ha3) as (v & F1 & F2 & F3).
      exists v. cbn [resolve spec_expr fold_left]. rewrite Ha1, Ha2. cbn [bind].
      unfold max_init. cbn [c_max_from_min repaired].
      replace (Z.max (kmin (kind_of t)) va) with va by lia. auto.
    - apply andb_true_iff in W as [W W3]. apply andb_true_iff in W as [_ W2].
      assert (G : Forall good args).
      { rewrite forallb_forall in W3. rewrite Forall_forall in IH |- *. intros x Hx. apply IH; auto. }
      destruct args as [|a r]; [discriminate|]. inversion G as [|? ? (va & Ha1 & Ha2 & Ha3) Gr]; subst.
      destruct (range_in_kind t Hok Hnum) as [K1 K2]. apply in_range_iff in Ha3 as Ha3'.
      destruct (fold_min_good r va Gr Ha3) as (v & F1 & F2 & F3).
      exists v. cbn [resolve spec_expr fold_left]. rewrite Ha1, Ha2. cbn [bind].
      replace (Z.min (kmax (kind_of t)) va) with va by lia. auto.
    - apply andb_true_iff in W as [W Wb]. apply andb_true_iff in W as [_ Wa].
      destruct (IHa Wa) as (x & X1 & X2 & X3). destruct (IHb Wb) as (y & Y1 & Y2 & Y3).
      destruct (arith_repaired t (x + y) Hnum) as [A1 A2].
      exists (wrap_ty t (x + y)). cbn [resolve spec_expr]. rewrite X1, Y1, X2, Y2. cbn [bind opt2]. auto.
    - apply andb_true_iff in W as [W Wb]. apply andb_true_iff in W as [_ Wa].
      destruct (IHa Wa) as (x & X1 & X2 & X3). destruct (IHb Wb) as (y & Y1 & Y2 & Y3).
      destruct (arith_repaired t (x - y) Hnum) as [A1 A2].
      exists (wrap_ty t (x - y)). cbn [resolve spec_expr]. rewrite X1, Y1, X2, Y2. cbn [bind opt2]. auto.
  Qed.
End ResolveSpec.

(* ------------------------------------------------------------------ monotonicity of resolve *)

Definition ksub {V} (m m' : kmap V) : Prop := forall k v, kget m k = Some v -> kget m' k = Some v.

Lemma ksub_refl {V} (m : kmap V) : ksub m m.
Proof. intros k v H; exact H. Qed.
Lemma ksub_trans {V} (a b c : kmap V) : ksub a b -> ksub b c -> ksub a c.
Proof. intros H1 H2 k v H. apply H2, H1, H. Qed.
Lemma ksub_kset_fresh {V} (m : kmap V) k v : kget m k = None -> ksub m (kset m k v).
Proof.
  intros Hf k' v' H. destruct (key_eqb k' k) eqn:E.
  - apply key_eqb_eq in E. subst k'. congruence.
  - unfold kset. cbn [kget]. now rewrite E.
Qed.

Lemma fold_bind_not_ok (f : Z -> cexpr -> res Z) args (acc : res Z) v :
  fold_left (fun acc a => let* r := acc in f r a) args acc = Ok v -> exists r, acc = Ok r.
Proof.
  revert acc. induction args as [|a l IH]; cbn [fold_left]; intros acc H.
  - eauto.
  - apply IH in H as [r Hr]. destruct acc as [x| |]; cbn [bind] in Hr; try discriminate. eauto.
Qed.

Lemma fold_bind_mono (f g : Z -> cexpr -> res Z) args :
  Forall (fun a => forall r v, f r a = Ok v -> g r a = Ok v) args ->
  forall acc v, fold_left (fun acc a => let* r := acc in f r a) args acc = Ok v ->
                fold_left (fun acc a => let* r := acc in g r a) args acc = Ok v.
Proof.
  induction 1 as [|a l Ha _ IH]; cbn [fold_left]; intros acc v H; [exact H|].
  destruct (fold_bind_not_ok f l _ v H) as [r1 Hr1].
  destruct acc as [r| |]; cbn [bind] in Hr1; try discriminate.
  cbn [bind] in H |- *. rewrite Hr1 in H. rewrite (Ha r r1 Hr1). now apply IH.
Qed.

Lemma resolve_mono c k bits m m' e v :
  ksub m m' -> resolve c k bits m e = Ok v -> resolve c k bits m' e = Ok v.
Proof.
  intro S. revert v.
  induction e as [| |n t|z t|p n|n|args IH|args IH|a b IHa IHb|a b IHa IHb] using cexpr_ind2;
    cbn [resolve]; intros v H; try exact H.
  - destruct (kget m (KE p n)) eqn:E; cbn [of_option] in H; [|discriminate]. now rewrite (S _ _ E).
  - destruct (kget m (KC n)) eqn:E; cbn [of_option] in H; [|discriminate]. now rewrite (S _ _ E).
  - revert H. apply (fold_bind_mono (fun r a => let* v := resolve c k bits m a in Ok (Z.max r v))
                                    (fun r a => let* v := resolve c k bits m' a in Ok (Z.max r v))).
    eapply Forall_impl; [|exact IH]. cbn beta. intros a Ha r v0 H0.
    destruct (resolve c k bits m a) eqn:E; cbn [bind] in H0; try discriminate. now rewrite (Ha _ eq_refl).
  - revert H. apply (fold_bind_mono (fun r a => let* v := resolve c k bits m a in Ok (Z.min r v))
                                    (fun r a => let* v := resolve c k bits m' a in Ok (Z.min r v))).
    eapply Forall_impl; [|exact IH]. cbn beta. intros a Ha r v0 H0.
    destruct (resolve c k bits m a) eqn:E; cbn [bind] in H0; try discriminate. now rewrite (Ha _ eq_refl).
  - destruct (resolve c k bits m a) eqn:Ea; cbn [bind] in H; try discriminate.
    destruct (resolve c k bits m b) eqn:Eb; cbn [bind] in H; try discriminate.
    rewrite (IHa _ eq_refl), (IHb _ eq_refl). exact H.
  - destruct (resolve c k bits m a) eqn:Ea; cbn [bind] in H; try discriminate.
    destruct (resolve c k bits m b) eqn:Eb; cbn [bind] in H; try discriminate.
    rewrite (IHa _ eq_refl), (IHb _ eq_refl). exact H.
Qed.

(* ------------------------------------------------------------------ closed form of the passes *)

Definition ins_all {V} (f : dkey -> option V) (o : list dkey) (m : kmap V) : kmap V :=
  fold_left (fun m k => match f k with Some v => kset m (KE (fst k) (snd k)) v | None => m end) o m.

Lemma kget_ins_all_KC {V} (f : dkey -> option V) o m i : kget (ins_all f o m) (KC i) = kget m (KC i).
Proof.
  unfold ins_all. revert m. induction o as [|k r IH]; cbn [fold_left]; intro m; [reflexivity|].
  rewrite IH. destruct (f k); [|reflexivity]. apply kget_kset_other. discriminate.
Qed.

Lemma kget_ins_all_KE {V} (f : dkey -> option V) o m p n :
  kget (ins_all f o m) (KE p n) =
  if existsb (dkey_eqb (p, n)) o
  then match f (p, n) with Some v => Some v | None => kget m (KE p n) end
  else kget m (KE p n).
Proof.
  unfold ins_all. revert m. induction o as [|k r IH]; cbn [fold_left existsb]; intro m; [reflexivity|].
  rewrite IH. destruct (dkey_eqb (p, n) k) eqn:E; cbn [orb].
  - apply dkey_eqb_eq in E. subst k. cbn [fst snd].
    destruct (f (p, n)) as [v|]; [|destruct (existsb _ r); reflexivity].
    rewrite kget_kset_same. destruct (existsb _ r); reflexivity.
  - assert (KE p n <> KE (fst k) (snd k)).
    { intro H. inversion H. destruct k; cbn [fst snd] in *; subst. now rewrite dkey_eqb_refl in E. }
    destruct (f k); [rewrite kget_kset_other by assumption|]; reflexivity.
Qed.

Definition fU (sup : supplied) (k : dkey) : option Z :=
  match sup_get sup (fst k) (snd k) with Some (LUns v _) => Some (Z.of_N v) | _ => None end.
Definition fS (sup : supplied) (k : dkey) : option Z :=
  match sup_get sup (fst k) (snd k) with Some (LSig z _) => Some z | _ => None end.
Definition fZ (d : deps) (sup : supplied) (k : dkey) : option Z :=
  match dget d k, sup_get sup (fst k) (snd k) with
  | Some (ty, _), Some (LUns v Usize) => if is_of_type (LUns v Usize) ty then Some (Z.of_N v) else None
  | _, _ => None
  end.
Definition fB (d : deps) (sup : supplied) (k : dkey) : option (list bool) :=
  match dget d k, sup_get sup (fst k) (snd k) with
  | Some (ty, _), Some l => if is_of_type l ty then Some (lit_bits l) else None
  | _, _ => None
  end.
(* the errors a declared external constant gives rise to *)
Definition err1 (d : deps) (sup : supplied) (k : dkey) : list cerr :=
  match dget d k with
  | None => []
  | Some (ty, meta) =>
      match sup_get sup (fst k) (snd k) with
      | None => [EMissing (fst k) (snd k) meta]
      | Some l => if is_of_type l ty then [] else [EBadType l ty]
      end
  end.
Definition err2 (d : deps) (sup : supplied) (k : dkey) : list cerr :=
  match dget d k with
  | None => []
  | Some (ty, meta) =>
      match sup_get sup (fst k) (snd k) with
      | None => []
      | Some l => if is_of_type l ty then [] else [EBadType l ty]
      end
  end.

Definition keys_in (o : list dkey) (d : deps) : Prop := forall k, In k o -> dget d k <> None.

Lemma pass1_closed d sup o : keys_in o d -> forall s0,
  fold_left (pass1_step repaired d sup) o (Ok s0) =
  Ok (Build_st1 (s_errs s0 ++ flat_map (err1 d sup) o) (ins_all (fU sup) o (s_cu s0))
                (ins_all (fS sup) o (s_cs s0)) (ins_all (fZ d sup) o (s_sizes s0))).
Proof.
  unfold ins_all. induction o as [|k r IH]; intros Hk s0; cbn [fold_left flat_map].
  - destruct s0; cbn. now rewrite List.app_nil_r.
  - assert (Hr : keys_in r d) by (intros x Hx; apply Hk; now right).
    specialize (IH Hr). pose proof (Hk k (or_introl eq_refl)) as Hd.
    unfold pass1_step at 2. cbn [bind].
    unfold err1 at 1, fU at 2, fS at 2, fZ at 2.
    destruct (dget d k) as [[ty meta]|]; [|contradiction]. cbn [of_option bind].
    destruct k as [p n]. cbn [fst snd].
    destruct (sup_get sup p n) as [l|].
    + destruct l as [| |v u|z u|]; destruct (is_of_type _ ty) eqn:T; cbn [c_early_typecheck repaired];
        try (destruct u); rewrite IH; cbn [s_errs s_cu s_cs s_sizes]; rewrite <- ?List.app_assoc, ?List.app_nil_r;
        try rewrite T; reflexivity.
    + rewrite IH. cbn [s_errs s_cu s_cs s_sizes]. rewrite <- List.app_assoc. reflexivity.
Qed.

Lemma pass2_closed d sup o : keys_in o d -> forall e0 es0,
  fold_left (pass2_step d sup) o (Ok (es0, e0)) =
  Ok (es0 ++ flat_map (err2 d sup) o, ins_all (fB d sup) o e0).
Proof.
  unfold ins_all. induction o as [|k r IH]; intros Hk e0 es0; cbn [fold_left flat_map].
  - now rewrite List.app_nil_r.
  - assert (Hr : keys_in r d) by (intros x Hx; apply Hk; now right).
    specialize (IH Hr). pose proof (Hk k (or_introl eq_refl)) as Hd.
    unfold pass2_step at 2. cbn [bind]. unfold err2 at 1, fB at 2.
    destruct (dget d k) as [[ty meta]|]; [|contradiction]. cbn [of_option bind].
    destruct k as [p n]. cbn [fst snd].
    destruct (sup_get sup p n) as [l|].
    + destruct (is_of_type l ty); cbn [fst snd]; rewrite IH; rewrite <- ?List.app_assoc, ?List.app_nil_r; reflexivity.
    + rewrite IH. reflexivity.
Qed.

(* ------------------------------------------------------------------ the two loops over the
   const definitions (resolution in source order, binding as constant wires) *)

Definition sel (t : cty) (s : st1) : kmap Z := match t with TS _ => s_cs s | _ => s_cu s end.

Lemma lit_bits_to_bits l ty v :
  is_of_type l ty = true -> lit_val l = Some v -> lit_bits l = to_bits v (cty_bits ty).
Proof.
  destruct l as [| |n u|z u|], ty as [|u'|s']; cbn [is_of_type lit_val lit_bits cty_bits];
    intros T V; try discriminate; inversion V; subst; try reflexivity.
  - apply uty_eqb_eq in T. now subst.
  - apply sty_eqb_eq in T. now subst.
Qed.

Section Loops.
  Variables (d : deps) (sup : supplied).

  Definition ke_facts (s : st1) (e : env) : Prop :=
    forall p n ty meta, dget d (p, n) = Some (ty, meta) ->
      exists l v, sup_get sup p n = Some l /\ lit_val l = Some v /\ in_range ty v = true /\
        is_of_type l ty = true /\ kget e (KE p n) = Some (lit_bits l) /\
        (is_num ty = true -> kget (sel ty s) (KE p n) = Some v) /\
        (ty = TU Usize -> kget (s_sizes s) (KE p n) = Some v).

  Definition decl_facts (decl : list (N * cty)) (cv : list (N * Z)) (s : st1) (e : env) : Prop :=
    forall i t, assocN decl i = Some t ->
      exists v, assocN cv i = Some v /\ in_range t v = true /\
        kget e (KC i) = Some (to_bits v (cty_bits t)) /\
        (is_num t = true -> kget (sel t s) (KC i) = Some v).

  Definition fresh_facts (decl : list (N * cty)) (s : st1) : Prop :=
    forall i, assocN decl i = None ->
      kget (s_cu s) (KC i) = None /\ kget (s_cs s) (KC i) = None /\ kget (s_sizes s) (KC i) = None.

  Lemma def_value decl cv s e ty val :
    cty_ok ty = true -> wt_cexpr d decl ty val = true -> ke_facts s e -> decl_facts decl cv s e ->
    exists v, spec_expr ty sup cv val = Some v /\ in_range ty v = true /\
      (is_num ty = true -> resolve repaired (kind_of ty) (cty_bits ty) (sel ty s) val = Ok v).
  Proof.
    intros Hok W KF DF. destruct (is_num ty) eqn:Hn.
    - destruct (resolve_ok d decl ty sup cv (sel ty s) Hok Hn) with (e := val) as (v & R & S & I); auto.
      + intros p n meta Hd. destruct (KF p n ty meta Hd) as (l & v & H1 & H2 & H3 & _ & _ & H6 & _).
        exists l, v. auto.
      + intros i Hi. destruct (DF i ty Hi) as (v & H1 & H2 & _ & H4). exists v. auto.
      + exists v. auto.
    - destruct ty as [|u|s0]; try discriminate.
      destruct val as [| |n u|z u|p n|i|args|args|a b|a b]; cbn [wt_cexpr is_num andb] in W; try discriminate.
      + exists 1%Z. cbn. repeat split; auto. discriminate.
      + exists 0%Z. cbn. repeat split; auto. discriminate.
      + destruct (dget d (p, n)) as [[t' meta]|] eqn:E; [|discriminate]. apply cty_eqb_eq in W. subst t'.
        destruct (KF p n TBool meta E) as (l & v & H1 & H2 & H3 & _).
        exists v. cbn [spec_expr]. rewrite H1. repeat split; auto. discriminate.
      + destruct (assocN decl i) as [t'|] eqn:E; [|discriminate]. apply cty_eqb_eq in W. subst t'.
        destruct (DF i TBool E) as (v & H1 & H2 & _).
        exists v. cbn [spec_expr]. repeat split; auto. discriminate.
  Qed.

  Lemma bind_value decl cv s e x cuF csF v :
    wt_cexpr d decl (cd_ty x) (cd_val x) = true -> ke_facts s e -> decl_facts decl cv s e ->
    spec_expr (cd_ty x) sup cv (cd_val x) = Some v ->
    (is_num (cd_ty x) = true ->
     resolve repaired (kind_of (cd_ty x)) (cty_bits (cd_ty x)) (sel (cd_ty x) s) (cd_val x) = Ok v) ->
    ksub (s_cu s) cuF -> ksub (s_cs s) csF ->
    bind_step repaired cuF csF (Ok e) x = Ok (kset e (KC (cd_name x)) (to_bits v (cty_bits (cd_ty x)))).
  Proof.
    destruct x as [name ty val]. cbn [cd_name cd_ty cd_val]. intros W KF DF S R SU SS.
    assert (Arith : is_num ty = true -> (forall p n, val <> EExt p n) -> (forall i, val <> EId i) ->
                    (forall n u, val <> EUns n u) -> (forall z u, val <> ESig z u) -> val <> ETrue -> val <> EFalse ->
                    bind_step repaired cuF csF (Ok e) (Build_cdef name ty val)
                    = Ok (kset e (KC name) (to_bits v (cty_bits ty)))).
    { intros Hn N1 N2 N3 N4 N5 N6. specialize (R Hn). unfold bind_step. cbn [bind cd_name cd_ty cd_val].
      destruct ty as [|u|s0]; [discriminate| |]; cbn [kind_of cty_bits sel] in R.
      - apply (resolve_mono _ _ _ _ cuF) in R; [|exact SU]. unfold resolve_unsigned.
        destruct val; try rewrite R; try reflexivity; exfalso;
          first [ apply N5; reflexivity | apply N6; reflexivity | eapply N1; reflexivity | eapply N2; reflexivity
                | eapply N3; reflexivity | eapply N4; reflexivity ].
      - apply (resolve_mono _ _ _ _ csF) in R; [|exact SS]. unfold resolve_signed. cbn [cty_bits].
        destruct val; try rewrite R; try reflexivity; exfalso;
          first [ apply N5; reflexivity | apply N6; reflexivity | eapply N1; reflexivity | eapply N2; reflexivity
                | eapply N3; reflexivity | eapply N4; reflexivity ]. }
    destruct val as [| |n u|z u|p n|i|args|args|a b|a b]; cbn [wt_cexpr] in W.
    - apply cty_eqb_eq in W. subst ty. cbn in S. inversion S. reflexivity.
    - apply cty_eqb_eq in W. subst ty. cbn in S. inversion S. reflexivity.
    - apply andb_true_iff in W as [W _]. apply cty_eqb_eq in W. subst ty. cbn in S. inversion S. reflexivity.
    - apply andb_true_iff in W as [W _]. apply cty_eqb_eq in W. subst ty. cbn in S. inversion S. reflexivity.
    - destruct (dget d (p, n)) as [[t' meta]|] eqn:E; [|discriminate]. apply cty_eqb_eq in W. subst t'.
      destruct (KF p n ty meta E) as (l & v' & H1 & H2 & _ & H4 & H5 & _).
      cbn [spec_expr] in S. rewrite H1, H2 in S. inversion S; subst v'.
      unfold bind_step. cbn [bind cd_name cd_ty cd_val]. rewrite H5. cbn [of_option bind].
      now rewrite (lit_bits_to_bits l ty v H4 H2).
    - destruct (assocN decl i) as [t'|] eqn:E; [|discriminate]. apply cty_eqb_eq in W. subst t'.
      destruct (DF i ty E) as (v' & H1 & _ & H3 & _).
      cbn [spec_expr] in S. rewrite H1 in S. inversion S; subst v'.
      unfold bind_step. cbn [bind cd_name cd_ty cd_val]. rewrite H3. reflexivity.
    - apply andb_true_iff in W as [W _]. apply andb_true_iff in W as [W _]. apply Arith; [exact W|intros; discriminate..].
    - apply andb_true_iff in W as [W _]. apply andb_true_iff in W as [W _]. apply Arith; [exact W|intros; discriminate..].
    - apply andb_true_iff in W as [W _]. apply andb_true_iff in W as [W _]. apply Arith; [exact W|intros; discriminate..].
    - apply andb_true_iff in W as [W _]. apply andb_true_iff in W as [W _]. apply Arith; [exact W|intros; discriminate..].
  Qed.

  Lemma sorted_value s e x v :
    wt_cexpr d [] (cd_ty x) (cd_val x) = wt_cexpr d [] (cd_ty x) (cd_val x) ->
    ke_facts s e ->
    (forall p n, cd_ty x = TU Usize -> cd_val x = EExt p n -> exists meta, dget d (p, n) = Some (TU Usize, meta)) ->
    (is_num (cd_ty x) = true ->
     resolve repaired (kind_of (cd_ty x)) (cty_bits (cd_ty x)) (sel (cd_ty x) s) (cd_val x) = Ok v) ->
    exists s', sorted_step repaired (Ok s) x = Ok s' /\
      (forall k, k <> KC (cd_name x) ->
         kget (s_cu s') k = kget (s_cu s) k /\ kget (s_cs s') k = kget (s_cs s) k /\
         kget (s_sizes s') k = kget (s_sizes s) k) /\
      kget (s_cu s') (KC (cd_name x)) =
        (match cd_ty x with TU _ => Some v | _ => kget (s_cu s) (KC (cd_name x)) end) /\
      kget (s_cs s') (KC (cd_name x)) =
        (match cd_ty x with TS _ => Some v | _ => kget (s_cs s) (KC (cd_name x)) end) /\
      kget (s_sizes s') (KC (cd_name x)) =
        (if cty_eqb (cd_ty x) (TU Usize) then Some v else kget (s_sizes s) (KC (cd_name x))).
  Proof.
    destruct x as [name ty val]. cbn [cd_name cd_ty cd_val]. intros _ KF HE R.
    unfold sorted_step. cbn [bind cd_name cd_ty cd_val c_all_numeric repaired].
    destruct ty as [|u|s0].
    - exists s. repeat split; reflexivity.
    - specialize (R eq_refl). cbn [kind_of cty_bits sel] in R. unfold resolve_unsigned.
      assert (Other : u <> Usize ->
        exists s', (let* n := resolve repaired KU64 (ubits u) (s_cu s) val in
                    Ok (Build_st1 (s_errs s) (kset (s_cu s) (KC name) n) (s_cs s) (s_sizes s))) = Ok s' /\
          (forall k, k <> KC name -> kget (s_cu s') k = kget (s_cu s) k /\ kget (s_cs s') k = kget (s_cs s) k /\
                                     kget (s_sizes s') k = kget (s_sizes s) k) /\
          kget (s_cu s') (KC name) = Some v /\ kget (s_cs s') (KC name) = kget (s_cs s) (KC name) /\
          kget (s_sizes s') (KC name) = kget (s_sizes s) (KC name)).
      { intros _. rewrite R. cbn [bind]. eexists. split; [reflexivity|]. cbn [s_cu s_cs s_sizes].
        repeat split; try reflexivity; try apply kget_kset_same. now apply kget_kset_other. }
      destruct u; try (destruct Other as (s' & E & H); [discriminate|]; exists s'; cbn [cty_eqb uty_eqb];
                       split; [exact E|exact H]).
      (* usize *)
      cbn [ubits] in R.
      assert (SZ : exists sz, (match val with
                               | EExt p n => let* v0 := of_option (kget (s_sizes s) (KE p n)) in
                                             Ok (kset (s_sizes s) (KC name) v0)
                               | _ => Ok (s_sizes s) end) = Ok sz /\
                              forall k, k <> KC name -> kget sz k = kget (s_sizes s) k).
      { destruct val; try (eexists; split; [reflexivity|reflexivity]).
        destruct (HE party name0 eq_refl eq_refl) as [meta Hd].
        destruct (KF party name0 (TU Usize) meta Hd) as (l & v' & _ & _ & _ & _ & _ & _ & H7).
        rewrite (H7 eq_refl). cbn [of_option bind]. eexists. split; [reflexivity|].
        intros k Hk. now apply kget_kset_other. }
      destruct SZ as (sz & -> & Hsz). cbn [bind]. rewrite R. cbn [bind].
      eexists. split; [reflexivity|]. cbn [s_cu s_cs s_sizes cty_eqb uty_eqb].
      repeat split; try reflexivity; try apply kget_kset_same.
      + now apply kget_kset_other.
      + rewrite kget_kset_other by assumption. now apply Hsz.
    - specialize (R eq_refl). cbn [kind_of cty_bits sel] in R. unfold resolve_signed. rewrite R. cbn [bind].
      eexists. split; [reflexivity|]. cbn [s_cu s_cs s_sizes cty_eqb].
      repeat split; try reflexivity; try apply kget_kset_same. now apply kget_kset_other.
  Qed.

  Lemma names_fresh decl defs :
    wt_defs_from d decl defs = true -> forall y, In y defs -> assocN decl (cd_name y) = None.
  Proof.
    revert decl. induction defs as [|x r IH]; intros decl W y Hy; [contradiction|].
    cbn [wt_defs_from] in W. apply andb_true_iff in W as [W Wr]. apply andb_true_iff in W as [_ Wf].
    destruct Hy as [->|Hy].
    - destruct (assocN decl (cd_name y)); [discriminate|reflexivity].
    - specialize (IH _ Wr y Hy). cbn [assocN] in IH. destruct (cd_name y =? cd_name x); [discriminate|exact IH].
  Qed.

  Lemma loops_ok defs : forall decl cv s e,
    wt_defs_from d decl defs = true -> ke_facts s e -> decl_facts decl cv s e -> fresh_facts decl s ->
    exists vs s',
      const_spec_from sup cv defs = Some vs /\
      fold_left (sorted_step repaired) defs (Ok s) = Ok s' /\
      ksub (s_cu s) (s_cu s') /\ ksub (s_cs s) (s_cs s') /\
      (forall k, (forall x, In x defs -> k <> KC (cd_name x)) -> kget (s_sizes s') k = kget (s_sizes s) k) /\
      Forall2 (fun x nv => fst nv = cd_name x /\ in_range (cd_ty x) (snd nv) = true /\
                 kget (s_sizes s') (KC (cd_name x)) =
                 if cty_eqb (cd_ty x) (TU Usize) then Some (snd nv) else None) defs vs /\
      forall cuF csF, ksub (s_cu s') cuF -> ksub (s_cs s') csF ->
        exists e', fold_left (bind_step repaired cuF csF) defs (Ok e) = Ok e' /\
          (forall k, (forall x, In x defs -> k <> KC (cd_name x)) -> kget e' k = kget e k) /\
          Forall2 (fun x nv => kget e' (KC (cd_name x)) = Some (to_bits (snd nv) (cty_bits (cd_ty x)))) defs vs.
  Proof.
    induction defs as [|x r IH]; intros decl cv s e W KF DF FF.
    - exists [], s. cbn [const_spec_from fold_left]. repeat split; auto using ksub_refl.
      intros cuF csF _ _. exists e. repeat split; auto.
    - pose proof (names_fresh _ _ W) as NF.
      cbn [wt_defs_from] in W. apply andb_true_iff in W as [W Wr]. apply andb_true_iff in W as [W Wf].
      apply andb_true_iff in W as [Wok Wx].
      assert (Hfx : assocN decl (cd_name x) = None) by (destruct (assocN decl (cd_name x)); [discriminate|reflexivity]).
      destruct (def_value decl cv s e _ _ Wok Wx KF DF) as (v & Sv & Iv & Rv).
      destruct (sorted_value s e x v eq_refl KF) as (sx & Ex & Hoth & Hcu & Hcs & Hsz); [|exact Rv|].
      { intros p n Ht Hv. rewrite Ht, Hv in Wx. cbn [wt_cexpr] in Wx.
        destruct (dget d (p, n)) as [[t' meta]|]; [|discriminate]. apply cty_eqb_eq in Wx. subst t'. eauto. }
      destruct (FF _ Hfx) as (F1 & F2 & F3).
      set (ex := kset e (KC (cd_name x)) (to_bits v (cty_bits (cd_ty x)))).
      assert (KFx : ke_facts sx ex).
      { intros p n ty meta Hd. destruct (KF p n ty meta Hd) as (l & v' & H1 & H2 & H3 & H4 & H5 & H6 & H7).
        exists l, v'. assert (NE : KE p n <> KC (cd_name x)) by discriminate.
        destruct (Hoth _ NE) as (O1 & O2 & O3).
        split; [exact H1|]. split; [exact H2|]. split; [exact H3|]. split; [exact H4|]. split; [|split].
        - unfold ex. now rewrite kget_kset_other.
        - intro Hn. specialize (H6 Hn). destruct ty; cbn [sel] in *; congruence.
        - intro Hu. rewrite O3. auto. }
      assert (DFx : decl_facts ((cd_name x, cd_ty x) :: decl) ((cd_name x, v) :: cv) sx ex).
      { intros i t Hi. cbn [assocN] in Hi |- *. destruct (i =? cd_name x) eqn:E.
        - apply N.eqb_eq in E. subst i. inversion Hi; subst t. exists v.
          split; [reflexivity|]. split; [exact Iv|]. split.
          + unfold ex. apply kget_kset_same.
          + intro Hn. destruct (cd_ty x); cbn [sel]; [discriminate|exact Hcu|exact Hcs].
        - destruct (DF i t Hi) as (v' & H1 & H2 & H3 & H4). exists v'.
          assert (NE : KC i <> KC (cd_name x)) by (intro Q; inversion Q; subst; now rewrite N.eqb_refl in E).
          destruct (Hoth _ NE) as (O1 & O2 & O3).
          split; [exact H1|]. split; [exact H2|]. split.
          + unfold ex. now rewrite kget_kset_other.
          + intro Hn. specialize (H4 Hn). destruct t; cbn [sel] in *; congruence. }
      assert (FFx : fresh_facts ((cd_name x, cd_ty x) :: decl) sx).
      { intros i Hi. cbn [assocN] in Hi. destruct (i =? cd_name x) eqn:E; [discriminate|].
        assert (NE : KC i <> KC (cd_name x)) by (intro Q; inversion Q; subst; now rewrite N.eqb_refl in E).
        destruct (Hoth _ NE) as (O1 & O2 & O3). destruct (FF i Hi) as (G1 & G2 & G3).
        rewrite O1, O2, O3. auto. }
      destruct (IH _ _ sx ex Wr KFx DFx FFx) as (vs & s' & Cs & Fs & S1 & S2 & Psz & F2s & Bind).
      assert (SUB1 : ksub (s_cu s) (s_cu sx)).
      { intros k v0 Hk. destruct (key_eqb k (KC (cd_name x))) eqn:E.
        - apply key_eqb_eq in E. subst k. congruence.
        - assert (NE : k <> KC (cd_name x)) by (intro Q; subst; now rewrite key_eqb_refl in E).
          destruct (Hoth _ NE) as (O1 & _). congruence. }
      assert (SUB2 : ksub (s_cs s) (s_cs sx)).
      { intros k v0 Hk. destruct (key_eqb k (KC (cd_name x))) eqn:E.
        - apply key_eqb_eq in E. subst k. congruence.
        - assert (NE : k <> KC (cd_name x)) by (intro Q; subst; now rewrite key_eqb_refl in E).
          destruct (Hoth _ NE) as (_ & O2 & _). congruence. }
      assert (NR : forall y, In y r -> KC (cd_name x) <> KC (cd_name y)).
      { intros y Hy Q. inversion Q as [Q']. pose proof (names_fresh _ _ Wr y Hy) as Hn.
        cbn [assocN] in Hn. rewrite <- Q', N.eqb_refl in Hn. discriminate. }
      exists ((cd_name x, v) :: vs), s'. cbn [const_spec_from fold_left]. rewrite Sv, Cs, Ex.
      split; [reflexivity|]. split; [exact Fs|].
      split; [eapply ksub_trans; eauto|]. split; [eapply ksub_trans; eauto|].
      split.
      { intros k Hk. rewrite Psz by (intros y Hy; apply Hk; now right).
        apply Hoth. apply Hk. now left. }
      split.
      { constructor; [|exact F2s]. cbn [fst snd]. repeat split; auto.
        rewrite (Psz _ NR), Hsz. destruct (cty_eqb (cd_ty x) (TU Usize)); [reflexivity|exact F3]. }
      intros cuF csF C1 C2.
      destruct (Bind cuF csF C1 C2) as (e' & Fb & Pb & F2b).
      exists e'. rewrite (bind_value decl cv s e x cuF csF v Wx KF DF Sv Rv).
      2:{ eapply ksub_trans; [exact SUB1|]. eapply ksub_trans; eauto. }
      2:{ eapply ksub_trans; [exact SUB2|]. eapply ksub_trans; eauto. }
      fold ex. split; [exact Fb|]. split.
      { intros k Hk. rewrite Pb by (intros y Hy; apply Hk; now right).
        unfold ex. apply kget_kset_other. apply Hk. now left. }
      constructor; [|exact F2b]. cbn [snd]. rewrite (Pb _ NR). unfold ex. apply kget_kset_same.
  Qed.
End Loops.

(* ------------------------------------------------------------------ top level *)

Lemma dget_In (d : deps) k v : dget d k = Some v -> In (k, v) d.
Proof.
  induction d as [|[k' v'] r IH]; cbn [dget]; [discriminate|].
  destruct (dkey_eqb k k') eqn:E.
  - apply dkey_eqb_eq in E. subst k'. intro H. inversion H. now left.
  - intro H. right. auto.
Qed.

Lemma count_existsb k o : Nat.eqb (count_dkey k o) 1 = true -> existsb (dkey_eqb k) o = true.
Proof.
  induction o as [|x r IH]; cbn [count_dkey existsb]; [discriminate|].
  destruct (dkey_eqb k x); [reflexivity|]. cbn [orb Nat.add]. exact IH.
Qed.

Lemma is_order_keys_in o d : is_order o d = true -> keys_in o d.
Proof.
  unfold is_order. rewrite andb_true_iff. intros [H _] k Hk.
  rewrite forallb_forall in H. specialize (H k Hk). destruct (dget d k); [discriminate|discriminate].
Qed.

Lemma is_order_existsb o d k v : is_order o d = true -> dget d k = Some v -> existsb (dkey_eqb k) o = true.
Proof.
  unfold is_order. rewrite andb_true_iff. intros [_ H] Hd.
  rewrite forallb_forall in H. apply dget_In in Hd. specialize (H _ Hd). cbn [fst] in H.
  now apply count_existsb.
Qed.

Lemma sup_ok_dep d sup p n ty meta :
  sup_ok d sup = true -> dget d (p, n) = Some (ty, meta) ->
  exists l v, sup_get sup p n = Some l /\ is_of_type l ty = true /\ lit_val l = Some v /\ in_range ty v = true.
Proof.
  unfold sup_ok. rewrite forallb_forall. intros H Hd. apply dget_In in Hd. specialize (H _ Hd).
  cbn [fst snd] in H. destruct (sup_get sup p n) as [l|]; [|discriminate].
  unfold lit_ok in H. apply andb_true_iff in H as [H1 H2].
  destruct (lit_val l) as [v|] eqn:E; [|discriminate]. exists l, v. repeat split; auto.
Qed.

Lemma sup_ok_err1 d sup k : sup_ok d sup = true -> err1 d sup k = [].
Proof.
  intro H. unfold err1. destruct (dget d k) as [[ty meta]|] eqn:E; [|reflexivity]. destruct k as [p n].
  destruct (sup_ok_dep d sup p n ty meta H E) as (l & v & H1 & H2 & _). cbn [fst snd]. now rewrite H1, H2.
Qed.
Lemma sup_ok_err2 d sup k : sup_ok d sup = true -> err2 d sup k = [].
Proof.
  intro H. unfold err2. destruct (dget d k) as [[ty meta]|] eqn:E; [|reflexivity]. destruct k as [p n].
  destruct (sup_ok_dep d sup p n ty meta H E) as (l & v & H1 & H2 & _). cbn [fst snd]. now rewrite H1, H2.
Qed.

Lemma flat_map_nil {A B} (f : A -> list B) l : (forall x, f x = []) -> flat_map f l = [].
Proof. intro H. induction l as [|a r IH]; cbn [flat_map]; [reflexivity|]. now rewrite H, IH. Qed.

(* the values a successful compilation exposes, in terms of the specification only *)
Definition vals_of (defs : list cdef) (vs : list (N * Z)) : list (N * option (list bool)) :=
  map (fun xv => (cd_name (fst xv), Some (to_bits (snd (snd xv)) (cty_bits (cd_ty (fst xv)))))) (combine defs vs).

(* const_sizes, characterised completely by its lookups *)
Definition sizes_spec (d : deps) (sup : supplied) (defs : list cdef) (vs : list (N * Z)) (sizes : kmap Z) : Prop :=
  Forall2 (fun x nv => kget sizes (KC (cd_name x)) = if cty_eqb (cd_ty x) (TU Usize) then Some (snd nv) else None)
          defs vs /\
  (forall i, (forall x, In x defs -> i <> cd_name x) -> kget sizes (KC i) = None) /\
  (forall p n, kget sizes (KE p n) = fZ d sup (p, n)).

Lemma sizes_spec_kequiv d sup defs vs m m' : sizes_spec d sup defs vs m -> sizes_spec d sup defs vs m' -> kequiv m m'.
Proof.
  intros (A1 & B1 & C1) (A2 & B2 & C2) [i|p n]; [|now rewrite C1, C2].
  destruct (existsb (fun x => N.eqb i (cd_name x)) defs) eqn:E.
  - apply existsb_exists in E as (x & Hx & Hi). apply N.eqb_eq in Hi. subst i.
    clear B1 B2 C1 C2. induction A1 as [|y nv l l' Hy _ IH]; inversion A2; subst; [contradiction|].
    destruct Hx as [->|Hx]; [congruence|auto].
  - rewrite B1, B2; auto; intros x Hx Q; subst i;
      (assert (existsb (fun y => N.eqb (cd_name x) (cd_name y)) defs = true) as Q';
       [apply existsb_exists; exists x; split; [exact Hx|apply N.eqb_refl]|congruence]).
Qed.

Lemma Forall2_impl' {A B} (P Q : A -> B -> Prop) l l' :
  (forall a b, P a b -> Q a b) -> Forall2 P l l' -> Forall2 Q l l'.
Proof. intros H. induction 1; constructor; auto. Qed.

Lemma Forall2_map_combine (defs : list cdef) (vs : list (N * Z)) (e : env) :
  Forall2 (fun x nv => kget e (KC (cd_name x)) = Some (to_bits (snd nv) (cty_bits (cd_ty x)))) defs vs ->
  map (fun x => (cd_name x, kget e (KC (cd_name x)))) defs = vals_of defs vs.
Proof.
  unfold vals_of. induction 1 as [|x nv l l' H _ IH]; cbn [map combine fst snd]; [reflexivity|]. now rewrite H, IH.
Qed.

Theorem compile_consts_spec defs d params sup o1 o2 ob :
  wt_defs d defs = true -> sup_ok d sup = true -> is_order o1 d = true -> is_order o2 d = true ->
  exists vs sizes,
    const_spec sup defs = Some vs /\
    Forall2 (fun x nv => fst nv = cd_name x /\ in_range (cd_ty x) (snd nv) = true) defs vs /\
    sizes_spec d sup defs vs sizes /\
    compile_consts repaired o1 o2 ob defs d params sup =
      (let* ig := wire_params repaired sizes params in
       if (total_bits ig =? 0)%Z then Ok (inl [EZeroInputs])
       else Ok (inr (Build_cout (list_sizes d defs sizes) ig (vals_of defs vs)))).
Proof.
  intros W S O1 O2.
  pose proof (is_order_keys_in _ _ O1) as K1. pose proof (is_order_keys_in _ _ O2) as K2.
  set (s1 := Build_st1 [] (ins_all (fU sup) o1 []) (ins_all (fS sup) o1 []) (ins_all (fZ d sup) o1 [])).
  set (e2 := ins_all (fB d sup) o2 ([] : env)).
  assert (P1 : pass1 repaired o1 d sup = Ok s1).
  { unfold pass1. rewrite (pass1_closed d sup o1 K1). cbn [s_errs s_cu s_cs s_sizes app].
    rewrite flat_map_nil by (intro; now apply sup_ok_err1). reflexivity. }
  assert (P2 : pass2 o2 d sup = Ok ([], e2)).
  { unfold pass2. rewrite (pass2_closed d sup o2 K2). cbn [app].
    rewrite flat_map_nil by (intro; now apply sup_ok_err2). reflexivity. }
  assert (KF : ke_facts d sup s1 e2).
  { intros p n ty meta Hd. destruct (sup_ok_dep d sup p n ty meta S Hd) as (l & v & H1 & H2 & H3 & H4).
    exists l, v. split; [exact H1|]. split; [exact H3|]. split; [exact H4|]. split; [exact H2|].
    pose proof (is_order_existsb _ _ _ _ O1 Hd) as X1. pose proof (is_order_existsb _ _ _ _ O2 Hd) as X2.
    split; [|split].
    - unfold e2. rewrite kget_ins_all_KE, X2. unfold fB. cbn [fst snd]. now rewrite Hd, H1, H2.
    - intro Hn. destruct ty as [|u|s0]; [discriminate| |]; cbn [sel s1 s_cu s_cs].
      + rewrite kget_ins_all_KE, X1. unfold fU. cbn [fst snd]. rewrite H1.
        destruct l; cbn [is_of_type] in H2; try discriminate. cbn in H3. now inversion H3.
      + rewrite kget_ins_all_KE, X1. unfold fS. cbn [fst snd]. rewrite H1.
        destruct l; cbn [is_of_type] in H2; try discriminate. cbn in H3. now inversion H3.
    - intro Hu. subst ty. cbn [s1 s_sizes]. rewrite kget_ins_all_KE, X1. unfold fZ. cbn [fst snd]. rewrite Hd, H1.
      destruct l as [| |v' u|z u|]; cbn [is_of_type] in H2; try discriminate.
      apply uty_eqb_eq in H2. subst u. cbn [is_of_type uty_eqb]. cbn in H3. now inversion H3. }
  assert (DF : decl_facts [] [] s1 e2) by (intros i t Hi; discriminate).
  assert (FF : fresh_facts [] s1).
  { intros i _. cbn [s1 s_cu s_cs s_sizes]. now rewrite !kget_ins_all_KC. }
  destruct (loops_ok d sup defs [] [] s1 e2 W KF DF FF) as (vs & s2 & Cs & Fs & _ & _ & Psz & F2s & Bind).
  destruct (Bind (s_cu s2) (s_cs s2) (ksub_refl _) (ksub_refl _)) as (e' & Fb & _ & F2b).
  exists vs, (s_sizes s2). split; [exact Cs|]. split.
  { eapply Forall2_impl'; [|exact F2s]. cbn beta. intros x nv (A & B & _). auto. }
  split.
  { split; [|split].
    - eapply Forall2_impl'; [|exact F2s]. cbn beta. intros x nv (_ & _ & C). exact C.
    - intros i Hi. rewrite Psz by (intros x Hx Q; inversion Q; eapply Hi; eauto).
      cbn [s1 s_sizes]. now rewrite kget_ins_all_KC.
    - intros p n. rewrite Psz by (intros x Hx; discriminate). cbn [s1 s_sizes].
      rewrite kget_ins_all_KE. destruct (existsb (dkey_eqb (p, n)) o1) eqn:E.
      + destruct (fZ d sup (p, n)); reflexivity.
      + cbn [kget]. unfold fZ. destruct (dget d (p, n)) as [[ty meta]|] eqn:Hd; [|reflexivity].
        rewrite (is_order_existsb _ _ _ _ O1 Hd) in E. discriminate. }
  unfold compile_consts. rewrite P1. cbn [bind s_errs s1 lenN length N.of_nat].
  change (negb (0 =? 0)) with false. cbn iota.
  unfold sorted_loop. fold s1. rewrite Fs. cbn [bind]. rewrite P2. cbn [bind fst snd lenN length N.of_nat].
  change (negb (0 =? 0)) with false. cbn iota.
  destruct (wire_params repaired (s_sizes s2) params) as [ig| |]; cbn [bind]; try reflexivity.
  cbn [c_reject_zero repaired andb]. destruct (total_bits ig =? 0)%Z; [reflexivity|].
  unfold bind_consts. cbn [c_bind_source_order repaired]. rewrite Fb. cbn [bind].
  now rewrite (Forall2_map_combine defs vs e' F2b).
Qed.

(* independence of the three hash-map iteration orders *)
Theorem order_irrelevant defs d params sup o1 o2 ob o1' o2' ob' :
  wt_defs d defs = true -> sup_ok d sup = true ->
  is_order o1 d = true -> is_order o2 d = true -> is_order o1' d = true -> is_order o2' d = true ->
  compile_consts repaired o1 o2 ob defs d params sup = compile_consts repaired o1' o2' ob' defs d params sup.
Proof.
  intros W S A B A' B'.
  destruct (compile_consts_spec defs d params sup o1 o2 ob W S A B) as (vs & sz & C & _ & Z1 & ->).
  destruct (compile_consts_spec defs d params sup o1' o2' ob' W S A' B') as (vs' & sz' & C' & _ & Z2 & ->).
  rewrite C in C'. inversion C'; subst vs'.
  pose proof (sizes_spec_kequiv _ _ _ _ _ _ Z1 Z2) as E.
  rewrite (wire_params_ext repaired sz sz' params E). now rewrite (list_sizes_ext d defs sz sz' E).
Qed.

(* ------------------------------------------------------------------ errors *)

Lemma insert_err_perm x l : Permutation (insert_err x l) (x :: l).
Proof.
  induction l as [|y r IH]; cbn [insert_err]; [reflexivity|].
  destruct (cerr_leb x y); [reflexivity|]. rewrite IH. apply perm_swap.
Qed.
Lemma sort_errs_perm l : Permutation (sort_errs l) l.
Proof.
  unfold sort_errs. induction l as [|x r IH]; cbn [fold_right]; [reflexivity|].
  rewrite insert_err_perm. now constructor.
Qed.

Theorem errors_reported defs d params sup o1 o2 ob :
  is_order o1 d = true ->
  (exists p n ty meta, dget d (p, n) = Some (ty, meta) /\
     match sup_get sup p n with None => True | Some l => is_of_type l ty = false end) ->
  exists es,
    compile_consts repaired o1 o2 ob defs d params sup = Ok (inl es) /\
    (forall p n ty meta, dget d (p, n) = Some (ty, meta) -> sup_get sup p n = None -> In (EMissing p n meta) es) /\
    (forall p n ty meta l, dget d (p, n) = Some (ty, meta) -> sup_get sup p n = Some l ->
                           is_of_type l ty = false -> In (EBadType l ty) es) /\
    Permutation es (flat_map (err1 d sup) o1).
Proof.
  intros O (p0 & n0 & ty0 & meta0 & Hd0 & Hbad).
  pose proof (is_order_keys_in _ _ O) as K.
  set (raw := flat_map (err1 d sup) o1).
  assert (Hin : forall p n ty meta, dget d (p, n) = Some (ty, meta) -> forall e, In e (err1 d sup (p, n)) -> In e raw).
  { intros p n ty meta Hd e He. unfold raw. apply in_flat_map. exists (p, n). split; [|exact He].
    pose proof (is_order_existsb _ _ _ _ O Hd) as X. apply existsb_exists in X as (k & Hk & E).
    apply dkey_eqb_eq in E. now subst k. }
  assert (NE : raw <> []).
  { intro Q. assert (In (match sup_get sup p0 n0 with None => EMissing p0 n0 meta0 | Some l => EBadType l ty0 end) raw).
    { apply (Hin p0 n0 ty0 meta0 Hd0). unfold err1. rewrite Hd0. cbn [fst snd].
      destruct (sup_get sup p0 n0) as [l|]; [rewrite Hbad|]; now left. }
    rewrite Q in H. contradiction. }
  exists (sort_errs raw). split; [|split; [|split]].
  - unfold compile_consts, pass1. rewrite (pass1_closed d sup o1 K). cbn [bind s_errs app]. fold raw.
    destruct raw as [|e r]; [contradiction|]. reflexivity.
  - intros p n ty meta Hd Hs. apply (Permutation_in _ (Permutation_sym (sort_errs_perm raw))).
    apply (Hin p n ty meta Hd). unfold err1. rewrite Hd. cbn [fst snd]. rewrite Hs. now left.
  - intros p n ty meta l Hd Hs Ht. apply (Permutation_in _ (Permutation_sym (sort_errs_perm raw))).
    apply (Hin p n ty meta Hd). unfold err1. rewrite Hd. cbn [fst snd]. rewrite Hs, Ht. now left.
  - apply sort_errs_perm.
Qed.

(* constants that no const definition refers to are ignored: the result depends on the supplied
   constants only through the declared ones *)
Lemma ins_all_ext {V} (f g : dkey -> option V) o m : (forall k, In k o -> f k = g k) -> ins_all f o m = ins_all g o m.
Proof.
  unfold ins_all. revert m. induction o as [|k r IH]; intros m H; cbn [fold_left]; [reflexivity|].
  rewrite (H k (or_introl eq_refl)). apply IH. intros x Hx. apply H. now right.
Qed.

Lemma flat_map_ext_in {A B} (f g : A -> list B) l : (forall a, In a l -> f a = g a) -> flat_map f l = flat_map g l.
Proof.
  induction l as [|a r IH]; intro H; cbn [flat_map]; [reflexivity|].
  rewrite (H a (or_introl eq_refl)), IH; [reflexivity|]. intros x Hx. apply H. now right.
Qed.

Theorem extra_ignored defs d params sup sup' o1 o2 ob :
  is_order o1 d = true -> is_order o2 d = true ->
  (forall p n, dget d (p, n) <> None -> sup_get sup p n = sup_get sup' p n) ->
  compile_consts repaired o1 o2 ob defs d params sup = compile_consts repaired o1 o2 ob defs d params sup'.
Proof.
  intros O1 O2 H.
  pose proof (is_order_keys_in _ _ O1) as K1. pose proof (is_order_keys_in _ _ O2) as K2.
  assert (E1 : forall k, In k o1 -> sup_get sup (fst k) (snd k) = sup_get sup' (fst k) (snd k)).
  { intros [p n] Hk. apply H. now apply K1. }
  assert (E2 : forall k, In k o2 -> sup_get sup (fst k) (snd k) = sup_get sup' (fst k) (snd k)).
  { intros [p n] Hk. apply H. now apply K2. }
  unfold compile_consts, pass1, pass2.
  rewrite !(pass1_closed d _ o1 K1), !(pass2_closed d _ o2 K2).
  rewrite (flat_map_ext_in (err1 d sup) (err1 d sup') o1) by (intros k Hk; unfold err1; now rewrite (E1 k Hk)).
  rewrite (flat_map_ext_in (err2 d sup) (err2 d sup') o2) by (intros k Hk; unfold err2; now rewrite (E2 k Hk)).
  rewrite (ins_all_ext (fU sup) (fU sup') o1) by (intros k Hk; unfold fU; now rewrite (E1 k Hk)).
  rewrite (ins_all_ext (fS sup) (fS sup') o1) by (intros k Hk; unfold fS; now rewrite (E1 k Hk)).
  rewrite (ins_all_ext (fZ d sup) (fZ d sup') o1) by (intros k Hk; unfold fZ; now rewrite (E1 k Hk)).
  rewrite (ins_all_ext (fB d sup) (fB d sup') o2) by (intros k Hk; unfold fB; now rewrite (E2 k Hk)).
  reflexivity.
Qed.

(* ------------------------------------------------------------------ no fuel is involved *)

Definition nofuel {A} (r : res A) : Prop := r <> OutOfFuel.

Lemma bind_nofuel {A B} (r : res A) (f : A -> res B) : nofuel r -> (forall a, nofuel (f a)) -> nofuel (bind r f).
Proof. destruct r; cbn [bind]; unfold nofuel; auto; discriminate. Qed.
Lemma of_option_nofuel {A} (o : option A) : nofuel (of_option o).
Proof. destruct o; cbn; unfold nofuel; discriminate. Qed.
Lemma fold_left_nofuel {A B} (f : res A -> B -> res A) l :
  Forall (fun b => forall acc, nofuel acc -> nofuel (f acc b)) l -> forall a, nofuel a -> nofuel (fold_left f l a).
Proof. induction 1 as [|b r Hb _ IH]; cbn [fold_left]; intros a Ha; auto. Qed.
Lemma ok_nofuel {A} (a : A) : nofuel (Ok a).
Proof. unfold nofuel; discriminate. Qed.

Lemma resolve_nofuel c k bits m e : nofuel (resolve c k bits m e).
Proof.
  induction e as [| |n t|z t|p n|n|args IH|args IH|a b IHa IHb|a b IHa IHb] using cexpr_ind2; cbn [resolve];
    try (unfold nofuel; discriminate); try apply of_option_nofuel.
  - destruct (c_signed_lit c); unfold nofuel; discriminate.
  - apply fold_left_nofuel; [|apply ok_nofuel]. eapply Forall_impl; [|exact IH]. cbn beta. intros a Ha acc Hacc.
    apply bind_nofuel; [exact Hacc|]. intro r. apply bind_nofuel; [exact Ha|]. intro. apply ok_nofuel.
  - apply fold_left_nofuel; [|apply ok_nofuel]. eapply Forall_impl; [|exact IH]. cbn beta. intros a Ha acc Hacc.
    apply bind_nofuel; [exact Hacc|]. intro r. apply bind_nofuel; [exact Ha|]. intro. apply ok_nofuel.
  - apply bind_nofuel; [exact IHa|]. intro x. apply bind_nofuel; [exact IHb|]. intro y.
    unfold arith, truncw. destruct (c_own_width c); [destruct (_ || _)|]; unfold nofuel; discriminate.
  - apply bind_nofuel; [exact IHa|]. intro x. apply bind_nofuel; [exact IHb|]. intro y.
    unfold arith, truncw. destruct (c_own_width c); [destruct (_ || _)|]; unfold nofuel; discriminate.
Qed.

Lemma psize_nofuel c m t : nofuel (psize c m t).
Proof.
  induction t as [|u|s|e n IH|e k IH|e x IH|l IH] using pty_ind2; cbn [psize]; try apply ok_nofuel.
  - apply bind_nofuel; [exact IH|]. intro. apply ok_nofuel.
  - apply bind_nofuel; [exact IH|]. intro. apply bind_nofuel; [apply of_option_nofuel|]. intro. apply ok_nofuel.
  - apply bind_nofuel; [exact IH|]. intro. apply bind_nofuel; [apply resolve_nofuel|]. intro. apply ok_nofuel.
  - apply fold_left_nofuel; [|apply ok_nofuel]. eapply Forall_impl; [|exact IH]. cbn beta. intros a Ha acc Hacc.
    apply bind_nofuel; [exact Hacc|]. intro r. apply bind_nofuel; [exact Ha|]. intro. apply ok_nofuel.
Qed.

Lemma mapM_res_nofuel {A B} (f : A -> res B) l : (forall a, nofuel (f a)) -> nofuel (mapM_res f l).
Proof.
  intro H. induction l as [|a r IH]; cbn [mapM_res]; [apply ok_nofuel|].
  apply bind_nofuel; [apply H|]. intro. apply bind_nofuel; [exact IH|]. intro. apply ok_nofuel.
Qed.

Lemma wire_params_nofuel c m ps : nofuel (wire_params c m ps).
Proof.
  assert (G : nofuel (mapM_res (fun t => let* s := psize c m t in Ok (1%Z, s)) ps)).
  { apply mapM_res_nofuel. intro t. apply bind_nofuel; [apply psize_nofuel|]. intro. apply ok_nofuel. }
  assert (S : forall e n, nofuel (if (n =? 0)%Z then Ok [] else let* s := psize c m e in Ok [(n, s)])).
  { intros e n. destruct (n =? 0)%Z; [apply ok_nofuel|]. apply bind_nofuel; [apply psize_nofuel|]. intro. apply ok_nofuel. }
  unfold wire_params. destruct ps as [|p [|q r]]; try exact G; [|destruct p; exact G].
  destruct p as [| | |e n|e k|e x|l]; try exact G.
  - apply S.
  - apply bind_nofuel; [apply of_option_nofuel|]. intro. apply S.
  - apply bind_nofuel; [apply resolve_nofuel|]. intro. apply S.
Qed.

(* for well-typed definitions (references only to earlier consts: acyclic) and acceptable
   constants the compilation of the consts neither runs out of fuel nor panics, unless the
   wiring of the parameters of main does (types that refer to undeclared consts) *)
Theorem consts_total defs d params sup o1 o2 ob :
  wt_defs d defs = true -> sup_ok d sup = true -> is_order o1 d = true -> is_order o2 d = true ->
  compile_consts repaired o1 o2 ob defs d params sup <> OutOfFuel /\
  (compile_consts repaired o1 o2 ob defs d params sup = Crash ->
   exists sizes vs, const_spec sup defs = Some vs /\ sizes_spec d sup defs vs sizes /\
                    wire_params repaired sizes params = Crash).
Proof.
  intros W S A B.
  destruct (compile_consts_spec defs d params sup o1 o2 ob W S A B) as (vs & sz & C & _ & Z & ->).
  pose proof (wire_params_nofuel repaired sz params) as NF.
  destruct (wire_params repaired sz params) as [ig| |] eqn:E; cbn [bind].
  - split; [destruct (total_bits ig =? 0)%Z; discriminate|]. destruct (total_bits ig =? 0)%Z; discriminate.
  - split; [discriminate|]. intros _. exists sz, vs. auto.
  - exfalso. now apply NF.
Qed.

(* ------------------------------------------------------------------ the code as found *)

(* DESIGN.md §6-21: max starts from 0 *)
Example max_negative_refuted :
  let m := [(KE 0 0, (-5)%Z); (KE 0 1, (-3)%Z)] in
  let e := EMax [EExt 0 0; EExt 0 1] in
  resolve original KI64 32 m e = Ok 0%Z /\ resolve repaired KI64 32 m e = Ok (-3)%Z.
Proof. vm_compute. auto. Qed.

(* §6-22: a signed literal panics ("Not a signed const expr") *)
Example signed_literal_refuted :
  let m := [(KE 0 0, (-5)%Z)] in
  let e := EAdd (EExt 0 0) (ESig (-1) I32) in
  resolve original KI64 32 m e = Crash /\ resolve repaired KI64 32 m e = Ok (-6)%Z.
Proof. vm_compute. auto. Qed.

(* §6-23: max taken in u64, truncated afterwards: 200 + 100 = 300 > 50, 300 mod 256 = 44 *)
Example own_width_refuted :
  let m := [(KE 0 0, 200%Z)] in
  let e := EMax [EAdd (EExt 0 0) (EUns 100 U8); EUns 50 U8] in
  (exists r, resolve original KU64 8 m e = Ok r /\ bits_unsigned (to_bits r 8) = 44%Z) /\
  resolve repaired KU64 8 m e = Ok 50%Z /\
  spec_expr (TU U8) [(0, [(0, LUns 200 U8)])] [] e = Some 50%Z.
Proof. vm_compute. split; [exists 300%Z|]; auto. Qed.

Definition chain_defs : list cdef :=
  [Build_cdef 0 (TS I32) (EExt 9 0); Build_cdef 1 (TS I32) (EId 0);
   Build_cdef 2 (TS I32) (EId 1); Build_cdef 3 (TS I32) (EId 2)].
Definition chain_sup : supplied := [(9, [(0, LSig (-5) I32)])].

(* §6-11 (C06/C12): the result depends on the iteration order of const_defs *)
Example bind_order_refuted :
  let d := snd (check_defs original chain_defs) in
  let o := [(9, 0)] in
  compile_consts original o o [3; 2; 1; 0] chain_defs d [PBool] chain_sup = Crash /\
  (exists out, compile_consts original o o [0; 1; 2; 3] chain_defs d [PBool] chain_sup = Ok (inr out)).
Proof. vm_compute. split; eauto. Qed.

(* found by this check: a usize constant supplied with a literal of another type panics
   (compile.rs:154 / :328) instead of CompilerError::InvalidLiteralType *)
Example mistyped_usize_refuted :
  let defs := [Build_cdef 0 (TU Usize) (EExt 9 0)] in
  let d := snd (check_defs original defs) in
  compile_consts original [(9, 0)] [(9, 0)] [0] defs d [PBool] [(9, [(0, LUns 5 U8)])] = Crash /\
  compile_consts repaired [(9, 0)] [(9, 0)] [0] defs d [PBool] [(9, [(0, LUns 5 U8)])]
  = Ok (inl [EBadType (LUns 5 U8) (TU Usize)]).
Proof. vm_compute. auto. Qed.

(* found by this check: missing + mistyped constants: only the missing ones were named *)
Example missing_and_mistyped_refuted :
  let defs := [Build_cdef 0 (TU U8) (EExt 9 0); Build_cdef 1 (TU U16) (EExt 9 1)] in
  let d := snd (check_defs original defs) in
  let o := [(9, 0); (9, 1)] in
  let sup := [(9, [(0, LTrue)])] in
  compile_consts original o o [0; 1] defs d [PBool] sup = Ok (inl [EMissing 9 1 1]) /\
  compile_consts repaired o o [0; 1] defs d [PBool] sup = Ok (inl [EBadType LTrue (TU U8); EMissing 9 1 1]).
Proof. vm_compute. auto. Qed.

(* found by this check: a u8 const that refers to another const inside + panics
   ("Identifier existence checked during type cheking") *)
Example ref_in_arith_refuted :
  let defs := [Build_cdef 0 (TU U8) (EExt 9 0); Build_cdef 1 (TU U8) (EAdd (EId 0) (EUns 1 U8))] in
  let d := snd (check_defs original defs) in
  let sup := [(9, [(0, LUns 5 U8)])] in
  compile_consts original [(9, 0)] [(9, 0)] [0; 1] defs d [PBool] sup = Crash /\
  (exists out, compile_consts repaired [(9, 0)] [(9, 0)] [0; 1] defs d [PBool] sup = Ok (inr out) /\
               co_vals out = [(0, Some (to_bits 5 8)); (1, Some (to_bits 6 8))]).
Proof. vm_compute. split; eauto. Qed.

(* §6-8: a zero-sized single array parameter gives a circuit without inputs *)
Example zero_inputs_refuted :
  let defs := [Build_cdef 0 (TU Usize) (EExt 9 0)] in
  let d := snd (check_defs original defs) in
  let sup := [(9, [(0, LUns 0 Usize)])] in
  (exists out, compile_consts original [(9, 0)] [(9, 0)] [0] defs d [PArrC (PU U8) 0] sup = Ok (inr out) /\
               co_ig out = []) /\
  compile_consts repaired [(9, 0)] [(9, 0)] [0] defs d [PArrC (PU U8) 0] sup = Ok (inl [EZeroInputs]).
Proof. vm_compute. split; eauto. Qed.

(* found by this check: arithmetic in a bool const passes the checker and panics in the compiler *)
Example bool_arith_refuted :
  let defs := [Build_cdef 0 TBool (EMax [ETrue; EFalse])] in
  fst (check_defs original defs) = [] /\
  compile_consts original [] [] [0] defs [] [PBool] [] = Crash /\
  fst (check_defs repaired defs) = [(0, TExpectedNumberType)].
Proof. vm_compute. auto. Qed.

(* non-vacuity of the hypotheses of the theorems: the documented example
     const MY_CONST: usize = min(PARTY_0::MY_CONST, PARTY_1::MY_CONST) + 5usize;
     const DEPENDENT_CONST: usize = max(MY_CONST, PARTY_1::MY_CONST - 2usize) + 6usize;
   with 3 and 2 supplied: MY_CONST = 7, DEPENDENT_CONST = 13 *)
Definition doc_defs : list cdef :=
  [Build_cdef 1 (TU Usize) (EAdd (EMin [EExt 10 1; EExt 11 1]) (EUns 5 Usize));
   Build_cdef 0 (TU Usize) (EAdd (EMax [EId 1; ESub (EExt 11 1) (EUns 2 Usize)]) (EUns 6 Usize))].
Definition doc_sup : supplied := [(10, [(1, LUns 3 Usize)]); (11, [(1, LUns 2 Usize)])].
Example hypotheses_satisfiable :
  let d := snd (check_defs repaired doc_defs) in
  fst (check_defs repaired doc_defs) = [] /\
  wt_defs d doc_defs = true /\ sup_ok d doc_sup = true /\
  is_order [(11, 1); (10, 1)] d = true /\ is_order [(10, 1); (11, 1)] d = true /\
  const_spec doc_sup doc_defs = Some [(1, 7%Z); (0, 13%Z)] /\
  exists out, compile_consts repaired [(11, 1); (10, 1)] [(10, 1); (11, 1)] [] doc_defs d [PArrC (PU U16) 0] doc_sup
              = Ok (inr out) /\ co_ig out = [(13%Z, 16%Z)] /\
              co_vals out = [(1, Some (to_bits 7 32)); (0, Some (to_bits 13 32))].
Proof. vm_compute. repeat split; eauto. Qed.
