(* DEFINEDNESS OF THE BIT-LEVEL SEMANTICS DEPENDS ON THE SHAPE OF THE INPUT ONLY.
   The parametricity theorem ParamLower.lower_param instantiated with OA = OB = tops and
   the everywhere-true relations: two runs of the generic lowering over Booleans whose
   inputs have the same lengths are both Ok or both not, and their results have the same
   lengths -- every operation of tops is Ok or Crash depending only on the LENGTHS of its
   arguments.  Consequence: the precondition "tsem_program ... = Ok" of
   LowerSound.lower_program_sound needs ONE witness input, not one per input. *)
From Coq Require Import Permutation.
From GV Require Import Base.Util Base.NMap Lang.Ast Circuit.Ssa Circuit.SsaProofs Builder.Builder Builder.Build
  Gadgets.GadgetSpec Gadgets.GadgetHoare Sort.Sort Sort.SortProofs
  Panic.PanicRec Panic.PanicSem Compile.Lower Compile.TSem Compile.LowerSound
  Compile.ParamBase Compile.ParamHelpers Compile.ParamLower.

(* ------------------------------------------------------------------ the everywhere-true relation *)

Definition TT {A B : Type} : A -> B -> Prop := fun _ _ => True.

Lemma F2T_of_length {A B} (x : list A) : forall (y : list B), length x = length y -> Forall2 TT x y.
Proof.
  induction x as [|a x IH]; intros [|b y] H; cbn [length] in H; try discriminate; constructor.
  - exact I.
  - apply IH. congruence.
Qed.

Lemma F2T_length {A B} (x : list A) (y : list B) : Forall2 TT x y -> length x = length y.
Proof. apply F2_length. Qed.

Lemma F2T_iff {A B} (x : list A) (y : list B) : Forall2 TT x y <-> length x = length y.
Proof. split; [apply F2T_length|apply F2T_of_length]. Qed.

(* lists of lists: same number of elements, of the same lengths *)
Lemma F2TT_iff {A B} (x : list (list A)) (y : list (list B)) :
  Forall2 (Forall2 TT) x y <-> Forall2 (fun a b => length a = length b) x y.
Proof. split; apply F2_impl'; intros a b; apply F2T_iff. Qed.

Lemma Forall_Forall2 {A B} (P : A -> Prop) (Q : B -> Prop) (R : A -> B -> Prop) (x : list A) :
  (forall a b, P a -> Q b -> R a b) ->
  forall y, Forall P x -> Forall Q y -> length x = length y -> Forall2 R x y.
Proof.
  intro H. induction x as [|a x IH]; intros [|b y] Hx Hy L; cbn [length] in L; try discriminate; constructor.
  - apply H; [now inversion Hx|now inversion Hy].
  - apply IH; [now inversion Hx|now inversion Hy|congruence].
Qed.

(* ------------------------------------------------------------------ sorting networks: shapes *)

Lemma elems_shape_spec bits (v : list (list bool)) :
  elems_shape bits v = true <->
  (v = [] \/ exists L, Forall (fun y => length y = L) v /\ (bits <= L)%nat).
Proof.
  destruct v as [|x v]; cbn [elems_shape]; [split; auto|].
  rewrite andb_true_iff, forallb_forall, Nat.leb_le. split.
  - intros [H1 H2]. right. exists (length x). split; [|exact H2].
    apply Forall_forall. intros y Hy. apply Nat.eqb_eq. apply H1. exact Hy.
  - intros [H|(L & HF & HL)]; [discriminate|].
    pose proof (Forall_inv HF) as Hx. cbn beta in Hx. rewrite Hx. split; [|exact HL].
    intros y Hy. apply Nat.eqb_eq. rewrite Forall_forall in HF. apply HF. exact Hy.
Qed.

Lemma elems_shape_transfer bits (v vv : list (list bool)) :
  Forall2 (Forall2 TT) v vv -> elems_shape bits vv = true ->
  elems_shape bits v = true /\
  (vv = [] /\ v = [] \/
   exists L, Forall (fun y => length y = L) v /\ Forall (fun y => length y = L) vv).
Proof.
  intros H E. apply elems_shape_spec in E. destruct E as [->|(L & HF & HL)].
  - inversion H; subst. split; [reflexivity|]. left. split; reflexivity.
  - assert (HF' : Forall (fun y => length y = L) v).
    { clear HL. induction H as [|a b v vv Hab _ IH]; constructor.
      - rewrite (F2T_length _ _ Hab). now inversion HF.
      - apply IH. now inversion HF. }
    split; [|right; exists L; split; assumption].
    apply elems_shape_spec. right. exists L. split; assumption.
Qed.

Lemma net_shape (f g : list (list bool) -> list (list bool)) v vv :
  (forall u, Permutation (f u) u) -> (forall u, Permutation (g u) u) ->
  (forall u, length (f u) = length u) -> (forall u, length (g u) = length u) ->
  Forall2 (Forall2 TT) v vv ->
  (vv = [] /\ v = [] \/
   exists L, Forall (fun y => length y = L) v /\ Forall (fun y => length y = L) vv) ->
  Forall2 (Forall2 TT) (f v) (g vv).
Proof.
  intros Pf Pg Lf Lg H [[-> ->]|(L & Hv & Hvv)].
  - pose proof (Lf []) as L1. pose proof (Lg []) as L2. cbn [length] in L1, L2.
    destruct (f []); [|discriminate]. destruct (g []); [|discriminate]. constructor.
  - apply (Forall_Forall2 (fun y => length y = L) (fun y => length y = L)).
    + intros a b Ha Hb. apply F2T_of_length. congruence.
    + eapply Permutation_Forall; [apply Permutation_sym, Pf|exact Hv].
    + eapply Permutation_Forall; [apply Permutation_sym, Pg|exact Hvv].
    + rewrite Lf, Lg. eapply F2_length; eauto.
Qed.

(* ------------------------------------------------------------------ the instance *)

Lemma same_len_true {A B} (x : list A) (y : list B) : same_len x y = true -> length x = length y.
Proof. unfold same_len. apply Nat.eqb_eq. Qed.

Definition trueS : pobs -> pobs -> Prop := fun _ _ => True.

Ltac shape_pure :=
  let y := fresh "y" in let o' := fresh "o'" in let E := fresh "E" in
  intros y o' E; cbn in E; injection E as <- <-;
  eexists; eexists; split; [reflexivity|]; split; [exact I|]; split; [exact I|].

Ltac shape_guard G :=
  let y := fresh "y" in let o' := fresh "o'" in let E := fresh "E" in
  intros y o' E; cbv beta in E;
  match type of E with (if ?g then _ else _) = _ => destruct g eqn:G; [|discriminate] end;
  injection E as <- <-.

Ltac shape_done := eexists; eexists; split; [reflexivity|]; split; [exact I|]; split; [exact I|].

Definition shape_rel : param_rel tops tops.
Proof.
  refine (mkParamRel _ _ _ _ _ _ tops tops
            (fun _ _ => True) (fun _ => True) (fun _ _ _ => True) (fun _ _ _ => True) (fun _ _ => True)
            _ _ _ _ _ _ _ _ _ _ _ _ _ _ _ _ _ _ _ _ _ _ _ _ _ _ _); try (intros; exact I).
  - (* xor *) intros s o x y vx vy _ _ _. shape_pure. exact I.
  - (* and *) intros s o x y vx vy _ _ _. shape_pure. exact I.
  - (* or *) intros s o x y vx vy _ _ _. shape_pure. exact I.
  - (* eq *) intros s o x y vx vy _ _ _. shape_pure. exact I.
  - (* not *) intros s o x vx _ _. shape_pure. exact I.
  - (* mux *) intros s o c x0 x1 vc v0 v1 _ _ _ _. shape_pure. exact I.
  - (* negation *) intros s o x vx _ Hx. shape_pure.
    apply F2T_of_length. rewrite !negation_s_length. apply (F2T_length _ _ Hx).
  - (* addition *) intros s o x y vx vy _ Hx Hy. apply F2T_length in Hx, Hy.
    cbn [o_addition tops]. shape_guard G. apply same_len_true in G.
    assert (L : length x = length y) by congruence.
    unfold same_len. rewrite (proj2 (Nat.eqb_eq _ _) L). shape_done.
    split; [|split; exact I]. apply F2T_of_length. rewrite !addition_s_length by assumption. exact Hx.
  - (* subtraction *) intros s o x y sg vx vy _ Hx Hy. apply F2T_length in Hx, Hy.
    cbn [o_subtraction tops]. shape_guard G. apply andb_prop in G. destruct G as [G1 G2]. apply same_len_true in G1.
    assert (L : length x = length y) by congruence.
    assert (G2' : negb sg || nonempty x = true).
    { destruct sg; [|reflexivity]. cbn [negb orb] in *. destruct x, vx; cbn in *; try discriminate; reflexivity. }
    unfold same_len. rewrite (proj2 (Nat.eqb_eq _ _) L), G2'. cbn [andb]. shape_done.
    split; [|exact I]. apply F2T_of_length. rewrite !subtraction_s_length by assumption. exact Hx.
  - (* multiplier *) intros s o x y z c vx vy vz vc _ _ _ _ _. shape_pure. split; exact I.
  - (* udiv *) intros s o x y vx vy _ Hx Hy. apply F2T_length in Hx, Hy.
    cbn [o_udiv tops]. shape_guard G. apply same_len_true in G.
    assert (L : length x = length y) by congruence.
    unfold same_len. rewrite (proj2 (Nat.eqb_eq _ _) L). shape_done.
    destruct (udiv_s_length x y L) as [A1 A2]. destruct (udiv_s_length vx vy G) as [B1 B2].
    split; apply F2T_of_length; congruence.
  - (* sdiv *) intros s o x y vx vy _ Hx Hy. apply F2T_length in Hx, Hy.
    cbn [o_sdiv tops]. shape_guard G. apply andb_prop in G. destruct G as [G1 G2]. apply same_len_true in G1.
    assert (L : length x = length y) by congruence.
    assert (G2' : nonempty x = true) by (destruct x, vx; cbn in *; try discriminate; reflexivity).
    unfold same_len. rewrite (proj2 (Nat.eqb_eq _ _) L), G2'. cbn [andb]. shape_done.
    rewrite !sdiv_s_eq. cbv zeta. cbn [fst snd].
    match goal with |- context [udiv_s ?a ?b] =>
      destruct (udiv_s_length a b) as [A1 A2];
        [rewrite !mux_all_s_length, !negation_s_length; lia|] end.
    match goal with |- context [udiv_s (mux_all_s (hd false vx) ?a ?a') ?b] =>
      destruct (udiv_s_length (mux_all_s (hd false vx) a a') b) as [B1 B2];
        [rewrite !mux_all_s_length, !negation_s_length; lia|] end.
    rewrite !mux_all_s_length, !negation_s_length in A1, A2, B1, B2.
    split; apply F2T_of_length; rewrite !mux_all_s_length, !negation_s_length; lia.
  - (* comparator *) intros s o bits x sx y sy vx vy _ Hx Hy. apply F2T_length in Hx, Hy.
    cbn [o_comparator tops]. shape_guard G. rewrite Hx, Hy, G. shape_done. split; exact I.
  - (* eq_circuit *) intros s o x y vx vy _ _ _. shape_pure. exact I.
  - (* merger *) intros s o bits asc v vv _ Hv. cbn [o_merger tops]. shape_guard G.
    destruct (elems_shape_transfer _ _ _ Hv G) as [G' Hsh]. rewrite G'. shape_done.
    apply net_shape; auto using bitonic_merger_perm, bitonic_merger_length.
  - (* sorter *) intros s o bits v vv _ Hv. cbn [o_sorter tops]. shape_guard G.
    destruct (elems_shape_transfer _ _ _ Hv G) as [G' Hsh]. rewrite G'. shape_done.
    apply net_shape; auto using bitonic_sorter_perm, bitonic_sorter_length.
  - (* panic_if *) intros s o c vc r m _ _. shape_pure. exact I.
  - (* peek *) intros s o _. shape_pure. exact I.
  - (* replace *) intros s o P ob _ _. shape_pure. exact I.
  - (* mux_panic *) intros s o c vc T F oT oF _ _ _ _. shape_pure. exact I.
Defined.

(* ------------------------------------------------------------------ what the relations mean *)

Lemma Rws_shape s (x y : list bool) : Rws shape_rel s x y <-> length x = length y.
Proof. exact (F2T_iff x y). Qed.

Lemma Rwss_shape s (x y : list (list bool)) :
  Rwss shape_rel s x y <-> Forall2 (fun a b => length a = length b) x y.
Proof. exact (F2TT_iff x y). Qed.

(* environments of the same shape: the same scopes with the same names, values of the same
   lengths *)
Definition same_shape_bind (a b : N * list bool) : Prop := fst a = fst b /\ length (snd a) = length (snd b).
Definition same_shape_env (E E' : @cenv bool) : Prop := Forall2 (Forall2 same_shape_bind) E E'.

Lemma RE_shape s (E E' : @cenv bool) : RE shape_rel s E E' <-> same_shape_env E E'.
Proof.
  unfold RE, Rscope, same_shape_env. split; apply F2_impl'; intros a b; apply F2_impl'; intros p q [H1 H2];
    (split; [exact H1|]); apply (Rws_shape s); exact H2.
Qed.

Lemma RS_shape (s o : pobs) : RS shape_rel s o.
Proof. exact I. Qed.

(* ------------------------------------------------------------------ expressions, blocks *)

Section Shape.
Variable fuel : nat.
Variable P : program.

(* [E'] has the shape of [E]; the panic observations [o], [o'] are arbitrary *)
Theorem lower_expr_shape e (E E' : @cenv bool) (o o' : pobs) w E1 o1 :
  same_shape_env E' E ->
  lower_expr tops fuel P e E o = Ok ((w, E1), o1) ->
  exists w' E1' o1', lower_expr tops fuel P e E' o' = Ok ((w', E1'), o1') /\
                     length w' = length w /\ same_shape_env E1' E1.
Proof.
  intros HE H. destruct (lower_param shape_rel P fuel) as (He & _).
  destruct (He e o' o E' E (RS_shape _ _) (proj2 (RE_shape o' _ _) HE) _ _ H) as ([w' E1'] & o1' & Hr & _ & _ & Hw & HE1).
  exists w', E1', o1'. split; [exact Hr|]. cbn [fst snd] in Hw, HE1.
  split; [apply (Rws_shape o1'); exact Hw|apply (RE_shape o1'); exact HE1].
Qed.

Theorem lower_pattern_shape p (mw mw' : list bool) (E E' : @cenv bool) (o o' : pobs) b E1 o1 :
  length mw' = length mw -> same_shape_env E' E ->
  lower_pattern tops fuel P p mw E o = Ok ((b, E1), o1) ->
  exists b' E1' o1', lower_pattern tops fuel P p mw' E' o' = Ok ((b', E1'), o1') /\ same_shape_env E1' E1.
Proof.
  intros Hmw HE H. destruct (lower_param shape_rel P fuel) as (_ & Hp & _).
  destruct (Hp p o' o mw' mw E' E (RS_shape _ _) (proj2 (Rws_shape o' _ _) Hmw) (proj2 (RE_shape o' _ _) HE) _ _ H)
    as ([b' E1'] & o1' & Hr & _ & _ & _ & HE1).
  exists b', E1', o1'. split; [exact Hr|]. cbn [snd] in HE1. apply (RE_shape o1'); exact HE1.
Qed.

Theorem lower_stmt_shape st (E E' : @cenv bool) (o o' : pobs) w E1 o1 :
  same_shape_env E' E ->
  lower_stmt tops fuel P st E o = Ok ((w, E1), o1) ->
  exists w' E1' o1', lower_stmt tops fuel P st E' o' = Ok ((w', E1'), o1') /\
                     length w' = length w /\ same_shape_env E1' E1.
Proof.
  intros HE H. destruct (lower_param shape_rel P fuel) as (_ & _ & Hs & _).
  destruct (Hs st o' o E' E (RS_shape _ _) (proj2 (RE_shape o' _ _) HE) _ _ H) as ([w' E1'] & o1' & Hr & _ & _ & Hw & HE1).
  exists w', E1', o1'. split; [exact Hr|]. cbn [fst snd] in Hw, HE1.
  split; [apply (Rws_shape o1'); exact Hw|apply (RE_shape o1'); exact HE1].
Qed.

Theorem lower_block_shape ss (E E' : @cenv bool) (o o' : pobs) w E1 o1 :
  same_shape_env E' E ->
  lower_block tops fuel P ss E o = Ok ((w, E1), o1) ->
  exists w' E1' o1', lower_block tops fuel P ss E' o' = Ok ((w', E1'), o1') /\
                     length w' = length w /\ same_shape_env E1' E1.
Proof.
  intros HE H. destruct (lower_param shape_rel P fuel) as (_ & _ & _ & Hb).
  destruct (Hb ss o' o E' E (RS_shape _ _) (proj2 (RE_shape o' _ _) HE) _ _ H) as ([w' E1'] & o1' & Hr & _ & _ & Hw & HE1).
  exists w', E1', o1'. split; [exact Hr|]. cbn [fst snd] in Hw, HE1.
  split; [apply (Rws_shape o1'); exact Hw|apply (RE_shape o1'); exact HE1].
Qed.

Lemma main_env_shape (bs bs' : list (N * list bool)) E :
  Forall2 same_shape_bind bs' bs -> main_env tops P bs = Ok E ->
  exists E', main_env tops P bs' = Ok E' /\ same_shape_env E' E.
Proof.
  intros Hb H.
  destruct (rel_main_env shape_rel None None P bs' bs E (RS_shape _ _)) as (E' & HE' & HR); [|exact H|].
  - eapply F2_impl'; [|exact Hb]. intros a b [H1 H2]. split; [exact H1|]. apply (Rws_shape None). exact H2.
  - exists E'. split; [exact HE'|]. apply (RE_shape None). exact HR.
Qed.

(* ------------------------------------------------------------------ programs *)

(* If the bit-level semantics is defined on ONE input of a given shape it is defined on ALL
   inputs of that shape, and the result has the same number of bits. *)
Theorem tsem_defined_shape_only args args' :
  Forall2 (fun a a' => length a = length a') args args' ->
  forall r, tsem_program fuel P args = Ok r ->
  exists r', tsem_program fuel P args' = Ok r' /\ length (snd r') = length (snd r).
Proof.
  intros Hargs r H. unfold tsem_program in *.
  destruct (find_fn P (p_main P)) as [fd|]; [|discriminate].
  pose proof (F2_length _ _ _ Hargs) as Hlen.
  unfold same_len in *. rewrite <- Hlen.
  destruct (negb (length (fn_params fd) =? length args)%nat); [discriminate|].
  destruct (main_env tops P (combine (map fst (fn_params fd)) args)) as [E0| |] eqn:EE; cbn [bind] in H; try discriminate.
  destruct (main_env_shape (combine (map fst (fn_params fd)) args) (combine (map fst (fn_params fd)) args') E0)
    as (E0' & -> & HE0); [|exact EE|].
  { clear - Hargs. generalize (map fst (fn_params fd)) as ns.
    induction Hargs as [|a a' args args' Ha _ IH]; intros [|n ns]; cbn [combine]; constructor.
    - split; [reflexivity|]. cbn [snd]. symmetry. exact Ha.
    - apply IH. }
  cbn [bind].
  destruct (lower_block tops fuel P (fn_body fd) E0 None) as [[[outs Eend] o]| |] eqn:Eb; cbn [bind] in H; try discriminate.
  injection H as <-.
  destruct (lower_block_shape (fn_body fd) E0 E0' None None outs Eend o HE0 Eb) as (outs' & Eend' & o' & -> & Hl & _).
  cbn [bind]. eexists. split; [reflexivity|]. cbn [snd]. exact Hl.
Qed.

End Shape.

(* ------------------------------------------------------------------ one witness is enough *)

Lemma param_args_shape (bindings : list (N * list N)) inp :
  Forall2 (fun b a => length a = length (snd b)) bindings (param_args bindings inp).
Proof.
  unfold param_args. induction bindings as [|b bs IH]; cbn [map]; constructor; [apply map_length|exact IH].
Qed.

Lemma wire_range_length from n : length (wire_range from n) = n.
Proof. unfold wire_range. rewrite map_length. apply seq_length. Qed.

(* how the shape of the witness relates to the input gates of the circuit: one party per
   parameter, of the size of the parameter's wires -- or, for a single array parameter, one
   party per element *)
Lemma fold_wiring_sizes P params : forall (igs : list N) (bs : list (N * list N)) (wire : N),
  map (fun b => N.of_nat (length (snd b))) bs = igs ->
  let '(igs', bs', _) :=
    fold_left (fun '(igs, bs, wire) '(x, t) =>
                 let s := szn P t in
                 (igs ++ [N.of_nat s], bs ++ [(x, wire_range wire s)], wire + N.of_nat s))
              params (igs, bs, wire) in
  map (fun b => N.of_nat (length (snd b))) bs' = igs'.
Proof.
  induction params as [|[x t] params IH]; intros igs bs wire H; cbn [fold_left]; [exact H|].
  apply IH. rewrite map_app. f_equal; [exact H|]. cbn [map snd]. rewrite wire_range_length. reflexivity.
Qed.

Lemma param_wiring_sizes P params igs bs : param_wiring P params = (igs, bs) ->
  (exists x el n ws, params = [(x, TArr el n)] /\ bs = [(x, ws)] /\
     igs = repeat (N.of_nat (szn P el)) (N.to_nat n) /\ length ws = (szn P el * N.to_nat n)%nat) \/
  map (fun b => N.of_nat (length (snd b))) bs = igs.
Proof.
  unfold param_wiring.
  assert (Gen : forall igs bs,
    (let '(igs0, bs0, _) :=
       fold_left (fun '(igs, bs, wire) '(x, t) =>
                    let s := szn P t in
                    (igs ++ [N.of_nat s], bs ++ [(x, wire_range wire s)], wire + N.of_nat s))
                 params ([], [], 2) in (igs0, bs0)) = (igs, bs) ->
    map (fun b => N.of_nat (length (snd b))) bs = igs).
  { intros igs0 bs0. pose proof (fold_wiring_sizes P params [] [] 2 eq_refl) as H.
    destruct (fold_left _ params _) as [[i b] w]. intros [= <- <-]. exact H. }
  destruct params as [|[x t] [|p2 ps]]; [right; now apply Gen| |right; destruct t; now apply Gen].
  destruct t; try (right; now apply Gen).
  intros [= <- <-]. left. do 4 eexists. split; [reflexivity|]. split; [reflexivity|]. split; [reflexivity|].
  apply wire_range_length.
Qed.

Section Witness.
Variable fuel : nat.
Variable dedup : bool.
Variable P : program.

(* LowerSound.lower_program_sound with its per-input precondition discharged from ONE
   witness: if the model of the compiler produced a circuit, and the bit-level semantics is
   defined on ONE argument list [args0] of the shape of main's parameter wires, then for
   EVERY input of the circuit the semantics is defined, the emitted circuit validates and
   its output decodes to the panic / the value bits of the semantics on that input. *)
Theorem lower_program_sound_one_witness s1 outs :
  lower_main_with fuel dedup P = Ok (PreOk s1 outs) ->
  counter (cb s1) + (b_shift (cb s1) - 2) <= MAX_GATES ->
  exists fd igs bindings,
    find_fn P (p_main P) = Some fd /\ param_wiring P (fn_params fd) = (igs, bindings) /\
    forall args0 r0,
      Forall2 (fun b a => length a = length (snd b)) bindings args0 ->
      tsem_program fuel P args0 = Ok r0 ->
      forall ins inp,
        load_inputs igs ins = Some inp ->
        exists o vouts c out,
          tsem_program fuel P (param_args bindings inp) = Ok (o, vouts) /\
          length vouts = length (snd r0) /\
          lower_program_with fuel dedup P = Ok (LCircuit c) /\
          ssa_validate c = None /\ input_gates c = igs /\
          length (output_gates c) = (161 + length vouts)%nat /\
          ssa_eval c ins = Some out /\
          parse_panic out = parse_spec o vouts /\
          (o = None -> skipn 161 out = vouts).
Proof.
  intros Hmain Hmax.
  destruct (lower_program_sound fuel dedup P s1 outs Hmain Hmax) as (fd & igs & bindings & Efd & Epw & Hsound).
  exists fd, igs, bindings. split; [exact Efd|]. split; [exact Epw|].
  intros args0 r0 Hshape H0 ins inp Hload.
  destruct (tsem_defined_shape_only fuel P args0 (param_args bindings inp)) with (r := r0) as ([o vouts] & Ht & Hl);
    [|exact H0|].
  { pose proof (param_args_shape bindings inp) as Hp. clear - Hshape Hp.
    revert Hp. generalize (param_args bindings inp) as args1.
    induction Hshape as [|b a bs args0 Hb _ IH]; intros args1 Hp.
    - inversion Hp. constructor.
    - inversion Hp as [|b' y bs' l' H1 H3]; subst. constructor; [exact (eq_trans Hb (eq_sym H1))|apply IH; exact H3]. }
  cbn [snd] in Hl.
  destruct (Hsound ins inp o vouts Hload Ht) as (c & out & H1 & H2 & H3 & H4 & H5 & H6 & H7).
  exists o, vouts, c, out. repeat (split; [assumption|]). assumption.
Qed.

(* the witness may be one sampled input [inp0] of the circuit (any bit list: missing bits
   read as false) *)
Corollary lower_program_sound_one_sample s1 outs :
  lower_main_with fuel dedup P = Ok (PreOk s1 outs) ->
  counter (cb s1) + (b_shift (cb s1) - 2) <= MAX_GATES ->
  exists fd igs bindings,
    find_fn P (p_main P) = Some fd /\ param_wiring P (fn_params fd) = (igs, bindings) /\
    forall inp0 r0,
      tsem_program fuel P (param_args bindings inp0) = Ok r0 ->
      forall ins inp,
        load_inputs igs ins = Some inp ->
        exists o vouts c out,
          tsem_program fuel P (param_args bindings inp) = Ok (o, vouts) /\
          length vouts = length (snd r0) /\
          lower_program_with fuel dedup P = Ok (LCircuit c) /\
          ssa_validate c = None /\ input_gates c = igs /\
          length (output_gates c) = (161 + length vouts)%nat /\
          ssa_eval c ins = Some out /\
          parse_panic out = parse_spec o vouts /\
          (o = None -> skipn 161 out = vouts).
Proof.
  intros Hmain Hmax.
  destruct (lower_program_sound_one_witness s1 outs Hmain Hmax) as (fd & igs & bindings & Efd & Epw & H).
  exists fd, igs, bindings. split; [exact Efd|]. split; [exact Epw|].
  intros inp0 r0 H0. apply (H (param_args bindings inp0) r0); [apply param_args_shape|exact H0].
Qed.

End Witness.

Print Assumptions tsem_defined_shape_only.
Print Assumptions lower_program_sound_one_witness.
