(* THE END-TO-END THEOREM FOR FOR-JOIN PROGRAMS (C13 at circuit level).

   Compile/EndToEnd.v composes the circuit theorem with "TSem = Sem.v" through
   TSemTotal.lower_program_total, which needs the crash-freedom conditions of Compile/TSemSafe.v --
   and those exclude for-join loops.  Here the ONE-WITNESS form of the circuit theorem is used
   instead (Compile/TSemShape.lower_program_sound_one_witness: whether the bit-level semantics
   is defined depends only on the SHAPE of the arguments, so one defined run gives all): the
   witness is the run on the all-zero arguments, a Boolean the checker evaluates
   ([tsem_witness]).  Everything else is as in [end_to_end]; the extra premise on the inputs is
   the run-time precondition of the join, [join_inputs_sorted]. *)
From Coq Require Import Lia ZArith List. Import ListNotations.
From GV Require Import Base.Util Lang.Ast Lang.Wt Lang.ValTy Circuit.Ssa Circuit.Reg Circuit.RegAlloc
  Circuit.RegAllocProofs Builder.Builder Panic.PanicRec Panic.PanicSem Compile.Lower Compile.TSem
  Compile.LowerSound Compile.TSemShape Compile.TSemSemExpr Compile.TSemSemFull Compile.TSemSemJoin
  Compile.TSemSemFullJoin Compile.TSemSemFullWt Compile.SemFuel Compile.JoinProgram Compile.EndToEnd.
From GV Require Lang.Sem.
Local Open Scope N_scope.

(* arguments of the shape of main's parameter wires: all bits zero *)
Definition zero_args (P : program) : list (list bool) :=
  map (fun b : N * list N => repeat false (length (snd b))) (snd (main_wiring P)).

(* the bit-level semantics is defined on them *)
Definition tsem_witness (fuel : nat) (P : program) : bool :=
  match tsem_program fuel P (zero_args P) with Ok _ => true | _ => false end.

(* all the per-program checks for a for-join program *)
Definition certified_join (fuel : nat) (P : program) : bool :=
  join_covered 400 P && sem_fuel_enough fuel P && tsem_witness fuel P.

Lemma zero_args_shape (bs : list (N * list N)) :
  Forall2 (fun b a => length a = length (snd b)) bs (map (fun b : N * list N => repeat false (length (snd b))) bs).
Proof. induction bs as [|b bs IH]; cbn [map]; constructor; [apply repeat_length|exact IH]. Qed.

(* totality from the witness: the bit-level semantics is defined on EVERY argument list whose
   bit vectors have the lengths of main's parameter wires (whether it is defined depends on the
   shape of the arguments only: Compile/TSemShape.v) *)
Theorem tsem_witness_total fuel P args : tsem_witness fuel P = true ->
  Forall2 (fun (b : N * list N) a => length a = length (snd b)) (snd (main_wiring P)) args ->
  exists o outs, tsem_program fuel P args = Ok (o, outs).
Proof.
  unfold tsem_witness, zero_args. intros Hw Hsh.
  destruct (tsem_program fuel P (map (fun b : N * list N => repeat false (length (snd b))) (snd (main_wiring P))))
    as [r0| |] eqn:H0; try discriminate Hw.
  destruct (tsem_defined_shape_only fuel P
              (map (fun b : N * list N => repeat false (length (snd b))) (snd (main_wiring P))) args) with (r := r0)
    as ([o outs] & Ht & _); [|exact H0|eauto].
  clear - Hsh. induction Hsh as [|b a bs args Hb _ IH]; cbn [map]; constructor; [now rewrite repeat_length|exact IH].
Qed.
Print Assumptions tsem_witness_total.

Theorem end_to_end_join fuel dedup P c :
  certified_join fuel P = true -> within_gate_bound fuel dedup P = true ->
  lower_program_with fuel dedup P = Ok (LCircuit c) ->
  ssa_validate c = None /\ input_gates c = fst (main_wiring P) /\
  forall ins inp,
    load_inputs (input_gates c) ins = Some inp ->
    canonical_main_args P (main_args P inp) = true ->
    join_inputs_sorted P (main_args P inp) ->
    exists out, ssa_eval c ins = Some out /\ output_spec fuel P (main_args P inp) out.
Proof.
  intros Hcert Hgb Hc. unfold certified_join in Hcert.
  apply andb_prop in Hcert. destruct Hcert as [Hcert Hw]. apply andb_prop in Hcert. destruct Hcert as [Hcov Hsf].
  destruct (within_gate_bound_spec fuel dedup P Hgb) as (s & outs & Hmain & Hmax).
  destruct (lower_program_sound_one_witness fuel dedup P s outs Hmain Hmax) as (fd & igs & bindings & Efd & Epw & H).
  assert (Hmw : main_wiring P = (igs, bindings)) by (unfold main_wiring; now rewrite Efd).
  unfold tsem_witness, zero_args in Hw. rewrite Hmw in Hw. cbn [snd] in Hw.
  destruct (tsem_program fuel P (map (fun b : N * list N => repeat false (length (snd b))) bindings)) as [r0| |] eqn:H0;
    try discriminate Hw.
  specialize (H _ r0 (zero_args_shape bindings) H0).
  assert (Hshape : ssa_validate c = None /\ input_gates c = igs).
  { destruct (load_inputs_zeros igs) as [inp0 Hl0].
    destruct (H _ _ Hl0) as (o & vouts & c' & out & _ & _ & Hc' & Hv & Hig & _).
    rewrite Hc in Hc'. injection Hc' as <-. auto. }
  destruct Hshape as [Hv Hig]. split; [exact Hv|]. split; [now rewrite Hmw|].
  intros ins inp Hload Hcan Hsorted. rewrite Hig in Hload. unfold main_args in *. rewrite Hmw in *. cbn [snd] in *.
  destruct (H ins inp Hload) as (o & vouts & c' & out & Ht & _ & Hc' & _ & _ & _ & Hev & Hpp & Hsk).
  rewrite Hc in Hc'. injection Hc' as <-. exists out. split; [exact Hev|].
  destruct (join_covered_agrees P fuel 400 fuel _ o vouts Hcov Hsf Hsorted Hcan Ht)
    as [(bits & l & Er & -> & ->)|[(r & m & Er & ->)|Hst]].
  - left. exists bits, l. split; [exact Er|]. split; [exact Hpp|now apply Hsk].
  - right. left. exists r, m. split; [exact Er|]. rewrite Hpp. cbn [parse_spec]. now rewrite preason_round.
  - right. right. exact Hst.
Qed.
Print Assumptions end_to_end_join.

(* the register form of the circuit computes the same *)
Corollary end_to_end_join_register fuel dedup P c :
  certified_join fuel P = true -> within_gate_bound fuel dedup P = true ->
  lower_program_with fuel dedup P = Ok (LCircuit c) ->
  exists rc, convert c = Ok rc /\ reg_validate rc = Ok None /\ input_regs rc = fst (main_wiring P) /\
  forall ins inp,
    load_inputs (input_regs rc) ins = Some inp ->
    canonical_main_args P (main_args P inp) = true ->
    join_inputs_sorted P (main_args P inp) ->
    exists out, reg_eval rc ins = Some out /\ output_spec fuel P (main_args P inp) out.
Proof.
  intros Hcert Hgb Hc. destruct (end_to_end_join fuel dedup P c Hcert Hgb Hc) as (Hv & Hig & H).
  destruct (convert_correct c Hv) as (rc & Hconv & Hrv & Hev & _ & _ & Hin & _).
  exists rc. split; [exact Hconv|]. split; [exact Hrv|]. split; [congruence|].
  intros ins inp Hload Hcan Hs. rewrite Hin in Hload. destruct (H ins inp Hload Hcan Hs) as (out & Ho & Hsp).
  exists out. split; [now rewrite Hev|exact Hsp].
Qed.
Print Assumptions end_to_end_join_register.

(* ------------------------------------------------------------------ non-vacuity: the program of
   TSemSemFullJoin.JoinProgramExample
     pub fn main(a: [(u8, u8); 2], b: [(u8, u8); 3]) -> (u8, u8) {
       let mut s = 0u8; let mut t = 0u8;
       for ((k1, p1), (k2, p2)) in join(a, b) { s = s + p1; t = p2; }
       (s, t) }
   is certified, compiles within the bound, and on sorted tables the circuit's output is the
   result of Sem.v: (7 + 9, 2) *)
Module EndToEndJoinExample.
  Import JoinProgramExample JoinExamples.
  Definition fuel : nat := 20.

  Example certified_P1 : certified_join fuel P1 = true.
  Proof. vm_compute. reflexivity. Qed.

  Example bound_P1 : within_gate_bound fuel true P1 = true /\ within_gate_bound fuel false P1 = true.
  Proof. vm_compute. split; reflexivity. Qed.

  Lemma compiled dedup : exists c, lower_program_with fuel dedup P1 = Ok (LCircuit c).
  Proof. destruct dedup; vm_compute; eexists; reflexivity. Qed.

  Example sorted_run : exists c out,
    lower_program_with fuel true P1 = Ok (LCircuit c) /\ ssa_validate c = None /\
    ssa_eval c A1 = Some out /\ parse_panic out = Ok (inl (enc2 16 2)) /\ skipn 161 out = enc2 16 2.
  Proof.
    destruct (compiled true) as [c Hc].
    destruct (end_to_end_join fuel true P1 c certified_P1 (proj1 bound_P1) Hc) as (Hv & Hig & H).
    assert (Hload : load_inputs (input_gates c) A1 = Some (concat A1)) by (rewrite Hig; vm_compute; reflexivity).
    assert (Hargs : main_args P1 (concat A1) = A1) by (vm_compute; reflexivity).
    destruct (H _ _ Hload ltac:(rewrite Hargs; vm_compute; reflexivity) ltac:(rewrite Hargs; exact sorted_A1))
      as (out & Ho & Hs).
    exists c, out. split; [exact Hc|]. split; [exact Hv|]. split; [exact Ho|].
    assert (exists l, Sem.run_main fuel P1 (main_args P1 (concat A1)) = Sem.RunOk (enc2 16 2) l) as [l Ev]
      by (eexists; vm_compute; reflexivity).
    destruct Hs as [(bits & l' & Er & Hp & Hk)|[(r & m & Er & _)|(_ & cc & Er & _)]]; rewrite Ev in Er; try discriminate Er.
    injection Er as <- _. split; [exact Hp|exact Hk].
  Qed.
End EndToEndJoinExample.
