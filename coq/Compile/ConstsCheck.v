(* C12: what the const checker establishes about external constants.

   The theorems of ConstsProofs.v assume [wt_defs d defs], which contains: every use
   [PARTY::NAME] of an external constant inside a const of type t finds the type t recorded for
   (PARTY, NAME) in the const_deps [d] the checker hands to the compiler.  The checker of the tree
   as found did not establish this (HashMap::insert keeps the last type only): the supplied
   literal was tested against one declaration and bound at another type (known_findings
   c12-one-constant-two-types).  With fix 9 it does: [checker_one_type]. *)
From GV Require Import Base.Util Compile.Consts Compile.ConstsProofs.

Lemma dget_dset d k v k' : dget (dset d k v) k' = if dkey_eqb k' k then Some v else dget d k'.
Proof.
  induction d as [|[k0 v0] r IH]; cbn [dset dget].
  - reflexivity.
  - destruct (dkey_eqb k k0) eqn:E.
    + cbn [dget]. apply dkey_eqb_eq in E. subst k0. destruct (dkey_eqb k' k); reflexivity.
    + cbn [dget]. destruct (dkey_eqb k' k0) eqn:E2.
      * destruct (dkey_eqb k' k) eqn:E3; [|reflexivity].
        apply dkey_eqb_eq in E2. apply dkey_eqb_eq in E3. subst.
        rewrite dkey_eqb_refl in E. discriminate.
      * exact IH.
Qed.

(* the type recorded for an external constant *)
Definition ty_at (d : deps) (k : dkey) : option cty := option_map fst (dget d k).

(* [d'] records the same type as [d] for every constant [d] knows *)
Definition dext (d d' : deps) : Prop := forall k t, ty_at d k = Some t -> ty_at d' k = Some t.

Lemma dext_refl d : dext d d.
Proof. intros k t H. exact H. Qed.
Lemma dext_trans a b c : dext a b -> dext b c -> dext a c.
Proof. intros H1 H2 k t H. apply H2, H1, H. Qed.

(* every external constant used in [e] (an expression of a const of type t) is recorded at t *)
Fixpoint ext_ok (dp : deps) (t : cty) (e : cexpr) : bool :=
  match e with
  | EExt p n => match ty_at dp (p, n) with Some t' => cty_eqb t t' | None => false end
  | EMax args | EMin args => forallb (ext_ok dp t) args
  | EAdd a b | ESub a b => ext_ok dp t a && ext_ok dp t b
  | _ => true
  end.

Lemma ext_ok_mono d d' t e : dext d d' -> ext_ok d t e = true -> ext_ok d' t e = true.
Proof.
  intro H. induction e as [| |n u|z s|p n|i|args IH|args IH|a b IHa IHb|a b IHa IHb] using cexpr_ind2;
    cbn [ext_ok]; auto.
  - destruct (ty_at d (p, n)) as [t'|] eqn:E; [|discriminate]. rewrite (H _ _ E). auto.
  - rewrite !forallb_forall. rewrite Forall_forall in IH. intros W x Hx. apply IH; auto.
  - rewrite !forallb_forall. rewrite Forall_forall in IH. intros W x Hx. apply IH; auto.
  - rewrite !andb_true_iff. intros [W1 W2]. auto.
  - rewrite !andb_true_iff. intros [W1 W2]. auto.
Qed.

(* wt_cexpr contains ext_ok *)
Lemma wt_cexpr_ext_ok dp decl t e : wt_cexpr dp decl t e = true -> ext_ok dp t e = true.
Proof.
  induction e as [| |n u|z s|p n|i|args IH|args IH|a b IHa IHb|a b IHa IHb] using cexpr_ind2;
    cbn [wt_cexpr ext_ok]; auto.
  - unfold ty_at. destruct (dget dp (p, n)) as [[t' m]|]; cbn [option_map fst]; auto.
  - rewrite !andb_true_iff. intros [_ W]. rewrite forallb_forall in *. rewrite Forall_forall in IH. auto.
  - rewrite !andb_true_iff. intros [_ W]. rewrite forallb_forall in *. rewrite Forall_forall in IH. auto.
  - rewrite !andb_true_iff. intros [[_ W1] W2]. auto.
  - rewrite !andb_true_iff. intros [[_ W1] W2]. auto.
Qed.

(* one step of the checker: errors only grow, recorded types never change, and if no error
   was added every external constant of the expression is recorded at the const's type *)
Definition step_ok (ty : cty) (e : cexpr) (s s' : chk) : Prop :=
  (exists l, k_errs s' = k_errs s ++ l) /\ dext (k_deps s) (k_deps s') /\
  (k_errs s' = k_errs s -> ext_ok (k_deps s') ty e = true).

Lemma app_self_nil {A} (l x : list A) : l ++ x = l -> x = [].
Proof. intro H. apply (app_inv_head l). rewrite app_nil_r. exact H. Qed.

Lemma step_err ty e s0 s x :
  k_errs s = k_errs s0 -> k_deps s = k_deps s0 ->
  step_ok ty e s0 (Build_chk (k_errs s ++ [x]) (k_deps s) (k_meta s)).
Proof.
  intros E D. split; [|split]; cbn [k_errs k_deps].
  - exists [x]. now rewrite E.
  - rewrite D. apply dext_refl.
  - rewrite E. intro H. apply app_self_nil in H. discriminate.
Qed.

Lemma step_same ty e s0 s :
  k_errs s = k_errs s0 -> k_deps s = k_deps s0 -> ext_ok (k_deps s0) ty e = true -> step_ok ty e s0 s.
Proof.
  intros E D X. split; [|split].
  - exists []. now rewrite app_nil_r.
  - rewrite D. apply dext_refl.
  - intros _. now rewrite D.
Qed.

Lemma step_trans ty e1 e2 s0 s1 s2 :
  step_ok ty e1 s0 s1 -> step_ok ty e2 s1 s2 ->
  (exists l, k_errs s2 = k_errs s0 ++ l) /\ dext (k_deps s0) (k_deps s2) /\
  (k_errs s2 = k_errs s0 -> ext_ok (k_deps s2) ty e1 = true /\ ext_ok (k_deps s2) ty e2 = true).
Proof.
  intros ((l1 & E1) & D1 & X1) ((l2 & E2) & D2 & X2). split; [|split].
  - exists (l1 ++ l2). now rewrite E2, E1, app_assoc.
  - eapply dext_trans; eauto.
  - intro H. rewrite E2, E1, <- app_assoc in H. apply app_self_nil in H.
    apply app_eq_nil in H as [-> ->]. rewrite app_nil_r in E1, E2.
    split; [eapply ext_ok_mono; eauto|]. auto.
Qed.

Lemma fold_step decl ty args :
  Forall (fun e => forall s, step_ok ty e s (check_cexpr repaired decl ty e s)) args ->
  forall s, let s' := fold_left (fun s a => check_cexpr repaired decl ty a s) args s in
  (exists l, k_errs s' = k_errs s ++ l) /\ dext (k_deps s) (k_deps s') /\
  (k_errs s' = k_errs s -> forallb (ext_ok (k_deps s') ty) args = true).
Proof.
  induction 1 as [|a r Ha _ IH]; intro s; cbn [fold_left forallb].
  - split; [exists []; now rewrite app_nil_r|]. split; [apply dext_refl|auto].
  - specialize (Ha s). specialize (IH (check_cexpr repaired decl ty a s)).
    cbv zeta in IH. destruct IH as ((l2 & E2) & D2 & X2). destruct Ha as ((l1 & E1) & D1 & X1).
    split; [|split].
    + exists (l1 ++ l2). now rewrite E2, E1, app_assoc.
    + eapply dext_trans; eauto.
    + intro H. rewrite E2, E1, <- app_assoc in H. apply app_self_nil in H.
      apply app_eq_nil in H as [-> ->]. rewrite app_nil_r in E1, E2.
      rewrite (X2 E2). rewrite andb_true_r. eapply ext_ok_mono; eauto.
Qed.

Lemma check_cexpr_step decl ty e : forall s, step_ok ty e s (check_cexpr repaired decl ty e s).
Proof.
  induction e as [| |n u|z sg|p n|i|args IH|args IH|a b IHa IHb|a b IHa IHb] using cexpr_ind2;
    intro s; cbn [check_cexpr].
  - destruct (cty_eqb ty TBool); [apply step_same|apply step_err]; auto.
  - destruct (cty_eqb ty TBool); [apply step_same|apply step_err]; auto.
  - destruct (cty_eqb ty (TU u)); [apply step_same|apply step_err]; auto.
  - destruct (cty_eqb ty (TS sg)); [apply step_same|apply step_err]; auto.
  - cbn [k_deps k_errs k_meta c_one_type repaired andb].
    assert (Hset : forall m,
      (forall t' m', dget (k_deps s) (p, n) = Some (t', m') -> t' = ty) ->
      step_ok ty (EExt p n) s (Build_chk (k_errs s) (dset (k_deps s) (p, n) (ty, m)) (k_meta s + 1))).
    { intros m Hty. split; [|split]; cbn [k_errs k_deps].
      - exists []. now rewrite app_nil_r.
      - intros k t. unfold ty_at. rewrite dget_dset. destruct (dkey_eqb k (p, n)) eqn:E; [|auto].
        apply dkey_eqb_eq in E. subst k. destruct (dget (k_deps s) (p, n)) as [[t' m']|] eqn:G; [|discriminate].
        cbn [option_map fst]. intro H. injection H as <-. now rewrite (Hty _ _ eq_refl).
      - intros _. cbn [ext_ok]. unfold ty_at. rewrite dget_dset, dkey_eqb_refl. cbn [option_map fst].
        apply cty_eqb_refl. }
    destruct (dget (k_deps s) (p, n)) as [[t' m']|] eqn:G.
    + destruct (cty_eqb t' ty) eqn:E; cbn [negb].
      * apply Hset. intros t2 m2 H. injection H as <- <-. now apply cty_eqb_eq.
      * apply step_err; auto.
    + apply Hset. intros t2 m2 H. discriminate.
  - destruct (assocN decl i) as [t|]; [destruct (cty_eqb ty t)|]; [apply step_same|apply step_err|apply step_err]; auto.
  - cbn [c_check_arith repaired andb]. destruct (negb (is_num ty)); [apply step_err; auto|].
    pose proof (fold_step decl ty args IH (Build_chk (k_errs s) (k_deps s) (k_meta s + 1))) as F.
    cbv zeta in F. cbn [k_errs k_deps] in F. destruct F as (F1 & F2 & F3). split; [|split]; auto.
  - cbn [c_check_arith repaired andb]. destruct (negb (is_num ty)); [apply step_err; auto|].
    pose proof (fold_step decl ty args IH (Build_chk (k_errs s) (k_deps s) (k_meta s + 1))) as F.
    cbv zeta in F. cbn [k_errs k_deps] in F. destruct F as (F1 & F2 & F3). split; [|split]; auto.
  - cbn [c_check_arith repaired andb]. destruct (negb (is_num ty)); [apply step_err; auto|].
    pose proof (step_trans ty a b _ _ _ (IHa (Build_chk (k_errs s) (k_deps s) (k_meta s + 1))) (IHb _)) as F.
    cbn [k_errs k_deps] in F. destruct F as (F1 & F2 & F3). split; [|split]; auto.
    intro H. cbn [ext_ok]. destruct (F3 H) as [-> ->]. reflexivity.
  - cbn [c_check_arith repaired andb]. destruct (negb (is_num ty)); [apply step_err; auto|].
    pose proof (step_trans ty a b _ _ _ (IHa (Build_chk (k_errs s) (k_deps s) (k_meta s + 1))) (IHb _)) as F.
    cbn [k_errs k_deps] in F. destruct F as (F1 & F2 & F3). split; [|split]; auto.
    intro H. cbn [ext_ok]. destruct (F3 H) as [-> ->]. reflexivity.
Qed.

Lemma check_defs_from_facts : forall defs i decl errs d meta,
  let r := check_defs_from repaired i decl defs errs d meta in
  (exists l, fst r = errs ++ l) /\ dext d (snd r) /\
  (fst r = errs -> forall x, In x defs -> ext_ok (snd r) (cd_ty x) (cd_val x) = true).
Proof.
  induction defs as [|x r IH]; intros i decl errs d meta; cbn [check_defs_from].
  - cbn [fst snd]. split; [exists []; now rewrite app_nil_r|]. split; [apply dext_refl|]. intros _ y [].
  - cbv zeta.
    pose proof (check_cexpr_step decl (cd_ty x) (cd_val x) (Build_chk [] d meta)) as S.
    set (s := check_cexpr repaired decl (cd_ty x) (cd_val x) (Build_chk [] d meta)) in *.
    destruct S as ((l1 & E1) & D1 & X1). cbn [k_errs k_deps app] in E1, D1, X1.
    specialize (IH (i + 1) ((cd_name x, cd_ty x) :: decl) (errs ++ map (fun e => (i, e)) (k_errs s)) (k_deps s) (k_meta s)).
    cbv zeta in IH. destruct IH as ((l2 & E2) & D2 & X2).
    split; [|split].
    + exists (map (fun e => (i, e)) (k_errs s) ++ l2). now rewrite E2, app_assoc.
    + eapply dext_trans; eauto.
    + intro H. rewrite E2, <- app_assoc in H. apply app_self_nil in H. apply app_eq_nil in H as [H1 H2].
      apply map_eq_nil in H1. subst l2. rewrite app_nil_r in E2.
      intros y [<-|Hy].
      * eapply ext_ok_mono; [exact D2|]. apply X1. exact H1.
      * apply X2; [exact E2|exact Hy].
Qed.

(* a program the (repaired) checker accepts uses every external constant at the one type that
   the compiler is told to test the supplied literal against *)
Theorem checker_one_type defs :
  fst (check_defs repaired defs) = [] ->
  forall x, In x defs -> ext_ok (snd (check_defs repaired defs)) (cd_ty x) (cd_val x) = true.
Proof.
  unfold check_defs. intro H.
  destruct (check_defs_from_facts defs 0 [] [] [] 0) as (_ & _ & X). exact (X H).
Qed.

(* the tree as found: `const A: u8 = PARTY_0::X; const B: u16 = PARTY_0::X;` is accepted and X is
   recorded at u16 only *)
Definition two_types_defs : list cdef :=
  [ {| cd_name := 10; cd_ty := TU U8; cd_val := EExt 0 1 |};
    {| cd_name := 11; cd_ty := TU U16; cd_val := EExt 0 1 |} ].

Example checker_one_type_refuted_original :
  fst (check_defs original two_types_defs) = [] /\
  ext_ok (snd (check_defs original two_types_defs)) (TU U8) (EExt 0 1) = false.
Proof. vm_compute. split; reflexivity. Qed.

Example checker_one_type_repaired_rejects :
  fst (check_defs repaired two_types_defs) = [(1, TUnexpectedType)].
Proof. vm_compute. reflexivity. Qed.
