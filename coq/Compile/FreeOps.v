(* C15, program level: DATA MOVEMENT COSTS ZERO AND GATES.
   A third instance of the parametricity theorem ParamLower.lower_param: the builder
   instance bops against an abstract "constness" instance kops whose wires are
   [Some b] (the constant wire b) or [None] (some wire) and whose operations Crash exactly
   when the builder might have to store an AND gate.  If the kops run of a program is Ok,
   the gate store the model of compile.rs ends with contains NO AND gate (and so does the
   circuit build emits).  This file: the builder facts, kops, the relation, the 20
   operation hypotheses.  FreeLower.v: programs. *)
From GV Require Import Base.Util Base.NMap Lang.Ast Circuit.Ssa
  Builder.Builder Builder.Build Builder.BuilderSem Builder.BuilderSpec Builder.BuilderProofs
  Builder.Requests Builder.StructSpec Builder.StructProofs
  Gadgets.Gadgets Gadgets.GadgetSpec Panic.PanicRec Compile.Lower Compile.ParamBase.
From GV Require Gadgets.GadgetHoare.

(* ------------------------------------------------------------------ constant wires *)

Definition cw (a : bool) : N := if a then 1 else 0.

Lemma cw_le a : cw a <= 1.
Proof. destruct a; cbn [cw]; lia. Qed.

Lemma le1_cw w : w <= 1 -> exists a, w = cw a.
Proof. intro H. destruct (N.eq_dec w 0) as [->|H0]; [exists false; reflexivity|]. exists true. cbn [cw]. lia. Qed.

Lemma xor_cw b a c : push_xor_top b (cw a) (cw c) = Ok (cw (xorb a c), b).
Proof. destruct a, c; reflexivity. Qed.
Lemma and_cw b a c : push_and_top b (cw a) (cw c) = Ok (cw (andb a c), b).
Proof. destruct a, c; reflexivity. Qed.
Lemma or_cw b a c : push_or b (cw a) (cw c) = Ok (cw (orb a c), b).
Proof. destruct a, c; reflexivity. Qed.
Lemma eq_cw b a c : push_eq b (cw a) (cw c) = Ok (cw (negb (xorb a c)), b).
Proof. destruct a, c; reflexivity. Qed.
Lemma not_cw b a : push_not b (cw a) = Ok (cw (negb a), b).
Proof. destruct a; reflexivity. Qed.
Lemma not_one b : push_not b 1 = Ok (0, b).
Proof. reflexivity. Qed.
Lemma not_zero b : push_not b 0 = Ok (1, b).
Proof. reflexivity. Qed.
Lemma mux_cw b s a c : push_mux b (cw s) (cw a) (cw c) = Ok (cw (if s then a else c), b).
Proof. destruct s, a, c; reflexivity. Qed.

(* ------------------------------------------------------------------ AND-free gate stores *)

(* the invariant of the builder, and no AND gate in the store *)
Definition good (b : builder) : Prop := inv b /\ band_count b = 0.

Lemma good_new dedup inputs : good (new_builder dedup inputs).
Proof. split; [apply inv_new|reflexivity]. Qed.

Lemma valid_cw b a : inv b -> valid b (cw a).
Proof. intro I. destruct (valid_consts b I). destruct a; assumption. Qed.

(* XOR / NOT / EQ never add an AND gate to an AND-free store: the one rewrite of push_xor
   that stores an AND only fires on two AND-gate operands *)
Lemma xor_gen b x y : good b -> valid b x -> valid b y ->
  exists r b', push_xor_top b x y = Ok (r, b') /\ good b' /\ ext b b' /\ valid b' r.
Proof.
  intros [I Z] Hx Hy. destruct (push_xor_top_sound b x y I Hx Hy) as (r & b' & E & I' & X & V & _).
  exists r, b'. split; [exact E|]. split; [|split; assumption].
  split; [exact I'|]. exact (xor_top_zero _ _ _ _ _ I Hx Hy Z E).
Qed.

Lemma not_gen b x : good b -> valid b x ->
  exists r b', push_not b x = Ok (r, b') /\ good b' /\ ext b b' /\ valid b' r.
Proof. intros G Hx. unfold push_not. apply xor_gen; [exact G|exact Hx|]. apply (valid_cw b true), G. Qed.

Lemma eq_gen b x y : good b -> valid b x -> valid b y ->
  exists r b', push_eq b x y = Ok (r, b') /\ good b' /\ ext b b' /\ valid b' r.
Proof.
  intros G Hx Hy. unfold push_eq.
  destruct (xor_gen b x y G Hx Hy) as (xo & b1 & -> & G1 & X1 & V1). cbn [bind].
  destruct (not_gen b1 xo G1 V1) as (r & b2 & E & G2 & X2 & V2). unfold push_not in E.
  exists r, b2. split; [exact E|]. split; [exact G2|]. split; [eapply ext_trans; eauto|exact V2].
Qed.

(* OR with a constant operand: the AND inside folds *)
Lemma or_gen_const b x y : good b -> valid b x -> valid b y -> x <= 1 \/ y <= 1 ->
  exists r b', push_or b x y = Ok (r, b') /\ good b' /\ ext b b' /\ valid b' r.
Proof.
  intros G Hx Hy Hc. unfold push_or.
  destruct (xor_gen b x y G Hx Hy) as (xo & b1 & -> & G1 & X1 & V1). cbn [bind].
  destruct (push_and_top_const b1 x y) as (an & -> & Han).
  { apply orb_true_iff. destruct Hc as [H|H]; [left|right]; now apply N.leb_le. }
  cbn [bind].
  assert (Van : valid b1 an).
  { destruct Han as [->|[->| ->]]; [apply (valid_cw b1 false), G1|eapply ext_valid; eauto|eapply ext_valid; eauto]. }
  destruct (xor_gen b1 xo an G1 V1 Van) as (r & b2 & E & G2 & X2 & V2).
  exists r, b2. split; [exact E|]. split; [exact G2|]. split; [eapply ext_trans; eauto|exact V2].
Qed.

Lemma or_zero_l b y : push_or b 0 y = Ok (y, b).
Proof.
  unfold push_or. rewrite push_xor_top_zero_l. cbn [bind].
  destruct (folding_facts b y 0) as (_ & _ & _ & _ & -> & _). cbn [bind]. apply push_xor_top_zero_r.
Qed.
Lemma or_zero_r b x : push_or b x 0 = Ok (x, b).
Proof.
  unfold push_or. rewrite push_xor_top_zero_r. cbn [bind].
  destruct (folding_facts b x 0) as (_ & _ & _ & _ & _ & -> & _). cbn [bind]. apply push_xor_top_zero_r.
Qed.

Lemma and_zero_l b y : push_and_top b 0 y = Ok (0, b).
Proof. exact (proj1 (proj2 (proj2 (proj2 (proj2 (folding_facts b y 0)))))). Qed.
Lemma and_zero_r b x : push_and_top b x 0 = Ok (0, b).
Proof. exact (proj1 (proj2 (proj2 (proj2 (proj2 (proj2 (folding_facts b x 0))))))). Qed.
Lemma and_one_l b y : push_and_top b 1 y = Ok (y, b).
Proof. exact (proj1 (proj2 (proj2 (proj2 (proj2 (proj2 (proj2 (folding_facts b y 0)))))))). Qed.
Lemma and_one_r b x : push_and_top b x 1 = Ok (x, b).
Proof. exact (proj1 (proj2 (proj2 (proj2 (proj2 (proj2 (proj2 (proj2 (folding_facts b x 0))))))))). Qed.

(* MUX with the constant selector 1: the first data wire itself; the XOR of the two data wires
   may be stored (a dead gate) *)
Lemma mux_true b x0 x1 : good b -> valid b x0 -> valid b x1 ->
  exists b', push_mux b 1 x0 x1 = Ok (x0, b') /\ good b' /\ ext b b'.
Proof.
  intros G H0 H1. unfold push_mux. destruct (x0 =? x1).
  { exists b. split; [reflexivity|]. split; [exact G|apply ext_refl]. }
  destruct (xor_gen b x0 x1 G H0 H1) as (d & b1 & -> & G1 & X1 & V1). cbn [bind].
  rewrite not_one. cbn [bind]. rewrite and_zero_r. cbn [bind].
  rewrite push_xor_top_zero_r. exists b1. split; [reflexivity|]. split; assumption.
Qed.

(* MUX with the constant selector 0: only XOR gates *)
Lemma mux_false b x0 x1 : good b -> valid b x0 -> valid b x1 ->
  exists r b', push_mux b 0 x0 x1 = Ok (r, b') /\ good b' /\ ext b b' /\ valid b' r.
Proof.
  intros G H0 H1. unfold push_mux. destruct (x0 =? x1).
  { exists x0, b. split; [reflexivity|]. split; [exact G|]. split; [apply ext_refl|exact H0]. }
  destruct (xor_gen b x0 x1 G H0 H1) as (d & b1 & -> & G1 & X1 & V1). cbn [bind].
  rewrite not_zero. cbn [bind]. rewrite and_one_r. cbn [bind].
  destruct (xor_gen b1 x0 d G1 (ext_valid _ _ _ X1 H0) V1) as (r & b2 & E & G2 & X2 & V2).
  exists r, b2. split; [exact E|]. split; [exact G2|]. split; [eapply ext_trans; eauto|exact V2].
Qed.

(* MUX of two constants by any selector: the selector or its negation *)
Lemma mux_data_known b s a c : good b -> valid b s ->
  exists r b', push_mux b s (cw a) (cw c) = Ok (r, b') /\ good b' /\ ext b b' /\ valid b' r /\
               (a = c -> r = cw a).
Proof.
  intros G Hs. unfold push_mux. destruct (N.eqb_spec (cw a) (cw c)) as [He|Hne].
  { exists (cw a), b. split; [reflexivity|]. split; [exact G|]. split; [apply ext_refl|].
    split; [apply valid_cw, G|reflexivity]. }
  rewrite xor_cw. cbn [bind].
  assert (Hx : xorb a c = true) by (destruct a, c; try reflexivity; exfalso; apply Hne; reflexivity). rewrite Hx. cbn [cw].
  destruct (not_gen b s G Hs) as (ns & b1 & -> & G1 & X1 & V1). cbn [bind].
  rewrite and_one_l. cbn [bind].
  destruct (xor_gen b1 (cw a) ns G1 (valid_cw b1 a (proj1 G1)) V1) as (r & b2 & E & G2 & X2 & V2).
  exists r, b2. split; [exact E|]. split; [exact G2|]. split; [eapply ext_trans; eauto|].
  split; [exact V2|]. intros ->. destruct c; discriminate Hx.
Qed.

(* ------------------------------------------------------------------ gadgets on constant wires *)

Definition cwp (p : bool * bool) : N * N := (cw (fst p), cw (snd p)).

Lemma combine_firstn_cw bits (x y : list bool) :
  combine (firstn bits (map cw x)) (firstn bits (map cw y)) = map cwp (combine (firstn bits x) (firstn bits y)).
Proof.
  rewrite !firstn_map. generalize (firstn bits x) as l, (firstn bits y) as l'. clear.
  induction l as [|a l IH]; intros [|c l']; cbn [map combine]; try reflexivity.
  rewrite IH. reflexivity.
Qed.

Lemma combine_cw (x y : list bool) : combine (map cw x) (map cw y) = map cwp (combine x y).
Proof.
  revert y. induction x as [|a x IH]; intros [|c y]; cbn [map combine]; try reflexivity. rewrite IH. reflexivity.
Qed.

Ltac fold_consts :=
  repeat (first [rewrite xor_cw | rewrite and_cw | rewrite or_cw | rewrite not_cw | rewrite eq_cw]; cbn [bind]).

(* the comparator on constant operands stores no gate and returns the constant wires of
   the specification's value *)
Lemma cmp_loop_const xys : forall b first sg ag al,
  cmp_loop b first sg (map cwp xys) (cw ag) (cw al) =
  Ok ((cw (fst (cmp_loop_s first sg xys ag al)), cw (snd (cmp_loop_s first sg xys ag al))), b).
Proof.
  induction xys as [|[x y] r IH]; intros b first sg ag al; cbn [map cwp fst snd cmp_loop cmp_loop_s]; [reflexivity|].
  fold_consts. destruct (first && sg); fold_consts; apply IH.
Qed.

Lemma comparator_const b bits x sx y sy :
  (bits <= length x)%nat -> (bits <= length y)%nat ->
  push_comparator_circuit b bits (map cw x) sx (map cw y) sy =
  Ok ((cw (fst (cmp_s bits x sx y sy)), cw (snd (cmp_s bits x sx y sy))), b).
Proof.
  intros Hx Hy. unfold push_comparator_circuit, cmp_s. rewrite !map_length.
  rewrite (proj2 (Nat.ltb_ge _ _) Hx), (proj2 (Nat.ltb_ge _ _) Hy). cbn [orb].
  rewrite combine_firstn_cw. apply (cmp_loop_const _ b true (sx || sy) false false).
Qed.

Lemma eq_go_const xys : forall b acc,
  GadgetHoare.eq_go b (cw acc) (map cwp xys) = Ok (cw (GadgetHoare.eq_go_s acc xys), b).
Proof.
  induction xys as [|[x y] r IH]; intros b acc; cbn [map cwp fst snd GadgetHoare.eq_go GadgetHoare.eq_go_s]; [reflexivity|].
  fold_consts. apply IH.
Qed.

Lemma eq_circuit_const b x y :
  push_eq_circuit b (map cw x) (map cw y) = Ok (cw (eq_s x y), b).
Proof.
  rewrite GadgetHoare.push_eq_circuit_eq, GadgetHoare.eq_s_eq, !map_length.
  destruct (negb (length x =? length y)%nat); [reflexivity|].
  rewrite combine_cw. apply (eq_go_const _ b true).
Qed.


(* arithmetic on constant operands folds completely *)
Lemma adder_cw b x y c :
  push_adder b (cw x) (cw y) (cw c) = Ok ((cw (fst (adder_s x y c)), cw (snd (adder_s x y c))), b).
Proof. destruct x, y, c; reflexivity. Qed.

Lemma multiplier_cw b x y z c :
  push_multiplier b (cw x) (cw y) (cw z) (cw c)
  = Ok ((cw (fst (multiplier_s x y z c)), cw (snd (multiplier_s x y z c))), b).
Proof. destruct x, y, z, c; reflexivity. Qed.

Lemma add_loop_const xys : forall b carry cp acc,
  add_loop b (map cwp xys) (cw carry) (cw cp) (map cw acc) =
  Ok ((map cw (fst (fst (add_loop_s xys carry cp acc))), cw (snd (fst (add_loop_s xys carry cp acc))),
       cw (snd (add_loop_s xys carry cp acc))), b).
Proof.
  induction xys as [|[x y] r IH]; intros b carry cp acc; cbn [map cwp fst snd add_loop add_loop_s]; [reflexivity|].
  rewrite adder_cw. cbn [bind]. destruct (adder_s x y carry) as [s c]. cbn [fst snd].
  apply (IH b c carry (s :: acc)).
Qed.

Lemma addition_const b x y : length x = length y ->
  push_addition_circuit b (map cw x) (map cw y) =
  Ok ((map cw (fst (fst (addition_s x y))), cw (snd (fst (addition_s x y))), cw (snd (addition_s x y))), b).
Proof.
  intro L. unfold push_addition_circuit, addition_s. rewrite !map_length, L, Nat.eqb_refl. cbn [negb].
  rewrite combine_cw, <- map_rev. apply (add_loop_const _ b false false []).
Qed.

Lemma neg_loop_const xs : forall b carry acc,
  neg_loop b (map cw xs) (cw carry) (map cw acc) = Ok (map cw (neg_loop_s xs carry acc), b).
Proof.
  induction xs as [|x r IH]; intros b carry acc; cbn [map neg_loop neg_loop_s]; [reflexivity|].
  fold_consts. apply (IH b (andb carry (negb x)) (xorb carry (negb x) :: acc)).
Qed.

Lemma negation_const b x : push_negation_circuit b (map cw x) = Ok (map cw (negation_s x), b).
Proof. unfold push_negation_circuit, negation_s. rewrite <- map_rev. apply (neg_loop_const _ b true []). Qed.

Lemma hd_res_cw (l : list bool) : l <> [] -> hd_res (map cw l) = Ok (cw (hd false l)).
Proof. destruct l; [congruence|reflexivity]. Qed.

Lemma subtraction_const b x y sg : length x = length y -> (sg = true -> x <> []) ->
  exists b', push_subtraction_circuit b (map cw x) (map cw y) sg =
             Ok ((map cw (fst (subtraction_s x y sg)), cw (snd (subtraction_s x y sg))), b') /\ b' = b.
Proof.
  intros L Hne. unfold push_subtraction_circuit. rewrite !map_length, L, Nat.eqb_refl. cbn [negb].
  rewrite GadgetHoare.subtraction_s_eq. cbv zeta. unfold W in *.
  assert (Core : forall x0 y0,
    exists se0 se, fst (fst (addition_s (x0 :: x) (negation_s (y0 :: y)))) = se0 :: se /\ length se = length x /\
      push_negation_circuit b (cw y0 :: map cw y) = Ok (map cw (negation_s (y0 :: y)), b) /\
      push_addition_circuit b (cw x0 :: map cw x) (map cw (negation_s (y0 :: y))) =
      Ok ((cw se0 :: map cw se, cw (snd (fst (addition_s (x0 :: x) (negation_s (y0 :: y))))),
           cw (snd (addition_s (x0 :: x) (negation_s (y0 :: y))))), b)).
  { intros x0 y0.
    assert (Ln : length (x0 :: x) = length (negation_s (y0 :: y))).
    { rewrite GadgetHoare.negation_s_length. cbn [length]. congruence. }
    pose proof (addition_const b _ _ Ln) as Ea.
    pose proof (GadgetHoare.addition_s_length (x0 :: x) (negation_s (y0 :: y)) Ln) as Ls. cbn [length] in Ls.
    destruct (fst (fst (addition_s (x0 :: x) (negation_s (y0 :: y))))) as [|s0 se]; [discriminate Ls|].
    exists s0, se. split; [reflexivity|]. split; [cbn [length] in Ls; congruence|].
    split; [exact (negation_const b (y0 :: y))|exact Ea]. }
  destruct sg.
  - assert (Hx : x <> []) by auto. assert (Hy : y <> []) by (intros ->; destruct x; [now apply Hx|discriminate]).
    rewrite (hd_res_cw x Hx), (hd_res_cw y Hy). cbn [bind].
    destruct (Core (hd false x) (hd false y)) as (se0 & se & Ese & Lse & En & Ea).
    rewrite En. cbn [bind]. rewrite Ea, Ese. cbn [bind hd_res tl hd map fst snd].
    assert (Hse : se <> []) by (intros ->; destruct x; [now apply Hx|discriminate Lse]).
    rewrite (hd_res_cw se Hse). cbn [bind]. rewrite xor_cw. cbn [bind]. exists b. split; reflexivity.
  - cbn [bind]. destruct (Core false false) as (se0 & se & Ese & Lse & En & Ea). cbn [cw] in En, Ea.
    rewrite En. cbn [bind]. rewrite Ea, Ese. cbn [bind hd_res tl hd map fst snd]. exists b. split; reflexivity.
Qed.

(* ------------------------------------------------------------------ the panic record on constants *)

Definition cwires (l : list N) : Prop := Forall (fun w => w <= 1) l.

Lemma cwires_nth l i : cwires l -> nth i l 0 <= 1.
Proof.
  intro H. destruct (nth_in_or_default i l 0) as [Hin| ->]; [|lia].
  unfold cwires in H. rewrite Forall_forall in H. apply H. exact Hin.
Qed.

Lemma cwires_usize n : cwires (usize_bits n).
Proof.
  unfold cwires, usize_bits. apply Forall_forall. intros w Hin. apply in_map_iff in Hin.
  destruct Hin as (i & <- & _). destruct (N.testbit _ _); lia.
Qed.

Definition cpairs (l : list (N * N)) : Prop := Forall (fun p => fst p <= 1 /\ snd p <= 1) l.

Lemma mux_seq_const b s pairs : s <= 1 -> cpairs pairs ->
  exists ws, mux_seq b s pairs = Ok (ws, b) /\ cwires ws.
Proof.
  intros Hs. induction 1 as [|[x0 x1] r [H0 H1] _ IH]; cbn [mux_seq].
  - exists []. split; [reflexivity|constructor].
  - cbn [fst snd] in H0, H1. destruct (push_mux_const b s x0 x1 Hs H0 H1) as (w & -> & Hw). cbn [bind].
    destruct IH as (ws & -> & Hws). cbn [bind]. exists (w :: ws). split; [reflexivity|constructor; assumption].
Qed.

Lemma mux_rows_const b s rows : s <= 1 -> Forall cpairs rows ->
  exists wss, mux_rows b s rows = Ok (wss, b) /\ Forall cwires wss.
Proof.
  intros Hs. induction 1 as [|row r Hrow _ IH]; cbn [mux_rows].
  - exists []. split; [reflexivity|constructor].
  - destruct (mux_seq_const b s row Hs Hrow) as (ws & -> & Hws). cbn [bind].
    destruct IH as (wss & -> & Hwss). cbn [bind]. exists (ws :: wss). split; [reflexivity|constructor; assumption].
Qed.

Lemma cpairs32 xs ys : cwires xs -> cwires ys -> cpairs (pairs32 xs ys).
Proof.
  intros Hx Hy. unfold cpairs, pairs32. apply Forall_forall. intros p Hin. apply in_map_iff in Hin.
  destruct Hin as (i & <- & _). cbn [fst snd]. split; apply cwires_nth; assumption.
Qed.

Definition cprec (p : prec) : Prop := cwires (prec_wires p).

Lemma cprec_fields p : cprec p ->
  pr_flag p <= 1 /\ cwires (pr_type p) /\ cwires (pr_sl p) /\ cwires (pr_sc p) /\ cwires (pr_el p) /\ cwires (pr_ec p).
Proof.
  unfold cprec, prec_wires, cwires. intro H. inversion H as [|w l Hf Hr]; subst.
  apply Forall_app in Hr. destruct Hr as [H1 Hr]. apply Forall_app in Hr. destruct Hr as [H2 Hr].
  apply Forall_app in Hr. destruct Hr as [H3 Hr]. apply Forall_app in Hr. destruct Hr as [H4 H5].
  repeat split; assumption.
Qed.

Lemma cprec_mk fl ty sl sc el ec :
  fl <= 1 -> cwires ty -> cwires sl -> cwires sc -> cwires el -> cwires ec -> cprec (mkPrec fl ty sl sc el ec).
Proof.
  intros. unfold cprec, prec_wires, cwires. cbn [pr_flag pr_type pr_sl pr_sc pr_el pr_ec].
  constructor; [assumption|]. repeat (apply Forall_app; split; [assumption|]). assumption.
Qed.

Lemma cprec_ok : cprec panic_ok.
Proof.
  unfold panic_ok. apply cprec_mk; try apply cwires_usize; try lia;
    apply Forall_forall; intros w Hin; apply repeat_spec in Hin; subst; lia.
Qed.

Lemma cwires_col k rs : Forall cwires rs -> cwires (col k rs).
Proof.
  intro H. unfold col, cwires. apply Forall_forall. intros w Hin. apply in_map_iff in Hin.
  destruct Hin as (r & <- & Hr). apply cwires_nth. rewrite Forall_forall in H. apply H. exact Hr.
Qed.

Lemma cwires_nth_rows k rs : Forall cwires rs -> cwires (nth k rs []).
Proof.
  intro H. destruct (nth_in_or_default k rs []) as [Hin| ->]; [|constructor].
  rewrite Forall_forall in H. apply H. exact Hin.
Qed.

(* push_panic_if with a constant condition on an all-constant record: no gate, the record
   stays all-constant *)
Lemma push_record_const b p c r m : cprec p -> c <= 1 ->
  exists p', push_record b p c r m = Ok (p', b) /\ cprec p'.
Proof.
  intros Hp Hc. destruct (cprec_fields p Hp) as (Hf & Hty & Hsl & Hsc & Hel & Hec). unfold push_record.
  destruct (push_or_const b (pr_flag p) c Hf Hc) as (fl & -> & Hfl). cbn [bind].
  match goal with |- context [mux_rows b (pr_flag p) ?rows] =>
    destruct (mux_rows_const b (pr_flag p) rows Hf) as (rs & -> & Hrs) end.
  { apply Forall_forall. intros row Hin. apply in_map_iff in Hin. destruct Hin as (i & <- & _).
    unfold cpairs. repeat (constructor; [cbn [fst snd]; split; apply cwires_nth; (assumption || apply cwires_usize)|]).
    constructor. }
  cbn [bind]. unfold mux_field.
  destruct (mux_seq_const b (pr_flag p) (pairs32 (pr_type p) (usize_bits (preason_num r))) Hf) as (ty & -> & Hty').
  { apply cpairs32; [assumption|apply cwires_usize]. }
  cbn [bind]. eexists. split; [reflexivity|]. apply cprec_mk; try assumption; apply cwires_col; assumption.
Qed.

Lemma push_panic_if_const b P c r m : cprec (ps_rec P) -> c <= 1 ->
  exists P', push_panic_if b P c r m = Ok (P', b) /\ cprec (ps_rec P').
Proof.
  intros Hp Hc. unfold push_panic_if. destruct (nmem c (ps_cache P)).
  - exists P. split; [reflexivity|exact Hp].
  - destruct (push_record_const b (ps_rec P) c r m Hp Hc) as (p' & -> & Hp'). cbn [bind].
    eexists. split; [reflexivity|]. exact Hp'.
Qed.

Lemma mux_panic_const b c T F : c <= 1 -> cprec (ps_rec T) -> cprec (ps_rec F) ->
  exists P', mux_panic b c T F = Ok (P', b) /\ cprec (ps_rec P').
Proof.
  intros Hc HT HF. destruct (cprec_fields _ HT) as (Tf & Tty & Tsl & Tsc & Tel & Tec).
  destruct (cprec_fields _ HF) as (Ff & Fty & Fsl & Fsc & Fel & Fec).
  unfold mux_panic, mux_uncached_panic.
  destruct (push_mux_const b c (pr_flag (ps_rec T)) (pr_flag (ps_rec F)) Hc Tf Ff) as (fl & -> & Hfl). cbn [bind].
  match goal with |- context [mux_rows b c ?rows] =>
    destruct (mux_rows_const b c rows Hc) as (rs & -> & Hrs) end.
  { repeat (constructor; [apply cpairs32; assumption|]). constructor. }
  cbn [bind]. eexists. split; [reflexivity|]. cbn [ps_rec].
  apply cprec_mk; try assumption; apply cwires_nth_rows; assumption.
Qed.

(* ------------------------------------------------------------------ the constness instance *)

(* an abstract wire: [Some a] = the constant wire a, [None] = some wire *)
Definition kw := option bool.
Definition KM (A : Type) := unit -> res (A * unit).
Definition kret {A} (a : A) : KM A := fun _ => Ok (a, tt).
Definition kcrash {A} : KM A := fun _ => Crash.
Definition kopt {A} (r : option A) : KM A := match r with Some a => kret a | None => kcrash end.

Definition k_xor (x y : kw) : kw :=
  match x, y with
  | Some a, Some c => Some (xorb a c)
  | Some false, v => v
  | v, Some false => v
  | _, _ => None
  end.

(* [None] = the builder may have to store an AND gate *)
Definition k_and (x y : kw) : option kw :=
  match x, y with
  | Some false, _ => Some (Some false)
  | _, Some false => Some (Some false)
  | Some true, v => Some v
  | v, Some true => Some v
  | None, None => None
  end.

Definition k_or (x y : kw) : option kw :=
  match x, y with
  | Some a, Some c => Some (Some (orb a c))
  | Some false, v => Some v
  | v, Some false => Some v
  | Some true, None => Some None
  | None, Some true => Some None
  | None, None => None
  end.

Definition k_eq (x y : kw) : kw :=
  match x, y with Some a, Some c => Some (negb (xorb a c)) | _, _ => None end.

Definition k_not (x : kw) : kw := option_map negb x.

(* Builder.push_mux: the x0 =? x1 shortcut, else xor / not / and / xor *)
Definition k_mux (s x0 x1 : kw) : option kw :=
  match s with
  | Some true => Some x0
  | Some false => Some (match x0, x1 with Some _, Some c => Some c | _, _ => None end)
  | None =>
      match x0, x1 with
      | Some a, Some c => Some (if Bool.eqb a c then Some a else None)
      | _, _ => None
      end
  end.

Fixpoint known (l : list kw) : option (list bool) :=
  match l with
  | [] => Some []
  | Some a :: r => option_map (cons a) (known r)
  | None :: _ => None
  end.

Definition k_comparator (bits : nat) (x : list kw) (sx : bool) (y : list kw) (sy : bool) : option (kw * kw) :=
  match known x, known y with
  | Some bx, Some by_ =>
      if ((bits <=? length bx) && (bits <=? length by_))%nat
      then let r := cmp_s bits bx sx by_ sy in Some (Some (fst r), Some (snd r)) else None
  | _, _ => None
  end.

Definition k_eq_circuit (x y : list kw) : option kw :=
  match known x, known y with
  | Some bx, Some by_ => Some (Some (eq_s bx by_))
  | _, _ => None
  end.

Definition k_negation (x : list kw) : option (list kw) :=
  option_map (fun bx => map (@Some bool) (negation_s bx)) (known x).

Definition k_addition (x y : list kw) : option (list kw * kw * kw) :=
  match known x, known y with
  | Some bx, Some by_ =>
      if (length bx =? length by_)%nat
      then let r := addition_s bx by_ in Some (map (@Some bool) (fst (fst r)), Some (snd (fst r)), Some (snd r))
      else None
  | _, _ => None
  end.

Definition k_subtraction (x y : list kw) (sg : bool) : option (list kw * kw) :=
  match known x, known y with
  | Some bx, Some by_ =>
      if (length bx =? length by_)%nat && (negb sg || match bx with [] => false | _ => true end)
      then let r := subtraction_s bx by_ sg in Some (map (@Some bool) (fst r), Some (snd r))
      else None
  | _, _ => None
  end.

Definition k_multiplier (x y z c : kw) : option (kw * kw) :=
  match x, y, z, c with
  | Some a, Some b, Some d, Some e => let r := multiplier_s a b d e in Some (Some (fst r), Some (snd r))
  | _, _, _, _ => None
  end.

Definition k_known_cond {A} (c : kw) (a : A) : KM A := match c with Some _ => kret a | None => kcrash end.

(* wires: kw; compiler state: nothing; saved panic states: nothing (the panic record is
   required to stay all-constant, which it does as long as every panic condition is known) *)
Definition kops : ops kw unit unit := {|
  w0 := Some false;
  w1 := Some true;
  o_xor := fun x y => kret (k_xor x y);
  o_and := fun x y => kopt (k_and x y);
  o_or := fun x y => kopt (k_or x y);
  o_eq := fun x y => kret (k_eq x y);
  o_not := fun x => kret (k_not x);
  o_mux := fun s x0 x1 => kopt (k_mux s x0 x1);
  o_negation := fun x => kopt (k_negation x);
  o_addition := fun x y => kopt (k_addition x y);
  o_subtraction := fun x y sg => kopt (k_subtraction x y sg);
  o_multiplier := fun x y z c => kopt (k_multiplier x y z c);
  o_udiv := fun _ _ => kcrash;
  o_sdiv := fun _ _ => kcrash;
  o_comparator := fun bits x sx y sy => kopt (k_comparator bits x sx y sy);
  o_eq_circuit := fun x y => kopt (k_eq_circuit x y);
  o_merger := fun _ _ _ => kcrash;
  o_sorter := fun _ _ => kcrash;
  o_panic_if := fun c _ _ => k_known_cond c tt;
  o_peek := kret tt;
  o_replace := fun _ => kret tt;
  o_mux_panic := fun c _ _ => k_known_cond c tt
|}.

(* ------------------------------------------------------------------ the relation *)

Definition Rwb (b : builder) (w : N) (v : kw) : Prop :=
  match v with Some a => w = cw a | None => valid b w end.

Lemma Rwb_valid b w v : inv b -> Rwb b w v -> valid b w.
Proof. intros I H. destruct v as [a|]; cbn [Rwb] in H; [subst; apply valid_cw; exact I|exact H]. Qed.

Lemma Rwb_ext b b' w v : ext b b' -> Rwb b w v -> Rwb b' w v.
Proof. intros E H. destruct v as [a|]; cbn [Rwb] in *; [exact H|eapply ext_valid; eauto]. Qed.

Lemma Rwb_known b ws vs bs : Forall2 (Rwb b) ws vs -> known vs = Some bs -> ws = map cw bs.
Proof.
  intro H. revert bs. induction H as [|w v ws vs Hw _ IH]; intros bs E; cbn [known] in E.
  - injection E as <-. reflexivity.
  - destruct v as [a|]; [|discriminate]. destruct (known vs) as [r|]; [|discriminate]. cbn [option_map] in E.
    injection E as <-. cbn [Rwb] in Hw. subst w. cbn [map]. f_equal. apply IH. reflexivity.
Qed.

Lemma Rwb_some b (bs : list bool) : Forall2 (Rwb b) (map cw bs) (map (@Some bool) bs).
Proof. induction bs as [|a bs IH]; cbn [map]; constructor; [reflexivity|exact IH]. Qed.

Lemma kxor_ok b x y vx vy : good b -> Rwb b x vx -> Rwb b y vy ->
  exists r b', push_xor_top b x y = Ok (r, b') /\ good b' /\ ext b b' /\ Rwb b' r (k_xor vx vy).
Proof.
  intros G Hx Hy.
  assert (Gen : k_xor vx vy = None ->
    exists r b', push_xor_top b x y = Ok (r, b') /\ good b' /\ ext b b' /\ Rwb b' r (k_xor vx vy)).
  { intros ->. destruct (xor_gen b x y G (Rwb_valid _ _ _ (proj1 G) Hx) (Rwb_valid _ _ _ (proj1 G) Hy))
      as (r & b' & E & G' & X & V). exists r, b'. auto. }
  destruct vx as [[|]|], vy as [[|]|]; cbn [Rwb] in Hx, Hy; subst; try (apply Gen; reflexivity).
  - eexists; exists b. split; [apply (xor_cw b true true)|]. split; [exact G|]. split; [apply ext_refl|reflexivity].
  - eexists; exists b. split; [apply (xor_cw b true false)|]. split; [exact G|]. split; [apply ext_refl|reflexivity].
  - eexists; exists b. split; [apply (xor_cw b false true)|]. split; [exact G|]. split; [apply ext_refl|reflexivity].
  - eexists; exists b. split; [apply (xor_cw b false false)|]. split; [exact G|]. split; [apply ext_refl|reflexivity].
Qed.

Lemma kand_ok b x y vx vy v : good b -> Rwb b x vx -> Rwb b y vy -> k_and vx vy = Some v ->
  exists r, push_and_top b x y = Ok (r, b) /\ Rwb b r v.
Proof.
  intros G Hx Hy E.
  destruct vx as [[|]|], vy as [[|]|]; cbn [Rwb k_and] in Hx, Hy, E; subst; try discriminate; injection E as <-; cbn [cw].
  - exists 1. rewrite and_one_l. split; reflexivity.
  - exists 0. rewrite and_zero_r. split; reflexivity.
  - exists y. rewrite and_one_l. split; [reflexivity|exact Hy].
  - exists 0. rewrite and_zero_l. split; reflexivity.
  - exists 0. rewrite and_zero_l. split; reflexivity.
  - exists 0. rewrite and_zero_l. split; reflexivity.
  - exists x. rewrite and_one_r. split; [reflexivity|exact Hx].
  - exists 0. rewrite and_zero_r. split; reflexivity.
Qed.

Lemma kor_ok b x y vx vy v : good b -> Rwb b x vx -> Rwb b y vy -> k_or vx vy = Some v ->
  exists r b', push_or b x y = Ok (r, b') /\ good b' /\ ext b b' /\ Rwb b' r v.
Proof.
  intros G Hx Hy E.
  assert (Gen : (x <= 1 \/ y <= 1) -> v = None ->
    exists r b', push_or b x y = Ok (r, b') /\ good b' /\ ext b b' /\ Rwb b' r v).
  { intros Hc ->. destruct (or_gen_const b x y G (Rwb_valid _ _ _ (proj1 G) Hx) (Rwb_valid _ _ _ (proj1 G) Hy) Hc)
      as (r & b' & E' & G' & X & V). exists r, b'. auto. }
  destruct vx as [[|]|], vy as [[|]|]; cbn [Rwb k_or] in Hx, Hy, E; subst; try discriminate; injection E as <-.
  - eexists; exists b. split; [apply (or_cw b true true)|]. split; [exact G|]. split; [apply ext_refl|reflexivity].
  - eexists; exists b. split; [apply (or_cw b true false)|]. split; [exact G|]. split; [apply ext_refl|reflexivity].
  - apply Gen; [left; cbn [cw]; lia|reflexivity].
  - eexists; exists b. split; [apply (or_cw b false true)|]. split; [exact G|]. split; [apply ext_refl|reflexivity].
  - eexists; exists b. split; [apply (or_cw b false false)|]. split; [exact G|]. split; [apply ext_refl|reflexivity].
  - exists y, b. cbn [cw]. split; [apply or_zero_l|]. split; [exact G|]. split; [apply ext_refl|exact Hy].
  - apply Gen; [right; cbn [cw]; lia|reflexivity].
  - exists x, b. cbn [cw]. split; [apply or_zero_r|]. split; [exact G|]. split; [apply ext_refl|exact Hx].
Qed.

Lemma keq_ok b x y vx vy : good b -> Rwb b x vx -> Rwb b y vy ->
  exists r b', push_eq b x y = Ok (r, b') /\ good b' /\ ext b b' /\ Rwb b' r (k_eq vx vy).
Proof.
  intros G Hx Hy.
  assert (Gen : k_eq vx vy = None ->
    exists r b', push_eq b x y = Ok (r, b') /\ good b' /\ ext b b' /\ Rwb b' r (k_eq vx vy)).
  { intros ->. destruct (eq_gen b x y G (Rwb_valid _ _ _ (proj1 G) Hx) (Rwb_valid _ _ _ (proj1 G) Hy))
      as (r & b' & E & G' & X & V). exists r, b'. auto. }
  destruct vx as [a|], vy as [c|]; try (apply Gen; reflexivity).
  cbn [Rwb] in Hx, Hy. subst. exists (cw (negb (xorb a c))), b. split; [apply eq_cw|]. split; [exact G|]. split; [apply ext_refl|reflexivity].
Qed.

Lemma knot_ok b x vx : good b -> Rwb b x vx ->
  exists r b', push_not b x = Ok (r, b') /\ good b' /\ ext b b' /\ Rwb b' r (k_not vx).
Proof.
  intros G Hx. destruct vx as [a|]; cbn [Rwb k_not option_map] in *.
  - subst. exists (cw (negb a)), b. split; [apply not_cw|]. split; [exact G|]. split; [apply ext_refl|reflexivity].
  - destruct (not_gen b x G Hx) as (r & b' & E & G' & X & V). exists r, b'. auto.
Qed.

Lemma kmux_ok b s x0 x1 vs v0 v1 v : good b -> Rwb b s vs -> Rwb b x0 v0 -> Rwb b x1 v1 ->
  k_mux vs v0 v1 = Some v ->
  exists r b', push_mux b s x0 x1 = Ok (r, b') /\ good b' /\ ext b b' /\ Rwb b' r v.
Proof.
  intros G Hs H0 H1 E. pose proof (proj1 G) as I.
  pose proof (Rwb_valid _ _ _ I H0) as V0. pose proof (Rwb_valid _ _ _ I H1) as V1.
  destruct vs as [[|]|]; cbn [k_mux Rwb] in E, Hs.
  - injection E as <-. subst s. destruct (mux_true b x0 x1 G V0 V1) as (b' & E' & G' & X).
    exists x0, b'. split; [exact E'|]. split; [exact G'|]. split; [exact X|]. eapply Rwb_ext; eauto.
  - injection E as <-. subst s. destruct v0 as [a|], v1 as [c|];
      try (destruct (mux_false b x0 x1 G V0 V1) as (r & b' & E' & G' & X & V); exists r, b'; cbn [Rwb]; auto; fail).
    cbn [Rwb] in H0, H1. subst. exists (cw c), b. split; [apply (mux_cw b false a c)|]. split; [exact G|]. split; [apply ext_refl|reflexivity].
  - destruct v0 as [a|]; [|discriminate]. destruct v1 as [c|]; [|discriminate]. injection E as <-.
    cbn [Rwb] in H0, H1. subst.
    destruct (mux_data_known b s a c G Hs) as (r & b' & E' & G' & X & V & Heq).
    exists r, b'. split; [exact E'|]. split; [exact G'|]. split; [exact X|].
    destruct (Bool.eqb a c) eqn:Eac; cbn [Rwb]; [|exact V]. apply Bool.eqb_prop in Eac. auto.
Qed.

(* the relations of the instance *)
Definition kextS (s s' : cst) : Prop := ext (cb s) (cb s').
Definition kRw (s : cst) : N -> kw -> Prop := Rwb (cb s).
Definition kRP (s : cst) (P : pstate) (_ : unit) : Prop := cprec (ps_rec P).
Definition kRS (s : cst) (_ : unit) : Prop := good (cb s) /\ cprec (ps_rec (cp s)).

Lemma ksim_liftb {X Y} s o (f : builder -> res (X * builder)) (y : Y) (Q : cst -> X -> Y -> Prop) :
  cprec (ps_rec (cp s)) ->
  (exists r b', f (cb s) = Ok (r, b') /\ good b' /\ ext (cb s) b' /\ Q (mkCst b' (cp s)) r y) ->
  simG kextS kRS s o (liftb f) (kret y) Q.
Proof.
  intros HP (r & b' & E & G' & Hext & HQ) y' o' H. unfold kret in H. injection H as <- <-.
  exists r, (mkCst b' (cp s)). unfold liftb. rewrite E. cbn [bind].
  split; [reflexivity|]. split; [exact Hext|]. split; [split; assumption|exact HQ].
Qed.

Lemma ksim_crash {X Y} s o (mA : cst -> res (X * cst)) (Q : cst -> X -> Y -> Prop) :
  simG kextS kRS s o mA (@kcrash Y) Q.
Proof. intros y o' H. discriminate. Qed.

Definition free_rel : param_rel bops kops.
Proof.
  refine (mkParamRel _ _ _ _ _ _ bops kops kextS (fun _ => True) kRw kRP kRS
            _ _ _ _ _ _ _ _ _ _ _ _ _ _ _ _ _ _ _ _ _ _ _ _ _ _ _); try (intros; apply ksim_crash).
  - intro s. apply ext_refl.
  - intros s1 s2 s3. apply ext_trans.
  - intros; exact I.
  - intros s s' w v E _. apply Rwb_ext. exact E.
  - intros s s' p q _ _ H. exact H.
  - intros s o _. reflexivity.
  - intros s o _. reflexivity.
  - (* xor *) intros s o x y vx vy [G HP] Hx Hy. apply ksim_liftb; [exact HP|]. apply kxor_ok; assumption.
  - (* and *) intros s o x y vx vy [G HP] Hx Hy. cbn [o_and kops].
    destruct (k_and vx vy) as [v|] eqn:E; [|apply ksim_crash]. apply ksim_liftb; [exact HP|].
    destruct (kand_ok _ _ _ _ _ _ G Hx Hy E) as (r & E' & Hr). exists r, (cb s).
    split; [exact E'|]. split; [exact G|]. split; [apply ext_refl|exact Hr].
  - (* or *) intros s o x y vx vy [G HP] Hx Hy. cbn [o_or kops].
    destruct (k_or vx vy) as [v|] eqn:E; [|apply ksim_crash]. apply ksim_liftb; [exact HP|].
    eapply kor_ok; eauto.
  - (* eq *) intros s o x y vx vy [G HP] Hx Hy. apply ksim_liftb; [exact HP|]. apply keq_ok; assumption.
  - (* not *) intros s o x vx [G HP] Hx. apply ksim_liftb; [exact HP|]. apply knot_ok; assumption.
  - (* mux *) intros s o c x0 x1 vc v0 v1 [G HP] Hc H0 H1. cbn [o_mux kops].
    destruct (k_mux vc v0 v1) as [v|] eqn:E; [|apply ksim_crash]. apply ksim_liftb; [exact HP|].
    eapply kmux_ok; eauto.
  - (* negation *) intros s o x vx [G HP] Hx. cbn [o_negation kops]. unfold k_negation.
    destruct (known vx) as [bx|] eqn:Ex; [|apply ksim_crash]. cbn [option_map kopt].
    rewrite (Rwb_known _ _ _ _ Hx Ex). apply ksim_liftb; [exact HP|].
    eexists. exists (cb s). split; [apply negation_const|]. split; [exact G|]. split; [apply ext_refl|apply Rwb_some].
  - (* addition *) intros s o x y vx vy [G HP] Hx Hy. cbn [o_addition kops]. unfold k_addition.
    destruct (known vx) as [bx|] eqn:Ex; [|apply ksim_crash]. destruct (known vy) as [by_|] eqn:Ey; [|apply ksim_crash].
    destruct (length bx =? length by_)%nat eqn:El; [|apply ksim_crash]. apply Nat.eqb_eq in El.
    rewrite (Rwb_known _ _ _ _ Hx Ex), (Rwb_known _ _ _ _ Hy Ey). apply ksim_liftb; [exact HP|].
    eexists. exists (cb s). split; [apply addition_const; exact El|]. split; [exact G|]. split; [apply ext_refl|].
    cbn [fst snd]. split; [apply Rwb_some|split; reflexivity].
  - (* subtraction *) intros s o x y sg vx vy [G HP] Hx Hy. cbn [o_subtraction kops]. unfold k_subtraction.
    destruct (known vx) as [bx|] eqn:Ex; [|apply ksim_crash]. destruct (known vy) as [by_|] eqn:Ey; [|apply ksim_crash].
    match goal with |- context [if ?g then _ else _] => destruct g eqn:El; [|apply ksim_crash] end.
    apply andb_prop in El. destruct El as [L1 L2]. apply Nat.eqb_eq in L1.
    rewrite (Rwb_known _ _ _ _ Hx Ex), (Rwb_known _ _ _ _ Hy Ey). apply ksim_liftb; [exact HP|].
    destruct (subtraction_const (cb s) bx by_ sg L1) as (b' & E & ->).
    { intros ->. cbn [negb orb] in L2. destruct bx; [discriminate|congruence]. }
    eexists. exists (cb s). split; [exact E|]. split; [exact G|]. split; [apply ext_refl|].
    cbn [fst snd]. split; [apply Rwb_some|reflexivity].
  - (* multiplier *) intros s o x y z c vx vy vz vc [G HP] Hx Hy Hz Hc. cbn [o_multiplier kops]. unfold k_multiplier.
    destruct vx as [a1|]; [|apply ksim_crash]. destruct vy as [a2|]; [|apply ksim_crash].
    destruct vz as [a3|]; [|apply ksim_crash]. destruct vc as [a4|]; [|apply ksim_crash].
    cbn [kRw Rwb] in Hx, Hy, Hz, Hc. subst. apply ksim_liftb; [exact HP|].
    eexists. exists (cb s). split; [apply multiplier_cw|]. split; [exact G|]. split; [apply ext_refl|].
    cbn [fst snd]. split; reflexivity.
  - (* comparator *) intros s o bits x sx y sy vx vy [G HP] Hx Hy. cbn [o_comparator kops]. unfold k_comparator.
    destruct (known vx) as [bx|] eqn:Ex; [|apply ksim_crash]. destruct (known vy) as [by_|] eqn:Ey; [|apply ksim_crash].
    destruct ((bits <=? length bx) && (bits <=? length by_))%nat eqn:El; [|apply ksim_crash].
    apply andb_prop in El. destruct El as [L1 L2]. apply Nat.leb_le in L1, L2.
    rewrite (Rwb_known _ _ _ _ Hx Ex), (Rwb_known _ _ _ _ Hy Ey). apply ksim_liftb; [exact HP|].
    eexists. exists (cb s). split; [apply comparator_const; assumption|]. split; [exact G|]. split; [apply ext_refl|].
    cbn [fst snd]. split; reflexivity.
  - (* eq_circuit *) intros s o x y vx vy [G HP] Hx Hy. cbn [o_eq_circuit kops]. unfold k_eq_circuit.
    destruct (known vx) as [bx|] eqn:Ex; [|apply ksim_crash]. destruct (known vy) as [by_|] eqn:Ey; [|apply ksim_crash].
    rewrite (Rwb_known _ _ _ _ Hx Ex), (Rwb_known _ _ _ _ Hy Ey). apply ksim_liftb; [exact HP|].
    eexists. exists (cb s). split; [apply eq_circuit_const|]. split; [exact G|]. split; [apply ext_refl|reflexivity].
  - (* panic_if *) intros s o c vc r m [G HP] Hc. cbn [o_panic_if kops]. destruct vc as [a|]; [|apply ksim_crash].
    cbn [k_known_cond]. cbn [kRw Rwb] in Hc. subst c.
    intros y o' H. unfold kret in H. injection H as <- <-.
    destruct (push_panic_if_const (cb s) (cp s) (cw a) r (mkPLoc (m_sl m) (m_sc m) (m_el m) (m_ec m)) HP (cw_le a))
      as (P' & E & HP').
    exists tt, (mkCst (cb s) P'). cbn [o_panic_if bops]. unfold b_panic_if. rewrite E. cbn [bind].
    split; [reflexivity|]. split; [apply ext_refl|]. split; [split; assumption|exact I].
  - (* peek *) intros s o [G HP]. intros y o' H. unfold o_peek, kops, kret in H. injection H as <- <-.
    exists (cp s), s. split; [reflexivity|]. split; [apply ext_refl|]. split; [split; assumption|exact HP].
  - (* replace *) intros s o P ob [G HP] HPA. intros y o' H. unfold o_replace, kops, kret in H. injection H as <- <-.
    exists (cp s), (mkCst (cb s) P). split; [reflexivity|]. split; [apply ext_refl|]. split; [split; assumption|exact HP].
  - (* mux_panic *) intros s o c vc T F oT oF [G HP] Hc HT HF. cbn [o_mux_panic kops]. destruct vc as [a|]; [|apply ksim_crash].
    cbn [k_known_cond]. cbn [kRw Rwb] in Hc. subst c.
    intros y o' H. unfold kret in H. injection H as <- <-.
    destruct (mux_panic_const (cb s) (cw a) T F (cw_le a) HT HF) as (P' & E & HP').
    exists P', (mkCst (cb s) (cp s)). cbn [o_mux_panic bops]. unfold b_mux_panic. rewrite E. cbn [bind].
    split; [reflexivity|]. split; [apply ext_refl|]. split; [split; assumption|exact HP'].
Defined.

Print Assumptions free_rel.
