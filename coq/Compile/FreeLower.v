(* C15, program level: a program whose constness run (the generic lowering over FreeOps.kops)
   is Ok compiles to a gate store and a circuit with ZERO AND gates.  [klower_main] is the
   executable, decidable definition of "data-movement program". *)
From GV Require Import Base.Util Base.NMap Lang.Ast Circuit.Ssa
  Builder.Builder Builder.Build Builder.BuilderSem Builder.BuilderSpec Builder.BuilderProofs
  Builder.Requests Builder.StructSpec Builder.StructProofs
  Gadgets.Gadgets Gadgets.GadgetSpec Panic.PanicRec Compile.Lower Compile.LowerSound
  Compile.ParamBase Compile.ParamHelpers Compile.ParamLower Compile.FreeOps.

(* every bit of every parameter of main is an unknown wire *)
Definition kbindings (bindings : list (N * list N)) : list (N * list kw) :=
  map (fun b => (fst b, map (fun _ : N => @None bool) (snd b))) bindings.

(* the constness run of main; Ok = "data movement": no operation that could cost an AND gate *)
Definition klower_main (fuel : nat) (P : program) : res (list kw) :=
  match find_fn P (p_main P) with
  | None => Crash
  | Some fd =>
      let '(input_gates, bindings) := param_wiring P (fn_params fd) in
      if sumN input_gates =? 0 then Crash else
      let* E0 := main_env kops P (kbindings bindings) in
      let* ((outs, _), _) := lower_block kops fuel P (fn_body fd) E0 tt in
      Ok outs
  end.

Lemma cwires_valids b l : inv b -> cwires l -> valids b l.
Proof.
  intros I H. unfold valids. eapply Forall_impl; [|exact H]. intros w Hw. cbn beta in Hw.
  destruct (le1_cw w Hw) as [a ->]. apply valid_cw. exact I.
Qed.

Lemma Rws_valids b ws vs : inv b -> Forall2 (Rwb b) ws vs -> valids b ws.
Proof. intros I H. induction H as [|w v ws vs Hw _ IH]; constructor; [eapply Rwb_valid; eauto|exact IH]. Qed.

Section Free.
Variable fuel : nat.
Variable dedup : bool.
Variable P : program.

(* DATA MOVEMENT COSTS ZERO AND GATES.  If the constness run of main is Ok, the model of
   compile.rs (gate de-duplication on or off) succeeds with a gate store that contains no
   AND gate, its result wires are the constants / wires the constness run announces, and
   build emits a circuit without any AND gate. *)
Theorem data_movement_zero_and kouts :
  klower_main fuel P = Ok kouts ->
  exists s outs c,
    lower_main_with fuel dedup P = Ok (PreOk s outs) /\
    band_count (cb s) = 0 /\
    Forall2 (Rwb (cb s)) outs kouts /\
    lower_program_with fuel dedup P = Ok (LCircuit c) /\
    and_gates c = 0.
Proof.
  intro H. unfold klower_main in H. unfold lower_program_with, lower_main_with.
  destruct (find_fn P (p_main P)) as [fd|]; [|discriminate].
  destruct (param_wiring P (fn_params fd)) as [igs bindings] eqn:Epw.
  destruct (sumN igs =? 0); [discriminate|].
  destruct (main_env kops P (kbindings bindings)) as [EB0| |] eqn:EEB; cbn [bind] in H; try discriminate.
  destruct (lower_block kops fuel P (fn_body fd) EB0 tt) as [[[kouts' EBend] o']| |] eqn:EblkB; cbn [bind] in H; try discriminate.
  injection H as <-.
  set (s0 := initial_cst dedup igs).
  destruct (param_wiring_range _ _ _ _ Epw) as [Hrange _].
  assert (HS0 : RS free_rel s0 tt).
  { split; [apply good_new|exact cprec_ok]. }
  assert (HB : Forall2 (Rbind free_rel s0) bindings (kbindings bindings)).
  { unfold kbindings. clear - Hrange. induction bindings as [|[x ws] bs IH]; cbn [map]; constructor.
    - split; [reflexivity|]. cbn [fst snd]. inversion Hrange as [|b0 l0 Hw _]; subst. cbn [snd] in Hw.
      clear - Hw. induction ws as [|w ws IHw]; cbn [map]; constructor.
      + inversion Hw as [|w0 l0 Hlt _]; subst. cbn. unfold valid, counter. cbn. lia.
      + apply IHw. now inversion Hw.
    - apply IH. now inversion Hrange. }
  destruct (rel_main_env free_rel s0 tt P _ _ _ HS0 HB EEB) as (E0 & -> & HE0). cbn [bind].
  destruct (lower_param free_rel P fuel) as (_ & _ & _ & Hblk).
  destruct (Hblk (fn_body fd) s0 tt E0 EB0 HS0 HE0 _ _ EblkB) as ([outs EA] & s1 & -> & _ & HS1 & Houts & _).
  cbn [bind]. cbn [fst] in Houts.
  destruct HS1 as [[I1 Z1] HP1].
  assert (Vp : valids (cb s1) (prec_wires (ps_rec (cp s1)))) by (apply cwires_valids; assumption).
  assert (Vo : valids (cb s1) outs) by (eapply Rws_valids; eauto).
  pose proof (build_is_cbuilt (cb s1) _ _ I1 Vp Vo) as Eb.
  exists s1, outs, (cbuilt (cb s1) (prec_wires (ps_rec (cp s1))) outs).
  split; [reflexivity|]. split; [exact Z1|]. split; [exact Houts|]. rewrite Eb. cbn [bind]. split; [reflexivity|].
  pose proof (and_gates_cbuilt (cb s1) (prec_wires (ps_rec (cp s1))) outs) as Hle. lia.
Qed.

(* the same, for whatever circuit the model of the compiler returns *)
Corollary data_movement_circuit_zero_and kouts c :
  klower_main fuel P = Ok kouts -> lower_program_with fuel dedup P = Ok (LCircuit c) -> and_gates c = 0.
Proof.
  intros H Hc. destruct (data_movement_zero_and kouts H) as (s & outs & c' & _ & _ & _ & Hc' & Hz).
  rewrite Hc in Hc'. injection Hc' as ->. exact Hz.
Qed.

End Free.

Print Assumptions data_movement_zero_and.
Print Assumptions data_movement_circuit_zero_and.

(* ------------------------------------------------------------------ non-vacuity *)

Module FreeExamples.
Definition m0 : meta := mkMeta 0 0 0 0.
Definition u8 := TInt false 8.
Definition i8 := TInt true 8.
Definition usz := TInt false 32.
Definition pair8 := TTup [u8; u8].
Definition arr3 := TArr u8 3.
Definition sS := TStruct 20.
Definition eT := TEnum 31.
Definition lit (n : N) : expr := Ex (ENumU n 32) m0 usz.
Definition lit8 (n : N) : expr := Ex (ENumU n 8) m0 u8.
Definition id_ (x : N) (t : ty) : expr := Ex (EId x) m0 t.
Definition pid (x : N) (t : ty) : pattern := Pat (PId x) m0 t.
Definition st (s : stmt_inner) : stmt := St s m0.
Definition prog (params : list (N * ty)) (ret : ty) (body : list stmt) : program :=
  mkProgram [(20, [(0, u8); (1, u8)])] [(31, [[]; [u8]])] [mkFn 9 params ret body] [] 9.

(* struct S { a: u8, b: u8 }
   fn main(x: (u8, u8), arr: [u8; 3]) -> (i8, [u8; 3], S) {
     let (p, q) = x;                    // tuple destructuring
     let s = S { a: q, b: p };          // struct re-pack
     let mut a2 = arr;
     a2[1] = a2[2];                     // constant-index read and write
     let mut acc = s.a as i8;           // field access, equal-width cast
     for e in [p, q] { acc = e as i8; } // loop over a literal array
     for i in 0..2 { a2[i] = arr[i + 1]; }   // index arithmetic on loop constants
     (acc, a2, s)
   } *)
Definition move_body : list stmt :=
  [ st (SLet (Pat (PTup [pid 10 u8; pid 11 u8]) m0 pair8) (id_ 1 pair8));
    st (SLet (pid 12 sS) (Ex (EStructLit 20 [(0, id_ 11 u8); (1, id_ 10 u8)]) m0 sS));
    st (SLetMut 13 (id_ 2 arr3));
    st (SAssign 13 [AIdx arr3 (lit 1)] (Ex (EIdx (id_ 13 arr3) (lit 2)) m0 u8));
    st (SLetMut 14 (Ex (ECast i8 (Ex (EFld (id_ 12 sS) 0) m0 u8)) m0 i8));
    st (SFor (pid 15 u8) (Ex (EArrLit [id_ 10 u8; id_ 11 u8]) m0 (TArr u8 2))
          [st (SAssign 14 [] (Ex (ECast i8 (id_ 15 u8)) m0 i8))]);
    st (SFor (pid 16 usz) (Ex (ERange 0 2 32) m0 (TArr usz 2))
          [st (SAssign 13 [AIdx arr3 (id_ 16 usz)]
                 (Ex (EIdx (id_ 2 arr3) (Ex (EOp OAdd (id_ 16 usz) (lit 1)) m0 usz)) m0 u8))]);
    st (SExpr (Ex (ETupLit [id_ 14 i8; id_ 13 arr3; id_ 12 sS]) m0 (TTup [i8; arr3; sS]))) ].

Definition move_prog : program := prog [(1, pair8); (2, arr3)] (TTup [i8; arr3; sS]) move_body.

(* the constness run accepts it: 48 output bits, all "some wire" *)
Example move_prog_is_data_movement : klower_main 50 move_prog = Ok (repeat None 48).
Proof. vm_compute. reflexivity. Qed.

(* hence (theorem): zero AND gates, with and without gate de-duplication *)
Example move_prog_zero_and dedup :
  exists c, lower_program_with 50 dedup move_prog = Ok (LCircuit c) /\ and_gates c = 0.
Proof.
  destruct (data_movement_zero_and 50 dedup move_prog _ move_prog_is_data_movement) as (s & outs & c & _ & _ & _ & H1 & H2).
  exists c. split; assumption.
Qed.

(* cross-check by running the model of the compiler: gates ARE requested (XORs / NOTs of the
   constant-selector muxes) but none is an AND and all are dead; the circuit is the two
   constant gates *)
Example move_prog_store :
  match lower_main_with 50 true move_prog with
  | Ok (PreOk s _) => (band_count (cb s), lenN (b_gates_rev (cb s)))
  | _ => (1, 0)
  end = (0, 48) /\
  match lower_program_with 50 true move_prog with
  | Ok (LCircuit c) => Some (and_gates c, lenN (gates c))
  | _ => None
  end = Some (0, 2).
Proof. vm_compute. split; reflexivity. Qed.

(* rejected: a bitwise AND of two inputs *)
Definition and_prog : program :=
  prog [(1, u8); (2, u8)] u8 [st (SExpr (Ex (EOp OBitAnd (id_ 1 u8) (id_ 2 u8)) m0 u8))].
Example and_prog_rejected : klower_main 50 and_prog = Crash.
Proof. vm_compute. reflexivity. Qed.

(* rejected: an array read at a dynamic index *)
Definition idx_prog : program :=
  prog [(1, arr3); (2, usz)] u8 [st (SExpr (Ex (EIdx (id_ 1 arr3) (id_ 2 usz)) m0 u8))].
Example idx_prog_rejected : klower_main 50 idx_prog = Crash.
Proof. vm_compute. reflexivity. Qed.

(* rejected, and rightly so: destructuring an enum PARAMETER with a two-arm match costs AND
   gates in the real circuit (the arms' results are muxed by the tag test): 16 of them here *)
Definition enum_prog : program :=
  prog [(1, eT)] u8
    [st (SExpr (Ex (EMatch (id_ 1 eT)
          [(Pat (PEnumTup 31 1 [pid 10 u8]) m0 eT, id_ 10 u8); (Pat (PId 11) m0 eT, lit8 0)]) m0 u8))].
Example enum_prog_rejected :
  klower_main 50 enum_prog = Crash /\
  match lower_program_with 50 true enum_prog with Ok (LCircuit c) => Some (and_gates c) | _ => None end = Some 16.
Proof. vm_compute. split; reflexivity. Qed.

(* a gap of the abstract domain (it does not track wire identity): `if c { y } else { y }` on an
   unknown condition is rejected although every mux of the real compiler hits the
   x0 == x1 shortcut and the circuit has no AND gate *)
Definition if_same_prog : program :=
  prog [(1, TBool); (2, u8)] u8 [st (SExpr (Ex (EIf (id_ 1 TBool) (id_ 2 u8) (id_ 2 u8)) m0 u8))].
Example if_same_prog_gap :
  klower_main 50 if_same_prog = Crash /\
  match lower_program_with 50 true if_same_prog with Ok (LCircuit c) => Some (and_gates c) | _ => None end = Some 0.
Proof. vm_compute. split; reflexivity. Qed.
End FreeExamples.

Print Assumptions FreeExamples.move_prog_zero_and.
