(* Parametricity of the generic lowering of Compile/Lower.v, abstractly: the simulation
   framework of SimBase.v over ARBITRARY instances OA / OB of the operation record and
   arbitrary Kripke relations, packaged in the record [param_rel].  The concrete framework of
   SimBase.v / SimOps.v is one instance (ParamInst.v); "the shape of the arguments decides
   definedness" for the bit-level semantics is another (TSemShape.v). *)
From GV Require Import Base.Util Base.NMap Lang.Ast Panic.PanicRec Compile.Lower.

(* ------------------------------------------------------------------ Forall2 utilities *)

Section F2U.
  Context {A B : Type} (R : A -> B -> Prop).

  Lemma F2_length l1 l2 : Forall2 R l1 l2 -> length l1 = length l2.
  Proof. induction 1; cbn; congruence. Qed.

  Lemma F2_firstn n : forall l1 l2, Forall2 R l1 l2 -> Forall2 R (firstn n l1) (firstn n l2).
  Proof. induction n; intros l1 l2 H; cbn; [constructor|]. destruct H; constructor; auto. Qed.

  Lemma F2_skipn n : forall l1 l2, Forall2 R l1 l2 -> Forall2 R (skipn n l1) (skipn n l2).
  Proof. induction n; intros l1 l2 H; cbn; [exact H|]. destruct H; [constructor|auto]. Qed.

  Lemma F2_app l1 l2 r1 r2 : Forall2 R l1 l2 -> Forall2 R r1 r2 -> Forall2 R (l1 ++ r1) (l2 ++ r2).
  Proof. induction 1; cbn; auto. Qed.

  Lemma F2_rev l1 l2 : Forall2 R l1 l2 -> Forall2 R (rev l1) (rev l2).
  Proof. induction 1; cbn; [constructor|]. apply F2_app; auto. Qed.

  Lemma F2_repeat a b n : R a b -> Forall2 R (repeat a n) (repeat b n).
  Proof. intro H. induction n; cbn; constructor; auto. Qed.

  Lemma F2_nth l1 l2 d1 d2 i : Forall2 R l1 l2 -> R d1 d2 -> R (nth i l1 d1) (nth i l2 d2).
  Proof. intros H Hd. revert i. induction H; intros [|i]; cbn; auto. Qed.

  Lemma F2_hd l1 l2 d1 d2 : Forall2 R l1 l2 -> R d1 d2 -> R (hd d1 l1) (hd d2 l2).
  Proof. destruct 1; cbn; auto. Qed.

  Lemma F2_tl l1 l2 : Forall2 R l1 l2 -> Forall2 R (tl l1) (tl l2).
  Proof. destruct 1; cbn; auto. Qed.

  Lemma F2_last l1 l2 d1 d2 : Forall2 R l1 l2 -> R d1 d2 -> R (last l1 d1) (last l2 d2).
  Proof. intros H Hd. induction H; cbn; auto. destruct H0; auto. Qed.

  Lemma F2_removelast l1 l2 : Forall2 R l1 l2 -> Forall2 R (removelast l1) (removelast l2).
  Proof. induction 1; cbn; [constructor|]. destruct H0; [constructor|]. constructor; auto. Qed.

  Lemma F2_nth_error l1 l2 i : Forall2 R l1 l2 ->
    match nth_error l1 i, nth_error l2 i with
    | Some a, Some b => R a b
    | None, None => True
    | _, _ => False
    end.
  Proof. intro H. revert i. induction H; intros [|i]; cbn; auto. apply IHForall2. Qed.
End F2U.

Lemma F2_concat {A B} (R : A -> B -> Prop) l1 l2 :
  Forall2 (Forall2 R) l1 l2 -> Forall2 R (concat l1) (concat l2).
Proof. induction 1; cbn; [constructor|]. apply F2_app; auto. Qed.

Lemma F2_combine {A B C D} (R : A -> B -> Prop) (S : C -> D -> Prop) l1 l2 r1 r2 :
  Forall2 R l1 l2 -> Forall2 S r1 r2 ->
  Forall2 (fun p q => R (fst p) (fst q) /\ S (snd p) (snd q)) (combine l1 r1) (combine l2 r2).
Proof.
  intro H. revert r1 r2. induction H; intros r1 r2 Hr; cbn; [constructor|].
  destruct Hr; constructor; auto.
Qed.

Lemma F2_map {A B C D} (R : C -> D -> Prop) (f : A -> C) (g : B -> D) (P : A -> B -> Prop) l1 l2 :
  (forall a b, P a b -> R (f a) (g b)) -> Forall2 P l1 l2 -> Forall2 R (map f l1) (map g l2).
Proof. intros Hf. induction 1; cbn; constructor; auto. Qed.

Lemma F2_map_same {A C D} (R : C -> D -> Prop) (f : A -> C) (g : A -> D) l :
  (forall a, R (f a) (g a)) -> Forall2 R (map f l) (map g l).
Proof. intro H. induction l; cbn; constructor; auto. Qed.

Lemma F2_impl' {A B} (R R' : A -> B -> Prop) l1 l2 :
  (forall a b, R a b -> R' a b) -> Forall2 R l1 l2 -> Forall2 R' l1 l2.
Proof. intros H. induction 1; constructor; auto. Qed.


(* ------------------------------------------------------------------ the abstract triple *)

Definition simG {SA SB : Type} (extS : SA -> SA -> Prop) (RS : SA -> SB -> Prop) {X Y : Type}
    (s : SA) (o : SB) (mA : SA -> res (X * SA)) (mB : SB -> res (Y * SB)) (Q : SA -> X -> Y -> Prop) : Prop :=
  forall y o', mB o = Ok (y, o') ->
  exists x s', mA s = Ok (x, s') /\ extS s s' /\ RS s' o' /\ Q s' x y.

(* ------------------------------------------------------------------ the record of hypotheses *)

Record param_rel {WA WB SA SB PA PB : Type} (OA : ops WA SA PA) (OB : ops WB SB PB) : Type := mkParamRel {
  pr_extS : SA -> SA -> Prop;
  pr_okS : SA -> Prop;
  pr_Rw : SA -> WA -> WB -> Prop;
  pr_RP : SA -> PA -> PB -> Prop;
  pr_RS : SA -> SB -> Prop;
  pr_extS_refl : forall s, pr_extS s s;
  pr_extS_trans : forall s1 s2 s3, pr_extS s1 s2 -> pr_extS s2 s3 -> pr_extS s1 s3;
  pr_RS_ok : forall s o, pr_RS s o -> pr_okS s;
  pr_Rw_mono : forall s s' w v, pr_extS s s' -> pr_okS s -> pr_Rw s w v -> pr_Rw s' w v;
  pr_RP_mono : forall s s' p q, pr_extS s s' -> pr_okS s -> pr_RP s p q -> pr_RP s' p q;
  pr_Rw_wF : forall s o, pr_RS s o -> pr_Rw s (wF OA) (wF OB);
  pr_Rw_wT : forall s o, pr_RS s o -> pr_Rw s (wT OA) (wT OB);
  pr_xor : forall s o x y vx vy, pr_RS s o -> pr_Rw s x vx -> pr_Rw s y vy ->
    simG pr_extS pr_RS s o (o_xor OA x y) (o_xor OB vx vy) (fun s' r v => pr_Rw s' r v);
  pr_and : forall s o x y vx vy, pr_RS s o -> pr_Rw s x vx -> pr_Rw s y vy ->
    simG pr_extS pr_RS s o (o_and OA x y) (o_and OB vx vy) (fun s' r v => pr_Rw s' r v);
  pr_or : forall s o x y vx vy, pr_RS s o -> pr_Rw s x vx -> pr_Rw s y vy ->
    simG pr_extS pr_RS s o (o_or OA x y) (o_or OB vx vy) (fun s' r v => pr_Rw s' r v);
  pr_eq : forall s o x y vx vy, pr_RS s o -> pr_Rw s x vx -> pr_Rw s y vy ->
    simG pr_extS pr_RS s o (o_eq OA x y) (o_eq OB vx vy) (fun s' r v => pr_Rw s' r v);
  pr_not : forall s o x vx, pr_RS s o -> pr_Rw s x vx ->
    simG pr_extS pr_RS s o (o_not OA x) (o_not OB vx) (fun s' r v => pr_Rw s' r v);
  pr_mux : forall s o c x0 x1 vc v0 v1, pr_RS s o -> pr_Rw s c vc -> pr_Rw s x0 v0 -> pr_Rw s x1 v1 ->
    simG pr_extS pr_RS s o (o_mux OA c x0 x1) (o_mux OB vc v0 v1) (fun s' r v => pr_Rw s' r v);
  pr_negation : forall s o x vx, pr_RS s o -> Forall2 (pr_Rw s) x vx ->
    simG pr_extS pr_RS s o (o_negation OA x) (o_negation OB vx) (fun s' r v => Forall2 (pr_Rw s') r v);
  pr_addition : forall s o x y vx vy, pr_RS s o -> Forall2 (pr_Rw s) x vx -> Forall2 (pr_Rw s) y vy ->
    simG pr_extS pr_RS s o (o_addition OA x y) (o_addition OB vx vy)
      (fun s' r v => Forall2 (pr_Rw s') (fst (fst r)) (fst (fst v)) /\ pr_Rw s' (snd (fst r)) (snd (fst v))
                     /\ pr_Rw s' (snd r) (snd v));
  pr_subtraction : forall s o x y sg vx vy, pr_RS s o -> Forall2 (pr_Rw s) x vx -> Forall2 (pr_Rw s) y vy ->
    simG pr_extS pr_RS s o (o_subtraction OA x y sg) (o_subtraction OB vx vy sg)
      (fun s' r v => Forall2 (pr_Rw s') (fst r) (fst v) /\ pr_Rw s' (snd r) (snd v));
  pr_multiplier : forall s o x y z c vx vy vz vc, pr_RS s o -> pr_Rw s x vx -> pr_Rw s y vy -> pr_Rw s z vz ->
    pr_Rw s c vc ->
    simG pr_extS pr_RS s o (o_multiplier OA x y z c) (o_multiplier OB vx vy vz vc)
      (fun s' r v => pr_Rw s' (fst r) (fst v) /\ pr_Rw s' (snd r) (snd v));
  pr_udiv : forall s o x y vx vy, pr_RS s o -> Forall2 (pr_Rw s) x vx -> Forall2 (pr_Rw s) y vy ->
    simG pr_extS pr_RS s o (o_udiv OA x y) (o_udiv OB vx vy)
      (fun s' r v => Forall2 (pr_Rw s') (fst r) (fst v) /\ Forall2 (pr_Rw s') (snd r) (snd v));
  pr_sdiv : forall s o x y vx vy, pr_RS s o -> Forall2 (pr_Rw s) x vx -> Forall2 (pr_Rw s) y vy ->
    simG pr_extS pr_RS s o (o_sdiv OA x y) (o_sdiv OB vx vy)
      (fun s' r v => Forall2 (pr_Rw s') (fst r) (fst v) /\ Forall2 (pr_Rw s') (snd r) (snd v));
  pr_comparator : forall s o bits x sx y sy vx vy, pr_RS s o -> Forall2 (pr_Rw s) x vx -> Forall2 (pr_Rw s) y vy ->
    simG pr_extS pr_RS s o (o_comparator OA bits x sx y sy) (o_comparator OB bits vx sx vy sy)
      (fun s' r v => pr_Rw s' (fst r) (fst v) /\ pr_Rw s' (snd r) (snd v));
  pr_eq_circuit : forall s o x y vx vy, pr_RS s o -> Forall2 (pr_Rw s) x vx -> Forall2 (pr_Rw s) y vy ->
    simG pr_extS pr_RS s o (o_eq_circuit OA x y) (o_eq_circuit OB vx vy) (fun s' r v => pr_Rw s' r v);
  pr_merger : forall s o bits asc v vv, pr_RS s o -> Forall2 (Forall2 (pr_Rw s)) v vv ->
    simG pr_extS pr_RS s o (o_merger OA bits asc v) (o_merger OB bits asc vv)
      (fun s' r w => Forall2 (Forall2 (pr_Rw s')) r w);
  pr_sorter : forall s o bits v vv, pr_RS s o -> Forall2 (Forall2 (pr_Rw s)) v vv ->
    simG pr_extS pr_RS s o (o_sorter OA bits v) (o_sorter OB bits vv)
      (fun s' r w => Forall2 (Forall2 (pr_Rw s')) r w);
  pr_panic_if : forall s o c vc r m, pr_RS s o -> pr_Rw s c vc ->
    simG pr_extS pr_RS s o (o_panic_if OA c r m) (o_panic_if OB vc r m) (fun _ _ _ => True);
  pr_peek : forall s o, pr_RS s o ->
    simG pr_extS pr_RS s o (o_peek OA) (o_peek OB) (fun s' P ob => pr_RP s' P ob);
  pr_replace : forall s o P ob, pr_RS s o -> pr_RP s P ob ->
    simG pr_extS pr_RS s o (o_replace OA P) (o_replace OB ob) (fun s' P1 o1 => pr_RP s' P1 o1);
  pr_mux_panic : forall s o c vc T F oT oF, pr_RS s o -> pr_Rw s c vc -> pr_RP s T oT -> pr_RP s F oF ->
    simG pr_extS pr_RS s o (o_mux_panic OA c T F) (o_mux_panic OB vc oT oF) (fun s' P1 o1 => pr_RP s' P1 o1)
}.

Arguments pr_extS {WA WB SA SB PA PB OA OB} _.
Arguments pr_okS {WA WB SA SB PA PB OA OB} _.
Arguments pr_Rw {WA WB SA SB PA PB OA OB} _.
Arguments pr_RP {WA WB SA SB PA PB OA OB} _.
Arguments pr_RS {WA WB SA SB PA PB OA OB} _.

(* ------------------------------------------------------------------ the derived relations *)

Section Sim.
Context {WA WB SA SB PA PB : Type} {OA : ops WA SA PA} {OB : ops WB SB PB}.
Variable PR : param_rel OA OB.

Definition extS : SA -> SA -> Prop := pr_extS PR.
Definition okS : SA -> Prop := pr_okS PR.
Definition Rw : SA -> WA -> WB -> Prop := pr_Rw PR.
Definition RP : SA -> PA -> PB -> Prop := pr_RP PR.
Definition RS : SA -> SB -> Prop := pr_RS PR.

Definition Rws (s : SA) : list WA -> list WB -> Prop := Forall2 (Rw s).
Definition Rwss (s : SA) : list (list WA) -> list (list WB) -> Prop := Forall2 (Rws s).

Definition Rbind (s : SA) (a : N * list WA) (b : N * list WB) : Prop :=
  fst a = fst b /\ Rws s (snd a) (snd b).
Definition Rscope (s : SA) : @scope WA -> @scope WB -> Prop := Forall2 (Rbind s).
Definition RE (s : SA) : @cenv WA -> @cenv WB -> Prop := Forall2 (Rscope s).

Lemma extS_refl s : extS s s.
Proof. apply (pr_extS_refl _ _ PR). Qed.
Lemma extS_trans s1 s2 s3 : extS s1 s2 -> extS s2 s3 -> extS s1 s3.
Proof. apply (pr_extS_trans _ _ PR). Qed.

Lemma RS_ok s o : RS s o -> okS s.
Proof. apply (pr_RS_ok _ _ PR). Qed.

Lemma Rw_mono s s' w v : extS s s' -> okS s -> Rw s w v -> Rw s' w v.
Proof. apply (pr_Rw_mono _ _ PR). Qed.

Lemma Rws_mono s s' ws vs : extS s s' -> okS s -> Rws s ws vs -> Rws s' ws vs.
Proof. intros E Hi. apply F2_impl'. intros. eapply Rw_mono; eauto. Qed.

Lemma Rwss_mono s s' ws vs : extS s s' -> okS s -> Rwss s ws vs -> Rwss s' ws vs.
Proof. intros E Hi. apply F2_impl'. intros. eapply Rws_mono; eauto. Qed.

Lemma RE_mono s s' EA EB : extS s s' -> okS s -> RE s EA EB -> RE s' EA EB.
Proof.
  intros E Hi. apply F2_impl'. intros a b. apply F2_impl'. intros [k ws] [k' vs] [H1 H2].
  split; [exact H1|]. eapply Rws_mono; eauto.
Qed.

Lemma Rscope_mono s s' a b : extS s s' -> okS s -> Rscope s a b -> Rscope s' a b.
Proof.
  intros E Hi. apply F2_impl'. intros [k ws] [k' vs] [H1 H2].
  split; [exact H1|]. eapply Rws_mono; eauto.
Qed.

Lemma RP_mono s s' p q : extS s s' -> okS s -> RP s p q -> RP s' p q.
Proof. apply (pr_RP_mono _ _ PR). Qed.

Lemma Rws_length s ws vs : Rws s ws vs -> length ws = length vs.
Proof. apply F2_length. Qed.

Lemma Rw_const0 s o : RS s o -> Rw s (wF OA) (wF OB).
Proof. apply (pr_Rw_wF _ _ PR). Qed.
Lemma Rw_const1 s o : RS s o -> Rw s (wT OA) (wT OB).
Proof. apply (pr_Rw_wT _ _ PR). Qed.

(* ------------------------------------------------------------------ the simulation triple *)

Definition MA (X : Type) := SA -> res (X * SA).
Definition MB (Y : Type) := SB -> res (Y * SB).

Definition sim {X Y} (s : SA) (o : SB) (mA : MA X) (mB : MB Y) (Q : SA -> X -> Y -> Prop) : Prop :=
  forall y o', mB o = Ok (y, o') ->
  exists x s', mA s = Ok (x, s') /\ extS s s' /\ RS s' o' /\ Q s' x y.

Lemma sim_simG {X Y} s o (mA : MA X) (mB : MB Y) Q : simG (pr_extS PR) (pr_RS PR) s o mA mB Q -> sim s o mA mB Q.
Proof. intro H. exact H. Qed.

Lemma sim_ret {X Y} s o (x : X) (y : Y) (Q : SA -> X -> Y -> Prop) :
  RS s o -> Q s x y -> sim s o (ret x) (ret y) Q.
Proof.
  intros HS HQ y' o' H. unfold ret in H. injection H as <- <-.
  exists x, s. split; [reflexivity|]. split; [apply extS_refl|]. split; assumption.
Qed.

Lemma sim_bind {X Y X2 Y2} s o (mA : MA X) (mB : MB Y) (kA : X -> MA X2) (kB : Y -> MB Y2)
    (R : SA -> X -> Y -> Prop) (Q : SA -> X2 -> Y2 -> Prop) :
  sim s o mA mB R ->
  (forall s1 o1 x y, extS s s1 -> RS s1 o1 -> R s1 x y -> sim s1 o1 (kA x) (kB y) Q) ->
  sim s o (mbind mA kA) (mbind mB kB) Q.
Proof.
  intros Hm Hk y2 o2 H. unfold mbind in H.
  destruct (mB o) as [[y o1]| |] eqn:EB; try discriminate.
  destruct (Hm y o1 EB) as (x & s1 & EA & E1 & HS1 & HR).
  destruct (Hk s1 o1 x y E1 HS1 HR y2 o2 H) as (x2 & s2 & EA2 & E2 & HS2 & HQ).
  exists x2, s2. unfold mbind. rewrite EA. split; [exact EA2|].
  split; [eapply extS_trans; eauto|]. split; assumption.
Qed.

Lemma sim_crash {X Y} s o (mA : MA X) (Q : SA -> X -> Y -> Prop) : sim s o mA (crash (Cs:=SB) (A:=Y)) Q.
Proof. intros y o' H. discriminate. Qed.

Lemma sim_nofuel {X Y} s o (mA : MA X) (Q : SA -> X -> Y -> Prop) : sim s o mA (nofuel (Cs:=SB) (A:=Y)) Q.
Proof. intros y o' H. discriminate. Qed.

Lemma sim_lift {X Y} s o (rA : res X) (rB : res Y) (Q : SA -> X -> Y -> Prop) :
  RS s o -> (forall y, rB = Ok y -> exists x, rA = Ok x /\ Q s x y) ->
  sim s o (lift_res rA) (lift_res rB) Q.
Proof.
  intros HS H y o' E. unfold lift_res in E. destruct rB as [y0| |]; try discriminate.
  injection E as <- <-. destruct (H y0 eq_refl) as (x & -> & HQ).
  exists x, s. split; [reflexivity|]. split; [apply extS_refl|]. split; assumption.
Qed.

Lemma sim_conseq {X Y} s o (mA : MA X) (mB : MB Y) (Q Q' : SA -> X -> Y -> Prop) :
  sim s o mA mB Q -> (forall s' x y, extS s s' -> okS s' -> Q s' x y -> Q' s' x y) ->
  sim s o mA mB Q'.
Proof.
  intros H HQ y o' E. destruct (H y o' E) as (x & s' & EA & E1 & HS & Hq).
  exists x, s'. split; [exact EA|]. split; [exact E1|]. split; [exact HS|].
  apply HQ; auto. eapply RS_ok; eauto.
Qed.

(* ------------------------------------------------------------------ the operations *)

Lemma sim_xor s o x y vx vy : RS s o -> Rw s x vx -> Rw s y vy ->
  sim s o (o_xor OA x y) (o_xor OB vx vy) (fun s' r v => Rw s' r v).
Proof. apply (pr_xor _ _ PR). Qed.
Lemma sim_and s o x y vx vy : RS s o -> Rw s x vx -> Rw s y vy ->
  sim s o (o_and OA x y) (o_and OB vx vy) (fun s' r v => Rw s' r v).
Proof. apply (pr_and _ _ PR). Qed.
Lemma sim_or s o x y vx vy : RS s o -> Rw s x vx -> Rw s y vy ->
  sim s o (o_or OA x y) (o_or OB vx vy) (fun s' r v => Rw s' r v).
Proof. apply (pr_or _ _ PR). Qed.
Lemma sim_eq s o x y vx vy : RS s o -> Rw s x vx -> Rw s y vy ->
  sim s o (o_eq OA x y) (o_eq OB vx vy) (fun s' r v => Rw s' r v).
Proof. apply (pr_eq _ _ PR). Qed.
Lemma sim_not s o x vx : RS s o -> Rw s x vx ->
  sim s o (o_not OA x) (o_not OB vx) (fun s' r v => Rw s' r v).
Proof. apply (pr_not _ _ PR). Qed.
Lemma sim_mux s o c x0 x1 vc v0 v1 : RS s o -> Rw s c vc -> Rw s x0 v0 -> Rw s x1 v1 ->
  sim s o (o_mux OA c x0 x1) (o_mux OB vc v0 v1) (fun s' r v => Rw s' r v).
Proof. apply (pr_mux _ _ PR). Qed.
Lemma sim_negation s o x vx : RS s o -> Rws s x vx ->
  sim s o (o_negation OA x) (o_negation OB vx) (fun s' r v => Rws s' r v).
Proof. apply (pr_negation _ _ PR). Qed.
Lemma sim_addition s o x y vx vy : RS s o -> Rws s x vx -> Rws s y vy ->
  sim s o (o_addition OA x y) (o_addition OB vx vy)
    (fun s' r v => Rws s' (fst (fst r)) (fst (fst v)) /\ Rw s' (snd (fst r)) (snd (fst v)) /\ Rw s' (snd r) (snd v)).
Proof. apply (pr_addition _ _ PR). Qed.
Lemma sim_subtraction s o x y sg vx vy : RS s o -> Rws s x vx -> Rws s y vy ->
  sim s o (o_subtraction OA x y sg) (o_subtraction OB vx vy sg)
    (fun s' r v => Rws s' (fst r) (fst v) /\ Rw s' (snd r) (snd v)).
Proof. apply (pr_subtraction _ _ PR). Qed.
Lemma sim_multiplier s o x y z c vx vy vz vc : RS s o -> Rw s x vx -> Rw s y vy -> Rw s z vz -> Rw s c vc ->
  sim s o (o_multiplier OA x y z c) (o_multiplier OB vx vy vz vc)
    (fun s' r v => Rw s' (fst r) (fst v) /\ Rw s' (snd r) (snd v)).
Proof. apply (pr_multiplier _ _ PR). Qed.
Lemma sim_udiv s o x y vx vy : RS s o -> Rws s x vx -> Rws s y vy ->
  sim s o (o_udiv OA x y) (o_udiv OB vx vy)
    (fun s' r v => Rws s' (fst r) (fst v) /\ Rws s' (snd r) (snd v)).
Proof. apply (pr_udiv _ _ PR). Qed.
Lemma sim_sdiv s o x y vx vy : RS s o -> Rws s x vx -> Rws s y vy ->
  sim s o (o_sdiv OA x y) (o_sdiv OB vx vy)
    (fun s' r v => Rws s' (fst r) (fst v) /\ Rws s' (snd r) (snd v)).
Proof. apply (pr_sdiv _ _ PR). Qed.
Lemma sim_comparator s o bits x sx y sy vx vy : RS s o -> Rws s x vx -> Rws s y vy ->
  sim s o (o_comparator OA bits x sx y sy) (o_comparator OB bits vx sx vy sy)
    (fun s' r v => Rw s' (fst r) (fst v) /\ Rw s' (snd r) (snd v)).
Proof. apply (pr_comparator _ _ PR). Qed.
Lemma sim_eq_circuit s o x y vx vy : RS s o -> Rws s x vx -> Rws s y vy ->
  sim s o (o_eq_circuit OA x y) (o_eq_circuit OB vx vy) (fun s' r v => Rw s' r v).
Proof. apply (pr_eq_circuit _ _ PR). Qed.
Lemma sim_merger s o bits asc v vv : RS s o -> Rwss s v vv ->
  sim s o (o_merger OA bits asc v) (o_merger OB bits asc vv) (fun s' r w => Rwss s' r w).
Proof. apply (pr_merger _ _ PR). Qed.
Lemma sim_sorter s o bits v vv : RS s o -> Rwss s v vv ->
  sim s o (o_sorter OA bits v) (o_sorter OB bits vv) (fun s' r w => Rwss s' r w).
Proof. apply (pr_sorter _ _ PR). Qed.
Lemma sim_panic_if s o c vc r m : RS s o -> Rw s c vc ->
  sim s o (o_panic_if OA c r m) (o_panic_if OB vc r m) (fun _ _ _ => True).
Proof. apply (pr_panic_if _ _ PR). Qed.
Lemma sim_peek s o : RS s o -> sim s o (o_peek OA) (o_peek OB) (fun s' P ob => RP s' P ob).
Proof. apply (pr_peek _ _ PR). Qed.
Lemma sim_replace s o P ob : RS s o -> RP s P ob ->
  sim s o (o_replace OA P) (o_replace OB ob) (fun s' P1 o1 => RP s' P1 o1).
Proof. apply (pr_replace _ _ PR). Qed.
Lemma sim_mux_panic s o c vc T F oT oF : RS s o -> Rw s c vc -> RP s T oT -> RP s F oF ->
  sim s o (o_mux_panic OA c T F) (o_mux_panic OB vc oT oF) (fun s' P1 o1 => RP s' P1 o1).
Proof. apply (pr_mux_panic _ _ PR). Qed.

End Sim.
