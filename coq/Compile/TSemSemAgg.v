(* AGGREGATE NODE LEMMAS of "bit-level semantics (Lower.v over TSem.tops) = source semantics
   (Lang/Sem.v)": the abstract skeleton of Compile/TSemSemStmt.v (Section Control: [env_rel3],
   [AgE], [AgS], [KP]) instantiated with the general value relation of Compile/ValEnc.v,

       VRa t v w  :=  has_enc P t v w /\ ty_fits P t

   and, for every aggregate node, a lemma "agreement of the immediate sub-terms -> agreement
   of the node" against the node's case in [Sem.eval] / [Sem.exec] and in
   [lower_expr_body] / [lower_stmt_body].  Typing facts a node needs are explicit side
   conditions (equalities between annotated types, Boolean tests on sizes), never a global
   typing judgement.  Form, as in TSemSemStmt.v: partial correctness of Ok runs from no panic.

   Leaves      [VRa_scalar], [VRa_VRs] (on scalars / unit it is the relation of TSemSemStmt.v),
               [id_node_a], [lit_bool_node_a], [lit_numU_node_a], [lit_numS_node_a]
   Lists       [sem_eval_list], [list_agrees]
   1 tuples    [tuplit_node], [tupacc_node]
   2 structs   [structlit_node] (fields named once: [nodupN]), [fld_node]
   3 arrays    [arrlit_node], [arrrep_node], [range_node]
   4 a[i]      [idx_node]
   5 x.accs=e  [sem_read], [acc_ok], [read_agrees], [write_agrees], [assign_acc_node]
   6 for       [for_node] (identifier), [for_pat_node] (any pattern of 7)
   7 let p=e   [pat_ok], [pat_agrees], [let_pat_node]  (identifiers, tuples, structs, nested)
   8 enums     [enumlit_node]; [gpat_ok], [gpat_agrees] (all patterns; needs [enums_small]),
               [arm_ok], [arms_agree], [match_node]
   Keys        [keys_all], [KP_all]: every Ok run keeps the keys, whole language, no typing
   Findings    [StructPatternOrder]: two programs accepted by Lang/Wt.v on which Sem.v and the
               bit-level semantics differ (order of struct-pattern bindings; a field named twice)
   Sanity      [SanityAgg]: the node lemmas composed on  a[i].0 = 7  and  (a[i], a[i].1) *)
From Coq Require Import Lia ZArith.
From GV Require Import Base.Util Base.Bits Base.BitsProofs Lang.Ast Lang.Wt Lang.ValTy Lang.WtShape
  Gadgets.Gadgets Gadgets.GadgetSpec Gadgets.Arith Gadgets.Extend Gadgets.ExtendProofs
  Panic.PanicRec Panic.PanicSem Compile.Lower Compile.TSem Compile.TSemFacts Compile.TSemArith1
  Compile.TSemArith2 Compile.TSemControl Compile.TSemArray Compile.TSemSemExpr Compile.ValEnc
  Compile.TSemSticky Compile.TSemSemStmt.
From GV Require Lang.Sem.
Local Open Scope N_scope.

(* ------------------------------------------------------------------ lists *)

Lemma F3_impl {A B C} (R R' : A -> B -> C -> Prop) la lb lc :
  (forall a b c, R a b c -> R' a b c) -> Forall3 R la lb lc -> Forall3 R' la lb lc.
Proof. intros H. induction 1; constructor; auto. Qed.

Lemma F3_same_l {A B C} (R : A -> B -> C -> Prop) a la lb lc : Forall (fun x => x = a) la ->
  Forall3 R la lb lc -> Forall2 (R a) lb lc.
Proof.
  intros Ha H. induction H as [|x b c la lb lc Hx _ IH]; [constructor|].
  inversion Ha as [|x' la' E1 E2]; subst. constructor; auto.
Qed.

Lemma F2_length {A B} (R : A -> B -> Prop) la lb : Forall2 R la lb -> length la = length lb.
Proof. induction 1; cbn [length]; congruence. Qed.

Lemma assocN_app {A} k (l1 l2 : list (N * A)) :
  assocN k (l1 ++ l2) = match assocN k l1 with Some v => Some v | None => assocN k l2 end.
Proof.
  induction l1 as [|[k0 v0] l1 IH]; cbn [app assocN]; [reflexivity|].
  destruct (k =? k0); [reflexivity|exact IH].
Qed.

Lemma assocN_none_notin {A} k (l : list (N * A)) : ~ In k (map fst l) -> assocN k l = None.
Proof.
  induction l as [|[k0 v0] l IH]; cbn [map fst In assocN]; [reflexivity|]. intro H.
  destruct (N.eqb_spec k k0) as [->|_]; [tauto|]. apply IH. tauto.
Qed.

(* a struct literal names every field once: the last occurrence (compile.rs collects the
   fields into a map) is the first one (Sem.v) *)
Lemma assocN_rev_nodup {A} k (l : list (N * A)) : NoDup (map fst l) -> assocN k (rev l) = assocN k l.
Proof.
  induction l as [|[k0 v0] l IH]; intro Hnd; [reflexivity|].
  cbn [map fst] in Hnd. inversion Hnd as [|k0' ks Hnotin Hnd']; subst.
  cbn [rev]. rewrite assocN_app, (IH Hnd'). cbn [assocN].
  destruct (N.eqb_spec k k0) as [->|Hne].
  - now rewrite (assocN_none_notin k0 l Hnotin).
  - now destruct (assocN k l).
Qed.

Fixpoint nodupN (l : list N) : bool :=
  match l with
  | [] => true
  | k :: r => negb (existsb (N.eqb k) r) && nodupN r
  end.

Lemma nodupN_NoDup l : nodupN l = true -> NoDup l.
Proof.
  induction l as [|k r IH]; cbn [nodupN]; intro H; constructor.
  - apply andb_prop in H as [H _]. apply negb_true_iff in H. intro Hin.
    assert (existsb (N.eqb k) r = true) as E; [|congruence].
    apply existsb_exists. exists k. split; [exact Hin|apply N.eqb_refl].
  - apply andb_prop in H as [_ H]. now apply IH.
Qed.

(* ------------------------------------------------------------------ the instance *)

Section Agg.
  Variable P : program.

  Definition VRa (t : ty) (v : Sem.value) (w : list bool) : Prop := has_enc P t v w /\ ty_fits P t.

  Lemma VRa_bool v w : VRa TBool v w -> exists b, v = Sem.VBool b /\ w = [b].
  Proof. intros [H _]. now apply has_enc_inv in H. Qed.

  Lemma ty_fits_unit : ty_fits P unit_ty.
  Proof. unfold ty_fits. rewrite ty_fuel_S. reflexivity. Qed.

  Lemma VRa_unit : VRa unit_ty Sem.unit_val [].
  Proof. split; [repeat constructor|exact ty_fits_unit]. Qed.

  Notation AgE' := (AgE P VRa).
  Notation AgS' := (AgS P VRa).
  Notation rel := (env_rel3 VRa).

  (* the observation after a sub-term panicked *)
  Lemma stk_expr x fT : forall e E, stkx x (lower_expr tops fT P e E).
  Proof. apply (tsem_sticky_fuel x P fT). Qed.
  Lemma stk_stmt x fT : forall s E, stkx x (lower_stmt tops fT P s E).
  Proof. apply (tsem_sticky_fuel x P fT). Qed.
  Lemma stk_pat x fT : forall p mw E, stkx x (lower_pattern tops fT P p mw E).
  Proof. apply (tsem_sticky_fuel x P fT). Qed.
  Lemma stk_block x fT : forall b E, stkx x (lower_block tops fT P b E).
  Proof. apply (tsem_sticky_fuel x P fT). Qed.

  (* ---------------------------------------------------------------- leaves: on scalar types
     the relation is the one of TSemSemExpr.v / TSemSemStmt.v ([VRs]); identifiers of any type;
     literals *)

  Lemma VRa_scalar t v w : scalar_ty t = true -> (VRa t v w <-> (val_ok t v /\ w = enc_val t v)).
  Proof.
    intro Hs. unfold VRa. rewrite (has_enc_scalar P t v w Hs). split; [tauto|].
    intro H. split; [exact H|now apply ty_fits_scalar].
  Qed.

  Lemma VRa_VRs t v w : scalar_ty t = true \/ t = unit_ty -> (VRa t v w <-> VRs t v w).
  Proof.
    intros [Hs| ->].
    - rewrite (VRa_scalar t v w Hs). split.
      + intros [Hv ->]. now apply VRs_intro.
      + now apply VRs_scalar.
    - split.
      + intros [H _]. apply has_enc_inv in H as (vs & -> & Hs). inversion Hs; subst. apply VRs_unit.
      + intros [(Hs & _)|(_ & -> & ->)]; [discriminate Hs|apply VRa_unit].
  Qed.

  Lemma id_node_a f g x m t mu : tlookup g x = Some (t, mu) -> AgE' f g (Ex (EId x) m t).
  Proof.
    intros Hl en E fT w E' o' Hrel Hrun. destruct fT as [|fT]; [discriminate Hrun|].
    rewrite lower_expr_S in Hrun. cbn [lower_expr_body] in Hrun.
    destruct (rel_lookup _ _ _ _ _ _ _ Hrel Hl) as (v & w0 & Hv & Hw & HV). rewrite Hw in Hrun.
    apply ret_inv in Hrun. destruct Hrun as [Heq ->]. injection Heq as -> ->.
    destruct f; [exact I|]. cbn [Sem.eval e_ty]. rewrite Hv. auto.
  Qed.

  Lemma lit_bool_node_a f g (b : bool) m : AgE' f g (Ex (if b then ETrue else EFalse) m TBool).
  Proof.
    intros en E fT w E' o' Hrel Hrun. destruct fT as [|fT]; [discriminate Hrun|].
    destruct b; apply ret_inv in Hrun; destruct Hrun as [Heq ->]; injection Heq as -> ->;
      (destruct f; [exact I|]); cbn [Sem.eval e_ty]; repeat split; try exact Hrel; try apply ty_fits_bool;
      constructor.
  Qed.

  Lemma lit_numU_node_a f g n lb m sg b : lit_fits (TInt sg b) (Z.of_N n) = true ->
    AgE' f g (Ex (ENumU n lb) m (TInt sg b)).
  Proof.
    intros Hl en E fT w E' o' Hrel Hrun. destruct fT as [|fT]; [discriminate Hrun|].
    apply ret_inv in Hrun. destruct Hrun as [Heq ->]. injection Heq as -> ->.
    destruct f; [exact I|]. cbn [Sem.eval e_ty]. split; [reflexivity|]. split; [split; [|apply ty_fits_int]|exact Hrel].
    rewrite TSemControl.tsem_unsigned_as_wires. apply HE_int. now rewrite <- lit_fits_in_range.
  Qed.

  Lemma lit_numS_node_a f g z lb m sg b : lit_fits (TInt sg b) z = true ->
    AgE' f g (Ex (ENumS z lb) m (TInt sg b)).
  Proof.
    intros Hl en E fT w E' o' Hrel Hrun. destruct fT as [|fT]; [discriminate Hrun|].
    apply ret_inv in Hrun. destruct Hrun as [Heq ->]. injection Heq as -> ->.
    destruct f; [exact I|]. cbn [Sem.eval e_ty]. split; [reflexivity|]. split; [split; [|apply ty_fits_int]|exact Hrel].
    rewrite tsem_signed_as_wires. apply HE_int. now rewrite <- lit_fits_in_range.
  Qed.

  (* ---------------------------------------------------------------- expression lists
     (tuple / array literals, enum arguments, struct fields) *)

  Definition sem_eval_list (f : nat) : list expr -> Sem.env -> Sem.outcome (list Sem.value * Sem.env) :=
    fix go (es : list expr) (en : Sem.env) : Sem.outcome (list Sem.value * Sem.env) :=
      match es with
      | [] => Sem.Done ([], en)
      | e :: r =>
          Sem.obind (Sem.eval f P en e) (fun '(v, en1) =>
          Sem.obind (go r en1) (fun '(vs, en2) => Sem.Done (v :: vs, en2)))
      end.

  Lemma sem_eval_list_cons f e r en :
    sem_eval_list f (e :: r) en =
    Sem.obind (Sem.eval f P en e) (fun '(v, en1) =>
    Sem.obind (sem_eval_list f r en1) (fun '(vs, en2) => Sem.Done (v :: vs, en2))).
  Proof. reflexivity. Qed.

  Lemma list_agrees f g es : Forall (AgE' f g) es ->
    forall en E fT ws E' o', rel en E g ->
    lower_list (lower_expr tops fT P) es E None = Ok ((ws, E'), o') ->
    match sem_eval_list f es en with
    | Sem.Done (vs, en') => o' = None /\ Forall3 VRa (map e_ty es) vs ws /\ rel en' E' g
    | Sem.Panicked r m => o' = Some (pcode r m)
    | _ => True
    end.
  Proof.
    induction 1 as [|e es He _ IH]; intros en E fT ws E' o' Hrel Hrun.
    - cbn [lower_list] in Hrun. apply ret_inv in Hrun. destruct Hrun as [Heq ->]. injection Heq as -> ->.
      cbn [sem_eval_list map]. repeat split; [constructor|exact Hrel].
    - cbn [lower_list] in Hrun. minva Hrun as [w1 E1] o1 H1. minva Hrun as [ws1 E2] o2 H2.
      apply ret_inv in Hrun. destruct Hrun as [Heq ->]. injection Heq as -> ->.
      rewrite sem_eval_list_cons. pose proof (He en E fT _ _ _ Hrel H1) as IH1. revert IH1.
      destruct (Sem.eval f P en e) as [[v en1]|r1 m1|c1|]; intro IH1; cbn [Sem.obind]; try exact I.
      + destruct IH1 as (-> & HV & Hrel1). pose proof (IH en1 E1 fT _ _ _ Hrel1 H2) as IH2. revert IH2.
        destruct (sem_eval_list f es en1) as [[vs en2]|r2 m2|c2|]; intro IH2; cbn [Sem.obind]; try exact I;
          [|exact IH2].
        destruct IH2 as (-> & HVs & Hrel2). cbn [map]. repeat split; [now constructor|exact Hrel2].
      + subst o1. exact (stkx_lower_list _ _ (stk_expr _ fT) es E1 _ _ H2).
  Qed.

  Lemma F3_VRa_enc ts vs ws : Forall3 VRa ts vs ws -> Forall3 (has_enc P) ts vs ws.
  Proof. apply F3_impl. now intros t v w [H _]. Qed.

  (* ---------------------------------------------------------------- 1. tuples *)

  Lemma sem_eval_tuplit f en es m t :
    Sem.eval (S f) P en (Ex (ETupLit es) m t) =
    Sem.obind (sem_eval_list f es en) (fun '(vs, en1) => Sem.Done (Sem.VTup vs, en1)).
  Proof. reflexivity. Qed.

  Lemma tuplit_node f g es m t :
    Forall (AgE' f g) es -> t = TTup (map e_ty es) -> ty_fits P t ->
    AgE' (S f) g (Ex (ETupLit es) m t).
  Proof.
    intros Hes Et Hfit en E fT w E' o' Hrel Hrun.
    destruct fT as [|fT]; [discriminate Hrun|]. rewrite lower_expr_S in Hrun. cbn [lower_expr_body] in Hrun.
    minva Hrun as [ws E1] o1 H1. apply ret_inv in Hrun. destruct Hrun as [Heq ->]. injection Heq as -> ->.
    rewrite sem_eval_tuplit. pose proof (list_agrees f g es Hes en E fT _ _ _ Hrel H1) as IH1. revert IH1.
    destruct (sem_eval_list f es en) as [[vs en1]|r1 m1|c1|]; intro IH1; cbn [Sem.obind]; try exact I; [|exact IH1].
    destruct IH1 as (-> & HVs & Hrel1). cbn [e_ty]. repeat split; [|exact Hfit|exact Hrel1].
    subst t. apply has_enc_tuple_lit. now apply F3_VRa_enc.
  Qed.

  Lemma sem_eval_tupacc f en e1 i m t :
    Sem.eval (S f) P en (Ex (ETupAcc e1 i) m t) =
    Sem.obind (Sem.eval f P en e1) (fun '(v, en1) =>
      match v with
      | Sem.VTup vs => match nthN vs i with Some x => Sem.Done (x, en1) | None => Sem.Stuck 33 end
      | _ => Sem.Stuck 34
      end).
  Proof. reflexivity. Qed.

  Lemma nth_error_same_length {A B} (la : list A) (lb : list B) k a : length la = length lb ->
    nth_error la k = Some a -> exists b, nth_error lb k = Some b.
  Proof.
    intros Hl Ha. destruct (nth_error lb k) as [b|] eqn:E; [eauto|].
    apply nth_error_None in E. assert (k < length la)%nat by (apply nth_error_Some; congruence). lia.
  Qed.

  Lemma tupacc_node f g e1 i m t ts :
    AgE' f g e1 -> e_ty e1 = TTup ts -> nthN ts i = Some t ->
    AgE' (S f) g (Ex (ETupAcc e1 i) m t).
  Proof.
    intros IH Et Hi en E fT w E' o' Hrel Hrun.
    destruct fT as [|fT]; [discriminate Hrun|]. rewrite lower_expr_S in Hrun. cbn [lower_expr_body] in Hrun.
    minva Hrun as [wb wi] o0 H0. apply lift_res_inv in H0. destruct H0 as [Hoff ->].
    minva Hrun as [w1 E1] o1 H1. minva Hrun as r o2 H2. apply lift_res_inv in H2. destruct H2 as [Hsl ->].
    apply ret_inv in Hrun. destruct Hrun as [Heq ->]. injection Heq as -> ->.
    rewrite sem_eval_tupacc. pose proof (IH en E fT _ _ _ Hrel H1) as IH1. revert IH1.
    destruct (Sem.eval f P en e1) as [[v en1]|r1 m1|c1|]; intro IH1; cbn [Sem.obind]; try exact I; [|exact IH1].
    destruct IH1 as (-> & [HV Hfit] & Hrel1). rewrite Et in HV, Hfit, Hoff.
    pose proof HV as HV'. apply has_enc_inv in HV' as (vs & -> & Hs).
    pose proof (has_encs_length P ts vs w1 Hs) as Hlen.
    rewrite nthN_spec in Hi. destruct (nth_error_same_length ts vs _ t Hlen Hi) as (vi & Hvi).
    rewrite <- nthN_spec in Hi. rewrite <- nthN_spec in Hvi. rewrite Hvi.
    destruct (has_enc_tuple_proj P ts vs w1 i wb wi t vi HV Hfit Hoff Hi Hvi) as (wx & Hwx & Hex).
    assert (wx = r) as -> by congruence. cbn [e_ty]. repeat split; [exact Hex| |exact Hrel1].
    rewrite nthN_spec in Hi. exact (Forall_nth_error _ _ _ _ (ty_fits_tup P ts Hfit) Hi).
  Qed.

  (* ---------------------------------------------------------------- 2. structs *)

  (* the field expressions of a literal, in the order of the definition *)
  Fixpoint struct_exprs (fields : list (N * expr)) (ds : list (N * ty)) : option (list expr) :=
    match ds with
    | [] => Some []
    | (fname, _) :: r =>
        match assocN fname fields, struct_exprs fields r with
        | Some fe, Some es => Some (fe :: es)
        | _, _ => None
        end
    end.

  Lemma struct_exprs_rev fields ds : NoDup (map fst fields) ->
    struct_exprs (rev fields) ds = struct_exprs fields ds.
  Proof.
    intro Hnd. induction ds as [|[fname fty] r IH]; [reflexivity|].
    cbn [struct_exprs]. now rewrite IH, assocN_rev_nodup.
  Qed.

  Definition sem_struct_fields (f : nat) (fields : list (N * expr))
    : list (N * ty) -> Sem.env -> Sem.outcome (list Sem.value * Sem.env) :=
    fix go (ds : list (N * ty)) (en : Sem.env) : Sem.outcome (list Sem.value * Sem.env) :=
      match ds with
      | [] => Sem.Done ([], en)
      | (fname, _) :: r =>
          match assocN fname fields with
          | Some fe =>
              Sem.obind (Sem.eval f P en fe) (fun '(v, en1) =>
              Sem.obind (go r en1) (fun '(vs, en2) => Sem.Done (v :: vs, en2)))
          | None => Sem.Stuck 39
          end
      end.

  Lemma sem_eval_structlit f en name fields m t :
    Sem.eval (S f) P en (Ex (EStructLit name fields) m t) =
    match assocN name (p_structs P) with
    | Some def =>
        Sem.obind (sem_struct_fields f fields def en) (fun '(vs, en1) => Sem.Done (Sem.VTup vs, en1))
    | None => Sem.Stuck 40
    end.
  Proof. reflexivity. Qed.

  Lemma sem_struct_fields_list f fields : forall ds es en, struct_exprs fields ds = Some es ->
    sem_struct_fields f fields ds en = sem_eval_list f es en.
  Proof.
    induction ds as [|[fname fty] r IH]; intros es en H; cbn [struct_exprs] in H.
    - injection H as <-. reflexivity.
    - destruct (assocN fname fields) as [fe|] eqn:Ef; [|discriminate H].
      destruct (struct_exprs fields r) as [es'|] eqn:Er; [|discriminate H]. injection H as <-.
      rewrite sem_eval_list_cons. cbn [sem_struct_fields]. rewrite Ef.
      destruct (Sem.eval f P en fe) as [[v en1]|r1 m1|c1|]; cbn [Sem.obind]; try reflexivity.
      fold (sem_struct_fields f fields r en1). now rewrite (IH es' en1 eq_refl).
  Qed.

  Lemma lower_struct_fields_list (re : expr -> @cenv bool -> MB (list bool * @cenv bool)) fields :
    forall ds es E o, struct_exprs (rev fields) ds = Some es ->
    lower_struct_fields re fields ds E o = lower_list re es E o.
  Proof.
    induction ds as [|[fname fty] r IH]; intros es E o H; cbn [struct_exprs] in H.
    - injection H as <-. reflexivity.
    - destruct (assocN fname (rev fields)) as [fe|] eqn:Ef; [|discriminate H].
      destruct (struct_exprs (rev fields) r) as [es'|] eqn:Er; [|discriminate H]. injection H as <-.
      cbn [lower_struct_fields lower_list]. rewrite Ef. unfold mbind at 1 3.
      destruct (re fe E o) as [[[w E1] o1]| |]; try reflexivity.
      unfold mbind. now rewrite (IH es' E1 o1 eq_refl).
  Qed.

  Lemma structlit_node f g name fields def es m t :
    assocN name (p_structs P) = Some def -> nodupN (map fst fields) = true ->
    struct_exprs fields def = Some es -> Forall (AgE' f g) es ->
    map e_ty es = map snd def -> t = TStruct name -> ty_fits P t ->
    AgE' (S f) g (Ex (EStructLit name fields) m t).
  Proof.
    intros Hd Hnd Hse Hes Hty Et Hfit en E fT w E' o' Hrel Hrun.
    destruct fT as [|fT]; [discriminate Hrun|]. rewrite lower_expr_S in Hrun. cbn [lower_expr_body] in Hrun.
    rewrite Hd in Hrun. minva Hrun as [ws E1] o1 H1.
    apply ret_inv in Hrun. destruct Hrun as [Heq ->]. injection Heq as -> ->.
    rewrite lower_struct_fields_list with (es := es) in H1
      by (rewrite struct_exprs_rev; [exact Hse|now apply nodupN_NoDup]).
    rewrite sem_eval_structlit, Hd, (sem_struct_fields_list f fields def es en Hse).
    pose proof (list_agrees f g es Hes en E fT _ _ _ Hrel H1) as IH1. revert IH1.
    destruct (sem_eval_list f es en) as [[vs en1]|r1 m1|c1|]; intro IH1; cbn [Sem.obind]; try exact I; [|exact IH1].
    destruct IH1 as (-> & HVs & Hrel1). cbn [e_ty]. repeat split; [|exact Hfit|exact Hrel1].
    subst t. apply (has_enc_struct_lit P name def vs ws Hd). rewrite <- Hty. now apply F3_VRa_enc.
  Qed.

  Lemma sem_eval_fld f en e1 fld m t :
    Sem.eval (S f) P en (Ex (EFld e1 fld) m t) =
    Sem.obind (Sem.eval f P en e1) (fun '(v, en1) =>
      match e_ty e1, v with
      | TStruct name, Sem.VTup vs =>
          match assocN name (p_structs P) with
          | Some def =>
              match Sem.index_of fld (map fst def) 0 with
              | Some k => match nthN vs k with Some x => Sem.Done (x, en1) | None => Sem.Stuck 35 end
              | None => Sem.Stuck 36
              end
          | None => Sem.Stuck 37
          end
      | _, _ => Sem.Stuck 38
      end).
  Proof. reflexivity. Qed.

  Lemma fld_node f g e1 fld m t name def k :
    AgE' f g e1 -> e_ty e1 = TStruct name -> assocN name (p_structs P) = Some def ->
    Sem.index_of fld (map fst def) 0 = Some k -> nthN (map snd def) k = Some t ->
    AgE' (S f) g (Ex (EFld e1 fld) m t).
  Proof.
    intros IH Et Hd Hk Ht en E fT w E' o' Hrel Hrun.
    destruct fT as [|fT]; [discriminate Hrun|]. rewrite lower_expr_S in Hrun. cbn [lower_expr_body] in Hrun.
    rewrite Et in Hrun.
    minva Hrun as [w1 E1] o1 H1. minva Hrun as [wb wi] o0 H0. apply lift_res_inv in H0. destruct H0 as [Hoff ->].
    minva Hrun as r o2 H2. apply lift_res_inv in H2. destruct H2 as [Hsl ->].
    apply ret_inv in Hrun. destruct Hrun as [Heq ->]. injection Heq as -> ->.
    rewrite sem_eval_fld, Et. pose proof (IH en E fT _ _ _ Hrel H1) as IH1. revert IH1.
    destruct (Sem.eval f P en e1) as [[v en1]|r1 m1|c1|]; intro IH1; cbn [Sem.obind]; try exact I; [|exact IH1].
    destruct IH1 as (-> & [HV Hfit] & Hrel1). rewrite Et in HV, Hfit.
    pose proof HV as HV'. apply has_enc_inv in HV' as (def' & vs & -> & Hd' & Hs).
    assert (def' = def) as -> by congruence. rewrite Hd, Hk.
    pose proof (has_encs_length P _ vs w1 Hs) as Hlen.
    rewrite nthN_spec in Ht. destruct (nth_error_same_length _ vs _ t Hlen Ht) as (vi & Hvi).
    rewrite <- nthN_spec in Ht. rewrite <- nthN_spec in Hvi. rewrite Hvi.
    destruct (has_enc_struct_proj P name def vs w1 fld wb wi k vi HV Hfit Hd Hoff Hk Hvi) as (ti & wx & Hti & Hwx & Hex).
    assert (ti = t) as -> by congruence. assert (wx = r) as -> by congruence.
    cbn [e_ty]. repeat split; [exact Hex| |exact Hrel1].
    rewrite nthN_spec in Ht. exact (Forall_nth_error _ _ _ _ (ty_fits_struct_def P name def Hfit Hd) Ht).
  Qed.

  (* ---------------------------------------------------------------- 3. array literals, repeated
     arrays, ranges *)

  Lemma sem_eval_arrlit f en es m t :
    Sem.eval (S f) P en (Ex (EArrLit es) m t) =
    Sem.obind (sem_eval_list f es en) (fun '(vs, en1) => Sem.Done (Sem.VArr vs, en1)).
  Proof. reflexivity. Qed.

  Lemma arrlit_node f g es m t el :
    Forall (AgE' f g) es -> Forall (fun e => e_ty e = el) es -> t = TArr el (lenN es) -> ty_fits P t ->
    AgE' (S f) g (Ex (EArrLit es) m t).
  Proof.
    intros Hes Hel Et Hfit en E fT w E' o' Hrel Hrun.
    destruct fT as [|fT]; [discriminate Hrun|]. rewrite lower_expr_S in Hrun. cbn [lower_expr_body] in Hrun.
    minva Hrun as [ws E1] o1 H1. apply ret_inv in Hrun. destruct Hrun as [Heq ->]. injection Heq as -> ->.
    rewrite sem_eval_arrlit. pose proof (list_agrees f g es Hes en E fT _ _ _ Hrel H1) as IH1. revert IH1.
    destruct (sem_eval_list f es en) as [[vs en1]|r1 m1|c1|]; intro IH1; cbn [Sem.obind]; try exact I; [|exact IH1].
    destruct IH1 as (-> & HVs & Hrel1). cbn [e_ty]. repeat split; [|exact Hfit|exact Hrel1].
    apply F3_VRa_enc in HVs. pose proof (F3_lengths _ _ _ _ HVs) as [Hl _]. rewrite map_length in Hl.
    assert (Hf2 : Forall2 (has_enc P el) vs ws).
    { apply (F3_same_l (has_enc P) el (map e_ty es)); [|exact HVs].
      apply Forall_forall. intros x Hx. apply in_map_iff in Hx as (e & <- & He).
      rewrite Forall_forall in Hel. now apply Hel. }
    subst t. replace (lenN es) with (lenN vs) by (unfold lenN; now rewrite Hl).
    now apply has_enc_array_lit.
  Qed.

  Lemma sem_eval_arrrep f en e1 n m t :
    Sem.eval (S f) P en (Ex (EArrRep e1 n) m t) =
    Sem.obind (Sem.eval f P en e1) (fun '(v, en1) => Sem.Done (Sem.VArr (repeat v (N.to_nat n)), en1)).
  Proof. reflexivity. Qed.

  Lemma arrrep_node f g e1 n m t :
    AgE' f g e1 -> t = TArr (e_ty e1) n -> ty_fits P t ->
    AgE' (S f) g (Ex (EArrRep e1 n) m t).
  Proof.
    intros IH Et Hfit en E fT w E' o' Hrel Hrun.
    destruct fT as [|fT]; [discriminate Hrun|]. rewrite lower_expr_S in Hrun. cbn [lower_expr_body] in Hrun.
    minva Hrun as [w1 E1] o1 H1. minva Hrun as w2 o2 H2. unfold m_extend in H2.
    apply lift_res_inv in H2. destruct H2 as [Hext ->].
    apply ret_inv in Hrun. destruct Hrun as [Heq ->]. injection Heq as -> ->.
    rewrite sem_eval_arrrep. pose proof (IH en E fT _ _ _ Hrel H1) as IH1. revert IH1.
    destruct (Sem.eval f P en e1) as [[v en1]|r1 m1|c1|]; intro IH1; cbn [Sem.obind]; try exact I; [|exact IH1].
    destruct IH1 as (-> & [HV Hf1] & Hrel1).
    rewrite (has_enc_extend_id P _ v w1 _ HV Hf1) in Hext. injection Hext as <-.
    cbn [e_ty]. repeat split; [|exact Hfit|exact Hrel1]. subst t. now apply has_enc_array_rep.
  Qed.

  Lemma sem_eval_range f en lo hi bits m t :
    Sem.eval (S f) P en (Ex (ERange lo hi bits) m t) =
    Sem.Done (Sem.VArr (map (fun k => Sem.VInt (Z.of_N lo + Z.of_nat k)) (seq 0 (N.to_nat (hi - lo)))), en).
  Proof. reflexivity. Qed.

  Lemma Forall2_map_map {A B C} (R : B -> C -> Prop) (h1 : A -> B) (h2 : A -> C) l :
    (forall a, In a l -> R (h1 a) (h2 a)) -> Forall2 R (map h1 l) (map h2 l).
  Proof.
    induction l as [|a l IH]; intro H; cbn [map]; constructor.
    - apply H. now left.
    - apply IH. intros b Hb. apply H. now right.
  Qed.

  Lemma ty_fits_arr_int sg bits n : ty_fits P (TArr (TInt sg bits) n).
  Proof. unfold ty_fits. rewrite pred_ty_fuel_S. reflexivity. Qed.

  (* lo..hi at an unsigned type of [bits] bits: the elements must fit the type (hi <= 2^bits);
     an empty range with hi < lo does not compile (crash), so lo <= hi on an Ok run *)
  Lemma range_node f g lo hi bits m t :
    t = TArr (TInt false bits) (hi - lo) -> (hi <=? 2 ^ bits) = true ->
    AgE' f g (Ex (ERange lo hi bits) m t).
  Proof.
    intros Et Hhi en E fT w E' o' Hrel Hrun. apply N.leb_le in Hhi.
    destruct fT as [|fT]; [discriminate Hrun|]. rewrite lower_expr_S in Hrun. cbn [lower_expr_body] in Hrun.
    destruct (N.ltb_spec hi lo) as [Hlt|Hle]; [discriminate Hrun|].
    apply ret_inv in Hrun. destruct Hrun as [Heq ->]. injection Heq as -> ->.
    destruct f as [|f]; [exact I|]. rewrite sem_eval_range. cbn [e_ty].
    repeat split; [|subst t; apply ty_fits_arr_int|exact Hrel]. subst t.
    apply has_enc_arr_iff. split; [unfold lenN; rewrite map_length, seq_length; lia|].
    eexists. split; [|reflexivity]. apply Forall2_map_map. intros k Hk. apply in_seq in Hk.
    rewrite TSemControl.tsem_unsigned_as_wires.
    replace (Z.of_N lo + Z.of_nat k)%Z with (Z.of_N (lo + N.of_nat k)) by lia.
    apply HE_int. apply (in_range_of_bounds false). split; [lia|].
    rewrite <- pow2_N_Z. lia.
  Qed.
  (* ---------------------------------------------------------------- 4. indexing with a
     dynamic index *)

  Lemma sem_eval_idx f en a i m t :
    Sem.eval (S f) P en (Ex (EIdx a i) m t) =
    Sem.obind (Sem.eval f P en a) (fun '(va, en1) =>
    Sem.obind (Sem.eval f P en1 i) (fun '(vi, en2) =>
      match va, vi with
      | Sem.VArr vs, Sem.VInt z =>
          if (0 <=? z)%Z && (z <? Z.of_nat (length vs))%Z then
            match nth_error vs (Z.to_nat z) with
            | Some v => Sem.Done (v, en2)
            | None => Sem.Stuck 31
            end
          else Sem.Panicked Sem.ROutOfBounds m
      | _, _ => Sem.Stuck 32
      end)).
  Proof. reflexivity. Qed.

  (* an index value of an unsigned type of at most 32 bits, and its wires *)
  Lemma VRa_index b vi idx : VRa (TInt false b) vi idx -> (b <=? 32) = true ->
    exists z, vi = Sem.VInt z /\ (0 <= z)%Z /\ bits_to_N idx = Z.to_N z /\ (length idx <= USZ)%nat.
  Proof.
    intros [H _] Hb. apply N.leb_le in Hb. apply has_enc_inv in H as (z & -> & Hr & ->).
    exists z. pose proof (uval_enc_ok b z Hr) as Hu. unfold uval in Hu.
    pose proof (in_range_bounds false b z Hr) as Hz. cbv beta iota in Hz.
    repeat split; [lia|lia|]. rewrite length_enc. unfold USZ. lia.
  Qed.

  Lemma pcode_oob m : push_spec None true OutOfBounds (ploc_of m) = Some (pcode Sem.ROutOfBounds m).
  Proof. reflexivity. Qed.

  (* side conditions: the array type of [a] gives the element type and the length; the index
     type is unsigned of at most 32 bits (compile.rs extends it to usize = 32 bits and crashes
     on a wider one); the length fits 32 bits; the elements are not zero-sized *)
  Lemma idx_node f g a i m t n b :
    AgE' f g a -> AgE' f g i ->
    e_ty a = TArr t n -> e_ty i = TInt false b -> (b <=? 32) = true -> (n <? 2 ^ 32) = true ->
    (1 <=? szn P t)%nat = true ->
    AgE' (S f) g (Ex (EIdx a i) m t).
  Proof.
    intros IHa IHi Eta Eti Hb Hn Heb en E fT w E' o' Hrel Hrun.
    apply N.ltb_lt in Hn. apply Nat.leb_le in Heb.
    destruct fT as [|fT]; [discriminate Hrun|]. rewrite lower_expr_S in Hrun. cbn [lower_expr_body] in Hrun.
    rewrite Eta in Hrun. cbn [array_size] in Hrun.
    minva Hrun as [eb0 ne] o0 H0. apply lift_res_inv in H0. destruct H0 as [H0 ->]. injection H0 as <- <-.
    minva Hrun as [arr E1] o1 H1. minva Hrun as [idx E2] o2 H2. minva Hrun as [r idx'] o3 H3.
    apply ret_inv in Hrun. destruct Hrun as [Heq ->]. injection Heq as -> ->.
    cbn [e_ty] in H3. rewrite sem_eval_idx.
    pose proof (IHa en E fT _ _ _ Hrel H1) as IH1. revert IH1.
    destruct (Sem.eval f P en a) as [[va en1]|r1 m1|c1|]; intro IH1; cbn [Sem.obind]; try exact I.
    2:{ subst o1. pose proof (stk_expr _ fT i E1 _ _ H2) as ->. exact (stkx_array_read _ _ _ _ _ _ _ _ H3). }
    destruct IH1 as (-> & HVa & Hrel1).
    pose proof (IHi en1 E1 fT _ _ _ Hrel1 H2) as IH2. revert IH2.
    destruct (Sem.eval f P en1 i) as [[vi en2]|r2 m2|c2|]; intro IH2; cbn [Sem.obind]; try exact I.
    2:{ subst o2. exact (stkx_array_read _ _ _ _ _ _ _ _ H3). }
    destruct IH2 as (-> & HVi & Hrel2). rewrite Eta in HVa. rewrite Eti in HVi.
    destruct HVa as [HVa Hfa]. destruct (VRa_index b vi idx HVi Hb) as (z & -> & Hz0 & Hbz & Hli).
    pose proof HVa as HVa'. apply has_enc_inv in HVa' as (vs & -> & _ & _).
    destruct (has_enc_array_elems P t n vs arr HVa Hfa) as (elems & -> & Hf2 & Hall & Hle & Hlv & _).
    pose proof (ty_fits_arr P t n Hfa) as Hft.
    assert (Hlvs : length vs = N.to_nat n) by (unfold lenN in Hlv; lia).
    destruct (N.to_nat n) as [|n'] eqn:En.
    - (* no elements: always out of bounds *)
      destruct elems; [|discriminate Hle]. cbn [concat] in H3.
      rewrite tsem_array_read_empty in H3 by exact Hli. injection H3 as _ _ <-.
      rewrite Hlvs. replace ((0 <=? z)%Z && (z <? Z.of_nat 0)%Z) with false; [apply pcode_oob|].
      symmetry. apply andb_false_iff. right. apply Z.ltb_ge. lia.
    - rewrite (tsem_array_read elems idx (szn P t) (S n') m None) in H3; try assumption; try lia.
      injection H3 as <- _ <-. rewrite Hbz, Hlvs.
      destruct (Z.ltb_spec z (Z.of_nat (S n'))) as [Hlt|Hge].
      + replace (0 <=? z)%Z with true by (symmetry; apply Z.leb_le; exact Hz0). cbn [andb].
        match goal with |- context [?a <=? Z.to_N z] => destruct (N.leb_spec a (Z.to_N z)) as [Hc|_]; [lia|] end.
        destruct (nth_error vs (Z.to_nat z)) as [v|] eqn:Ev.
        2:{ apply nth_error_None in Ev. lia. }
        cbn [e_ty push_spec]. split; [reflexivity|]. split; [split; [|exact Hft]|exact Hrel2].
        rewrite Z_N_nat. exact (F2_has_enc_nth P t vs elems _ v _ Hf2 Ev).
      + rewrite andb_false_r.
        match goal with |- context [?a <=? Z.to_N z] => destruct (N.leb_spec a (Z.to_N z)) as [_|Hc]; [apply pcode_oob|lia] end.
  Qed.
  (* ---------------------------------------------------------------- 5. assignment through
     accessors

     Sem.v: the assigned value, then the READ PHASE (the accessors are walked through the value
     the variable has before the index expressions are evaluated: every index is evaluated and
     checked against the length in turn), then the variable is re-read and [write_path] replaces
     the addressed component.  Lower.v: the value, [assign_indexes] (all index expressions, each
     extended to 32 bits and checked against the STATIC length of the accessor's array type),
     then the variable is read, [assign_forward] reads along the accessors, [assign_backward]
     writes back ([array_write] / [splice]).  Values of array type have the static length, so
     the two sequences of checks coincide; the first failing check wins on both sides. *)

  Definition sem_read (f : nat) (m : meta)
    : list accessor -> Sem.value -> Sem.env -> list Sem.rstep -> Sem.outcome (list Sem.rstep * Sem.env) :=
    fix go (accs : list accessor) (cur : Sem.value) (en : Sem.env) (path_rev : list Sem.rstep)
      : Sem.outcome (list Sem.rstep * Sem.env) :=
      match accs with
      | [] => Sem.Done (rev path_rev, en)
      | AIdx _ ie :: r =>
          Sem.obind (Sem.eval f P en ie) (fun '(vi, en1) =>
            match cur, vi with
            | Sem.VArr vs, Sem.VInt z =>
                if (0 <=? z)%Z && (z <? Z.of_nat (length vs))%Z then
                  match nth_error vs (Z.to_nat z) with
                  | Some sub => go r sub en1 (Sem.RIdx (Z.to_N z) :: path_rev)
                  | None => Sem.Stuck 62
                  end
                else Sem.Panicked Sem.ROutOfBounds m
            | _, _ => Sem.Stuck 63
            end)
      | ATup _ i :: r =>
          match cur with
          | Sem.VTup vs => match nthN vs i with
                           | Some sub => go r sub en (Sem.RPos i :: path_rev)
                           | None => Sem.Stuck 64 end
          | _ => Sem.Stuck 65
          end
      | AFld sty fld :: r =>
          match sty, cur with
          | TStruct name, Sem.VTup vs =>
              match assocN name (p_structs P) with
              | Some def =>
                  match Sem.index_of fld (map fst def) 0 with
                  | Some k => match nthN vs k with
                              | Some sub => go r sub en (Sem.RPos k :: path_rev)
                              | None => Sem.Stuck 66 end
                  | None => Sem.Stuck 67
                  end
              | None => Sem.Stuck 68
              end
          | _, _ => Sem.Stuck 69
          end
      end.

  Lemma sem_exec_assign f en x accs e m :
    Sem.exec (S f) P en (St (SAssign x accs e) m) =
    Sem.obind (Sem.eval f P en e) (fun '(nv, en0) =>
      match Sem.lookup_var en0 x with
      | None => Sem.Stuck 61
      | Some cur =>
          Sem.obind (sem_read f m accs cur en0 []) (fun '(path, en2) =>
            match Sem.lookup_var en2 x with
            | Some cur2 =>
                match Sem.write_path cur2 path nv with
                | Some whole =>
                    match Sem.assign_var en2 x whole with
                    | Some en3 => Sem.Done (Sem.unit_val, en3)
                    | None => Sem.Stuck 70
                    end
                | None => Sem.Stuck 71
                end
            | None => Sem.Stuck 72
            end)
      end).
  Proof. reflexivity. Qed.

  (* a well-typed accessor chain from the type [tcur] to the type [tf]; the index expressions
     agree; side conditions as for [idx_node] *)
  Inductive acc_ok (f : nat) (g : tenv) : list accessor -> ty -> ty -> Prop :=
  | AO_nil t : acc_ok f g [] t t
  | AO_idx ie r el n b tf :
      AgE' f g ie -> e_ty ie = TInt false b -> (b <=? 32) = true -> (n <? 2 ^ 32) = true ->
      (1 <=? szn P el)%nat = true -> acc_ok f g r el tf ->
      acc_ok f g (AIdx (TArr el n) ie :: r) (TArr el n) tf
  | AO_tup i r ts ti tf :
      nthN ts i = Some ti -> acc_ok f g r ti tf ->
      acc_ok f g (ATup (TTup ts) i :: r) (TTup ts) tf
  | AO_fld fld r name def k tk tf :
      assocN name (p_structs P) = Some def -> Sem.index_of fld (map fst def) 0 = Some k ->
      nthN (map snd def) k = Some tk -> acc_ok f g r tk tf ->
      acc_ok f g (AFld (TStruct name) fld :: r) (TStruct name) tf.

  (* the resolved path of Sem.v against the index wires of Lower.v *)
  Inductive path_rel : list accessor -> list Sem.rstep -> list (list bool) -> Prop :=
  | PR_nil : path_rel [] [] []
  | PR_idx el n ie r path iw iws : length iw = USZ -> bits_to_N iw < n -> path_rel r path iws ->
      path_rel (AIdx (TArr el n) ie :: r) (Sem.RIdx (bits_to_N iw) :: path) (iw :: iws)
  | PR_tup tty i r path iws : path_rel r path iws ->
      path_rel (ATup tty i :: r) (Sem.RPos i :: path) iws
  | PR_fld name def fld k r path iws : assocN name (p_structs P) = Some def ->
      Sem.index_of fld (map fst def) 0 = Some k -> path_rel r path iws ->
      path_rel (AFld (TStruct name) fld :: r) (Sem.RPos k :: path) iws.

  Lemma push_spec_false o r l : push_spec o false r l = o.
  Proof. now destruct o. Qed.

  Lemma has_encs_nth k ts vs w ti vi : has_encs P ts vs w -> nth_error ts k = Some ti ->
    nth_error vs k = Some vi -> exists wi, has_enc P ti vi wi.
  Proof.
    intros H Ht Hv. destruct (has_encs_split P k ts vs w ti vi H Ht Hv) as (_ & wi & _ & _ & _ & Hi & _). eauto.
  Qed.

  (* PHASE A: the index expressions and their bounds checks *)
  Lemma read_agrees f g m : forall accs tcur tf, acc_ok f g accs tcur tf ->
    forall cur wc en E fT prev acc_rev idxs E' o',
    has_enc P tcur cur wc -> ty_fits P tcur -> rel en E g ->
    assign_indexes tops P (lower_expr tops fT P) m accs E acc_rev None = Ok ((idxs, E'), o') ->
    match sem_read f m accs cur en prev with
    | Sem.Done (path, en') =>
        o' = None /\ rel en' E' g /\
        exists p iws, path = rev prev ++ p /\ idxs = rev acc_rev ++ iws /\ path_rel accs p iws
    | Sem.Panicked r m' => o' = Some (pcode r m')
    | _ => True
    end.
  Proof.
    induction 1 as [t|ie r el n b tf IHie Eti Hb Hn Heb _ IH|i r ts ti tf Hi _ IH|fld r name def k tk tf Hd Hk Htk _ IH];
      intros cur wc en E fT prev acc_rev idxs E' o' HV Hfit Hrel Hrun.
    - cbn [assign_indexes] in Hrun. apply ret_inv in Hrun. destruct Hrun as [Heq ->]. injection Heq as -> ->.
      cbn [sem_read]. split; [reflexivity|]. split; [exact Hrel|].
      exists [], []. rewrite !app_nil_r. repeat split. constructor.
    - cbn [assign_indexes array_size] in Hrun.
      minva Hrun as [eb0 ne] o0 H0. apply lift_res_inv in H0. destruct H0 as [H0 ->]. injection H0 as <- <-.
      minva Hrun as [iw E1] o1 H1. minva Hrun as iw' o2 H2. minva Hrun as u o3 H3.
      change (sem_read f m (AIdx (TArr el n) ie :: r) cur en prev) with
        (Sem.obind (Sem.eval f P en ie) (fun '(vi, en1) =>
            match cur, vi with
            | Sem.VArr vs, Sem.VInt z =>
                if (0 <=? z)%Z && (z <? Z.of_nat (length vs))%Z then
                  match nth_error vs (Z.to_nat z) with
                  | Some sub => sem_read f m r sub en1 (Sem.RIdx (Z.to_N z) :: prev)
                  | None => Sem.Stuck 62
                  end
                else Sem.Panicked Sem.ROutOfBounds m
            | _, _ => Sem.Stuck 63
            end)).
      pose proof (IHie en E fT _ _ _ Hrel H1) as IH1. revert IH1.
      destruct (Sem.eval f P en ie) as [[vi en1]|r1 m1|c1|]; intro IH1; cbn [Sem.obind]; try exact I.
      2:{ subst o1. unfold m_extend in H2. pose proof (stkx_lift _ _ _ _ H2) as ->.
          pose proof (stkx_bounds_check _ _ _ _ _ _ H3) as ->.
          exact (stkx_assign_indexes _ P _ (stk_expr _ fT) m r E1 _ _ _ Hrun). }
      destruct IH1 as (-> & HVi & Hrel1). rewrite Eti in HVi.
      destruct (VRa_index b vi iw HVi Hb) as (z & -> & Hz0 & Hbz & Hli).
      rewrite tsem_m_extend_index in H2 by exact Hli. injection H2 as <- <-.
      pose proof (extend_s_length iw false USZ Hli) as Hl'.
      pose proof (zext_correct iw USZ) as Hzx.
      apply N.ltb_lt in Hn.
      rewrite tsem_bounds_check in H3 by (try exact Hl'; lia). injection H3 as _ <-.
      pose proof HV as HV'. apply has_enc_inv in HV' as (vs & -> & Hlv & Hs).
      assert (Hlvs : length vs = N.to_nat n) by (unfold lenN in Hlv; lia).
      rewrite Hzx, Hbz, N2Nat.id in Hrun. rewrite Hlvs.
      destruct (Z.ltb_spec z (Z.of_nat (N.to_nat n))) as [Hlt|Hge].
      + replace (0 <=? z)%Z with true by (symmetry; apply Z.leb_le; exact Hz0). cbn [andb].
        destruct (N.leb_spec n (Z.to_N z)) as [Hc|_]; [lia|]. cbn [push_spec] in Hrun.
        destruct (nth_error vs (Z.to_nat z)) as [sub|] eqn:Ev.
        2:{ apply nth_error_None in Ev. lia. }
        destruct (has_enc_array_proj P el n vs wc _ sub HV Hfit Ev) as (wsub & _ & Hsub).
        pose proof (IH sub wsub en1 E1 fT (Sem.RIdx (Z.to_N z) :: prev) _ _ _ _ Hsub (ty_fits_arr P el n Hfit) Hrel1 Hrun) as IH2.
        revert IH2. destruct (sem_read f m r sub en1 (Sem.RIdx (Z.to_N z) :: prev)) as [[path en2]|r2 m2|c2|];
          intro IH2; try exact I; [|exact IH2].
        destruct IH2 as (-> & Hrel2 & p & iws & -> & -> & Hpr). split; [reflexivity|]. split; [exact Hrel2|].
        exists (Sem.RIdx (Z.to_N z) :: p), (extend_s iw false USZ :: iws). cbn [rev]. rewrite <- !app_assoc.
        split; [reflexivity|]. split; [reflexivity|]. rewrite <- Hbz, <- Hzx.
        constructor; [exact Hl'|rewrite Hzx, Hbz; lia|exact Hpr].
      + rewrite andb_false_r.
        destruct (N.leb_spec n (Z.to_N z)) as [_|Hc]; [|lia]. cbn [push_spec] in Hrun.
        exact (stkx_assign_indexes _ P _ (stk_expr _ fT) m r E1 _ _ _ Hrun).
    - cbn [assign_indexes] in Hrun. apply has_enc_inv in HV as (vs & -> & Hs).
      pose proof (has_encs_length P ts vs wc Hs) as Hlen.
      rewrite nthN_spec in Hi. destruct (nth_error_same_length ts vs _ ti Hlen Hi) as (sub & Hsub).
      destruct (has_encs_nth _ ts vs wc ti sub Hs Hi Hsub) as (wsub & Hes).
      change (sem_read f m (ATup (TTup ts) i :: r) (Sem.VTup vs) en prev) with
        (match nthN vs i with
         | Some sub => sem_read f m r sub en (Sem.RPos i :: prev)
         | None => Sem.Stuck 64 end).
      rewrite nthN_spec, Hsub.
      pose proof (IH sub wsub en E fT (Sem.RPos i :: prev) _ _ _ _ Hes
                    (Forall_nth_error _ _ _ _ (ty_fits_tup P ts Hfit) Hi) Hrel Hrun) as IH2.
      revert IH2. destruct (sem_read f m r sub en (Sem.RPos i :: prev)) as [[path en2]|r2 m2|c2|];
        intro IH2; try exact I; [|exact IH2].
      destruct IH2 as (-> & Hrel2 & p & iws & -> & -> & Hpr). split; [reflexivity|]. split; [exact Hrel2|].
      exists (Sem.RPos i :: p), iws. cbn [rev]. rewrite <- app_assoc.
      split; [reflexivity|]. split; [reflexivity|]. now constructor.
    - cbn [assign_indexes] in Hrun. apply has_enc_inv in HV as (def' & vs & -> & Hd' & Hs).
      assert (def' = def) as -> by congruence.
      pose proof (has_encs_length P _ vs wc Hs) as Hlen.
      rewrite nthN_spec in Htk. destruct (nth_error_same_length _ vs _ tk Hlen Htk) as (sub & Hsub).
      destruct (has_encs_nth _ _ vs wc tk sub Hs Htk Hsub) as (wsub & Hes).
      change (sem_read f m (AFld (TStruct name) fld :: r) (Sem.VTup vs) en prev) with
        (match assocN name (p_structs P) with
         | Some def =>
             match Sem.index_of fld (map fst def) 0 with
             | Some k => match nthN vs k with
                         | Some sub => sem_read f m r sub en (Sem.RPos k :: prev)
                         | None => Sem.Stuck 66 end
             | None => Sem.Stuck 67
             end
         | None => Sem.Stuck 68
         end).
      rewrite Hd, Hk, nthN_spec, Hsub.
      pose proof (IH sub wsub en E fT (Sem.RPos k :: prev) _ _ _ _ Hes
                    (Forall_nth_error _ _ _ _ (ty_fits_struct_def P name def Hfit Hd) Htk) Hrel Hrun) as IH2.
      revert IH2. destruct (sem_read f m r sub en (Sem.RPos k :: prev)) as [[path en2]|r2 m2|c2|];
        intro IH2; try exact I; [|exact IH2].
      destruct IH2 as (-> & Hrel2 & p & iws & -> & -> & Hpr). split; [reflexivity|]. split; [exact Hrel2|].
      exists (Sem.RPos k :: p), iws. cbn [rev]. rewrite <- app_assoc.
      split; [reflexivity|]. split; [reflexivity|]. now apply (PR_fld name def).
  Qed.
  (* PHASE B: reading along the accessors and writing back *)
  Lemma assign_backward_app m items : forall rest value o,
    assign_backward tops m (items ++ rest) value o =
    mbind (assign_backward tops m items value) (fun v' => assign_backward tops m rest v') o.
  Proof.
    induction items as [|[[[before a] n] [iw|]] items IH]; intros rest value o; cbn [app assign_backward].
    - reflexivity.
    - unfold mbind. destruct (array_write tops before a n iw value m o) as [[v' o1]| |]; try reflexivity.
      rewrite IH. reflexivity.
    - unfold mbind. destruct (lift_res (splice before a n value) o) as [[v' o1]| |]; try reflexivity.
      rewrite IH. reflexivity.
  Qed.

  Lemma write_agrees f g m : forall accs tcur tf, acc_ok f g accs tcur tf ->
    forall path iws, path_rel accs path iws ->
    forall cur coll acc (o : pobs) accessed o1, has_enc P tcur cur coll -> ty_fits P tcur ->
    assign_forward tops P accs coll iws acc o = Ok (accessed, o1) ->
    o1 = o /\ exists items, accessed = items ++ acc /\
    forall nv value, has_enc P tf nv value ->
      exists whole wv, Sem.write_path cur path nv = Some whole /\ has_enc P tcur whole wv /\
        forall o2, assign_backward tops m items value o2 = Ok (wv, o2).
  Proof.
    induction 1 as [t|ie r el n b tf IHie Eti Hb Hn Heb _ IH|i r ts ti tf Hi _ IH|fld r name def k tk tf Hd Hk Htk _ IH];
      intros path iws Hpr cur coll acc o accessed o1 HV Hfit Hrun.
    - inversion Hpr; subst. cbn [assign_forward] in Hrun. apply ret_inv in Hrun. destruct Hrun as [-> ->].
      split; [reflexivity|]. exists []. split; [reflexivity|]. intros nv value Hnv.
      exists nv, value. cbn [Sem.write_path assign_backward]. auto.
    - inversion Hpr as [|el' n' ie' r' p iw iws' Hliw Hlt Hpr'| |]; subst.
      cbn [assign_forward array_size] in Hrun.
      minva Hrun as [eb0 ne] o0 H0. apply lift_res_inv in H0. destruct H0 as [H0 ->]. injection H0 as <- <-.
      minva Hrun as arr' o2 H2.
      apply N.ltb_lt in Hn. apply Nat.leb_le in Heb.
      pose proof HV as HV'. apply has_enc_inv in HV' as (vs & -> & _ & _).
      destruct (has_enc_array_elems P el n vs coll HV Hfit) as (elems & -> & Hf2 & Hall & Hle & Hlv & _).
      assert (Hlvs : length vs = N.to_nat n) by (unfold lenN in Hlv; lia).
      rewrite (tsem_index_layers_in_bounds iw elems (szn P el) o (repeat true (szn P el))) in H2;
        try assumption; try (unfold lenN; rewrite ?Hliw, ?Hle; unfold USZ; lia).
      injection H2 as <- <-.
      set (kk := N.to_nat (bits_to_N iw)) in *.
      assert (Hkk : (kk < length vs)%nat) by (unfold kk; lia).
      destruct (nth_error vs kk) as [sub|] eqn:Ev; [|apply nth_error_None in Ev; lia].
      pose proof (F2_has_enc_nth P el vs elems kk sub (repeat true (szn P el)) Hf2 Ev) as Hsub.
      pose proof (ty_fits_arr P el n Hfit) as Hfel.
      pose proof (has_enc_length P el sub _ Hsub Hfel) as Hlsub.
      assert (Hne : match nth kk elems (repeat true (szn P el)) with
                    | [] => repeat (wF tops) (szn P el)
                    | _ :: _ => nth kk elems (repeat true (szn P el)) end
                    = nth kk elems (repeat true (szn P el))).
      { destruct (nth kk elems (repeat true (szn P el))); [cbn [length] in Hlsub; lia|reflexivity]. }
      rewrite Hne in Hrun.
      destruct (IH p iws' Hpr' sub _ _ _ _ _ Hsub Hfel Hrun) as (-> & items & -> & Hback).
      split; [reflexivity|].
      exists (items ++ [(concat elems, szn P el, N.to_nat n, Some iw)]). split; [now rewrite <- app_assoc|].
      intros nv value Hnv. destruct (Hback nv value Hnv) as (sub' & wv' & Hwp & Hsub' & Hb').
      pose proof (set_nth_val_some vs kk sub' sub Ev) as Hset.
      exists (Sem.VArr (firstn kk vs ++ sub' :: skipn (S kk) vs)),
             (concat (list_set elems kk wv')).
      split; [|split].
      + cbn [Sem.write_path]. rewrite nthN_spec. fold kk. now rewrite Ev, Hwp, Hset.
      + apply has_enc_arr_iff. split.
        * unfold lenN. rewrite (set_nth_val_length _ _ _ _ Hset). lia.
        * eexists. split; [|reflexivity]. exact (F2_has_enc_list_set P el vs elems kk sub' wv' _ Hf2 Hsub' Hset).
      + intro o2. rewrite assign_backward_app. unfold mbind at 1. rewrite Hb'.
        cbn [assign_backward]. rewrite <- Hle. unfold mbind.
        rewrite (tsem_array_write elems iw wv' (szn P el) m o2); try assumption;
          try (unfold lenN; rewrite ?Hliw, ?Hle; unfold USZ; lia).
        2:{ exact (has_enc_length P el sub' wv' Hsub' Hfel). }
        fold kk. unfold ret.
        destruct (N.leb_spec (lenN elems) (bits_to_N iw)) as [Hc|_]; [unfold lenN in Hc; lia|].
        now rewrite push_spec_false.
    - inversion Hpr as [| |tty i' r' p iws' Hpr'|]; subst.
      cbn [assign_forward] in Hrun.
      minva Hrun as [wb wi] o0 H0. apply lift_res_inv in H0. destruct H0 as [Hoff ->].
      minva Hrun as coll' o2 H2. apply lift_res_inv in H2. destruct H2 as [Hsl ->].
      pose proof HV as HV'. apply has_enc_inv in HV' as (vs & -> & Hs).
      pose proof (has_encs_length P ts vs coll Hs) as Hlen.
      pose proof Hi as Hi'. rewrite nthN_spec in Hi'.
      destruct (nth_error_same_length ts vs _ ti Hlen Hi') as (sub & Hsub).
      pose proof Hsub as Hsub'. rewrite <- nthN_spec in Hsub'.
      destruct (has_enc_tuple_proj P ts vs coll i wb wi ti sub HV Hfit Hoff Hi Hsub') as (wx & Hwx & Hex).
      assert (wx = coll') as -> by congruence.
      pose proof (Forall_nth_error _ _ _ _ (ty_fits_tup P ts Hfit) Hi') as Hfti.
      destruct (IH p iws Hpr' sub _ _ _ _ _ Hex Hfti Hrun) as (-> & items & -> & Hback).
      split; [reflexivity|].
      exists (items ++ [(coll, wb, wi, None)]). split; [now rewrite <- app_assoc|].
      intros nv value Hnv. destruct (Hback nv value Hnv) as (sub' & wv' & Hwp & Hsubenc & Hb').
      pose proof (set_nth_val_some vs (N.to_nat i) sub' sub Hsub) as Hset.
      destruct (has_enc_tuple_update P ts vs coll i wb wi ti sub' wv' _ HV Hfit Hoff Hi Hsubenc Hset) as (w' & Hsp & Hw').
      exists (Sem.VTup (firstn (N.to_nat i) vs ++ sub' :: skipn (S (N.to_nat i)) vs)), w'.
      split; [|split; [exact Hw'|]].
      + cbn [Sem.write_path]. now rewrite Hsub', Hwp, Hset.
      + intro o2. rewrite assign_backward_app. unfold mbind at 1. rewrite Hb'.
        cbn [assign_backward]. unfold mbind. now rewrite Hsp.
    - inversion Hpr as [| | |name' def' fld' k' r' p iws' Hd' Hk' Hpr']; subst.
      assert (def' = def) as -> by congruence. assert (k' = k) as -> by congruence.
      cbn [assign_forward] in Hrun.
      minva Hrun as [wb wi] o0 H0. apply lift_res_inv in H0. destruct H0 as [Hoff ->].
      minva Hrun as coll' o2 H2. apply lift_res_inv in H2. destruct H2 as [Hsl ->].
      pose proof HV as HV'. apply has_enc_inv in HV' as (def' & vs & -> & Hd'' & Hs).
      assert (def' = def) as -> by congruence.
      pose proof (has_encs_length P _ vs coll Hs) as Hlen.
      pose proof Htk as Htk'. rewrite nthN_spec in Htk'.
      destruct (nth_error_same_length _ vs _ tk Hlen Htk') as (sub & Hsub).
      pose proof Hsub as Hsub'. rewrite <- nthN_spec in Hsub'.
      destruct (has_enc_struct_proj P name def vs coll fld wb wi k sub HV Hfit Hd Hoff Hk Hsub')
        as (ti & wx & Hti & Hwx & Hex).
      assert (ti = tk) as -> by congruence. assert (wx = coll') as -> by congruence.
      pose proof (Forall_nth_error _ _ _ _ (ty_fits_struct_def P name def Hfit Hd) Htk') as Hftk.
      destruct (IH p iws Hpr' sub _ _ _ _ _ Hex Hftk Hrun) as (-> & items & -> & Hback).
      split; [reflexivity|].
      exists (items ++ [(coll, wb, wi, None)]). split; [now rewrite <- app_assoc|].
      intros nv value Hnv. destruct (Hback nv value Hnv) as (sub' & wv' & Hwp & Hsubenc & Hb').
      pose proof (set_nth_val_some vs (N.to_nat k) sub' sub Hsub) as Hset.
      destruct (has_enc_struct_update P name def vs coll fld wb wi k sub' wv' _ tk HV Hfit Hd Hoff Hk Htk Hsubenc Hset)
        as (w' & Hsp & Hw').
      exists (Sem.VTup (firstn (N.to_nat k) vs ++ sub' :: skipn (S (N.to_nat k)) vs)), w'.
      split; [|split; [exact Hw'|]].
      + cbn [Sem.write_path]. now rewrite Hsub', Hwp, Hset.
      + intro o2. rewrite assign_backward_app. unfold mbind at 1. rewrite Hb'.
        cbn [assign_backward]. unfold mbind. now rewrite Hsp.
  Qed.

  (* x.accs = e : the variable is mutable-or-not as the context says (the checker requires
     mutability; the agreement does not need it) *)
  Lemma assign_acc_node f g x accs e m tx mu :
    AgE' f g e -> tlookup g x = Some (tx, mu) -> acc_ok f g accs tx (e_ty e) ->
    AgS' (S f) g g unit_ty (St (SAssign x accs e) m).
  Proof.
    intros IH Hlk Hacc en E fT w E' o' Hrel Hrun. destruct fT as [|fT]; [discriminate Hrun|].
    rewrite lower_stmt_S in Hrun. cbn [lower_stmt_body] in Hrun.
    minva Hrun as [value E1] o1 He.
    minva Hrun as [idxs E2] o2 H2.
    minva Hrun as coll o3 H3.
    minva Hrun as accessed o4 H4.
    minva Hrun as value' o5 H5.
    minva Hrun as E3 o6 H6. apply lift_res_inv in H6. destruct H6 as [Ha ->].
    apply ret_inv in Hrun. destruct Hrun as [Heq ->]. injection Heq as -> ->.
    assert (Hstk : forall x0, o2 = Some x0 -> o5 = Some x0).
    { intros x0 ->. assert (o3 = Some x0) as ->.
      { destruct (env_get E2 x); [apply ret_inv in H3; now destruct H3|discriminate H3]. }
      pose proof (stkx_assign_forward _ P accs coll idxs [] _ _ H4) as ->.
      exact (stkx_assign_backward _ m accessed value _ _ H5). }
    rewrite sem_exec_assign. pose proof (IH en E fT _ _ _ Hrel He) as IH1. revert IH1.
    destruct (Sem.eval f P en e) as [[nv en0]|r1 m1|c1|]; intro IH1; cbn [Sem.obind]; try exact I.
    2:{ subst o1. apply Hstk. exact (stkx_assign_indexes _ P _ (stk_expr _ fT) m accs E1 _ _ _ H2). }
    destruct IH1 as (-> & [HVnv Hfnv] & Hrel1).
    destruct (rel_lookup _ _ _ _ _ _ _ Hrel1 Hlk) as (cur & w0 & Hcur & _ & [HVcur Hfcur]). rewrite Hcur.
    pose proof (read_agrees f g m accs tx (e_ty e) Hacc cur w0 en0 E1 fT [] [] _ _ _ HVcur Hfcur Hrel1 H2) as IH2.
    revert IH2. destruct (sem_read f m accs cur en0 []) as [[path en2]|r2 m2|c2|]; intro IH2; cbn [Sem.obind]; try exact I.
    2:{ now apply Hstk. }
    destruct IH2 as (-> & Hrel2 & p & iws & -> & -> & Hpr). cbn [rev app] in *.
    destruct (rel_lookup _ _ _ _ _ _ _ Hrel2 Hlk) as (cur2 & coll2 & Hcur2 & Hcoll2 & [HVcur2 _]). rewrite Hcur2.
    rewrite Hcoll2 in H3. apply ret_inv in H3. destruct H3 as [-> ->].
    destruct (write_agrees f g m accs tx (e_ty e) Hacc p iws Hpr cur2 coll2 [] None _ _ HVcur2 Hfcur H4)
      as (-> & items & -> & Hback).
    destruct (Hback nv value HVnv) as (whole & wv & Hwp & Hwhole & Hb). rewrite Hwp.
    rewrite app_nil_r, Hb in H5. injection H5 as <- <-.
    destruct (rel_assign VRa _ _ _ _ _ _ whole wv _ Hrel2 Hlk (conj Hwhole Hfcur) Ha) as (en3 & -> & Hrel3).
    split; [reflexivity|]. split; [exact VRa_unit|exact Hrel3].
  Qed.
  (* ---------------------------------------------------------------- 6. for loops over an
     array value, identifier pattern: one scope per iteration *)

  Definition sem_for (f : nat) (p : pattern) (body : list stmt)
    : list Sem.value -> Sem.env -> Sem.outcome Sem.env :=
    fix go (vs : list Sem.value) (en : Sem.env) : Sem.outcome Sem.env :=
      match vs with
      | [] => Sem.Done en
      | v :: r =>
          match Sem.pmatch P p v with
          | Some bs =>
              Sem.obind (Sem.exec_block f P (Sem.bind_all (Sem.push_scope en) bs) body)
                (fun '(_, en1) => go r (Sem.pop_scope en1))
          | None => Sem.Stuck 73
          end
      end.

  Lemma sem_exec_for f en p arr body m :
    Sem.exec (S f) P en (St (SFor p arr body) m) =
    Sem.obind (Sem.eval f P en arr) (fun '(va, en1) =>
      match va with
      | Sem.VArr vs => Sem.obind (sem_for f p body vs en1) (fun en2 => Sem.Done (Sem.unit_val, en2))
      | _ => Sem.Stuck 74
      end).
  Proof. reflexivity. Qed.

  (* [lower_stmts] is [block_stmts] without the value *)
  Lemma lower_stmts_block (rs : stmt -> @cenv bool -> MB (list bool * @cenv bool)) :
    forall ss lw E (o : pobs) E' o', lower_stmts rs ss E o = Ok (E', o') ->
    exists w, block_stmts rs ss lw E o = Ok ((w, E'), o').
  Proof.
    induction ss as [|s r IH]; intros lw E o E' o' H; cbn [lower_stmts block_stmts] in *.
    - apply ret_inv in H. destruct H as [-> ->]. exists lw. reflexivity.
    - unfold mbind in *. destruct (rs s E o) as [[[w1 E1] o1]| |]; try discriminate H.
      exact (IH w1 E1 o1 E' o' H).
  Qed.

  Lemma lower_pattern_S fuel p mw E :
    lower_pattern tops (S fuel) P p mw E = lower_pattern_body tops P (lower_pattern tops fuel P) p mw E.
  Proof. reflexivity. Qed.

  Lemma for_iter_agrees f g x mp tp body el g1 tb :
    AgSS P VRa f (tbind ([] :: g) x el false) body unit_ty g1 tb -> tl g1 = g -> ty_fits P el ->
    forall vs elems, Forall2 (has_enc P el) vs elems ->
    forall en E fT E' o', rel en E g ->
    for_iterations (lower_pattern tops fT P) (lower_stmt tops fT P) (Pat (PId x) mp tp) body (szn P el)
      (length elems) (concat elems) E None = Ok (E', o') ->
    match sem_for (S f) (Pat (PId x) mp tp) body vs en with
    | Sem.Done en' => o' = None /\ rel en' E' g
    | Sem.Panicked r m => o' = Some (pcode r m)
    | _ => True
    end.
  Proof.
    intros Hbody Htl Hfel vs elems Hf2. induction Hf2 as [|v e vs elems Hv _ IH]; intros en E fT E' o' Hrel Hrun.
    - cbn [length for_iterations] in Hrun. apply ret_inv in Hrun. destruct Hrun as [-> ->].
      cbn [sem_for]. auto.
    - cbn [length for_iterations concat] in Hrun.
      pose proof (has_enc_length P el v e Hv Hfel) as Hle.
      minva Hrun as binding o0 H0. apply lift_res_inv in H0. destruct H0 as [Hsl ->].
      rewrite <- Hle in Hsl. pose proof (slice_mid [] e (concat elems)) as Hsm. cbn [app length] in Hsm.
      rewrite Hsm in Hsl. injection Hsl as <-. clear Hsm.
      minva Hrun as [c Ea] o1 Hp.
      destruct fT as [|fT]; [discriminate Hp|]. rewrite lower_pattern_S in Hp. cbn [lower_pattern_body] in Hp.
      minva Hp as Ea' o2 Hl. apply lift_res_inv in Hl. destruct Hl as [Hl ->].
      apply ret_inv in Hp. destruct Hp as [Heq ->]. injection Heq as _ ->.
      minva Hrun as Eb ob Hb. minva Hrun as Ec oc Hc. apply lift_res_inv in Hc. destruct Hc as [Hpop ->].
      rewrite <- Hle, (skipn_app_exact e) in Hrun by reflexivity.
      change (sem_for (S f) (Pat (PId x) mp tp) body (v :: vs) en) with
        (Sem.obind (Sem.exec_block (S f) P (Sem.bind_var (Sem.push_scope en) x v) body)
           (fun '(_, en1) => sem_for (S f) (Pat (PId x) mp tp) body vs (Sem.pop_scope en1))).
      rewrite exec_block_S.
      destruct (lower_stmts_block _ body [] _ _ _ _ Hb) as (wb & Hb').
      assert (Hrela : rel (Sem.bind_var (Sem.push_scope en) x v) Ea' (tbind ([] :: g) x el false)).
      { eapply rel_let; [apply rel_push; exact Hrel|exact (conj Hv Hfel)|exact Hl]. }
      pose proof (stmts_node P VRa f _ _ _ _ _ Hbody _ _ (S fT) Sem.unit_val [] _ _ _ Hrela VRa_unit Hb') as IH1.
      revert IH1. destruct (sem_stmts P f body Sem.unit_val (Sem.bind_var (Sem.push_scope en) x v))
        as [[vb en1]|r1 m1|c1|]; intro IH1; cbn [Sem.obind]; try exact I.
      + destruct IH1 as (-> & _ & Hrel1).
        assert (Hrelc : rel (Sem.pop_scope en1) Ec g) by (rewrite <- Htl; eapply rel_pop; eassumption).
        rewrite Hle in Hrun. exact (IH _ _ (S fT) _ _ Hrelc Hrun).
      + subst ob.
        exact (stkx_for_iterations _ _ _ (stk_pat _ (S fT)) (stk_stmt _ (S fT)) _ body _ _ _ Ec _ _ Hrun).
  Qed.

  Lemma for_node f g x mp tp arr body m el n g1 tb :
    AgE' (S f) g arr -> e_ty arr = TArr el n ->
    AgSS P VRa f (tbind ([] :: g) x el false) body unit_ty g1 tb -> tl g1 = g ->
    AgS' (S (S f)) g g unit_ty (St (SFor (Pat (PId x) mp tp) arr body) m).
  Proof.
    intros IHa Eta Hbody Htl en E fT w E' o' Hrel Hrun. destruct fT as [|fT]; [discriminate Hrun|].
    rewrite lower_stmt_S in Hrun. cbn [lower_stmt_body] in Hrun. rewrite Eta in Hrun. cbn [array_size] in Hrun.
    minva Hrun as [eb0 ne] o0 H0. apply lift_res_inv in H0. destruct H0 as [H0 ->]. injection H0 as <- <-.
    minva Hrun as [aw E1] o1 H1. minva Hrun as E2 o2 H2.
    apply ret_inv in Hrun. destruct Hrun as [Heq ->]. injection Heq as -> ->.
    rewrite sem_exec_for. pose proof (IHa en E fT _ _ _ Hrel H1) as IH1. revert IH1.
    destruct (Sem.eval (S f) P en arr) as [[va en1]|r1 m1|c1|]; intro IH1; cbn [Sem.obind]; try exact I.
    2:{ subst o1. exact (stkx_for_iterations _ _ _ (stk_pat _ fT) (stk_stmt _ fT) _ body _ _ _ E1 _ _ H2). }
    destruct IH1 as (-> & [HVa Hfa] & Hrel1). rewrite Eta in HVa, Hfa.
    pose proof HVa as HVa'. apply has_enc_inv in HVa' as (vs & -> & _ & _).
    destruct (has_enc_array_elems P el n vs aw HVa Hfa) as (elems & -> & Hf2 & _ & Hle & _).
    rewrite <- Hle in H2.
    pose proof (for_iter_agrees f g x mp tp body el g1 tb Hbody Htl (ty_fits_arr P el n Hfa) vs elems Hf2
                  en1 E1 fT _ _ Hrel1 H2) as IH2. revert IH2.
    destruct (sem_for (S f) (Pat (PId x) mp tp) body vs en1) as [en2|r2 m2|c2|]; intro IH2; cbn [Sem.obind];
      try exact I; [|exact IH2].
    destruct IH2 as (-> & Hrel2). split; [reflexivity|]. split; [exact VRa_unit|exact Hrel2].
  Qed.
  (* ---------------------------------------------------------------- 8a. enum literals *)

  Lemma sem_eval_enumlit f en ename variant args m t :
    Sem.eval (S f) P en (Ex (EEnumLit ename variant args) m t) =
    Sem.obind (sem_eval_list f args en) (fun '(vs, en1) => Sem.Done (Sem.VEnum variant vs, en1)).
  Proof. reflexivity. Qed.

  Lemma enumlit_node f g ename variant args m t variants ts :
    Forall (AgE' f g) args -> assocN ename (p_enums P) = Some variants ->
    nthN variants variant = Some ts -> map e_ty args = ts -> t = TEnum ename -> ty_fits P t ->
    AgE' (S f) g (Ex (EEnumLit ename variant args) m t).
  Proof.
    intros Hes Hd Hv Hty Et Hfit en E fT w E' o' Hrel Hrun.
    destruct fT as [|fT]; [discriminate Hrun|]. rewrite lower_expr_S in Hrun. cbn [lower_expr_body] in Hrun.
    rewrite Hd in Hrun. minva Hrun as [ws E1] o1 H1.
    rewrite sem_eval_enumlit. pose proof (list_agrees f g args Hes en E fT _ _ _ Hrel H1) as IH1. revert IH1.
    destruct (sem_eval_list f args en) as [[vs en1]|r1 m1|c1|]; intro IH1; cbn [Sem.obind]; try exact I.
    - destruct IH1 as (-> & HVs & Hrel1). rewrite Hty in HVs. apply F3_VRa_enc in HVs. subst t.
      destruct (has_enc_enum_lit P ename variants variant ts vs ws Hfit Hd Hv HVs) as [Hfits Henc].
      cbv zeta in Hrun. rewrite Hfits in Hrun.
      apply ret_inv in Hrun. destruct Hrun as [Heq ->]. injection Heq as -> ->.
      cbn [e_ty]. split; [reflexivity|]. split; [split; [exact Henc|exact Hfit]|exact Hrel1].
    - subst o1. cbv zeta in Hrun. destruct (_ <=? _)%nat; [|discriminate Hrun].
      apply ret_inv in Hrun. now destruct Hrun as [_ ->].
  Qed.
  (* ---------------------------------------------------------------- 7. irrefutable patterns:
     identifiers, tuples, structs (nested); `let p = e`

     Struct patterns: Sem.pmatch walks the fields of the PATTERN in their order, Lower's
     [struct_match] the fields of the DEFINITION in theirs (looking each up in the pattern).
     The lemma is for patterns that name fields in definition order, each at most once
     ([fields_ok]; the definition has distinct field names); see [StructPatternOrder] at the
     end of the file for what happens otherwise. *)

  Definition sem_match_list : list pattern -> list Sem.value -> option (list (N * Sem.value)) :=
    fix go (ps : list pattern) (vs : list Sem.value) : option (list (N * Sem.value)) :=
      match ps, vs with
      | [], [] => Some []
      | p :: pr, v :: vr =>
          match Sem.pmatch P p v, go pr vr with
          | Some a, Some b => Some (a ++ b)
          | _, _ => None
          end
      | _, _ => None
      end.

  Definition sem_match_fields (def : list (N * ty)) (vs : list Sem.value)
    : list (N * pattern) -> option (list (N * Sem.value)) :=
    fix go (fs : list (N * pattern)) : option (list (N * Sem.value)) :=
      match fs with
      | [] => Some []
      | (fname, fp) :: r =>
          match Sem.index_of fname (map fst def) 0 with
          | Some k =>
              match nthN vs k with
              | Some fv =>
                  match Sem.pmatch P fp fv, go r with
                  | Some a, Some b => Some (a ++ b)
                  | _, _ => None
                  end
              | None => None
              end
          | None => None
          end
      end.

  Lemma pmatch_id x m t v : Sem.pmatch P (Pat (PId x) m t) v = Some [(x, v)].
  Proof. destruct v; reflexivity. Qed.

  Lemma pmatch_tup ps m t vs : Sem.pmatch P (Pat (PTup ps) m t) (Sem.VTup vs) = sem_match_list ps vs.
  Proof. reflexivity. Qed.

  Lemma pmatch_struct name ig fields m t vs :
    Sem.pmatch P (Pat (PStruct name ig fields) m t) (Sem.VTup vs) =
    match assocN name (p_structs P) with
    | Some def => sem_match_fields def vs fields
    | None => None
    end.
  Proof. reflexivity. Qed.

  Inductive pat_ok : pattern -> ty -> list (N * ty) -> Prop :=
  | PO_id x m t : pat_ok (Pat (PId x) m t) t [(x, t)]
  | PO_tup ps m ts bs : pats_ok ps ts bs -> pat_ok (Pat (PTup ps) m (TTup ts)) (TTup ts) bs
  | PO_struct name ig fields m def bs : assocN name (p_structs P) = Some def ->
      NoDup (map fst def) -> fields_ok fields def bs ->
      pat_ok (Pat (PStruct name ig fields) m (TStruct name)) (TStruct name) bs
  with pats_ok : list pattern -> list ty -> list (N * ty) -> Prop :=
  | POs_nil : pats_ok [] [] []
  | POs_cons p t ps ts b bs : p_ty p = t -> pat_ok p t b -> pats_ok ps ts bs ->
      pats_ok (p :: ps) (t :: ts) (b ++ bs)
  (* the named fields, in the order of (the rest of) the definition *)
  with fields_ok : list (N * pattern) -> list (N * ty) -> list (N * ty) -> Prop :=
  | FO_nil : fields_ok [] [] []
  | FO_take fn fp fr fty r b bs : pat_ok fp fty b -> fields_ok fr r bs ->
      fields_ok ((fn, fp) :: fr) ((fn, fty) :: r) (b ++ bs)
  | FO_skip fs fn fty r bs : ~ In fn (map fst fs) -> fields_ok fs r bs ->
      fields_ok fs ((fn, fty) :: r) bs.

  Scheme pat_ok_mut := Minimality for pat_ok Sort Prop
    with pats_ok_mut := Minimality for pats_ok Sort Prop
    with fields_ok_mut := Minimality for fields_ok Sort Prop.
  Combined Scheme pat_ok_mutind from pat_ok_mut, pats_ok_mut, fields_ok_mut.

  Lemma sem_bind_all_app en a b : Sem.bind_all en (a ++ b) = Sem.bind_all (Sem.bind_all en a) b.
  Proof. unfold Sem.bind_all. apply fold_left_app. Qed.

  Lemma tbind_all_app g a b mu : tbind_all g (a ++ b) mu = tbind_all (tbind_all g a mu) b mu.
  Proof. unfold tbind_all. apply fold_left_app. Qed.

  Lemma index_of_nth : forall l j fn i0, NoDup l -> nth_error l j = Some fn ->
    Sem.index_of fn l i0 = Some (i0 + N.of_nat j).
  Proof.
    induction l as [|y l IH]; intros [|j] fn i0 Hnd Hj; cbn [nth_error] in Hj; try discriminate;
      cbn [Sem.index_of]; inversion Hnd as [|y' l' Hnotin Hnd']; subst.
    - injection Hj as ->. rewrite N.eqb_refl. f_equal. lia.
    - destruct (N.eqb_spec fn y) as [->|_]; [exfalso; apply Hnotin; eapply nth_error_In; exact Hj|].
      rewrite (IH j fn (i0 + 1) Hnd' Hj). f_equal. lia.
  Qed.

  Lemma NoDup_nth_notin_firstn {A} : forall (l : list A) j a, NoDup l -> nth_error l j = Some a ->
    ~ In a (firstn j l).
  Proof.
    induction l as [|y l IH]; intros [|j] a Hnd Hj; cbn [nth_error firstn] in *; try discriminate; [tauto|].
    inversion Hnd as [|y' l' Hnotin Hnd']; subst. intros [->|Hin].
    - apply Hnotin. eapply nth_error_In. exact Hj.
    - exact (IH j a Hnd' Hj Hin).
  Qed.

  Lemma skipn_cons_nth {A} : forall (l : list A) j a r, skipn j l = a :: r ->
    nth_error l j = Some a /\ skipn (S j) l = r.
  Proof.
    induction l as [|y l IH]; intros [|j] a r H; cbn [skipn] in H; try discriminate.
    - injection H as -> ->. split; reflexivity.
    - exact (IH j a r H).
  Qed.

  Lemma firstn_S_nth {A} : forall (l : list A) j a, nth_error l j = Some a ->
    firstn (S j) l = firstn j l ++ [a].
  Proof.
    induction l as [|y l IH]; intros [|j] a H; cbn [nth_error] in H; try discriminate.
    - now injection H as ->.
    - cbn [firstn app]. f_equal. exact (IH j a H).
  Qed.

  Lemma fields_ok_names fs ds bs : fields_ok fs ds bs -> forall fn, In fn (map fst fs) -> In fn (map fst ds).
  Proof.
    induction 1 as [|fn' fp fr fty r b bs _ _ IH|fs fn' fty r bs _ _ IH]; intros fn Hin; cbn [map fst In] in *.
    - contradiction.
    - destruct Hin as [->|Hin]; [now left|right; now apply IH].
    - right. now apply IH.
  Qed.

  Lemma fields_ok_nodup fs ds bs : fields_ok fs ds bs -> NoDup (map fst ds) -> NoDup (map fst fs).
  Proof.
    induction 1 as [|fn fp fr fty r b bs _ Hfo IH|fs fn fty r bs _ _ IH]; intro Hnd; cbn [map fst] in *.
    - constructor.
    - inversion Hnd as [|y l Hn Hnd']; subst. constructor; [|now apply IH].
      intro Hin. apply Hn. exact (fields_ok_names _ _ _ Hfo fn Hin).
    - inversion Hnd as [|y l Hn Hnd']; subst. now apply IH.
  Qed.

  Lemma pat_agrees_mut :
    (forall p t bs, pat_ok p t bs ->
       forall v mw en E g fT c E' (o : pobs) o', has_enc P t v mw -> ty_fits P t -> rel en E g ->
       lower_pattern tops fT P p mw E o = Ok ((c, E'), o') ->
       exists vbs, Sem.pmatch P p v = Some vbs /\ c = true /\ o' = o /\
                   rel (Sem.bind_all en vbs) E' (tbind_all g bs false)) /\
    (forall ps ts bs, pats_ok ps ts bs ->
       forall vs mw off en E g fT im c E' (o : pobs) o', enc_at P ts vs mw off -> Forall (ty_fits P) ts ->
       rel en E g ->
       fields_match tops (lower_pattern tops fT P) mw (map (fun fp => (fp, szn P (p_ty fp))) ps) off im E o
         = Ok ((c, E'), o') ->
       exists vbs, sem_match_list ps vs = Some vbs /\ c = im /\ o' = o /\
                   rel (Sem.bind_all en vbs) E' (tbind_all g bs false)) /\
    (forall fs ds bs, fields_ok fs ds bs ->
       forall def vs mw fields_all j consumed en E g fT im c E' (o : pobs) o',
       has_encs P (map snd def) vs mw -> Forall (ty_fits P) (map snd def) -> NoDup (map fst def) ->
       NoDup (map fst fields_all) ->
       ds = skipn j def -> fields_all = consumed ++ fs ->
       (forall fn, In fn (map fst consumed) -> In fn (firstn j (map fst def))) ->
       rel en E g ->
       struct_match tops P (lower_pattern tops fT P) mw fields_all ds
         (sum_szn P (firstn j (map snd def))) im E o = Ok ((c, E'), o') ->
       exists vbs, sem_match_fields def vs fs = Some vbs /\ c = im /\ o' = o /\
                   rel (Sem.bind_all en vbs) E' (tbind_all g bs false)).
  Proof.
    apply pat_ok_mutind.
    - (* identifier *)
      intros x m t v mw en E g fT c E' o o' HV Hfit Hrel Hrun.
      destruct fT as [|fT]; [discriminate Hrun|]. rewrite lower_pattern_S in Hrun. cbn [lower_pattern_body] in Hrun.
      minva Hrun as E1 o1 Hl. apply lift_res_inv in Hl. destruct Hl as [Hl ->].
      apply ret_inv in Hrun. destruct Hrun as [Heq ->]. injection Heq as -> ->.
      exists [(x, v)]. rewrite pmatch_id. repeat split.
      exact (rel_let VRa _ _ _ x t false v mw _ Hrel (conj HV Hfit) Hl).
    - (* tuple *)
      intros ps m ts bs _ IH v mw en E g fT c E' o o' HV Hfit Hrel Hrun.
      destruct fT as [|fT]; [discriminate Hrun|]. rewrite lower_pattern_S in Hrun. cbn [lower_pattern_body] in Hrun.
      pose proof HV as HV'. apply has_enc_inv in HV' as (vs & -> & _).
      destruct (IH vs mw O en E g fT true c E' o o' (has_enc_tuple_fields P ts vs mw HV Hfit)
                  (ty_fits_tup P ts Hfit) Hrel Hrun) as (vbs & Hm & -> & -> & Hr).
      exists vbs. rewrite pmatch_tup. auto.
    - (* struct *)
      intros name ig fields m def bs Hd Hnd Hfo IH v mw en E g fT c E' o o' HV Hfit Hrel Hrun.
      destruct fT as [|fT]; [discriminate Hrun|]. rewrite lower_pattern_S in Hrun. cbn [lower_pattern_body] in Hrun.
      rewrite Hd in Hrun.
      pose proof HV as HV'. apply has_enc_inv in HV' as (def' & vs & -> & Hd' & Hs).
      assert (def' = def) as -> by congruence.
      pose proof (fields_ok_nodup _ _ _ Hfo Hnd) as Hndf.
      destruct (IH def vs mw fields O [] en E g fT true c E' o o' Hs (ty_fits_struct_def P name def Hfit Hd) Hnd Hndf
                  eq_refl eq_refl (fun fn Hin => match Hin with end) Hrel Hrun) as (vbs & Hm & -> & -> & Hr).
      exists vbs. rewrite pmatch_struct, Hd. auto.
    - (* no sub-patterns *)
      intros vs mw off en E g fT im c E' o o' Hat _ Hrel Hrun. cbn [map fields_match] in Hrun.
      apply ret_inv in Hrun. destruct Hrun as [Heq ->]. injection Heq as -> ->.
      destruct vs; [|contradiction Hat]. exists []. cbn [sem_match_list]. auto.
    - (* a sub-pattern *)
      intros p t ps ts b bs Ept _ IH1 _ IH2 vs mw off en E g fT im c E' o o' Hat Hfits Hrel Hrun.
      destruct vs as [|v vs]; [contradiction Hat|]. cbn [enc_at] in Hat. destruct Hat as [(wi & Hsl & Hv) Hat].
      inversion Hfits as [|t' ts' Hft Hfts]. subst t' ts'.
      cbn [map fields_match] in Hrun. rewrite Ept in Hrun.
      minva Hrun as sub o1 H1. apply lift_res_inv in H1. destruct H1 as [H1 ->].
      assert (sub = wi) as -> by congruence.
      minva Hrun as [fm E1] o1 H2.
      destruct (IH1 v wi en E g fT fm E1 o o1 Hv Hft Hrel H2) as (vb & Hm1 & -> & -> & Hr1).
      mprim Hrun. rewrite andb_true_r in Hrun.
      destruct (IH2 vs mw _ _ E1 _ fT im c E' o o' Hat Hfts Hr1 Hrun) as (vbs & Hm2 & -> & -> & Hr2).
      exists (vb ++ vbs). cbn [sem_match_list]. rewrite Hm1, Hm2.
      rewrite sem_bind_all_app, tbind_all_app. auto.
    - (* struct: the definition is exhausted *)
      intros def vs mw fields_all j consumed en E g fT im c E' o o' _ _ _ _ _ _ _ Hrel Hrun.
      cbn [struct_match] in Hrun. apply ret_inv in Hrun. destruct Hrun as [Heq ->]. injection Heq as -> ->.
      exists []. cbn [sem_match_fields]. auto.
    - (* struct: a named field *)
      intros fn fp fr fty r b bs _ IH1 _ IH2 def vs mw fields_all j consumed en E g fT im c E' o o'
        Hs Hfits Hnd Hndf Hds Hall Hcons Hrel Hrun.
      symmetry in Hds. apply skipn_cons_nth in Hds. destruct Hds as [Hj Hr].
      assert (Hjn : nth_error (map fst def) j = Some fn) by (rewrite nth_error_map, Hj; reflexivity).
      assert (Hjt : nth_error (map snd def) j = Some fty) by (rewrite nth_error_map, Hj; reflexivity).
      pose proof (NoDup_nth_notin_firstn _ j fn Hnd Hjn) as Hnotin.
      cbn [struct_match] in Hrun.
      assert (Hlook : assocN fn (rev fields_all) = Some fp).
      { rewrite assocN_rev_nodup by exact Hndf. rewrite Hall, assocN_app.
        rewrite assocN_none_notin by (intro Hin; apply Hnotin, Hcons, Hin).
        cbn [assocN]. now rewrite N.eqb_refl. }
      rewrite Hlook in Hrun.
      pose proof (has_encs_length P _ vs mw Hs) as Hlen.
      destruct (nth_error_same_length _ vs _ fty Hlen Hjt) as (vj & Hvj).
      destruct (has_encs_proj P j _ vs mw fty vj Hs Hfits Hjt Hvj) as (wj & Hsl & Hej).
      minva Hrun as sub o1 H1. apply lift_res_inv in H1. destruct H1 as [H1 ->].
      assert (sub = wj) as -> by congruence.
      minva Hrun as [fm E1] o1 H2.
      destruct (IH1 vj wj en E g fT fm E1 o o1 Hej (Forall_nth_error _ _ _ _ Hfits Hjt) Hrel H2)
        as (vb & Hm1 & -> & -> & Hr1).
      mprim Hrun. rewrite andb_true_r in Hrun.
      assert (Hsum : (sum_szn P (firstn j (map snd def)) + szn P fty)%nat = sum_szn P (firstn (S j) (map snd def))).
      { rewrite (firstn_S_nth _ j fty Hjt), sum_szn_app. unfold sum_szn at 3. cbn [map list_sum fold_right]. lia. }
      rewrite Hsum in Hrun.
      destruct (IH2 def vs mw fields_all (S j) (consumed ++ [(fn, fp)]) (Sem.bind_all en vb) E1 (tbind_all g b false)
                  fT im c E' o o' Hs Hfits Hnd Hndf
                  (eq_sym Hr)) as (vbs & Hm2 & -> & -> & Hr2); try assumption.
      + now rewrite Hall, <- app_assoc.
      + intros fn' Hin. rewrite map_app, in_app_iff in Hin. rewrite (firstn_S_nth _ j fn Hjn), in_app_iff.
        destruct Hin as [Hin|[<-|[]]]; [left; now apply Hcons|right; now left].
      + exists (vb ++ vbs). cbn [sem_match_fields].
        rewrite (index_of_nth _ j fn 0 Hnd Hjn), N.add_0_l, nthN_spec, Nat2N.id, Hvj, Hm1, Hm2.
        rewrite sem_bind_all_app, tbind_all_app. auto.
    - (* struct: a field the pattern does not name *)
      intros fs fn fty r bs Hnotfs _ IH def vs mw fields_all j consumed en E g fT im c E' o o'
        Hs Hfits Hnd Hndf Hds Hall Hcons Hrel Hrun.
      symmetry in Hds. apply skipn_cons_nth in Hds. destruct Hds as [Hj Hr].
      assert (Hjn : nth_error (map fst def) j = Some fn) by (rewrite nth_error_map, Hj; reflexivity).
      assert (Hjt : nth_error (map snd def) j = Some fty) by (rewrite nth_error_map, Hj; reflexivity).
      pose proof (NoDup_nth_notin_firstn _ j fn Hnd Hjn) as Hnotin.
      cbn [struct_match] in Hrun.
      assert (Hlook : assocN fn (rev fields_all) = None).
      { rewrite assocN_rev_nodup by exact Hndf. apply assocN_none_notin. rewrite Hall, map_app, in_app_iff.
        intros [Hin|Hin]; [apply Hnotin, Hcons, Hin|exact (Hnotfs Hin)]. }
      rewrite Hlook in Hrun.
      assert (Hsum : (sum_szn P (firstn j (map snd def)) + szn P fty)%nat = sum_szn P (firstn (S j) (map snd def))).
      { rewrite (firstn_S_nth _ j fty Hjt), sum_szn_app. unfold sum_szn at 3. cbn [map list_sum fold_right]. lia. }
      rewrite Hsum in Hrun.
      apply (IH def vs mw fields_all (S j) consumed en E g fT im c E' o o' Hs Hfits Hnd Hndf (eq_sym Hr) Hall);
        try assumption.
      intros fn' Hin. rewrite (firstn_S_nth _ j fn Hjn), in_app_iff. left. now apply Hcons.
  Qed.

  Lemma pat_agrees p t bs : pat_ok p t bs ->
    forall v mw en E g fT c E' (o : pobs) o', has_enc P t v mw -> ty_fits P t -> rel en E g ->
    lower_pattern tops fT P p mw E o = Ok ((c, E'), o') ->
    exists vbs, Sem.pmatch P p v = Some vbs /\ c = true /\ o' = o /\
                rel (Sem.bind_all en vbs) E' (tbind_all g bs false).
  Proof. apply pat_agrees_mut. Qed.

  Lemma sem_exec_let f en p e m :
    Sem.exec (S f) P en (St (SLet p e) m) =
    Sem.obind (Sem.eval f P en e) (fun '(v, en1) =>
      match Sem.pmatch P p v with
      | Some bs => Sem.Done (Sem.unit_val, Sem.bind_all en1 bs)
      | None => Sem.Stuck 60
      end).
  Proof. reflexivity. Qed.

  Lemma let_pat_node f g p e m bs :
    AgE' f g e -> pat_ok p (e_ty e) bs ->
    AgS' (S f) g (tbind_all g bs false) unit_ty (St (SLet p e) m).
  Proof.
    intros IH Hp en E fT w E' o' Hrel Hrun. destruct fT as [|fT]; [discriminate Hrun|].
    rewrite lower_stmt_S in Hrun. cbn [lower_stmt_body] in Hrun.
    minva Hrun as [w1 E1] o1 He. minva Hrun as [c2 E2] o2 Hpat.
    apply ret_inv in Hrun. destruct Hrun as [Heq ->]. injection Heq as -> ->.
    rewrite sem_exec_let. pose proof (IH en E fT _ _ _ Hrel He) as IH1. revert IH1.
    destruct (Sem.eval f P en e) as [[v en1]|r1 m1|c1|]; intro IH1; cbn [Sem.obind]; try exact I.
    - destruct IH1 as (-> & [HV Hfit] & Hrel1).
      destruct (pat_agrees p _ bs Hp v w1 en1 E1 g fT _ _ _ _ HV Hfit Hrel1 Hpat) as (vbs & -> & _ & -> & Hr).
      split; [reflexivity|]. split; [exact VRa_unit|exact Hr].
    - subst o1. exact (stk_pat _ fT p w1 E1 _ _ Hpat).
  Qed.
  (* ---------------------------------------------------------------- 6'. for loops with any
     irrefutable pattern of section 7 *)

  Lemma tl_tbind_all bs : forall sc g mu, tl (tbind_all (sc :: g) bs mu) = g.
  Proof.
    induction bs as [|[x t] bs IH]; intros sc g mu; [reflexivity|].
    unfold tbind_all in *. cbn [fold_left tbind fst snd]. apply IH.
  Qed.

  Lemma for_iter_agrees_pat f g p bs body el g1 tb :
    pat_ok p el bs ->
    AgSS P VRa f (tbind_all ([] :: g) bs false) body unit_ty g1 tb -> tl g1 = g -> ty_fits P el ->
    forall vs elems, Forall2 (has_enc P el) vs elems ->
    forall en E fT E' o', rel en E g ->
    for_iterations (lower_pattern tops fT P) (lower_stmt tops fT P) p body (szn P el)
      (length elems) (concat elems) E None = Ok (E', o') ->
    match sem_for (S f) p body vs en with
    | Sem.Done en' => o' = None /\ rel en' E' g
    | Sem.Panicked r m => o' = Some (pcode r m)
    | _ => True
    end.
  Proof.
    intros Hp Hbody Htl Hfel vs elems Hf2. induction Hf2 as [|v e vs elems Hv _ IH]; intros en E fT E' o' Hrel Hrun.
    - cbn [length for_iterations] in Hrun. apply ret_inv in Hrun. destruct Hrun as [-> ->].
      cbn [sem_for]. auto.
    - cbn [length for_iterations concat] in Hrun.
      pose proof (has_enc_length P el v e Hv Hfel) as Hle.
      minva Hrun as binding o0 H0. apply lift_res_inv in H0. destruct H0 as [Hsl ->].
      rewrite <- Hle in Hsl. pose proof (slice_mid [] e (concat elems)) as Hsm. cbn [app length] in Hsm.
      rewrite Hsm in Hsl. injection Hsl as <-. clear Hsm.
      minva Hrun as [c Ea] o1 Hpat.
      destruct (pat_agrees p el bs Hp v e _ _ _ fT _ _ _ _ Hv Hfel (rel_push VRa _ _ _ Hrel) Hpat)
        as (vbs & Hpm & _ & -> & Hrela).
      minva Hrun as Eb ob Hb. minva Hrun as Ec oc Hc. apply lift_res_inv in Hc. destruct Hc as [Hpop ->].
      rewrite <- Hle, (skipn_app_exact e) in Hrun by reflexivity.
      change (sem_for (S f) p body (v :: vs) en) with
        (match Sem.pmatch P p v with
         | Some bs0 =>
             Sem.obind (Sem.exec_block (S f) P (Sem.bind_all (Sem.push_scope en) bs0) body)
               (fun '(_, en1) => sem_for (S f) p body vs (Sem.pop_scope en1))
         | None => Sem.Stuck 73
         end).
      rewrite Hpm, exec_block_S.
      destruct (lower_stmts_block _ body [] _ _ _ _ Hb) as (wb & Hb').
      pose proof (stmts_node P VRa f _ _ _ _ _ Hbody _ _ fT Sem.unit_val [] _ _ _ Hrela VRa_unit Hb') as IH1.
      revert IH1. destruct (sem_stmts P f body Sem.unit_val (Sem.bind_all (Sem.push_scope en) vbs))
        as [[vb en1]|r1 m1|c1|]; intro IH1; cbn [Sem.obind]; try exact I.
      + destruct IH1 as (-> & _ & Hrel1).
        assert (Hrelc : rel (Sem.pop_scope en1) Ec g) by (rewrite <- Htl; eapply rel_pop; eassumption).
        rewrite Hle in Hrun. exact (IH _ _ fT _ _ Hrelc Hrun).
      + subst ob.
        exact (stkx_for_iterations _ _ _ (stk_pat _ fT) (stk_stmt _ fT) _ body _ _ _ Ec _ _ Hrun).
  Qed.

  Lemma for_pat_node f g p bs arr body m el n g1 tb :
    AgE' (S f) g arr -> e_ty arr = TArr el n -> pat_ok p el bs ->
    AgSS P VRa f (tbind_all ([] :: g) bs false) body unit_ty g1 tb -> tl g1 = g ->
    AgS' (S (S f)) g g unit_ty (St (SFor p arr body) m).
  Proof.
    intros IHa Eta Hp Hbody Htl en E fT w E' o' Hrel Hrun. destruct fT as [|fT]; [discriminate Hrun|].
    rewrite lower_stmt_S in Hrun. cbn [lower_stmt_body] in Hrun. rewrite Eta in Hrun. cbn [array_size] in Hrun.
    minva Hrun as [eb0 ne] o0 H0. apply lift_res_inv in H0. destruct H0 as [H0 ->]. injection H0 as <- <-.
    minva Hrun as [aw E1] o1 H1. minva Hrun as E2 o2 H2.
    apply ret_inv in Hrun. destruct Hrun as [Heq ->]. injection Heq as -> ->.
    rewrite sem_exec_for. pose proof (IHa en E fT _ _ _ Hrel H1) as IH1. revert IH1.
    destruct (Sem.eval (S f) P en arr) as [[va en1]|r1 m1|c1|]; intro IH1; cbn [Sem.obind]; try exact I.
    2:{ subst o1. exact (stkx_for_iterations _ _ _ (stk_pat _ fT) (stk_stmt _ fT) _ body _ _ _ E1 _ _ H2). }
    destruct IH1 as (-> & [HVa Hfa] & Hrel1). rewrite Eta in HVa, Hfa.
    pose proof HVa as HVa'. apply has_enc_inv in HVa' as (vs & -> & _ & _).
    destruct (has_enc_array_elems P el n vs aw HVa Hfa) as (elems & -> & Hf2 & _ & Hle & _).
    rewrite <- Hle in H2.
    pose proof (for_iter_agrees_pat f g p bs body el g1 tb Hp Hbody Htl (ty_fits_arr P el n Hfa) vs elems Hf2
                  en1 E1 fT _ _ Hrel1 H2) as IH2. revert IH2.
    destruct (sem_for (S f) p body vs en1) as [en2|r2 m2|c2|]; intro IH2; cbn [Sem.obind];
      try exact I; [|exact IH2].
    destruct IH2 as (-> & Hrel2). split; [reflexivity|]. split; [exact VRa_unit|exact Hrel2].
  Qed.
  (* ---------------------------------------------------------------- 8b. refutable patterns and
     match *)

  (* what every Ok run of a pattern does: the observation is untouched, the environment keeps
     its scopes below the current one *)
  Definition pfact (rp : pattern -> list bool -> @cenv bool -> MB (bool * @cenv bool)) : Prop :=
    forall p mw E o c E' o', rp p mw E o = Ok ((c, E'), o') -> o' = o /\ SKP E E'.

  Lemma SKP_refl E : SKP E E.
  Proof. split; reflexivity. Qed.

  Lemma fields_match_facts rp : pfact rp -> forall mw ps w im E o c E' o',
    fields_match tops rp mw ps w im E o = Ok ((c, E'), o') ->
    o' = o /\ SKP E E' /\ (im = false -> c = false).
  Proof.
    intros Hrp mw. induction ps as [|[fp fbits] r IH]; intros w im E o c E' o' H; cbn [fields_match] in H.
    - apply ret_inv in H. destruct H as [Heq ->]. injection Heq as -> ->. repeat split; auto using SKP_refl.
    - minva H as sub o1 H1. apply lift_res_inv in H1. destruct H1 as [_ ->].
      minva H as [fm E1] o1 H2. destruct (Hrp _ _ _ _ _ _ _ H2) as [-> Hk1]. mprim H.
      destruct (IH _ _ _ _ _ _ _ H) as (-> & Hk2 & Hf). split; [reflexivity|].
      split; [eapply SKP_trans; eassumption|]. intros ->. now apply Hf.
  Qed.

  Lemma struct_match_facts rp : pfact rp -> forall mw fields ds w im E o c E' o',
    struct_match tops P rp mw fields ds w im E o = Ok ((c, E'), o') ->
    o' = o /\ SKP E E' /\ (im = false -> c = false).
  Proof.
    intros Hrp mw fields. induction ds as [|[fname fty] r IH]; intros w im E o c E' o' H; cbn [struct_match] in H.
    - apply ret_inv in H. destruct H as [Heq ->]. injection Heq as -> ->. repeat split; auto using SKP_refl.
    - destruct (assocN fname (rev fields)) as [fp|].
      + minva H as sub o1 H1. apply lift_res_inv in H1. destruct H1 as [_ ->].
        minva H as [fm E1] o1 H2. destruct (Hrp _ _ _ _ _ _ _ H2) as [-> Hk1]. mprim H.
        destruct (IH _ _ _ _ _ _ _ H) as (-> & Hk2 & Hf). split; [reflexivity|].
        split; [eapply SKP_trans; eassumption|]. intros ->. now apply Hf.
      + exact (IH _ _ _ _ _ _ _ H).
  Qed.

  Lemma range_match_facts bits sg (mw lo hi : list bool) (E : @cenv bool) (o : pobs) c E' o' :
    mbind (o_comparator tops bits mw sg lo sg) (fun '(lt_min, _) =>
    mbind (o_comparator tops bits mw sg hi sg) (fun '(_, gt_max) =>
    mbind (m_not tops lt_min) (fun a =>
    mbind (m_not tops gt_max) (fun c0 =>
    mbind (m_and tops a c0) (fun r => ret (r, E)))))) o = Ok ((c, E'), o') -> o' = o /\ E' = E.
  Proof.
    intro H. minva H as [lt1 gt1] o1 H1. apply pure_comparator in H1. subst o1.
    minva H as [lt2 gt2] o2 H2. apply pure_comparator in H2. subst o2.
    mprim H. mprim H. mprim H. apply ret_inv in H. destruct H as [Heq ->]. injection Heq as _ ->. auto.
  Qed.

  Lemma eq_match_facts bits (mw lit : list bool) (E : @cenv bool) (o : pobs) c E' o' :
    (if (length mw <? bits)%nat then crash
     else mbind (eq_acc tops (wT tops) (combine lit (firstn bits mw))) (fun acc => ret (acc, E))) o
      = Ok ((c, E'), o') -> o' = o /\ E' = E.
  Proof.
    destruct (_ <? _)%nat; [discriminate|]. intro H. minva H as acc o1 H1. rewrite eq_acc_tops in H1.
    injection H1 as _ <-. apply ret_inv in H. destruct H as [Heq ->]. injection Heq as _ ->. auto.
  Qed.

  Lemma lower_pattern_body_facts rp : pfact rp -> pfact (lower_pattern_body tops P rp).
  Proof.
    intros Hrp [pi m t] mw E o c E' o' H. destruct pi; cbn [lower_pattern_body] in H.
    - minva H as E1 o1 H1. apply lift_res_inv in H1. destruct H1 as [H1 ->].
      apply ret_inv in H. destruct H as [Heq ->]. injection Heq as _ ->. split; [reflexivity|].
      exact (env_let_keys _ _ _ _ H1).
    - minva H as b o1 H1. apply one_wire_inv in H1. destruct H1 as [_ ->].
      apply ret_inv in H. destruct H as [Heq ->]. injection Heq as _ ->. auto using SKP_refl.
    - minva H as b o1 H1. apply one_wire_inv in H1. destruct H1 as [_ ->]. mprim H.
      apply ret_inv in H. destruct H as [Heq ->]. injection Heq as _ ->. auto using SKP_refl.
    - apply eq_match_facts in H. destruct H as [-> ->]. auto using SKP_refl.
    - apply eq_match_facts in H. destruct H as [-> ->]. auto using SKP_refl.
    - destruct (fields_match_facts rp Hrp _ _ _ _ _ _ _ _ _ H) as (-> & Hk & _). auto.
    - destruct (assocN name (p_structs P)); [|discriminate H].
      destruct (struct_match_facts rp Hrp _ _ _ _ _ _ _ _ _ _ H) as (-> & Hk & _). auto.
    - destruct (assocN ename (p_enums P)); [|discriminate H].
      minva H as tg o1 H1. apply lift_res_inv in H1. destruct H1 as [_ ->].
      minva H as acc o1 H2. rewrite eq_acc_tops in H2. injection H2 as _ <-.
      apply ret_inv in H. destruct H as [Heq ->]. injection Heq as _ ->. auto using SKP_refl.
    - destruct (assocN ename (p_enums P)); [|discriminate H].
      minva H as tg o1 H1. apply lift_res_inv in H1. destruct H1 as [_ ->].
      minva H as acc o1 H2. rewrite eq_acc_tops in H2. injection H2 as _ <-.
      destruct (nthN l variant); [|discriminate H].
      destruct (fields_match_facts rp Hrp _ _ _ _ _ _ _ _ _ H) as (-> & Hk & _). auto.
    - apply range_match_facts in H. destruct H as [-> ->]. auto using SKP_refl.
    - apply range_match_facts in H. destruct H as [-> ->]. auto using SKP_refl.
  Qed.

  Lemma lower_pattern_facts : forall fT, pfact (lower_pattern tops fT P).
  Proof.
    induction fT as [|fT IH]; [intros p mw E o c E' o' H; discriminate H|].
    intros p mw E o c E' o' H. rewrite lower_pattern_S in H. exact (lower_pattern_body_facts _ IH _ _ _ _ _ _ _ H).
  Qed.

  (* ---- typed patterns of every kind, with the names they bind *)
  Inductive gpat_ok : pattern -> ty -> list (N * ty) -> Prop :=
  | GP_id x m t : gpat_ok (Pat (PId x) m t) t [(x, t)]
  | GP_true m : gpat_ok (Pat PTrue m TBool) TBool []
  | GP_false m : gpat_ok (Pat PFalse m TBool) TBool []
  | GP_numU n m sg b : Sem.in_range sg b (Z.of_N n) = true ->
      gpat_ok (Pat (PNumU n) m (TInt sg b)) (TInt sg b) []
  | GP_numS z m sg b : Sem.in_range sg b z = true ->
      gpat_ok (Pat (PNumS z) m (TInt sg b)) (TInt sg b) []
  | GP_urange lo hi m sg b : Sem.in_range sg b (Z.of_N lo) = true -> Sem.in_range sg b (Z.of_N hi) = true ->
      gpat_ok (Pat (PURange lo hi) m (TInt sg b)) (TInt sg b) []
  | GP_srange lo hi m sg b : Sem.in_range sg b lo = true -> Sem.in_range sg b hi = true ->
      gpat_ok (Pat (PSRange lo hi) m (TInt sg b)) (TInt sg b) []
  | GP_tup ps m ts bs : gpats_ok ps ts bs -> gpat_ok (Pat (PTup ps) m (TTup ts)) (TTup ts) bs
  | GP_struct name ig fields m def bs : assocN name (p_structs P) = Some def ->
      NoDup (map fst def) -> gfields_ok fields def bs ->
      gpat_ok (Pat (PStruct name ig fields) m (TStruct name)) (TStruct name) bs
  | GP_enum_unit ename variant m variants ts : assocN ename (p_enums P) = Some variants ->
      nthN variants variant = Some ts ->
      gpat_ok (Pat (PEnumUnit ename variant) m (TEnum ename)) (TEnum ename) []
  | GP_enum_tup ename variant ps m variants ts bs : assocN ename (p_enums P) = Some variants ->
      nthN variants variant = Some ts -> gpats_ok ps ts bs ->
      gpat_ok (Pat (PEnumTup ename variant ps) m (TEnum ename)) (TEnum ename) bs
  with gpats_ok : list pattern -> list ty -> list (N * ty) -> Prop :=
  | GPs_nil : gpats_ok [] [] []
  | GPs_cons p t ps ts b bs : p_ty p = t -> gpat_ok p t b -> gpats_ok ps ts bs ->
      gpats_ok (p :: ps) (t :: ts) (b ++ bs)
  with gfields_ok : list (N * pattern) -> list (N * ty) -> list (N * ty) -> Prop :=
  | GF_nil : gfields_ok [] [] []
  | GF_take fn fp fr fty r b bs : gpat_ok fp fty b -> gfields_ok fr r bs ->
      gfields_ok ((fn, fp) :: fr) ((fn, fty) :: r) (b ++ bs)
  | GF_skip fs fn fty r bs : ~ In fn (map fst fs) -> gfields_ok fs r bs ->
      gfields_ok fs ((fn, fty) :: r) bs.

  Scheme gpat_ok_mut := Minimality for gpat_ok Sort Prop
    with gpats_ok_mut := Minimality for gpats_ok Sort Prop
    with gfields_ok_mut := Minimality for gfields_ok Sort Prop.
  Combined Scheme gpat_ok_mutind from gpat_ok_mut, gpats_ok_mut, gfields_ok_mut.

  Lemma gfields_ok_names fs ds bs : gfields_ok fs ds bs -> forall fn, In fn (map fst fs) -> In fn (map fst ds).
  Proof.
    induction 1 as [|fn' fp fr fty r b bs _ _ IH|fs fn' fty r bs _ _ IH]; intros fn Hin; cbn [map fst In] in *.
    - contradiction.
    - destruct Hin as [->|Hin]; [now left|right; now apply IH].
    - right. now apply IH.
  Qed.

  Lemma gfields_ok_nodup fs ds bs : gfields_ok fs ds bs -> NoDup (map fst ds) -> NoDup (map fst fs).
  Proof.
    induction 1 as [|fn fp fr fty r b bs _ Hfo IH|fs fn fty r bs _ _ IH]; intro Hnd; cbn [map fst] in *.
    - constructor.
    - inversion Hnd as [|y l Hn Hnd']; subst. constructor; [|now apply IH].
      intro Hin. apply Hn. exact (gfields_ok_names _ _ _ Hfo fn Hin).
    - inversion Hnd as [|y l Hn Hnd']; subst. now apply IH.
  Qed.

  Lemma gpats_zip_sizes ps ts bs : gpats_ok ps ts bs ->
    zip_sizes P ps ts = map (fun fp => (fp, szn P (p_ty fp))) ps.
  Proof.
    induction 1 as [|p t ps ts b bs Ept _ _ IH]; [reflexivity|]. cbn [zip_sizes map]. now rewrite IH, Ept.
  Qed.

  (* the agreement of a pattern: what the conclusion says *)
  Definition pat_concl (g : tenv) (bs : list (N * ty)) (en : Sem.env) (E' : @cenv bool) (c : bool)
      (r : option (list (N * Sem.value))) : Prop :=
    match r with
    | Some vbs => c = true /\ rel (Sem.bind_all en vbs) E' (tbind_all g bs false)
    | None => c = false
    end.

  Lemma int_pat_val sg b v mw : has_enc P (TInt sg b) v mw ->
    exists z, v = Sem.VInt z /\ length mw = szn P (TInt sg b) /\ int_val (is_signed (TInt sg b)) mw = z.
  Proof.
    intro H. apply has_enc_inv in H as (z & -> & Hr & ->). exists z. split; [reflexivity|].
    split; [apply length_enc|]. destruct sg; cbn [is_signed]; apply int_val_enc; now rewrite N2Nat.id.
  Qed.

  Lemma in_range_szn sg b z : Sem.in_range sg b z = true ->
    Sem.in_range (is_signed (TInt sg b)) (N.of_nat (szn P (TInt sg b))) z = true.
  Proof.
    intro H. change (szn P (TInt sg b)) with (N.to_nat b). rewrite N2Nat.id. now destruct sg.
  Qed.

  Hypothesis Hsmall : enums_small P = true.

  Lemma tag_eq_s variants a b ta tb : lenN variants <= 2 ^ 64 ->
    nthN variants a = Some ta -> nthN variants b = Some tb ->
    eq_s (enc (enum_tag_size variants) (Z.of_N a)) (enc (enum_tag_size variants) (Z.of_N b)) = (a =? b).
  Proof.
    intros Hsm Ha Hb. rewrite eq_s_uval by (now rewrite !length_enc). rewrite !uval_enc.
    rewrite !Z.mod_small by (eapply enum_tag_small; eassumption).
    destruct (Z.eqb_spec (Z.of_N a) (Z.of_N b)); destruct (N.eqb_spec a b); try reflexivity; lia.
  Qed.

  Lemma pmatch_enum_unit ename variant m t tag vs :
    Sem.pmatch P (Pat (PEnumUnit ename variant) m t) (Sem.VEnum tag vs) = if tag =? variant then Some [] else None.
  Proof. reflexivity. Qed.

  Lemma pmatch_enum_tup ename variant ps m t tag vs :
    Sem.pmatch P (Pat (PEnumTup ename variant ps) m t) (Sem.VEnum tag vs) =
    if tag =? variant then sem_match_list ps vs else None.
  Proof. reflexivity. Qed.

  (* the tag test shared by the two enum patterns *)
  Lemma enum_tag_test ename variants variant ts tag vs mw (o : pobs) :
    has_enc P (TEnum ename) (Sem.VEnum tag vs) mw -> ty_fits P (TEnum ename) ->
    assocN ename (p_enums P) = Some variants -> nthN variants variant = Some ts ->
    exists tgw, slice mw 0 (enum_tag_size variants) = Ok tgw /\
      eq_acc tops (wT tops) (combine (unsigned_as_wires tops variant (enum_tag_size variants)) tgw) o
        = Ok ((tag =? variant), o).
  Proof.
    intros HV Hfit Hd Hv.
    destruct (has_enc_enum_inv P ename variants tag vs mw HV Hfit Hd) as (ts' & Ht' & Hsl & _).
    eexists. split; [exact Hsl|]. rewrite !TSemControl.tsem_unsigned_as_wires. change (wT tops) with true.
    rewrite eq_acc_eq_s by (now rewrite !length_enc).
    rewrite (tag_eq_s variants variant tag ts ts' (enums_small_variants P ename variants Hsmall Hd) Hv Ht').
    now rewrite N.eqb_sym.
  Qed.

  Lemma gpat_agrees_mut :
    (forall p t bs, gpat_ok p t bs ->
       forall v mw en E g fT c E' (o : pobs) o', has_enc P t v mw -> ty_fits P t -> rel en E g ->
       lower_pattern tops fT P p mw E o = Ok ((c, E'), o') ->
       pat_concl g bs en E' c (Sem.pmatch P p v)) /\
    (forall ps ts bs, gpats_ok ps ts bs ->
       forall vs mw off en E g fT im c E' (o : pobs) o', enc_at P ts vs mw off -> Forall (ty_fits P) ts ->
       rel en E g ->
       fields_match tops (lower_pattern tops fT P) mw (map (fun fp => (fp, szn P (p_ty fp))) ps) off im E o
         = Ok ((c, E'), o') ->
       match sem_match_list ps vs with
       | Some vbs => c = im /\ rel (Sem.bind_all en vbs) E' (tbind_all g bs false)
       | None => c = false
       end) /\
    (forall fs ds bs, gfields_ok fs ds bs ->
       forall def vs mw fields_all j consumed en E g fT im c E' (o : pobs) o',
       has_encs P (map snd def) vs mw -> Forall (ty_fits P) (map snd def) -> NoDup (map fst def) ->
       NoDup (map fst fields_all) ->
       ds = skipn j def -> fields_all = consumed ++ fs ->
       (forall fn, In fn (map fst consumed) -> In fn (firstn j (map fst def))) ->
       rel en E g ->
       struct_match tops P (lower_pattern tops fT P) mw fields_all ds
         (sum_szn P (firstn j (map snd def))) im E o = Ok ((c, E'), o') ->
       match sem_match_fields def vs fs with
       | Some vbs => c = im /\ rel (Sem.bind_all en vbs) E' (tbind_all g bs false)
       | None => c = false
       end).
  Proof.
    apply gpat_ok_mutind.
    - (* identifier *)
      intros x m t v mw en E g fT c E' o o' HV Hfit Hrel Hrun.
      destruct fT as [|fT]; [discriminate Hrun|]. rewrite lower_pattern_S in Hrun. cbn [lower_pattern_body] in Hrun.
      minva Hrun as E1 o1 Hl. apply lift_res_inv in Hl. destruct Hl as [Hl ->].
      apply ret_inv in Hrun. destruct Hrun as [Heq ->]. injection Heq as -> ->.
      rewrite pmatch_id. split; [reflexivity|].
      exact (rel_let VRa _ _ _ x t false v mw _ Hrel (conj HV Hfit) Hl).
    - (* true *)
      intros m v mw en E g fT c E' o o' HV _ Hrel Hrun. apply has_enc_inv in HV as (b & -> & ->).
      destruct fT as [|fT]; [discriminate Hrun|]. rewrite lower_pattern_S, tsem_pat_true in Hrun.
      injection Hrun as <- <- _. destruct b; unfold pmatches; cbn [Sem.pmatch pat_concl]; auto.
    - (* false *)
      intros m v mw en E g fT c E' o o' HV _ Hrel Hrun. apply has_enc_inv in HV as (b & -> & ->).
      destruct fT as [|fT]; [discriminate Hrun|]. rewrite lower_pattern_S, tsem_pat_false in Hrun.
      injection Hrun as <- <- _. destruct b; unfold pmatches; cbn [Sem.pmatch pat_concl]; auto.
    - (* unsigned literal *)
      intros n m sg b Hr v mw en E g fT c E' o o' HV _ Hrel Hrun.
      destruct (int_pat_val sg b v mw HV) as (z & -> & Hl & Hz).
      destruct fT as [|fT]; [discriminate Hrun|].
      rewrite lower_pattern_S, (tsem_pat_numU P _ n m _ mw E o Hl (in_range_szn sg b _ Hr)), Hz in Hrun.
      injection Hrun as <- <- _. cbn [Sem.pmatch]. destruct (z =? Z.of_N n)%Z; cbn [pat_concl]; auto.
    - (* signed literal *)
      intros z0 m sg b Hr v mw en E g fT c E' o o' HV _ Hrel Hrun.
      destruct (int_pat_val sg b v mw HV) as (z & -> & Hl & Hz).
      destruct fT as [|fT]; [discriminate Hrun|].
      rewrite lower_pattern_S, (tsem_pat_numS P _ z0 m _ mw E o Hl (in_range_szn sg b _ Hr)), Hz in Hrun.
      injection Hrun as <- <- _. cbn [Sem.pmatch]. destruct (z =? z0)%Z; cbn [pat_concl]; auto.
    - (* unsigned range *)
      intros lo hi m sg b Hlo Hhi v mw en E g fT c E' o o' HV _ Hrel Hrun.
      destruct (int_pat_val sg b v mw HV) as (z & -> & Hl & Hz).
      destruct fT as [|fT]; [discriminate Hrun|].
      rewrite lower_pattern_S, (tsem_pat_urange P _ lo hi m _ mw E o Hl (in_range_szn sg b _ Hlo) (in_range_szn sg b _ Hhi)), Hz in Hrun.
      injection Hrun as <- <- _. cbn [Sem.pmatch].
      destruct ((Z.of_N lo <=? z)%Z && (z <=? Z.of_N hi)%Z); cbn [pat_concl]; auto.
    - (* signed range *)
      intros lo hi m sg b Hlo Hhi v mw en E g fT c E' o o' HV _ Hrel Hrun.
      destruct (int_pat_val sg b v mw HV) as (z & -> & Hl & Hz).
      destruct fT as [|fT]; [discriminate Hrun|].
      rewrite lower_pattern_S, (tsem_pat_srange P _ lo hi m _ mw E o Hl (in_range_szn sg b _ Hlo) (in_range_szn sg b _ Hhi)), Hz in Hrun.
      injection Hrun as <- <- _. cbn [Sem.pmatch].
      destruct ((lo <=? z)%Z && (z <=? hi)%Z); cbn [pat_concl]; auto.
    - (* tuple *)
      intros ps m ts bs _ IH v mw en E g fT c E' o o' HV Hfit Hrel Hrun.
      destruct fT as [|fT]; [discriminate Hrun|]. rewrite lower_pattern_S in Hrun. cbn [lower_pattern_body] in Hrun.
      pose proof HV as HV'. apply has_enc_inv in HV' as (vs & -> & _).
      rewrite pmatch_tup. unfold pat_concl.
      exact (IH vs mw O en E g fT true c E' o o' (has_enc_tuple_fields P ts vs mw HV Hfit)
               (ty_fits_tup P ts Hfit) Hrel Hrun).
    - (* struct *)
      intros name ig fields m def bs Hd Hnd Hfo IH v mw en E g fT c E' o o' HV Hfit Hrel Hrun.
      destruct fT as [|fT]; [discriminate Hrun|]. rewrite lower_pattern_S in Hrun. cbn [lower_pattern_body] in Hrun.
      rewrite Hd in Hrun.
      pose proof HV as HV'. apply has_enc_inv in HV' as (def' & vs & -> & Hd' & Hs).
      assert (def' = def) as -> by congruence.
      pose proof (gfields_ok_nodup _ _ _ Hfo Hnd) as Hndf.
      rewrite pmatch_struct, Hd. unfold pat_concl.
      exact (IH def vs mw fields O [] en E g fT true c E' o o' Hs (ty_fits_struct_def P name def Hfit Hd) Hnd Hndf
               eq_refl eq_refl (fun fn Hin => match Hin with end) Hrel Hrun).
    - (* enum, unit variant *)
      intros ename variant m variants ts Hd Hv v mw en E g fT c E' o o' HV Hfit Hrel Hrun.
      pose proof HV as HV'. apply has_enc_inv in HV' as (vr' & tag & ts' & vs & pw & -> & _).
      destruct fT as [|fT]; [discriminate Hrun|]. rewrite lower_pattern_S in Hrun. cbn [lower_pattern_body] in Hrun.
      rewrite Hd in Hrun.
      destruct (enum_tag_test ename variants variant ts tag vs mw o HV Hfit Hd Hv) as (tgw & Hsl & Heq).
      minva Hrun as tg o1 H1. apply lift_res_inv in H1. destruct H1 as [H1 ->].
      assert (tg = tgw) as -> by congruence.
      minva Hrun as acc o1 H2. rewrite Heq in H2. injection H2 as <- <-.
      apply ret_inv in Hrun. destruct Hrun as [Heq' ->]. injection Heq' as -> ->.
      rewrite pmatch_enum_unit. destruct (tag =? variant); cbn [pat_concl]; auto.
    - (* enum, tuple variant *)
      intros ename variant ps m variants ts bs Hd Hv Hps IH v mw en E g fT c E' o o' HV Hfit Hrel Hrun.
      pose proof HV as HV'. apply has_enc_inv in HV' as (vr' & tag & ts' & vs & pw & -> & _).
      destruct fT as [|fT]; [discriminate Hrun|]. rewrite lower_pattern_S in Hrun. cbn [lower_pattern_body] in Hrun.
      rewrite Hd in Hrun.
      destruct (enum_tag_test ename variants variant ts tag vs mw o HV Hfit Hd Hv) as (tgw & Hsl & Heq).
      minva Hrun as tg o1 H1. apply lift_res_inv in H1. destruct H1 as [H1 ->].
      assert (tg = tgw) as -> by congruence.
      minva Hrun as acc o1 H2. rewrite Heq in H2. injection H2 as <- <-.
      rewrite Hv, (gpats_zip_sizes ps ts bs Hps) in Hrun.
      rewrite pmatch_enum_tup. destruct (N.eqb_spec tag variant) as [->|Hne].
      + destruct (has_enc_enum_inv P ename variants variant vs mw HV Hfit Hd) as (ts2 & Ht2 & _ & Hat & _).
        assert (ts2 = ts) as -> by congruence. unfold pat_concl.
        exact (IH vs mw _ en E g fT true c E' o o' Hat (ty_fits_enum_variant P ename variants variant ts Hfit Hd Hv)
                 Hrel Hrun).
      + destruct (fields_match_facts _ (lower_pattern_facts fT) _ _ _ _ _ _ _ _ _ Hrun) as (_ & _ & Hf).
        cbn [pat_concl]. now apply Hf.
    - (* no sub-patterns *)
      intros vs mw off en E g fT im c E' o o' Hat _ Hrel Hrun. cbn [map fields_match] in Hrun.
      apply ret_inv in Hrun. destruct Hrun as [Heq ->]. injection Heq as -> ->.
      destruct vs; [|contradiction Hat]. cbn [sem_match_list]. auto.
    - (* a sub-pattern *)
      intros p t ps ts b bs Ept _ IH1 _ IH2 vs mw off en E g fT im c E' o o' Hat Hfits Hrel Hrun.
      destruct vs as [|v vs]; [contradiction Hat|]. cbn [enc_at] in Hat. destruct Hat as [(wi & Hsl & Hv) Hat].
      inversion Hfits as [|t' ts' Hft Hfts]. subst t' ts'.
      cbn [map fields_match] in Hrun. rewrite Ept in Hrun.
      minva Hrun as sub o1 H1. apply lift_res_inv in H1. destruct H1 as [H1 ->].
      assert (sub = wi) as -> by congruence.
      minva Hrun as [fm E1] o1 H2.
      destruct (lower_pattern_facts fT _ _ _ _ _ _ _ H2) as [-> _].
      pose proof (IH1 v wi en E g fT fm E1 o o Hv Hft Hrel H2) as C1.
      mprim Hrun. cbn [sem_match_list].
      destruct (Sem.pmatch P p v) as [vb|]; cbn [pat_concl] in C1.
      + destruct C1 as [-> Hr1]. rewrite andb_true_r in Hrun.
        pose proof (IH2 vs mw _ _ E1 _ fT im c E' o o' Hat Hfts Hr1 Hrun) as C2.
        destruct (sem_match_list ps vs) as [vbs|]; [|exact C2].
        destruct C2 as [-> Hr2]. rewrite sem_bind_all_app, tbind_all_app. auto.
      + subst fm. rewrite andb_false_r in Hrun.
        destruct (fields_match_facts _ (lower_pattern_facts fT) _ _ _ _ _ _ _ _ _ Hrun) as (_ & _ & Hf).
        now apply Hf.
    - (* struct: the definition is exhausted *)
      intros def vs mw fields_all j consumed en E g fT im c E' o o' _ _ _ _ _ _ _ Hrel Hrun.
      cbn [struct_match] in Hrun. apply ret_inv in Hrun. destruct Hrun as [Heq ->]. injection Heq as -> ->.
      cbn [sem_match_fields]. auto.
    - (* struct: a named field *)
      intros fn fp fr fty r b bs _ IH1 _ IH2 def vs mw fields_all j consumed en E g fT im c E' o o'
        Hs Hfits Hnd Hndf Hds Hall Hcons Hrel Hrun.
      symmetry in Hds. apply skipn_cons_nth in Hds. destruct Hds as [Hj Hr].
      assert (Hjn : nth_error (map fst def) j = Some fn) by (rewrite nth_error_map, Hj; reflexivity).
      assert (Hjt : nth_error (map snd def) j = Some fty) by (rewrite nth_error_map, Hj; reflexivity).
      pose proof (NoDup_nth_notin_firstn _ j fn Hnd Hjn) as Hnotin.
      cbn [struct_match] in Hrun.
      assert (Hlook : assocN fn (rev fields_all) = Some fp).
      { rewrite assocN_rev_nodup by exact Hndf. rewrite Hall, assocN_app.
        rewrite assocN_none_notin by (intro Hin; apply Hnotin, Hcons, Hin).
        cbn [assocN]. now rewrite N.eqb_refl. }
      rewrite Hlook in Hrun.
      pose proof (has_encs_length P _ vs mw Hs) as Hlen.
      destruct (nth_error_same_length _ vs _ fty Hlen Hjt) as (vj & Hvj).
      destruct (has_encs_proj P j _ vs mw fty vj Hs Hfits Hjt Hvj) as (wj & Hsl & Hej).
      minva Hrun as sub o1 H1. apply lift_res_inv in H1. destruct H1 as [H1 ->].
      assert (sub = wj) as -> by congruence.
      minva Hrun as [fm E1] o1 H2.
      destruct (lower_pattern_facts fT _ _ _ _ _ _ _ H2) as [-> _].
      pose proof (IH1 vj wj en E g fT fm E1 o o Hej (Forall_nth_error _ _ _ _ Hfits Hjt) Hrel H2) as C1.
      mprim Hrun.
      assert (Hsum : (sum_szn P (firstn j (map snd def)) + szn P fty)%nat = sum_szn P (firstn (S j) (map snd def))).
      { rewrite (firstn_S_nth _ j fty Hjt), sum_szn_app. unfold sum_szn at 3. cbn [map list_sum fold_right]. lia. }
      rewrite Hsum in Hrun. cbn [sem_match_fields].
      rewrite (index_of_nth _ j fn 0 Hnd Hjn), N.add_0_l, nthN_spec, Nat2N.id, Hvj.
      destruct (Sem.pmatch P fp vj) as [vb|]; cbn [pat_concl] in C1.
      + destruct C1 as [-> Hr1]. rewrite andb_true_r in Hrun.
        assert (C2 := IH2 def vs mw fields_all (S j) (consumed ++ [(fn, fp)]) (Sem.bind_all en vb) E1 (tbind_all g b false)
                  fT im c E' o o' Hs Hfits Hnd Hndf (eq_sym Hr)).
        fold (sem_match_fields def vs fr). 
        assert (C2' : match sem_match_fields def vs fr with
                      | Some vbs => c = im /\ rel (Sem.bind_all (Sem.bind_all en vb) vbs) E' (tbind_all (tbind_all g b false) bs false)
                      | None => c = false end).
        { apply C2; try assumption.
          - now rewrite Hall, <- app_assoc.
          - intros fn' Hin. rewrite map_app, in_app_iff in Hin. rewrite (firstn_S_nth _ j fn Hjn), in_app_iff.
            destruct Hin as [Hin|[<-|[]]]; [left; now apply Hcons|right; now left]. }
        destruct (sem_match_fields def vs fr) as [vbs|]; [|exact C2'].
        destruct C2' as [-> Hr2]. rewrite sem_bind_all_app, tbind_all_app. auto.
      + subst fm. rewrite andb_false_r in Hrun.
        destruct (struct_match_facts _ (lower_pattern_facts fT) _ _ _ _ _ _ _ _ _ _ Hrun) as (_ & _ & Hf).
        now apply Hf.
    - (* struct: a field the pattern does not name *)
      intros fs fn fty r bs Hnotfs _ IH def vs mw fields_all j consumed en E g fT im c E' o o'
        Hs Hfits Hnd Hndf Hds Hall Hcons Hrel Hrun.
      symmetry in Hds. apply skipn_cons_nth in Hds. destruct Hds as [Hj Hr].
      assert (Hjn : nth_error (map fst def) j = Some fn) by (rewrite nth_error_map, Hj; reflexivity).
      assert (Hjt : nth_error (map snd def) j = Some fty) by (rewrite nth_error_map, Hj; reflexivity).
      pose proof (NoDup_nth_notin_firstn _ j fn Hnd Hjn) as Hnotin.
      cbn [struct_match] in Hrun.
      assert (Hlook : assocN fn (rev fields_all) = None).
      { rewrite assocN_rev_nodup by exact Hndf. apply assocN_none_notin. rewrite Hall, map_app, in_app_iff.
        intros [Hin|Hin]; [apply Hnotin, Hcons, Hin|exact (Hnotfs Hin)]. }
      rewrite Hlook in Hrun.
      assert (Hsum : (sum_szn P (firstn j (map snd def)) + szn P fty)%nat = sum_szn P (firstn (S j) (map snd def))).
      { rewrite (firstn_S_nth _ j fty Hjt), sum_szn_app. unfold sum_szn at 3. cbn [map list_sum fold_right]. lia. }
      rewrite Hsum in Hrun.
      apply (IH def vs mw fields_all (S j) consumed en E g fT im c E' o o' Hs Hfits Hnd Hndf (eq_sym Hr) Hall);
        try assumption.
      intros fn' Hin. rewrite (firstn_S_nth _ j fn Hjn), in_app_iff. left. now apply Hcons.
  Qed.

  Lemma gpat_agrees p t bs : gpat_ok p t bs ->
    forall v mw en E g fT c E' (o : pobs) o', has_enc P t v mw -> ty_fits P t -> rel en E g ->
    lower_pattern tops fT P p mw E o = Ok ((c, E'), o') ->
    o' = o /\ SKP E E' /\ pat_concl g bs en E' c (Sem.pmatch P p v).
  Proof.
    intros Hp v mw en E g fT c E' o o' HV Hfit Hrel Hrun.
    destruct (lower_pattern_facts fT _ _ _ _ _ _ _ Hrun) as [-> Hk]. split; [reflexivity|]. split; [exact Hk|].
    exact (proj1 gpat_agrees_mut p t bs Hp v mw en E g fT c E' o o HV Hfit Hrel Hrun).
  Qed.
  (* ---- match: Sem.v evaluates the body of the first arm whose pattern matches; Lower.v
     evaluates every arm from the observation saved after the scrutinee and selects *)

  Definition sem_arms (f : nat) (v : Sem.value) (en : Sem.env)
    : list (pattern * expr) -> Sem.outcome (Sem.value * Sem.env) :=
    fix go (arms : list (pattern * expr)) : Sem.outcome (Sem.value * Sem.env) :=
      match arms with
      | [] => Sem.Stuck 41
      | (p, body) :: r =>
          match Sem.pmatch P p v with
          | Some bs =>
              Sem.obind (Sem.eval f P (Sem.bind_all (Sem.push_scope en) bs) body)
                (fun '(res, en1) => Sem.Done (res, Sem.pop_scope en1))
          | None => go r
          end
      end.

  Lemma sem_eval_match f en scrut arms m t :
    Sem.eval (S f) P en (Ex (EMatch scrut arms) m t) =
    Sem.obind (Sem.eval f P en scrut) (fun '(v, en1) => sem_arms f v en1 arms).
  Proof. reflexivity. Qed.

  (* an arm: the pattern is typed at the type of the scrutinee, the body agrees in the context
     extended by the bindings (in a scope of their own), keeps the keys of every scope and has
     the type of the match *)
  Definition arm_ok (f : nat) (g : tenv) (tscrut t : ty) (arm : pattern * expr) : Prop :=
    exists bs, gpat_ok (fst arm) tscrut bs /\ AgE' f (tbind_all ([] :: g) bs false) (snd arm) /\
               KP P (snd arm) /\ e_ty (snd arm) = t.

  Lemma env_pop_keys (E E' : @cenv bool) : env_pop E = Ok E' -> keys E' = tl (keys E).
  Proof. destruct E; cbn [env_pop]; [discriminate|]. now intros [= <-]. Qed.

  Lemma arms_agree f g tscrut t v sw en E0 :
    has_enc P tscrut v sw -> ty_fits P tscrut -> rel en E0 g ->
    forall arms, Forall (arm_ok f g tscrut t) arms ->
    forall fT hp mret mpanic menv (o : pobs) mret' mpanic' menv' hp' o',
    length mret = szn P t -> keys menv = keys E0 ->
    lower_arms tops (lower_expr tops fT P) (lower_pattern tops fT P) (szn P t) sw E0 None arms
      hp mret mpanic menv o = Ok ((mret', mpanic', menv', hp'), o') ->
    if hp then mret' = mret /\ mpanic' = mpanic /\ menv' = menv
    else match sem_arms f v en arms with
         | Sem.Done (res, en') => mpanic' = None /\ VRa t res mret' /\ rel en' menv' g
         | Sem.Panicked r m => mpanic' = Some (pcode r m)
         | _ => True
         end.
  Proof.
    intros HV Hfit Hrel. pose proof (rel_wf VRa _ _ _ Hrel) as Hwf0.
    induction 1 as [|[pat body] arms (bs & Hpat & Hbody & Hkp & Ety) _ IH];
      intros fT hp mret mpanic menv o mret' mpanic' menv' hp' o' Hlm Hkm Hrun.
    - cbn [lower_arms] in Hrun. apply ret_inv in Hrun. destruct Hrun as [Heq _]. injection Heq as -> -> -> _.
      destruct hp; [auto|exact I].
    - cbn [fst snd] in *. cbn [lower_arms] in Hrun. mprim Hrun.
      minva Hrun as [is_match E1] o1 Hp.
      destruct (gpat_agrees pat tscrut bs Hpat v sw _ _ _ fT _ _ _ _ HV Hfit (rel_push VRa _ _ _ Hrel) Hp)
        as (-> & [Hk1 _] & Hc).
      minva Hrun as [rw E2] o2 He. pose proof (Hkp _ _ _ _ _ _ He) as Hk2.
      mprim Hrun. mprim Hrun.
      minva Hrun as E3 o3 H3. apply lift_res_inv in H3. destruct H3 as [Hpop ->].
      assert (Hk3 : keys E3 = keys E0).
      { rewrite (env_pop_keys _ _ Hpop), Hk2, Hk1. reflexivity. }
      mprim Hrun. mprim Hrun.
      minva Hrun as menv1 o4 H4.
      apply mux_envs_inv in H4; [|congruence|exact (wf_env_keys E0 menv Hkm Hwf0)]. destruct H4 as [-> ->].
      minva Hrun as mret1 o5 H5.
      destruct (Nat.ltb_spec (length rw) (szn P t)) as [Hlt|Hge]; [discriminate H5|].
      assert (Hlf : length (firstn (szn P t) rw) = length mret) by (rewrite firstn_length, Hlm; lia).
      change (fun x0 x1 : bool => m_mux tops (negb hp && is_match) x0 x1) with (m_mux tops (negb hp && is_match)) in H5.
      rewrite (tsem_map2_mux _ _ _ Hlf) in H5. injection H5 as <- <-.
      mprim Hrun.
      assert (Hlm1 : length (if negb hp && is_match then firstn (szn P t) rw else mret) = szn P t).
      { destruct (negb hp && is_match); [now rewrite Hlf|exact Hlm]. }
      assert (Hkm1 : keys (if negb hp && is_match then E3 else menv) = keys E0).
      { destruct (negb hp && is_match); assumption. }
      pose proof (IH fT _ _ _ _ _ _ _ _ _ _ Hlm1 Hkm1 Hrun) as IH1.
      destruct hp; cbn [negb andb orb] in IH1.
      + exact IH1.
      + change (sem_arms f v en ((pat, body) :: arms)) with
          (match Sem.pmatch P pat v with
           | Some bs0 =>
               Sem.obind (Sem.eval f P (Sem.bind_all (Sem.push_scope en) bs0) body)
                 (fun '(res, en1) => Sem.Done (res, Sem.pop_scope en1))
           | None => sem_arms f v en arms
           end).
        destruct (Sem.pmatch P pat v) as [vbs|]; cbn [pat_concl] in Hc.
        * destruct Hc as [-> Hrel1]. cbn [orb] in IH1. destruct IH1 as (-> & -> & ->).
          pose proof (Hbody _ _ fT _ _ _ Hrel1 He) as IH2. revert IH2.
          destruct (Sem.eval f P (Sem.bind_all (Sem.push_scope en) vbs) body) as [[res en1]|r1 m1|c1|];
            intro IH2; cbn [Sem.obind]; try exact I; [|exact IH2].
          destruct IH2 as (-> & [HVr Hfr] & Hrel2). rewrite Ety in HVr, Hfr.
          split; [reflexivity|]. split.
          -- split; [|exact Hfr]. rewrite firstn_all2; [exact HVr|].
             rewrite (has_enc_length P t res rw HVr Hfr). lia.
          -- rewrite <- (tl_tbind_all bs [] g false). eapply rel_pop; eassumption.
        * subst is_match. cbn [orb] in IH1. exact IH1.
  Qed.

  (* side conditions: the arms are [arm_ok] at the type of the scrutinee; exhaustiveness is
     not needed (when no arm matches Sem.v is stuck) *)
  Lemma match_node f g scrut arms m t :
    AgE' f g scrut -> Forall (arm_ok f g (e_ty scrut) t) arms ->
    AgE' (S f) g (Ex (EMatch scrut arms) m t).
  Proof.
    intros IHs Harms en E fT w E' o' Hrel Hrun.
    destruct fT as [|fT]; [discriminate Hrun|]. rewrite lower_expr_S in Hrun. cbn [lower_expr_body] in Hrun.
    minva Hrun as [sw E0] o1 Hs. mprim Hrun.
    minva Hrun as [[[ret_w mp] me] hp'] o2 Ha. mprim Hrun.
    apply ret_inv in Hrun. destruct Hrun as [Heq ->]. injection Heq as -> ->.
    rewrite sem_eval_match. pose proof (IHs en E fT _ _ _ Hrel Hs) as IH1. revert IH1.
    destruct (Sem.eval f P en scrut) as [[v en1]|r1 m1|c1|]; intro IH1; cbn [Sem.obind]; try exact I.
    - destruct IH1 as (-> & [HV Hfit] & Hrel1).
      pose proof (arms_agree f g (e_ty scrut) t v sw en1 E0 HV Hfit Hrel1 arms Harms fT false _ _ _ _ _ _ _ _ _
                    (repeat_length _ _) eq_refl Ha) as IH2. cbv iota in IH2. revert IH2.
      destruct (sem_arms f v en1 arms) as [[res en2]|r2 m2|c2|]; intro IH2; try exact I; [|exact IH2].
      cbn [e_ty]. exact IH2.
    - subst o1.
      destruct (stkxQ_lower_arms _ _ _ (stk_expr _ fT) (stk_pat _ fT) _ _ _ _ _ _ _ _ _ Ha) as [_ Hq].
      exact Hq.
  Qed.
End Agg.

(* ------------------------------------------------------------------ KEYS, whole language

   Every Ok run of the lowering on Booleans, from any observation, for ANY program (no typing
   hypothesis): expressions and blocks give back an environment with the same keys in every
   scope ([KP]), statements and patterns only add keys to the current scope ([SKP]).  This
   discharges the [KP] hypotheses of [if_node], [logic_node] (TSemSemStmt.v) and [arm_ok]. *)

Section KeysAll.
  Variable P : program.
  Variable re : expr -> @cenv bool -> MB (list bool * @cenv bool).
  Variable rp : pattern -> list bool -> @cenv bool -> MB (bool * @cenv bool).
  Variable rs : stmt -> @cenv bool -> MB (list bool * @cenv bool).
  Variable rb : list stmt -> @cenv bool -> MB (list bool * @cenv bool).
  Hypothesis Ke : forall e E o w E' o', re e E o = Ok ((w, E'), o') -> keys E' = keys E.
  Hypothesis Kp : forall p mw E o c E' o', rp p mw E o = Ok ((c, E'), o') -> SKP E E'.
  Hypothesis Ks : forall s E o w E' o', rs s E o = Ok ((w, E'), o') -> SKP E E'.
  Hypothesis Kb : forall b E o w E' o', rb b E o = Ok ((w, E'), o') -> keys E' = keys E.

  Lemma keys_push_pop (E E1 E2 : @cenv bool) : SKP (env_push E) E1 -> env_pop E1 = Ok E2 -> keys E2 = keys E.
  Proof.
    intros [Hk _] Hp. destruct E1; cbn [env_pop] in Hp; [discriminate|]. injection Hp as <-. exact Hk.
  Qed.

  Lemma keys_lower_list : forall es E o ws E' o', lower_list re es E o = Ok ((ws, E'), o') -> keys E' = keys E.
  Proof.
    induction es as [|e r IH]; intros E o ws E' o' H; cbn [lower_list] in H.
    - apply ret_inv in H. destruct H as [Heq _]. now injection Heq as _ ->.
    - minva H as [w1 E1] o1 H1. minva H as [ws1 E2] o2 H2. apply ret_inv in H. destruct H as [Heq _].
      injection Heq as _ ->. rewrite (IH _ _ _ _ _ H2). exact (Ke _ _ _ _ _ _ H1).
  Qed.

  Lemma keys_lower_struct_fields fields : forall ds E o ws E' o',
    lower_struct_fields re fields ds E o = Ok ((ws, E'), o') -> keys E' = keys E.
  Proof.
    induction ds as [|[fname fty] r IH]; intros E o ws E' o' H; cbn [lower_struct_fields] in H.
    - apply ret_inv in H. destruct H as [Heq _]. now injection Heq as _ ->.
    - destruct (assocN fname (rev fields)); [|discriminate H].
      minva H as [w1 E1] o1 H1. minva H as [ws1 E2] o2 H2. apply ret_inv in H. destruct H as [Heq _].
      injection Heq as _ ->. rewrite (IH _ _ _ _ _ H2). exact (Ke _ _ _ _ _ _ H1).
  Qed.

  Lemma keys_lower_args : forall ps args E o bs E' o',
    lower_args re ps args E o = Ok ((bs, E'), o') -> keys E' = keys E.
  Proof.
    induction ps as [|[pn pt] pr IH]; intros [|a ar] E o bs E' o' H; cbn [lower_args] in H;
      try (apply ret_inv in H; destruct H as [Heq _]; now injection Heq as _ ->).
    minva H as [w Ea] o1 H1. minva H as Eb o2 H2. apply lift_res_inv in H2. destruct H2 as [H2 _].
    minva H as [bs1 Ec] o3 H3. apply ret_inv in H. destruct H as [Heq _]. injection Heq as _ ->.
    rewrite (IH _ _ _ _ _ _ H3). eapply keys_push_pop; [|exact H2]. apply SKP_of_keys. exact (Ke _ _ _ _ _ _ H1).
  Qed.

  Lemma skp_lower_stmts : forall ss E o E' o', lower_stmts rs ss E o = Ok (E', o') -> SKP E E'.
  Proof.
    induction ss as [|s r IH]; intros E o E' o' H; cbn [lower_stmts] in H.
    - apply ret_inv in H. destruct H as [-> _]. split; reflexivity.
    - minva H as [w1 E1] o1 H1. eapply SKP_trans; [exact (Ks _ _ _ _ _ _ H1)|exact (IH _ _ _ _ H)].
  Qed.

  Lemma skp_bind_all : forall (bs : list (N * list bool)) (E E' : @cenv bool),
    bind_all E bs = Ok E' -> SKP E E'.
  Proof.
    unfold bind_all. intros bs. 
    assert (G : forall (r : res (@cenv bool)) E', fold_left (fun Er b => let* E0 := Er in env_let E0 (fst b) (snd b)) bs r = Ok E' ->
                exists E0, r = Ok E0 /\ SKP E0 E').
    { induction bs as [|b bs IH]; intros r E' H; cbn [fold_left] in H.
      - exists E'. split; [exact H|split; reflexivity].
      - destruct (IH _ _ H) as (E1 & H1 & Hk). destruct r as [E0| |]; cbn [bind] in H1; try discriminate H1.
        exists E0. split; [reflexivity|]. eapply SKP_trans; [exact (env_let_keys _ _ _ _ H1)|exact Hk]. }
    intros E E' H. destruct (G _ _ H) as (E0 & [= <-] & Hk). exact Hk.
  Qed.

  Lemma keys_for_iterations pat body eb : forall n aw E o E' o',
    for_iterations rp rs pat body eb n aw E o = Ok (E', o') -> keys E' = keys E.
  Proof.
    induction n as [|k IH]; intros aw E o E' o' H; cbn [for_iterations] in H.
    - apply ret_inv in H. now destruct H as [-> _].
    - minva H as binding o1 H1. minva H as [c Ea] o2 H2. minva H as Eb o3 H3.
      minva H as Ec o4 H4. apply lift_res_inv in H4. destruct H4 as [H4 _].
      rewrite (IH _ _ _ _ _ H). eapply keys_push_pop; [|exact H4].
      eapply SKP_trans; [exact (Kp _ _ _ _ _ _ _ H2)|exact (skp_lower_stmts _ _ _ _ _ H3)].
  Qed.

  Lemma keys_join_loop_windows pat body eba ebb jts : forall ws E o E' o',
    join_loop_windows tops rp rs pat body eba ebb jts ws E o = Ok (E', o') -> keys E' = keys E.
  Proof.
    induction ws as [|w0_ r IH]; intros E o E' o' H; cbn [join_loop_windows] in H.
    - apply ret_inv in H. now destruct H as [-> _].
    - destruct r as [|w1_ r'].
      + apply ret_inv in H. now destruct H as [-> _].
      + minva H as [je binding] o1 H1. mprim H. minva H as [c Ej] o2 H2. minva H as Ej2 o3 H3.
        minva H as Ej3 o4 H4. apply lift_res_inv in H4. destruct H4 as [H4 _]. mprim H.
        minva H as Em o5 H5. mprim H. mprim H.
        rewrite (IH _ _ _ _ H), (mux_envs_keys _ _ _ _ _ _ H5). eapply keys_push_pop; [|exact H4].
        eapply SKP_trans; [exact (Kp _ _ _ _ _ _ _ H2)|exact (skp_lower_stmts _ _ _ _ _ H3)].
  Qed.

  Lemma keys_assign_indexes m : forall accs E acc o idxs E' o',
    assign_indexes tops P re m accs E acc o = Ok ((idxs, E'), o') -> keys E' = keys E.
  Proof.
    induction accs as [|[aty idx|tty i|sty fld] r IH]; intros E acc o idxs E' o' H; cbn [assign_indexes] in H.
    - apply ret_inv in H. destruct H as [Heq _]. now injection Heq as _ ->.
    - minva H as [eb ne] o1 H1. minva H as [iw E1] o2 H2. minva H as iw' o3 H3. minva H as u o4 H4.
      rewrite (IH _ _ _ _ _ _ H). exact (Ke _ _ _ _ _ _ H2).
    - exact (IH _ _ _ _ _ _ H).
    - exact (IH _ _ _ _ _ _ H).
  Qed.

  Lemma skp_fields_match mw : forall ps w im E o c E' o',
    fields_match tops rp mw ps w im E o = Ok ((c, E'), o') -> SKP E E'.
  Proof.
    induction ps as [|[fp fbits] r IH]; intros w im E o c E' o' H; cbn [fields_match] in H.
    - apply ret_inv in H. destruct H as [Heq _]. injection Heq as _ ->. split; reflexivity.
    - minva H as sub o1 H1. minva H as [fm E1] o2 H2. mprim H.
      eapply SKP_trans; [exact (Kp _ _ _ _ _ _ _ H2)|exact (IH _ _ _ _ _ _ _ H)].
  Qed.

  Lemma skp_struct_match mw fields : forall ds w im E o c E' o',
    struct_match tops P rp mw fields ds w im E o = Ok ((c, E'), o') -> SKP E E'.
  Proof.
    induction ds as [|[fname fty] r IH]; intros w im E o c E' o' H; cbn [struct_match] in H.
    - apply ret_inv in H. destruct H as [Heq _]. injection Heq as _ ->. split; reflexivity.
    - destruct (assocN fname (rev fields)).
      + minva H as sub o1 H1. minva H as [fm E1] o2 H2. mprim H.
        eapply SKP_trans; [exact (Kp _ _ _ _ _ _ _ H2)|exact (IH _ _ _ _ _ _ _ H)].
      + exact (IH _ _ _ _ _ _ _ H).
  Qed.

  Lemma keys_lower_arms bits sw E0 P0 : forall arms hp mret mpanic menv o mret' mpanic' menv' hp' o',
    keys menv = keys E0 ->
    lower_arms tops re rp bits sw E0 P0 arms hp mret mpanic menv o = Ok ((mret', mpanic', menv', hp'), o') ->
    keys menv' = keys E0.
  Proof.
    induction arms as [|[pat body] r IH]; intros hp mret mpanic menv o mret' mpanic' menv' hp' o' Hk H;
      cbn [lower_arms] in H.
    - apply ret_inv in H. destruct H as [Heq _]. injection Heq as _ _ -> _. exact Hk.
    - mprim H. minva H as [im E1] o1 H1. minva H as [rw E2] o2 H2. mprim H. mprim H.
      minva H as E3 o3 H3. apply lift_res_inv in H3. destruct H3 as [H3 _]. mprim H. mprim H.
      minva H as menv1 o4 H4. minva H as mret1 o5 H5. mprim H.
      apply (IH _ _ _ _ _ _ _ _ _ _) in H; [exact H|].
      rewrite (mux_envs_keys _ _ _ _ _ _ H4). eapply keys_push_pop; [|exact H3].
      eapply SKP_trans; [exact (Kp _ _ _ _ _ _ _ H1)|apply SKP_of_keys; exact (Ke _ _ _ _ _ _ H2)].
  Qed.

  Lemma keys_rev_app_last (E1 : @cenv bool) glob caller_rev E3 :
    rev E1 = glob :: caller_rev -> keys E3 = [map fst glob] -> keys (rev caller_rev ++ E3) = keys E1.
  Proof.
    intros Hr Hk. assert (E1 = rev caller_rev ++ [glob]) as ->.
    { rewrite <- (rev_involutive E1), Hr. reflexivity. }
    unfold keys in *. rewrite !map_app. f_equal. exact Hk.
  Qed.

  Lemma keys_lower_expr_body e E o w E' o' :
    lower_expr_body tops P re rp rb e E o = Ok ((w, E'), o') -> keys E' = keys E.
  Proof.
    destruct e as [ei m t]. intro H. destruct ei; cbn [lower_expr_body] in H.
    - apply ret_inv in H. destruct H as [Heq _]. now injection Heq as _ ->.
    - apply ret_inv in H. destruct H as [Heq _]. now injection Heq as _ ->.
    - apply ret_inv in H. destruct H as [Heq _]. now injection Heq as _ ->.
    - apply ret_inv in H. destruct H as [Heq _]. now injection Heq as _ ->.
    - destruct (env_get E name); [|discriminate H]. apply ret_inv in H. destruct H as [Heq _]. now injection Heq as _ ->.
    - (* array literal *)
      minva H as [ws E1] o1 H1. apply ret_inv in H. destruct H as [Heq _]. injection Heq as _ ->.
      exact (keys_lower_list _ _ _ _ _ _ H1).
    - (* repeated array *)
      minva H as [w1 E1] o1 H1. minva H as w2 o2 H2. apply ret_inv in H. destruct H as [Heq _]. injection Heq as _ ->.
      exact (Ke _ _ _ _ _ _ H1).
    - (* index *)
      minva H as [eb ne] o0 H0. minva H as [arr E1] o1 H1. minva H as [idx E2] o2 H2. minva H as [r i'] o3 H3.
      apply ret_inv in H. destruct H as [Heq _]. injection Heq as _ ->.
      rewrite (Ke _ _ _ _ _ _ H2). exact (Ke _ _ _ _ _ _ H1).
    - (* tuple literal *)
      minva H as [ws E1] o1 H1. apply ret_inv in H. destruct H as [Heq _]. injection Heq as _ ->.
      exact (keys_lower_list _ _ _ _ _ _ H1).
    - (* tuple access *)
      minva H as [wb wi] o0 H0. minva H as [w1 E1] o1 H1. minva H as r o2 H2.
      apply ret_inv in H. destruct H as [Heq _]. injection Heq as _ ->. exact (Ke _ _ _ _ _ _ H1).
    - (* field *)
      destruct (e_ty e); try discriminate H.
      minva H as [w1 E1] o1 H1. minva H as [wb wi] o0 H0. minva H as r o2 H2.
      apply ret_inv in H. destruct H as [Heq _]. injection Heq as _ ->. exact (Ke _ _ _ _ _ _ H1).
    - (* struct literal *)
      destruct (assocN name (p_structs P)); [|discriminate H].
      minva H as [ws E1] o1 H1. apply ret_inv in H. destruct H as [Heq _]. injection Heq as _ ->.
      exact (keys_lower_struct_fields _ _ _ _ _ _ _ H1).
    - (* enum literal *)
      destruct (assocN ename (p_enums P)); [|discriminate H].
      minva H as [ws E1] o1 H1. cbv zeta in H. destruct (_ <=? _)%nat; [|discriminate H].
      apply ret_inv in H. destruct H as [Heq _]. injection Heq as _ ->.
      exact (keys_lower_list _ _ _ _ _ _ H1).
    - (* match *)
      minva H as [sw E0] o1 H1. mprim H. minva H as [[[rw mp] me] hp] o2 H2. mprim H.
      apply ret_inv in H. destruct H as [Heq _]. injection Heq as _ ->.
      rewrite (keys_lower_arms _ _ _ _ _ _ _ _ _ _ _ _ _ _ _ eq_refl H2). exact (Ke _ _ _ _ _ _ H1).
    - (* unary minus *)
      minva H as [x E1] o1 H1. minva H as neg o2 H2. minva H as x0 o3 H3. minva H as n0 o4 H4.
      minva H as ov o5 H5. minva H as u o6 H6. apply ret_inv in H. destruct H as [Heq _]. injection Heq as _ ->.
      exact (Ke _ _ _ _ _ _ H1).
    - (* not *)
      minva H as [x E1] o1 H1. minva H as r o2 H2. apply ret_inv in H. destruct H as [Heq _]. injection Heq as _ ->.
      exact (Ke _ _ _ _ _ _ H1).
    - (* binary operators *)
      destruct o0; cbn [lower_expr_body] in H;
        try solve [minva H as [xw E1] o1 H1; minva H as [yw E2] o2 H2; minva H as r o3 H3;
                   apply ret_inv in H; destruct H as [Heq _]; injection Heq as _ ->;
                   rewrite (Ke _ _ _ _ _ _ H2); exact (Ke _ _ _ _ _ _ H1)].
      + (* * *)
        destruct (mul_rewrite x y m t) as [[operand e']|].
        * minva H as [w1 E1] o1 H1. minva H as E2 o2 H2. apply lift_res_inv in H2. destruct H2 as [H2 _].
          minva H as [r E3] o3 H3. minva H as E4 o4 H4. apply lift_res_inv in H4. destruct H4 as [H4 _].
          apply ret_inv in H. destruct H as [Heq _]. injection Heq as _ ->.
          rewrite <- (Ke _ _ _ _ _ _ H1). eapply keys_push_pop; [|exact H4].
          eapply SKP_trans; [exact (env_let_keys _ _ _ _ H2)|apply SKP_of_keys; exact (Ke _ _ _ _ _ _ H3)].
        * minva H as [xw E1] o1 H1. minva H as [yw E2] o2 H2. minva H as r o3 H3.
          apply ret_inv in H. destruct H as [Heq _]. injection Heq as _ ->.
          rewrite (Ke _ _ _ _ _ _ H2). exact (Ke _ _ _ _ _ _ H1).
      + (* && *)
        minva H as [xw E1] o1 H1. minva H as x0 o2 H2. mprim H. minva H as [yw E2] o3 H3. minva H as y0 o4 H4.
        minva H as E3 o5 H5. mprim H. mprim H. mprim H. mprim H.
        apply ret_inv in H. destruct H as [Heq _]. injection Heq as _ ->.
        rewrite (mux_envs_keys _ _ _ _ _ _ H5), (Ke _ _ _ _ _ _ H3). exact (Ke _ _ _ _ _ _ H1).
      + (* || *)
        minva H as [xw E1] o1 H1. minva H as x0 o2 H2. mprim H. minva H as [yw E2] o3 H3. minva H as y0 o4 H4.
        minva H as E3 o5 H5. mprim H. mprim H. mprim H. mprim H.
        apply ret_inv in H. destruct H as [Heq _]. injection Heq as _ ->.
        rewrite (mux_envs_keys _ _ _ _ _ _ H5). exact (Ke _ _ _ _ _ _ H1).
    - (* block *)
      exact (Kb _ _ _ _ _ _ H).
    - (* call *)
      destruct (find_fn P f) as [fd|]; [|discriminate H].
      minva H as [bindings E1] o1 H1. destruct (rev E1) as [|glob caller_rev] eqn:Er; [discriminate H|].
      minva H as Ecallee o2 H2. apply lift_res_inv in H2. destruct H2 as [H2 _].
      minva H as [body E2] o3 H3. minva H as E3 o4 H4. apply lift_res_inv in H4. destruct H4 as [H4 _].
      apply ret_inv in H. destruct H as [Heq _]. injection Heq as _ ->.
      rewrite <- (keys_lower_args _ _ _ _ _ _ _ H1). apply (keys_rev_app_last E1 glob caller_rev E3 Er).
      rewrite (env_pop_keys _ _ H4), (Kb _ _ _ _ _ _ H3). destruct (skp_bind_all _ _ _ H2) as [Hk _].
      rewrite Hk. reflexivity.
    - (* join *)
      minva H as [eba na] o0 H0. minva H as [ebb nb] o00 H00. minva H as [aw E1] o1 H1. minva H as [bw E2] o2 H2.
      minva H as [bitonic ne] o3 H3. minva H as sorted o4 H4. minva H as joined o5 H5. minva H as joined2 o6 H6.
      apply ret_inv in H. destruct H as [Heq _]. injection Heq as _ ->.
      rewrite (Ke _ _ _ _ _ _ H2). exact (Ke _ _ _ _ _ _ H1).
    - (* if *)
      minva H as [cw E0] o1 H1. mprim H. minva H as c0 o2 H2. minva H as [tw ET] o3 H3. mprim H.
      minva H as [fw EF] o4 H4. mprim H. minva H as Em o5 H5. mprim H. mprim H. minva H as r o6 H6.
      apply ret_inv in H. destruct H as [Heq _]. injection Heq as _ ->.
      rewrite (mux_envs_keys _ _ _ _ _ _ H5), (Ke _ _ _ _ _ _ H3). exact (Ke _ _ _ _ _ _ H1).
    - (* cast *)
      minva H as [w1 E1] o1 H1. cbv zeta in H.
      destruct (_ =? _)%nat; [|destruct (_ <? _)%nat].
      + apply ret_inv in H. destruct H as [Heq _]. injection Heq as _ ->. exact (Ke _ _ _ _ _ _ H1).
      + apply ret_inv in H. destruct H as [Heq _]. injection Heq as _ ->. exact (Ke _ _ _ _ _ _ H1).
      + minva H as w' o2 H2. apply ret_inv in H. destruct H as [Heq _]. injection Heq as _ ->. exact (Ke _ _ _ _ _ _ H1).
    - (* range *)
      destruct (hi <? lo); [discriminate H|]. apply ret_inv in H. destruct H as [Heq _]. now injection Heq as _ ->.
  Qed.

  Lemma skp_lower_stmt_body s E o w E' o' :
    lower_stmt_body tops P re rp rs s E o = Ok ((w, E'), o') -> SKP E E'.
  Proof.
    destruct s as [si m]. intro H. destruct si; cbn [lower_stmt_body] in H.
    - minva H as [w1 E1] o1 H1. minva H as [c E2] o2 H2. apply ret_inv in H. destruct H as [Heq _].
      injection Heq as _ ->.
      eapply SKP_trans; [apply SKP_of_keys; exact (Ke _ _ _ _ _ _ H1)|exact (Kp _ _ _ _ _ _ _ H2)].
    - minva H as [w1 E1] o1 H1. minva H as E2 o2 H2. apply lift_res_inv in H2. destruct H2 as [H2 _].
      apply ret_inv in H. destruct H as [Heq _]. injection Heq as _ ->.
      eapply SKP_trans; [apply SKP_of_keys; exact (Ke _ _ _ _ _ _ H1)|exact (env_let_keys _ _ _ _ H2)].
    - minva H as [value E1] o1 H1. minva H as [idxs E2] o2 H2. minva H as coll o3 H3.
      minva H as accessed o4 H4. minva H as value' o5 H5. minva H as E3 o6 H6.
      apply lift_res_inv in H6. destruct H6 as [H6 _].
      apply ret_inv in H. destruct H as [Heq _]. injection Heq as _ ->. apply SKP_of_keys.
      rewrite (env_assign_keys _ _ _ _ H6), (keys_assign_indexes _ _ _ _ _ _ _ _ H2). exact (Ke _ _ _ _ _ _ H1).
    - minva H as [eb ne] o0 H0. minva H as [aw E1] o1 H1. minva H as E2 o2 H2.
      apply ret_inv in H. destruct H as [Heq _]. injection Heq as _ ->. apply SKP_of_keys.
      rewrite (keys_for_iterations _ _ _ _ _ _ _ _ _ H2). exact (Ke _ _ _ _ _ _ H1).
    - minva H as [eba na] o0 H0. minva H as [ebb nb] o00 H00. minva H as [aw E1] o1 H1. minva H as [bw E2] o2 H2.
      minva H as [bitonic ne] o3 H3. minva H as sorted o4 H4. minva H as E3 o5 H5.
      apply ret_inv in H. destruct H as [Heq _]. injection Heq as _ ->. apply SKP_of_keys.
      rewrite (keys_join_loop_windows _ _ _ _ _ _ _ _ _ _ H5), (Ke _ _ _ _ _ _ H2). exact (Ke _ _ _ _ _ _ H1).
    - apply SKP_of_keys. exact (Ke _ _ _ _ _ _ H).
  Qed.

  Lemma keys_lower_block_body ss E o w E' o' :
    lower_block_body rs ss E o = Ok ((w, E'), o') -> keys E' = keys E.
  Proof.
    unfold lower_block_body. intro H. minva H as [w1 E1] o1 H1. minva H as E2 o2 H2.
    apply lift_res_inv in H2. destruct H2 as [H2 _]. apply ret_inv in H. destruct H as [Heq _]. injection Heq as _ ->.
    eapply keys_push_pop; [|exact H2]. eapply block_stmts_keys; [|exact H1]. intros s _. apply Ks.
  Qed.
End KeysAll.

Theorem keys_all P : forall fT,
  (forall e E o w E' o', lower_expr tops fT P e E o = Ok ((w, E'), o') -> keys E' = keys E) /\
  (forall b E o w E' o', lower_block tops fT P b E o = Ok ((w, E'), o') -> keys E' = keys E) /\
  (forall s E o w E' o', lower_stmt tops fT P s E o = Ok ((w, E'), o') -> SKP E E') /\
  (forall p mw E o c E' o', lower_pattern tops fT P p mw E o = Ok ((c, E'), o') -> SKP E E').
Proof.
  induction fT as [|f (IHe & IHb & IHs & IHp)].
  - repeat split; intros; discriminate.
  - split; [|split; [|split]].
    + intros e E o w E' o' H. rewrite lower_expr_S in H.
      exact (keys_lower_expr_body P _ _ _ IHe IHp IHb e E o w E' o' H).
    + intros b E o w E' o' H. rewrite lower_block_S in H. exact (keys_lower_block_body _ IHs b E o w E' o' H).
    + intros s E o w E' o' H. rewrite lower_stmt_S in H.
      exact (skp_lower_stmt_body P _ _ _ IHe IHp IHs s E o w E' o' H).
    + intros p mw E o c E' o' H. exact (proj2 (lower_pattern_facts P (S f) p mw E o c E' o' H)).
Qed.

(* every expression keeps the keys: the [KP] hypotheses are always available *)
Corollary KP_all P e : KP P e.
Proof. intros fT E o w E' o' H. exact (proj1 (keys_all P fT) e E o w E' o' H). Qed.

Lemma arm_ok_intro P f g tscrut t pat body bs :
  gpat_ok P pat tscrut bs -> AgE P (VRa P) f (tbind_all ([] :: g) bs false) body -> e_ty body = t ->
  arm_ok P f g tscrut t (pat, body).
Proof. intros Hp Hb Et. exists bs. cbn [fst snd]. repeat split; try assumption. apply KP_all. Qed.

(* ------------------------------------------------------------------ a disagreement

   Struct patterns whose sub-patterns bind the SAME name, with the fields named in an order
   other than the definition's: Sem.pmatch binds in the order of the pattern, compile.rs (the
   loop over struct_def.fields in [struct_match]) in the order of the definition, so a
   different binding survives.  Lang/Wt.v accepts the program ([wt_pat] does not ask for
   distinct binders).  Second example: a pattern that names a field twice; compile.rs keeps
   only the last sub-pattern of a field (a map), the binder of the first one is never bound
   and a later use of it is an unwrap on a missing binding ([Crash]); Sem.v and Wt.v accept. *)
Module StructPatternOrder.
  Definition mm : meta := mkMeta 1 1 1 9.
  Definition u8 := TInt false 8.
  Definition S_ : N := 1.
  (* struct S { a: u8, b: u8 }   fn main(s: S) -> u8 { let S { b: x, a: x } = s; x } *)
  Definition body : list stmt :=
    [St (SLet (Pat (PStruct S_ false [(11, Pat (PId 5) mm u8); (10, Pat (PId 5) mm u8)]) mm (TStruct S_))
              (Ex (EId 0) mm (TStruct S_))) mm;
     St (SExpr (Ex (EId 5) mm u8)) mm].
  Definition prog : program :=
    mkProgram [(S_, [(10, u8); (11, u8)])] [] [mkFn 0 [(0, TStruct S_)] u8 body] [] 0.
  (* s = S { a: 1, b: 2 } *)
  Definition input : list bool := enc 8 1 ++ enc 8 2.

  Example disagreement :
    wt_program prog = true /\
    Sem.run_main 20 prog [input] = Sem.RunOk (enc 8 1) false /\
    tsem_program 20 prog [input] = Ok (None, enc 8 2).
  Proof. vm_compute. auto. Qed.

  (* fn main(s: S) -> u8 { let S { a: x, a: y } = s; x } *)
  Definition body2 : list stmt :=
    [St (SLet (Pat (PStruct S_ false [(10, Pat (PId 5) mm u8); (10, Pat (PId 6) mm u8)]) mm (TStruct S_))
              (Ex (EId 0) mm (TStruct S_))) mm;
     St (SExpr (Ex (EId 5) mm u8)) mm].
  Definition prog2 : program :=
    mkProgram [(S_, [(10, u8); (11, u8)])] [] [mkFn 0 [(0, TStruct S_)] u8 body2] [] 0.

  Example duplicate_field_crash :
    wt_program prog2 = true /\
    Sem.run_main 20 prog2 [input] = Sem.RunOk (enc 8 1) false /\
    tsem_program 20 prog2 [input] = Crash.
  Proof. vm_compute. auto. Qed.
End StructPatternOrder.

(* ------------------------------------------------------------------ sanity: the hypotheses
   of the node lemmas are satisfiable and compose.  a : [(u8, bool); 3] (mutable), i : u8;
   the statement  a[i].0 = 7;  and the expression  (a[i], a[i].1)  *)
Module SanityAgg.
  Definition P0 : program := mkProgram [] [] [] [] 0.
  Definition mm (k : N) : meta := mkMeta k 1 k 9.
  Definition u8 := TInt false 8.
  Definition tup := TTup [u8; TBool].
  Definition arr := TArr tup 3.
  Definition vi := Ex (EId 1) (mm 1) u8.
  Definition va := Ex (EId 0) (mm 2) arr.
  Definition stmt : stmt := St (SAssign 0 [AIdx arr vi; ATup tup 0] (Ex (ENumU 7 8) (mm 3) u8)) (mm 4).
  Definition ai := Ex (EIdx va vi) (mm 5) tup.
  Definition expr : expr := Ex (ETupLit [ai; Ex (ETupAcc ai 1) (mm 6) TBool]) (mm 7) (TTup [tup; TBool]).

  Definition g0 : tenv := [[(0, (arr, true)); (1, (u8, false))]].
  Definition aval : Sem.value :=
    Sem.VArr [Sem.VTup [Sem.VInt 1; Sem.VBool true]; Sem.VTup [Sem.VInt 2; Sem.VBool false];
              Sem.VTup [Sem.VInt 3; Sem.VBool true]].
  Definition abits : list bool :=
    Eval vm_compute in match Sem.encode Sem.ty_fuel P0 arr aval with Some w => w | None => [] end.
  Definition en0 (i : Z) : Sem.env := Sem.mkEnv [[(0, aval); (1, Sem.VInt i)]] false.
  Definition E0 (i : Z) : @cenv bool := [[(0, abits); (1, enc 8 i)]].

  Lemma VRa_arr : VRa P0 arr aval abits.
  Proof. split; [apply encode_has_enc|]; vm_compute; reflexivity. Qed.

  Lemma rel0 i : Sem.in_range false 8 i = true -> env_rel3 (VRa P0) (en0 i) (E0 i) g0.
  Proof.
    intro Hi. unfold env_rel3, en0, E0, g0. cbn [Sem.scopes]. constructor; [|constructor].
    split.
    - unfold ssorted. cbn. repeat split; intros k' Hin; cbn in Hin; intuition lia.
    - intro x. cbn [assocN].
      destruct (x =? 0); [exists aval, abits; repeat split; apply VRa_arr|].
      destruct (x =? 1); [exists (Sem.VInt i), (enc 8 i); repeat split; try apply ty_fits_int; apply (HE_int P0 false 8 i Hi)|].
      auto.
  Qed.

  Lemma vi_agrees f : AgE P0 (VRa P0) f g0 vi.
  Proof. apply (id_node_a P0 f g0 1 _ u8 false). reflexivity. Qed.

  Lemma stmt_agrees : AgS P0 (VRa P0) 2 g0 g0 unit_ty stmt.
  Proof.
    apply (assign_acc_node P0 1 g0 0 _ _ _ arr true).
    - apply lit_numU_node_a. reflexivity.
    - reflexivity.
    - apply (AO_idx P0 1 g0 vi _ tup 3 8 u8); [apply vi_agrees|reflexivity|reflexivity|reflexivity|vm_compute; reflexivity|].
      apply (AO_tup P0 1 g0 0 [] [u8; TBool] u8 u8); [reflexivity|constructor].
  Qed.

  Lemma ai_agrees f : AgE P0 (VRa P0) (S f) g0 ai.
  Proof.
    apply (idx_node P0 f g0 va vi _ tup 3 8); try reflexivity; [|apply vi_agrees].
    apply (id_node_a P0 f g0 0 _ arr true). reflexivity.
  Qed.

  Lemma expr_agrees : AgE P0 (VRa P0) 4 g0 expr.
  Proof.
    apply tuplit_node; [|reflexivity|vm_compute; reflexivity].
    constructor; [apply ai_agrees|constructor; [|constructor]].
    apply (tupacc_node P0 2 g0 ai 1 _ TBool [u8; TBool]); [apply ai_agrees|reflexivity|reflexivity].
  Qed.

  (* i = 1, in bounds: both runs succeed and the results are related *)
  Example run_in_bounds : exists E' en',
    lower_stmt tops 6 P0 stmt (E0 1) None = Ok (([], E'), None) /\
    Sem.exec 2 P0 (en0 1) stmt = Sem.Done (Sem.unit_val, en') /\
    env_rel3 (VRa P0) en' E' g0 /\
    Sem.lookup_var en' 0 = Some (Sem.VArr [Sem.VTup [Sem.VInt 1; Sem.VBool true];
                                            Sem.VTup [Sem.VInt 7; Sem.VBool false];
                                            Sem.VTup [Sem.VInt 3; Sem.VBool true]]).
  Proof.
    destruct (lower_stmt tops 6 P0 stmt (E0 1) None) as [[[w E'] o']| |] eqn:Hrun;
      [|vm_compute in Hrun; discriminate Hrun|vm_compute in Hrun; discriminate Hrun].
    pose proof (stmt_agrees (en0 1) _ 6%nat w E' o' (rel0 1 eq_refl) Hrun) as H.
    destruct (Sem.exec 2 P0 (en0 1) stmt) as [[v en']| | |] eqn:Ev; try (vm_compute in Ev; discriminate Ev).
    destruct H as (-> & _ & Hrel).
    assert (w = []) as -> by (vm_compute in Hrun; congruence).
    exists E', en'. repeat split; try assumption.
    - vm_compute in Ev. injection Ev as <- _. reflexivity.
    - vm_compute in Ev. injection Ev as _ <-. reflexivity.
  Qed.

  (* i = 5, out of bounds: the bit-level run records OutOfBounds at the statement, as Sem.v *)
  Example run_out_of_bounds : exists w E',
    lower_stmt tops 6 P0 stmt (E0 5) None = Ok ((w, E'), Some (pcode Sem.ROutOfBounds (mm 4))) /\
    Sem.exec 2 P0 (en0 5) stmt = Sem.Panicked Sem.ROutOfBounds (mm 4).
  Proof.
    destruct (lower_stmt tops 6 P0 stmt (E0 5) None) as [[[w E'] o']| |] eqn:Hrun;
      [|vm_compute in Hrun; discriminate Hrun|vm_compute in Hrun; discriminate Hrun].
    pose proof (stmt_agrees (en0 5) _ 6%nat w E' o' (rel0 5 eq_refl) Hrun) as H.
    assert (Ev : Sem.exec 2 P0 (en0 5) stmt = Sem.Panicked Sem.ROutOfBounds (mm 4)) by (vm_compute; reflexivity).
    rewrite Ev in H. subst o'. eauto.
  Qed.
End SanityAgg.

Print Assumptions tuplit_node.
Print Assumptions tupacc_node.
Print Assumptions structlit_node.
Print Assumptions fld_node.
Print Assumptions arrlit_node.
Print Assumptions arrrep_node.
Print Assumptions range_node.
Print Assumptions idx_node.
Print Assumptions assign_acc_node.
Print Assumptions for_node.
Print Assumptions for_pat_node.
Print Assumptions let_pat_node.
Print Assumptions enumlit_node.
Print Assumptions gpat_agrees.
Print Assumptions match_node.
Print Assumptions keys_all.
Print Assumptions SanityAgg.run_in_bounds.
Print Assumptions SanityAgg.run_out_of_bounds.
Print Assumptions SanityAgg.expr_agrees.
Print Assumptions StructPatternOrder.disagreement.
Print Assumptions StructPatternOrder.duplicate_field_crash.
