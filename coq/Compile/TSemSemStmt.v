(* Agreement of the source-level semantics (Lang/Sem.v) with the bit-level semantics
   (Compile/TSem.v) on the IMPERATIVE SCALAR fragment: the scalar expressions of
   Compile/TSemSemExpr.v (operands may now have effects) closed under blocks, `let x = e`
   (identifier pattern), `let mut`, assignment `x = e` (no accessors), expression statements,
   if / else whose branches assign, && / || whose operands have effects.  Values are scalars
   (bool, integers of width 8/16/32/64) or the unit value.  NOT covered: calls, for loops,
   match, aggregates, `*` with a literal operand (the rewrite into repeated addition is a
   known divergence: const-mul-rewrite-intermediate-overflow).

   Form: partial correctness.  IF the bit-level run (any fuel) from no panic returns Ok THEN
   it agrees with Sem.v (any fuel): value, environment, panic.  Panics rely on
   [TSemSticky.tsem_sticky_all] (whole language).

   PART 1 (Section Control) is independent of the values being scalars: the value relation
     [VR : ty -> Sem.value -> list bool -> Prop] is a parameter, used only through
     [VR TBool v w -> exists b, v = VBool b /\ w = [b]] and [VR unit_ty unit_val []].
     Environments: [env_rel3 VR en E g] = the three environments have the same number of
     scopes; per scope ([scope_rel]) the bit-level scope is key-sorted and the three look-ups of
     every name agree ([VR] on the values).  Preservation: [rel_push], [rel_pop], [rel_let],
     [rel_assign], [rel_lookup]; merging: [mux_envs_inv] (from key equality, [keys]).
     Agreement predicates [AgE], [AgS], [AgSS]; node lemmas [if_node], [logic_node],
     [sexpr_node], [let_node], [letmut_node], [assign_node], [stmts_node], [block_node].
   PART 2: scalars, [VRs]; operator nodes [binop_node_p], [shift_node_p], [neg_node_p],
     [not_node_p], [cast_node_p], literals, identifiers; the syntactic fragment [imp_expr] /
     [imp_stmt]; [keys_preserved] (an Ok run keeps the keys of every scope); the strict checker
     [sc_expr] / [sc_block] / [sc_stmt] (boolean; [sc_implies_wt]: it is a restriction of
     Lang/Wt.v); the theorems [tsem_sem_imp_expr], [tsem_sem_imp_stmt], [tsem_sem_imp_block],
     [tsem_sem_program]. *)
From Coq Require Import Lia ZArith.
From GV Require Import Base.Util Base.Bits Base.BitsProofs Lang.Ast Lang.Wt Lang.WtShape Gadgets.Gadgets
  Gadgets.GadgetSpec Gadgets.Arith Panic.PanicRec Panic.PanicSem Compile.Lower
  Compile.TSem Compile.TSemFacts Compile.TSemArith1 Compile.TSemArith2 Compile.TSemControl
  Compile.TSemSemExpr Compile.TSemSticky.
From GV Require Lang.Sem.
Local Open Scope N_scope.

(* ------------------------------------------------------------------ monadic inversion *)

Lemma mbind_inv {A B} (m : MB A) (k : A -> MB B) o r :
  mbind m k o = Ok r -> exists a o1, m o = Ok (a, o1) /\ k a o1 = Ok r.
Proof.
  unfold mbind. destruct (m o) as [[a o1]| |]; try discriminate. intro H. eauto.
Qed.

Ltac minv H :=
  let a := fresh "a" in let o1 := fresh "o" in let H1 := fresh "Hm" in
  apply mbind_inv in H; destruct H as (a & o1 & H1 & H).

Tactic Notation "minva" hyp(H) "as" simple_intropattern(a) ident(o1) ident(H1) :=
  apply mbind_inv in H; destruct H as (a & o1 & H1 & H).

(* a primitive step of the panic protocol / a Boolean gate at the head of a run *)
Ltac mprim H :=
  unfold mbind at 1 in H;
  cbn [m_peek m_replace m_mux_panic m_and m_or m_not m_xor o_peek o_replace o_mux_panic o_and o_or o_not o_xor tops tret] in H.

Lemma lift_res_inv {A} (r : res A) (o : pobs) a o' : lift_res r o = Ok (a, o') -> r = Ok a /\ o' = o.
Proof. destruct r; cbn [lift_res]; intro H; inversion H. auto. Qed.

Lemma ret_inv {A} (a b : A) (o o' : pobs) : ret a o = Ok (b, o') -> b = a /\ o' = o.
Proof. intro H. inversion H. auto. Qed.

(* ------------------------------------------------------------------ scopes of the lowering:
   sorted by key *)

Fixpoint ssortedK (ks : list N) : Prop :=
  match ks with
  | [] => True
  | k :: r => (forall k', In k' r -> k < k') /\ ssortedK r
  end.

Definition ssorted (s : @scope bool) : Prop := ssortedK (map fst s).
Definition keys (E : @cenv bool) : list (list N) := map (map fst) E.
Definition wf_env (E : @cenv bool) : Prop := Forall ssorted E.

Lemma wf_env_keys E E' : keys E' = keys E -> wf_env E -> wf_env E'.
Proof.
  unfold keys, wf_env. revert E'. induction E as [|s E IH]; intros [|s' E'] Hk Hw; try discriminate.
  - constructor.
  - cbn [map] in Hk. injection Hk as H1 H2. inversion Hw; subst. constructor; [|now apply IH].
    unfold ssorted in *. now rewrite H1.
Qed.

Lemma ssortedK_NoDup ks : ssortedK ks -> NoDup ks.
Proof.
  induction ks as [|k r IH]; intro H; [constructor|]. destruct H as [H1 H2].
  constructor; [|now apply IH]. intro Hin. specialize (H1 k Hin). lia.
Qed.

Lemma ssorted_distinct s : ssorted s -> keys_distinct s.
Proof. apply ssortedK_NoDup. Qed.

Lemma wf_env_distinct E : wf_env E -> Forall keys_distinct E.
Proof. intro H. eapply Forall_impl; [|exact H]. apply ssorted_distinct. Qed.

Lemma scope_insert_keys_in (s : @scope bool) x v k :
  In k (map fst (scope_insert s x v)) -> k = x \/ In k (map fst s).
Proof.
  induction s as [|[k0 w] s IH]; cbn [scope_insert map fst In].
  - intros [H|[]]; auto.
  - destruct (x <? k0); [|destruct (x =? k0)]; cbn [map fst In]; intuition.
Qed.

Lemma scope_insert_sorted (s : @scope bool) x v : ssorted s -> ssorted (scope_insert s x v).
Proof.
  unfold ssorted. induction s as [|[k0 w] s IH]; cbn [scope_insert map fst ssortedK].
  - intros _. split; [intros ? []|exact I].
  - intros [H1 H2]. destruct (N.ltb_spec x k0) as [Hlt|Hge].
    + cbn [map fst ssortedK]. split; [|split; assumption].
      intros k' [<-|Hin]; [exact Hlt|]. specialize (H1 k' Hin). lia.
    + destruct (N.eqb_spec x k0) as [->|Hne]; cbn [map fst ssortedK].
      * split; assumption.
      * split; [|now apply IH]. intros k' Hin. apply scope_insert_keys_in in Hin.
        destruct Hin as [->|Hin]; [lia|now apply H1].
Qed.

Lemma scope_replace_keys (s s' : @scope bool) x v : scope_replace s x v = Some s' -> map fst s' = map fst s.
Proof.
  revert s'. induction s as [|[k w] s IH]; intros s'; cbn [scope_replace]; [discriminate|].
  destruct (x =? k).
  - intros [= <-]. reflexivity.
  - destruct (scope_replace s x v) as [r|]; [|discriminate]. intros [= <-]. cbn [map fst]. f_equal. now apply IH.
Qed.

Lemma scope_replace_some (s : @scope bool) x v w : assocN x s = Some w -> exists s', scope_replace s x v = Some s'.
Proof.
  induction s as [|[k w0] s IH]; cbn [assocN scope_replace]; [discriminate|].
  destruct (x =? k); [eauto|]. intro H. destruct (IH H) as [s' ->]. eauto.
Qed.

Lemma env_assign_keys (E : @cenv bool) : forall E' x v, env_assign E x v = Ok E' -> keys E' = keys E.
Proof.
  induction E as [|s r IH]; intros E' x v; cbn [env_assign]; [discriminate|].
  destruct (scope_replace s x v) as [s'|] eqn:Es.
  - intros [= <-]. unfold keys. cbn [map]. f_equal. eapply scope_replace_keys; eassumption.
  - destruct (env_assign r x v) as [r'| |] eqn:Er; cbn [bind]; try discriminate. intros [= <-].
    unfold keys in *. cbn [map]. f_equal. eapply IH; eassumption.
Qed.

(* ------------------------------------------------------------------ merging environments *)

Lemma mux_bits_inv c xs ys (o : pobs) r o' :
  mux_bits tops c xs ys o = Ok (r, o') -> r = (if c then xs else ys) /\ o' = o.
Proof.
  unfold mux_bits. destruct (Nat.eqb_spec (length xs) (length ys)) as [Hl|Hl]; cbn [negb]; [|discriminate].
  rewrite tsem_map2_mux by exact Hl. intros [= <- <-]. auto.
Qed.

Lemma mux_scope_inv c : forall a b0 b (o : pobs) r o',
  mux_scope tops c a b0 o = Ok (r, o') -> map fst a = map fst b ->
  (forall k v, In (k, v) b -> assocN k b0 = Some v) ->
  r = (if c then a else b) /\ o' = o.
Proof.
  induction a as [|[k va] a IH]; intros b0 b o r o' H Hk Hb; destruct b as [|[k' vb] b]; try discriminate Hk;
    cbn [mux_scope] in H.
  - apply ret_inv in H. destruct H as [-> ->]. now destruct c.
  - cbn [map fst] in Hk. injection Hk as <- Hk.
    rewrite (Hb k vb (or_introl eq_refl)) in H.
    minv H. apply mux_bits_inv in Hm. destruct Hm as [-> ->].
    minv H. destruct (IH b0 b _ _ _ Hm Hk (fun k0 v0 Hin => Hb k0 v0 (or_intror Hin))) as [-> ->].
    apply ret_inv in H. destruct H as [-> ->]. now destruct c.
Qed.

Lemma mux_scopes_inv c : forall sa sb (o : pobs) r o',
  mux_scopes tops c sa sb o = Ok (r, o') -> map (map fst) sa = map (map fst) sb ->
  Forall keys_distinct sb -> r = (if c then sa else sb) /\ o' = o.
Proof.
  induction sa as [|a sa IH]; intros [|b sb] o r o' H Hk Hd; try discriminate Hk; cbn [mux_scopes] in H.
  - apply ret_inv in H. destruct H as [-> ->]. now destruct c.
  - cbn [map] in Hk. injection Hk as Hk1 Hk2. inversion Hd; subst.
    minv H. apply (mux_scope_inv c a b b) in Hm; [|exact Hk1|now apply assoc_in_distinct].
    destruct Hm as [-> ->]. minv H. destruct (IH sb _ _ _ Hm Hk2 ltac:(assumption)) as [-> ->].
    apply ret_inv in H. destruct H as [-> ->]. now destruct c.
Qed.

Lemma mux_envs_inv c a b (o : pobs) r o' :
  mux_envs tops c a b o = Ok (r, o') -> keys a = keys b -> wf_env b ->
  r = (if c then a else b) /\ o' = o.
Proof.
  unfold mux_envs, keys. intros H Hk Hw. destruct (negb (length a =? length b)%nat); [discriminate|].
  minv H. apply mux_scopes_inv in Hm.
  - destruct Hm as [-> ->]. apply ret_inv in H. destruct H as [-> ->].
    split; [|reflexivity]. destruct c; apply rev_involutive.
  - rewrite !map_rev. f_equal. exact Hk.
  - apply Forall_rev. now apply wf_env_distinct.
Qed.

(* ------------------------------------------------------------------ the source side of
   assignment *)

Lemma update_assoc_some s x (v v0 : Sem.value) : assocN x s = Some v0 ->
  exists s', Sem.update_assoc s x v = Some s' /\
             forall y, assocN y s' = if y =? x then Some v else assocN y s.
Proof.
  induction s as [|[k w] s IH]; cbn [assocN Sem.update_assoc]; [discriminate|].
  destruct (N.eqb_spec x k) as [->|Hne].
  - intros _. eexists. split; [reflexivity|]. intro y. cbn [assocN]. now destruct (y =? k).
  - intro H. destruct (IH H) as (s' & -> & Hs'). eexists. split; [reflexivity|].
    intro y. cbn [assocN]. rewrite Hs'. destruct (N.eqb_spec y k) as [->|]; [|reflexivity].
    destruct (N.eqb_spec k x); [congruence|reflexivity].
Qed.

Lemma update_assoc_none s x (v : Sem.value) : assocN x s = None -> Sem.update_assoc s x v = None.
Proof.
  induction s as [|[k w] s IH]; cbn [assocN Sem.update_assoc]; [reflexivity|].
  destruct (x =? k); [discriminate|]. intro H. now rewrite (IH H).
Qed.

Lemma scope_replace_none' (s : @scope bool) x v : assocN x s = None -> scope_replace s x v = None.
Proof.
  induction s as [|[k w] s IH]; cbn [assocN scope_replace]; [reflexivity|].
  destruct (x =? k); [discriminate|]. intro H. now rewrite (IH H).
Qed.

Lemma scope_replace_lookup (s s' : @scope bool) x v : scope_replace s x v = Some s' ->
  forall y, assocN y s' = if y =? x then Some v else assocN y s.
Proof.
  intros H y. destruct (N.eqb_spec y x) as [->|Hne].
  - eapply scope_replace_get; eassumption.
  - eapply scope_replace_other; eassumption.
Qed.

(* ------------------------------------------------------------------ PART 1: control flow and
   environments, for an arbitrary value relation *)

Section Control.
  Variable P : program.
  Variable VR : ty -> Sem.value -> list bool -> Prop.
  Hypothesis VR_bool : forall v w, VR TBool v w -> exists b, v = Sem.VBool b /\ w = [b].
  Hypothesis VR_unit : VR unit_ty Sem.unit_val [].

  (* one scope of the three environments: the bit-level scope is sorted, and the three
     look-ups of every name agree *)
  Definition scope_rel (s : list (N * Sem.value)) (cs : @scope bool) (gs : list (N * (ty * bool))) : Prop :=
    ssorted cs /\
    forall x, match assocN x gs with
              | Some (t, _) => exists v w, assocN x s = Some v /\ assocN x cs = Some w /\ VR t v w
              | None => assocN x s = None /\ assocN x cs = None
              end.

  Definition env_rel3 (en : Sem.env) (E : @cenv bool) (g : tenv) : Prop :=
    Forall3 scope_rel (Sem.scopes en) E g.

  Lemma rel_wf en E g : env_rel3 en E g -> wf_env E.
  Proof.
    unfold env_rel3, wf_env. induction 1 as [|s cs gs ss E g [Hs _] _ IH]; constructor; assumption.
  Qed.

  Lemma rel_scopes en en' E g : Sem.scopes en' = Sem.scopes en -> env_rel3 en E g -> env_rel3 en' E g.
  Proof. unfold env_rel3. now intros ->. Qed.

  Lemma rel_lookup en E g x t mu : env_rel3 en E g -> tlookup g x = Some (t, mu) ->
    exists v w, Sem.lookup_var en x = Some v /\ env_get E x = Some w /\ VR t v w.
  Proof.
    unfold env_rel3, Sem.lookup_var. induction 1 as [|s cs gs ss E g [_ Hs] _ IH]; cbn [tlookup]; [discriminate|].
    cbn [Sem.lookup_scopes env_get]. specialize (Hs x). destruct (assocN x gs) as [[t' mu']|].
    - intros [= -> ->]. destruct Hs as (v & w & -> & -> & HV). eauto.
    - destruct Hs as [-> ->]. exact IH.
  Qed.

  Lemma rel_push en E g : env_rel3 en E g -> env_rel3 (Sem.push_scope en) (env_push E) ([] :: g).
  Proof.
    intro H. unfold env_rel3, Sem.push_scope, env_push. cbn [Sem.scopes]. constructor; [|exact H].
    split; [exact I|]. intro x. cbn [assocN]. auto.
  Qed.

  Lemma rel_pop en E g E2 : env_rel3 en E g -> env_pop E = Ok E2 -> env_rel3 (Sem.pop_scope en) E2 (tl g).
  Proof.
    unfold env_rel3, Sem.pop_scope. cbn [Sem.scopes]. intros H Hp. destruct H; cbn [env_pop] in Hp; [discriminate|].
    injection Hp as <-. exact H0.
  Qed.

  Lemma rel_let en E g x t mu v w E' : env_rel3 en E g -> VR t v w -> env_let E x w = Ok E' ->
    env_rel3 (Sem.bind_var en x v) E' (tbind g x t mu).
  Proof.
    unfold env_rel3, Sem.bind_var. intros H HV Hl.
    destruct H as [|s cs gs ss E g [Hso Hs] Hr]; cbn [env_let] in Hl; [discriminate|].
    injection Hl as <-. cbn [Sem.scopes tbind]. constructor; [|exact Hr].
    split; [now apply scope_insert_sorted|]. intro y. cbn [assocN].
    destruct (N.eqb_spec y x) as [->|Hne].
    - exists v, w. rewrite scope_insert_get. auto.
    - rewrite scope_insert_other by exact Hne. apply Hs.
  Qed.

  Lemma rel_assign en E g x t mu v w E' : env_rel3 en E g -> tlookup g x = Some (t, mu) -> VR t v w ->
    env_assign E x w = Ok E' ->
    exists en', Sem.assign_var en x v = Some en' /\ env_rel3 en' E' g.
  Proof.
    unfold env_rel3, Sem.assign_var. intros H Hl HV Ha.
    assert (exists ss', Sem.assign_scopes (Sem.scopes en) x v = Some ss' /\ Forall3 scope_rel ss' E' g) as (ss' & -> & Hr).
    2:{ eexists. split; [reflexivity|exact Hr]. }
    revert E' Hl Ha. induction H as [|s cs gs ss E g [Hso Hs] Hr0 IH]; intros E' Hl Ha; cbn [tlookup] in Hl; [discriminate|].
    cbn [env_assign Sem.assign_scopes] in *. pose proof (Hs x) as Hx.
    destruct (assocN x gs) as [[t' mu']|] eqn:Eg.
    - injection Hl as -> ->. destruct Hx as (v0 & w0 & Hv0 & Hw0 & _).
      destruct (update_assoc_some s x v v0 Hv0) as (s' & -> & Hs').
      destruct (scope_replace_some cs x w w0 Hw0) as (cs' & Hcs'). rewrite Hcs' in Ha.
      injection Ha as <-. eexists. split; [reflexivity|]. constructor; [|assumption].
      split; [unfold ssorted; rewrite (scope_replace_keys _ _ _ _ Hcs'); exact Hso|].
      intro y. rewrite Hs', (scope_replace_lookup _ _ _ _ Hcs').
      destruct (N.eqb_spec y x) as [->|Hne]; [|apply Hs]. rewrite Eg. eauto.
    - destruct Hx as [Hsn Hcn]. rewrite (update_assoc_none s x v Hsn).
      rewrite (scope_replace_none' cs x w Hcn) in Ha.
      destruct (env_assign E x w) as [r'| |] eqn:Er; cbn [bind] in Ha; try discriminate. injection Ha as <-.
      destruct (IH r' Hl eq_refl) as (ss' & -> & Hr). eexists. split; [reflexivity|].
      constructor; [split; assumption|exact Hr].
  Qed.

  (* ---------------------------------------------------------------- the agreement predicates *)

  Definition pcode (r : Sem.reason) (m : meta) : N * ploc := (preason_num (pr r), ploc32 (ploc_of m)).

  Definition AgE (fuel : nat) (g : tenv) (e : expr) : Prop :=
    forall en E fT w E' o',
    env_rel3 en E g -> lower_expr tops fT P e E None = Ok ((w, E'), o') ->
    match Sem.eval fuel P en e with
    | Sem.Done (v, en') => o' = None /\ VR (e_ty e) v w /\ env_rel3 en' E' g
    | Sem.Panicked r m => o' = Some (pcode r m)
    | _ => True
    end.

  (* a statement: [g'] the context after it, [t] its type *)
  Definition AgS (fuel : nat) (g g' : tenv) (t : ty) (s : stmt) : Prop :=
    forall en E fT w E' o',
    env_rel3 en E g -> lower_stmt tops fT P s E None = Ok ((w, E'), o') ->
    match Sem.exec fuel P en s with
    | Sem.Done (v, en') => o' = None /\ VR t v w /\ env_rel3 en' E' g'
    | Sem.Panicked r m => o' = Some (pcode r m)
    | _ => True
    end.

  (* an Ok run keeps the keys of every scope *)
  Definition KP (e : expr) : Prop :=
    forall fT E o w E' o', lower_expr tops fT P e E o = Ok ((w, E'), o') -> keys E' = keys E.

  Lemma sticky_e fT e E x w E' o' : lower_expr tops fT P e E (Some x) = Ok ((w, E'), o') -> o' = Some x.
  Proof. intro H. destruct (tsem_sticky_all P fT x) as (He & _). eapply He; eassumption. Qed.

  Lemma sticky_s fT s E x w E' o' : lower_stmt tops fT P s E (Some x) = Ok ((w, E'), o') -> o' = Some x.
  Proof. intro H. destruct (tsem_sticky_all P fT x) as (_ & _ & Hs & _). eapply Hs; eassumption. Qed.

  (* ---------------------------------------------------------------- if / else *)

  Lemma one_wire_inv (xw : list bool) (o : pobs) b o' : one_wire xw o = Ok (b, o') -> xw = [b] /\ o' = o.
  Proof.
    destruct xw as [|b0 [|? ?]]; cbn [one_wire]; try discriminate. intro H. apply ret_inv in H.
    destruct H as [-> ->]. auto.
  Qed.

  Lemma if_run_inv re rp rb c a b m t E o w E' o' :
    lower_expr_body tops P re rp rb (Ex (EIf c a b) m t) E o = Ok ((w, E'), o') ->
    exists cb E0 o0 tw ET oT fw EF oF oM,
      re c E o = Ok (([cb], E0), o0) /\ re a E0 o0 = Ok ((tw, ET), oT) /\
      re b E0 o0 = Ok ((fw, EF), oF) /\ mux_envs tops cb ET EF o0 = Ok (E', oM) /\
      w = (if cb then tw else fw) /\ o' = (if cb then oT else oF).
  Proof.
    intro H. cbn [lower_expr_body] in H.
    minva H as [cw E0] o0 Hc. mprim H.
    minva H as cb o1 Hw. apply one_wire_inv in Hw. destruct Hw as [-> ->].
    minva H as [tw ET] oT Ha. mprim H.
    minva H as [fw EF] oF Hb. mprim H.
    minva H as Em oM Hmux. mprim H. mprim H.
    minva H as r o3 Hr. apply mux_bits_inv in Hr. destruct Hr as [-> ->].
    apply ret_inv in H. destruct H as [Heq ->]. injection Heq as -> ->.
    do 10 eexists. repeat split; eassumption || reflexivity.
  Qed.

  Lemma if_node f g c a b m t :
    AgE f g c -> AgE f g a -> AgE f g b -> KP a -> KP b ->
    e_ty c = TBool -> e_ty a = t -> e_ty b = t ->
    AgE (S f) g (Ex (EIf c a b) m t).
  Proof.
    intros IHc IHa IHb Ka Kb Etc Eta Etb en E fT w E' o' Hrel Hrun.
    destruct fT as [|fT]; [discriminate Hrun|]. rewrite lower_expr_S in Hrun.
    apply if_run_inv in Hrun.
    destruct Hrun as (cb & E0 & o0 & tw & ET & oT & fw & EF & oF & oM & Hc & Ha & Hb & Hmux & -> & ->).
    rewrite sem_eval_if. pose proof (IHc en E fT _ _ _ Hrel Hc) as IH1. revert IH1.
    destruct (Sem.eval f P en c) as [[vc en1]|r1 m1|c1|]; intro IH1; cbn [Sem.obind]; try exact I.
    - destruct IH1 as (-> & HV & Hrel1). rewrite Etc in HV. destruct (VR_bool _ _ HV) as (cb' & -> & [= <-]).
      pose proof (rel_wf _ _ _ Hrel1) as Hwf0.
      pose proof (Ka _ _ _ _ _ _ Ha) as Hka. pose proof (Kb _ _ _ _ _ _ Hb) as Hkb.
      apply mux_envs_inv in Hmux; [|congruence|now apply (wf_env_keys E0)]. destruct Hmux as [-> _].
      destruct cb.
      + pose proof (IHa en1 E0 fT _ _ _ Hrel1 Ha) as IH2. revert IH2.
        destruct (Sem.eval f P en1 a) as [[va en2]|r2 m2|c2|]; intro IH2; try exact I; [|exact IH2].
        cbn [e_ty]. rewrite Eta in IH2. exact IH2.
      + pose proof (IHb en1 E0 fT _ _ _ Hrel1 Hb) as IH2. revert IH2.
        destruct (Sem.eval f P en1 b) as [[vb en2]|r2 m2|c2|]; intro IH2; try exact I; [|exact IH2].
        cbn [e_ty]. rewrite Etb in IH2. exact IH2.
    - subst o0. rewrite (sticky_e _ _ _ _ _ _ _ Ha), (sticky_e _ _ _ _ _ _ _ Hb). now destruct cb.
  Qed.

  (* ---------------------------------------------------------------- && and || *)

  Lemma logic_run_inv re rp rb (land : bool) x y m t E o w E' o' :
    lower_expr_body tops P re rp rb (Ex (EOp (if land then OLAnd else OLOr) x y) m t) E o = Ok ((w, E'), o') ->
    exists bx E1 o1 by_ E2 o2 oM,
      re x E o = Ok (([bx], E1), o1) /\ re y E1 o1 = Ok (([by_], E2), o2) /\
      (if land then mux_envs tops bx E2 E1 o2 else mux_envs tops bx E1 E2 o2) = Ok (E', oM) /\
      w = [if land then bx && by_ else bx || by_] /\
      o' = (if land then (if bx then oM else o1) else (if bx then o1 else oM)).
  Proof.
    intro H. destruct land; cbn [lower_expr_body] in H.
    - minva H as [xw E1] o1 Hx.
      minva H as bx o1' Hw. apply one_wire_inv in Hw. destruct Hw as [-> ->]. mprim H.
      minva H as [yw E2] o2 Hy.
      minva H as by_ o2' Hw. apply one_wire_inv in Hw. destruct Hw as [-> ->].
      minva H as Em oM Hmux. mprim H. mprim H. mprim H. mprim H.
      apply ret_inv in H. destruct H as [Heq ->]. injection Heq as -> ->.
      exists bx, E1, o1, by_, E2, o2, oM. repeat split; assumption || reflexivity.
    - minva H as [xw E1] o1 Hx.
      minva H as bx o1' Hw. apply one_wire_inv in Hw. destruct Hw as [-> ->]. mprim H.
      minva H as [yw E2] o2 Hy.
      minva H as by_ o2' Hw. apply one_wire_inv in Hw. destruct Hw as [-> ->].
      minva H as Em oM Hmux. mprim H. mprim H. mprim H. mprim H.
      apply ret_inv in H. destruct H as [Heq ->]. injection Heq as -> ->.
      exists bx, E1, o1, by_, E2, o2, oM. repeat split; assumption || reflexivity.
  Qed.

  Lemma logic_node f g (land : bool) x y m :
    AgE f g x -> AgE f g y -> KP y -> e_ty x = TBool -> e_ty y = TBool ->
    AgE (S f) g (Ex (EOp (if land then OLAnd else OLOr) x y) m TBool).
  Proof.
    intros IHx IHy Ky Etx Ety en E fT w E' o' Hrel Hrun.
    destruct fT as [|fT]; [discriminate Hrun|]. rewrite lower_expr_S in Hrun.
    apply logic_run_inv in Hrun.
    destruct Hrun as (bx & E1 & o1 & by_ & E2 & o2 & oM & Hx & Hy & Hmux & -> & ->).
    assert (Sem.eval (S f) P en (Ex (EOp (if land then OLAnd else OLOr) x y) m TBool) =
            Sem.obind (Sem.eval f P en x) (fun '(vx, en1) =>
              match vx with
              | Sem.VBool bx =>
                  if Bool.eqb bx land then Sem.eval f P en1 y else Sem.Done (Sem.VBool bx, en1)
              | _ => Sem.Stuck (if land then 44 else 45)
              end)) as ->.
    { destruct land; [rewrite sem_eval_land|rewrite sem_eval_lor];
        destruct (Sem.eval f P en x) as [[[[]| | | |] ?]| | |]; reflexivity. }
    pose proof (IHx en E fT _ _ _ Hrel Hx) as IH1. revert IH1.
    destruct (Sem.eval f P en x) as [[vx en1]|r1 m1|c1|]; intro IH1; cbn [Sem.obind]; try exact I.
    - destruct IH1 as (-> & HV & Hrel1). rewrite Etx in HV.
      destruct (VR_bool _ _ HV) as (b' & -> & [= <-]).
      pose proof (Ky _ _ _ _ _ _ Hy) as Hk. pose proof (rel_wf _ _ _ Hrel1) as Hwf1.
      assert (E' = (if Bool.eqb bx land then E2 else E1) /\ oM = o2) as [-> ->].
      { destruct land.
        - apply mux_envs_inv in Hmux; [|exact Hk|exact Hwf1]. destruct Hmux as [-> ->]. now destruct bx.
        - apply mux_envs_inv in Hmux; [|now symmetry|now apply (wf_env_keys E1)].
          destruct Hmux as [-> ->]. now destruct bx. }
      destruct (Bool.eqb bx land) eqn:Hbl.
      + apply Bool.eqb_prop in Hbl. subst bx.
        pose proof (IHy en1 E1 fT _ _ _ Hrel1 Hy) as IH2. revert IH2.
        destruct (Sem.eval f P en1 y) as [[vy en2]|r2 m2|c2|]; intro IH2; try exact I.
        * destruct IH2 as (-> & HVy & Hrel2). rewrite Ety in HVy.
          destruct (VR_bool _ _ HVy) as (b' & -> & [= <-]). cbn [e_ty].
          destruct land; cbn [andb orb]; auto.
        * subst o2. now destruct land.
      + cbn [e_ty]. destruct land, bx; try discriminate Hbl; cbn [andb orb]; auto.
    - subst o1. pose proof (sticky_e _ _ _ _ _ _ _ Hy) as ->.
      assert (oM = Some (pcode r1 m1)) as ->.
      { destruct land; eapply stkx_mux_envs; exact Hmux. }
      now destruct land, bx.
  Qed.

  (* ---------------------------------------------------------------- statements *)

  Lemma lower_stmt_S fuel s E :
    lower_stmt tops (S fuel) P s E =
    lower_stmt_body tops P (lower_expr tops fuel P) (lower_pattern tops fuel P) (lower_stmt tops fuel P) s E.
  Proof. reflexivity. Qed.

  Lemma sexpr_node f g e m : AgE f g e -> AgS (S f) g g (e_ty e) (St (SExpr e) m).
  Proof.
    intros IH en E fT w E' o' Hrel Hrun. destruct fT as [|fT]; [discriminate Hrun|].
    rewrite lower_stmt_S in Hrun. cbn [lower_stmt_body] in Hrun.
    change (Sem.exec (S f) P en (St (SExpr e) m)) with (Sem.eval f P en e).
    exact (IH en E fT _ _ _ Hrel Hrun).
  Qed.

  Lemma sem_exec_letmut f en x e m :
    Sem.exec (S f) P en (St (SLetMut x e) m) =
    Sem.obind (Sem.eval f P en e) (fun '(v, en1) => Sem.Done (Sem.unit_val, Sem.bind_var en1 x v)).
  Proof. reflexivity. Qed.

  Lemma sem_exec_let_id f en x mp tp e m :
    Sem.exec (S f) P en (St (SLet (Pat (PId x) mp tp) e) m) =
    Sem.obind (Sem.eval f P en e) (fun '(v, en1) => Sem.Done (Sem.unit_val, Sem.bind_var en1 x v)).
  Proof. reflexivity. Qed.

  Lemma letmut_node f g x e m :
    AgE f g e -> AgS (S f) g (tbind g x (e_ty e) true) unit_ty (St (SLetMut x e) m).
  Proof.
    intros IH en E fT w E' o' Hrel Hrun. destruct fT as [|fT]; [discriminate Hrun|].
    rewrite lower_stmt_S in Hrun. cbn [lower_stmt_body] in Hrun.
    minva Hrun as [w1 E1] o1 He. minva Hrun as E2 o2 Hl. apply lift_res_inv in Hl. destruct Hl as [Hl ->].
    apply ret_inv in Hrun. destruct Hrun as [Heq ->]. injection Heq as -> ->.
    rewrite sem_exec_letmut. pose proof (IH en E fT _ _ _ Hrel He) as IH1. revert IH1.
    destruct (Sem.eval f P en e) as [[v en1]|r1 m1|c1|]; intro IH1; cbn [Sem.obind]; try exact I; [|exact IH1].
    destruct IH1 as (-> & HV & Hrel1). split; [reflexivity|]. split; [exact VR_unit|].
    eapply rel_let; eassumption.
  Qed.

  Lemma let_node f g x mp e m :
    AgE f g e -> AgS (S f) g (tbind g x (e_ty e) false) unit_ty (St (SLet (Pat (PId x) mp (e_ty e)) e) m).
  Proof.
    intros IH en E fT w E' o' Hrel Hrun. destruct fT as [|fT]; [discriminate Hrun|].
    rewrite lower_stmt_S in Hrun. cbn [lower_stmt_body] in Hrun.
    minva Hrun as [w1 E1] o1 He. minva Hrun as [c2 E2] o2 Hp.
    apply ret_inv in Hrun. destruct Hrun as [Heq ->]. injection Heq as -> ->.
    destruct fT as [|fT']; [discriminate Hp|].
    change (lower_pattern tops (S fT') P (Pat (PId x) mp (e_ty e)) w1 E1 o1)
      with (lower_pattern_body tops P (lower_pattern tops fT' P) (Pat (PId x) mp (e_ty e)) w1 E1 o1) in Hp.
    cbn [lower_pattern_body] in Hp. minva Hp as E3 o3 Hl. apply lift_res_inv in Hl. destruct Hl as [Hl ->].
    apply ret_inv in Hp. destruct Hp as [Heq ->]. injection Heq as _ ->.
    rewrite sem_exec_let_id. pose proof (IH en E (S fT') _ _ _ Hrel He) as IH1. revert IH1.
    destruct (Sem.eval f P en e) as [[v en1]|r1 m1|c1|]; intro IH1; cbn [Sem.obind]; try exact I; [|exact IH1].
    destruct IH1 as (-> & HV & Hrel1). split; [reflexivity|]. split; [exact VR_unit|].
    eapply rel_let; eassumption.
  Qed.

  Lemma sem_exec_assign0 f en x e m :
    Sem.exec (S f) P en (St (SAssign x [] e) m) =
    Sem.obind (Sem.eval f P en e) (fun '(nv, en0) =>
      match Sem.lookup_var en0 x with
      | None => Sem.Stuck 61
      | Some cur =>
          match Sem.lookup_var en0 x with
          | Some cur2 =>
              match Sem.assign_var en0 x nv with
              | Some en3 => Sem.Done (Sem.unit_val, en3)
              | None => Sem.Stuck 70
              end
          | None => Sem.Stuck 72
          end
      end).
  Proof. reflexivity. Qed.

  Lemma assign_node f g x e m mu :
    AgE f g e -> tlookup g x = Some (e_ty e, mu) -> AgS (S f) g g unit_ty (St (SAssign x [] e) m).
  Proof.
    intros IH Hlk en E fT w E' o' Hrel Hrun. destruct fT as [|fT]; [discriminate Hrun|].
    rewrite lower_stmt_S in Hrun. cbn [lower_stmt_body assign_indexes assign_forward assign_backward] in Hrun.
    minva Hrun as [w1 E1] o1 He.
    minva Hrun as [idxs E2] o2 H2. apply ret_inv in H2. destruct H2 as [Heq ->]. injection Heq as -> ->.
    minva Hrun as coll o3 H3.
    minva Hrun as acc o4 H4. apply ret_inv in H4. destruct H4 as [-> ->].
    minva Hrun as v' o5 H5. apply ret_inv in H5. destruct H5 as [-> ->].
    minva Hrun as E3 o6 H6. apply lift_res_inv in H6. destruct H6 as [Ha ->].
    apply ret_inv in Hrun. destruct Hrun as [Heq ->]. injection Heq as -> ->.
    rewrite sem_exec_assign0. pose proof (IH en E fT _ _ _ Hrel He) as IH1. revert IH1.
    destruct (Sem.eval f P en e) as [[v en1]|r1 m1|c1|]; intro IH1; cbn [Sem.obind]; try exact I.
    - destruct IH1 as (-> & HV & Hrel1).
      destruct (rel_lookup _ _ _ _ _ _ Hrel1 Hlk) as (v0 & w0 & Hv0 & Hw0 & _). rewrite Hv0.
      rewrite Hw0 in H3. apply ret_inv in H3. destruct H3 as [_ ->].
      destruct (rel_assign _ _ _ _ _ _ _ _ _ Hrel1 Hlk HV Ha) as (en3 & -> & Hrel3).
      split; [reflexivity|]. split; [exact VR_unit|exact Hrel3].
    - subst o1. destruct (env_get E1 x); [|discriminate H3]. apply ret_inv in H3. now destruct H3 as [_ ->].
  Qed.

  (* ---------------------------------------------------------------- statement lists, blocks *)

  (* the loop of [Sem.exec_block] *)
  Fixpoint sem_stmts (f : nat) (ss : list stmt) (last : Sem.value) (en : Sem.env)
    : Sem.outcome (Sem.value * Sem.env) :=
    match ss with
    | [] => Sem.Done (last, en)
    | s :: r => Sem.obind (Sem.exec f P en s) (fun '(v, en1) => sem_stmts f r v en1)
    end.

  Lemma exec_block_S f en b : Sem.exec_block (S f) P en b = sem_stmts f b Sem.unit_val en.
  Proof.
    cbn [Sem.exec_block]. generalize Sem.unit_val. revert en.
    induction b as [|s r IH]; intros en last; [reflexivity|].
    cbn [sem_stmts]. destruct (Sem.exec f P en s) as [[v en1]|r1 m1|c1|]; cbn [Sem.obind]; try reflexivity.
    apply IH.
  Qed.

  (* every statement of the list agrees, the contexts are threaded: context before, the
     statements, type of the value so far, context after, type of the value *)
  Inductive AgSS (f : nat) : tenv -> list stmt -> ty -> tenv -> ty -> Prop :=
  | AgSS_nil g t : AgSS f g [] t g t
  | AgSS_cons g s r g1 t1 t0 g' t :
      AgS f g g1 t1 s -> AgSS f g1 r t1 g' t -> AgSS f g (s :: r) t0 g' t.

  Lemma stmts_node f g ss t0 g' t : AgSS f g ss t0 g' t ->
    forall en E fT last lw w E' o',
    env_rel3 en E g -> VR t0 last lw ->
    block_stmts (lower_stmt tops fT P) ss lw E None = Ok ((w, E'), o') ->
    match sem_stmts f ss last en with
    | Sem.Done (v, en') => o' = None /\ VR t v w /\ env_rel3 en' E' g'
    | Sem.Panicked r m => o' = Some (pcode r m)
    | _ => True
    end.
  Proof.
    induction 1 as [g t|g s r g1 t1 t0 g' t Hs _ IH]; intros en E fT last lw w E' o' Hrel HV Hrun.
    - cbn [block_stmts] in Hrun. apply ret_inv in Hrun. destruct Hrun as [Heq ->]. injection Heq as -> ->.
      cbn [sem_stmts]. auto.
    - cbn [block_stmts] in Hrun. minva Hrun as [w1 E1] o1 H1. cbn [sem_stmts].
      pose proof (Hs en E fT _ _ _ Hrel H1) as IH1. revert IH1.
      destruct (Sem.exec f P en s) as [[v en1]|r1 m1|c1|]; intro IH1; cbn [Sem.obind]; try exact I.
      + destruct IH1 as (-> & HV1 & Hrel1). exact (IH en1 E1 fT v w1 _ _ _ Hrel1 HV1 Hrun).
      + subst o1. destruct (tsem_sticky_fuel (pcode r1 m1) P fT) as (_ & _ & Hss & _).
        exact (stkx_block_stmts _ _ Hss r w1 E1 _ _ Hrun).
  Qed.

  Lemma sem_eval_block f en b m t :
    Sem.eval (S f) P en (Ex (EBlock b) m t) =
    Sem.obind (Sem.exec_block f P (Sem.push_scope en) b) (fun '(v, en1) => Sem.Done (v, Sem.pop_scope en1)).
  Proof. reflexivity. Qed.

  Lemma lower_block_S fuel ss E :
    lower_block tops (S fuel) P ss E = lower_block_body (lower_stmt tops fuel P) ss E.
  Proof. reflexivity. Qed.

  Lemma block_run_agrees f g ss g1 t : AgSS f ([] :: g) ss unit_ty g1 t -> tl g1 = g ->
    forall en E fT w E' o',
    env_rel3 en E g -> lower_block tops fT P ss E None = Ok ((w, E'), o') ->
    match Sem.obind (Sem.exec_block (S f) P (Sem.push_scope en) ss)
                    (fun '(v, en1) => Sem.Done (v, Sem.pop_scope en1)) with
    | Sem.Done (v, en') => o' = None /\ VR t v w /\ env_rel3 en' E' g
    | Sem.Panicked r m => o' = Some (pcode r m)
    | _ => True
    end.
  Proof.
    intros Hss Htl en E fT w E' o' Hrel Hrun.
    destruct fT as [|fT]; [discriminate Hrun|]. rewrite lower_block_S in Hrun. unfold lower_block_body in Hrun.
    minva Hrun as [w1 E1] o1 H1. minva Hrun as E2 o2 H2. apply lift_res_inv in H2. destruct H2 as [Hp ->].
    apply ret_inv in Hrun. destruct Hrun as [Heq ->]. injection Heq as -> ->.
    rewrite exec_block_S.
    pose proof (stmts_node f _ _ _ _ _ Hss (Sem.push_scope en) (env_push E) fT Sem.unit_val [] _ _ _
                  (rel_push _ _ _ Hrel) VR_unit H1) as IH1. revert IH1.
    destruct (sem_stmts f ss Sem.unit_val (Sem.push_scope en)) as [[v en1]|r1 m1|c1|]; intro IH1;
      cbn [Sem.obind]; try exact I; [|exact IH1].
    destruct IH1 as (-> & HV & Hrel1). split; [reflexivity|]. split; [exact HV|].
    rewrite <- Htl. eapply rel_pop; eassumption.
  Qed.

  Lemma block_node f g ss m t g1 : AgSS f ([] :: g) ss unit_ty g1 t -> tl g1 = g ->
    AgE (S (S f)) g (Ex (EBlock ss) m t).
  Proof.
    intros Hss Htl en E fT w E' o' Hrel Hrun. rewrite sem_eval_block.
    destruct fT as [|fT]; [discriminate Hrun|]. rewrite lower_expr_S in Hrun. cbn [lower_expr_body] in Hrun.
    cbn [e_ty]. exact (block_run_agrees f g ss g1 t Hss Htl en E fT _ _ _ Hrel Hrun).
  Qed.
End Control.

(* ------------------------------------------------------------------ PART 2: scalars *)

(* the value relation: scalars as in TSemSemExpr.v, and the unit value (no bits) *)
Definition VRs (t : ty) (v : Sem.value) (w : list bool) : Prop :=
  (scalar_ty t = true /\ val_ok t v /\ w = enc_val t v) \/
  (t = unit_ty /\ v = Sem.unit_val /\ w = []).

Lemma VRs_bool v w : VRs TBool v w -> exists b, v = Sem.VBool b /\ w = [b].
Proof.
  intros [(_ & Hv & ->)|(Ht & _)]; [|discriminate Ht].
  destruct v; try contradiction. eauto.
Qed.

Lemma VRs_unit : VRs unit_ty Sem.unit_val [].
Proof. right. auto. Qed.

Lemma VRs_scalar t v w : scalar_ty t = true -> VRs t v w -> val_ok t v /\ w = enc_val t v.
Proof. intros Hs [(_ & Hv & ->)|(-> & _)]; [auto|discriminate Hs]. Qed.

Lemma VRs_intro t v : scalar_ty t = true -> val_ok t v -> VRs t v (enc_val t v).
Proof. intros. left. auto. Qed.

Section Scalar.
  Variable P : program.
  Notation AgE' := (AgE P VRs).
  Notation rel := (env_rel3 VRs).

  Lemma lit_true_node f g m : AgE' f g (Ex ETrue m TBool).
  Proof.
    intros en E fT w E' o' Hrel Hrun. destruct fT as [|fT]; [discriminate Hrun|].
    apply ret_inv in Hrun. destruct Hrun as [Heq ->]. injection Heq as -> ->.
    destruct f; [exact I|]. cbn [Sem.eval e_ty]. repeat split; [|exact Hrel]. now apply VRs_intro.
  Qed.

  Lemma lit_false_node f g m : AgE' f g (Ex EFalse m TBool).
  Proof.
    intros en E fT w E' o' Hrel Hrun. destruct fT as [|fT]; [discriminate Hrun|].
    apply ret_inv in Hrun. destruct Hrun as [Heq ->]. injection Heq as -> ->.
    destruct f; [exact I|]. cbn [Sem.eval e_ty]. repeat split; [|exact Hrel]. now apply VRs_intro.
  Qed.

  Lemma lit_numU_node f g n lb m sg b : ok_width b = true -> lit_fits (TInt sg b) (Z.of_N n) = true ->
    AgE' f g (Ex (ENumU n lb) m (TInt sg b)).
  Proof.
    intros Hb Hl en E fT w E' o' Hrel Hrun. destruct fT as [|fT]; [discriminate Hrun|].
    apply ret_inv in Hrun. destruct Hrun as [Heq ->]. injection Heq as -> ->.
    destruct f; [exact I|]. cbn [Sem.eval e_ty]. repeat split; [|exact Hrel].
    rewrite tsem_unsigned_as_wires. apply (VRs_intro (TInt sg b) (Sem.VInt (Z.of_N n))); [exact Hb|].
    cbn [val_ok]. now rewrite <- lit_fits_in_range.
  Qed.

  Lemma lit_numS_node f g z lb m sg b : ok_width b = true -> lit_fits (TInt sg b) z = true ->
    AgE' f g (Ex (ENumS z lb) m (TInt sg b)).
  Proof.
    intros Hb Hl en E fT w E' o' Hrel Hrun. destruct fT as [|fT]; [discriminate Hrun|].
    apply ret_inv in Hrun. destruct Hrun as [Heq ->]. injection Heq as -> ->.
    destruct f; [exact I|]. cbn [Sem.eval e_ty]. repeat split; [|exact Hrel].
    rewrite tsem_signed_as_wires. apply (VRs_intro (TInt sg b) (Sem.VInt z)); [exact Hb|].
    cbn [val_ok]. now rewrite <- lit_fits_in_range.
  Qed.

  Lemma id_node f g x m t mu : tlookup g x = Some (t, mu) -> AgE' f g (Ex (EId x) m t).
  Proof.
    intros Hl en E fT w E' o' Hrel Hrun. destruct fT as [|fT]; [discriminate Hrun|].
    rewrite lower_expr_S in Hrun. cbn [lower_expr_body] in Hrun.
    destruct (rel_lookup _ _ _ _ _ _ _ Hrel Hl) as (v & w0 & Hv & Hw & HV). rewrite Hw in Hrun.
    apply ret_inv in Hrun. destruct Hrun as [Heq ->]. injection Heq as -> ->.
    destruct f; [exact I|]. cbn [Sem.eval e_ty]. rewrite Hv. auto.
  Qed.

  (* ---------------------------------------------------------------- + - * / % & ^ | < > == != *)

  Lemma binop_run_inv re rp rb o x y m t E o0 w E' o' :
    op_arith o || op_cmp o || op_eq o = true ->
    (o = OMul -> is_num_lit x = false /\ is_num_lit y = false) ->
    lower_expr_body tops P re rp rb (Ex (EOp o x y) m t) E o0 = Ok ((w, E'), o') ->
    exists xw E1 o1 yw o2,
      re x E o0 = Ok ((xw, E1), o1) /\ re y E1 o1 = Ok ((yw, E'), o2) /\
      lower_binop tops o t (e_ty x) (e_ty y) xw yw m o2 = Ok (w, o').
  Proof.
    intros Ho Hm H.
    destruct o; try discriminate Ho; cbn [lower_expr_body] in H;
      try (destruct (Hm eq_refl) as [H1 H2]; rewrite (mul_rewrite_none x y m t H1 H2) in H);
      minva H as [xw E1] o1 Hx; minva H as [yw E2] o2 Hy; minva H as r o3 Hb;
      apply ret_inv in H; destruct H as [Heq ->]; injection Heq as -> ->;
      exists xw, E1, o1, yw, o2; auto.
  Qed.

  Lemma binop_node_p f g o x y m t tx :
    op_arith o || op_cmp o || op_eq o = true ->
    (o = OMul -> is_num_lit x = false /\ is_num_lit y = false) ->
    e_ty x = tx -> e_ty y = tx -> scalar_ty tx = true -> scalar_ty t = true ->
    (forall vx vy len, val_ok tx vx -> val_ok tx vy -> binop_agrees o m t tx vx vy len) ->
    AgE' f g x -> AgE' f g y -> AgE' (S f) g (Ex (EOp o x y) m t).
  Proof.
    intros Ho Hm Etx Ety Hsx Hst Hag IHx IHy en E fT w E' o' Hrel Hrun.
    destruct fT as [|fT]; [discriminate Hrun|]. rewrite lower_expr_S in Hrun.
    apply binop_run_inv in Hrun; [|exact Ho|exact Hm].
    destruct Hrun as (xw & E1 & o1 & yw & o2 & Hx & Hy & Hb).
    rewrite (sem_eval_op P f en o x y m t Ho).
    pose proof (IHx en E fT _ _ _ Hrel Hx) as IH1. revert IH1.
    destruct (Sem.eval f P en x) as [[vx en1]|r1 m1|c1|]; intro IH1; cbn [Sem.obind]; try exact I.
    - destruct IH1 as (-> & HVx & Hrel1). rewrite Etx in HVx.
      destruct (VRs_scalar _ _ _ Hsx HVx) as [Hokx ->].
      pose proof (IHy en1 E1 fT _ _ _ Hrel1 Hy) as IH2. revert IH2.
      destruct (Sem.eval f P en1 y) as [[vy en2]|r2 m2|c2|]; intro IH2; cbn [Sem.obind]; try exact I.
      + destruct IH2 as (-> & HVy & Hrel2). rewrite Ety in HVy.
        destruct (VRs_scalar _ _ _ Hsx HVy) as [Hoky ->].
        pose proof (Hag vx vy (Sem.lenient en2) Hokx Hoky) as HA. unfold binop_agrees in HA.
        rewrite Etx, Ety in Hb. rewrite Etx. revert HA.
        destruct (Sem.eval_binop o m t tx vx vy (Sem.lenient en2)) as [[v len]|r3 m3|c3|];
          intro HA; cbn [Sem.obind]; try contradiction.
        * destruct HA as [Hokv HB]. rewrite HB in Hb. injection Hb as <- <-. cbn [e_ty].
          split; [reflexivity|]. split; [now apply VRs_intro|]. eapply rel_scopes; [|exact Hrel2]. reflexivity.
        * destruct HA as [-> [w' HB]]. rewrite HB in Hb. now injection Hb as _ <-.
      + subst o2. exact (stkx_lower_binop _ _ _ _ _ _ _ _ _ _ Hb).
    - subst o1. pose proof (sticky_e P _ _ _ _ _ _ _ Hy) as ->.
      exact (stkx_lower_binop _ _ _ _ _ _ _ _ _ _ Hb).
  Qed.

  (* ---------------------------------------------------------------- << >> *)

  Lemma shift_run_inv re rp rb (left : bool) x y m t E o0 w E' o' :
    lower_expr_body tops P re rp rb (Ex (EOp (if left then OShl else OShr) x y) m t) E o0 = Ok ((w, E'), o') ->
    exists xw E1 o1 yw o2,
      re x E o0 = Ok ((xw, E1), o1) /\ re y E1 o1 = Ok ((yw, E'), o2) /\
      lower_shift tops left (is_signed (e_ty x)) xw yw m o2 = Ok (w, o').
  Proof.
    intro H. destruct left; cbn [lower_expr_body] in H;
      minva H as [xw E1] o1 Hx; minva H as [yw E2] o2 Hy; minva H as r o3 Hb;
      apply ret_inv in H; destruct H as [Heq ->]; injection Heq as -> ->;
      exists xw, E1, o1, yw, o2; auto.
  Qed.

  Lemma shift_node_p f g (left : bool) x y m sg b :
    ok_width b = true -> e_ty x = TInt sg b -> e_ty y = TInt false 8 ->
    AgE' f g x -> AgE' f g y -> AgE' (S f) g (Ex (EOp (if left then OShl else OShr) x y) m (TInt sg b)).
  Proof.
    intros Hb Etx Ety IHx IHy en E fT w E' o' Hrel Hrun.
    destruct fT as [|fT]; [discriminate Hrun|]. rewrite lower_expr_S in Hrun.
    apply shift_run_inv in Hrun. destruct Hrun as (xw & E1 & o1 & yw & o2 & Hx & Hy & Hs).
    rewrite (sem_eval_shift P f en (if left then OShl else OShr) x y m (TInt sg b) ltac:(now destruct left)).
    pose proof (IHx en E fT _ _ _ Hrel Hx) as IH1. revert IH1.
    destruct (Sem.eval f P en x) as [[vx en1]|r1 m1|c1|]; intro IH1; cbn [Sem.obind]; try exact I.
    - destruct IH1 as (-> & HVx & Hrel1). rewrite Etx in HVx.
      destruct (VRs_scalar (TInt sg b) _ _ Hb HVx) as [Hokx ->].
      pose proof (IHy en1 E1 fT _ _ _ Hrel1 Hy) as IH2. revert IH2.
      destruct (Sem.eval f P en1 y) as [[vy en2]|r2 m2|c2|]; intro IH2; cbn [Sem.obind]; try exact I.
      + destruct IH2 as (-> & HVy & Hrel2). rewrite Ety in HVy.
        destruct (VRs_scalar (TInt false 8) _ _ eq_refl HVy) as [Hoky ->].
        destruct vx as [|a| | |]; try contradiction. destruct vy as [|s| | |]; try contradiction.
        cbn [val_ok enc_val] in *. change (N.to_nat 8) with 8%nat in Hs.
        rewrite Etx, is_signed_int in Hs.
        rewrite (tsem_lower_shift left sg _ _ m None (length_enc 8 s)
                   (eq_ind_r (fun k => In k [8; 16; 32; 64]%nat) (ok_width_in b Hb) (length_enc (N.to_nat b) a))) in Hs.
        pose proof (shift_agrees left m sg b a s (Sem.lenient en2) Hb Hokx Hoky) as HA. cbv zeta in HA.
        rewrite Etx. revert HA.
        destruct (Sem.eval_binop (if left then OShl else OShr) m (TInt sg b) (TInt sg b) (Sem.VInt a) (Sem.VInt s)
                    (Sem.lenient en2)) as [[v len]|r3 m3|c3|]; intro HA; cbn [Sem.obind]; try contradiction.
        * destruct HA as (Hokv & Hval & Hcond). rewrite Hval, Hcond in Hs. injection Hs as <- <-. cbn [e_ty].
          split; [reflexivity|]. split; [now apply VRs_intro|]. eapply rel_scopes; [|exact Hrel2]. reflexivity.
        * destruct HA as (-> & -> & Hcond). rewrite Hcond in Hs. now injection Hs as _ <-.
      + subst o2. exact (stkx_lower_shift _ _ _ _ _ _ _ _ Hs).
    - subst o1. pose proof (sticky_e P _ _ _ _ _ _ _ Hy) as ->.
      exact (stkx_lower_shift _ _ _ _ _ _ _ _ Hs).
  Qed.

  (* ---------------------------------------------------------------- unary minus, `!`, casts *)

  Lemma stkx_neg_steps {A} p x m (k : list bool -> MB A) : (forall r, stkx p (k r)) -> stkx p (neg_steps x m k).
  Proof. intro Hk. unfold neg_steps. stk. Qed.

  Lemma neg_node_p f g e1 m b : ok_width b = true -> e_ty e1 = TInt true b ->
    AgE' f g e1 -> AgE' (S f) g (Ex (ENeg e1) m (TInt true b)).
  Proof.
    intros Hb Et1 IH en E fT w E' o' Hrel Hrun.
    destruct fT as [|fT]; [discriminate Hrun|]. rewrite lower_expr_S, lower_neg_case in Hrun.
    minva Hrun as [x E1] o1 He. cbv beta iota in Hrun.
    rewrite (sem_eval_neg P). pose proof (ok_width_pos b Hb) as Hb2.
    pose proof (IH en E fT _ _ _ Hrel He) as IH1. revert IH1.
    destruct (Sem.eval f P en e1) as [[v en1]|r1 m1|c1|]; intro IH1; cbn [Sem.obind]; try exact I.
    - destruct IH1 as (-> & HV & Hrel1). rewrite Et1 in HV.
      destruct (VRs_scalar (TInt true b) _ _ Hb HV) as [Hok ->].
      destruct v as [|z| | |]; try contradiction. cbn [val_ok enc_val Sem.int_ty] in *.
      rewrite neg_steps_correct in Hrun by (apply enc_nonempty; lia).
      rewrite length_enc, N2Nat.id, (sval_enc_ok b z) in Hrun by (assumption || lia).
      apply ret_inv in Hrun. destruct Hrun as [Heq ->]. injection Heq as -> ->.
      unfold Sem.checked. destruct (Sem.in_range true b (- z)) eqn:Hr; cbn [Sem.obind negb push_spec e_ty].
      + split; [reflexivity|]. split; [|exact Hrel1]. now apply (VRs_intro (TInt true b) (Sem.VInt (- z))).
      + reflexivity.
    - subst o1. refine (stkx_neg_steps _ x m _ _ _ _ Hrun). intro r. apply stkx_ret.
  Qed.

  Lemma not_run_inv re rp rb e1 m t E o w E' o' :
    lower_expr_body tops P re rp rb (Ex (ENot e1) m t) E o = Ok ((w, E'), o') ->
    exists x, re e1 E o = Ok ((x, E'), o') /\ w = map negb x.
  Proof.
    intro H. cbn [lower_expr_body] in H. minva H as [x E1] o1 He. minva H as r o2 Hn.
    rewrite mapM_not_tops in Hn. injection Hn as <- <-.
    apply ret_inv in H. destruct H as [Heq ->]. injection Heq as -> ->. eauto.
  Qed.

  Lemma not_node_p f g e1 m t : scalar_ty t = true -> e_ty e1 = t ->
    AgE' f g e1 -> AgE' (S f) g (Ex (ENot e1) m t).
  Proof.
    intros Hsc Et1 IH en E fT w E' o' Hrel Hrun.
    destruct fT as [|fT]; [discriminate Hrun|]. rewrite lower_expr_S in Hrun.
    apply not_run_inv in Hrun. destruct Hrun as (x & He & ->).
    rewrite (sem_eval_not P). pose proof (IH en E fT _ _ _ Hrel He) as IH1. revert IH1.
    destruct (Sem.eval f P en e1) as [[v en1]|r1 m1|c1|]; intro IH1; cbn [Sem.obind]; try exact I; [|exact IH1].
    destruct IH1 as (-> & HV & Hrel1). rewrite Et1 in HV. destruct (VRs_scalar _ _ _ Hsc HV) as [Hok ->].
    destruct t as [|sg b| | | |]; try discriminate Hsc; destruct v as [p|z| | |]; try contradiction;
      cbn [e_ty val_ok enc_val map] in *.
    - split; [reflexivity|]. split; [|exact Hrel1]. now apply (VRs_intro TBool (Sem.VBool (negb p))).
    - pose proof (ok_width_pos b Hsc) as Hb2. split; [reflexivity|]. split; [|exact Hrel1].
      rewrite map_negb_enc, <- (enc_wrap sg b).
      apply (VRs_intro (TInt sg b) (Sem.VInt (Sem.wrap sg b (Z.lnot z)))); [exact Hsc|].
      apply wrap_in_range. lia.
  Qed.

  Lemma cast_node_p f g e1 m t : scalar_ty t = true -> scalar_ty (e_ty e1) = true ->
    AgE' f g e1 -> AgE' (S f) g (Ex (ECast t e1) m t).
  Proof.
    intros Hsc Hsc1 IH en E fT w E' o' Hrel Hrun.
    destruct fT as [|fT]; [discriminate Hrun|]. rewrite lower_expr_S in Hrun.
    pose proof Hrun as H0. cbn [lower_expr_body] in H0. minva H0 as [x E1] o1 He. clear H0.
    destruct (tsem_cast_correct P _ (lower_pattern tops fT P) (lower_block tops fT P) t e1 m t E None x E1 o1 He)
      as (r & HR & _).
    rewrite (sem_eval_cast P). pose proof (IH en E fT _ _ _ Hrel He) as IH1. revert IH1.
    destruct (Sem.eval f P en e1) as [[v en1]|r1 m1|c1|]; intro IH1; cbn [Sem.obind]; try exact I.
    - destruct IH1 as (-> & HV & Hrel1). destruct (VRs_scalar _ _ _ Hsc1 HV) as [Hok ->].
      pose proof (cast_agrees P _ (lower_pattern tops fT P) (lower_block tops fT P) t e1 m E None v E1 None
                    Hsc Hsc1 Hok He) as HC. revert HC.
      destruct (Sem.eval_cast t (e_ty e1) v) as [v'| | |]; intro HC; try contradiction; cbn [Sem.obind].
      destruct HC as [Hokv HB]. rewrite HB in Hrun. injection Hrun as <- <- <-. cbn [e_ty].
      split; [reflexivity|]. split; [now apply VRs_intro|exact Hrel1].
    - subst o1. rewrite HR in Hrun. now injection Hrun as _ _ <-.
  Qed.
End Scalar.

(* ------------------------------------------------------------------ the fragment (syntactic) and
   the keys of the environment *)

Fixpoint imp_expr (e : expr) : bool :=
  match e with
  | Ex ei _ _ =>
    match ei with
    | ETrue | EFalse | ENumU _ _ | ENumS _ _ | EId _ => true
    | ENeg e1 | ENot e1 | ECast _ e1 => imp_expr e1
    | EOp o x y =>
        imp_expr x && imp_expr y &&
        match o with OMul => negb (is_num_lit x) && negb (is_num_lit y) | _ => true end
    | EIf c a b => imp_expr c && imp_expr a && imp_expr b
    | EBlock b => forallb imp_stmt b
    | _ => false
    end
  end
with imp_stmt (s : stmt) : bool :=
  match s with
  | St si _ =>
    match si with
    | SLet (Pat (PId _) _ _) e => imp_expr e
    | SLetMut _ e => imp_expr e
    | SAssign _ [] e => imp_expr e
    | SExpr e => imp_expr e
    | _ => false
    end
  end.

Lemma mux_scope_keys c b0 : forall a (o : pobs) r o', mux_scope tops c a b0 o = Ok (r, o') -> map fst r = map fst a.
Proof.
  induction a as [|[k va] a IH]; intros o r o' H; cbn [mux_scope] in H.
  - apply ret_inv in H. now destruct H as [-> _].
  - destruct (assocN k b0); [|discriminate H]. minva H as ws o1 H1. minva H as r' o2 H2.
    apply ret_inv in H. destruct H as [-> _]. cbn [map fst]. f_equal. eapply IH; eassumption.
Qed.

Lemma mux_scopes_keys c : forall sa sb (o : pobs) r o',
  mux_scopes tops c sa sb o = Ok (r, o') -> map (map fst) r = map (map fst) sa.
Proof.
  induction sa as [|a sa IH]; intros [|b sb] o r o' H; cbn [mux_scopes] in H; try discriminate H.
  - apply ret_inv in H. now destruct H as [-> _].
  - minva H as s o1 H1. minva H as r' o2 H2. apply ret_inv in H. destruct H as [-> _].
    cbn [map]. f_equal; [eapply mux_scope_keys; eassumption|eapply IH; eassumption].
Qed.

Lemma map_rev_eq {A B} (f : A -> B) l l' : map f l = map f (rev l') -> map f (rev l) = map f l'.
Proof. intro H. rewrite map_rev, H, map_rev. apply rev_involutive. Qed.

Lemma mux_envs_keys c a b (o : pobs) r o' : mux_envs tops c a b o = Ok (r, o') -> keys r = keys a.
Proof.
  unfold mux_envs, keys. destruct (negb _); [discriminate|]. intro H. minva H as ss o1 H1.
  apply ret_inv in H. destruct H as [-> _]. apply mux_scopes_keys in H1.
  exact (map_rev_eq _ _ _ H1).
Qed.

Lemma keys_length E : length (keys E) = length E.
Proof. apply map_length. Qed.

Lemma env_let_keys (E E' : @cenv bool) x v : env_let E x v = Ok E' ->
  tl (keys E') = tl (keys E) /\ length E' = length E.
Proof. destruct E as [|s r]; cbn [env_let]; [discriminate|]. intros [= <-]. auto. Qed.

Definition SKP (E E' : @cenv bool) : Prop := tl (keys E') = tl (keys E) /\ length E' = length E.

Lemma SKP_of_keys E E' : keys E' = keys E -> SKP E E'.
Proof. intro H. split; [now rewrite H|]. now rewrite <- (keys_length E'), H, keys_length. Qed.

Lemma SKP_trans E1 E2 E3 : SKP E1 E2 -> SKP E2 E3 -> SKP E1 E3.
Proof. intros [H1 H2] [H3 H4]. split; congruence. Qed.

Lemma block_stmts_keys (rs : stmt -> @cenv bool -> MB (list bool * @cenv bool)) :
  forall ss, (forall s, In s ss -> forall E o w E' o', rs s E o = Ok ((w, E'), o') -> SKP E E') ->
  forall last E o w E' o', block_stmts rs ss last E o = Ok ((w, E'), o') -> SKP E E'.
Proof.
  induction ss as [|s r IH]; intros Hs last E o w E' o' H; cbn [block_stmts] in H.
  - apply ret_inv in H. destruct H as [Heq _]. injection Heq as _ ->. now apply SKP_of_keys.
  - minva H as [w1 E1] o1 H1. eapply SKP_trans.
    + eapply Hs; [now left|exact H1].
    + eapply IH; [|exact H]. intros s0 Hin. apply Hs. now right.
Qed.

Section Keys.
  Variable P : program.

  Definition KPe (fT : nat) : Prop := forall e, imp_expr e = true ->
    forall E o w E' o', lower_expr tops fT P e E o = Ok ((w, E'), o') -> keys E' = keys E.
  Definition KPs (fT : nat) : Prop := forall s, imp_stmt s = true ->
    forall E o w E' o', lower_stmt tops fT P s E o = Ok ((w, E'), o') -> SKP E E'.

  Lemma neg_steps_inv x m (E1 : @cenv bool) (o : pobs) w (E' : @cenv bool) o' :
    neg_steps x m (fun neg => ret (neg, E1)) o = Ok ((w, E'), o') -> E' = E1.
  Proof.
    unfold neg_steps. intro H. minva H as a1 o1 H1. minva H as a2 o2 H2. minva H as a3 o3 H3.
    minva H as a4 o4 H4. minva H as a5 o5 H5. apply ret_inv in H. destruct H as [Heq _]. injection Heq as _ ->. reflexivity.
  Qed.

  Ltac kp IHe := (eapply IHe; [|eassumption]; assumption).

  Lemma KPe_step fT : (forall k, (k < S fT)%nat -> KPe k /\ KPs k) -> KPe (S fT).
  Proof.
    intros IH [ei m t] Hi E o w E' o' H. rewrite lower_expr_S in H.
    destruct (IH fT (le_n _)) as [IHe _].
    destruct ei; try discriminate Hi; cbn [imp_expr] in Hi.
    - apply ret_inv in H. destruct H as [Heq _]. injection Heq as _ ->. reflexivity.
    - apply ret_inv in H. destruct H as [Heq _]. injection Heq as _ ->. reflexivity.
    - apply ret_inv in H. destruct H as [Heq _]. injection Heq as _ ->. reflexivity.
    - apply ret_inv in H. destruct H as [Heq _]. injection Heq as _ ->. reflexivity.
    - cbn [lower_expr_body] in H. destruct (env_get E name); [|discriminate H].
      apply ret_inv in H. destruct H as [Heq _]. injection Heq as _ ->. reflexivity.
    - rewrite lower_neg_case in H. minva H as [x E1] o1 He. cbv beta iota in H.
      apply neg_steps_inv in H. subst E'. kp IHe.
    - apply not_run_inv in H. destruct H as (x & He & _). kp IHe.
    - bsplit. destruct o0; cbv iota in *; bsplit.
      all: try (apply binop_run_inv in H; [|reflexivity|
                  first [intros Hmul; discriminate Hmul
                        |intros _; split; apply negb_true_iff; assumption]];
                destruct H as (xw & E1 & o1 & yw & o2 & Hx & Hy & _);
                transitivity (keys E1); kp IHe).
      + apply (shift_run_inv P _ _ _ true) in H. destruct H as (xw & E1 & o1 & yw & o2 & Hx & Hy & _).
        transitivity (keys E1); kp IHe.
      + apply (shift_run_inv P _ _ _ false) in H. destruct H as (xw & E1 & o1 & yw & o2 & Hx & Hy & _).
        transitivity (keys E1); kp IHe.
      + apply (logic_run_inv P _ _ _ true) in H.
        destruct H as (bx & E1 & o1 & by_ & E2 & o2 & oM & Hx & Hy & Hmux & _).
        rewrite (mux_envs_keys _ _ _ _ _ _ Hmux). transitivity (keys E1); kp IHe.
      + apply (logic_run_inv P _ _ _ false) in H.
        destruct H as (bx & E1 & o1 & by_ & E2 & o2 & oM & Hx & Hy & Hmux & _).
        rewrite (mux_envs_keys _ _ _ _ _ _ Hmux). kp IHe.
    - (* block *)
      cbn [lower_expr_body] in H. destruct fT as [|fT']; [discriminate H|].
      rewrite lower_block_S in H. unfold lower_block_body in H.
      minva H as [w1 E1] o1 H1. minva H as E2 o2 H2. apply lift_res_inv in H2. destruct H2 as [Hp _].
      apply ret_inv in H. destruct H as [Heq _]. injection Heq as _ ->.
      destruct (IH fT' (le_S _ _ (le_n _))) as [_ IHs].
      apply block_stmts_keys in H1.
      + destruct H1 as [Hk Hl]. destruct E1 as [|s1 E1']; [discriminate Hp|]. cbn [env_pop] in Hp.
        injection Hp as <-. exact Hk.
      + intros s Hin. apply IHs. rewrite forallb_forall in Hi. now apply Hi.
    - (* if *)
      bsplit. apply if_run_inv in H.
      destruct H as (cb & E0 & o0 & tw & ET & oT & fw & EF & oF & oM & Hc & Ha & Hb & Hmux & _).
      rewrite (mux_envs_keys _ _ _ _ _ _ Hmux). transitivity (keys E0); kp IHe.
    - (* cast *)
      pose proof H as H0. cbn [lower_expr_body] in H0. minva H0 as [x E1] o1 He. clear H0.
      destruct (tsem_cast_correct P _ (lower_pattern tops fT P) (lower_block tops fT P) to e m t E o x E1 o1 He)
        as (r & HR & _).
      rewrite HR in H. injection H as _ <- _. kp IHe.
  Qed.

  Lemma KPs_step fT : (forall k, (k < S fT)%nat -> KPe k /\ KPs k) -> KPs (S fT).
  Proof.
    intros IH [si m] Hi E o w E' o' H. rewrite lower_stmt_S in H.
    destruct (IH fT (le_n _)) as [IHe _].
    destruct si; try discriminate Hi; cbn [imp_stmt] in Hi; cbn [lower_stmt_body] in H.
    - (* let *)
      destruct p as [[] mp tp]; try discriminate Hi.
      minva H as [w1 E1] o1 He. minva H as [c2 E2] o2 Hp. apply ret_inv in H. destruct H as [Heq _].
      injection Heq as _ ->. destruct fT as [|fT']; [discriminate Hp|].
      change (lower_pattern tops (S fT') P (Pat (PId name) mp tp) w1 E1 o1)
        with (lower_pattern_body tops P (lower_pattern tops fT' P) (Pat (PId name) mp tp) w1 E1 o1) in Hp.
      cbn [lower_pattern_body] in Hp. minva Hp as E3 o3 Hl. apply lift_res_inv in Hl. destruct Hl as [Hl _].
      apply ret_inv in Hp. destruct Hp as [Heq _]. injection Heq as _ ->.
      eapply SKP_trans; [apply SKP_of_keys; eapply IHe; eassumption|]. exact (env_let_keys _ _ _ _ Hl).
    - minva H as [w1 E1] o1 He. minva H as E2 o2 Hl. apply lift_res_inv in Hl. destruct Hl as [Hl _].
      apply ret_inv in H. destruct H as [Heq _]. injection Heq as _ ->.
      eapply SKP_trans; [apply SKP_of_keys; eapply IHe; eassumption|]. exact (env_let_keys _ _ _ _ Hl).
    - destruct accs; [|discriminate Hi]. cbn [assign_indexes assign_forward assign_backward] in H.
      minva H as [w1 E1] o1 He.
      minva H as [idxs E2] o2 H2. apply ret_inv in H2. destruct H2 as [Heq _]. injection Heq as _ ->.
      minva H as coll o3 H3. minva H as acc o4 H4. minva H as v' o5 H5.
      minva H as E3 o6 H6. apply lift_res_inv in H6. destruct H6 as [Ha _].
      apply ret_inv in H. destruct H as [Heq _]. injection Heq as _ ->.
      apply SKP_of_keys. rewrite (env_assign_keys _ _ _ _ Ha). eapply IHe; eassumption.
    - apply SKP_of_keys. eapply IHe; eassumption.
  Qed.

  Theorem keys_preserved : forall fT, KPe fT /\ KPs fT.
  Proof.
    induction fT as [fT IH] using lt_wf_ind. destruct fT as [|fT].
    - split; intros ? ? ? ? ? ? ? H; discriminate H.
    - split; [now apply KPe_step|now apply KPs_step].
  Qed.

  Corollary KP_imp e : imp_expr e = true -> KP P e.
  Proof. intros Hi fT E o w E' o' H. exact (proj1 (keys_preserved fT) e Hi E o w E' o' H). Qed.
End Keys.

(* ------------------------------------------------------------------ the (strict) type checker of
   the fragment: boolean functions; the same recursion on fuel and the same contexts as
   Lang/Wt.v, with EQUAL annotations where Wt.v uses [ty_eqb] *)

Definition is_unit (t : ty) : bool := match t with TTup [] => true | _ => false end.

(* equality of scalar or unit types *)
Definition vt_eqb (a b : ty) : bool := sty_eqb a b || (is_unit a && is_unit b).

Lemma vt_eqb_eq a b : vt_eqb a b = true -> a = b.
Proof.
  unfold vt_eqb. intro H. apply orb_prop in H. destruct H as [H|H]; [now apply sty_eqb_eq|].
  apply andb_prop in H. destruct H as [H1 H2].
  destruct a as [| | |[|? ?]| |]; try discriminate H1. destruct b as [| | |[|? ?]| |]; try discriminate H2. reflexivity.
Qed.

Definition sc_op (o : binop) (x y : expr) (t : ty) : bool :=
  match o with
  | OAdd | OSub | OMul | ODiv | OMod | OBitAnd | OBitXor | OBitOr =>
      match t with
      | TInt _ b =>
          ok_width b && sty_eqb (e_ty x) t && sty_eqb (e_ty y) t &&
          match o with OMul => negb (is_num_lit x) && negb (is_num_lit y) | _ => true end
      | TBool => op_bit o && sty_eqb (e_ty x) TBool && sty_eqb (e_ty y) TBool
      | _ => false
      end
  | OGt | OLt =>
      sty_eqb t TBool &&
      match e_ty x with TInt _ b => ok_width b && sty_eqb (e_ty y) (e_ty x) | _ => false end
  | OEq | ONe => sty_eqb t TBool && scalar_ty (e_ty x) && sty_eqb (e_ty y) (e_ty x)
  | OShl | OShr =>
      match t with
      | TInt _ b => ok_width b && sty_eqb (e_ty x) t && sty_eqb (e_ty y) (TInt false 8)
      | _ => false
      end
  | OLAnd | OLOr => sty_eqb t TBool && sty_eqb (e_ty x) TBool && sty_eqb (e_ty y) TBool
  end.

Fixpoint sc_expr (fuel : nat) (g : tenv) (e : expr) {struct fuel} : bool :=
  match fuel with
  | O => false
  | S f =>
    match e with
    | Ex ei _ t =>
      match ei with
      | ETrue | EFalse => sty_eqb t TBool
      | ENumU n _ => match t with TInt _ b => ok_width b && lit_fits t (Z.of_N n) | _ => false end
      | ENumS z _ => match t with TInt _ b => ok_width b && lit_fits t z | _ => false end
      | EId x => match tlookup g x with Some (tx, _) => vt_eqb tx t | None => false end
      | ENeg e1 =>
          match t with
          | TInt true b => ok_width b && sty_eqb (e_ty e1) t && sc_expr f g e1
          | _ => false
          end
      | ENot e1 => scalar_ty t && sty_eqb (e_ty e1) t && sc_expr f g e1
      | ECast to e1 => scalar_ty t && sty_eqb to t && scalar_ty (e_ty e1) && sc_expr f g e1
      | EOp o x y => sc_expr f g x && sc_expr f g y && sc_op o x y t
      | EIf c a b =>
          sty_eqb (e_ty c) TBool && vt_eqb (e_ty a) t && vt_eqb (e_ty b) t &&
          sc_expr f g c && sc_expr f g a && sc_expr f g b
      | EBlock b => match sc_block f ([] :: g) b with Some tb => vt_eqb tb t | None => false end
      | _ => false
      end
    end
  end
with sc_block (fuel : nat) (g : tenv) (b : list stmt) {struct fuel} : option ty :=
  match fuel with
  | O => None
  | S f =>
      (fix go (ss : list stmt) (g : tenv) (last : ty) : option ty :=
         match ss with
         | [] => Some last
         | s :: r => match sc_stmt f g s with Some (g', t) => go r g' t | None => None end
         end) b g unit_ty
  end
with sc_stmt (fuel : nat) (g : tenv) (s : stmt) {struct fuel} : option (tenv * ty) :=
  match fuel with
  | O => None
  | S f =>
    match s with
    | St si _ =>
      match si with
      | SLet (Pat (PId x) _ tp) e =>
          if sc_expr f g e && vt_eqb tp (e_ty e) then Some (tbind g x tp false, unit_ty) else None
      | SLetMut x e => if sc_expr f g e then Some (tbind g x (e_ty e) true, unit_ty) else None
      | SAssign x [] e =>
          match tlookup g x with
          | Some (tx, true) => if vt_eqb tx (e_ty e) && sc_expr f g e then Some (g, unit_ty) else None
          | _ => None
          end
      | SExpr e => if sc_expr f g e then Some (g, e_ty e) else None
      | _ => None
      end
    end
  end.

Fixpoint sc_stmts (f : nat) (ss : list stmt) (g : tenv) (last : ty) : option (tenv * ty) :=
  match ss with
  | [] => Some (g, last)
  | s :: r => match sc_stmt f g s with Some (g', t) => sc_stmts f r g' t | None => None end
  end.

Lemma sc_block_S f g b : sc_block (S f) g b = option_map snd (sc_stmts f b g unit_ty).
Proof.
  cbn [sc_block]. generalize unit_ty. revert g. induction b as [|s r IH]; intros g last; [reflexivity|].
  cbn [sc_stmts]. destruct (sc_stmt f g s) as [[g' t]|]; [apply IH|reflexivity].
Qed.

Lemma tl_tbind g x t mu : tl (tbind g x t mu) = tl g.
Proof. now destruct g. Qed.

Lemma sc_stmt_tl fw g s g' t : sc_stmt fw g s = Some (g', t) -> tl g' = tl g.
Proof.
  destruct fw as [|f]; [discriminate|]. destruct s as [si m]. cbn [sc_stmt].
  destruct si; try discriminate.
  - destruct p as [[] mp tp]; try discriminate. destruct (_ && _); [|discriminate].
    intros [= <- _]. apply tl_tbind.
  - destruct (sc_expr f g e); [|discriminate]. intros [= <- _]. apply tl_tbind.
  - destruct accs; [|discriminate]. destruct (tlookup g name) as [[tx []]|]; try discriminate.
    destruct (_ && _); [|discriminate]. now intros [= <- _].
  - destruct (sc_expr f g e); [|discriminate]. now intros [= <- _].
Qed.

(* ------------------------------------------------------------------ the theorem *)

Section Main.
  Variable P : program.
  Notation AgE' := (AgE P VRs).
  Notation AgS' := (AgS P VRs).

  Definition InvE (fuel : nat) : Prop :=
    forall fw g e, sc_expr fw g e = true -> imp_expr e = true -> AgE' fuel g e.
  Definition InvS (fuel : nat) : Prop :=
    forall fw g s g' t, sc_stmt fw g s = Some (g', t) -> imp_stmt s = true -> AgS' fuel g g' t s.

  Lemma stmts_AgSS f : InvS f -> forall fw ss g last g1 t,
    sc_stmts fw ss g last = Some (g1, t) -> forallb imp_stmt ss = true ->
    AgSS P VRs f g ss last g1 t /\ tl g1 = tl g.
  Proof.
    intros IHs fw. induction ss as [|s r IH]; intros g last g1 t Hsc Hi; cbn [sc_stmts] in Hsc.
    - injection Hsc as <- <-. split; [constructor|reflexivity].
    - cbn [forallb] in Hi. apply andb_prop in Hi. destruct Hi as [Hi1 Hi2].
      destruct (sc_stmt fw g s) as [[g' t']|] eqn:Es; [|discriminate Hsc].
      destruct (IH g' t' g1 t Hsc Hi2) as [HA Htl]. split.
      + econstructor; [eapply IHs; eassumption|exact HA].
      + rewrite Htl. eapply sc_stmt_tl; eassumption.
  Qed.

  Ltac eqs :=
    repeat match goal with
    | H : sty_eqb _ _ = true |- _ => apply sty_eqb_eq in H
    | H : vt_eqb _ _ = true |- _ => apply vt_eqb_eq in H
    end.

  Lemma int_agrees o m t sg b : ok_width b = true ->
    (op_arith o = true /\ t = TInt sg b) \/ (op_cmp o || op_eq o = true /\ t = TBool) ->
    forall vx vy len, val_ok (TInt sg b) vx -> val_ok (TInt sg b) vy -> binop_agrees o m t (TInt sg b) vx vy len.
  Proof.
    intros Hb Ht vx vy len Hx Hy. destruct vx as [|a| | |], vy as [|c| | |]; try contradiction.
    cbn [val_ok] in Hx, Hy. destruct sg; [apply binop_signed_agrees|apply binop_unsigned_agrees]; auto.
  Qed.

  Lemma bool_agrees o m : op_bit o || op_eq o = true ->
    forall vx vy len, val_ok TBool vx -> val_ok TBool vy -> binop_agrees o m TBool TBool vx vy len.
  Proof.
    intros Ho vx vy len Hx Hy. destruct vx as [p| | | |], vy as [q| | | |]; try contradiction.
    now apply binop_bool_agrees.
  Qed.

  Lemma op_step f g o x y m t :
    sc_op o x y t = true -> imp_expr x = true -> imp_expr y = true ->
    AgE' f g x -> AgE' f g y -> AgE' (S f) g (Ex (EOp o x y) m t).
  Proof.
    intros Hop Hix Hiy IHx IHy.
    destruct o; cbn [sc_op] in Hop.
    (* arithmetic and bitwise *)
    1-8: destruct t as [|sg b| | | |]; try discriminate Hop; bsplit; try discriminate; eqs;
         match goal with
         | |- AgE _ _ _ _ (Ex _ _ TBool) =>
             eapply (binop_node_p P f g _ x y m TBool TBool); try eassumption; try reflexivity;
             [ intro Hmul; discriminate Hmul | apply bool_agrees; reflexivity ]
         | |- _ =>
             eapply (binop_node_p P f g _ x y m (TInt sg b) (TInt sg b)); try eassumption; try reflexivity;
             [ first [ intro Hmul; discriminate Hmul
                     | intros _; split; apply negb_true_iff; assumption ]
             | apply int_agrees; [assumption|left; split; reflexivity] ]
         end.
    - (* > *) bsplit. eqs. subst t. destruct (e_ty x) as [|sg b| | | |] eqn:Etx; try discriminate. bsplit. eqs.
      eapply (binop_node_p P f g OGt x y m TBool (TInt sg b)); try eassumption; try reflexivity.
      + intro Hmul; discriminate Hmul.
      + apply int_agrees; [assumption|right; split; reflexivity].
    - (* < *) bsplit. eqs. subst t. destruct (e_ty x) as [|sg b| | | |] eqn:Etx; try discriminate. bsplit. eqs.
      eapply (binop_node_p P f g OLt x y m TBool (TInt sg b)); try eassumption; try reflexivity.
      + intro Hmul; discriminate Hmul.
      + apply int_agrees; [assumption|right; split; reflexivity].
    - (* == *) bsplit. eqs. subst t.
      eapply (binop_node_p P f g OEq x y m TBool (e_ty x)); try eassumption; try reflexivity.
      + intro Hmul; discriminate Hmul.
      + destruct (e_ty x) as [|sg b| | | |]; try discriminate.
        * apply bool_agrees; reflexivity.
        * apply int_agrees; [assumption|right; split; reflexivity].
    - (* != *) bsplit. eqs. subst t.
      eapply (binop_node_p P f g ONe x y m TBool (e_ty x)); try eassumption; try reflexivity.
      + intro Hmul; discriminate Hmul.
      + destruct (e_ty x) as [|sg b| | | |]; try discriminate.
        * apply bool_agrees; reflexivity.
        * apply int_agrees; [assumption|right; split; reflexivity].
    - destruct t as [|sg b| | | |]; try discriminate Hop. bsplit. eqs.
      apply (shift_node_p P f g true x y m sg b); assumption.
    - destruct t as [|sg b| | | |]; try discriminate Hop. bsplit. eqs.
      apply (shift_node_p P f g false x y m sg b); assumption.
    - bsplit. eqs. subst t.
      apply (logic_node P VRs VRs_bool f g true x y m); try assumption. now apply KP_imp.
    - bsplit. eqs. subst t.
      apply (logic_node P VRs VRs_bool f g false x y m); try assumption. now apply KP_imp.
  Qed.

  Lemma InvE_step f : (forall k, (k <= f)%nat -> InvE k /\ InvS k) -> InvE (S f).
  Proof.
    intros IH fw g [ei m t] Hsc Hi. destruct fw as [|fw]; [discriminate Hsc|]. cbn [sc_expr] in Hsc.
    destruct (IH f (le_n _)) as [IHe _].
    destruct ei; try discriminate Hsc; cbn [imp_expr] in Hi.
    - eqs. subst t. apply lit_true_node.
    - eqs. subst t. apply lit_false_node.
    - destruct t as [|sg b| | | |]; try discriminate Hsc. bsplit. now apply lit_numU_node.
    - destruct t as [|sg b| | | |]; try discriminate Hsc. bsplit. now apply lit_numS_node.
    - destruct (tlookup g name) as [[tx mu]|] eqn:El; [|discriminate Hsc]. eqs. subst tx.
      eapply id_node; eassumption.
    - destruct t as [|[] b| | | |]; try discriminate Hsc. bsplit. eqs.
      apply neg_node_p; try assumption. eapply IHe; eassumption.
    - bsplit. eqs. apply not_node_p; try assumption. eapply IHe; eassumption.
    - bsplit. apply op_step; try assumption; eapply IHe; eassumption.
    - (* block *)
      destruct (sc_block fw ([] :: g) b) as [tb|] eqn:Eb; [|discriminate Hsc]. eqs. subst tb.
      destruct f as [|f']; [intros en E fT w E' o' _ _; exact I|].
      destruct fw as [|fw']; [discriminate Eb|]. rewrite sc_block_S in Eb.
      destruct (sc_stmts fw' b ([] :: g) unit_ty) as [[g1 tb]|] eqn:Es; [|discriminate Eb].
      cbn [option_map snd] in Eb. injection Eb as ->.
      destruct (IH f' (le_S _ _ (le_n _))) as [_ IHs].
      destruct (stmts_AgSS f' IHs fw' b _ _ _ _ Es Hi) as [HA Htl].
      eapply (block_node P VRs VRs_unit f' g b m t g1); assumption.
    - bsplit. eqs.
      apply (if_node P VRs VRs_bool f g c t0 e m t); try assumption;
        try (eapply IHe; eassumption); now apply KP_imp.
    - bsplit. eqs. subst to. apply cast_node_p; try assumption. eapply IHe; eassumption.
  Qed.

  Lemma InvS_step f : InvE f -> InvS (S f).
  Proof.
    intros IHe fw g [si m] g' t Hsc Hi. destruct fw as [|fw]; [discriminate Hsc|]. cbn [sc_stmt] in Hsc.
    destruct si; try discriminate Hsc; cbn [imp_stmt] in Hi.
    - destruct p as [[] mp tp]; try discriminate Hsc.
      destruct (sc_expr fw g e) eqn:He; [|discriminate Hsc].
      destruct (vt_eqb tp (e_ty e)) eqn:Ht; [|discriminate Hsc]. cbn [andb] in Hsc. injection Hsc as <- <-.
      eqs. subst tp. apply (let_node P VRs VRs_unit). eapply IHe; eassumption.
    - destruct (sc_expr fw g e) eqn:He; [|discriminate Hsc]. injection Hsc as <- <-.
      apply (letmut_node P VRs VRs_unit). eapply IHe; eassumption.
    - destruct accs; [|discriminate Hsc]. destruct (tlookup g name) as [[tx []]|] eqn:El; try discriminate Hsc.
      destruct (vt_eqb tx (e_ty e)) eqn:Ht; [|discriminate Hsc].
      destruct (sc_expr fw g e) eqn:He; [|discriminate Hsc]. cbn [andb] in Hsc. injection Hsc as <- <-.
      eqs. subst tx. eapply (assign_node P VRs VRs_unit); [eapply IHe; eassumption|exact El].
    - destruct (sc_expr fw g e) eqn:He; [|discriminate Hsc]. injection Hsc as <- <-.
      apply sexpr_node. eapply IHe; eassumption.
  Qed.

  Theorem agree_all : forall fuel, InvE fuel /\ InvS fuel.
  Proof.
    induction fuel as [fuel IH] using lt_wf_ind. destruct fuel as [|f].
    - split; [intros fw g e _ _ en E fT w E' o' _ _|intros fw g s g' t _ _ en E fT w E' o' _ _]; exact I.
    - split.
      + apply InvE_step. intros k Hk. apply IH. lia.
      + apply InvS_step. apply IH. lia.
  Qed.
End Main.
Print Assumptions agree_all.

(* ------------------------------------------------------------------ the theorems, spelled out *)

(* AGREEMENT, expressions: if the bit-level run (any fuel) from no panic returns Ok, then it
   agrees with the source semantics (any fuel): value, environment, panic *)
Theorem tsem_sem_imp_expr P fuel fw g e en E fT w E' o' :
  sc_expr fw g e = true -> imp_expr e = true -> env_rel3 VRs en E g ->
  lower_expr tops fT P e E None = Ok ((w, E'), o') ->
  match Sem.eval fuel P en e with
  | Sem.Done (v, en') => o' = None /\ VRs (e_ty e) v w /\ env_rel3 VRs en' E' g
  | Sem.Panicked r m => o' = Some (preason_num (pr r), ploc32 (ploc_of m))
  | Sem.Stuck _ | Sem.NoFuel => True
  end.
Proof.
  intros Hsc Hi Hrel Hrun.
  exact (proj1 (agree_all P fuel) fw g e Hsc Hi en E fT w E' o' Hrel Hrun).
Qed.
Print Assumptions tsem_sem_imp_expr.

(* ... for an expression of scalar type, in the vocabulary of TSemSemExpr.v *)
Corollary tsem_sem_imp_expr_scalar P fuel fw g e en E fT w E' o' :
  sc_expr fw g e = true -> imp_expr e = true -> scalar_ty (e_ty e) = true -> env_rel3 VRs en E g ->
  lower_expr tops fT P e E None = Ok ((w, E'), o') ->
  match Sem.eval fuel P en e with
  | Sem.Done (v, en') =>
      o' = None /\ w = enc_val (e_ty e) v /\ val_ok (e_ty e) v /\ env_rel3 VRs en' E' g
  | Sem.Panicked r m => o' = Some (preason_num (pr r), ploc32 (ploc_of m))
  | Sem.Stuck _ | Sem.NoFuel => True
  end.
Proof.
  intros Hsc Hi Hs Hrel Hrun.
  pose proof (tsem_sem_imp_expr P fuel fw g e en E fT w E' o' Hsc Hi Hrel Hrun) as H. revert H.
  destruct (Sem.eval fuel P en e) as [[v en']|r m|c|]; intro H; try exact H.
  destruct H as (-> & HV & Hr). destruct (VRs_scalar _ _ _ Hs HV) as [Hok ->]. auto.
Qed.

(* statements: [g'] is the context after the statement, [t] its type *)
Theorem tsem_sem_imp_stmt P fuel fw g s g' t en E fT w E' o' :
  sc_stmt fw g s = Some (g', t) -> imp_stmt s = true -> env_rel3 VRs en E g ->
  lower_stmt tops fT P s E None = Ok ((w, E'), o') ->
  match Sem.exec fuel P en s with
  | Sem.Done (v, en') => o' = None /\ VRs t v w /\ env_rel3 VRs en' E' g'
  | Sem.Panicked r m => o' = Some (preason_num (pr r), ploc32 (ploc_of m))
  | Sem.Stuck _ | Sem.NoFuel => True
  end.
Proof.
  intros Hsc Hi Hrel Hrun.
  exact (proj2 (agree_all P fuel) fw g s g' t Hsc Hi en E fT w E' o' Hrel Hrun).
Qed.
Print Assumptions tsem_sem_imp_stmt.

(* blocks: [lower_block] opens and closes the scope of the block itself; on the source side
   this is [exec_block] in a pushed scope, then the pop (what [Sem.eval] does for [EBlock]
   and [Sem.run_main] for the body of main) *)
Theorem tsem_sem_imp_block P fuel fw g b t en E fT w E' o' :
  sc_block fw ([] :: g) b = Some t -> forallb imp_stmt b = true -> env_rel3 VRs en E g ->
  lower_block tops fT P b E None = Ok ((w, E'), o') ->
  match Sem.obind (Sem.exec_block fuel P (Sem.push_scope en) b)
                  (fun '(v, en1) => Sem.Done (v, Sem.pop_scope en1)) with
  | Sem.Done (v, en') => o' = None /\ VRs t v w /\ env_rel3 VRs en' E' g
  | Sem.Panicked r m => o' = Some (preason_num (pr r), ploc32 (ploc_of m))
  | Sem.Stuck _ | Sem.NoFuel => True
  end.
Proof.
  intros Hsc Hi Hrel Hrun. destruct fuel as [|f]; [exact I|].
  destruct fw as [|fw']; [discriminate Hsc|]. rewrite sc_block_S in Hsc.
  destruct (sc_stmts fw' b ([] :: g) unit_ty) as [[g1 tb]|] eqn:Es; [|discriminate Hsc].
  cbn [option_map snd] in Hsc. injection Hsc as ->.
  destruct (stmts_AgSS P f (proj2 (agree_all P f)) fw' b _ _ _ _ Es Hi) as [HA Htl].
  exact (block_run_agrees P VRs VRs_unit f g b g1 t HA Htl en E fT w E' o' Hrel Hrun).
Qed.
Print Assumptions tsem_sem_imp_block.

(* ------------------------------------------------------------------ the strict checker is a
   restriction of Lang/Wt.v: whatever it accepts, [Wt.wt_expr] / [wt_block] / [wt_stmt] accept
   with the same fuel, the same contexts and the same types *)

Lemma sty_ty_eqb a b : sty_eqb a b = true -> ty_eqb a b = true.
Proof.
  destruct a, b; cbn [sty_eqb ty_eqb]; try discriminate; [reflexivity|]. intro H. now rewrite H.
Qed.

Lemma vt_ty_eqb a b : vt_eqb a b = true -> ty_eqb a b = true.
Proof.
  unfold vt_eqb. intro H. apply orb_prop in H. destruct H as [H|H]; [now apply sty_ty_eqb|].
  apply andb_prop in H. destruct H as [H1 H2].
  destruct a as [| | |[|? ?]| |]; try discriminate H1. destruct b as [| | |[|? ?]| |]; try discriminate H2. reflexivity.
Qed.

Ltac eq_all := repeat match goal with H : sty_eqb _ _ = true |- _ => apply sty_eqb_eq in H end.

Lemma scalar_int_or_bool t : scalar_ty t = true -> is_int t || is_bool t = true.
Proof. destruct t; try discriminate; reflexivity. Qed.

Lemma sc_op_wt o x y t : sc_op o x y t = true ->
  match o with
  | OAdd | OSub | OMul | ODiv | OMod => is_int t && ty_eqb (e_ty x) t && ty_eqb (e_ty y) t
  | OBitAnd | OBitXor | OBitOr => (is_int t || is_bool t) && ty_eqb (e_ty x) t && ty_eqb (e_ty y) t
  | OGt | OLt => is_bool t && is_int (e_ty x) && ty_eqb (e_ty x) (e_ty y)
  | OEq | ONe => is_bool t && ty_eqb (e_ty x) (e_ty y)
  | OShl | OShr => is_int t && ty_eqb (e_ty x) t && ty_eqb (e_ty y) (TInt false 8)
  | OLAnd | OLOr => is_bool t && is_bool (e_ty x) && is_bool (e_ty y)
  end = true.
Proof.
  intro H.
  assert (Hrefl : forall sg b, ty_eqb (TInt sg b) (TInt sg b) = true)
    by (intros; cbn [ty_eqb]; now rewrite Bool.eqb_reflx, N.eqb_refl).
  destruct o; cbn [sc_op] in H.
  1-8: destruct t as [|sg b| | | |]; try discriminate H; bsplit; try discriminate; eq_all;
       repeat match goal with Hs : e_ty _ = _ |- _ => rewrite Hs end;
       cbn [is_bool is_int andb orb]; rewrite ?Hrefl; reflexivity.
  1-2: bsplit; eq_all; subst t; destruct (e_ty x) as [|sg b| | | |] eqn:Ex; try discriminate; bsplit; eq_all;
       repeat match goal with Hs : e_ty _ = _ |- _ => rewrite Hs end;
       cbn [is_bool is_int andb orb]; rewrite ?Hrefl; reflexivity.
  1-2: bsplit; eq_all; subst t;
       repeat match goal with Hs : e_ty _ = _ |- _ => rewrite Hs end;
       destruct (e_ty x) as [|sg b| | | |]; try discriminate;
       cbn [is_bool is_int andb orb]; rewrite ?Hrefl; reflexivity.
  1-2: destruct t as [|sg b| | | |]; try discriminate H; bsplit; eq_all;
       repeat match goal with Hs : e_ty _ = _ |- _ => rewrite Hs end;
       cbn [is_bool is_int andb orb]; rewrite ?Hrefl; reflexivity.
  1-2: bsplit; eq_all; subst t;
       repeat match goal with Hs : e_ty _ = _ |- _ => rewrite Hs end; reflexivity.
Qed.

Lemma vt_refl_ty t : vt_eqb t t = true -> ty_eqb t t = true.
Proof. apply vt_ty_eqb. Qed.

Theorem sc_implies_wt P : forall fw,
  (forall g e, sc_expr fw g e = true -> wt_expr fw P g e = true) /\
  (forall g b t, sc_block fw g b = Some t -> wt_block fw P g b = Some t) /\
  (forall g s g' t, sc_stmt fw g s = Some (g', t) -> wt_stmt fw P g s = Some (g', t)).
Proof.
  induction fw as [|f (IHe & IHb & IHs)]; [repeat split; intros; discriminate|].
  split; [|split].
  - intros g [ei m t] H. cbn [sc_expr] in H. cbn [wt_expr].
    destruct ei; try discriminate H.
    + apply sty_eqb_eq in H. now subst t.
    + apply sty_eqb_eq in H. now subst t.
    + destruct t; try discriminate H. now bsplit.
    + destruct t; try discriminate H. now bsplit.
    + destruct (tlookup g name) as [[tx mu]|]; [|discriminate H]. now apply vt_ty_eqb.
    + destruct t as [|[] b| | | |]; try discriminate H. bsplit.
      match goal with Hs : sty_eqb _ _ = true |- _ => apply sty_ty_eqb in Hs; rewrite Hs end.
      now rewrite (IHe _ _ ltac:(eassumption)).
    + bsplit.
      match goal with Hs : sty_eqb _ _ = true |- _ => apply sty_ty_eqb in Hs; rewrite Hs end.
      rewrite (IHe _ _ ltac:(eassumption)). rewrite orb_comm, scalar_int_or_bool by assumption. reflexivity.
    + bsplit. rewrite (IHe g x) by assumption. rewrite (IHe g y) by assumption. cbn [andb].
      now apply sc_op_wt.
    + destruct (sc_block f ([] :: g) b) as [tb|] eqn:Eb; [|discriminate H].
      rewrite (IHb _ _ _ Eb). now apply vt_ty_eqb.
    + bsplit.
      repeat match goal with
      | Hs : sty_eqb _ _ = true |- _ => apply sty_eqb_eq in Hs; rewrite Hs
      | Hs : vt_eqb _ _ = true |- _ => apply vt_ty_eqb in Hs; rewrite Hs
      end.
      rewrite (IHe g c), (IHe g t0), (IHe g e) by assumption. reflexivity.
    + bsplit.
      match goal with Hs : sty_eqb _ _ = true |- _ => apply sty_ty_eqb in Hs; rewrite Hs end.
      rewrite (IHe _ _ ltac:(eassumption)).
      rewrite !scalar_int_or_bool by assumption. reflexivity.
  - intros g b t H. cbn [sc_block] in H. cbn [wt_block]. revert g H. generalize unit_ty.
    induction b as [|s r IH]; intros last g H; [exact H|].
    destruct (sc_stmt f g s) as [[g' t']|] eqn:Es; [|discriminate H].
    rewrite (IHs _ _ _ _ Es). now apply IH.
  - intros g [si m] g' t H. cbn [sc_stmt] in H. cbn [wt_stmt].
    destruct si; try discriminate H.
    + destruct p as [[] mp tp]; try discriminate H.
      destruct (sc_expr f g e) eqn:He; [|discriminate H].
      destruct (vt_eqb tp (e_ty e)) eqn:Ht; [|discriminate H]. cbn [andb] in H.
      rewrite (IHe _ _ He). cbn [p_ty]. rewrite (vt_ty_eqb _ _ Ht). cbn [andb wt_pat tbind_all fold_left fst snd].
      exact H.
    + destruct (sc_expr f g e) eqn:He; [|discriminate H]. now rewrite (IHe _ _ He).
    + destruct accs; [|discriminate H]. destruct (tlookup g name) as [[tx []]|]; try discriminate H.
      destruct (vt_eqb tx (e_ty e)) eqn:Ht; [|discriminate H].
      destruct (sc_expr f g e) eqn:He; [|discriminate H]. cbn [andb] in H.
      now rewrite (vt_ty_eqb _ _ Ht), (IHe _ _ He).
    + destruct (sc_expr f g e) eqn:He; [|discriminate H]. now rewrite (IHe _ _ He).
Qed.
Print Assumptions sc_implies_wt.

(* ------------------------------------------------------------------ whole programs: the argument
   bits of main decode to values whose encodings they are; the result value encodes to the
   result bits *)

Lemma Z_of_bits_acc_uval l : forall acc,
  Sem.Z_of_bits_acc acc l = (acc * 2 ^ Z.of_nat (length l) + uval l)%Z.
Proof.
  induction l as [|b r IH]; intro acc; cbn [Sem.Z_of_bits_acc length].
  - unfold uval. cbn. lia.
  - rewrite IH. unfold uval. rewrite bits_to_N_cons. unfold lenN.
    rewrite N2Z.inj_add, N2Z.inj_mul, pow2_N_Z, nat_N_Z, Nat2Z.inj_succ, Z.pow_succ_r by lia.
    destruct b; cbn [N.b2n]; lia.
Qed.

Lemma unsigned_of_bits_uval l : Sem.unsigned_of_bits l = uval l.
Proof. unfold Sem.unsigned_of_bits. rewrite Z_of_bits_acc_uval. lia. Qed.

Lemma bits_of_Z_enc n z : Sem.bits_of_Z n z = enc n z.
Proof.
  apply enc_unique; [apply bits_of_Z_length|].
  rewrite <- unsigned_of_bits_uval. apply unsigned_of_bits_of_Z.
Qed.

Lemma to_signed_sval b l : ok_width b = true -> length l = N.to_nat b ->
  Sem.to_signed true b (uval l) = sval l.
Proof.
  intros Hb Hl. pose proof (ok_width_pos b Hb) as Hb2.
  assert (l <> []) as Hne by (apply nonempty_len; lia).
  rewrite (sval_uval l Hne). unfold Sem.to_signed. cbn [andb].
  destruct (signed_facts l Hne) as (HX & HP & H1 & H0 & _). cbv zeta in *.
  rewrite Hl, N_nat_Z. pose proof (pow2_half_Z b ltac:(lia)) as Hh.
  assert (Z.of_N (2 ^ lenN l) = 2 ^ Z.of_N b)%Z as HP2.
  { unfold lenN. rewrite Hl, N2Nat.id. apply pow2_N_Z. }
  unfold uval. destruct (hd false l).
  - specialize (H1 eq_refl). destruct (Z.leb_spec (2 ^ (Z.of_N b - 1)) (Z.of_N (bits_to_N l))); lia.
  - specialize (H0 eq_refl). destruct (Z.leb_spec (2 ^ (Z.of_N b - 1)) (Z.of_N (bits_to_N l))); lia.
Qed.

Lemma decode_scalar P t bs v : scalar_ty t = true ->
  Sem.decode Sem.ty_fuel P t bs = Some (v, []) -> VRs t v bs.
Proof.
  intros Hs H. destruct t as [|sg b| | | |]; try discriminate Hs.
  - change (Sem.decode Sem.ty_fuel P TBool bs) with
      (match bs with c :: r => Some (Sem.VBool c, r) | [] => None end) in H.
    destruct bs as [|c r]; [discriminate H|]. injection H as <- ->.
    apply (VRs_intro TBool (Sem.VBool c)); [reflexivity|exact I].
  - change (Sem.decode Sem.ty_fuel P (TInt sg b) bs) with
      (if (length bs <? N.to_nat b)%nat then None
       else Some (Sem.VInt (Sem.to_signed sg b (Sem.unsigned_of_bits (firstn (N.to_nat b) bs))), skipn (N.to_nat b) bs)) in H.
    destruct (Nat.ltb_spec (length bs) (N.to_nat b)) as [Hlt|Hge]; [discriminate H|].
    injection H as <- Hsk.
    assert (length bs = N.to_nat b) as Hl.
    { pose proof (skipn_length (N.to_nat b) bs) as Hk. rewrite Hsk in Hk. cbn [length] in Hk. lia. }
    rewrite <- Hl, firstn_all, unsigned_of_bits_uval. cbn [scalar_ty] in Hs.
    pose proof (ok_width_pos b Hs) as Hb2.
    assert (bs <> []) as Hne by (apply nonempty_len; lia).
    destruct sg.
    + rewrite (to_signed_sval b bs Hs Hl).
      replace bs with (enc (N.to_nat b) (sval bs)) at 2 by (rewrite <- Hl; now apply enc_sval).
      apply (VRs_intro (TInt true b) (Sem.VInt (sval bs))); [exact Hs|]. cbn [val_ok].
      apply (in_range_of_bounds true). pose proof (sval_range bs Hne) as Hr. rewrite Hl, N_nat_Z in Hr. exact Hr.
    + unfold Sem.to_signed. cbn [andb].
      replace bs with (enc (N.to_nat b) (uval bs)) at 2 by (rewrite <- Hl; apply enc_uval).
      apply (VRs_intro (TInt false b) (Sem.VInt (uval bs))); [exact Hs|]. cbn [val_ok].
      apply (in_range_of_bounds false). pose proof (uval_range bs) as Hr. rewrite Hl, N_nat_Z in Hr. exact Hr.
Qed.

Lemma encode_VRs P t v w bits : VRs t v w -> Sem.encode Sem.ty_fuel P t v = Some bits -> bits = w.
Proof.
  intros [(Hs & Hv & ->)|(-> & -> & ->)] H.
  - destruct t as [|sg b| | | |]; try discriminate Hs; destruct v as [c|z| | |]; try contradiction.
    + cbn in H. now injection H as <-.
    + change (Sem.encode Sem.ty_fuel P (TInt sg b) (Sem.VInt z)) with (Some (Sem.bits_of_Z (N.to_nat b) z)) in H.
      injection H as <-. cbn [enc_val]. apply bits_of_Z_enc.
  - cbn in H. now injection H as <-.
Qed.

Lemma fold_env_let_not_ok (l : list (N * list bool)) (r : res (@cenv bool)) :
  (forall E, r <> Ok E) ->
  forall E', fold_left (fun Er b => let* E := Er in env_let E (fst b) (snd b)) l r <> Ok E'.
Proof.
  revert r. induction l as [|b l IH]; intros r Hr E'; cbn [fold_left]; [apply Hr|].
  apply IH. intros E. destruct r; cbn [bind]; try discriminate. exfalso. eapply Hr. reflexivity.
Qed.

Lemma init_rel P : forall params inputs args, Sem.decode_args P params inputs = Some args ->
  forallb (fun p : N * ty => scalar_ty (snd p)) params = true ->
  forall en E g E', env_rel3 VRs en E g ->
  fold_left (fun Er b => let* E := Er in env_let E (fst b) (snd b)) (combine (map fst params) inputs) (Ok E) = Ok E' ->
  env_rel3 VRs (Sem.bind_all en args) E' (tbind_all g params true).
Proof.
  induction params as [|[x t] pr IH]; intros inputs args Hd Hs en E g E' Hrel Hf; cbn [Sem.decode_args] in Hd.
  - destruct inputs; [|discriminate Hd]. injection Hd as <-. cbn in Hf. injection Hf as <-. exact Hrel.
  - destruct inputs as [|bs ir]; [discriminate Hd|].
    destruct (Sem.decode Sem.ty_fuel P t bs) as [[v [|? ?]]|] eqn:Ed; try discriminate Hd.
    destruct (Sem.decode_args P pr ir) as [rest|] eqn:Er; [|discriminate Hd]. injection Hd as <-.
    cbn [forallb snd] in Hs. apply andb_prop in Hs. destruct Hs as [Hst Hs].
    cbn [map fst combine fold_left bind snd] in Hf.
    destruct (env_let E x bs) as [E1| |] eqn:El;
      [|exfalso; eapply fold_env_let_not_ok; [|exact Hf]; intros ? Hq; discriminate Hq
       |exfalso; eapply fold_env_let_not_ok; [|exact Hf]; intros ? Hq; discriminate Hq].
    unfold Sem.bind_all, tbind_all. cbn [fold_left fst snd].
    apply (IH ir rest Er Hs _ E1 _ E'); [|exact Hf].
    eapply rel_let; [exact Hrel|exact (decode_scalar P t bs v Hst Ed)|exact El].
Qed.

(* AGREEMENT for whole programs whose main is in the fragment (no calls, no global
   constants, scalar parameters): the observable results of the two semantics coincide *)
Theorem tsem_sem_program P d fuel fw fT args o outs :
  p_consts P = [] -> find_fn P (p_main P) = Some d ->
  forallb (fun p : N * ty => scalar_ty (snd p)) (fn_params d) = true ->
  sc_block fw ([] :: tbind_all [[]; []] (fn_params d) true) (fn_body d) = Some (fn_ret d) ->
  forallb imp_stmt (fn_body d) = true ->
  tsem_program fT P args = Ok (o, outs) ->
  match Sem.run_main fuel P args with
  | Sem.RunOk bits _ => o = None /\ outs = bits
  | Sem.RunPanic r m => o = Some (preason_num (pr r), ploc32 (ploc_of m))
  | Sem.RunStuck _ | Sem.RunNoFuel => True
  end.
Proof.
  intros Hc Hfind Hsp Hsc Hi Hrun.
  unfold tsem_program in Hrun. rewrite Hfind in Hrun.
  destruct (negb (same_len (fn_params d) args)); [discriminate Hrun|].
  unfold main_env, global_scope in Hrun. rewrite Hc in Hrun. cbn [fold_left bind] in Hrun.
  destruct (fold_left (fun Er b => let* E := Er in env_let E (fst b) (snd b))
              (combine (map fst (fn_params d)) args) (Ok (env_push [[]]))) as [E0| |] eqn:Ef;
    cbn [bind] in Hrun; try discriminate Hrun.
  destruct (lower_block tops fT P (fn_body d) E0 None) as [[[w E'] o1]| |] eqn:Hb; cbn [bind] in Hrun;
    try discriminate Hrun. injection Hrun as <- <-.
  unfold Sem.run_main. rewrite Hfind.
  destruct (Sem.decode_args P (fn_params d) args) as [vals|] eqn:Ed; [|exact I].
  unfold Sem.eval_consts. rewrite Hc.
  assert (Hrel0 : env_rel3 VRs (Sem.push_scope (Sem.mkEnv [[]] false)) (env_push [[]]) ([] :: [[]])).
  { apply rel_push. unfold env_rel3. cbn [Sem.scopes]. constructor; [|constructor].
    split; [exact I|]. intro x. cbn. auto. }
  pose proof (init_rel P _ _ _ Ed Hsp _ _ _ _ Hrel0 Ef) as Hrel.
  pose proof (tsem_sem_imp_block P fuel fw _ _ _ _ _ fT _ _ _ Hsc Hi Hrel Hb) as H. revert H.
  destruct (Sem.exec_block fuel P (Sem.push_scope (Sem.bind_all (Sem.push_scope (Sem.mkEnv [[]] false)) vals))
              (fn_body d)) as [[v en1]|r m|c|]; cbn [Sem.obind]; intro H; try exact I; [|exact H].
  destruct H as (-> & HV & _).
  destruct (Sem.encode Sem.ty_fuel P (fn_ret d) v) as [bits|] eqn:Ee; [|exact I].
  split; [reflexivity|]. symmetry. eapply encode_VRs; eassumption.
Qed.
Print Assumptions tsem_sem_program.

(* ------------------------------------------------------------------ sanity: the hypotheses are
   satisfiable, on a block with let mut, if / else with assignments in both branches *)

Module SanityStmt.
  Definition P0 : program := mkProgram [] [] [] [] 0.
  Definition mm (k : N) : meta := mkMeta k 1 k 9.
  Definition u8 := TInt false 8.
  Definition va := Ex (EId 0) (mm 1) u8.
  Definition vb := Ex (EId 1) (mm 2) u8.
  Definition vx := Ex (EId 2) (mm 3) u8.
  (* { let mut x = a; if x < b { x = x + b; } else { x = x - b; }; x } *)
  Definition body : list stmt :=
    [ St (SLetMut 2 va) (mm 4);
      St (SExpr (Ex (EIf (Ex (EOp OLt vx vb) (mm 5) TBool)
                         (Ex (EBlock [St (SAssign 2 [] (Ex (EOp OAdd vx vb) (mm 6) u8)) (mm 7)]) (mm 8) unit_ty)
                         (Ex (EBlock [St (SAssign 2 [] (Ex (EOp OSub vx vb) (mm 9) u8)) (mm 10)]) (mm 11) unit_ty))
                    (mm 12) unit_ty)) (mm 13);
      St (SExpr vx) (mm 14) ].
  Definition g0 : tenv := [[(0, (u8, false)); (1, (u8, false))]].
  Definition en0 (a c : Z) : Sem.env := Sem.mkEnv [[(0, Sem.VInt a); (1, Sem.VInt c)]] false.
  Definition E0 (a c : Z) : @cenv bool := [[(0, enc 8 a); (1, enc 8 c)]].

  Lemma checks : sc_block 10 ([] :: g0) body = Some u8 /\ forallb imp_stmt body = true.
  Proof. split; reflexivity. Qed.

  Lemma rel0 a c : Sem.in_range false 8 a = true -> Sem.in_range false 8 c = true ->
    env_rel3 VRs (en0 a c) (E0 a c) g0.
  Proof.
    intros Ha Hc. unfold env_rel3, en0, E0, g0. cbn [Sem.scopes]. constructor; [|constructor].
    split.
    - unfold ssorted. cbn. repeat split; intros k' Hin; cbn in Hin; intuition lia.
    - intro x. cbn [assocN].
      destruct (x =? 0); [exists (Sem.VInt a), (enc 8 a); repeat split; apply (VRs_intro u8 (Sem.VInt a)); auto|].
      destruct (x =? 1); [exists (Sem.VInt c), (enc 8 c); repeat split; apply (VRs_intro u8 (Sem.VInt c)); auto|].
      auto.
  Qed.

  (* 100 < 200: x = 100 + 200 overflows; the bit-level run also evaluates the other branch *)
  Example panics : exists w E',
    lower_block tops 8 P0 body (E0 100 200) None =
      Ok ((w, E'), Some (preason_num Overflow, ploc32 (ploc_of (mm 6)))).
  Proof.
    destruct checks as [H1 H2].
    destruct (lower_block tops 8 P0 body (E0 100 200) None) as [[[w E'] o']| |] eqn:Hrun;
      [|vm_compute in Hrun; discriminate Hrun|vm_compute in Hrun; discriminate Hrun].
    pose proof (tsem_sem_imp_block P0 10 10 g0 body u8 (en0 100 200) _ 8 w E' o' H1 H2
                  (rel0 100 200 eq_refl eq_refl) Hrun) as H.
    assert (Sem.obind (Sem.exec_block 10 P0 (Sem.push_scope (en0 100 200)) body)
              (fun '(v, en1) => Sem.Done (v, Sem.pop_scope en1)) = Sem.Panicked Sem.ROverflow (mm 6)) as Ev
      by (vm_compute; reflexivity).
    rewrite Ev in H. subst o'. eauto.
  Qed.
End SanityStmt.
