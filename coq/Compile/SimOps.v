(* Every operation of the builder instance simulates its Boolean counterpart (from the
   soundness theorems of the builder, the gadgets, the sorting networks and the panic
   record), and the pure helpers of the lowering preserve the value relations. *)
From GV Require Import Base.Util Base.NMap Lang.Ast Builder.Builder Builder.BuilderSem Builder.BuilderSpec
  Gadgets.Gadgets Gadgets.GadgetSpec Gadgets.GadgetHoare Sort.Sort Sort.SortHoare
  Panic.PanicRec Panic.PanicSem Panic.PanicProofs Compile.Lower Compile.TSem Compile.SimBase.

Section Ops.
Variable inv : builder -> Prop.
Hypothesis ops : builder_ops_sound inv.
Variable inp : list bool.

Notation Rw := (Rw inp).
Notation Rws := (Rws inp).
Notation Rwss := (Rwss inp).
Notation RP := (RP inp).
Notation RS := (RS inv inp).
Notation RE := (RE inp).
Notation sim := (sim inv inp).

Ltac fin r b' E I X := exists r, b'; split; [exact E|]; split; [exact I|]; split; [exact X|].

Lemma Rws_of_dens s ws vs : valids (cb s) ws -> dens inp (cb s) ws = vs -> Rws s ws vs.
Proof. intros H <-. now apply Rws_of. Qed.

Lemma Rw_mk b P w v : valid b w -> den inp b w = v -> Rw (mkCst b P) w v.
Proof. intros; split; assumption. Qed.

(* the relations only look at the gate store *)
Lemma Rw_cb s s' w v : cb s = cb s' -> Rw s w v -> Rw s' w v.
Proof. unfold SimBase.Rw. intros ->. auto. Qed.

(* ------------------------------------------------------------------ gates *)

Lemma sim_binop (f : builder -> N -> N -> res (N * builder)) (op : bool -> bool -> bool) s o x y vx vy :
  binop_sound inv f op -> RS s o -> Rw s x vx -> Rw s y vy ->
  sim s o (liftb (fun b => f b x y)) (tret (op vx vy)) (fun s' r v => Rw s' r v).
Proof.
  intros Hf HS [Vx Dx] [Vy Dy]. apply sim_liftb; [exact HS|].
  destruct (Hf (cb s) x y (RS_inv _ _ _ _ HS) Vx Vy) as (r & b' & E & I & X & V & D).
  exists r, b'. split; [exact E|]. split; [exact I|]. split; [exact X|]. apply Rw_mk; [exact V|].
  rewrite (D inp (RS_ins _ _ _ _ HS)), Dx, Dy. reflexivity.
Qed.

Lemma sim_xor s o x y vx vy : RS s o -> Rw s x vx -> Rw s y vy ->
  sim s o (o_xor bops x y) (o_xor tops vx vy) (fun s' r v => Rw s' r v).
Proof. apply sim_binop. apply (bs_xor inv ops). Qed.
Lemma sim_and s o x y vx vy : RS s o -> Rw s x vx -> Rw s y vy ->
  sim s o (o_and bops x y) (o_and tops vx vy) (fun s' r v => Rw s' r v).
Proof. apply sim_binop. apply (bs_and inv ops). Qed.
Lemma sim_or s o x y vx vy : RS s o -> Rw s x vx -> Rw s y vy ->
  sim s o (o_or bops x y) (o_or tops vx vy) (fun s' r v => Rw s' r v).
Proof. apply sim_binop. apply (bs_or inv ops). Qed.
Lemma sim_eq s o x y vx vy : RS s o -> Rw s x vx -> Rw s y vy ->
  sim s o (o_eq bops x y) (o_eq tops vx vy) (fun s' r v => Rw s' r v).
Proof. apply (sim_binop push_eq (fun a b => negb (xorb a b))). apply (bs_eq inv ops). Qed.

Lemma sim_not s o x vx : RS s o -> Rw s x vx ->
  sim s o (o_not bops x) (o_not tops vx) (fun s' r v => Rw s' r v).
Proof.
  intros HS [Vx Dx]. apply sim_liftb; [exact HS|].
  destruct (bs_not inv ops (cb s) x (RS_inv _ _ _ _ HS) Vx) as (r & b' & E & I & X & V & D).
  exists r, b'. split; [exact E|]. split; [exact I|]. split; [exact X|]. apply Rw_mk; [exact V|].
  rewrite (D inp (RS_ins _ _ _ _ HS)), Dx. reflexivity.
Qed.

Lemma sim_mux s o c x0 x1 vc v0 v1 : RS s o -> Rw s c vc -> Rw s x0 v0 -> Rw s x1 v1 ->
  sim s o (o_mux bops c x0 x1) (o_mux tops vc v0 v1) (fun s' r v => Rw s' r v).
Proof.
  intros HS [Vc Dc] [V0 D0] [V1 D1]. apply sim_liftb; [exact HS|].
  destruct (bs_mux inv ops (cb s) c x0 x1 (RS_inv _ _ _ _ HS) Vc V0 V1) as (r & b' & E & I & X & V & D).
  exists r, b'. split; [exact E|]. split; [exact I|]. split; [exact X|]. apply Rw_mk; [exact V|].
  rewrite (D inp (RS_ins _ _ _ _ HS)), Dc, D0, D1. reflexivity.
Qed.

(* ------------------------------------------------------------------ gadgets *)

Lemma sim_liftb_guard {X Y} s o (f : builder -> res (X * builder)) (g : bool) (y : Y) (Q : cst -> X -> Y -> Prop) :
  RS s o ->
  (g = true -> exists r b', f (cb s) = Ok (r, b') /\ inv b' /\ ext (cb s) b' /\ Q (mkCst b' (cp s)) r y) ->
  sim s o (liftb f) (fun o => if g then Ok (y, o) else Crash) Q.
Proof.
  intros HS H y' o' E. destruct g; [|discriminate]. injection E as <- <-.
  destruct (H eq_refl) as (r & b' & Ef & Hi' & Ex & HQ).
  exists r, (mkCst b' (cp s)). unfold liftb. rewrite Ef. cbn [bind].
  split; [reflexivity|]. split; [exact Ex|]. split; [apply RS_liftb; auto|exact HQ].
Qed.

Lemma sim_negation s o x vx : RS s o -> Rws s x vx ->
  sim s o (o_negation bops x) (o_negation tops vx) (fun s' r v => Rws s' r v).
Proof.
  intros HS Hx. apply sim_liftb; [exact HS|].
  destruct (push_negation_circuit_sound inv ops (cb s) x (RS_inv _ _ _ _ HS) (Rws_valids _ _ _ _ Hx))
    as (r & b' & E & I & X & V & D).
  fin r b' E I X. apply Rws_of_dens; [exact V|]. cbn [cb].
  rewrite (D inp (RS_ins _ _ _ _ HS)), (Rws_dens _ _ _ _ Hx). reflexivity.
Qed.

Lemma same_len_true {A B} (x : list A) (y : list B) : same_len x y = true -> length x = length y.
Proof. unfold same_len. apply Nat.eqb_eq. Qed.

Lemma nonempty_true {A} (x : list A) : nonempty x = true -> x <> [].
Proof. destruct x; [discriminate|]. intros _ H. discriminate. Qed.

Lemma sim_addition s o x y vx vy : RS s o -> Rws s x vx -> Rws s y vy ->
  sim s o (o_addition bops x y) (o_addition tops vx vy)
    (fun s' r v => Rws s' (fst (fst r)) (fst (fst v)) /\ Rw s' (snd (fst r)) (snd (fst v)) /\ Rw s' (snd r) (snd v)).
Proof.
  intros HS Hx Hy. apply sim_liftb_guard; [exact HS|]. intro G. apply same_len_true in G.
  assert (L : length x = length y) by (rewrite (Rws_length _ _ _ _ Hx), (Rws_length _ _ _ _ Hy); exact G).
  destruct (push_addition_circuit_sound inv ops (cb s) x y (RS_inv _ _ _ _ HS) (Rws_valids _ _ _ _ Hx)
              (Rws_valids _ _ _ _ Hy) L) as (r & b' & E & I & X & V1 & V2 & V3 & D).
  fin r b' E I X.
  pose proof (D inp (RS_ins _ _ _ _ HS)) as Dd; rewrite (Rws_dens _ _ _ _ Hx), (Rws_dens _ _ _ _ Hy) in Dd.
  split; [|split].
  - apply Rws_of_dens; [exact V1|]. cbn [cb]. now rewrite <- Dd.
  - apply Rw_mk; [exact V2|]. now rewrite <- Dd.
  - apply Rw_mk; [exact V3|]. now rewrite <- Dd.
Qed.

Lemma Rws_nonempty s x vx : Rws s x vx -> vx <> [] -> x <> [].
Proof. intros H Hn. destruct H; [congruence|discriminate]. Qed.

Lemma sim_subtraction s o x y sg vx vy : RS s o -> Rws s x vx -> Rws s y vy ->
  sim s o (o_subtraction bops x y sg) (o_subtraction tops vx vy sg)
    (fun s' r v => Rws s' (fst r) (fst v) /\ Rw s' (snd r) (snd v)).
Proof.
  intros HS Hx Hy. apply sim_liftb_guard; [exact HS|]. intro G. apply andb_prop in G. destruct G as [G1 G2].
  apply same_len_true in G1.
  assert (L : length x = length y) by (rewrite (Rws_length _ _ _ _ Hx), (Rws_length _ _ _ _ Hy); exact G1).
  assert (Hne : sg = true -> x <> []).
  { intros ->. cbn in G2. apply nonempty_true in G2. eapply Rws_nonempty; eauto. }
  destruct (push_subtraction_circuit_sound inv ops (cb s) x y sg (RS_inv _ _ _ _ HS) (Rws_valids _ _ _ _ Hx)
              (Rws_valids _ _ _ _ Hy) L Hne) as (r & b' & E & I & X & V1 & V2 & D).
  fin r b' E I X.
  pose proof (D inp (RS_ins _ _ _ _ HS)) as Dd; rewrite (Rws_dens _ _ _ _ Hx), (Rws_dens _ _ _ _ Hy) in Dd.
  split.
  - apply Rws_of_dens; [exact V1|]. cbn [cb]. now rewrite <- Dd.
  - apply Rw_mk; [exact V2|]. now rewrite <- Dd.
Qed.

Lemma sim_multiplier s o x y z c vx vy vz vc : RS s o -> Rw s x vx -> Rw s y vy -> Rw s z vz -> Rw s c vc ->
  sim s o (o_multiplier bops x y z c) (o_multiplier tops vx vy vz vc)
    (fun s' r v => Rw s' (fst r) (fst v) /\ Rw s' (snd r) (snd v)).
Proof.
  intros HS [Vx Dx] [Vy Dy] [Vz Dz] [Vc Dc]. apply sim_liftb; [exact HS|].
  destruct (push_multiplier_sound inv ops (cb s) x y z c (RS_inv _ _ _ _ HS) Vx Vy Vz Vc)
    as (r & b' & E & I & X & V1 & V2 & D).
  fin r b' E I X. pose proof (D inp (RS_ins _ _ _ _ HS)) as Dd. rewrite Dx, Dy, Dz, Dc in Dd.
  split; (apply Rw_mk; [assumption|]); now rewrite <- Dd.
Qed.

Lemma sim_udiv s o x y vx vy : RS s o -> Rws s x vx -> Rws s y vy ->
  sim s o (o_udiv bops x y) (o_udiv tops vx vy)
    (fun s' r v => Rws s' (fst r) (fst v) /\ Rws s' (snd r) (snd v)).
Proof.
  intros HS Hx Hy. apply sim_liftb_guard; [exact HS|]. intro G. apply same_len_true in G.
  assert (L : length x = length y) by (rewrite (Rws_length _ _ _ _ Hx), (Rws_length _ _ _ _ Hy); exact G).
  destruct (push_unsigned_division_circuit_sound inv ops (cb s) x y (RS_inv _ _ _ _ HS) (Rws_valids _ _ _ _ Hx)
              (Rws_valids _ _ _ _ Hy) L) as (r & b' & E & I & X & V1 & V2 & D).
  fin r b' E I X. pose proof (D inp (RS_ins _ _ _ _ HS)) as Dd.
  rewrite (Rws_dens _ _ _ _ Hx), (Rws_dens _ _ _ _ Hy) in Dd.
  split; (apply Rws_of_dens; [assumption|]); cbn [cb]; now rewrite <- Dd.
Qed.

Lemma sim_sdiv s o x y vx vy : RS s o -> Rws s x vx -> Rws s y vy ->
  sim s o (o_sdiv bops x y) (o_sdiv tops vx vy)
    (fun s' r v => Rws s' (fst r) (fst v) /\ Rws s' (snd r) (snd v)).
Proof.
  intros HS Hx Hy. apply sim_liftb_guard; [exact HS|]. intro G. apply andb_prop in G. destruct G as [G1 G2].
  apply same_len_true in G1. apply nonempty_true in G2.
  assert (L : length x = length y) by (rewrite (Rws_length _ _ _ _ Hx), (Rws_length _ _ _ _ Hy); exact G1).
  destruct (push_signed_division_circuit_sound inv ops (cb s) x y (RS_inv _ _ _ _ HS) (Rws_valids _ _ _ _ Hx)
              (Rws_valids _ _ _ _ Hy) L (Rws_nonempty _ _ _ Hx G2)) as (r & b' & E & I & X & V1 & V2 & D).
  fin r b' E I X. pose proof (D inp (RS_ins _ _ _ _ HS)) as Dd.
  rewrite (Rws_dens _ _ _ _ Hx), (Rws_dens _ _ _ _ Hy) in Dd.
  split; (apply Rws_of_dens; [assumption|]); cbn [cb]; now rewrite <- Dd.
Qed.

Lemma sim_comparator s o bits x sx y sy vx vy : RS s o -> Rws s x vx -> Rws s y vy ->
  sim s o (o_comparator bops bits x sx y sy) (o_comparator tops bits vx sx vy sy)
    (fun s' r v => Rw s' (fst r) (fst v) /\ Rw s' (snd r) (snd v)).
Proof.
  intros HS Hx Hy. apply sim_liftb_guard; [exact HS|]. intro G. apply andb_prop in G. destruct G as [G1 G2].
  apply Nat.leb_le in G1, G2. rewrite <- (Rws_length _ _ _ _ Hx) in G1. rewrite <- (Rws_length _ _ _ _ Hy) in G2.
  destruct (push_comparator_circuit_sound inv ops (cb s) bits x sx y sy (RS_inv _ _ _ _ HS)
              (Rws_valids _ _ _ _ Hx) (Rws_valids _ _ _ _ Hy) G1 G2) as (r & b' & E & I & X & V1 & V2 & D).
  fin r b' E I X. pose proof (D inp (RS_ins _ _ _ _ HS)) as Dd.
  rewrite (Rws_dens _ _ _ _ Hx), (Rws_dens _ _ _ _ Hy) in Dd.
  split; (apply Rw_mk; [assumption|]); now rewrite <- Dd.
Qed.

Lemma sim_eq_circuit s o x y vx vy : RS s o -> Rws s x vx -> Rws s y vy ->
  sim s o (o_eq_circuit bops x y) (o_eq_circuit tops vx vy) (fun s' r v => Rw s' r v).
Proof.
  intros HS Hx Hy. apply sim_liftb; [exact HS|].
  destruct (push_eq_circuit_sound inv ops (cb s) x y (RS_inv _ _ _ _ HS) (Rws_valids _ _ _ _ Hx)
              (Rws_valids _ _ _ _ Hy)) as (r & b' & E & I & X & V & D).
  fin r b' E I X. apply Rw_mk; [exact V|].
  rewrite (D inp (RS_ins _ _ _ _ HS)), (Rws_dens _ _ _ _ Hx), (Rws_dens _ _ _ _ Hy). reflexivity.
Qed.

(* ------------------------------------------------------------------ sorting networks *)

Lemma Rwss_densl s v vv : Rwss s v vv -> densl inp (cb s) v = vv.
Proof. induction 1; cbn; [reflexivity|]. f_equal; [eapply Rws_dens; eauto|assumption]. Qed.

Lemma Rwss_of s L v : elems_ok (cb s) L v -> Rwss s v (densl inp (cb s) v).
Proof. induction 1 as [|x v [Hx _] _ IH]; cbn; constructor; auto. now apply Rws_of. Qed.

Lemma elems_shape_ok s bits v vv : Rwss s v vv -> elems_shape bits vv = true ->
  exists L, elems_ok (cb s) L v /\ (bits <= L)%nat.
Proof.
  intros H E. destruct H as [|x vx v vv Hx Hr].
  - exists bits. split; [constructor|lia].
  - cbn [elems_shape] in E. apply andb_prop in E. destruct E as [E1 E2]. apply Nat.leb_le in E2.
    exists (length vx). split; [|exact E2].
    rewrite forallb_forall in E1.
    assert (HF : Rwss s (x :: v) (vx :: vv)) by (constructor; assumption).
    clear Hx Hr. induction HF as [|a va l lv Ha _ IH]; constructor.
    + split; [eapply Rws_valids; eauto|]. rewrite (Rws_length _ _ _ _ Ha). apply Nat.eqb_eq. apply E1. now left.
    + apply IH. intros z Hz. apply E1. now right.
Qed.

Lemma sim_merger s o bits asc v vv : RS s o -> Rwss s v vv ->
  sim s o (o_merger bops bits asc v) (o_merger tops bits asc vv) (fun s' r w => Rwss s' r w).
Proof.
  intros HS Hv. apply sim_liftb_guard; [exact HS|]. intro G.
  destruct (elems_shape_ok _ _ _ _ Hv G) as (L & Hok & HL).
  destruct (push_bitonic_merger_top_sound inv ops bits L asc (cb s) v (RS_inv _ _ _ _ HS) Hok HL)
    as (v' & b' & E & I & X & Hok' & Len & D).
  fin v' b' E I X.
  rewrite <- (Rwss_densl _ _ _ Hv), <- (D inp (RS_ins _ _ _ _ HS)).
  apply (Rwss_of (mkCst b' (cp s)) L). exact Hok'.
Qed.

Lemma sim_sorter s o bits v vv : RS s o -> Rwss s v vv ->
  sim s o (o_sorter bops bits v) (o_sorter tops bits vv) (fun s' r w => Rwss s' r w).
Proof.
  intros HS Hv. apply sim_liftb_guard; [exact HS|]. intro G.
  destruct (elems_shape_ok _ _ _ _ Hv G) as (L & Hok & HL).
  destruct (push_bitonic_sorter_sound inv ops bits L (cb s) v (RS_inv _ _ _ _ HS) Hok HL)
    as (v' & b' & E & I & X & Hok' & Len & D).
  fin v' b' E I X.
  rewrite <- (Rwss_densl _ _ _ Hv), <- (D inp (RS_ins _ _ _ _ HS)).
  apply (Rwss_of (mkCst b' (cp s)) L). exact Hok'.
Qed.

(* ------------------------------------------------------------------ panic record *)

Lemma sim_panic_if s o c vc r m : RS s o -> Rw s c vc ->
  sim s o (o_panic_if bops c r m) (o_panic_if tops vc r m) (fun _ _ _ => True).
Proof.
  intros (Hi & Hin & HPok & HPo) [Vc Dc] y o' E. cbn [o_panic_if tops] in E. injection E as <- <-.
  destruct (push_obs inv ops (cb s) (cp s) c r (ploc_of m) Hi HPok Vc) as (P' & b' & Ep & I' & X & Hok' & D).
  exists tt, (mkCst b' P'). cbn [o_panic_if bops]. unfold b_panic_if. fold (ploc_of m). rewrite Ep. cbn [bind].
  split; [reflexivity|]. split; [exact X|]. split; [|exact I].
  split; [exact I'|]. split; [eapply ext_ins_ok; eauto|]. split; [exact Hok'|].
  cbn [cb cp]. rewrite (D inp Hin), HPo, Dc. reflexivity.
Qed.

Lemma sim_peek s o : RS s o -> sim s o (o_peek bops) (o_peek tops) (fun s' P ob => RP s' P ob).
Proof.
  intros HS y o' E. cbn [o_peek tops] in E. injection E as <- <-.
  exists (cp s), s. cbn [o_peek bops]. split; [reflexivity|]. split; [apply extS_refl|]. split; [exact HS|].
  destruct HS as (_ & _ & H). exact H.
Qed.

Lemma sim_replace s o PA ob : RS s o -> RP s PA ob ->
  sim s o (o_replace bops PA) (o_replace tops ob) (fun s' P o1 => RP s' P o1).
Proof.
  intros (Hi & Hin & HP) HPA y o' E. cbn [o_replace tops] in E. injection E as <- <-.
  exists (cp s), (mkCst (cb s) PA). cbn [o_replace bops]. split; [reflexivity|].
  split; [apply ext_refl|]. split; [|exact HP].
  split; [exact Hi|]. split; [exact Hin|]. exact HPA.
Qed.

Lemma sim_mux_panic s o c vc T F oT oF : RS s o -> Rw s c vc -> RP s T oT -> RP s F oF ->
  sim s o (o_mux_panic bops c T F) (o_mux_panic tops vc oT oF) (fun s' P o1 => RP s' P o1).
Proof.
  intros HS [Vc Dc] [HT OT] [HF OF] y o' E. cbn [o_mux_panic tops] in E. injection E as <- <-.
  destruct (mux_obs inv ops (cb s) c T F (RS_inv _ _ _ _ HS) Vc HT HF) as (P' & b' & Em & I' & X & Hok' & D).
  exists P', (mkCst b' (cp s)). cbn [o_mux_panic bops]. unfold b_mux_panic. rewrite Em. cbn [bind].
  split; [reflexivity|]. split; [exact X|]. split; [apply RS_liftb; auto|].
  split; [exact Hok'|]. cbn [cb]. rewrite (D inp (RS_ins _ _ _ _ HS)), Dc, OT, OF. reflexivity.
Qed.

End Ops.
