(* Committed table of the HashMap / HashSet iteration sites of the compiler (keys as produced by
   tools/sites.py) with the reason why the iteration order cannot reach the emitted circuit.
   Props/C06.v requires every site of the current source tree (Generated/Sites.v, regenerated on every
   build) to be listed here.  A new, moved or edited iteration is a broken obligation of C06 until it
   has been looked at and entered. *)
From Coq Require Import String List Bool.
Import ListNotations.
Open Scope string_scope.

Definition discharged_sites : list (string * string) :=
  [
    ("check.rs ## new ## for (const_name, ty) in const_defs.iter() { ## 1",
     "checker: fills maps / sets or produces error lists that are sorted before they are returned; the checker has no Gallina model, its output (typed AST, verdict) is compared across repeated compilations and re-checked by Wt.v");
    ("check.rs ## new ## for (struct_name, struct_def) in struct_defs.iter() { ## 1",
     "checker: fills maps / sets or produces error lists that are sorted before they are returned; the checker has no Gallina model, its output (typed AST, verdict) is compared across repeated compilations and re-checked by Wt.v");
    ("check.rs ## new ## for (enum_name, enum_def) in enum_defs.iter() { ## 1",
     "checker: fills maps / sets or produces error lists that are sorted before they are returned; the checker has no Gallina model, its output (typed AST, verdict) is compared across repeated compilations and re-checked by Wt.v");
    ("check.rs ## type_check ## struct_names.extend(self.struct_defs.keys()); ## 1",
     "checker: fills maps / sets or produces error lists that are sorted before they are returned; the checker has no Gallina model, its output (typed AST, verdict) is compared across repeated compilations and re-checked by Wt.v");
    ("check.rs ## type_check ## enum_names.extend(self.enum_defs.keys()); ## 1",
     "checker: fills maps / sets or produces error lists that are sorted before they are returned; the checker has no Gallina model, its output (typed AST, verdict) is compared across repeated compilations and re-checked by Wt.v");
    ("check.rs ## type_check ## let mut sorted_const_defs: Vec<_> = self.const_defs.iter().collect(); ## 1",
     "sorted: collected into a Vec that is sorted by source position before use");
    ("check.rs ## check_const_expr ## for (struct_name, struct_def) in self.struct_defs.iter() { ## 1",
     "checker: fills maps / sets or produces error lists that are sorted before they are returned; the checker has no Gallina model, its output (typed AST, verdict) is compared across repeated compilations and re-checked by Wt.v");
    ("check.rs ## check_const_expr ## for (enum_name, enum_def) in self.enum_defs.iter() { ## 1",
     "checker: fills maps / sets or produces error lists that are sorted before they are returned; the checker has no Gallina model, its output (typed AST, verdict) is compared across repeated compilations and re-checked by Wt.v");
    ("check.rs ## check_const_expr ## .chain(enum_defs.iter().map(|(name, def)| (name, def.meta))) ## 1",
     "checker: fills maps / sets or produces error lists that are sorted before they are returned; the checker has no Gallina model, its output (typed AST, verdict) is compared across repeated compilations and re-checked by Wt.v");
    ("check.rs ## check_const_expr ## for (fn_name, fn_def) in self.fn_defs.iter() { ## 1",
     "checker: fills maps / sets or produces error lists that are sorted before they are returned; the checker has no Gallina model, its output (typed AST, verdict) is compared across repeated compilations and re-checked by Wt.v");
    ("check.rs ## check_const_expr ## for (fn_name, fn_def) in self.fn_defs.iter() { ## 2",
     "checker: fills maps / sets or produces error lists that are sorted before they are returned; the checker has no Gallina model, its output (typed AST, verdict) is compared across repeated compilations and re-checked by Wt.v");
    ("check.rs ## check_const_expr ## for (fn_name, fn_def) in self.fn_defs.iter() { ## 3",
     "checker: fills maps / sets or produces error lists that are sorted before they are returned; the checker has no Gallina model, its output (typed AST, verdict) is compared across repeated compilations and re-checked by Wt.v");
    ("check.rs ## check_const_expr ## for (fn_name, fn_def) in checked_fn_defs.typed.into_iter() { ## 1",
     "checker: fills maps / sets or produces error lists that are sorted before they are returned; the checker has no Gallina model, its output (typed AST, verdict) is compared across repeated compilations and re-checked by Wt.v");
    ("circuit.rs ## mux_panic ## for (k, t) in cache_t.iter() { ## 1",
     "proved: C02_mux_panic_order_irrelevant (the intersection of the two caches does not depend on the order; no gate is emitted in the loop)");
    ("compile.rs ## compile_with_constants ## for (party, deps) in self.const_deps.iter() { ## 1",
     "fill: inserts into maps keyed by distinct identifiers, errors are sorted before they are returned; no gate is emitted (Compile/Consts.v models the passes over sorted association lists, tied in C12)");
    ("compile.rs ## compile_with_constants ## for (c, (ty, meta)) in deps { ## 1",
     "fill: inserts into maps keyed by distinct identifiers, errors are sorted before they are returned; no gate is emitted (Compile/Consts.v models the passes over sorted association lists, tied in C12)");
    ("compile.rs ## compile_with_constants ## let mut sorted_const_defs: Vec<_> = self.const_defs.iter().collect(); ## 1",
     "sorted: collected into a Vec that is sorted by source position before use");
    ("compile.rs ## compile_with_constants ## for (party, deps) in self.const_deps.iter() { ## 2",
     "fill: inserts into maps keyed by distinct identifiers, errors are sorted before they are returned; no gate is emitted (Compile/Consts.v models the passes over sorted association lists, tied in C12)");
    ("compile.rs ## compile_with_constants ## for (c, (ty, _)) in deps { ## 1",
     "fill: inserts into maps keyed by distinct identifiers, errors are sorted before they are returned; no gate is emitted (Compile/Consts.v models the passes over sorted association lists, tied in C12)");
    ("compile.rs ## compile ## for f in fields { ## 1",
     "vec: the iterated value is a Vec of the AST / of the struct definition (declaration order), the name merely coincides with a hash-typed local of the same function");
    ("compile.rs ## compile ## for (field_name, field_ty) in struct_def.fields.iter() { ## 1",
     "vec: the iterated value is a Vec of the AST / of the struct definition (declaration order), the name merely coincides with a hash-typed local of the same function");
    ("compile.rs ## compile ## let fields: HashMap<_, _> = fields.iter().cloned().collect(); ## 1",
     "vec: iterates the AST's Vec of fields to BUILD a map; the map is only used for lookups (Lower.v: assocN over the list)");
    ("compile.rs ## compile ## for (field_name, _) in struct_def.fields.iter() { ## 1",
     "vec: the iterated value is a Vec of the AST / of the struct definition (declaration order), the name merely coincides with a hash-typed local of the same function");
    ("compile.rs ## compile ## for field in fields { ## 1",
     "vec: the iterated value is a Vec of the AST / of the struct definition (declaration order), the name merely coincides with a hash-typed local of the same function");
    ("compile.rs ## compile ## let fields: HashMap<_, _> = fields.iter().cloned().collect(); ## 2",
     "vec: iterates the AST's Vec of fields to BUILD a map; the map is only used for lookups (Lower.v: assocN over the list)");
    ("compile.rs ## compile ## for (field_name, field_type) in struct_def.fields.iter() { ## 1",
     "vec: the iterated value is a Vec of the AST / of the struct definition (declaration order), the name merely coincides with a hash-typed local of the same function");
    ("compile.rs ## compile ## for (field, field_type) in fields.iter().zip(field_types) { ## 1",
     "vec: the iterated value is a Vec of the AST / of the struct definition (declaration order), the name merely coincides with a hash-typed local of the same function");
    ("literal.rs ## parse ## struct_names.extend(checked.struct_defs.keys()); ## 1",
     "fill: extends a set of names used for lookups only");
    ("literal.rs ## parse ## enum_names.extend(checked.enum_defs.keys()); ## 1",
     "fill: extends a set of names used for lookups only")
  ].

Definition site_discharged (k : string) : bool := existsb (String.eqb k) (map fst discharged_sites).
