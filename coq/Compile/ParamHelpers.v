(* Parametricity of the generic lowering, part 2: the pure and monadic helpers of Lower.v
   (everything before the statements / expressions / patterns) preserve the abstract
   relations of ParamBase.v.  The scripts are those of SimHelpers.v. *)
From GV Require Import Base.Util Base.NMap Lang.Ast Gadgets.Gadgets Gadgets.Extend Panic.PanicRec Compile.Lower Compile.ParamBase.

(* moves every value relation of the context from the state [s] of [He : extS s s1] to [s1] *)
Ltac lift_to He :=
  match type of He with
  | extS _ ?s ?s1 =>
      match goal with
      | HS0 : ParamBase.RS _ s _ |- _ =>
          let Hi := fresh "Hi" in
          pose proof (RS_ok _ _ _ HS0) as Hi;
          repeat match goal with
            | H : ParamBase.Rw _ s _ _ |- _ => apply (Rw_mono _ s s1 _ _ He Hi) in H
            | H : ParamBase.Rws _ s _ _ |- _ => apply (Rws_mono _ s s1 _ _ He Hi) in H
            | H : ParamBase.Rwss _ s _ _ |- _ => apply (Rwss_mono _ s s1 _ _ He Hi) in H
            | H : ParamBase.RE _ s _ _ |- _ => apply (RE_mono _ s s1 _ _ He Hi) in H
            | H : ParamBase.RP _ s _ _ |- _ => apply (RP_mono _ s s1 _ _ He Hi) in H
            | H : Forall2 (ParamBase.Rw _ s) _ _ |- _ => apply (Rws_mono _ s s1 _ _ He Hi) in H
            | H : ParamBase.Rscope _ s _ _ |- _ => apply (Rscope_mono _ s s1 _ _ He Hi) in H
            | H : Forall2 (ParamBase.Rbind _ s) _ _ |- _ => apply (Rscope_mono _ s s1 _ _ He Hi) in H
            | H : Forall2 (ParamBase.Rscope _ s) _ _ |- _ => apply (RE_mono _ s s1 _ _ He Hi) in H
            | H : Forall2 (ParamBase.Rws _ s) _ _ |- _ => apply (Rwss_mono _ s s1 _ _ He Hi) in H
            end;
          clear Hi
      end
  end.

(* after [eapply sim_bind]: introduce the new state and results, move the context there *)
Ltac snext :=
  let s1 := fresh "s" in let o1 := fresh "o" in let He := fresh "He" in let HS1 := fresh "HS" in
  let HR := fresh "HR" in
  intros s1 o1 ? ? He HS1 HR; cbn beta in HR; lift_to He;
  match type of He with extS _ ?s _ =>
    match goal with HS0 : ParamBase.RS _ s _ |- _ => clear HS0 end end.

Tactic Notation "sbind" uconstr(lem) := eapply sim_bind; [eapply lem; eauto|snext].

(* the same with names for the two results and their relation *)
Tactic Notation "snext" "as" ident(x) ident(y) ident(HR) :=
  let s1 := fresh "s" in let o1 := fresh "o" in let He := fresh "He" in let HS1 := fresh "HS" in
  intros s1 o1 x y He HS1 HR; cbn beta in HR; lift_to He;
  match type of He with extS _ ?s _ =>
    match goal with HS0 : ParamBase.RS _ s _ |- _ => clear HS0 end end.
Tactic Notation "sbindn" uconstr(lem) "as" ident(x) ident(y) ident(HR) :=
  eapply sim_bind; [eapply lem; eauto|snext as x y HR].
(* a pair of results related componentwise by a conjunction *)
Tactic Notation "sbind2" uconstr(lem) "as" ident(a) ident(b) ident(va) ident(vb) ident(Ha) ident(Hb) :=
  eapply sim_bind; [eapply lem; eauto|];
  let p := fresh "pairA" in let q := fresh "pairB" in let H := fresh "HpairAB" in
  snext as p q H; destruct p as [a b], q as [va vb]; cbn [fst snd] in H; destruct H as [Ha Hb].

Ltac unf := unfold m_xor, m_and, m_or, m_eq, m_not, m_mux, m_panic_if, m_peek, m_replace, m_mux_panic in *.

(* the closures passed to mapM_M / map2_M mention wires of the enclosing state *)
Ltac close_f := intros; match goal with He : extS _ _ _ |- _ => lift_to He end.

Section Helpers.
Context {WA WB SA SB PA PB : Type} {OA : ops WA SA PA} {OB : ops WB SB PB}.
Variable PR : param_rel OA OB.

Notation extS := (extS PR).
Notation okS := (okS PR).
Notation Rw := (Rw PR).
Notation Rws := (Rws PR).
Notation Rwss := (Rwss PR).
Notation RP := (RP PR).
Notation RS := (RS PR).
Notation RE := (RE PR).
Notation Rscope := (Rscope PR).
Notation Rbind := (Rbind PR).
Notation sim := (sim PR).
Notation MA := (@MA SA).
Notation MB := (@MB SB).

Local Hint Resolve extS_refl : core.

(* ------------------------------------------------------------------ constants and pure helpers *)

Lemma Rw_wF s o : RS s o -> Rw s (wF OA) (wF OB).
Proof. apply (Rw_const0 PR). Qed.
Lemma Rw_wT s o : RS s o -> Rw s (wT OA) (wT OB).
Proof. apply (Rw_const1 PR). Qed.

Lemma Rws_unsigned s o n k : RS s o -> Rws s (unsigned_as_wires OA n k) (unsigned_as_wires OB n k).
Proof.
  intro HS. unfold unsigned_as_wires. apply F2_map_same. intro i.
  destruct (N.testbit _ _); [eapply Rw_wT|eapply Rw_wF]; eauto.
Qed.

Lemma Rws_signed s o z k : RS s o -> Rws s (signed_as_wires OA z k) (signed_as_wires OB z k).
Proof.
  intro HS. unfold signed_as_wires. apply F2_map_same. intro i.
  destruct (Z.testbit _ _); [eapply Rw_wT|eapply Rw_wF]; eauto.
Qed.

Lemma Rws_repeat s w v n : Rw s w v -> Rws s (repeat w n) (repeat v n).
Proof. apply F2_repeat. Qed.

Lemma rel_slice {A B} (R : A -> B -> Prop) v vv a n y :
  Forall2 R v vv -> slice vv a n = Ok y -> exists x, slice v a n = Ok x /\ Forall2 R x y.
Proof.
  intros H E. unfold slice in *. rewrite (F2_length R _ _ H).
  destruct (a + n <=? length vv)%nat; [|discriminate]. injection E as <-.
  eexists. split; [reflexivity|]. apply F2_firstn, F2_skipn, H.
Qed.

Lemma rel_splice {A B} (R : A -> B -> Prop) v vv a n w ww y :
  Forall2 R v vv -> Forall2 R w ww -> splice vv a n ww = Ok y ->
  exists x, splice v a n w = Ok x /\ Forall2 R x y.
Proof.
  intros H Hw E. unfold splice in *. rewrite (F2_length R _ _ H), (F2_length R _ _ Hw).
  destruct ((a + n <=? length vv) && (length ww =? n))%nat; [|discriminate]. injection E as <-.
  eexists. split; [reflexivity|]. apply F2_app; [apply F2_firstn, H|]. apply F2_app; [exact Hw|]. apply F2_skipn, H.
Qed.

Lemma rel_hd_res {A B} (R : A -> B -> Prop) v vv y :
  Forall2 R v vv -> hd_res vv = Ok y -> exists x, hd_res v = Ok x /\ R x y.
Proof. intros H E. destruct H; cbn in *; [discriminate|]. injection E as <-. eauto. Qed.

Lemma rel_extend s o v vv sg bits y : RS s o -> Rws s v vv -> extend_g OB vv sg bits = Ok y ->
  exists x, extend_g OA v sg bits = Ok x /\ Rws s x y.
Proof.
  intros HS H E. unfold extend_g in *. destruct H as [|w b v vv Hw Hv].
  - injection E as <-. eexists. split; [reflexivity|]. apply Rws_repeat. eapply Rw_wF; eauto.
  - assert (L : length (w :: v) = length (b :: vv)) by (cbn; f_equal; eapply F2_length; eauto).
    rewrite L. destruct (length (b :: vv) =? bits)%nat.
    + injection E as <-. eexists. split; [reflexivity|]. constructor; auto.
    + destruct (bits <? length (b :: vv))%nat; [discriminate|]. injection E as <-.
      eexists. split; [reflexivity|]. apply F2_app; [|constructor; auto].
      apply Rws_repeat. destruct sg; [exact Hw|eapply Rw_wF; eauto].
Qed.

(* ---- environments *)

Lemma rel_assoc s (a : @scope WA) (b : @scope WB) x vv : Rscope s a b -> assocN x b = Some vv ->
  exists v, assocN x a = Some v /\ Rws s v vv.
Proof.
  induction 1 as [|[k v] [k' v'] a b [Hk Hv] _ IH]; cbn [assocN]; [discriminate|].
  cbn [fst snd] in Hk, Hv. subst k'. destruct (x =? k); [|exact IH].
  intros [= <-]. eauto.
Qed.

Lemma rel_assoc_none s (a : @scope WA) (b : @scope WB) x : Rscope s a b -> assocN x b = None -> assocN x a = None.
Proof.
  induction 1 as [|[k v] [k' v'] a b [Hk Hv] _ IH]; cbn [assocN]; [reflexivity|].
  cbn [fst snd] in Hk. subst k'. destruct (x =? k); [discriminate|exact IH].
Qed.

Lemma rel_env_get s E EB x vv : RE s E EB -> env_get EB x = Some vv ->
  exists v, env_get E x = Some v /\ Rws s v vv.
Proof.
  induction 1 as [|a b E EB Hab _ IH]; cbn [env_get]; [discriminate|].
  destruct (assocN x b) as [w|] eqn:Eb.
  - intros [= <-]. destruct (rel_assoc _ _ _ _ _ Hab Eb) as (v & -> & Hv). eauto.
  - rewrite (rel_assoc_none _ _ _ _ Hab Eb). exact IH.
Qed.

Lemma rel_scope_insert s a b x v vv : Rscope s a b -> Rws s v vv ->
  Rscope s (scope_insert a x v) (scope_insert b x vv).
Proof.
  intros H Hv. induction H as [|[k w] [k' w'] a b [Hk Hw] Hr IH]; cbn [scope_insert].
  - constructor; [split; auto|constructor].
  - cbn [fst snd] in Hk, Hw. subst k'. destruct (x <? k).
    + constructor; [split; auto|]. constructor; [split; auto|exact Hr].
    + destruct (x =? k); constructor; try (split; auto); auto.
Qed.

Lemma rel_env_let s E EB x v vv EB' : RE s E EB -> Rws s v vv -> env_let EB x vv = Ok EB' ->
  exists E', env_let E x v = Ok E' /\ RE s E' EB'.
Proof.
  intros H Hv. destruct H as [|a b E EB Hab Hr]; cbn [env_let]; [discriminate|].
  intros [= <-]. eexists. split; [reflexivity|]. constructor; [|exact Hr]. now apply rel_scope_insert.
Qed.

Lemma rel_scope_replace s a b x v vv b' : Rscope s a b -> Rws s v vv -> scope_replace b x vv = Some b' ->
  exists a', scope_replace a x v = Some a' /\ Rscope s a' b'.
Proof.
  intros H Hv. revert b'. induction H as [|[k w] [k' w'] a b [Hk Hw] Hr IH]; cbn [scope_replace]; [discriminate|].
  cbn [fst snd] in Hk, Hw. subst k'. intro b'. destruct (x =? k).
  - intros [= <-]. eexists. split; [reflexivity|]. constructor; [split; auto|exact Hr].
  - destruct (scope_replace b x vv) as [rb|] eqn:Eb; [|discriminate]. intros [= <-].
    destruct (IH rb eq_refl) as (ra & -> & Hra). eexists. split; [reflexivity|]. constructor; [split; auto|exact Hra].
Qed.

Lemma rel_scope_replace_none s a b x v vv : Rscope s a b -> scope_replace b x vv = None -> scope_replace a x v = None.
Proof.
  induction 1 as [|[k w] [k' w'] a b [Hk Hw] Hr IH]; cbn [scope_replace]; [reflexivity|].
  cbn [fst snd] in Hk. subst k'. destruct (x =? k); [discriminate|].
  destruct (scope_replace b x vv); [discriminate|]. intros _. now rewrite IH.
Qed.

Lemma rel_env_assign s E EB x v vv EB' : RE s E EB -> Rws s v vv -> env_assign EB x vv = Ok EB' ->
  exists E', env_assign E x v = Ok E' /\ RE s E' EB'.
Proof.
  intros H Hv. revert EB'. induction H as [|a b E EB Hab Hr IH]; cbn [env_assign]; [discriminate|]. intro EB'.
  destruct (scope_replace b x vv) as [b'|] eqn:Eb.
  - intros [= <-]. destruct (rel_scope_replace _ _ _ _ _ _ _ Hab Hv Eb) as (a' & -> & Ha').
    eexists. split; [reflexivity|]. constructor; assumption.
  - rewrite (rel_scope_replace_none _ _ _ _ v _ Hab Eb).
    destruct (env_assign EB x vv) as [r| |] eqn:Er; cbn [bind]; try discriminate. intros [= <-].
    destruct (IH r eq_refl) as (ra & -> & Hra). cbn [bind]. eexists. split; [reflexivity|]. constructor; assumption.
Qed.

Lemma rel_env_pop s E EB EB' : RE s E EB -> env_pop EB = Ok EB' -> exists E', env_pop E = Ok E' /\ RE s E' EB'.
Proof. intros H. destruct H; cbn [env_pop]; [discriminate|]. intros [= <-]. eauto. Qed.

Lemma rel_env_push s E EB : RE s E EB -> RE s (env_push E) (env_push EB).
Proof. intro H. constructor; [constructor|exact H]. Qed.

(* ------------------------------------------------------------------ list helpers *)

Lemma sim_mapM_M s o (fA : WA -> MA WA) (fB : WB -> MB WB) xs : forall vxs, RS s o -> Rws s xs vxs ->
  (forall s1 o1 x vx, extS s s1 -> RS s1 o1 -> Rw s1 x vx -> sim s1 o1 (fA x) (fB vx) (fun s' r v => Rw s' r v)) ->
  sim s o (mapM_M fA xs) (mapM_M fB vxs) (fun s' r v => Rws s' r v).
Proof.
  revert s o. induction xs as [|x xs IH]; intros s o vxs HS Hx Hf; inversion Hx; subst; cbn [mapM_M].
  - apply sim_ret; [exact HS|constructor].
  - eapply sim_bind; [apply Hf; auto|]. intros s1 o1 r v He HS1 HR.
    assert (Hxs : Rws s1 xs l') by (eapply Rws_mono; eauto; eapply RS_ok; eauto).
    eapply sim_bind; [apply IH; [exact HS1|exact Hxs|]|].
    + intros. apply Hf; auto. eapply extS_trans; eauto.
    + intros s2 o2 rs vs He2 HS2 HR2. apply sim_ret; [exact HS2|]. constructor; [|exact HR2].
      eapply Rw_mono; eauto. eapply RS_ok; eauto.
Qed.

Lemma sim_map2_M s o (fA : WA -> WA -> MA WA) (fB : WB -> WB -> MB WB) xs : forall ys vxs vys,
  RS s o -> Rws s xs vxs -> Rws s ys vys ->
  (forall s1 o1 x y vx vy, extS s s1 -> RS s1 o1 -> Rw s1 x vx -> Rw s1 y vy ->
      sim s1 o1 (fA x y) (fB vx vy) (fun s' r v => Rw s' r v)) ->
  sim s o (map2_M fA xs ys) (map2_M fB vxs vys) (fun s' r v => Rws s' r v).
Proof.
  revert s o. induction xs as [|x xs IH]; intros s o ys vxs vys HS Hx Hy Hf; inversion Hx; subst;
    inversion Hy; subst; cbn [map2_M]; try apply sim_crash.
  - apply sim_ret; [exact HS|constructor].
  - eapply sim_bind; [apply Hf; auto|]. intros s1 o1 r v He HS1 HR.
    pose proof (RS_ok _ _ _ HS) as Hi.
    eapply sim_bind; [apply IH; [exact HS1|eapply Rws_mono; eauto|eapply Rws_mono; eauto|]|].
    + intros. apply Hf; auto. eapply extS_trans; eauto.
    + intros s2 o2 rs vs He2 HS2 HR2. apply sim_ret; [exact HS2|]. constructor; [|exact HR2].
      eapply Rw_mono; eauto. eapply RS_ok; eauto.
Qed.

Lemma sim_mux_bits s o c vc xs ys vxs vys : RS s o -> Rw s c vc -> Rws s xs vxs -> Rws s ys vys ->
  sim s o (mux_bits OA c xs ys) (mux_bits OB vc vxs vys) (fun s' r v => Rws s' r v).
Proof.
  intros HS Hc Hx Hy. unfold mux_bits. rewrite (Rws_length _ _ _ _ Hx), (Rws_length _ _ _ _ Hy).
  destruct (negb _); [apply sim_crash|].
  apply sim_map2_M; auto. intros s1 o1 x y vx vy He HS1 Hx1 Hy1. unf. lift_to He. apply sim_mux; auto.
Qed.

Lemma sim_mux_scope s o c vc a : forall b a' b', RS s o -> Rw s c vc -> Rscope s a a' -> Rscope s b b' ->
  sim s o (mux_scope OA c a b) (mux_scope OB vc a' b') (fun s' r v => Rscope s' r v).
Proof.
  revert s o. induction a as [|[k va] a IH]; intros s o b a' b' HS Hc Ha Hb; inversion Ha; subst; cbn [mux_scope].
  - apply sim_ret; [exact HS|constructor].
  - destruct y as [k' va']. destruct H1 as [Hk Hva]. cbn [fst snd] in Hk, Hva. subst k'.
    destruct (assocN k b') as [vb'|] eqn:Eb; [|apply sim_crash].
    destruct (rel_assoc _ _ _ _ _ Hb Eb) as (vb & -> & Hvb).
    sbind sim_mux_bits. eapply sim_bind; [eapply IH; eauto|snext].
    apply sim_ret; [assumption|]. constructor; [split; auto|assumption].
Qed.

Lemma sim_mux_scopes s o c vc sa : forall sb sa' sb', RS s o -> Rw s c vc ->
  Forall2 (Rscope s) sa sa' -> Forall2 (Rscope s) sb sb' ->
  sim s o (mux_scopes OA c sa sb) (mux_scopes OB vc sa' sb') (fun s' r v => RE s' r v).
Proof.
  revert s o. induction sa as [|a sa IH]; intros s o sb sa' sb' HS Hc Ha Hb; inversion Ha; subst;
    inversion Hb; subst; cbn [mux_scopes]; try apply sim_crash.
  - apply sim_ret; [exact HS|constructor].
  - sbind sim_mux_scope. eapply sim_bind; [eapply IH; eauto|snext].
    apply sim_ret; [assumption|]. constructor; assumption.
Qed.

Lemma sim_mux_envs s o c vc a b a' b' : RS s o -> Rw s c vc -> RE s a a' -> RE s b b' ->
  sim s o (mux_envs OA c a b) (mux_envs OB vc a' b') (fun s' r v => RE s' r v).
Proof.
  intros HS Hc Ha Hb. unfold mux_envs.
  rewrite (F2_length _ _ _ Ha), (F2_length _ _ _ Hb). destruct (negb _); [apply sim_crash|].
  eapply sim_bind; [eapply sim_mux_scopes; eauto; apply F2_rev; assumption|snext].
  apply sim_ret; [assumption|]. apply F2_rev. assumption.
Qed.

(* ------------------------------------------------------------------ arrays *)

Lemma sim_index_layer fuel : forall s o c vc arr varr eb, RS s o -> Rw s c vc -> Rws s arr varr ->
  sim s o (index_layer OA fuel c arr eb) (index_layer OB fuel vc varr eb) (fun s' r v => Rws s' r v).
Proof.
  induction fuel as [|f IH]; intros s o c vc arr varr eb HS Hc Ha; cbn [index_layer]; [apply sim_nofuel|].
  destruct Ha as [|a va arr varr Ha0 Har]; [apply sim_ret; [exact HS|constructor]|].
  assert (Hfull : Rws s (a :: arr) (va :: varr)) by (constructor; assumption).
  pose proof (F2_skipn _ eb _ _ Hfull) as Hrest.
  destruct Hrest as [|r0 vr0 rest vrest Hr0 Hrr].
  - eapply sim_mapM_M; eauto; [apply F2_firstn; exact Hfull|].
    intros s1 o1 x vx He HS1 Hx. unf. lift_to He. eapply sim_mux; eauto. eapply Rw_wT; eauto.
  - assert (Hrest : Rws s (r0 :: rest) (vr0 :: vrest)) by (constructor; assumption).
    eapply sim_bind; [eapply sim_map2_M; eauto; [apply F2_firstn; exact Hrest|apply F2_firstn; exact Hfull|]|snext].
    + intros s1 o1 x y vx vy He HS1 Hx Hy. unf. lift_to He. eapply sim_mux; eauto.
    + eapply sim_bind; [eapply IH; eauto; apply F2_skipn; assumption|snext].
      apply sim_ret; [assumption|]. apply F2_app; assumption.
Qed.

Lemma sim_index_layers idx : forall s o vidx arr varr eb, RS s o -> Rws s idx vidx -> Rws s arr varr ->
  sim s o (index_layers OA idx arr eb) (index_layers OB vidx varr eb) (fun s' r v => Rws s' r v).
Proof.
  induction idx as [|c idx IH]; intros s o vidx arr varr eb HS Hi Ha; inversion Hi; subst; cbn [index_layers].
  - apply sim_ret; assumption.
  - eapply sim_bind; [|snext; eapply IH; eauto].
    destruct (eb =? 0)%nat.
    + apply sim_ret; [exact HS|constructor].
    + rewrite (Rws_length _ _ _ _ Ha). eapply sim_index_layer; eauto.
Qed.

Lemma sim_bounds_check s o idx vidx n m : RS s o -> Rws s idx vidx ->
  sim s o (bounds_check OA idx n m) (bounds_check OB vidx n m) (fun _ _ _ => True).
Proof.
  intros HS Hi. unfold bounds_check.
  eapply sim_bind; [eapply sim_comparator; eauto; eapply Rws_unsigned; eauto|].
  snext as p q HR. destruct p as [lt gt], q as [vlt vgt]. cbn [fst snd] in HR. destruct HR as [Hlt Hgt].
  unf. sbind sim_not. eapply sim_panic_if; eauto.
Qed.

Lemma sim_m_extend s o v vv t bits : RS s o -> Rws s v vv ->
  sim s o (m_extend OA v t bits) (m_extend OB vv t bits) (fun s' r w => Rws s' r w).
Proof. intros HS H. unfold m_extend. apply sim_lift; [exact HS|]. intros y E. eapply rel_extend; eauto. Qed.

Lemma sim_array_read s o arr varr idx vidx eb n m : RS s o -> Rws s arr varr -> Rws s idx vidx ->
  sim s o (array_read OA arr idx eb n m) (array_read OB varr vidx eb n m)
    (fun s' r v => Rws s' (fst r) (fst v) /\ Rws s' (snd r) (snd v)).
Proof.
  intros HS Ha Hi. unfold array_read.
  sbind sim_m_extend. eapply sim_bind; [eapply sim_index_layers; eauto; apply F2_rev; assumption|].
  snext as arr' varr' Harr'.
  sbind sim_bounds_check. apply sim_ret; [assumption|]. cbn [fst snd]. split; [|assumption].
  destruct Harr'; [|constructor; assumption]. apply Rws_repeat. eapply Rw_wF; eauto.
Qed.

Lemma sim_write_chain index : forall s o x0 v0 x1 v1 i vindex neg vneg, RS s o -> Rw s x0 v0 -> Rw s x1 v1 ->
  Rws s index vindex -> Rws s neg vneg ->
  sim s o (write_chain OA x0 x1 i index neg) (write_chain OB v0 v1 i vindex vneg) (fun s' r v => Rw s' r v).
Proof.
  induction index as [|ix index IH]; intros s o x0 v0 x1 v1 i vindex neg vneg HS H0 H1 Hi Hn;
    inversion Hi; subst; cbn [write_chain]; [apply sim_ret; assumption|].
  destruct Hn as [|nx vnx neg vneg Hnx Hnr]; [apply sim_ret; assumption|].
  cbn [length]. match goal with H : Forall2 _ index _ |- _ => rewrite (F2_length _ _ _ H) end. unf.
  eapply sim_bind; [eapply sim_mux; eauto; destruct (N.testbit _ _); assumption|snext].
  eapply IH; eauto.
Qed.

Lemma sim_write_elem elem : forall s o velem value vvalue i index vindex neg vneg, RS s o ->
  Rws s elem velem -> Rws s value vvalue -> Rws s index vindex -> Rws s neg vneg ->
  sim s o (write_elem OA elem value i index neg) (write_elem OB velem vvalue i vindex vneg) (fun s' r v => Rws s' r v).
Proof.
  induction elem as [|x0 elem IH]; intros s o velem value vvalue i index vindex neg vneg HS He Hv Hi Hn;
    inversion He; subst; cbn [write_elem]; [apply sim_ret; [assumption|constructor]|].
  destruct Hv as [|v vv value vvalue Hv0 Hvr]; [apply sim_crash|].
  sbind sim_write_chain. eapply sim_bind; [eapply IH; eauto|snext].
  apply sim_ret; [assumption|]. constructor; assumption.
Qed.

Lemma sim_write_elems fuel : forall s o arr varr eb value vvalue i index vindex neg vneg, RS s o ->
  Rws s arr varr -> Rws s value vvalue -> Rws s index vindex -> Rws s neg vneg ->
  sim s o (write_elems OA fuel arr eb value i index neg) (write_elems OB fuel varr eb vvalue i vindex vneg)
    (fun s' r v => Rws s' r v).
Proof.
  induction fuel as [|f IH]; intros s o arr varr eb value vvalue i index vindex neg vneg HS Ha Hv Hi Hn;
    cbn [write_elems]; [apply sim_nofuel|].
  rewrite (Rws_length _ _ _ _ Ha). destruct (length varr <? eb)%nat; [apply sim_ret; assumption|].
  destruct Ha as [|a va arr varr Ha0 Har]; [apply sim_ret; [assumption|constructor]|].
  assert (Hfull : Rws s (a :: arr) (va :: varr)) by (constructor; assumption).
  eapply sim_bind; [eapply sim_write_elem; eauto; apply F2_firstn; exact Hfull|snext].
  eapply sim_bind; [eapply IH; eauto; apply F2_skipn; assumption|snext].
  apply sim_ret; [assumption|]. apply F2_app; assumption.
Qed.

Lemma sim_array_write s o arr varr eb size idx vidx value vvalue m : RS s o -> Rws s arr varr -> Rws s idx vidx ->
  Rws s value vvalue ->
  sim s o (array_write OA arr eb size idx value m) (array_write OB varr eb size vidx vvalue m) (fun s' r v => Rws s' r v).
Proof.
  intros HS Ha Hi Hv. unfold array_write.
  rewrite (Rws_length _ _ _ _ Ha).
  sbind sim_m_extend.
  eapply sim_bind; [eapply sim_mapM_M; eauto; intros; unf; eapply sim_not; eauto|snext].
  eapply sim_bind; [eapply sim_write_elems; eauto; apply F2_firstn; assumption|snext].
  sbind sim_bounds_check. apply sim_ret; [assumption|]. apply F2_app; [assumption|]. apply F2_skipn. assumption.
Qed.

(* ------------------------------------------------------------------ operators *)

Lemma Rws_shift_once s o left fill vfill v vv shift : RS s o -> Rw s fill vfill -> Rws s v vv ->
  Rws s (shift_once OA left fill v shift) (shift_once OB left vfill vv shift).
Proof.
  intros HS Hf Hv. unfold shift_once. rewrite (Rws_length _ _ _ _ Hv). apply F2_map_same. intro i.
  destruct left.
  - destruct (_ <=? _)%nat; [eapply Rw_wF; eauto|]. apply F2_nth; [exact Hv|eapply Rw_wF; eauto].
  - destruct (_ <? _)%nat; [exact Hf|]. apply F2_nth; [exact Hv|eapply Rw_wF; eauto].
Qed.

Lemma sim_shift_layers y : forall s o left fill vfill v vv vy shift, RS s o -> Rw s fill vfill -> Rws s v vv ->
  Rws s y vy ->
  sim s o (shift_layers OA left fill v y shift) (shift_layers OB left vfill vv vy shift) (fun s' r w => Rws s' r w).
Proof.
  induction y as [|c y IH]; intros s o left fill vfill v vv vy shift HS Hf Hv Hy; inversion Hy; subst;
    cbn [shift_layers]; [apply sim_ret; assumption|].
  eapply sim_bind; [eapply sim_map2_M; eauto; [eapply Rws_shift_once; eauto|]|snext; eapply IH; eauto].
  intros s1 o1 a b va vb He HS1 Hx1 Hy1. unf. lift_to He. eapply sim_mux; eauto.
Qed.

Lemma sim_or_all_M ws : forall s o acc vacc vws, RS s o -> Rw s acc vacc -> Rws s ws vws ->
  sim s o (or_all_M OA acc ws) (or_all_M OB vacc vws) (fun s' r v => Rw s' r v).
Proof.
  induction ws as [|w ws IH]; intros s o acc vacc vws HS Ha Hw; inversion Hw; subst; cbn [or_all_M];
    [apply sim_ret; assumption|].
  unf. sbind sim_or. eapply IH; eauto.
Qed.

Definition Rpair (s : SA) (p : WA * WA) (q : WB * WB) : Prop := Rw s (fst p) (fst q) /\ Rw s (snd p) (snd q).

Lemma Rpair_mono s s' p q : extS s s' -> okS s -> Rpair s p q -> Rpair s' p q.
Proof. intros E Hi [H1 H2]. split; eapply Rw_mono; eauto. Qed.

Lemma Rpairs_mono s s' l l' : extS s s' -> okS s -> Forall2 (Rpair s) l l' -> Forall2 (Rpair s') l l'.
Proof. intros E Hi. apply F2_impl'. intros. eapply Rpair_mono; eauto. Qed.

Lemma Rpairs_combine s x vx y vy : Rws s x vx -> Rws s y vy -> Forall2 (Rpair s) (combine x y) (combine vx vy).
Proof. intros Hx Hy. apply (F2_combine (Rw s) (Rw s)); assumption. Qed.

Lemma sim_eq_acc xys : forall s o acc vacc vxys, RS s o -> Rw s acc vacc -> Forall2 (Rpair s) xys vxys ->
  sim s o (eq_acc OA acc xys) (eq_acc OB vacc vxys) (fun s' r v => Rw s' r v).
Proof.
  induction xys as [|[x y] xys IH]; intros s o acc vacc vxys HS Ha Hp; inversion Hp; subst; cbn [eq_acc];
    [apply sim_ret; assumption|].
  destruct y0 as [vx vy]. destruct H1 as [Hx Hy]. cbn [fst snd] in Hx, Hy. unf.
  pose proof (RS_ok _ _ _ HS) as Hi0.
  eapply sim_bind; [eapply sim_eq; eauto|]. intros s1 o1 e ve He HS1 HR. cbn beta in HR.
  pose proof (Rpairs_mono _ _ _ _ He Hi0 H3) as H3'. lift_to He. clear HS.
  pose proof (RS_ok _ _ _ HS1) as Hi1.
  eapply sim_bind; [eapply sim_and; eauto|]. intros s2 o2 a va He2 HS2 HR2. cbn beta in HR2.
  pose proof (Rpairs_mono _ _ _ _ He2 Hi1 H3') as H3''.
  eapply IH; eauto.
Qed.

Lemma sim_mul_row yzs : forall s o xi vxi carry vcarry acc vacc vyzs, RS s o -> Rw s xi vxi -> Rw s carry vcarry ->
  Rws s acc vacc -> Forall2 (Rpair s) yzs vyzs ->
  sim s o (mul_row OA xi yzs carry acc) (mul_row OB vxi vyzs vcarry vacc)
    (fun s' r v => Rws s' (fst r) (fst v) /\ Rw s' (snd r) (snd v)).
Proof.
  induction yzs as [|[yj z] yzs IH]; intros s o xi vxi carry vcarry acc vacc vyzs HS Hx Hc Ha Hp; inversion Hp; subst;
    cbn [mul_row]; [apply sim_ret; [assumption|split; assumption]|].
  destruct y as [vyj vz]. destruct H1 as [Hy Hz]. cbn [fst snd] in Hy, Hz.
  pose proof (RS_ok _ _ _ HS) as Hi0.
  eapply sim_bind; [eapply sim_multiplier; eauto|]. intros s1 o1 [sm c] [vsm vc] He HS1 [Hs Hcc]. cbn [fst snd] in Hs, Hcc.
  pose proof (Rpairs_mono _ _ _ _ He Hi0 H3) as H3'. lift_to He.
  eapply IH; eauto. constructor; assumption.
Qed.

Definition Rprev (s : SA) (p : option (list WA * WA)) (q : option (list WB * WB)) : Prop :=
  match p, q with
  | None, None => True
  | Some (sa, ca), Some (sb, cb_) => Rws s sa sb /\ Rw s ca cb_
  | _, _ => False
  end.

Lemma sim_mul_rows xs : forall s o vxs y vy prev vprev racc vracc, RS s o -> Rws s xs vxs -> Rws s y vy ->
  Rprev s prev vprev -> Rws s racc vracc ->
  sim s o (mul_rows OA xs y prev racc) (mul_rows OB vxs vy vprev vracc)
    (fun s' r v => Rws s' (fst r) (fst v) /\ Rprev s' (snd r) (snd v)).
Proof.
  induction xs as [|xi xs IH]; intros s o vxs y vy prev vprev racc vracc HS Hx Hy Hp Hr; inversion Hx; subst;
    cbn [mul_rows]; [apply sim_ret; [assumption|split; assumption]|].
  assert (Hzs : Rws s (match prev with None => repeat (wF OA) (length y) | Some (sums, c0) => c0 :: removelast sums end)
                      (match vprev with None => repeat (wF OB) (length vy) | Some (sums, c0) => c0 :: removelast sums end)).
  { destruct prev as [[sa ca]|], vprev as [[sb cb_]|]; cbn in Hp; try contradiction.
    - destruct Hp as [Hs Hc]. constructor; [assumption|]. apply F2_removelast. assumption.
    - rewrite (Rws_length _ _ _ _ Hy). apply Rws_repeat. eapply Rw_wF; eauto. }
  eapply sim_bind; [eapply sim_mul_row; eauto; [eapply Rw_wF; eauto|constructor|]|].
  { apply F2_rev. apply Rpairs_combine; assumption. }
  intros s1 o1 [sums c0] [vsums vc0] He HS1 [Hs Hc]. cbn [fst snd] in Hs, Hc. lift_to He. clear Hp Hzs.
  eapply IH; eauto.
  - cbn. split; assumption.
  - constructor; [|assumption]. apply F2_last; [assumption|eapply Rw_wF; eauto].
Qed.

Lemma sim_and_not_all ws : forall s o acc vacc vws, RS s o -> Rw s acc vacc -> Rws s ws vws ->
  sim s o (and_not_all OA acc ws) (and_not_all OB vacc vws) (fun s' r v => Rw s' r v).
Proof.
  induction ws as [|w ws IH]; intros s o acc vacc vws HS Ha Hw; inversion Hw; subst; cbn [and_not_all];
    [apply sim_ret; assumption|].
  unf. sbind sim_not. sbind sim_and. eapply IH; eauto.
Qed.

Lemma sim_hd_res s o v vv : RS s o -> Rws s v vv ->
  sim s o (lift_res (hd_res v)) (lift_res (hd_res vv)) (fun s' r w => Rw s' r w).
Proof. intros HS H. apply sim_lift; [exact HS|]. intros y E. eapply rel_hd_res; eauto. Qed.

Lemma sim_of_option_prev s o p vp : RS s o -> Rprev s p vp ->
  sim s o (lift_res (of_option p)) (lift_res (of_option vp)) (fun s' r v => Rws s' (fst r) (fst v) /\ Rw s' (snd r) (snd v)).
Proof.
  intros HS H. apply sim_lift; [exact HS|]. intros y E.
  destruct p as [[sa ca]|], vp as [[sb cb_]|]; cbn in *; try contradiction; try discriminate.
  injection E as <-. eexists. split; [reflexivity|]. exact H.
Qed.

Lemma sim_lower_mul s o sg x vx y vy m : RS s o -> Rws s x vx -> Rws s y vy ->
  sim s o (lower_mul OA sg x y m) (lower_mul OB sg vx vy m) (fun s' r v => Rws s' r v).
Proof.
  intros HS Hx Hy. unfold lower_mul.
  eapply sim_bind with (R := fun s' r v => Rws s' (fst (fst r)) (fst (fst v)) /\ Rws s' (snd (fst r)) (snd (fst v))
                                            /\ Rw s' (snd r) (snd v)).
  { destruct sg.
    - sbindn sim_hd_res as x0 vx0 Hx0. sbindn sim_hd_res as y0 vy0 Hy0.
      sbindn sim_negation as xn vxn Hxn. sbindn sim_negation as yn vyn Hyn.
      eapply sim_bind; [eapply sim_map2_M; eauto|snext as x' vx' Hx'].
      { close_f. unf. eapply sim_mux; eauto. }
      eapply sim_bind; [eapply sim_map2_M; eauto|snext as y' vy' Hy'].
      { close_f. unf. eapply sim_mux; eauto. }
      unf. sbindn sim_xor as rn vrn Hrn. apply sim_ret; [assumption|]. cbn [fst snd]. auto.
    - apply sim_ret; [assumption|]. cbn [fst snd]. split; [assumption|]. split; [assumption|]. eapply Rw_wF; eauto. }
  snext as p q HR. destruct p as [[x' y'] rn], q as [[vx' vy'] vrn]. cbn [fst snd] in HR. destruct HR as (Hx' & Hy' & Hrn).
  eapply sim_bind; [eapply sim_mul_rows; eauto; [apply F2_rev; assumption|exact I|constructor]|].
  snext as p q HR. destruct p as [result top], q as [vresult vtop]. cbn [fst snd] in HR. destruct HR as [Hres Htop].
  sbind2 sim_of_option_prev as sums0 c00 vsums0 vc00 Hs0 Hc0.
  eapply sim_bind; [eapply sim_or_all_M; eauto; apply F2_removelast; assumption|snext as ov vov Hov].
  eapply sim_bind with (R := fun s' r v => Rw s' (fst r) (fst v) /\ Rws s' (snd r) (snd v)).
  { destruct sg.
    - eapply sim_bind; [eapply sim_and_not_all; eauto; [eapply Rw_wT; eauto|apply F2_tl; assumption]|snext as az vaz Haz].
      sbindn sim_hd_res as r0 vr0 Hr0. unf. sbindn sim_not as naz vnaz Hnaz. sbindn sim_not as nn vnn Hnn.
      sbindn sim_or as nm vnm Hnm. sbindn sim_and as tl_ vtl Htl. sbindn sim_or as ov2 vov2 Hov2.
      sbindn sim_negation as rneg vrneg Hrneg.
      eapply sim_bind; [eapply sim_map2_M; eauto|snext as res' vres' Hres'].
      { close_f. unf. eapply sim_mux; eauto. }
      apply sim_ret; [assumption|]. cbn [fst snd]. auto.
    - apply sim_ret; [assumption|]. cbn [fst snd]. auto. }
  snext as p q HR. destruct p as [ov' res'], q as [vov' vres']. cbn [fst snd] in HR. destruct HR as [Hov' Hres'].
  unf. sbindn sim_panic_if as u vu Hu. apply sim_ret; assumption.
Qed.

Lemma sim_one_wire s o w vw : RS s o -> Rws s w vw ->
  sim s o (one_wire w) (one_wire vw) (fun s' r v => Rw s' r v).
Proof.
  intros HS H. unfold one_wire. destruct H as [|a va w vw Ha Hr]; [apply sim_crash|].
  destruct Hr; [apply sim_ret; assumption|apply sim_crash].
Qed.

Lemma sim_lower_binop s o op t tx ty_ x vx y vy m : RS s o -> Rws s x vx -> Rws s y vy ->
  sim s o (lower_binop OA op t tx ty_ x y m) (lower_binop OB op t tx ty_ vx vy m) (fun s' r v => Rws s' r v).
Proof.
  intros HS Hx Hy. unfold lower_binop. rewrite (Rws_length _ _ _ _ Hx), (Rws_length _ _ _ _ Hy).
  sbindn sim_m_extend as x' vx' Hx'. sbindn sim_m_extend as y' vy' Hy'. clear Hx Hy.
  destruct op.
  - (* add *)
    eapply sim_bind; [eapply sim_addition; eauto|].
    snext as p q HR. destruct p as [[sum carry] cprev], q as [[vsum vcarry] vcprev].
    cbn [fst snd] in HR. destruct HR as (Hsum & Hc & Hcp).
    eapply sim_bind with (R := fun s' r v => Rw s' r v).
    { destruct (is_signed tx || is_signed ty_); [unf; eapply sim_xor; eauto|apply sim_ret; assumption]. }
    snext as ov vov Hov. unf. sbindn sim_panic_if as u vu Hu. apply sim_ret; assumption.
  - (* sub *)
    sbind2 sim_subtraction as sum ov vsum vov Hsum Hov.
    unf. sbindn sim_panic_if as u vu Hu. apply sim_ret; assumption.
  - eapply sim_lower_mul; eauto.
  - (* div *)
    eapply sim_bind; [eapply sim_eq_acc; eauto; [eapply Rw_wT; eauto|]|snext as az vaz Haz].
    { match goal with HS' : ParamBase.RS _ ?s1 _ |- _ =>
        apply (F2_map (Rpair s1) _ _ (Rw s1)); [|eassumption];
        intros a b Hab; split; [assumption|]; cbn [snd]; eapply Rw_wF; eauto end. }
    unf. sbindn sim_panic_if as u vu Hu. destruct (is_signed t).
    + sbindn sim_hd_res as x0 vx0 Hx0. sbindn sim_hd_res as y0 vy0 Hy0.
      sbind2 sim_sdiv as q r vq vr Hq Hr.
      sbindn sim_and as bn vbn Hbn. sbindn sim_hd_res as q0 vq0 Hq0. sbindn sim_and as ov vov Hov.
      sbindn sim_panic_if as u2 vu2 Hu2. apply sim_ret; assumption.
    + sbind2 sim_udiv as q r vq vr Hq Hr. apply sim_ret; assumption.
  - (* mod *)
    eapply sim_bind; [eapply sim_eq_acc; eauto; [eapply Rw_wT; eauto|]|snext as az vaz Haz].
    { match goal with HS' : ParamBase.RS _ ?s1 _ |- _ =>
        apply (F2_map (Rpair s1) _ _ (Rw s1)); [|eassumption];
        intros a b Hab; split; [assumption|]; cbn [snd]; eapply Rw_wF; eauto end. }
    unf. sbindn sim_panic_if as u vu Hu. destruct (is_signed t).
    + sbind2 sim_sdiv as q r vq vr Hq Hr. apply sim_ret; assumption.
    + sbind2 sim_udiv as q r vq vr Hq Hr. apply sim_ret; assumption.
  - eapply sim_map2_M; eauto. close_f. unf. eapply sim_and; eauto.
  - eapply sim_map2_M; eauto. close_f. unf. eapply sim_xor; eauto.
  - eapply sim_map2_M; eauto. close_f. unf. eapply sim_or; eauto.
  - sbind2 sim_comparator as lt gt vlt vgt Hlt Hgt.
    apply sim_ret; [assumption|]. constructor; [assumption|constructor].
  - sbind2 sim_comparator as lt gt vlt vgt Hlt Hgt.
    apply sim_ret; [assumption|]. constructor; [assumption|constructor].
  - eapply sim_bind with (R := fun s' r v => Rw s' r v).
    { rewrite (Rws_length _ _ _ _ Hx'), (Rws_length _ _ _ _ Hy'). destruct (_ =? _)%nat; [|apply sim_crash].
      eapply sim_eq_acc; eauto; [eapply Rw_wT; eauto|apply Rpairs_combine; assumption]. }
    snext as acc vacc Hacc. apply sim_ret; [assumption|]. constructor; [assumption|constructor].
  - eapply sim_bind with (R := fun s' r v => Rw s' r v).
    { rewrite (Rws_length _ _ _ _ Hx'), (Rws_length _ _ _ _ Hy'). destruct (_ =? _)%nat; [|apply sim_crash].
      eapply sim_eq_acc; eauto; [eapply Rw_wT; eauto|apply Rpairs_combine; assumption]. }
    snext as acc vacc Hacc. unf. sbindn sim_not as n vn Hn. apply sim_ret; [assumption|]. constructor; [assumption|constructor].
  - apply sim_crash.
  - apply sim_crash.
  - apply sim_crash.
  - apply sim_crash.
Qed.

Lemma sim_lower_shift s o left xs x vx y vy m : RS s o -> Rws s x vx -> Rws s y vy ->
  sim s o (lower_shift OA left xs x y m) (lower_shift OB left xs vx vy m) (fun s' r v => Rws s' r v).
Proof.
  intros HS Hx Hy. unfold lower_shift. rewrite (Rws_length _ _ _ _ Hx), (Rws_length _ _ _ _ Hy).
  destruct (negb _); [apply sim_crash|].
  eapply sim_bind with (R := fun s' r v => Rw s' r v).
  { destruct (xs && negb left); [eapply sim_hd_res; eauto|apply sim_ret; [assumption|eapply Rw_wF; eauto]]. }
  snext as fill vfill Hfill.
  eapply sim_bind; [eapply sim_shift_layers; eauto; apply F2_rev; assumption|snext as v vv Hv].
  apply sim_bind with (R := fun _ a b => a = b).
  { apply sim_lift; [assumption|]. intros n E. eauto. }
  snext as mfb mfb' Hm. subst mfb'.
  eapply sim_bind; [eapply sim_or_all_M; eauto; [eapply Rw_wF; eauto|apply F2_firstn; assumption]|snext as ov vov Hov].
  unf. sbindn sim_panic_if as u vu Hu. apply sim_ret; assumption.
Qed.

(* ------------------------------------------------------------------ join *)

Lemma rel_resize s o v vv n : RS s o -> Rws s v vv -> Rws s (resize OA v n) (resize OB vv n).
Proof.
  intros HS H. unfold resize. rewrite (Rws_length _ _ _ _ H). apply F2_app; [apply F2_firstn; assumption|].
  apply Rws_repeat. eapply Rw_wF; eauto.
Qed.

Lemma rel_insert_at s v vv i x vx y : Rws s v vv -> Rw s x vx -> insert_at vv i vx = Ok y ->
  exists r, insert_at v i x = Ok r /\ Rws s r y.
Proof.
  intros H Hx E. unfold insert_at in *. rewrite (Rws_length _ _ _ _ H). destruct (i <=? length vv)%nat; [|discriminate].
  injection E as <-. eexists. split; [reflexivity|]. apply F2_app; [apply F2_firstn; assumption|].
  constructor; [assumption|apply F2_skipn; assumption].
Qed.

Lemma rel_remove_at s v vv i y : Rws s v vv -> remove_at vv i = Ok y ->
  exists r, remove_at v i = Ok r /\ Rw s (fst r) (fst y) /\ Rws s (snd r) (snd y).
Proof.
  intros H E. unfold remove_at in *. pose proof (F2_nth_error _ _ _ i H) as Hn.
  destruct (nth_error vv i) as [b|]; [|discriminate]. destruct (nth_error v i) as [a|]; [|contradiction].
  injection E as <-. eexists. split; [reflexivity|]. cbn [fst snd]. split; [assumption|].
  apply F2_app; [apply F2_firstn; assumption|exact (F2_skipn _ (S i) _ _ H)].
Qed.

Lemma rel_chunks s fuel n : forall v vv eb y, Rws s v vv -> chunks fuel vv eb n = Ok y ->
  exists r, chunks fuel v eb n = Ok r /\ Rwss s r y.
Proof.
  induction n as [|n IH]; intros v vv eb y H E; cbn [chunks] in *.
  - injection E as <-. eexists. split; [reflexivity|constructor].
  - destruct (slice vv 0 eb) as [c| |] eqn:Es; cbn [bind] in E; try discriminate.
    destruct (rel_slice _ _ _ _ _ _ H Es) as (ca & -> & Hc). cbn [bind].
    destruct (chunks fuel (skipn eb vv) eb n) as [r| |] eqn:Er; cbn [bind] in E; try discriminate.
    injection E as <-. destruct (IH _ _ _ _ (F2_skipn _ eb _ _ H) Er) as (ra & -> & Hra). cbn [bind].
    eexists. split; [reflexivity|]. constructor; assumption.
Qed.

Lemma rel_mapM_res {A B C D} (RA : A -> B -> Prop) (RC : C -> D -> Prop) (f : A -> res C) (g : B -> res D) l l' y :
  (forall a b d, RA a b -> g b = Ok d -> exists c, f a = Ok c /\ RC c d) ->
  Forall2 RA l l' -> mapM_res g l' = Ok y -> exists x, mapM_res f l = Ok x /\ Forall2 RC x y.
Proof.
  intros Hf H. revert y. induction H as [|a b l l' Hab _ IH]; intros y E; cbn [mapM_res] in *.
  - injection E as <-. eexists. split; [reflexivity|constructor].
  - destruct (g b) as [d| |] eqn:Eg; cbn [bind] in E; try discriminate.
    destruct (Hf _ _ _ Hab Eg) as (c & -> & Hc). cbn [bind].
    destruct (mapM_res g l') as [ds| |] eqn:Em; cbn [bind] in E; try discriminate. injection E as <-.
    destruct (IH _ eq_refl) as (cs & -> & Hcs). cbn [bind]. eexists. split; [reflexivity|]. constructor; assumption.
Qed.

Lemma rel_bitonic_input s o a va b vb eba na ebb nb jts y : RS s o -> Rws s a va -> Rws s b vb ->
  bitonic_input OB va vb eba na ebb nb jts = Ok y ->
  exists r, bitonic_input OA a b eba na ebb nb jts = Ok r /\ Rwss s (fst r) (fst y) /\ snd r = snd y.
Proof.
  intros HS Ha Hb E. unfold bitonic_input in *.
  destruct (chunks 0 va eba na) as [ca| |] eqn:Eca; cbn [bind] in E; try discriminate.
  destruct (rel_chunks _ _ _ _ _ _ _ Ha Eca) as (ca' & -> & Hca). cbn [bind].
  destruct (chunks 0 vb ebb nb) as [cb_| |] eqn:Ecb; cbn [bind] in E; try discriminate.
  destruct (rel_chunks _ _ _ _ _ _ _ Hb Ecb) as (cb' & -> & Hcb). cbn [bind].
  match type of E with bind (mapM_res ?g ?l) _ = _ => destruct (mapM_res g l) as [ea| |] eqn:Eea end; cbn [bind] in E; try discriminate.
  eapply (rel_mapM_res (Rws s) (Rws s)) in Eea; [| |exact Hca].
  2:{ intros x vx d Hx Ed. eapply rel_insert_at; [eapply rel_resize; eauto|eapply Rw_wF; eauto|exact Ed]. }
  destruct Eea as (ea' & -> & Hea). cbn [bind].
  match type of E with bind (mapM_res ?g ?l) _ = _ => destruct (mapM_res g l) as [eb_| |] eqn:Eeb end; cbn [bind] in E; try discriminate.
  eapply (rel_mapM_res (Rws s) (Rws s)) in Eeb; [| |apply F2_rev; exact Hcb].
  2:{ intros x vx d Hx Ed. eapply rel_insert_at; [eapply rel_resize; eauto|eapply Rw_wT; eauto|exact Ed]. }
  destruct Eeb as (eb' & -> & Heb). cbn [bind]. injection E as <-.
  eexists. split; [reflexivity|]. cbn [fst snd]. split; [|reflexivity].
  apply F2_app; [|apply F2_app; assumption]. apply F2_repeat. cbn [repeat].
  constructor; [eapply Rw_wF; eauto|]. apply (Rws_repeat s (wF OA) (wF OB)). eapply Rw_wF; eauto.
Qed.

Lemma sim_window_binding s o w0_ vw0 w1_ vw1 eba ebb jts isf incb : RS s o -> Rws s w0_ vw0 -> Rws s w1_ vw1 ->
  sim s o (window_binding OA w0_ w1_ eba ebb jts isf incb) (window_binding OB vw0 vw1 eba ebb jts isf incb)
    (fun s' r v => Rw s' (fst r) (fst v) /\ Rws s' (snd r) (snd v)).
Proof.
  intros HS H0 H1. unfold window_binding.
  eapply sim_bind with (R := fun s' r v => Rw s' (fst r) (fst v) /\ Rws s' (snd r) (snd v)).
  { apply sim_lift; [assumption|]. intros y E. eapply rel_remove_at; eauto. }
  snext as p q HR. destruct p as [ta a], q as [vta va]. cbn [fst snd] in HR. destruct HR as [Hta Ha].
  eapply sim_bind with (R := fun s' r v => Rw s' (fst r) (fst v) /\ Rws s' (snd r) (snd v)).
  { apply sim_lift; [assumption|]. intros y E. eapply rel_remove_at; eauto. }
  snext as p q HR. destruct p as [tb b], q as [vtb vb]. cbn [fst snd] in HR. destruct HR as [Htb Hb].
  pose proof (F2_firstn _ eba _ _ Ha) as Ha'. pose proof (F2_firstn _ ebb _ _ Hb) as Hb'.
  eapply sim_bind with (R := fun s' r v => Rws s' r v).
  { apply sim_lift; [assumption|]. intros y E. eapply rel_slice; eauto. }
  snext as ja vja Hja. eapply sim_bind with (R := fun s' r v => Rws s' r v).
  { apply sim_lift; [assumption|]. intros y1 E. eapply rel_slice; eauto. }
  snext as jb vjb Hjb. sbindn sim_eq_circuit as je vje Hje. unf. sbindn sim_xor as td vtd Htd. sbindn sim_and as je2 vje2 Hje2.
  apply sim_ret; [assumption|]. cbn [fst snd]. split; [assumption|].
  match goal with |- Rws ?s5 _ _ =>
  assert (Hbind : Rws s5 ((if isf then [wF OA] else []) ++ firstn eba a ++ (if incb then firstn ebb b else []))
                         ((if isf then [wF OB] else []) ++ firstn eba va ++ (if incb then firstn ebb vb else []))) end.
  { apply F2_app; [destruct isf; constructor; [eapply Rw_wF; eauto|constructor]|].
    apply F2_app; [assumption|]. destruct incb; [assumption|constructor]. }
  destruct isf; [|exact Hbind]. constructor; [assumption|]. apply F2_tl. exact Hbind.
Qed.

End Helpers.
