(* END-TO-END agreement of the source-level semantics (Lang/Sem.v) with the bit-level
   semantics (Compile/TSem.v: the lowering of Compile/Lower.v on Booleans) on the fragment
   of PURE SCALAR EXPRESSIONS: Boolean / integer literals, identifiers, casts between bool
   and integer types, unary minus and `!`, every binary operator
   (+ - * / % & | ^ < > == != << >> && ||) and if / else, over variables of type bool /
   integer (widths 8, 16, 32, 64).  No operator is excluded; signed `%` is included (the
   conclusion speaks of the scopes of the source environment, not of its [lenient] flag).
   Excluded by [pure_scalar]: blocks, statements, calls, aggregates, match, and a product one
   of whose operands is an integer literal (the compiler rewrites it into repeated addition).

   Fragment         [pure_scalar : expr -> bool]                  (syntactic)
   Exact typing     [exact_tys : tenv -> expr -> bool]            where Lang/Wt.v compares types
                    with [ty_eqb], which identifies i32 and u32, the annotations are EQUAL.
                    This hypothesis is necessary: see [Conflation] at the end of the file, a
                    tree accepted by [wt_expr] on which the two semantics disagree.
   Encoding         [enc_val : ty -> Sem.value -> list bool]      ([b]; n-bit two's complement)
   Values           [val_ok]                                      (integers in the range of the type)
   Environments     [env_rel] (on look-ups), [env_rel_struct] (same scopes and names) and
                    [env_rel_of_struct]; [env_shape] (widths only, for totality)
   Fuel             any fuel above [depth e]; [lower_fuel_indep], [lower_fuel_mono]
   Theorems         [tsem_total], [tsem_sticky]   totality + stickiness, whatever the values
                    [tsem_sem_expr], [tsem_sem_expr_ex]   agreement (value / panic; never stuck)
   Proof            the three checks give the judgement [ps_typed] ([ps_typed_of_checks]); the
                    theorems are inductions on it ([tsem_total_typed], [tsem_sem_typed]), using
                    the per-operator lemmas of TSemArith1/2, TSemControl and TSemFacts. *)
From Coq Require Import Lia ZArith Zquot.
From GV Require Import Base.Util Base.Bits Base.BitsProofs Lang.Ast Lang.Wt Gadgets.Gadgets
  Gadgets.GadgetSpec Gadgets.Arith Gadgets.Extend Panic.PanicRec Panic.PanicSem Compile.Lower
  Compile.TSem Compile.TSemFacts Compile.TSemArith1 Compile.TSemArith2 Compile.TSemControl.
From GV Require Lang.Sem.
Local Open Scope N_scope.

(* ------------------------------------------------------------------ the fragment *)

(* the integer widths of the language *)
Definition ok_width (b : N) : bool := (b =? 8) || (b =? 16) || (b =? 32) || (b =? 64).

Definition scalar_ty (t : ty) : bool :=
  match t with TBool => true | TInt _ b => ok_width b | _ => false end.

(* the number of bits of a scalar type *)
Definition tw (t : ty) : nat :=
  match t with TBool => 1%nat | TInt _ b => N.to_nat b | _ => 0%nat end.

Definition is_num_lit (e : expr) : bool :=
  match e with Ex (ENumU _ _) _ _ | Ex (ENumS _ _) _ _ => true | _ => false end.

(* pure scalar expressions; a product with a literal operand is excluded (the compiler
   rewrites it into repeated addition) *)
Fixpoint pure_scalar (e : expr) : bool :=
  match e with
  | Ex ei _ t =>
    scalar_ty t &&
    match ei with
    | ETrue | EFalse | ENumU _ _ | ENumS _ _ | EId _ => true
    | ENeg e1 | ENot e1 | ECast _ e1 => pure_scalar e1
    | EOp o x y =>
        pure_scalar x && pure_scalar y &&
        match o with OMul => negb (is_num_lit x) && negb (is_num_lit y) | _ => true end
    | EIf c a b => pure_scalar c && pure_scalar a && pure_scalar b
    | _ => false
    end
  end.

(* Leibniz equality of scalar types *)
Definition sty_eqb (a b : ty) : bool :=
  match a, b with
  | TBool, TBool => true
  | TInt s1 b1, TInt s2 b2 => Bool.eqb s1 s2 && (b1 =? b2)
  | _, _ => false
  end.

Lemma sty_eqb_eq a b : sty_eqb a b = true -> a = b.
Proof.
  destruct a, b; cbn [sty_eqb]; try discriminate; [reflexivity|].
  intro H. apply andb_prop in H. destruct H as [H1 H2].
  apply Bool.eqb_prop in H1. apply N.eqb_eq in H2. congruence.
Qed.

(* where [Wt.wt_expr] asks for [ty_eqb] (which accepts i32 against u32) the annotations
   are equal *)
Fixpoint exact_tys (g : tenv) (e : expr) : bool :=
  match e with
  | Ex ei _ t =>
    match ei with
    | EId x => match tlookup g x with Some (tx, _) => sty_eqb tx t | None => false end
    | ENeg e1 | ENot e1 => sty_eqb (e_ty e1) t && exact_tys g e1
    | ECast to e1 => sty_eqb to t && exact_tys g e1
    | EOp o x y =>
        exact_tys g x && exact_tys g y &&
        match o with
        | OAdd | OSub | OMul | ODiv | OMod | OBitAnd | OBitXor | OBitOr =>
            sty_eqb (e_ty x) t && sty_eqb (e_ty y) t
        | OGt | OLt | OEq | ONe => sty_eqb (e_ty x) (e_ty y)
        | OShl | OShr => sty_eqb (e_ty x) t && sty_eqb (e_ty y) (TInt false 8)
        | OLAnd | OLOr => true
        end
    | EIf c a b =>
        sty_eqb (e_ty a) t && sty_eqb (e_ty b) t && exact_tys g c && exact_tys g a && exact_tys g b
    | _ => true
    end
  end.

(* fuel: [lower_expr tops fuel] needs fuel > depth *)
Fixpoint depth (e : expr) : nat :=
  match e with
  | Ex ei _ _ =>
    match ei with
    | ENeg e1 | ENot e1 | ECast _ e1 => S (depth e1)
    | EOp _ x y => S (Nat.max (depth x) (depth y))
    | EIf c a b => S (Nat.max (depth c) (Nat.max (depth a) (depth b)))
    | _ => O
    end
  end.

(* ------------------------------------------------------------------ the typing judgement
   that the three checks establish (used for the inductions) *)

Definition op_arith (o : binop) : bool :=
  match o with OAdd | OSub | OMul | ODiv | OMod | OBitAnd | OBitXor | OBitOr => true | _ => false end.
Definition op_bit (o : binop) : bool :=
  match o with OBitAnd | OBitXor | OBitOr => true | _ => false end.
Definition op_cmp (o : binop) : bool := match o with OGt | OLt => true | _ => false end.
Definition op_eq (o : binop) : bool := match o with OEq | ONe => true | _ => false end.
Definition op_shift (o : binop) : bool := match o with OShl | OShr => true | _ => false end.
Definition op_logic (o : binop) : bool := match o with OLAnd | OLOr => true | _ => false end.

Inductive ps_typed (g : tenv) : expr -> Prop :=
| PT_true m : ps_typed g (Ex ETrue m TBool)
| PT_false m : ps_typed g (Ex EFalse m TBool)
| PT_numU n lb m sg b : ok_width b = true -> lit_fits (TInt sg b) (Z.of_N n) = true ->
    ps_typed g (Ex (ENumU n lb) m (TInt sg b))
| PT_numS z lb m sg b : ok_width b = true -> lit_fits (TInt sg b) z = true ->
    ps_typed g (Ex (ENumS z lb) m (TInt sg b))
| PT_id x m t mu : tlookup g x = Some (t, mu) -> scalar_ty t = true -> ps_typed g (Ex (EId x) m t)
| PT_neg e1 m b : ok_width b = true -> ps_typed g e1 -> e_ty e1 = TInt true b ->
    ps_typed g (Ex (ENeg e1) m (TInt true b))
| PT_not e1 m t : scalar_ty t = true -> ps_typed g e1 -> e_ty e1 = t -> ps_typed g (Ex (ENot e1) m t)
| PT_cast e1 m t : scalar_ty t = true -> ps_typed g e1 -> ps_typed g (Ex (ECast t e1) m t)
| PT_arith o x y m sg b : op_arith o = true -> ok_width b = true ->
    ps_typed g x -> ps_typed g y -> e_ty x = TInt sg b -> e_ty y = TInt sg b ->
    (o = OMul -> is_num_lit x = false /\ is_num_lit y = false) ->
    ps_typed g (Ex (EOp o x y) m (TInt sg b))
| PT_bitbool o x y m : op_bit o = true ->
    ps_typed g x -> ps_typed g y -> e_ty x = TBool -> e_ty y = TBool ->
    ps_typed g (Ex (EOp o x y) m TBool)
| PT_cmp o x y m sg b : op_cmp o = true -> ok_width b = true ->
    ps_typed g x -> ps_typed g y -> e_ty x = TInt sg b -> e_ty y = TInt sg b ->
    ps_typed g (Ex (EOp o x y) m TBool)
| PT_eq o x y m t : op_eq o = true -> scalar_ty t = true ->
    ps_typed g x -> ps_typed g y -> e_ty x = t -> e_ty y = t ->
    ps_typed g (Ex (EOp o x y) m TBool)
| PT_shift o x y m sg b : op_shift o = true -> ok_width b = true ->
    ps_typed g x -> ps_typed g y -> e_ty x = TInt sg b -> e_ty y = TInt false 8 ->
    ps_typed g (Ex (EOp o x y) m (TInt sg b))
| PT_logic o x y m : op_logic o = true ->
    ps_typed g x -> ps_typed g y -> e_ty x = TBool -> e_ty y = TBool ->
    ps_typed g (Ex (EOp o x y) m TBool)
| PT_if c a b m t : scalar_ty t = true ->
    ps_typed g c -> ps_typed g a -> ps_typed g b -> e_ty c = TBool -> e_ty a = t -> e_ty b = t ->
    ps_typed g (Ex (EIf c a b) m t).

Lemma ps_typed_scalar g e : ps_typed g e -> scalar_ty (e_ty e) = true.
Proof. induction 1; cbn [e_ty scalar_ty]; try reflexivity; assumption. Qed.

Ltac bsplit :=
  repeat match goal with
  | H : (_ && _) = true |- _ => apply andb_prop in H; destruct H
  end.

Lemma is_bool_eq t : is_bool t = true -> t = TBool.
Proof. destruct t; cbn; congruence. Qed.

Theorem ps_typed_of_checks P : forall fw g e,
  pure_scalar e = true -> exact_tys g e = true -> wt_expr fw P g e = true -> ps_typed g e.
Proof.
  induction fw as [|f IH]; intros g e Hp Hx Hw; [discriminate|].
  destruct e as [ei m t]. cbn [pure_scalar] in Hp. apply andb_prop in Hp. destruct Hp as [Hst Hp].
  destruct ei; try discriminate Hp; cbn [exact_tys wt_expr] in Hx, Hw.
  - apply is_bool_eq in Hw. subst t. constructor.
  - apply is_bool_eq in Hw. subst t. constructor.
  - destruct t; try discriminate Hw. now constructor.
  - destruct t; try discriminate Hw. now constructor.
  - destruct (tlookup g name) as [[tx mu]|] eqn:El; [|discriminate].
    apply sty_eqb_eq in Hx. subst tx. econstructor; eassumption.
  - bsplit. match goal with H : sty_eqb _ _ = true |- _ => apply sty_eqb_eq in H end.
    destruct t as [|[] b| | | |]; try discriminate.
    constructor; [assumption|eapply IH; eassumption|assumption].
  - bsplit. match goal with H : sty_eqb _ _ = true |- _ => apply sty_eqb_eq in H end.
    constructor; [assumption|eapply IH; eassumption|assumption].
  - bsplit. repeat match goal with H : sty_eqb _ _ = true |- _ => apply sty_eqb_eq in H end.
    assert (ps_typed g x) by (eapply IH; eassumption).
    assert (ps_typed g y) by (eapply IH; eassumption).
    destruct o; bsplit;
      repeat match goal with H : sty_eqb _ _ = true |- _ => apply sty_eqb_eq in H end;
      repeat match goal with H : is_bool _ = true |- _ => apply is_bool_eq in H end.
    all: try (destruct t as [|sg b| | | |]; try discriminate;
              match goal with
              | |- ps_typed _ (Ex (EOp _ _ _) _ (TInt _ _)) =>
                  first [ eapply PT_arith; try eassumption; try reflexivity;
                          [ intro Hmul; try discriminate Hmul;
                            match goal with H : negb _ = true |- _ => idtac end;
                            split; apply negb_true_iff; assumption ]
                        | eapply PT_arith; try eassumption; try reflexivity; intro Hmul; discriminate Hmul ]
              | |- ps_typed _ (Ex (EOp _ _ _) _ TBool) =>
                  eapply PT_bitbool; try eassumption; reflexivity
              end).
    all: try (subst t).
    + (* OGt *) destruct (e_ty x) as [|sg b| | | |] eqn:Ex; try discriminate.
      pose proof (ps_typed_scalar g x ltac:(assumption)) as Hs. rewrite Ex in Hs. cbn [scalar_ty] in Hs.
      eapply PT_cmp; try eassumption; try reflexivity. congruence.
    + destruct (e_ty x) as [|sg b| | | |] eqn:Ex; try discriminate.
      pose proof (ps_typed_scalar g x ltac:(assumption)) as Hs. rewrite Ex in Hs. cbn [scalar_ty] in Hs.
      eapply PT_cmp; try eassumption; try reflexivity. congruence.
    + eapply (PT_eq g OEq x y m (e_ty x)); try eassumption; try reflexivity.
      * eapply ps_typed_scalar; eassumption.
      * congruence.
    + eapply (PT_eq g ONe x y m (e_ty x)); try eassumption; try reflexivity.
      * eapply ps_typed_scalar; eassumption.
      * congruence.
    + destruct (e_ty x) as [|sg b| | | |] eqn:Ex; try discriminate.
      eapply PT_shift; try eassumption; reflexivity.
    + destruct (e_ty x) as [|sg b| | | |] eqn:Ex; try discriminate.
      eapply PT_shift; try eassumption; reflexivity.
    + eapply PT_logic; try eassumption; reflexivity.
    + eapply PT_logic; try eassumption; reflexivity.
  - bsplit. repeat match goal with H : sty_eqb _ _ = true |- _ => apply sty_eqb_eq in H end.
    repeat match goal with H : is_bool _ = true |- _ => apply is_bool_eq in H end.
    eapply PT_if; try eassumption; eapply IH; eassumption.
  - bsplit. repeat match goal with H : sty_eqb _ _ = true |- _ => apply sty_eqb_eq in H end.
    subst to. constructor; [assumption|eapply IH; eassumption].
Qed.

(* ------------------------------------------------------------------ encodings, values,
   environments *)

(* a Boolean is one bit, an integer of an n-bit type the n low bits of its two's complement *)
Definition enc_val (t : ty) (v : Sem.value) : list bool :=
  match t, v with
  | TBool, Sem.VBool b => [b]
  | TInt _ n, Sem.VInt z => enc (N.to_nat n) z
  | _, _ => []
  end.

(* the value is a value of the scalar type (integers: in the range of the type) *)
Definition val_ok (t : ty) (v : Sem.value) : Prop :=
  match t, v with
  | TBool, Sem.VBool _ => True
  | TInt sg n, Sem.VInt z => Sem.in_range sg n z = true
  | _, _ => False
  end.

(* every scalar variable of the context is bound to a vector of the width of its type *)
Definition env_shape (E : @cenv bool) (g : tenv) : Prop :=
  forall x t mu, tlookup g x = Some (t, mu) -> scalar_ty t = true ->
    exists w, env_get E x = Some w /\ length w = tw t.

(* ... and, moreover, to the encoding of the value the source environment gives it, which is a
   value of that type.  (Stated on look-ups: it holds in particular when the two environments
   have the same scopes with the same names and each variable's bits encode its value.) *)
Definition env_rel (en : Sem.env) (E : @cenv bool) (g : tenv) : Prop :=
  forall x t mu, tlookup g x = Some (t, mu) -> scalar_ty t = true ->
    exists v, Sem.lookup_var en x = Some v /\ val_ok t v /\ env_get E x = Some (enc_val t v).

Definition pr (r : Sem.reason) : preason :=
  match r with
  | Sem.ROverflow => Overflow
  | Sem.RDivByZero => DivByZero
  | Sem.ROutOfBounds => OutOfBounds
  end.

(* a recorded panic is never changed *)
Definition sticky (o o' : pobs) : Prop := forall x, o = Some x -> o' = Some x.

Lemma sticky_refl o : sticky o o.
Proof. intros x H. exact H. Qed.
Lemma sticky_trans a b c : sticky a b -> sticky b c -> sticky a c.
Proof. intros H1 H2 x H. apply H2, H1, H. Qed.
Lemma sticky_push o c r l : sticky o (push_spec o c r l).
Proof. intros x ->. reflexivity. Qed.
Lemma sticky_if (b : bool) o o1 o2 : sticky o o1 -> sticky o o2 -> sticky o (if b then o1 else o2).
Proof. destruct b; auto. Qed.

Lemma ok_width_cases b : ok_width b = true -> b = 8 \/ b = 16 \/ b = 32 \/ b = 64.
Proof.
  unfold ok_width. intro H. repeat (apply orb_prop in H; destruct H as [H|H]);
    apply N.eqb_eq in H; tauto.
Qed.

Lemma ok_width_pos b : ok_width b = true -> 2 <= b.
Proof. intro H. destruct (ok_width_cases b H) as [-> | [-> | [-> | ->]]]; lia. Qed.

Lemma ok_width_in b : ok_width b = true -> In (N.to_nat b) [8; 16; 32; 64]%nat.
Proof. intro H. destruct (ok_width_cases b H) as [-> | [-> | [-> | ->]]]; cbn; tauto. Qed.

Lemma szn_bool P : szn P TBool = 1%nat.
Proof. reflexivity. Qed.
Lemma szn_int P sg b : szn P (TInt sg b) = N.to_nat b.
Proof. reflexivity. Qed.

Lemma szn_tw P t : scalar_ty t = true -> szn P t = tw t.
Proof. destruct t; try discriminate; reflexivity. Qed.

Lemma tw_pos t : scalar_ty t = true -> (1 <= tw t)%nat.
Proof.
  destruct t; try discriminate; cbn [scalar_ty tw]; [lia|].
  intro H. apply ok_width_pos in H. lia.
Qed.

Lemma length_enc_val t v : scalar_ty t = true -> val_ok t v -> length (enc_val t v) = tw t.
Proof.
  destruct t, v; cbn [val_ok]; try contradiction; try discriminate; intros _ _; cbn [enc_val tw].
  - reflexivity.
  - apply length_enc.
Qed.

Lemma env_rel_shape en E g : env_rel en E g -> env_shape E g.
Proof.
  intros H x t mu Hl Hs. destruct (H x t mu Hl Hs) as (v & _ & Hv & He).
  exists (enc_val t v). split; [exact He|]. now apply length_enc_val.
Qed.

Lemma env_rel_scopes en en' E g : Sem.scopes en' = Sem.scopes en -> env_rel en E g -> env_rel en' E g.
Proof.
  intros Hs H x t mu Hl Ht. destruct (H x t mu Hl Ht) as (v & Hv & Hok & He).
  exists v. unfold Sem.lookup_var in *. rewrite Hs. auto.
Qed.

Lemma lit_fits_in_range sg b z : lit_fits (TInt sg b) z = Sem.in_range sg b z.
Proof. destruct sg; reflexivity. Qed.

Lemma nonempty_len {A} (l : list A) : (1 <= length l)%nat -> l <> [].
Proof. destruct l; cbn [length]; [lia|discriminate]. Qed.

(* ------------------------------------------------------------------ integer facts *)

Lemma enc_mod_eq n z1 z2 : (z1 mod 2 ^ Z.of_nat n = z2 mod 2 ^ Z.of_nat n)%Z -> enc n z1 = enc n z2.
Proof. unfold enc. now intros ->. Qed.

Lemma pow2_half_Z (b : N) : 1 <= b -> (2 ^ Z.of_N b = 2 * 2 ^ (Z.of_N b - 1))%Z.
Proof.
  intro H. replace (Z.of_N b) with (1 + (Z.of_N b - 1))%Z at 1 by lia.
  rewrite Z.pow_add_r by lia. reflexivity.
Qed.

Lemma wrap_mod sg b z : (Sem.wrap sg b z mod 2 ^ Z.of_N b = z mod 2 ^ Z.of_N b)%Z.
Proof.
  unfold Sem.wrap. pose proof (pow2_Z_pos b) as Hp.
  destruct (sg && (2 ^ (Z.of_N b - 1) <=? z mod 2 ^ Z.of_N b)%Z).
  - replace (z mod 2 ^ Z.of_N b - 2 ^ Z.of_N b)%Z with (z mod 2 ^ Z.of_N b + (-1) * 2 ^ Z.of_N b)%Z by lia.
    rewrite Z.mod_add by lia. apply Z.mod_mod. lia.
  - apply Z.mod_mod. lia.
Qed.

Lemma enc_wrap sg b z : enc (N.to_nat b) (Sem.wrap sg b z) = enc (N.to_nat b) z.
Proof. apply enc_mod_eq. rewrite N_nat_Z. apply wrap_mod. Qed.

Lemma wrap_in_range sg b z : 1 <= b -> Sem.in_range sg b (Sem.wrap sg b z) = true.
Proof.
  intro Hb. unfold Sem.wrap, Sem.in_range. pose proof (pow2_Z_pos b) as Hp.
  pose proof (Z.mod_pos_bound z _ Hp) as Hm. pose proof (pow2_half_Z b Hb) as Hh.
  destruct sg; cbn [andb].
  - destruct (Z.leb_spec (2 ^ (Z.of_N b - 1)) (z mod 2 ^ Z.of_N b));
      apply andb_true_intro; split; try apply Z.leb_le; try apply Z.ltb_lt; lia.
  - apply andb_true_intro; split; [apply Z.leb_le|apply Z.ltb_lt]; lia.
Qed.

Lemma in_range_bounds sg b z : Sem.in_range sg b z = true ->
  if sg then (- 2 ^ (Z.of_N b - 1) <= z < 2 ^ (Z.of_N b - 1))%Z else (0 <= z < 2 ^ Z.of_N b)%Z.
Proof.
  unfold Sem.in_range. destruct sg; intro H; apply andb_prop in H; destruct H as [H1 H2];
    apply Z.leb_le in H1; apply Z.ltb_lt in H2; lia.
Qed.

Lemma in_range_of_bounds (sg : bool) b z :
  (if sg then (- 2 ^ (Z.of_N b - 1) <= z < 2 ^ (Z.of_N b - 1))%Z else (0 <= z < 2 ^ Z.of_N b)%Z) ->
  Sem.in_range sg b z = true.
Proof.
  unfold Sem.in_range. destruct sg; intro H; apply andb_true_intro; split;
    try apply Z.leb_le; try apply Z.ltb_lt; lia.
Qed.

(* the readings of the encoding of an in-range value *)
Lemma uval_enc_ok b z : Sem.in_range false b z = true -> uval (enc (N.to_nat b) z) = z.
Proof. intro H. apply uval_enc_in_range. now rewrite N2Nat.id. Qed.

Lemma sval_enc_ok b z : 1 <= b -> Sem.in_range true b z = true -> sval (enc (N.to_nat b) z) = z.
Proof. intros Hb H. apply sval_enc_in_range; [lia|]. now rewrite N2Nat.id. Qed.

Lemma enc_nonempty n z : (1 <= n)%nat -> enc n z <> [].
Proof. intro H. apply nonempty_len. now rewrite length_enc. Qed.

(* a vector is the encoding of its readings *)
Lemma enc_of_sval r n z : r <> [] -> length r = n -> sval r = z -> r = enc n z.
Proof. intros Hne Hl Hv. subst n z. symmetry. now apply enc_sval. Qed.

(* unsigned quotient and remainder stay in range *)
Lemma quot_in_range_unsigned b a c : Sem.in_range false b a = true -> (0 < c)%Z ->
  Sem.in_range false b (Z.quot a c) = true.
Proof.
  intros Ha Hc. apply in_range_bounds in Ha. apply (in_range_of_bounds false).
  rewrite Z.quot_div_nonneg by lia. split.
  - apply Z.div_pos; lia.
  - apply Z.le_lt_trans with a; [|lia]. apply Z.div_le_upper_bound; [lia|]. nia.
Qed.

Lemma rem_in_range_unsigned b a c : Sem.in_range false b a = true -> (0 < c)%Z ->
  Sem.in_range false b (Z.rem a c) = true.
Proof.
  intros Ha Hc. apply in_range_bounds in Ha. apply (in_range_of_bounds false).
  rewrite Z.rem_mod_nonneg by lia. pose proof (Z.mod_pos_bound a c Hc).
  pose proof (Z.mod_le a c ltac:(lia) Hc). lia.
Qed.

(* bitwise operators keep the signed range: z is in [-2^k, 2^k) iff z >> k is 0 or -1 *)
Lemma signed_range_shiftr k z : (0 <= k)%Z ->
  (- 2 ^ k <= z < 2 ^ k)%Z <-> (Z.shiftr z k = 0 \/ Z.shiftr z k = -1)%Z.
Proof.
  intro Hk. rewrite Z.shiftr_div_pow2 by exact Hk.
  assert (0 < 2 ^ k)%Z as Hp by (apply Z.pow_pos_nonneg; lia).
  pose proof (Z.div_mod z (2 ^ k) ltac:(lia)) as Hd. pose proof (Z.mod_pos_bound z (2 ^ k) Hp) as Hm.
  split.
  - intro H. assert (-1 <= z / 2 ^ k < 1)%Z; [|lia]. split.
    + apply Z.div_le_lower_bound; lia.
    + apply Z.div_lt_upper_bound; lia.
  - intros [H|H]; rewrite H in Hd; lia.
Qed.

Section BitRange.
  Variable op : Z -> Z -> Z.
  Hypothesis shiftr_op : forall a b n, Z.shiftr (op a b) n = op (Z.shiftr a n) (Z.shiftr b n).
  Hypothesis op00 : op 0 0 = 0%Z \/ op 0 0 = (-1)%Z.
  Hypothesis op01 : op 0 (-1) = 0%Z \/ op 0 (-1) = (-1)%Z.
  Hypothesis op10 : op (-1) 0 = 0%Z \/ op (-1) 0 = (-1)%Z.
  Hypothesis op11 : op (-1) (-1) = 0%Z \/ op (-1) (-1) = (-1)%Z.

  Lemma bitop_signed_range b a c : 1 <= b ->
    Sem.in_range true b a = true -> Sem.in_range true b c = true -> Sem.in_range true b (op a c) = true.
  Proof.
    intros Hb Ha Hc. apply in_range_bounds in Ha. apply in_range_bounds in Hc.
    apply (in_range_of_bounds true).
    apply signed_range_shiftr in Ha; [|lia]. apply signed_range_shiftr in Hc; [|lia].
    apply signed_range_shiftr; [lia|]. rewrite shiftr_op.
    destruct Ha as [-> | ->], Hc as [-> | ->]; assumption.
  Qed.
End BitRange.

Lemma land_signed_range b a c : 1 <= b ->
  Sem.in_range true b a = true -> Sem.in_range true b c = true -> Sem.in_range true b (Z.land a c) = true.
Proof. apply bitop_signed_range; [apply Z.shiftr_land|..]; cbn; tauto. Qed.
Lemma lor_signed_range b a c : 1 <= b ->
  Sem.in_range true b a = true -> Sem.in_range true b c = true -> Sem.in_range true b (Z.lor a c) = true.
Proof. apply bitop_signed_range; [apply Z.shiftr_lor|..]; cbn; tauto. Qed.
Lemma lxor_signed_range b a c : 1 <= b ->
  Sem.in_range true b a = true -> Sem.in_range true b c = true -> Sem.in_range true b (Z.lxor a c) = true.
Proof. apply bitop_signed_range; [apply Z.shiftr_lxor|..]; cbn; tauto. Qed.

(* ... and the unsigned one: the result is the reading of a vector *)
Lemma bitop_unsigned_range (op : Z -> Z -> Z) (f : bool -> bool -> bool) b a c :
  (forall a b i, Z.testbit (op a b) i = f (Z.testbit a i) (Z.testbit b i)) -> f false false = false ->
  Sem.in_range false b a = true -> Sem.in_range false b c = true -> Sem.in_range false b (op a c) = true.
Proof.
  intros Hspec Hff Ha Hc. apply (in_range_of_bounds false).
  pose proof (uval_zipw op f Hspec Hff (enc (N.to_nat b) a) (enc (N.to_nat b) c)) as H.
  rewrite !length_enc in H. specialize (H eq_refl).
  rewrite (uval_enc_ok b a Ha), (uval_enc_ok b c Hc) in H. rewrite <- H.
  pose proof (uval_range (zipw f (enc (N.to_nat b) a) (enc (N.to_nat b) c))) as Hr.
  rewrite zipw_length, length_enc, N_nat_Z in Hr by (now rewrite !length_enc). exact Hr.
Qed.

Lemma wrap_id sg b z : 1 <= b -> Sem.in_range sg b z = true -> Sem.wrap sg b z = z.
Proof.
  intros Hb Hr. rewrite <- (N2Nat.id b) in *. destruct sg.
  - rewrite <- sval_enc by lia. apply sval_enc_in_range; [lia|exact Hr].
  - rewrite <- uval_enc_wrap. now apply uval_enc_in_range.
Qed.

(* ------------------------------------------------------------------ the binary operators of
   [lower_binop]: totality ... *)

Lemma binop_total o t tx ty_ (x y : list bool) m ob :
  op_arith o || op_cmp o || op_eq o = true -> x <> [] -> length x = length y ->
  exists w o', lower_binop tops o t tx ty_ x y m ob = Ok (w, o') /\
    length w = (if op_arith o then length x else 1%nat) /\ sticky ob o'.
Proof.
  intros Ho Hne Hl. destruct o; try discriminate Ho; cbn [op_arith].
  - destruct (is_signed tx || is_signed ty_) eqn:Hs.
    + pose proof (lower_add_signed t tx ty_ x y m ob Hne Hl Hs) as H. cbv zeta in H.
      eexists _, _. split; [exact H|]. split; [apply length_enc|apply sticky_push].
    + pose proof (lower_add_unsigned t tx ty_ x y m ob Hne Hl Hs) as H. cbv zeta in H.
      eexists _, _. split; [exact H|]. split; [apply length_enc|apply sticky_push].
  - destruct (is_signed t) eqn:Hs.
    + pose proof (lower_sub_signed t tx ty_ x y m ob Hne Hl Hs) as H. cbv zeta in H.
      eexists _, _. split; [exact H|]. split; [apply length_enc|apply sticky_push].
    + pose proof (lower_sub_unsigned t tx ty_ x y m ob Hne Hl Hs) as H. cbv zeta in H.
      eexists _, _. split; [exact H|]. split; [apply length_enc|apply sticky_push].
  - destruct (tsem_binop_mul_checked t tx ty_ x y m ob Hne Hl) as (r & HE & HL & _).
    eexists _, _. split; [exact HE|]. split; [exact HL|apply sticky_push].
  - destruct (is_signed t) eqn:Hs.
    + pose proof (lower_div_signed t tx ty_ x y m ob Hne Hl Hs) as H. cbv zeta in H.
      eexists _, _. split; [exact H|]. split; [apply length_enc|].
      eapply sticky_trans; apply sticky_push.
    + pose proof (lower_div_unsigned t tx ty_ x y m ob Hne Hl Hs) as H. cbv zeta in H.
      eexists _, _. split; [exact H|]. split; [apply length_enc|apply sticky_push].
  - destruct (is_signed t) eqn:Hs.
    + pose proof (lower_mod_signed t tx ty_ x y m ob Hne Hl Hs) as H. cbv zeta in H.
      eexists _, _. split; [exact H|]. split; [apply length_enc|apply sticky_push].
    + pose proof (lower_mod_unsigned t tx ty_ x y m ob Hne Hl Hs) as H. cbv zeta in H.
      eexists _, _. split; [exact H|]. split; [apply length_enc|apply sticky_push].
  - eexists _, _. split; [apply lower_bitand; assumption|]. split; [now apply zipw_length|apply sticky_refl].
  - eexists _, _. split; [apply lower_bitxor; assumption|]. split; [now apply zipw_length|apply sticky_refl].
  - eexists _, _. split; [apply lower_bitor; assumption|]. split; [now apply zipw_length|apply sticky_refl].
  - destruct (is_signed tx || is_signed ty_) eqn:Hs.
    + eexists _, _. split; [apply lower_gt_signed; assumption|]. split; [reflexivity|apply sticky_refl].
    + eexists _, _. split; [apply lower_gt_unsigned; assumption|]. split; [reflexivity|apply sticky_refl].
  - destruct (is_signed tx || is_signed ty_) eqn:Hs.
    + eexists _, _. split; [apply lower_lt_signed; assumption|]. split; [reflexivity|apply sticky_refl].
    + eexists _, _. split; [apply lower_lt_unsigned; assumption|]. split; [reflexivity|apply sticky_refl].
  - eexists _, _. split; [apply lower_eq_unsigned; assumption|]. split; [reflexivity|apply sticky_refl].
  - eexists _, _. split; [apply lower_ne_unsigned; assumption|]. split; [reflexivity|apply sticky_refl].
Qed.

(* ... and agreement with [Sem.eval_binop] on encodings of values of the operand type *)

Definition binop_agrees (o : binop) (m : meta) (t tx : ty) (vx vy : Sem.value) (len : bool) : Prop :=
  match Sem.eval_binop o m t tx vx vy len with
  | Sem.Done (v, _) =>
      val_ok t v /\
      lower_binop tops o t tx tx (enc_val tx vx) (enc_val tx vy) m None = Ok (enc_val t v, None)
  | Sem.Panicked r m' =>
      m' = m /\
      exists w, lower_binop tops o t tx tx (enc_val tx vx) (enc_val tx vy) m None =
                Ok (w, Some (preason_num (pr r), ploc32 (ploc_of m)))
  | _ => False
  end.

Ltac finish_checked H R :=
  unfold Sem.checked; destruct R eqn:Hr; rewrite ?Hr in H; cbn [Sem.obind negb push_spec] in H |- *;
  [split; [exact Hr|exact H]|split; [reflexivity|eexists; exact H]].

Lemma binop_signed_agrees o m t b a c len :
  ok_width b = true -> Sem.in_range true b a = true -> Sem.in_range true b c = true ->
  (op_arith o = true /\ t = TInt true b) \/ (op_cmp o || op_eq o = true /\ t = TBool) ->
  binop_agrees o m t (TInt true b) (Sem.VInt a) (Sem.VInt c) len.
Proof.
  intros Hb Ha Hc Ht. unfold binop_agrees. cbn [enc_val].
  set (n := N.to_nat b).
  assert (Hb1 : 1 <= b) by (apply ok_width_pos in Hb; lia).
  assert (Hn1 : (1 <= n)%nat) by lia.
  assert (Nn : N.of_nat n = b) by apply N2Nat.id.
  pose proof (enc_nonempty n a Hn1) as Hne.
  assert (Hl : length (enc n a) = length (enc n c)) by (now rewrite !length_enc).
  assert (Hlx : length (enc n a) = n) by apply length_enc.
  pose proof (sval_enc_ok b a Hb1 Ha) as Hva. pose proof (sval_enc_ok b c Hb1 Hc) as Hvc.
  fold n in Hva, Hvc.
  destruct Ht as [[Ho ->]|[Ho ->]]; destruct o; try discriminate Ho; cbn [Sem.eval_binop Sem.int_ty].
  - pose proof (lower_add_signed (TInt true b) (TInt true b) (TInt true b) _ _ m None Hne Hl eq_refl) as H.
    cbv zeta in H. rewrite Hlx, Nn, Hva, Hvc in H.
    finish_checked H (Sem.in_range true b (a + c)).
  - pose proof (lower_sub_signed (TInt true b) (TInt true b) (TInt true b) _ _ m None Hne Hl eq_refl) as H.
    cbv zeta in H. rewrite Hlx, Nn, Hva, Hvc in H.
    finish_checked H (Sem.in_range true b (a - c)).
  - destruct (tsem_binop_mul_checked (TInt true b) (TInt true b) (TInt true b) _ _ m None Hne Hl)
      as (r & HE & HL & HV).
    cbn [is_signed int_val] in HE, HV. unfold lenN in HE, HV. rewrite Hlx, Nn in HE, HV.
    change (bits_to_Z_signed (enc n a)) with (sval (enc n a)) in HE, HV.
    change (bits_to_Z_signed (enc n c)) with (sval (enc n c)) in HE, HV.
    rewrite Hva, Hvc in HE, HV. rewrite Hlx in HL.
    unfold Sem.checked. destruct (Sem.in_range true b (a * c)) eqn:Hr;
      cbn [Sem.obind negb push_spec] in HE |- *.
    + split; [exact Hr|]. rewrite HE. f_equal. f_equal.
      apply enc_of_sval; [apply nonempty_len; lia|exact HL|].
      unfold sval. rewrite HV. now apply wrap_id.
    + split; [reflexivity|eexists; exact HE].
  - pose proof (lower_div_signed (TInt true b) (TInt true b) (TInt true b) _ _ m None Hne Hl eq_refl) as H.
    cbv zeta in H. rewrite Hlx, Nn, Hva, Hvc in H.
    destruct (c =? 0)%Z eqn:Hc0; cbn [push_spec] in H.
    + split; [reflexivity|eexists; exact H].
    + finish_checked H (Sem.in_range true b (a ÷ c)).
  - pose proof (lower_mod_signed (TInt true b) (TInt true b) (TInt true b) _ _ m None Hne Hl eq_refl) as H.
    cbv zeta in H. rewrite Hlx, Hva, Hvc in H.
    destruct (c =? 0)%Z eqn:Hc0; cbn [push_spec] in H.
    + split; [reflexivity|eexists; exact H].
    + split; [|exact H]. cbn [val_ok]. rewrite <- Nn.
      apply in_range_bounds in Ha. apply in_range_bounds in Hc.
      apply rem_in_range; [exact Hn1| |]; unfold n; rewrite N_nat_Z; assumption.
  - split; [now apply land_signed_range|].
    pose proof (lower_bitand_signed (TInt true b) (TInt true b) (TInt true b) _ _ m None Hne Hl) as H.
    rewrite Hlx, Hva, Hvc in H. exact H.
  - split; [now apply lxor_signed_range|].
    pose proof (lower_bitxor_signed (TInt true b) (TInt true b) (TInt true b) _ _ m None Hne Hl) as H.
    rewrite Hlx, Hva, Hvc in H. exact H.
  - split; [now apply lor_signed_range|].
    pose proof (lower_bitor_signed (TInt true b) (TInt true b) (TInt true b) _ _ m None Hne Hl) as H.
    rewrite Hlx, Hva, Hvc in H. exact H.
  - split; [exact I|].
    pose proof (lower_gt_signed TBool (TInt true b) (TInt true b) _ _ m None Hne Hl eq_refl) as H.
    rewrite Hva, Hvc in H. exact H.
  - split; [exact I|].
    pose proof (lower_lt_signed TBool (TInt true b) (TInt true b) _ _ m None Hne Hl eq_refl) as H.
    rewrite Hva, Hvc in H. exact H.
  - split; [exact I|].
    pose proof (lower_eq_signed TBool (TInt true b) (TInt true b) _ _ m None Hne Hl) as H.
    rewrite Hva, Hvc in H. exact H.
  - split; [exact I|].
    pose proof (lower_ne_signed TBool (TInt true b) (TInt true b) _ _ m None Hne Hl) as H.
    rewrite Hva, Hvc in H. exact H.
Qed.

Lemma binop_unsigned_agrees o m t b a c len :
  ok_width b = true -> Sem.in_range false b a = true -> Sem.in_range false b c = true ->
  (op_arith o = true /\ t = TInt false b) \/ (op_cmp o || op_eq o = true /\ t = TBool) ->
  binop_agrees o m t (TInt false b) (Sem.VInt a) (Sem.VInt c) len.
Proof.
  intros Hb Ha Hc Ht. unfold binop_agrees. cbn [enc_val].
  set (n := N.to_nat b).
  assert (Hb1 : 1 <= b) by (apply ok_width_pos in Hb; lia).
  assert (Hn1 : (1 <= n)%nat) by lia.
  assert (Nn : N.of_nat n = b) by apply N2Nat.id.
  pose proof (enc_nonempty n a Hn1) as Hne.
  assert (Hl : length (enc n a) = length (enc n c)) by (now rewrite !length_enc).
  assert (Hlx : length (enc n a) = n) by apply length_enc.
  pose proof (uval_enc_ok b a Ha) as Hva. pose proof (uval_enc_ok b c Hc) as Hvc.
  fold n in Hva, Hvc.
  pose proof (in_range_bounds _ _ _ Ha) as Ba. pose proof (in_range_bounds _ _ _ Hc) as Bc.
  cbv beta iota in Ba, Bc.
  destruct Ht as [[Ho ->]|[Ho ->]]; destruct o; try discriminate Ho; cbn [Sem.eval_binop Sem.int_ty].
  - pose proof (lower_add_unsigned (TInt false b) (TInt false b) (TInt false b) _ _ m None Hne Hl eq_refl) as H.
    cbv zeta in H. rewrite Hlx, Nn, Hva, Hvc in H.
    finish_checked H (Sem.in_range false b (a + c)).
  - pose proof (lower_sub_unsigned (TInt false b) (TInt false b) (TInt false b) _ _ m None Hne Hl eq_refl) as H.
    cbv zeta in H. rewrite Hlx, Nn, Hva, Hvc in H.
    finish_checked H (Sem.in_range false b (a - c)).
  - destruct (tsem_binop_mul_checked (TInt false b) (TInt false b) (TInt false b) _ _ m None Hne Hl)
      as (r & HE & HL & HV).
    cbn [is_signed int_val] in HE, HV. unfold lenN in HE, HV. rewrite Hlx, Nn in HE, HV.
    change (Z.of_N (bits_to_N (enc n a))) with (uval (enc n a)) in HE, HV.
    change (Z.of_N (bits_to_N (enc n c))) with (uval (enc n c)) in HE, HV.
    rewrite Hva, Hvc in HE, HV. rewrite Hlx in HL.
    unfold Sem.checked. destruct (Sem.in_range false b (a * c)) eqn:Hr;
      cbn [Sem.obind negb push_spec] in HE |- *.
    + split; [exact Hr|]. rewrite HE. f_equal. f_equal.
      apply enc_of_uval; [exact HL|]. unfold uval. rewrite HV. now apply wrap_id.
    + split; [reflexivity|eexists; exact HE].
  - pose proof (lower_div_unsigned (TInt false b) (TInt false b) (TInt false b) _ _ m None Hne Hl eq_refl) as H.
    cbv zeta in H. rewrite Hlx, Hva, Hvc in H.
    destruct (Z.eqb_spec c 0) as [Hc0|Hc0]; cbn [push_spec] in H.
    + split; [reflexivity|eexists; exact H].
    + unfold Sem.checked. rewrite (quot_in_range_unsigned b a c Ha) by lia. cbn [Sem.obind].
      split; [|exact H]. cbn [val_ok]. apply quot_in_range_unsigned; [exact Ha|lia].
  - pose proof (lower_mod_unsigned (TInt false b) (TInt false b) (TInt false b) _ _ m None Hne Hl eq_refl) as H.
    cbv zeta in H. rewrite Hlx, Hva, Hvc in H.
    destruct (Z.eqb_spec c 0) as [Hc0|Hc0]; cbn [push_spec] in H.
    + split; [reflexivity|eexists; exact H].
    + split; [|exact H]. cbn [val_ok]. apply rem_in_range_unsigned; [exact Ha|lia].
  - split; [apply (bitop_unsigned_range Z.land andb); auto using Z.land_spec|].
    pose proof (lower_bitand_unsigned (TInt false b) (TInt false b) (TInt false b) _ _ m None Hne Hl) as H.
    rewrite Hlx, Hva, Hvc in H. exact H.
  - split; [apply (bitop_unsigned_range Z.lxor xorb); auto using Z.lxor_spec|].
    pose proof (lower_bitxor_unsigned (TInt false b) (TInt false b) (TInt false b) _ _ m None Hne Hl) as H.
    rewrite Hlx, Hva, Hvc in H. exact H.
  - split; [apply (bitop_unsigned_range Z.lor orb); auto using Z.lor_spec|].
    pose proof (lower_bitor_unsigned (TInt false b) (TInt false b) (TInt false b) _ _ m None Hne Hl) as H.
    rewrite Hlx, Hva, Hvc in H. exact H.
  - split; [exact I|].
    pose proof (lower_gt_unsigned TBool (TInt false b) (TInt false b) _ _ m None Hne Hl eq_refl) as H.
    rewrite Hva, Hvc in H. exact H.
  - split; [exact I|].
    pose proof (lower_lt_unsigned TBool (TInt false b) (TInt false b) _ _ m None Hne Hl eq_refl) as H.
    rewrite Hva, Hvc in H. exact H.
  - split; [exact I|].
    pose proof (lower_eq_unsigned TBool (TInt false b) (TInt false b) _ _ m None Hne Hl) as H.
    rewrite Hva, Hvc in H. exact H.
  - split; [exact I|].
    pose proof (lower_ne_unsigned TBool (TInt false b) (TInt false b) _ _ m None Hne Hl) as H.
    rewrite Hva, Hvc in H. exact H.
Qed.

(* Boolean operands: & ^ | == != *)
Lemma binop_bool_agrees o m p q len : op_bit o || op_eq o = true ->
  binop_agrees o m TBool TBool (Sem.VBool p) (Sem.VBool q) len.
Proof.
  intro Ho. unfold binop_agrees. cbn [enc_val].
  assert (Hne : [p] <> []) by discriminate.
  assert (Hl : length [p] = length [q]) by reflexivity.
  destruct o; try discriminate Ho; cbn [Sem.eval_binop Sem.value_eqb]; (split; [exact I|]).
  - now rewrite lower_bitand.
  - now rewrite lower_bitxor.
  - now rewrite lower_bitor.
  - rewrite lower_eq_unsigned by assumption. destruct p, q; reflexivity.
  - rewrite lower_ne_unsigned by assumption. destruct p, q; reflexivity.
Qed.

(* ------------------------------------------------------------------ `!` *)

Lemma mapM_not_tops : forall (x : list bool) (o : pobs), mapM_M (m_not tops) x o = Ok (map negb x, o).
Proof.
  induction x as [|a x IH]; intro o; [reflexivity|].
  cbn [mapM_M map]. unfold mbind. change (m_not tops a o) with (Ok (negb a, o)). cbn iota beta.
  rewrite IH. reflexivity.
Qed.

Lemma lower_not_case P re rp rb e1 m t E o x E1 o1 :
  re e1 E o = Ok ((x, E1), o1) ->
  lower_expr_body tops P re rp rb (Ex (ENot e1) m t) E o = Ok ((map negb x, E1), o1).
Proof.
  intro He. cbn [lower_expr_body]. unfold mbind at 1. rewrite He. unfold mbind.
  rewrite mapM_not_tops. reflexivity.
Qed.

Lemma bits_to_N_map_negb l : bits_to_N (map negb l) + bits_to_N l + 1 = 2 ^ lenN l.
Proof.
  induction l as [|b r IH]; [reflexivity|].
  cbn [map]. rewrite !bits_to_N_cons, lenN_cons, pow2_succ.
  assert (lenN (map negb r) = lenN r) as -> by (unfold lenN; now rewrite map_length).
  destruct b; cbn [negb N.b2n]; lia.
Qed.

Lemma map_negb_enc n z : map negb (enc n z) = enc n (Z.lnot z).
Proof.
  apply enc_unique; [now rewrite map_length, length_enc|].
  pose proof (bits_to_N_map_negb (enc n z)) as H.
  assert (Z.of_N (bits_to_N (map negb (enc n z))) + uval (enc n z) + 1 = 2 ^ Z.of_nat n)%Z as HZ.
  { unfold uval. unfold lenN in H. rewrite length_enc in H.
    rewrite <- nat_N_Z, <- pow2_N_Z, <- H. lia. }
  rewrite uval_enc in HZ. unfold uval.
  assert (0 < 2 ^ Z.of_nat n)%Z as Hp by (apply Z.pow_pos_nonneg; lia).
  pose proof (Z.mod_pos_bound z _ Hp) as Hm. pose proof (Z.div_mod z (2 ^ Z.of_nat n) ltac:(lia)) as Hd.
  apply (Z.mod_unique_pos _ _ (- (z / 2 ^ Z.of_nat n) - 1)); [lia|]. unfold Z.lnot. nia.
Qed.

(* ------------------------------------------------------------------ casts *)

Lemma mod_mod_pow2 z k n : (0 <= k <= n)%Z -> ((z mod 2 ^ n) mod 2 ^ k = z mod 2 ^ k)%Z.
Proof.
  intros [Hk Hn]. symmetry. apply Znumtheory.Zmod_div_mod; try (apply Z.pow_pos_nonneg; lia).
  exists (2 ^ (n - k))%Z. rewrite <- Z.pow_add_r by lia. f_equal. lia.
Qed.

Lemma cast_agrees P rec_e rec_p rec_b to e1 m E o v E1 o1 :
  scalar_ty to = true -> scalar_ty (e_ty e1) = true -> val_ok (e_ty e1) v ->
  rec_e e1 E o = Ok ((enc_val (e_ty e1) v, E1), o1) ->
  match Sem.eval_cast to (e_ty e1) v with
  | Sem.Done v' =>
      val_ok to v' /\
      lower_expr_body tops P rec_e rec_p rec_b (Ex (ECast to e1) m to) E o = Ok ((enc_val to v', E1), o1)
  | _ => False
  end.
Proof.
  intros Hto Hfrom Hv He.
  destruct (tsem_cast_correct P rec_e rec_p rec_b to e1 m to E o _ E1 o1 He) as (r & HR & HL & Hnar & Hwid).
  rewrite HR. clear HR He.
  destruct (e_ty e1) as [|sg1 b1| | | |] eqn:Et1; try discriminate Hfrom;
    destruct v as [p|z| | |]; try contradiction; cbn [val_ok enc_val] in *;
    destruct to as [|sg2 b2| | | |]; try discriminate Hto; cbn [Sem.eval_cast scalar_ty val_ok enc_val] in *;
    rewrite ?szn_bool, ?szn_int in *.
  - (* bool -> bool *)
    split; [exact I|]. f_equal. f_equal. f_equal. apply bits_to_N_inj; [exact HL|].
    rewrite Hnar by (cbn [length]; lia). destruct p; reflexivity.
  - (* bool -> int *)
    pose proof (ok_width_pos b2 Hto) as Hb2.
    split.
    + destruct (ok_width_cases b2 Hto) as [-> | [-> | [-> | ->]]]; destruct p, sg2; reflexivity.
    + f_equal. f_equal. f_equal. apply enc_of_uval; [exact HL|].
      cbn [is_signed] in Hwid. unfold uval. rewrite Hwid by (cbn [length]; lia). destruct p; reflexivity.
  - (* int -> bool *)
    pose proof (ok_width_pos b1 Hfrom) as Hb1.
    split; [exact I|]. f_equal. f_equal. f_equal.
    rewrite length_enc in Hnar. specialize (Hnar ltac:(lia)).
    destruct r as [|q [|? ?]]; try discriminate HL.
    assert (Z.of_N (bits_to_N [q]) = (z mod 2 ^ 1)%Z) as HZ.
    { rewrite Hnar. rewrite N2Z.inj_mod. fold (uval (enc (N.to_nat b1) z)). rewrite uval_enc.
      change (Z.of_N (2 ^ N.of_nat 1)) with (2 ^ 1)%Z. apply mod_mod_pow2. lia. }
    change (2 ^ 1)%Z with 2%Z in HZ. rewrite Zmod_odd in HZ.
    destruct q, (Z.odd z); cbn in HZ; try reflexivity; lia.
  - (* int -> int *)
    pose proof (ok_width_pos b1 Hfrom) as Hb1. pose proof (ok_width_pos b2 Hto) as Hb2.
    split; [apply wrap_in_range; lia|]. rewrite enc_wrap. f_equal. f_equal. f_equal.
    rewrite length_enc in Hnar, Hwid.
    destruct (Nat.le_ge_cases (N.to_nat b2) (N.to_nat b1)) as [Hle|Hge].
    + apply enc_unique; [exact HL|]. unfold uval. rewrite (Hnar Hle), N2Z.inj_mod.
      fold (uval (enc (N.to_nat b1) z)). rewrite uval_enc, pow2_N_Z, nat_N_Z.
      apply mod_mod_pow2. lia.
    + specialize (Hwid Hge). cbn [is_signed] in Hwid. destruct sg1.
      * apply enc_of_sval; [apply nonempty_len; lia|exact HL|]. unfold sval. rewrite Hwid.
        apply (sval_enc_ok b1 z); [lia|exact Hv].
      * apply enc_of_uval; [exact HL|]. unfold uval. rewrite Hwid. apply (uval_enc_ok b1 z Hv).
Qed.

(* ------------------------------------------------------------------ shifts *)

Lemma shift_agrees (left : bool) m sg b a s len :
  ok_width b = true -> Sem.in_range sg b a = true -> Sem.in_range false 8 s = true ->
  let xw := enc (N.to_nat b) a in
  let yw := enc 8 s in
  match Sem.eval_binop (if left then OShl else OShr) m (TInt sg b) (TInt sg b) (Sem.VInt a) (Sem.VInt s) len with
  | Sem.Done (v, _) =>
      val_ok (TInt sg b) v /\
      shift_once tops left (shift_fill left sg xw) xw (N.to_nat (bits_to_N yw)) = enc_val (TInt sg b) v /\
      (lenN xw <=? bits_to_N yw) = false
  | Sem.Panicked r m' => m' = m /\ r = Sem.ROverflow /\ (lenN xw <=? bits_to_N yw) = true
  | _ => False
  end.
Proof.
  intros Hb Ha Hs xw yw.
  set (n := N.to_nat b) in *.
  assert (Hb1 : 1 <= b) by (apply ok_width_pos in Hb; lia).
  assert (Hn1 : (1 <= n)%nat) by lia.
  assert (Hlx : length xw = n) by apply length_enc.
  assert (Hnx : xw <> []) by (apply enc_nonempty; exact Hn1).
  assert (HLN : lenN xw = b) by (unfold lenN; rewrite Hlx; apply N2Nat.id).
  assert (HS : Z.of_N (bits_to_N yw) = s).
  { change (uval (enc (N.to_nat 8) s) = s). now apply uval_enc_ok. }
  pose proof (in_range_bounds _ _ _ Hs) as Bs. cbv beta iota in Bs.
  set (S := bits_to_N yw) in *.
  assert (Hcond : (lenN xw <=? S) = (Z.of_N b <=? s)%Z).
  { rewrite HLN. destruct (N.leb_spec b S); destruct (Z.leb_spec (Z.of_N b) s); try reflexivity; lia. }
  rewrite Hcond.
  assert (Hk : N.of_nat (N.to_nat S) = S) by apply N2Nat.id.
  assert (HkZ : Z.of_nat (N.to_nat S) = s) by (rewrite N_nat_Z; exact HS).
  assert (Hp : (0 < 2 ^ s)%Z) by (apply Z.pow_pos_nonneg; lia).
  assert (HuX : uval xw = (a mod 2 ^ Z.of_N b)%Z).
  { unfold xw. rewrite uval_enc. unfold n. now rewrite N_nat_Z. }
  destruct left; cbn [Sem.eval_binop Sem.int_ty];
    destruct (Z.leb_spec (Z.of_N b) s) as [Hov|Hok]; try (repeat split; reflexivity).
  - (* << *)
    split; [apply wrap_in_range; lia|]. split; [|reflexivity].
    cbn [enc_val]. rewrite enc_wrap. fold n.
    apply enc_unique; [now rewrite shift_once_length|].
    unfold uval. rewrite shift_once_shl, Hk, HLN.
    rewrite N2Z.inj_mod, N2Z.inj_mul, !pow2_N_Z. fold (uval xw). rewrite HuX.
    fold S. rewrite HS. unfold n. rewrite N_nat_Z.
    rewrite Z.shiftl_mul_pow2 by lia. apply Z.mul_mod_idemp_l.
    pose proof (pow2_Z_pos b). lia.
  - (* >> *)
    cbn [enc_val]. fold n. rewrite Z.shiftr_div_pow2 by lia.
    pose proof (in_range_bounds _ _ _ Ha) as Ba.
    destruct sg; cbv beta iota in Ba.
    + (* arithmetic *)
      assert (- 2 ^ (Z.of_N b - 1) <= a / 2 ^ s < 2 ^ (Z.of_N b - 1))%Z as Br.
      { assert (0 < 2 ^ (Z.of_N b - 1))%Z by (apply Z.pow_pos_nonneg; lia). split.
        - apply Z.div_le_lower_bound; [lia|]. nia.
        - apply Z.div_lt_upper_bound; [lia|]. nia. }
      split; [apply (in_range_of_bounds true); exact Br|]. split; [|reflexivity].
      unfold shift_fill. cbn [andb negb].
      apply enc_of_sval.
      * apply nonempty_len. rewrite shift_once_length. lia.
      * now rewrite shift_once_length.
      * unfold sval. rewrite shift_once_sar by exact Hnx. rewrite HkZ.
        change (bits_to_Z_signed xw) with (sval xw). unfold xw, n. now rewrite sval_enc_ok.
    + (* logical *)
      assert (0 <= a / 2 ^ s < 2 ^ Z.of_N b)%Z as Br.
      { split; [apply Z.div_pos; lia|]. apply Z.div_lt_upper_bound; [lia|]. nia. }
      split; [apply (in_range_of_bounds false); exact Br|]. split; [|reflexivity].
      unfold shift_fill. cbn [andb].
      apply enc_of_uval; [now rewrite shift_once_length|].
      unfold uval. rewrite shift_once_shr, Hk. rewrite N2Z.inj_div, pow2_N_Z.
      fold (uval xw). fold S. rewrite HS. unfold xw, n. now rewrite uval_enc_ok.
Qed.

(* ------------------------------------------------------------------ the cases of the lowering *)

Lemma lower_expr_S fuel P e E :
  lower_expr tops (S fuel) P e E =
  lower_expr_body tops P (lower_expr tops fuel P) (lower_pattern tops fuel P) (lower_block tops fuel P) e E.
Proof. reflexivity. Qed.

Lemma lit_info_not_lit x : is_num_lit x = false -> lit_info x = None.
Proof. destruct x as [[] ? ?]; cbn [is_num_lit lit_info]; congruence. Qed.

Lemma mul_rewrite_none x y m t : is_num_lit x = false -> is_num_lit y = false -> mul_rewrite x y m t = None.
Proof.
  intros Hx Hy. unfold mul_rewrite, rewrite_one.
  now rewrite (lit_info_not_lit x Hx), (lit_info_not_lit y Hy).
Qed.

Lemma lower_binop_case P re rp rb o x y m t E o0 xw E1 o1 yw E2 o2 :
  op_arith o || op_cmp o || op_eq o = true ->
  (o = OMul -> is_num_lit x = false /\ is_num_lit y = false) ->
  re x E o0 = Ok ((xw, E1), o1) -> re y E1 o1 = Ok ((yw, E2), o2) ->
  lower_expr_body tops P re rp rb (Ex (EOp o x y) m t) E o0 =
  match lower_binop tops o t (e_ty x) (e_ty y) xw yw m o2 with
  | Ok (r, o3) => Ok ((r, E2), o3)
  | Crash => Crash
  | OutOfFuel => OutOfFuel
  end.
Proof.
  intros Ho Hm Hx Hy.
  destruct o; try discriminate Ho; cbn [lower_expr_body];
    try (destruct (Hm eq_refl) as [H1 H2]; rewrite (mul_rewrite_none x y m t H1 H2));
    unfold mbind at 1; rewrite Hx; unfold mbind at 1; rewrite Hy; unfold mbind;
    match goal with |- context [lower_binop ?a ?b ?c ?d ?e ?f ?g ?h ?i] =>
      destruct (lower_binop a b c d e f g h i) as [[r o3]| |] end; reflexivity.
Qed.

Lemma if_same {A} (b : bool) (x : A) : (if b then x else x) = x.
Proof. now destruct b. Qed.

(* ------------------------------------------------------------------ TOTALITY and STICKINESS *)

Theorem tsem_total_typed P g E : env_shape E g -> Forall keys_distinct E ->
  forall e, ps_typed g e -> forall fuel o, (depth e < fuel)%nat ->
  exists w o', lower_expr tops fuel P e E o = Ok ((w, E), o') /\
               length w = tw (e_ty e) /\ sticky o o'.
Proof.
  intros Hshape Hkd e Ht.
  induction Ht; intros fuel o0 Hf; (destruct fuel as [|f]; [lia|]); rewrite lower_expr_S;
    cbn [e_ty depth] in *.
  - eexists _, _. split; [reflexivity|]. split; [reflexivity|apply sticky_refl].
  - eexists _, _. split; [reflexivity|]. split; [reflexivity|apply sticky_refl].
  - eexists _, _. split; [reflexivity|]. split; [|apply sticky_refl].
    rewrite tsem_unsigned_as_wires. apply length_enc.
  - eexists _, _. split; [reflexivity|]. split; [|apply sticky_refl].
    rewrite tsem_signed_as_wires. apply length_enc.
  - destruct (Hshape x t mu H H0) as (w & Hg & Hl). cbn [lower_expr_body]. rewrite Hg.
    eexists _, _. split; [reflexivity|]. split; [exact Hl|apply sticky_refl].
  - destruct (IHHt f o0 ltac:(lia)) as (x & o1 & He & Hl & Hs). rewrite H0 in Hl. cbn [tw] in Hl.
    pose proof (ok_width_pos b H) as Hb.
    assert (x <> []) as Hne by (apply nonempty_len; lia).
    pose proof (lower_neg_correct P _ (lower_pattern tops f P) (lower_block tops f P) e1 m (TInt true b)
                  E o0 x E o1 He Hne) as HN. cbv zeta in HN.
    eexists _, _. split; [exact HN|]. split; [rewrite length_enc; exact Hl|].
    eapply sticky_trans; [exact Hs|apply sticky_push].
  - destruct (IHHt f o0 ltac:(lia)) as (x & o1 & He & Hl & Hs).
    rewrite (lower_not_case P _ _ _ e1 m t E o0 x E o1 He).
    eexists _, _. split; [reflexivity|]. split; [|exact Hs]. rewrite map_length. congruence.
  - destruct (IHHt f o0 ltac:(lia)) as (x & o1 & He & Hl & Hs).
    destruct (tsem_cast_correct P _ (lower_pattern tops f P) (lower_block tops f P) t e1 m t E o0 x E o1 He)
      as (r & HR & HL & _).
    eexists _, _. split; [exact HR|]. split; [|exact Hs]. rewrite HL. now apply szn_tw.
  - (* arithmetic / bitwise on integers *)
    destruct (IHHt1 f o0 ltac:(lia)) as (xw & o1 & Hx & Hlx & Hs1).
    destruct (IHHt2 f o1 ltac:(lia)) as (yw & o2 & Hy & Hly & Hs2).
    rewrite H1 in Hlx. rewrite H2 in Hly. cbn [tw] in Hlx, Hly.
    pose proof (ok_width_pos b H0) as Hb.
    assert (xw <> []) as Hne by (apply nonempty_len; lia).
    assert (Ho : op_arith o || op_cmp o || op_eq o = true) by (now rewrite H).
    destruct (binop_total o (TInt sg b) (e_ty x) (e_ty y) xw yw m o2 Ho Hne ltac:(congruence))
      as (w & o3 & HB & HLw & Hs3).
    rewrite (lower_binop_case P _ _ _ o x y m (TInt sg b) E o0 xw E o1 yw E o2 Ho H3 Hx Hy), HB.
    eexists _, _. split; [reflexivity|]. split.
    + rewrite HLw, H. exact Hlx.
    + eapply sticky_trans; [exact Hs1|]. eapply sticky_trans; eassumption.
  - (* bitwise on Booleans *)
    destruct (IHHt1 f o0 ltac:(lia)) as (xw & o1 & Hx & Hlx & Hs1).
    destruct (IHHt2 f o1 ltac:(lia)) as (yw & o2 & Hy & Hly & Hs2).
    rewrite H0 in Hlx. rewrite H1 in Hly. cbn [tw] in Hlx, Hly.
    assert (xw <> []) as Hne by (apply nonempty_len; lia).
    assert (Ho : op_arith o || op_cmp o || op_eq o = true) by (destruct o; try discriminate H; reflexivity).
    destruct (binop_total o TBool (e_ty x) (e_ty y) xw yw m o2 Ho Hne ltac:(congruence))
      as (w & o3 & HB & HLw & Hs3).
    assert (Hm : o = OMul -> is_num_lit x = false /\ is_num_lit y = false) by (intros ->; discriminate H).
    rewrite (lower_binop_case P _ _ _ o x y m TBool E o0 xw E o1 yw E o2 Ho Hm Hx Hy), HB.
    eexists _, _. split; [reflexivity|]. split.
    + rewrite HLw. destruct o; try discriminate H; exact Hlx.
    + eapply sticky_trans; [exact Hs1|]. eapply sticky_trans; eassumption.
  - (* < > *)
    destruct (IHHt1 f o0 ltac:(lia)) as (xw & o1 & Hx & Hlx & Hs1).
    destruct (IHHt2 f o1 ltac:(lia)) as (yw & o2 & Hy & Hly & Hs2).
    rewrite H1 in Hlx. rewrite H2 in Hly. cbn [tw] in Hlx, Hly.
    pose proof (ok_width_pos b H0) as Hb.
    assert (xw <> []) as Hne by (apply nonempty_len; lia).
    assert (Ho : op_arith o || op_cmp o || op_eq o = true) by (destruct o; try discriminate H; reflexivity).
    destruct (binop_total o TBool (e_ty x) (e_ty y) xw yw m o2 Ho Hne ltac:(congruence))
      as (w & o3 & HB & HLw & Hs3).
    assert (Hm : o = OMul -> is_num_lit x = false /\ is_num_lit y = false) by (intros ->; discriminate H).
    rewrite (lower_binop_case P _ _ _ o x y m TBool E o0 xw E o1 yw E o2 Ho Hm Hx Hy), HB.
    eexists _, _. split; [reflexivity|]. split.
    + rewrite HLw. destruct o; try discriminate H; reflexivity.
    + eapply sticky_trans; [exact Hs1|]. eapply sticky_trans; eassumption.
  - (* == != *)
    destruct (IHHt1 f o0 ltac:(lia)) as (xw & o1 & Hx & Hlx & Hs1).
    destruct (IHHt2 f o1 ltac:(lia)) as (yw & o2 & Hy & Hly & Hs2).
    rewrite H1 in Hlx. rewrite H2 in Hly.
    pose proof (tw_pos t H0) as Hb.
    assert (xw <> []) as Hne by (apply nonempty_len; lia).
    assert (Ho : op_arith o || op_cmp o || op_eq o = true) by (destruct o; try discriminate H; reflexivity).
    destruct (binop_total o TBool (e_ty x) (e_ty y) xw yw m o2 Ho Hne ltac:(congruence))
      as (w & o3 & HB & HLw & Hs3).
    assert (Hm : o = OMul -> is_num_lit x = false /\ is_num_lit y = false) by (intros ->; discriminate H).
    rewrite (lower_binop_case P _ _ _ o x y m TBool E o0 xw E o1 yw E o2 Ho Hm Hx Hy), HB.
    eexists _, _. split; [reflexivity|]. split.
    + rewrite HLw. destruct o; try discriminate H; reflexivity.
    + eapply sticky_trans; [exact Hs1|]. eapply sticky_trans; eassumption.
  - (* << >> *)
    destruct (IHHt1 f o0 ltac:(lia)) as (xw & o1 & Hx & Hlx & Hs1).
    destruct (IHHt2 f o1 ltac:(lia)) as (yw & o2 & Hy & Hly & Hs2).
    rewrite H1 in Hlx. rewrite H2 in Hly. cbn [tw] in Hlx, Hly.
    assert (Hin : In (length xw) [8; 16; 32; 64]%nat) by (rewrite Hlx; now apply ok_width_in).
    assert (exists left : bool, o = if left then OShl else OShr) as [left ->]
      by (destruct o; try discriminate H; [exists true|exists false]; reflexivity).
    rewrite (tsem_shift_expr P _ _ _ left x y m (TInt sg b) E o0 xw E o1 yw E o2 Hx Hy Hly Hin).
    eexists _, _. split; [reflexivity|]. split.
    + rewrite shift_once_length. exact Hlx.
    + eapply sticky_trans; [exact Hs1|]. eapply sticky_trans; [exact Hs2|apply sticky_push].
  - (* && || *)
    destruct (IHHt1 f o0 ltac:(lia)) as (xw & o1 & Hx & Hlx & Hs1).
    destruct (IHHt2 f o1 ltac:(lia)) as (yw & o2 & Hy & Hly & Hs2).
    rewrite H0 in Hlx. rewrite H1 in Hly. cbn [tw] in Hlx, Hly.
    destruct xw as [|bx [|? ?]]; try discriminate Hlx.
    destruct yw as [|by_ [|? ?]]; try discriminate Hly.
    destruct o; try discriminate H.
    + rewrite (tsem_land_short_circuit P _ _ _ x y m TBool E o0 bx E o1 by_ E o2 Hx Hy
                 (same_env_shape_refl E) Hkd).
      rewrite if_same. eexists _, _. split; [reflexivity|]. split; [reflexivity|].
      eapply sticky_trans; [exact Hs1|]. apply sticky_if; [exact Hs2|apply sticky_refl].
    + rewrite (tsem_lor_short_circuit P _ _ _ x y m TBool E o0 bx E o1 by_ E o2 Hx Hy
                 (same_env_shape_refl E) Hkd).
      rewrite if_same. eexists _, _. split; [reflexivity|]. split; [reflexivity|].
      eapply sticky_trans; [exact Hs1|]. apply sticky_if; [apply sticky_refl|exact Hs2].
  - (* if *)
    destruct (IHHt1 f o0 ltac:(lia)) as (cw & o1 & Hc & Hlc & Hs1).
    destruct (IHHt2 f o1 ltac:(lia)) as (aw & oT & Ha & Hla & HsT).
    destruct (IHHt3 f o1 ltac:(lia)) as (bw & oF & Hb & Hlb & HsF).
    rewrite H0 in Hlc. cbn [tw] in Hlc. destruct cw as [|cb [|? ?]]; try discriminate Hlc.
    rewrite (tsem_if_selects P _ _ _ c a b m t E o0 cb E o1 aw E oT bw E oF Hc Ha Hb
               ltac:(congruence) (same_env_shape_refl E) Hkd).
    rewrite if_same. eexists _, _. split; [reflexivity|]. split.
    + destruct cb; congruence.
    + eapply sticky_trans; [exact Hs1|]. now apply sticky_if.
Qed.
Print Assumptions tsem_total_typed.

Lemma total_len P g E e fuel o w E' o' : env_shape E g -> Forall keys_distinct E -> ps_typed g e ->
  (depth e < fuel)%nat -> lower_expr tops fuel P e E o = Ok ((w, E'), o') ->
  length w = tw (e_ty e) /\ sticky o o'.
Proof.
  intros Hsh Hkd Ht Hf He.
  destruct (tsem_total_typed P g E Hsh Hkd e Ht fuel o Hf) as (w1 & o1 & H1 & Hl & Hs).
  rewrite H1 in He. injection He as Hw HE Ho. subst. auto.
Qed.

(* ------------------------------------------------------------------ AGREEMENT *)

Section Agreement.
  Variable P : program.
  Variable g : tenv.
  Variable E : @cenv bool.
  Hypothesis Hkd : Forall keys_distinct E.

  (* the statement, for one expression *)
  Definition agree_at (e : expr) : Prop :=
    forall fuel en, env_rel en E g ->
    match Sem.eval fuel P en e with
    | Sem.Done (v, en') =>
        Sem.scopes en' = Sem.scopes en /\ val_ok (e_ty e) v /\
        forall fuel', (depth e < fuel')%nat ->
          lower_expr tops fuel' P e E None = Ok ((enc_val (e_ty e) v, E), None)
    | Sem.Panicked r m =>
        forall fuel', (depth e < fuel')%nat ->
          exists w, lower_expr tops fuel' P e E None =
                    Ok ((w, E), Some (preason_num (pr r), ploc32 (ploc_of m)))
    | Sem.Stuck _ => False
    | Sem.NoFuel => True
    end.

  Lemma sem_eval_op f en o x y m t : op_arith o || op_cmp o || op_eq o = true ->
    Sem.eval (S f) P en (Ex (EOp o x y) m t) =
    Sem.obind (Sem.eval f P en x) (fun '(vx, en1) =>
    Sem.obind (Sem.eval f P en1 y) (fun '(vy, en2) =>
    Sem.obind (Sem.eval_binop o m t (e_ty x) vx vy (Sem.lenient en2)) (fun '(v, len) =>
    Sem.Done (v, Sem.mkEnv (Sem.scopes en2) len)))).
  Proof. destruct o; try discriminate; reflexivity. Qed.

  Lemma sem_eval_shift f en o x y m t : op_shift o = true ->
    Sem.eval (S f) P en (Ex (EOp o x y) m t) =
    Sem.obind (Sem.eval f P en x) (fun '(vx, en1) =>
    Sem.obind (Sem.eval f P en1 y) (fun '(vy, en2) =>
    Sem.obind (Sem.eval_binop o m (e_ty x) (e_ty x) vx vy (Sem.lenient en2)) (fun '(v, len) =>
    Sem.Done (v, Sem.mkEnv (Sem.scopes en2) len)))).
  Proof. destruct o; try discriminate; reflexivity. Qed.

  (* + - * / % & ^ | < > == != : operands of the type [tx], result of type [t] *)
  Lemma binop_node o x y m t tx :
    op_arith o || op_cmp o || op_eq o = true ->
    (o = OMul -> is_num_lit x = false /\ is_num_lit y = false) ->
    ps_typed g x -> ps_typed g y -> e_ty x = tx -> e_ty y = tx -> scalar_ty tx = true ->
    (forall vx vy len, val_ok tx vx -> val_ok tx vy -> binop_agrees o m t tx vx vy len) ->
    agree_at x -> agree_at y -> agree_at (Ex (EOp o x y) m t).
  Proof.
    intros Ho Hm Htx Hty Ex Ey Hsc Hag IHx IHy fuel en Hrel.
    destruct fuel as [|sf]; [exact I|]. rewrite (sem_eval_op sf en o x y m t Ho).
    pose proof (env_rel_shape _ _ _ Hrel) as Hsh.
    pose proof (tw_pos tx Hsc) as Hpos.
    pose proof (IHx sf en Hrel) as IH1. revert IH1.
    destruct (Sem.eval sf P en x) as [[vx en1]|r1 m1|c1|]; intro IH1; cbn [Sem.obind];
      [|clear IHx|contradiction|exact I].
    - destruct IH1 as (Hs1 & Hok1 & Hlx). rewrite Ex in Hok1.
      assert (Hrel1 : env_rel en1 E g) by (eapply env_rel_scopes; eassumption).
      pose proof (IHy sf en1 Hrel1) as IH2. revert IH2.
      destruct (Sem.eval sf P en1 y) as [[vy en2]|r2 m2|c2|]; intro IH2; cbn [Sem.obind];
        [| |contradiction|exact I].
      + destruct IH2 as (Hs2 & Hok2 & Hly). rewrite Ey in Hok2.
        pose proof (Hag vx vy (Sem.lenient en2) Hok1 Hok2) as HA. unfold binop_agrees in HA.
        rewrite Ex. revert HA.
        destruct (Sem.eval_binop o m t tx vx vy (Sem.lenient en2)) as [[v len]|r3 m3|c3|];
          intro HA; cbn [Sem.obind]; [| |contradiction|contradiction].
        * destruct HA as [Hokv HB]. cbn [Sem.scopes e_ty]. split; [congruence|]. split; [exact Hokv|].
          intros fuel' Hf. destruct fuel' as [|f]; [lia|]. cbn [depth] in Hf. rewrite lower_expr_S.
          rewrite (lower_binop_case P _ _ _ o x y m t E None _ E None _ E None Ho Hm
                     (Hlx f ltac:(lia)) (Hly f ltac:(lia))).
          rewrite Ex, Ey, HB. reflexivity.
        * destruct HA as [-> [w HB]].
          intros fuel' Hf. destruct fuel' as [|f]; [lia|]. cbn [depth] in Hf. rewrite lower_expr_S.
          rewrite (lower_binop_case P _ _ _ o x y m t E None _ E None _ E None Ho Hm
                     (Hlx f ltac:(lia)) (Hly f ltac:(lia))).
          rewrite Ex, Ey, HB. eexists. reflexivity.
      + (* the right operand panics *)
        intros fuel' Hf. destruct fuel' as [|f]; [lia|]. cbn [depth] in Hf. rewrite lower_expr_S.
        destruct (IH2 f ltac:(lia)) as (yw & Hyw).
        destruct (total_len P g E y f None yw E _ Hsh Hkd Hty ltac:(lia) Hyw) as [Hlyw _].
        pose proof (Hlx f ltac:(lia)) as Hxw. rewrite Ex in Hxw.
        destruct (total_len P g E x f None _ E _ Hsh Hkd Htx ltac:(lia) Hxw) as [Hlxw _].
        rewrite Ex in Hlxw. rewrite Ey in Hlyw.
        destruct (binop_total o t (e_ty x) (e_ty y) _ yw m (Some (preason_num (pr r2), ploc32 (ploc_of m2))) Ho
                    (nonempty_len _ ltac:(rewrite Hlxw; exact Hpos)) ltac:(congruence))
          as (w & o3 & HB & _ & Hs3).
        rewrite (lower_binop_case P _ _ _ o x y m t E None _ E None _ E _ Ho Hm Hxw Hyw), HB.
        rewrite (Hs3 _ eq_refl). eexists. reflexivity.
    - (* the left operand panics *)
      intros fuel' Hf. destruct fuel' as [|f]; [lia|]. cbn [depth] in Hf. rewrite lower_expr_S.
      destruct (IH1 f ltac:(lia)) as (xw & Hxw).
      destruct (total_len P g E x f None xw E _ Hsh Hkd Htx ltac:(lia) Hxw) as [Hlxw _].
      destruct (tsem_total_typed P g E Hsh Hkd y Hty f (Some (preason_num (pr r1), ploc32 (ploc_of m1))) ltac:(lia))
        as (yw & o2 & Hyw & Hlyw & Hs2).
      rewrite (Hs2 _ eq_refl) in Hyw.
      rewrite Ex in Hlxw. rewrite Ey in Hlyw.
      destruct (binop_total o t (e_ty x) (e_ty y) xw yw m (Some (preason_num (pr r1), ploc32 (ploc_of m1))) Ho
                  (nonempty_len _ ltac:(rewrite Hlxw; exact Hpos)) ltac:(congruence))
        as (w & o3 & HB & _ & Hs3).
      rewrite (lower_binop_case P _ _ _ o x y m t E None _ E _ _ E _ Ho Hm Hxw Hyw), HB.
      rewrite (Hs3 _ eq_refl). eexists. reflexivity.
  Qed.

  Lemma is_signed_int sg b : is_signed (TInt sg b) = sg.
  Proof. now destruct sg. Qed.

  (* << >> *)
  Lemma shift_node o x y m sg b :
    op_shift o = true -> ok_width b = true ->
    ps_typed g x -> ps_typed g y -> e_ty x = TInt sg b -> e_ty y = TInt false 8 ->
    agree_at x -> agree_at y -> agree_at (Ex (EOp o x y) m (TInt sg b)).
  Proof.
    intros Ho Hb Htx Hty Ex Ey IHx IHy fuel en Hrel.
    destruct fuel as [|sf]; [exact I|]. rewrite (sem_eval_shift sf en o x y m _ Ho).
    assert (exists left : bool, o = if left then OShl else OShr) as [left ->]
      by (destruct o; try discriminate Ho; [exists true|exists false]; reflexivity).
    pose proof (env_rel_shape _ _ _ Hrel) as Hsh.
    pose proof (ok_width_in b Hb) as Hin0.
    pose proof (IHx sf en Hrel) as IH1. revert IH1.
    destruct (Sem.eval sf P en x) as [[vx en1]|r1 m1|c1|]; intro IH1; cbn [Sem.obind];
      [|clear IHx|contradiction|exact I].
    - destruct IH1 as (Hs1 & Hok1 & Hlx). rewrite Ex in Hok1.
      assert (Hrel1 : env_rel en1 E g) by (eapply env_rel_scopes; eassumption).
      pose proof (IHy sf en1 Hrel1) as IH2. revert IH2.
      destruct (Sem.eval sf P en1 y) as [[vy en2]|r2 m2|c2|]; intro IH2; cbn [Sem.obind];
        [| |contradiction|exact I].
      + destruct IH2 as (Hs2 & Hok2 & Hly). rewrite Ey in Hok2.
        destruct vx as [|a| | |]; try contradiction. destruct vy as [|s| | |]; try contradiction.
        cbn [val_ok] in Hok1, Hok2.
        pose proof (shift_agrees left m sg b a s (Sem.lenient en2) Hb Hok1 Hok2) as HA. cbv zeta in HA.
        rewrite Ex. revert HA.
        destruct (Sem.eval_binop (if left then OShl else OShr) m (TInt sg b) (TInt sg b) (Sem.VInt a) (Sem.VInt s)
                    (Sem.lenient en2)) as [[v len]|r3 m3|c3|];
          intro HA; cbn [Sem.obind]; [| |contradiction|contradiction].
        * destruct HA as (Hokv & Hval & Hcond). cbn [Sem.scopes e_ty]. split; [congruence|]. split; [exact Hokv|].
          intros fuel' Hf. destruct fuel' as [|f]; [lia|]. cbn [depth] in Hf. rewrite lower_expr_S.
          pose proof (Hlx f ltac:(lia)) as Hxw. pose proof (Hly f ltac:(lia)) as Hyw.
          rewrite Ex in Hxw. rewrite Ey in Hyw. cbn [enc_val] in Hxw, Hyw.
          change (N.to_nat 8) with 8%nat in Hyw.
          rewrite (tsem_shift_expr P _ _ _ left x y m (TInt sg b) E None _ E None _ E None Hxw Hyw
                     (length_enc 8 s) (eq_ind_r (fun k => In k [8; 16; 32; 64]%nat) Hin0 (length_enc (N.to_nat b) a))).
          rewrite Ex, is_signed_int, Hval, Hcond. reflexivity.
        * destruct HA as (-> & -> & Hcond).
          intros fuel' Hf. destruct fuel' as [|f]; [lia|]. cbn [depth] in Hf. rewrite lower_expr_S.
          pose proof (Hlx f ltac:(lia)) as Hxw. pose proof (Hly f ltac:(lia)) as Hyw.
          rewrite Ex in Hxw. rewrite Ey in Hyw. cbn [enc_val] in Hxw, Hyw.
          change (N.to_nat 8) with 8%nat in Hyw.
          rewrite (tsem_shift_expr P _ _ _ left x y m (TInt sg b) E None _ E None _ E None Hxw Hyw
                     (length_enc 8 s) (eq_ind_r (fun k => In k [8; 16; 32; 64]%nat) Hin0 (length_enc (N.to_nat b) a))).
          rewrite Hcond. eexists. reflexivity.
      + intros fuel' Hf. destruct fuel' as [|f]; [lia|]. cbn [depth] in Hf. rewrite lower_expr_S.
        destruct (IH2 f ltac:(lia)) as (yw & Hyw).
        destruct (total_len P g E y f None yw E _ Hsh Hkd Hty ltac:(lia) Hyw) as [Hlyw _].
        pose proof (Hlx f ltac:(lia)) as Hxw.
        destruct (total_len P g E x f None _ E _ Hsh Hkd Htx ltac:(lia) Hxw) as [Hlxw _].
        assert (Hinx : In (length (enc_val (e_ty x) vx)) [8; 16; 32; 64]%nat) by (rewrite Hlxw, Ex; exact Hin0).
        rewrite Ey in Hlyw. cbn [tw] in Hlyw.
        rewrite (tsem_shift_expr P _ _ _ left x y m (TInt sg b) E None _ E None _ E _ Hxw Hyw Hlyw Hinx).
        eexists. reflexivity.
    - intros fuel' Hf. destruct fuel' as [|f]; [lia|]. cbn [depth] in Hf. rewrite lower_expr_S.
      destruct (IH1 f ltac:(lia)) as (xw & Hxw).
      destruct (total_len P g E x f None xw E _ Hsh Hkd Htx ltac:(lia) Hxw) as [Hlxw _].
      destruct (tsem_total_typed P g E Hsh Hkd y Hty f (Some (preason_num (pr r1), ploc32 (ploc_of m1))) ltac:(lia))
        as (yw & o2 & Hyw & Hlyw & Hs2).
      rewrite (Hs2 _ eq_refl) in Hyw.
      assert (Hinx : In (length xw) [8; 16; 32; 64]%nat) by (rewrite Hlxw, Ex; exact Hin0).
      rewrite Ey in Hlyw. cbn [tw] in Hlyw.
      rewrite (tsem_shift_expr P _ _ _ left x y m (TInt sg b) E None _ E _ _ E _ Hxw Hyw Hlyw Hinx).
      eexists. reflexivity.
  Qed.

  Lemma sem_eval_land f en x y m t :
    Sem.eval (S f) P en (Ex (EOp OLAnd x y) m t) =
    Sem.obind (Sem.eval f P en x) (fun '(vx, en1) =>
      match vx with
      | Sem.VBool false => Sem.Done (Sem.VBool false, en1)
      | Sem.VBool true => Sem.eval f P en1 y
      | _ => Sem.Stuck 44
      end).
  Proof. reflexivity. Qed.

  Lemma sem_eval_lor f en x y m t :
    Sem.eval (S f) P en (Ex (EOp OLOr x y) m t) =
    Sem.obind (Sem.eval f P en x) (fun '(vx, en1) =>
      match vx with
      | Sem.VBool true => Sem.Done (Sem.VBool true, en1)
      | Sem.VBool false => Sem.eval f P en1 y
      | _ => Sem.Stuck 45
      end).
  Proof. reflexivity. Qed.

  Lemma len1 (w : list bool) : length w = 1%nat -> exists b, w = [b].
  Proof. destruct w as [|b [|? ?]]; try discriminate. eauto. Qed.

  (* the bit-level evaluation of `x && y` / `x || y` from the evaluations of the operands *)
  Lemma logic_lower (land : bool) x y m f o0 bx o1 by_ o2 :
    lower_expr tops f P x E o0 = Ok (([bx], E), o1) ->
    lower_expr tops f P y E o1 = Ok (([by_], E), o2) ->
    lower_expr tops (S f) P (Ex (EOp (if land then OLAnd else OLOr) x y) m TBool) E o0 =
    Ok (([if land then bx && by_ else bx || by_], E),
        if land then (if bx then o2 else o1) else (if bx then o1 else o2)).
  Proof.
    intros Hx Hy. rewrite lower_expr_S. destruct land.
    - rewrite (tsem_land_short_circuit P _ _ _ x y m TBool E o0 bx E o1 by_ E o2 Hx Hy
                 (same_env_shape_refl E) Hkd). now rewrite if_same.
    - rewrite (tsem_lor_short_circuit P _ _ _ x y m TBool E o0 bx E o1 by_ E o2 Hx Hy
                 (same_env_shape_refl E) Hkd). now rewrite if_same.
  Qed.

  Lemma logic_node o x y m :
    op_logic o = true -> ps_typed g x -> ps_typed g y -> e_ty x = TBool -> e_ty y = TBool ->
    agree_at x -> agree_at y -> agree_at (Ex (EOp o x y) m TBool).
  Proof.
    intros Ho Htx Hty Etx Ety IHx IHy fuel en Hrel.
    destruct fuel as [|sf]; [exact I|].
    assert (exists land : bool, o = if land then OLAnd else OLOr) as [land ->]
      by (destruct o; try discriminate Ho; [exists true|exists false]; reflexivity).
    pose proof (env_rel_shape _ _ _ Hrel) as Hsh.
    assert (Sem.eval (S sf) P en (Ex (EOp (if land then OLAnd else OLOr) x y) m TBool) =
            Sem.obind (Sem.eval sf P en x) (fun '(vx, en1) =>
              match vx with
              | Sem.VBool bx =>
                  if Bool.eqb bx land then Sem.eval sf P en1 y else Sem.Done (Sem.VBool bx, en1)
              | _ => Sem.Stuck (if land then 44 else 45)
              end)) as ->.
    { destruct land; [rewrite sem_eval_land|rewrite sem_eval_lor];
        destruct (Sem.eval sf P en x) as [[[[]| | | |] ?]| | |]; reflexivity. }
    pose proof (IHx sf en Hrel) as IH1. revert IH1.
    destruct (Sem.eval sf P en x) as [[vx en1]|r1 m1|c1|]; intro IH1; cbn [Sem.obind];
      [|clear IHx|contradiction|exact I].
    - destruct IH1 as (Hs1 & Hok1 & Hlx). rewrite Etx in Hok1, Hlx.
      destruct vx as [bx| | | |]; try contradiction. cbn [enc_val] in Hlx.
      assert (Hrel1 : env_rel en1 E g) by (eapply env_rel_scopes; eassumption).
      destruct (Bool.eqb bx land) eqn:Hbl.
      + (* the right operand is evaluated *)
        apply Bool.eqb_prop in Hbl. subst bx.
        pose proof (IHy sf en1 Hrel1) as IH2. revert IH2.
        destruct (Sem.eval sf P en1 y) as [[vy en2]|r2 m2|c2|]; intro IH2; [| |contradiction|exact I].
        * destruct IH2 as (Hs2 & Hok2 & Hly). rewrite Ety in Hok2, Hly.
          destruct vy as [by_| | | |]; try contradiction. cbn [enc_val] in Hly.
          cbn [e_ty]. split; [congruence|]. split; [exact I|].
          intros fuel' Hf. destruct fuel' as [|f]; [lia|]. cbn [depth] in Hf.
          rewrite (logic_lower land x y m f None land None by_ None (Hlx f ltac:(lia)) (Hly f ltac:(lia))).
          cbn [enc_val]. destruct land; reflexivity.
        * intros fuel' Hf. destruct fuel' as [|f]; [lia|]. cbn [depth] in Hf.
          destruct (IH2 f ltac:(lia)) as (yw & Hyw).
          destruct (total_len P g E y f None yw E _ Hsh Hkd Hty ltac:(lia) Hyw) as [Hlyw _].
          rewrite Ety in Hlyw. destruct (len1 yw Hlyw) as [by_ ->].
          rewrite (logic_lower land x y m f None land None by_ _ (Hlx f ltac:(lia)) Hyw).
          destruct land; eexists; reflexivity.
      + (* short circuit *)
        cbn [e_ty]. split; [exact Hs1|]. split; [exact I|].
        intros fuel' Hf. destruct fuel' as [|f]; [lia|]. cbn [depth] in Hf.
        destruct (tsem_total_typed P g E Hsh Hkd y Hty f None ltac:(lia)) as (yw & o2 & Hyw & Hlyw & _).
        rewrite Ety in Hlyw. destruct (len1 yw Hlyw) as [by_ ->].
        rewrite (logic_lower land x y m f None bx None by_ o2 (Hlx f ltac:(lia)) Hyw).
        cbn [enc_val]. destruct land, bx; try discriminate Hbl; reflexivity.
    - intros fuel' Hf. destruct fuel' as [|f]; [lia|]. cbn [depth] in Hf.
      destruct (IH1 f ltac:(lia)) as (xw & Hxw).
      destruct (total_len P g E x f None xw E _ Hsh Hkd Htx ltac:(lia) Hxw) as [Hlxw _].
      rewrite Etx in Hlxw. destruct (len1 xw Hlxw) as [bx ->].
      destruct (tsem_total_typed P g E Hsh Hkd y Hty f (Some (preason_num (pr r1), ploc32 (ploc_of m1))) ltac:(lia))
        as (yw & o2 & Hyw & Hlyw & Hs2).
      rewrite (Hs2 _ eq_refl) in Hyw. rewrite Ety in Hlyw. destruct (len1 yw Hlyw) as [by_ ->].
      rewrite (logic_lower land x y m f None bx _ by_ _ Hxw Hyw).
      eexists. rewrite !if_same. reflexivity.
  Qed.

  (* if / else *)
  Lemma sem_eval_if f en c a b m t :
    Sem.eval (S f) P en (Ex (EIf c a b) m t) =
    Sem.obind (Sem.eval f P en c) (fun '(vc, en1) =>
      match vc with
      | Sem.VBool true => Sem.eval f P en1 a
      | Sem.VBool false => Sem.eval f P en1 b
      | _ => Sem.Stuck 49
      end).
  Proof. reflexivity. Qed.

  Lemma if_lower c a b m t f o0 cb o1 aw oT bw oF :
    lower_expr tops f P c E o0 = Ok (([cb], E), o1) ->
    lower_expr tops f P a E o1 = Ok ((aw, E), oT) ->
    lower_expr tops f P b E o1 = Ok ((bw, E), oF) ->
    length aw = length bw ->
    lower_expr tops (S f) P (Ex (EIf c a b) m t) E o0 =
    Ok ((if cb then aw else bw, E), if cb then oT else oF).
  Proof.
    intros Hc Ha Hb Hl. rewrite lower_expr_S.
    rewrite (tsem_if_selects P _ _ _ c a b m t E o0 cb E o1 aw E oT bw E oF Hc Ha Hb Hl
               (same_env_shape_refl E) Hkd). now rewrite if_same.
  Qed.

  Lemma if_node c a b m t :
    scalar_ty t = true -> ps_typed g c -> ps_typed g a -> ps_typed g b ->
    e_ty c = TBool -> e_ty a = t -> e_ty b = t ->
    agree_at c -> agree_at a -> agree_at b -> agree_at (Ex (EIf c a b) m t).
  Proof.
    intros Hsc Htc Hta Htb Etc Eta Etb IHc IHa IHb fuel en Hrel.
    destruct fuel as [|sf]; [exact I|]. rewrite sem_eval_if.
    pose proof (env_rel_shape _ _ _ Hrel) as Hsh.
    pose proof (IHc sf en Hrel) as IH1. revert IH1.
    destruct (Sem.eval sf P en c) as [[vc en1]|r1 m1|c1|]; intro IH1; cbn [Sem.obind];
      [|clear IHc|contradiction|exact I].
    - destruct IH1 as (Hs1 & Hok1 & Hlc). rewrite Etc in Hok1, Hlc.
      destruct vc as [cb| | | |]; try contradiction. cbn [enc_val] in Hlc.
      assert (Hrel1 : env_rel en1 E g) by (eapply env_rel_scopes; eassumption).
      destruct cb.
      + pose proof (IHa sf en1 Hrel1) as IH2. revert IH2.
        destruct (Sem.eval sf P en1 a) as [[va en2]|r2 m2|c2|]; intro IH2; [| |contradiction|exact I].
        * destruct IH2 as (Hs2 & Hok2 & Hla). rewrite Eta in Hok2, Hla.
          cbn [e_ty]. split; [congruence|]. split; [exact Hok2|].
          intros fuel' Hf. destruct fuel' as [|f]; [lia|]. cbn [depth] in Hf.
          destruct (tsem_total_typed P g E Hsh Hkd b Htb f None ltac:(lia)) as (bw & oF & Hbw & Hlbw & _).
          rewrite (if_lower c a b m t f None true None _ None bw oF (Hlc f ltac:(lia)) (Hla f ltac:(lia)) Hbw);
            [reflexivity|].
          rewrite Hlbw, Etb. now apply length_enc_val.
        * intros fuel' Hf. destruct fuel' as [|f]; [lia|]. cbn [depth] in Hf.
          destruct (IH2 f ltac:(lia)) as (aw & Haw).
          destruct (total_len P g E a f None aw E _ Hsh Hkd Hta ltac:(lia) Haw) as [Hlaw _].
          destruct (tsem_total_typed P g E Hsh Hkd b Htb f None ltac:(lia)) as (bw & oF & Hbw & Hlbw & _).
          rewrite (if_lower c a b m t f None true None aw _ bw oF (Hlc f ltac:(lia)) Haw Hbw ltac:(congruence)).
          eexists. reflexivity.
      + pose proof (IHb sf en1 Hrel1) as IH2. revert IH2.
        destruct (Sem.eval sf P en1 b) as [[vb en2]|r2 m2|c2|]; intro IH2; [| |contradiction|exact I].
        * destruct IH2 as (Hs2 & Hok2 & Hlb). rewrite Etb in Hok2, Hlb.
          cbn [e_ty]. split; [congruence|]. split; [exact Hok2|].
          intros fuel' Hf. destruct fuel' as [|f]; [lia|]. cbn [depth] in Hf.
          destruct (tsem_total_typed P g E Hsh Hkd a Hta f None ltac:(lia)) as (aw & oT & Haw & Hlaw & _).
          rewrite (if_lower c a b m t f None false None aw oT _ None (Hlc f ltac:(lia)) Haw (Hlb f ltac:(lia)));
            [reflexivity|].
          rewrite Hlaw, Eta. symmetry. now apply length_enc_val.
        * intros fuel' Hf. destruct fuel' as [|f]; [lia|]. cbn [depth] in Hf.
          destruct (IH2 f ltac:(lia)) as (bw & Hbw).
          destruct (total_len P g E b f None bw E _ Hsh Hkd Htb ltac:(lia) Hbw) as [Hlbw _].
          destruct (tsem_total_typed P g E Hsh Hkd a Hta f None ltac:(lia)) as (aw & oT & Haw & Hlaw & _).
          rewrite (if_lower c a b m t f None false None aw oT bw _ (Hlc f ltac:(lia)) Haw Hbw ltac:(congruence)).
          eexists. reflexivity.
    - intros fuel' Hf. destruct fuel' as [|f]; [lia|]. cbn [depth] in Hf.
      destruct (IH1 f ltac:(lia)) as (cw & Hcw).
      destruct (total_len P g E c f None cw E _ Hsh Hkd Htc ltac:(lia) Hcw) as [Hlcw _].
      rewrite Etc in Hlcw. destruct (len1 cw Hlcw) as [cb ->].
      destruct (tsem_total_typed P g E Hsh Hkd a Hta f (Some (preason_num (pr r1), ploc32 (ploc_of m1))) ltac:(lia))
        as (aw & oT & Haw & Hlaw & HsT).
      destruct (tsem_total_typed P g E Hsh Hkd b Htb f (Some (preason_num (pr r1), ploc32 (ploc_of m1))) ltac:(lia))
        as (bw & oF & Hbw & Hlbw & HsF).
      rewrite (HsT _ eq_refl) in Haw. rewrite (HsF _ eq_refl) in Hbw.
      rewrite (if_lower c a b m t f None cb _ aw _ bw _ Hcw Haw Hbw ltac:(congruence)).
      eexists. rewrite if_same. reflexivity.
  Qed.

  (* unary minus, `!`, casts *)
  Lemma sem_eval_neg f en e1 m t :
    Sem.eval (S f) P en (Ex (ENeg e1) m t) =
    Sem.obind (Sem.eval f P en e1) (fun '(v, en1) =>
      match v, Sem.int_ty t with
      | Sem.VInt z, Some (sg, bits) => Sem.obind (Sem.checked sg bits m (- z)) (fun r => Sem.Done (r, en1))
      | _, _ => Sem.Stuck 42
      end).
  Proof. reflexivity. Qed.

  Lemma sem_eval_not f en e1 m t :
    Sem.eval (S f) P en (Ex (ENot e1) m t) =
    Sem.obind (Sem.eval f P en e1) (fun '(v, en1) =>
      match v, t with
      | Sem.VBool b, _ => Sem.Done (Sem.VBool (negb b), en1)
      | Sem.VInt z, TInt sg bits => Sem.Done (Sem.VInt (Sem.wrap sg bits (Z.lnot z)), en1)
      | _, _ => Sem.Stuck 43
      end).
  Proof. reflexivity. Qed.

  Lemma sem_eval_cast f en to e1 m t :
    Sem.eval (S f) P en (Ex (ECast to e1) m t) =
    Sem.obind (Sem.eval f P en e1) (fun '(v, en1) =>
      Sem.obind (Sem.eval_cast to (e_ty e1) v) (fun r => Sem.Done (r, en1))).
  Proof. reflexivity. Qed.

  Lemma neg_node e1 m b : ok_width b = true -> ps_typed g e1 -> e_ty e1 = TInt true b ->
    agree_at e1 -> agree_at (Ex (ENeg e1) m (TInt true b)).
  Proof.
    intros Hb Ht1 Et1 IH fuel en Hrel.
    destruct fuel as [|sf]; [exact I|]. rewrite sem_eval_neg.
    pose proof (env_rel_shape _ _ _ Hrel) as Hsh. pose proof (ok_width_pos b Hb) as Hb2.
    assert (Hn1 : (1 <= N.to_nat b)%nat) by lia.
    pose proof (IH sf en Hrel) as IH1. revert IH1.
    destruct (Sem.eval sf P en e1) as [[v en1]|r1 m1|c1|]; intro IH1; cbn [Sem.obind];
      [|clear IH|contradiction|exact I].
    - destruct IH1 as (Hs1 & Hok1 & Hl). rewrite Et1 in Hok1, Hl.
      destruct v as [|z| | |]; try contradiction. cbn [val_ok enc_val Sem.int_ty] in *.
      assert (HN : forall f, (depth e1 < f)%nat ->
        lower_expr tops (S f) P (Ex (ENeg e1) m (TInt true b)) E None =
        Ok ((enc (N.to_nat b) (- z), E),
            push_spec None (negb (Sem.in_range true b (- z))) Overflow (ploc_of m))).
      { intros f Hf. rewrite lower_expr_S.
        pose proof (lower_neg_correct P _ (lower_pattern tops f P) (lower_block tops f P) e1 m (TInt true b)
                      E None _ E None (Hl f Hf) (enc_nonempty _ z Hn1)) as HN. cbv zeta in HN.
        rewrite length_enc, N2Nat.id, (sval_enc_ok b z) in HN by (assumption || lia). exact HN. }
      unfold Sem.checked. destruct (Sem.in_range true b (- z)) eqn:Hr; cbn [Sem.obind].
      + cbn [e_ty val_ok enc_val]. split; [exact Hs1|]. split; [exact Hr|].
        intros fuel' Hf. destruct fuel' as [|f]; [lia|]. cbn [depth] in Hf. rewrite HN by lia. reflexivity.
      + intros fuel' Hf. destruct fuel' as [|f]; [lia|]. cbn [depth] in Hf. rewrite HN by lia.
        eexists. reflexivity.
    - intros fuel' Hf. destruct fuel' as [|f]; [lia|]. cbn [depth] in Hf. rewrite lower_expr_S.
      destruct (IH1 f ltac:(lia)) as (xw & Hxw).
      destruct (total_len P g E e1 f None xw E _ Hsh Hkd Ht1 ltac:(lia) Hxw) as [Hlxw _].
      rewrite Et1 in Hlxw. cbn [tw] in Hlxw.
      pose proof (lower_neg_correct P _ (lower_pattern tops f P) (lower_block tops f P) e1 m (TInt true b)
                    E None xw E _ Hxw (nonempty_len xw ltac:(lia))) as HN. cbv zeta in HN.
      rewrite HN. eexists. reflexivity.
  Qed.

  Lemma not_node e1 m t : scalar_ty t = true -> ps_typed g e1 -> e_ty e1 = t ->
    agree_at e1 -> agree_at (Ex (ENot e1) m t).
  Proof.
    intros Hsc Ht1 Et1 IH fuel en Hrel.
    destruct fuel as [|sf]; [exact I|]. rewrite sem_eval_not.
    pose proof (IH sf en Hrel) as IH1. revert IH1.
    destruct (Sem.eval sf P en e1) as [[v en1]|r1 m1|c1|]; intro IH1; cbn [Sem.obind];
      [|clear IH|contradiction|exact I].
    - destruct IH1 as (Hs1 & Hok1 & Hl). rewrite Et1 in Hok1, Hl.
      destruct t as [|sg b| | | |]; try discriminate Hsc; destruct v as [p|z| | |]; try contradiction;
        cbn [e_ty val_ok enc_val] in *.
      + split; [exact Hs1|]. split; [exact I|].
        intros fuel' Hf. destruct fuel' as [|f]; [lia|]. cbn [depth] in Hf. rewrite lower_expr_S.
        rewrite (lower_not_case P _ _ _ e1 m TBool E None _ E None (Hl f ltac:(lia))). reflexivity.
      + pose proof (ok_width_pos b Hsc) as Hb2.
        split; [exact Hs1|]. split; [apply wrap_in_range; lia|].
        intros fuel' Hf. destruct fuel' as [|f]; [lia|]. cbn [depth] in Hf. rewrite lower_expr_S.
        rewrite (lower_not_case P _ _ _ e1 m (TInt sg b) E None _ E None (Hl f ltac:(lia))).
        now rewrite map_negb_enc, enc_wrap.
    - intros fuel' Hf. destruct fuel' as [|f]; [lia|]. cbn [depth] in Hf. rewrite lower_expr_S.
      destruct (IH1 f ltac:(lia)) as (xw & Hxw).
      rewrite (lower_not_case P _ _ _ e1 m t E None xw E _ Hxw). eexists. reflexivity.
  Qed.

  Lemma cast_node e1 m t : scalar_ty t = true -> ps_typed g e1 ->
    agree_at e1 -> agree_at (Ex (ECast t e1) m t).
  Proof.
    intros Hsc Ht1 IH fuel en Hrel.
    destruct fuel as [|sf]; [exact I|]. rewrite sem_eval_cast.
    pose proof (ps_typed_scalar g e1 Ht1) as Hsc1.
    pose proof (IH sf en Hrel) as IH1. revert IH1.
    destruct (Sem.eval sf P en e1) as [[v en1]|r1 m1|c1|]; intro IH1; cbn [Sem.obind];
      [|clear IH|contradiction|exact I].
    - destruct IH1 as (Hs1 & Hok1 & Hl).
      assert (HC : forall f, (depth e1 < f)%nat ->
        match Sem.eval_cast t (e_ty e1) v with
        | Sem.Done v' => val_ok t v' /\
            lower_expr tops (S f) P (Ex (ECast t e1) m t) E None = Ok ((enc_val t v', E), None)
        | _ => False
        end).
      { intros f Hf. rewrite lower_expr_S.
        exact (cast_agrees P _ (lower_pattern tops f P) (lower_block tops f P) t e1 m E None v E None
                 Hsc Hsc1 Hok1 (Hl f Hf)). }
      pose proof (HC (S (depth e1)) ltac:(lia)) as HC0. revert HC HC0.
      destruct (Sem.eval_cast t (e_ty e1) v) as [v'| | |]; intros HC HC0; try contradiction; cbn [Sem.obind].
      cbn [e_ty]. split; [exact Hs1|]. split; [exact (proj1 HC0)|].
      intros fuel' Hf. destruct fuel' as [|f]; [lia|]. cbn [depth] in Hf. exact (proj2 (HC f ltac:(lia))).
    - intros fuel' Hf. destruct fuel' as [|f]; [lia|]. cbn [depth] in Hf. rewrite lower_expr_S.
      destruct (IH1 f ltac:(lia)) as (xw & Hxw).
      destruct (tsem_cast_correct P _ (lower_pattern tops f P) (lower_block tops f P) t e1 m t E None xw E _ Hxw)
        as (r & HR & _).
      rewrite HR. eexists. reflexivity.
  Qed.

  (* ---------------------------------------------------------------- the theorem, on the judgement *)

  Theorem tsem_sem_typed e : ps_typed g e -> agree_at e.
  Proof.
    induction 1.
    - intros fuel en Hrel. destruct fuel as [|sf]; [exact I|]. cbn [Sem.eval e_ty].
      split; [reflexivity|]. split; [exact I|]. intros [|f] Hf; [lia|]. reflexivity.
    - intros fuel en Hrel. destruct fuel as [|sf]; [exact I|]. cbn [Sem.eval e_ty].
      split; [reflexivity|]. split; [exact I|]. intros [|f] Hf; [lia|]. reflexivity.
    - intros fuel en Hrel. destruct fuel as [|sf]; [exact I|]. cbn [Sem.eval e_ty].
      split; [reflexivity|]. split; [cbn [val_ok]; now rewrite <- lit_fits_in_range|].
      intros [|f] Hf; [lia|]. rewrite lower_expr_S. cbn [lower_expr_body].
      rewrite tsem_unsigned_as_wires. reflexivity.
    - intros fuel en Hrel. destruct fuel as [|sf]; [exact I|]. cbn [Sem.eval e_ty].
      split; [reflexivity|]. split; [cbn [val_ok]; now rewrite <- lit_fits_in_range|].
      intros [|f] Hf; [lia|]. rewrite lower_expr_S. cbn [lower_expr_body].
      rewrite tsem_signed_as_wires. reflexivity.
    - intros fuel en Hrel. destruct fuel as [|sf]; [exact I|]. cbn [Sem.eval e_ty].
      destruct (Hrel x t mu H H0) as (v & Hv & Hok & He). rewrite Hv.
      split; [reflexivity|]. split; [exact Hok|].
      intros [|f] Hf; [lia|]. rewrite lower_expr_S. cbn [lower_expr_body]. rewrite He. reflexivity.
    - now apply neg_node.
    - now apply not_node.
    - now apply cast_node.
    - apply (binop_node o x y m (TInt sg b) (TInt sg b)); try assumption.
      + now rewrite H.
      + intros vx vy len Hx Hy. destruct vx as [|a| | |], vy as [|c| | |]; try contradiction.
        cbn [val_ok] in Hx, Hy. destruct sg.
        * apply binop_signed_agrees; auto.
        * apply binop_unsigned_agrees; auto.
    - apply (binop_node o x y m TBool TBool); try assumption; try reflexivity.
      + destruct o; try discriminate H; reflexivity.
      + intros ->. discriminate H.
      + intros vx vy len Hx Hy. destruct vx as [p| | | |], vy as [q| | | |]; try contradiction.
        apply binop_bool_agrees. now rewrite H.
    - apply (binop_node o x y m TBool (TInt sg b)); try assumption.
      + destruct o; try discriminate H; reflexivity.
      + intros ->. discriminate H.
      + intros vx vy len Hx Hy. destruct vx as [|a| | |], vy as [|c| | |]; try contradiction.
        cbn [val_ok] in Hx, Hy.
        assert (op_cmp o || op_eq o = true) as Hoo by (now rewrite H).
        destruct sg.
        * apply binop_signed_agrees; auto.
        * apply binop_unsigned_agrees; auto.
    - apply (binop_node o x y m TBool t); try assumption.
      + destruct o; try discriminate H; reflexivity.
      + intros ->. discriminate H.
      + intros vx vy len Hx Hy.
        assert (op_cmp o || op_eq o = true) as Hoo by (rewrite H; apply orb_true_r).
        destruct t as [|sg b| | | |]; try discriminate H0.
        * destruct vx as [p| | | |], vy as [q| | | |]; try contradiction.
          apply binop_bool_agrees. rewrite H. apply orb_true_r.
        * destruct vx as [|a| | |], vy as [|c| | |]; try contradiction.
          cbn [val_ok scalar_ty] in *. destruct sg.
          -- apply binop_signed_agrees; auto.
          -- apply binop_unsigned_agrees; auto.
    - now apply shift_node.
    - now apply logic_node.
    - now apply if_node.
  Qed.
End Agreement.
Print Assumptions tsem_sem_typed.

(* ------------------------------------------------------------------ the theorems, on the checks *)

(* TOTALITY and STICKINESS: a well-typed pure scalar expression evaluates at the bit level,
   with any fuel above its depth, from any observation and whatever the values of the
   variables are, to a vector of the width of its type, in the same environment; an
   observation [Some x] is returned unchanged. *)
Theorem tsem_total P g E e fw fuel o :
  pure_scalar e = true -> wt_expr fw P g e = true -> exact_tys g e = true ->
  env_shape E g -> Forall keys_distinct E -> (depth e < fuel)%nat ->
  exists w o', lower_expr tops fuel P e E o = Ok ((w, E), o') /\
               length w = tw (e_ty e) /\ sticky o o'.
Proof.
  intros Hp Hw Hx Hsh Hkd Hf.
  exact (tsem_total_typed P g E Hsh Hkd e (ps_typed_of_checks P fw g e Hp Hx Hw) fuel o Hf).
Qed.
Print Assumptions tsem_total.

Corollary tsem_sticky P g E e fw fuel x :
  pure_scalar e = true -> wt_expr fw P g e = true -> exact_tys g e = true ->
  env_shape E g -> Forall keys_distinct E -> (depth e < fuel)%nat ->
  exists w, lower_expr tops fuel P e E (Some x) = Ok ((w, E), Some x) /\ length w = tw (e_ty e).
Proof.
  intros Hp Hw Hx Hsh Hkd Hf.
  destruct (tsem_total P g E e fw fuel (Some x) Hp Hw Hx Hsh Hkd Hf) as (w & o' & He & Hl & Hs).
  rewrite (Hs x eq_refl) in He. eauto.
Qed.
Print Assumptions tsem_sticky.

(* AGREEMENT: if the source semantics returns a value, the bit-level semantics returns its
   encoding and no panic; if it panics, the bit-level semantics records that panic (same
   reason, same location); it is never stuck; the source environment is unchanged up to the
   [lenient] flag.  The bit-level result is the same for every fuel above the depth. *)
Theorem tsem_sem_expr fuel P e en E g fw :
  pure_scalar e = true -> wt_expr fw P g e = true -> exact_tys g e = true ->
  env_rel en E g -> Forall keys_distinct E ->
  match Sem.eval fuel P en e with
  | Sem.Done (v, en') =>
      Sem.scopes en' = Sem.scopes en /\ val_ok (e_ty e) v /\
      forall fuel', (depth e < fuel')%nat ->
        lower_expr tops fuel' P e E None = Ok ((enc_val (e_ty e) v, E), None)
  | Sem.Panicked r m =>
      forall fuel', (depth e < fuel')%nat ->
        exists w, lower_expr tops fuel' P e E None =
                  Ok ((w, E), Some (preason_num (pr r), ploc32 (ploc_of m)))
  | Sem.Stuck _ => False
  | Sem.NoFuel => True
  end.
Proof.
  intros Hp Hw Hx Hrel Hkd.
  exact (tsem_sem_typed P g E Hkd e (ps_typed_of_checks P fw g e Hp Hx Hw) fuel en Hrel).
Qed.
Print Assumptions tsem_sem_expr.

(* the same with an existential fuel *)
Corollary tsem_sem_expr_ex fuel P e en E g fw :
  pure_scalar e = true -> wt_expr fw P g e = true -> exact_tys g e = true ->
  env_rel en E g -> Forall keys_distinct E ->
  match Sem.eval fuel P en e with
  | Sem.Done (v, en') =>
      Sem.scopes en' = Sem.scopes en /\
      exists fuel', lower_expr tops fuel' P e E None = Ok ((enc_val (e_ty e) v, E), None)
  | Sem.Panicked r m =>
      exists fuel' w, lower_expr tops fuel' P e E None =
                      Ok ((w, E), Some (preason_num (pr r), ploc32 (ploc_of m)))
  | Sem.Stuck _ | Sem.NoFuel => True
  end.
Proof.
  intros Hp Hw Hx Hrel Hkd.
  pose proof (tsem_sem_expr fuel P e en E g fw Hp Hw Hx Hrel Hkd) as H. revert H.
  destruct (Sem.eval fuel P en e) as [[v en']|r m|c|]; intro H; try exact I.
  - destruct H as (Hs & _ & Hl). split; [exact Hs|]. exists (S (depth e)). apply Hl. lia.
  - exists (S (depth e)). apply H. lia.
Qed.
Print Assumptions tsem_sem_expr_ex.

(* ------------------------------------------------------------------ a structural sufficient
   condition for [env_rel]: the three environments have the same scopes with the same names
   in the same order, and every scalar variable's bits are the encoding of its value, which
   is a value of its type *)

Inductive Forall3 {A B C} (R : A -> B -> C -> Prop) : list A -> list B -> list C -> Prop :=
| F3_nil : Forall3 R [] [] []
| F3_cons a b c la lb lc : R a b c -> Forall3 R la lb lc -> Forall3 R (a :: la) (b :: lb) (c :: lc).

Definition bind_rel (b : N * Sem.value) (c : N * list bool) (tb : N * (ty * bool)) : Prop :=
  fst b = fst tb /\ fst c = fst tb /\
  (scalar_ty (fst (snd tb)) = true ->
   val_ok (fst (snd tb)) (snd b) /\ snd c = enc_val (fst (snd tb)) (snd b)).

Definition env_rel_struct (en : Sem.env) (E : @cenv bool) (g : tenv) : Prop :=
  Forall3 (Forall3 bind_rel) (Sem.scopes en) E g.

Lemma scope_rel_lookup s cs gs x : Forall3 bind_rel s cs gs ->
  match assocN x gs with
  | Some (t, mu) =>
      exists v w, assocN x s = Some v /\ assocN x cs = Some w /\
                  (scalar_ty t = true -> val_ok t v /\ w = enc_val t v)
  | None => assocN x s = None /\ assocN x cs = None
  end.
Proof.
  induction 1 as [|[k v] [k2 w] [k3 [t mu]] s cs gs (H1 & H2 & H3) _ IH]; cbn [assocN]; [auto|].
  cbn [fst snd] in H1, H2, H3. subst k k2.
  destruct (N.eqb_spec x k3); [|exact IH]. exists v, w. auto.
Qed.

Theorem env_rel_of_struct en E g : env_rel_struct en E g -> env_rel en E g.
Proof.
  unfold env_rel_struct, env_rel, Sem.lookup_var.
  induction 1 as [|s cs gs ss E g Hs _ IH]; intros x t mu Hl Hsc; cbn [tlookup] in Hl; [discriminate|].
  cbn [Sem.lookup_scopes env_get].
  pose proof (scope_rel_lookup s cs gs x Hs) as Hx. revert Hx Hl.
  destruct (assocN x gs) as [[t' mu']|]; intros Hx Hl.
  - injection Hl as -> ->. destruct Hx as (v & w & -> & -> & H3). destruct (H3 Hsc) as [Hok ->].
    exists v. auto.
  - destruct Hx as [-> ->]. now apply (IH x t mu).
Qed.
Print Assumptions env_rel_of_struct.

(* ------------------------------------------------------------------ fuel: on the fragment the
   bit-level evaluation does not depend on the fuel, once it exceeds the depth (more fuel,
   same result) -- no typing hypothesis *)

Lemma mbind_congr {A B} (m1 m2 : M (Cs:=pobs) A) (k1 k2 : A -> M (Cs:=pobs) B) o :
  m1 o = m2 o -> (forall a o', k1 a o' = k2 a o') -> mbind m1 k1 o = mbind m2 k2 o.
Proof. intros Hm Hk. unfold mbind. rewrite Hm. destruct (m2 o) as [[a o']| |]; auto. Qed.

Theorem lower_fuel_indep P : forall n e, (depth e < n)%nat -> pure_scalar e = true ->
  forall f1 f2 E o, (depth e < f1)%nat -> (depth e < f2)%nat ->
  lower_expr tops f1 P e E o = lower_expr tops f2 P e E o.
Proof.
  induction n as [|n IH]; intros [ei m t] Hd Hp f1 f2 E o H1 H2; [lia|].
  destruct f1 as [|a]; [lia|]. destruct f2 as [|b]; [lia|]. rewrite !lower_expr_S.
  cbn [pure_scalar] in Hp. apply andb_prop in Hp. destruct Hp as [_ Hp].
  destruct ei; try discriminate Hp; cbn [depth] in Hd, H1, H2; try reflexivity; bsplit.
  Ltac sub IH := apply IH; [lia|assumption|lia|lia].
  Ltac chain IH :=
    repeat first
      [ reflexivity
      | apply mbind_congr; [first [reflexivity|sub IH]|first [intros [? ?] ?|intros ? ?]; cbv beta iota] ].
  - cbn [lower_expr_body]. chain IH.
  - cbn [lower_expr_body]. chain IH.
  - destruct o0; bsplit; cbn [lower_expr_body];
      try rewrite mul_rewrite_none by (apply negb_true_iff; assumption);
      chain IH.
  - cbn [lower_expr_body]. chain IH.
  - cbn [lower_expr_body]. chain IH.
Qed.
Print Assumptions lower_fuel_indep.

Corollary lower_fuel_mono P e f f' E o : pure_scalar e = true -> (depth e < f)%nat -> (f <= f')%nat ->
  lower_expr tops f' P e E o = lower_expr tops f P e E o.
Proof. intros Hp Hf Hle. apply (lower_fuel_indep P (S (depth e)) e); try assumption; lia. Qed.

(* ------------------------------------------------------------------ sanity: the hypotheses are
   satisfiable (a conditional with a checked addition that overflows in one branch) *)

Module Sanity.
  Definition P0 : program := mkProgram [] [] [] [] 0.
  Definition mm (k : N) : meta := mkMeta k 1 k 9.
  Definition u8 := TInt false 8.
  Definition vx := Ex (EId 0) (mm 1) u8.
  Definition vy := Ex (EId 1) (mm 2) u8.
  (* if x < y { x + y } else { x - y } *)
  Definition e0 : expr :=
    Ex (EIf (Ex (EOp OLt vx vy) (mm 3) TBool)
            (Ex (EOp OAdd vx vy) (mm 4) u8)
            (Ex (EOp OSub vx vy) (mm 5) u8)) (mm 6) u8.
  Definition g0 : tenv := [[(0, (u8, false)); (1, (u8, false))]].
  Definition en0 (a c : Z) : Sem.env := Sem.mkEnv [[(0, Sem.VInt a); (1, Sem.VInt c)]] false.
  Definition E0 (a c : Z) : @cenv bool := [[(0, enc 8 a); (1, enc 8 c)]].

  Lemma hyps a c : Sem.in_range false 8 a = true -> Sem.in_range false 8 c = true ->
    pure_scalar e0 = true /\ wt_expr 5 P0 g0 e0 = true /\ exact_tys g0 e0 = true /\
    env_rel (en0 a c) (E0 a c) g0 /\ Forall keys_distinct (E0 a c).
  Proof.
    intros Ha Hc. repeat split; try reflexivity.
    - apply env_rel_of_struct. repeat constructor; cbn; assumption.
    - repeat constructor; cbn; intuition discriminate.
  Qed.

  (* 100 < 200: the addition overflows; the source semantics panics at the addition and so
     does the bit-level semantics, although it also evaluates the subtraction (which would
     underflow) *)
  Example panics :
    Sem.eval 5 P0 (en0 100 200) e0 = Sem.Panicked Sem.ROverflow (mm 4) /\
    exists w, lower_expr tops 3 P0 e0 (E0 100 200) None =
              Ok ((w, E0 100 200), Some (preason_num Overflow, ploc32 (ploc_of (mm 4)))).
  Proof.
    destruct (hyps 100 200 eq_refl eq_refl) as (H1 & H2 & H3 & H4 & H5).
    pose proof (tsem_sem_expr 5 P0 e0 _ _ g0 5 H1 H2 H3 H4 H5) as H.
    assert (Sem.eval 5 P0 (en0 100 200) e0 = Sem.Panicked Sem.ROverflow (mm 4)) as Ev by (vm_compute; reflexivity).
    rewrite Ev in H. split; [reflexivity|]. apply (H 3%nat). cbn. lia.
  Qed.

  Example returns :
    exists en', Sem.eval 5 P0 (en0 200 100) e0 = Sem.Done (Sem.VInt 100, en') /\
    lower_expr tops 3 P0 e0 (E0 200 100) None = Ok ((enc 8 100, E0 200 100), None).
  Proof.
    destruct (hyps 200 100 eq_refl eq_refl) as (H1 & H2 & H3 & H4 & H5).
    pose proof (tsem_sem_expr 5 P0 e0 _ _ g0 5 H1 H2 H3 H4 H5) as H.
    assert (exists en', Sem.eval 5 P0 (en0 200 100) e0 = Sem.Done (Sem.VInt 100, en')) as [en' Ev]
      by (eexists; vm_compute; reflexivity).
    rewrite Ev in H. exists en'. split; [exact Ev|]. destruct H as (_ & _ & H). apply (H 3%nat). cbn. lia.
  Qed.
End Sanity.

(* ------------------------------------------------------------------ FINDING: the hypothesis
   [exact_tys] cannot be dropped.  [Wt.ty_eqb] identifies the two 32-bit integer types, so
   [Wt.wt_expr] accepts trees in which an operand is annotated i32 and the result u32 (the
   typed AST of an unsuffixed literal may be such a tree).  On such a tree the two semantics
   DISAGREE: Sem.v takes the signedness of `+` from the RESULT type, the compiler from the
   OPERAND types.

       x + 1      x : u32 = 4294967295,   the literal annotated i32,   result u32

   Sem.v: 4294967296 is not a u32: panic Overflow.  Bit level: one operand is signed, so the
   overflow test is the signed one, -1 + 1 = 0 does not overflow: no panic, result 0. *)

Module Conflation.
  Definition P0 : program := mkProgram [] [] [] [] 0.
  Definition mm (k : N) : meta := mkMeta k 1 k 9.
  Definition u32 := TInt false 32.
  Definition i32 := TInt true 32.
  Definition e0 : expr := Ex (EOp OAdd (Ex (EId 0) (mm 1) u32) (Ex (ENumU 1 32) (mm 2) i32)) (mm 3) u32.
  Definition g0 : tenv := [[(0, (u32, false))]].
  Definition en0 : Sem.env := Sem.mkEnv [[(0, Sem.VInt 4294967295)]] false.
  Definition E0 : @cenv bool := [[(0, enc 32 4294967295)]].

  Example accepted : pure_scalar e0 = true /\ wt_expr 5 P0 g0 e0 = true /\ exact_tys g0 e0 = false.
  Proof. repeat split; reflexivity. Qed.

  Example env_ok : env_rel en0 E0 g0 /\ Forall keys_distinct E0.
  Proof.
    split.
    - apply env_rel_of_struct. repeat constructor.
    - repeat constructor; cbn; intuition discriminate.
  Qed.

  Example source_panics : Sem.eval 5 P0 en0 e0 = Sem.Panicked Sem.ROverflow (mm 3).
  Proof. vm_compute. reflexivity. Qed.

  Example bit_level_returns_zero : lower_expr tops 3 P0 e0 E0 None = Ok ((enc 32 0, E0), None).
  Proof. vm_compute. reflexivity. Qed.
End Conflation.
