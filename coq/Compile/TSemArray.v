(* The array / tuple access lowering of Compile/Lower.v on the Boolean instance ([TSem.tops]):
   the mux tree of an array read selects the indexed element, the mux chains of an array
   write replace exactly the indexed element, the bounds check records OutOfBounds exactly
   when the index is not smaller than the number of elements, and slice / splice read / replace
   exactly one field of a flat tuple.

   An array of n elements of eb bits each is [concat elems] with [length elems = n] and
   [Forall (fun e => length e = eb) elems]; an index is a bit vector (most significant bit
   first) of unsigned value [bits_to_N idx].  Every statement is for arbitrary n and eb >= 1
   (also n not a power of two); the hypotheses on n say what the 32-bit index arithmetic of
   the compiler needs (n < 2^32). *)
From Coq Require Import Lia ZArith.
From GV Require Import Base.Util Base.Bits Base.BitsProofs Lang.Ast Gadgets.Gadgets Gadgets.GadgetSpec
  Gadgets.Arith Gadgets.Extend Gadgets.ExtendProofs Panic.PanicRec Panic.PanicSem
  Compile.Lower Compile.TSem Compile.TSemFacts Compile.TSemArith1 Compile.TSemArith2.
Local Open Scope N_scope.

(* ------------------------------------------------------------------ 0. lists of elements *)

Definition all_len {A} (eb : nat) (elems : list (list A)) : Prop := Forall (fun e => length e = eb) elems.

Lemma match_list_nonempty {A B} (l : list A) (a b : B) : l <> [] ->
  match l with [] => a | _ :: _ => b end = b.
Proof. destruct l; [congruence|reflexivity]. Qed.

Lemma firstn_app_exact {A} (x y : list A) n : length x = n -> firstn n (x ++ y) = x.
Proof. intros <-. rewrite firstn_app, Nat.sub_diag, firstn_all. cbn [firstn]. apply app_nil_r. Qed.

Lemma skipn_app_exact {A} (x y : list A) n : length x = n -> skipn n (x ++ y) = y.
Proof. intros <-. rewrite skipn_app, Nat.sub_diag, skipn_all. reflexivity. Qed.

Lemma length_concat_all_len {A} eb (elems : list (list A)) : all_len eb elems ->
  length (concat elems) = (length elems * eb)%nat.
Proof.
  induction 1 as [|e r He _ IH]; [reflexivity|].
  cbn [concat length]. rewrite app_length, IH, He. lia.
Qed.

Lemma nonempty_of_pos_length {A} (l : list A) n : length l = n -> (1 <= n)%nat -> l <> [].
Proof. destruct l; cbn [length]; [lia|discriminate]. Qed.

Lemma app_nonempty_len {A} (e r : list A) eb : length e = eb -> (1 <= eb)%nat -> e ++ r <> [].
Proof. destruct e; cbn [length app]; [lia|discriminate]. Qed.

(* ------------------------------------------------------------------ 1. the mux tree of a read *)

(* one layer on the list of elements: adjacent elements are paired and the index bit selects
   the odd one; an odd element out is paired with the out-of-bounds filler *)
Fixpoint pair_layer {A} (s : bool) (filler : A) (elems : list A) : list A :=
  match elems with
  | [] => []
  | e0 :: r =>
      match r with
      | [] => [if s then filler else e0]
      | e1 :: r' => (if s then e1 else e0) :: pair_layer s filler r'
      end
  end.

(* the layers, least significant index bit first *)
Definition pair_layers {A} (bits : list bool) (filler : A) (elems : list A) : list A :=
  fold_left (fun es s => pair_layer s filler es) bits elems.

Lemma pair_layer_ind2 {A} (Q : list A -> Prop) :
  Q [] -> (forall e, Q [e]) -> (forall e0 e1 r, Q r -> Q (e0 :: e1 :: r)) -> forall l, Q l.
Proof.
  intros H0 H1 H2. fix IH 1. intros [|e0 [|e1 r]]; [exact H0|apply H1|]. apply H2. apply IH.
Qed.

(* with the filler as default, element q of the layer is element 2q + s of its input *)
Lemma pair_layer_nth {A} s (F : A) : forall elems q,
  nth q (pair_layer s F elems) F = nth (2 * q + N.to_nat (N.b2n s)) elems F.
Proof.
  induction elems as [|e|e0 e1 r IH] using pair_layer_ind2; intro q.
  - cbn [pair_layer]. rewrite !nth_overflow by (cbn [length]; lia). reflexivity.
  - cbn [pair_layer]. destruct q as [|q].
    + destruct s; reflexivity.
    + rewrite !nth_overflow by (cbn [length]; lia). reflexivity.
  - cbn [pair_layer]. destruct q as [|q].
    + destruct s; reflexivity.
    + cbn [nth]. rewrite IH.
      replace (2 * S q + N.to_nat (N.b2n s))%nat with (S (S (2 * q + N.to_nat (N.b2n s)))) by lia.
      reflexivity.
Qed.

Lemma pair_layer_length {A} s (F : A) : forall elems,
  length (pair_layer s F elems) = Nat.div2 (S (length elems)).
Proof.
  induction elems as [|e|e0 e1 r IH] using pair_layer_ind2; [reflexivity|reflexivity|].
  cbn [pair_layer length]. rewrite IH. reflexivity.
Qed.

Lemma pair_layer_all_len {A} s eb (F : list A) elems : length F = eb -> all_len eb elems ->
  all_len eb (pair_layer s F elems).
Proof.
  intro HF. induction elems as [|e|e0 e1 r IH] using pair_layer_ind2; intro H.
  - constructor.
  - inversion H as [|? ? Ha H']. constructor; [destruct s; assumption|constructor].
  - inversion H as [|? ? Ha H']. inversion H' as [|? ? Hb H''].
    cbn [pair_layer]. constructor; [destruct s; assumption|]. now apply IH.
Qed.

Lemma pair_layers_all_len {A} eb (F : list A) : length F = eb -> forall bits elems,
  all_len eb elems -> all_len eb (pair_layers bits F elems).
Proof.
  intro HF. induction bits as [|s r IH]; intros elems H; [exact H|].
  cbn [pair_layers fold_left]. apply IH. now apply pair_layer_all_len.
Qed.

(* THE INVARIANT of the mux tree: after the low j index bits (value [lsb_to_N bits]), element
   q of the current array is element q * 2^j + (I mod 2^j) of the original one -- or the
   out-of-bounds filler when there is no such element *)
Lemma pair_layers_nth {A} (F : A) : forall bits elems q,
  nth q (pair_layers bits F elems) F
  = nth (q * 2 ^ length bits + N.to_nat (lsb_to_N bits)) elems F.
Proof.
  induction bits as [|s r IH]; intros elems q.
  - cbn [pair_layers fold_left length lsb_to_N Nat.pow]. f_equal. lia.
  - cbn [pair_layers fold_left]. change (fold_left _ r ?l) with (pair_layers r F l).
    rewrite IH, pair_layer_nth. f_equal. cbn [length lsb_to_N Nat.pow].
    rewrite N2Nat.inj_add, N2Nat.inj_mul. change (N.to_nat 2) with 2%nat. lia.
Qed.

Lemma div2_succ_le n k : (n <= 2 * k)%nat -> (Nat.div2 (S n) <= k)%nat.
Proof.
  intro H. destruct (Nat.Even_or_Odd n) as [[m ->]|[m ->]].
  - rewrite Nat.div2_succ_double. lia.
  - replace (S (2 * m + 1)) with (2 * (S m))%nat by lia. rewrite Nat.div2_double. lia.
Qed.

Lemma div2_succ_pos n : (1 <= n)%nat -> (1 <= Nat.div2 (S n))%nat.
Proof. destruct n as [|n]; [lia|]. intros _. cbn [Nat.div2]. lia. Qed.

(* k layers reduce 1 .. 2^k elements to exactly one *)
Lemma pair_layers_length_1 {A} (F : A) : forall bits elems,
  (1 <= length elems <= 2 ^ length bits)%nat -> length (pair_layers bits F elems) = 1%nat.
Proof.
  induction bits as [|s r IH]; intros elems [H1 H2].
  - cbn [pair_layers fold_left length Nat.pow] in *. lia.
  - cbn [pair_layers fold_left]. change (fold_left _ r ?l) with (pair_layers r F l).
    apply IH. rewrite pair_layer_length. cbn [length Nat.pow] in H2. split.
    + now apply div2_succ_pos.
    + now apply div2_succ_le.
Qed.

(* the selected element: element I, or the filler when I is out of bounds *)
Lemma pair_layers_select {A} (F : A) bits elems :
  (1 <= length elems <= 2 ^ length bits)%nat ->
  pair_layers bits F elems = [nth (N.to_nat (lsb_to_N bits)) elems F].
Proof.
  intro H. pose proof (pair_layers_length_1 F bits elems H) as L.
  pose proof (pair_layers_nth F bits elems 0) as Hn. cbn [Nat.mul Nat.add] in Hn.
  destruct (pair_layers bits F elems) as [|x [|y t]]; try discriminate.
  cbn [nth] in Hn. now rewrite Hn.
Qed.

(* --- the circuit side *)

Lemma tsem_mapM_mux_true s : forall (c0 : list bool) (o : pobs),
  mapM_M (fun a0 => m_mux tops s (wT tops) a0) c0 o
  = Ok (if s then repeat true (length c0) else c0, o).
Proof.
  induction c0 as [|a c0 IH]; intro o; cbn [mapM_M].
  - unfold ret. destruct s; reflexivity.
  - unfold mbind. change (m_mux tops s (wT tops) a o) with (Ok (if s then true else a, o)).
    cbn iota beta. rewrite IH. unfold ret. destruct s; reflexivity.
Qed.

(* ONE LAYER: on an array of whole elements the layer is [pair_layer] with the all-true
   element as filler (fuel: more than the number of elements) *)
Lemma tsem_index_layer s eb : (1 <= eb)%nat -> forall fuel elems (o : pobs),
  all_len eb elems -> (length elems < fuel)%nat ->
  index_layer tops fuel s (concat elems) eb o
  = Ok (concat (pair_layer s (repeat true eb) elems), o).
Proof.
  intro Heb. induction fuel as [|f IH]; intros elems o Hall Hf; [lia|].
  destruct elems as [|e0 r]; [reflexivity|].
  inversion Hall as [|? ? He0 Hr].
  cbn [index_layer concat].
  rewrite match_list_nonempty
    by (eapply app_nonempty_len; eassumption).
  cbn zeta. rewrite (firstn_app_exact e0 (concat r)), (skipn_app_exact e0 (concat r)) by assumption.
  destruct r as [|e1 r'].
  - cbn [concat pair_layer]. rewrite tsem_mapM_mux_true, app_nil_r, He0. destruct s; reflexivity.
  - inversion Hr as [|? ? He1 Hr']. cbn [concat].
    rewrite match_list_nonempty
      by (eapply app_nonempty_len; eassumption).
    rewrite (firstn_app_exact e1 (concat r')), (skipn_app_exact e1 (concat r')) by assumption.
    unfold mbind.
    change (fun a1 a0 : bool => m_mux tops s a1 a0) with (m_mux tops s).
    rewrite tsem_map2_mux by congruence.
    rewrite IH; [|assumption|cbn [length] in Hf; lia].
    unfold ret. cbn [pair_layer concat]. destruct s; reflexivity.
Qed.
Print Assumptions tsem_index_layer.

(* ALL LAYERS, any number of index bits, any number of elements *)
Lemma tsem_index_layers_gen eb : (1 <= eb)%nat -> forall (bits : list bool) elems (o : pobs),
  all_len eb elems ->
  index_layers tops bits (concat elems) eb o
  = Ok (concat (pair_layers bits (repeat true eb) elems), o).
Proof.
  intro Heb. induction bits as [|s r IH]; intros elems o Hall; [reflexivity|].
  cbn [index_layers]. unfold mbind.
  destruct (Nat.eqb_spec eb 0) as [E|_]; [lia|].
  rewrite tsem_index_layer; [|exact Heb|exact Hall|].
  - rewrite IH by (apply pair_layer_all_len; [apply repeat_length|exact Hall]). reflexivity.
  - rewrite (length_concat_all_len eb) by exact Hall. nia.
Qed.

Lemma pow2_nat_of_N n k : N.of_nat n <= 2 ^ N.of_nat k -> (n <= 2 ^ k)%nat.
Proof.
  intro H. rewrite <- (Nat2N.id n), <- (Nat2N.id (2 ^ k)). rewrite Nat2N.inj_pow.
  change (N.of_nat 2) with 2. lia.
Qed.

(* (1) THE READ TREE.  For an index of any width k and an array of 1 .. 2^k elements the tree
   returns exactly one element: element I when I is in bounds, and the all-true element when
   it is not (an odd element out is muxed against the all-true out-of-bounds element). *)
Theorem tsem_index_layers (idx : list bool) elems eb (o : pobs) :
  (1 <= eb)%nat -> all_len eb elems -> 1 <= lenN elems <= 2 ^ lenN idx ->
  index_layers tops (rev idx) (concat elems) eb o
  = Ok (nth (N.to_nat (bits_to_N idx)) elems (repeat true eb), o).
Proof.
  intros Heb Hall [Hn1 Hn2]. unfold lenN in *. rewrite tsem_index_layers_gen by assumption.
  rewrite pair_layers_select by (rewrite rev_length; split; [lia|now apply pow2_nat_of_N]).
  rewrite lsb_to_N_rev. cbn [concat]. now rewrite app_nil_r.
Qed.
Print Assumptions tsem_index_layers.

Corollary tsem_index_layers_in_bounds (idx : list bool) elems eb (o : pobs) d :
  (1 <= eb)%nat -> all_len eb elems -> lenN elems <= 2 ^ lenN idx ->
  bits_to_N idx < lenN elems ->
  index_layers tops (rev idx) (concat elems) eb o = Ok (nth (N.to_nat (bits_to_N idx)) elems d, o).
Proof.
  intros Heb Hall Hn HI. rewrite tsem_index_layers by (try assumption; lia).
  f_equal. f_equal. apply nth_indep. unfold lenN in HI. lia.
Qed.
Print Assumptions tsem_index_layers_in_bounds.

Corollary tsem_index_layers_out_of_bounds (idx : list bool) elems eb (o : pobs) :
  (1 <= eb)%nat -> all_len eb elems -> 1 <= lenN elems <= 2 ^ lenN idx ->
  lenN elems <= bits_to_N idx ->
  index_layers tops (rev idx) (concat elems) eb o = Ok (repeat true eb, o).
Proof.
  intros Heb Hall Hn HI. rewrite tsem_index_layers by assumption.
  rewrite nth_overflow by (unfold lenN in HI; lia). reflexivity.
Qed.
Print Assumptions tsem_index_layers_out_of_bounds.

Lemma nth_all_len {A} eb (elems : list (list A)) k d : all_len eb elems -> length d = eb ->
  length (nth k elems d) = eb.
Proof.
  intros Hall Hd. destruct (Nat.lt_ge_cases k (length elems)) as [H|H].
  - unfold all_len in Hall. rewrite Forall_forall in Hall. apply Hall. now apply nth_In.
  - now rewrite nth_overflow.
Qed.

(* whatever the index, the result has the length of one element *)
Corollary tsem_index_layers_length (idx : list bool) elems eb (o : pobs) :
  (1 <= eb)%nat -> all_len eb elems -> 1 <= lenN elems <= 2 ^ lenN idx ->
  exists r, index_layers tops (rev idx) (concat elems) eb o = Ok (r, o) /\ length r = eb.
Proof.
  intros Heb Hall Hn. eexists. split; [now apply tsem_index_layers|].
  apply nth_all_len; [exact Hall|apply repeat_length].
Qed.
Print Assumptions tsem_index_layers_length.

(* ------------------------------------------------------------------ 2. the bounds check *)

Lemma tsem_unsigned_as_wires v k : unsigned_as_wires tops v k = N_to_bits k v.
Proof.
  unfold unsigned_as_wires. change (wT tops) with true. change (wF tops) with false.
  induction k as [|k IH]; [reflexivity|].
  cbn [seq map N_to_bits]. f_equal.
  - replace (S k - 1 - 0)%nat with k by lia. now destruct (N.testbit v (N.of_nat k)).
  - rewrite <- IH, <- seq_shift, map_map. apply map_ext_in. intros i Hi. apply in_seq in Hi.
    replace (S k - 1 - S i)%nat with (k - 1 - i)%nat by lia. reflexivity.
Qed.

Lemma bits_to_N_unsigned_as_wires v k :
  bits_to_N (unsigned_as_wires tops v k) = v mod 2 ^ N.of_nat k.
Proof. rewrite tsem_unsigned_as_wires. apply bits_to_N_N_to_bits. Qed.

Lemma length_unsigned_as_wires v k : length (unsigned_as_wires tops v k) = k.
Proof. unfold unsigned_as_wires. now rewrite map_length, seq_length. Qed.

(* the general form: the array length is compared as the compiler writes it, on 32 bits *)
Lemma tsem_bounds_check_mod (idx : list bool) n m (o : pobs) : length idx = USZ ->
  bounds_check tops idx n m o
  = Ok (tt, push_spec o (N.of_nat n mod 2 ^ 32 <=? bits_to_N idx) OutOfBounds (ploc_of m)).
Proof.
  intro Hl. unfold bounds_check. unfold mbind at 1.
  cbn [o_comparator tops]. rewrite Hl, length_unsigned_as_wires, Nat.leb_refl. cbn [andb].
  rewrite cmp_correct_unsigned by (rewrite ?length_unsigned_as_wires; lia).
  rewrite <- Hl at 1. rewrite firstn_all.
  rewrite <- (length_unsigned_as_wires (N.of_nat n) USZ) at 1. rewrite firstn_all.
  rewrite bits_to_N_unsigned_as_wires. unfold mbind.
  cbn [m_not o_not tops m_panic_if o_panic_if]. unfold tret.
  change (N.of_nat USZ) with 32. f_equal. f_equal. f_equal. symmetry. apply N.leb_antisym.
Qed.

(* (2) THE BOUNDS CHECK: OutOfBounds is recorded (unless an earlier failure already is) iff
   the index is not smaller than the number of elements *)
Theorem tsem_bounds_check (idx : list bool) n m (o : pobs) :
  length idx = USZ -> N.of_nat n < 2 ^ 32 ->
  bounds_check tops idx n m o
  = Ok (tt, push_spec o (N.of_nat n <=? bits_to_N idx) OutOfBounds (ploc_of m)).
Proof.
  intros Hl Hn. rewrite tsem_bounds_check_mod by exact Hl. now rewrite N.mod_small.
Qed.
Print Assumptions tsem_bounds_check.

(* ------------------------------------------------------------------ 3. the array read *)

Lemma tsem_m_extend_index (idx : list bool) (o : pobs) : (length idx <= USZ)%nat ->
  m_extend tops idx (TInt false 32) USZ o = Ok (extend_s idx false USZ, o).
Proof.
  intro Hl. unfold m_extend, lift_res. cbn [is_signed]. now rewrite tsem_extend_g.
Qed.

(* (3) THE READ of arr[idx], for an index of any width up to 32 bits (it is zero-extended to
   32 bits; the extended index is returned with the element): the value is element I --
   the all-true element when I is out of bounds -- and OutOfBounds is recorded iff n <= I *)
Theorem tsem_array_read elems (idx : list bool) eb n m (o : pobs) :
  (1 <= eb)%nat -> all_len eb elems -> length elems = n -> (1 <= n)%nat -> N.of_nat n < 2 ^ 32 ->
  (length idx <= USZ)%nat ->
  array_read tops (concat elems) idx eb n m o
  = Ok ((nth (N.to_nat (bits_to_N idx)) elems (repeat true eb), extend_s idx false USZ),
        push_spec o (N.of_nat n <=? bits_to_N idx) OutOfBounds (ploc_of m)).
Proof.
  intros Heb Hall Hlen Hn1 Hn2 Hl. unfold array_read. unfold mbind at 1.
  rewrite tsem_m_extend_index by exact Hl.
  pose proof (extend_s_length idx false USZ Hl) as Hl'.
  pose proof (zext_correct idx USZ) as Hv.
  set (idx' := extend_s idx false USZ) in *.
  unfold mbind at 1. rewrite tsem_index_layers; [|exact Heb|exact Hall|].
  - unfold mbind. rewrite tsem_bounds_check by assumption. unfold ret. rewrite Hv.
    f_equal. f_equal. f_equal.
    apply match_list_nonempty. apply (nonempty_of_pos_length _ eb); [|exact Heb].
    apply nth_all_len; [exact Hall|apply repeat_length].
  - unfold lenN. rewrite Hl', Hlen. change (N.of_nat USZ) with 32. lia.
Qed.
Print Assumptions tsem_array_read.

Corollary tsem_array_read_in_bounds elems (idx : list bool) eb n m (o : pobs) d :
  (1 <= eb)%nat -> all_len eb elems -> length elems = n -> N.of_nat n < 2 ^ 32 ->
  (length idx <= USZ)%nat -> bits_to_N idx < N.of_nat n ->
  array_read tops (concat elems) idx eb n m o
  = Ok ((nth (N.to_nat (bits_to_N idx)) elems d, extend_s idx false USZ), o).
Proof.
  intros Heb Hall Hlen Hn2 Hl HI. rewrite tsem_array_read by (try assumption; lia).
  rewrite (nth_indep _ _ d) by lia.
  destruct (N.leb_spec (N.of_nat n) (bits_to_N idx)); [lia|].
  destruct o; reflexivity.
Qed.
Print Assumptions tsem_array_read_in_bounds.

(* a full-width index is returned as it is *)
Corollary tsem_array_read_32 elems (idx : list bool) eb n m (o : pobs) :
  (1 <= eb)%nat -> all_len eb elems -> length elems = n -> (1 <= n)%nat -> N.of_nat n < 2 ^ 32 ->
  length idx = USZ ->
  array_read tops (concat elems) idx eb n m o
  = Ok ((nth (N.to_nat (bits_to_N idx)) elems (repeat true eb), idx),
        push_spec o (N.of_nat n <=? bits_to_N idx) OutOfBounds (ploc_of m)).
Proof.
  intros Heb Hall Hlen Hn1 Hn2 Hl. rewrite tsem_array_read by (try assumption; lia).
  f_equal. f_equal. f_equal. unfold extend_s. destruct idx as [|b r]; [discriminate|].
  rewrite Hl, Nat.sub_diag. reflexivity.
Qed.
Print Assumptions tsem_array_read_32.

(* ------------------------------------------------------------------ 4. the array write *)

(* replace element k of a list; nothing happens when there is no element k *)
Fixpoint list_set {A} (l : list A) (k : nat) (v : A) : list A :=
  match l with
  | [] => []
  | a :: r => match k with O => v :: r | S k' => a :: list_set r k' v end
  end.

Lemma list_set_length {A} (l : list A) : forall k v, length (list_set l k v) = length l.
Proof. induction l as [|a r IH]; intros [|k] v; cbn [list_set length]; auto. Qed.

Lemma list_set_nth_same {A} (l : list A) : forall k v d, (k < length l)%nat -> nth k (list_set l k v) d = v.
Proof.
  induction l as [|a r IH]; intros [|k] v d H; cbn [length] in H; try lia; cbn [list_set nth]; [reflexivity|].
  apply IH. lia.
Qed.

Lemma list_set_nth_other {A} (l : list A) : forall k j v d, j <> k -> nth j (list_set l k v) d = nth j l d.
Proof.
  induction l as [|a r IH]; intros [|k] [|j] v d H; cbn [list_set nth]; try reflexivity; try congruence.
  apply IH. congruence.
Qed.

Lemma list_set_out_of_bounds {A} (l : list A) : forall k v, (length l <= k)%nat -> list_set l k v = l.
Proof.
  induction l as [|a r IH]; intros [|k] v H; cbn [length] in H; try lia; cbn [list_set]; [reflexivity..|].
  f_equal. apply IH. lia.
Qed.

Lemma list_set_all_len {A} eb (elems : list (list A)) : forall k v, all_len eb elems -> length v = eb ->
  all_len eb (list_set elems k v).
Proof.
  induction elems as [|e r IH]; intros k v H Hv; [constructor|].
  inversion H as [|? ? He Hr]. destruct k as [|k]; cbn [list_set]; constructor; auto.
  now apply IH.
Qed.

Lemma tsem_mapM_not : forall (x : list bool) (o : pobs), mapM_M (m_not tops) x o = Ok (map negb x, o).
Proof.
  induction x as [|a x IH]; intro o; [reflexivity|].
  cbn [mapM_M]. unfold mbind. change (m_not tops a o) with (Ok (negb a, o)). cbn iota beta.
  rewrite IH. reflexivity.
Qed.

Lemma mod_pow2_succ i k :
  i mod 2 ^ (1 + k) = N.b2n (N.testbit i k) * 2 ^ k + i mod 2 ^ k.
Proof.
  rewrite N.add_comm, N.pow_add_r, N.pow_1_r. pose proof (pow2_pos k).
  rewrite N.mod_mul_r by lia. rewrite N.testbit_spec'. lia.
Qed.

Lemma bit_pow_eqb (a b : bool) X m m' : 0 < X -> m < X -> m' < X ->
  (N.b2n a * X + m =? N.b2n b * X + m') = Bool.eqb a b && (m =? m').
Proof.
  intros HX Hm Hm'. destruct (N.eqb_spec m m') as [->|NE].
  - destruct a, b; cbn [N.b2n Bool.eqb andb];
      match goal with |- (?u =? ?v) = _ => destruct (N.eqb_spec u v) end; try reflexivity; lia.
  - rewrite Bool.andb_false_r.
    match goal with |- (?u =? ?v) = _ => destruct (N.eqb_spec u v) as [E|] end; [|reflexivity].
    exfalso. destruct a, b; cbn [N.b2n] in E; nia.
Qed.

(* THE MUX CHAIN of one bit: the new bit iff every index bit equals the corresponding bit of
   the position [i] (only the low [length index] bits of [i] are looked at) *)
Lemma tsem_write_chain (x0 : bool) i : forall (index : list bool) (x1 : bool) (o : pobs),
  write_chain tops x0 x1 i index (map negb index) o
  = Ok (if bits_to_N index =? i mod 2 ^ lenN index then x1 else x0, o).
Proof.
  induction index as [|ix ir IH]; intros x1 o.
  - cbn [write_chain map bits_to_N]. unfold ret. change (lenN (@nil bool)) with 0. change (2 ^ 0) with 1.
    rewrite N.mod_1_r. reflexivity.
  - cbn [map write_chain]. unfold mbind.
    replace (length (ix :: ir) - 1)%nat with (length ir) by (cbn [length]; lia).
    fold (lenN ir).
    change (m_mux tops ?c x0 x1 o) with (Ok (if c then x0 else x1, o)). cbn iota beta.
    rewrite IH. f_equal. f_equal.
    rewrite bits_to_N_cons, lenN_cons, mod_pow2_succ.
    rewrite bit_pow_eqb;
      [|apply pow2_pos|apply bits_to_N_lt|apply N.mod_lt; pose proof (pow2_pos (lenN ir)); lia].
    destruct (bits_to_N ir =? i mod 2 ^ lenN ir), (N.testbit i (lenN ir)), ix; reflexivity.
Qed.

Lemma tsem_write_elem i (index : list bool) : forall (elem value : list bool) (o : pobs),
  length value = length elem ->
  write_elem tops elem value i index (map negb index) o
  = Ok (if bits_to_N index =? i mod 2 ^ lenN index then value else elem, o).
Proof.
  induction elem as [|x0 er IH]; intros [|v vr] o Hl; try discriminate.
  - cbn [write_elem]. unfold ret. now destruct (_ =? _).
  - injection Hl as Hl. cbn [write_elem]. unfold mbind. rewrite tsem_write_chain, IH by exact Hl.
    unfold ret. now destruct (_ =? _).
Qed.

(* positions i, i+1, ...: each element is replaced iff the index equals its position *)
Fixpoint write_from (I : N) (k : N) (value : list bool) (i : N) (elems : list (list bool)) : list (list bool) :=
  match elems with
  | [] => []
  | e :: r => (if I =? i mod 2 ^ k then value else e) :: write_from I k value (i + 1) r
  end.

Lemma tsem_write_elems eb (index value : list bool) : (1 <= eb)%nat -> length value = eb ->
  forall fuel elems i (o : pobs), all_len eb elems -> (length elems < fuel)%nat ->
  write_elems tops fuel (concat elems) eb value i index (map negb index) o
  = Ok (concat (write_from (bits_to_N index) (lenN index) value i elems), o).
Proof.
  intros Heb Hv. induction fuel as [|f IH]; intros elems i o Hall Hf; [lia|].
  cbn [write_elems]. destruct elems as [|e r].
  - cbn [concat length write_from]. destruct (Nat.ltb_spec 0 eb); [reflexivity|lia].
  - inversion Hall as [|? ? He Hr]. cbn [concat].
    destruct (Nat.ltb_spec (length (e ++ concat r)) eb) as [Hlt|_]; [rewrite app_length in Hlt; lia|].
    rewrite match_list_nonempty by (eapply app_nonempty_len; eassumption).
    rewrite firstn_app_exact, skipn_app_exact by assumption.
    unfold mbind. rewrite tsem_write_elem by congruence.
    rewrite IH; [|exact Hr|cbn [length] in Hf; lia]. reflexivity.
Qed.

(* without wrap-around of the positions, this is [list_set] at position I - i *)
Lemma write_from_list_set I k value : forall elems i, i + lenN elems <= 2 ^ k ->
  write_from I k value i elems
  = if i <=? I then list_set elems (N.to_nat (I - i)) value else elems.
Proof.
  induction elems as [|e r IH]; intros i Hb.
  - cbn [write_from list_set]. now destruct (i <=? I).
  - rewrite lenN_cons in Hb. cbn [write_from]. rewrite IH by lia.
    rewrite N.mod_small by lia.
    destruct (N.eqb_spec I i) as [->|NE].
    + rewrite N.leb_refl, N.sub_diag. cbn [N.to_nat list_set].
      destruct (N.leb_spec (i + 1) i); [lia|reflexivity].
    + destruct (N.leb_spec i I) as [H|H].
      * destruct (N.leb_spec (i + 1) I); [|lia].
        replace (N.to_nat (I - i)) with (S (N.to_nat (I - (i + 1)))) by lia. reflexivity.
      * destruct (N.leb_spec (i + 1) I); [lia|reflexivity].
Qed.

(* (4) THE WRITE arr[idx] = value, for an index of any width up to 32 bits: element I is
   replaced by the value when I is in bounds, nothing changes when it is not (list_set then
   is the identity), and OutOfBounds is recorded iff n <= I *)
Theorem tsem_array_write elems (idx value : list bool) eb m (o : pobs) :
  (1 <= eb)%nat -> all_len eb elems -> lenN elems < 2 ^ 32 ->
  (length idx <= USZ)%nat -> length value = eb ->
  array_write tops (concat elems) eb (length elems) idx value m o
  = Ok (concat (list_set elems (N.to_nat (bits_to_N idx)) value),
        push_spec o (lenN elems <=? bits_to_N idx) OutOfBounds (ploc_of m)).
Proof.
  intros Heb Hall Hn Hl Hv. unfold array_write.
  pose proof (length_concat_all_len eb elems Hall) as Hlc.
  unfold mbind at 1. rewrite tsem_m_extend_index by exact Hl.
  pose proof (extend_s_length idx false USZ Hl) as Hl'.
  pose proof (zext_correct idx USZ) as Hval.
  set (idx' := extend_s idx false USZ) in *.
  unfold mbind at 1. rewrite tsem_mapM_not.
  unfold mbind at 1. rewrite <- Hlc, firstn_all, skipn_all.
  rewrite (tsem_write_elems eb); [|exact Heb|exact Hv|exact Hall|rewrite Hlc; nia].
  unfold mbind. unfold lenN in Hn. rewrite tsem_bounds_check by assumption.
  unfold ret. rewrite app_nil_r, Hval. unfold lenN at 2. f_equal. f_equal. f_equal.
  rewrite write_from_list_set.
  - destruct (N.leb_spec 0 (bits_to_N idx)); [|lia]. now rewrite N.sub_0_r.
  - unfold lenN. rewrite Hl'. change (N.of_nat USZ) with 32. lia.
Qed.
Print Assumptions tsem_array_write.

Corollary tsem_array_write_in_bounds elems (idx value : list bool) eb m (o : pobs) :
  (1 <= eb)%nat -> all_len eb elems -> lenN elems < 2 ^ 32 ->
  (length idx <= USZ)%nat -> length value = eb -> bits_to_N idx < lenN elems ->
  array_write tops (concat elems) eb (length elems) idx value m o
  = Ok (concat (list_set elems (N.to_nat (bits_to_N idx)) value), o).
Proof.
  intros Heb Hall Hn Hl Hv HI. rewrite tsem_array_write by assumption.
  destruct (N.leb_spec (lenN elems) (bits_to_N idx)); [lia|]. destruct o; reflexivity.
Qed.
Print Assumptions tsem_array_write_in_bounds.

Corollary tsem_array_write_out_of_bounds elems (idx value : list bool) eb m (o : pobs) :
  (1 <= eb)%nat -> all_len eb elems -> lenN elems < 2 ^ 32 ->
  (length idx <= USZ)%nat -> length value = eb -> lenN elems <= bits_to_N idx ->
  array_write tops (concat elems) eb (length elems) idx value m o
  = Ok (concat elems, push_spec o true OutOfBounds (ploc_of m)).
Proof.
  intros Heb Hall Hn Hl Hv HI. rewrite tsem_array_write by assumption.
  rewrite list_set_out_of_bounds by (unfold lenN in HI; lia).
  destruct (N.leb_spec (lenN elems) (bits_to_N idx)); [reflexivity|lia].
Qed.
Print Assumptions tsem_array_write_out_of_bounds.

(* ------------------------------------------------------------------ 5. tuple fields: slice / splice *)

Section Fields.
  Context {A : Type}.

  (* a tuple (or struct) is laid out as the concatenation of its fields; field k starts after
     the fields before it *)
  Definition field_offset (fields : list (list A)) (k : nat) : nat := length (concat (firstn k fields)).

  (* the offset as the compiler computes it (tuple_offsets: a fold over the sizes before) *)
  Lemma field_offset_fold (fields : list (list A)) k :
    field_offset fields k = fold_left (fun a f => (a + length f)%nat) (firstn k fields) O.
  Proof.
    unfold field_offset. generalize (firstn k fields) as l. intro l.
    rewrite <- (Nat.add_0_l (length (concat l))). generalize O as acc.
    induction l as [|f r IH]; intro acc; cbn [concat fold_left length]; [lia|].
    rewrite app_length, <- IH. lia.
  Qed.

  Lemma concat_split_field (fields : list (list A)) k d : (k < length fields)%nat ->
    concat fields = concat (firstn k fields) ++ nth k fields d ++ concat (skipn (S k) fields).
  Proof.
    revert k. induction fields as [|f r IH]; intros k Hk; cbn [length] in Hk; [lia|].
    destruct k as [|k].
    - reflexivity.
    - cbn [firstn skipn nth concat]. rewrite <- app_assoc. f_equal. apply IH. lia.
  Qed.

  Lemma list_set_split (fields : list (list A)) k v : (k < length fields)%nat ->
    list_set fields k v = firstn k fields ++ v :: skipn (S k) fields.
  Proof.
    revert k. induction fields as [|f r IH]; intros k Hk; cbn [length] in Hk; [lia|].
    destruct k as [|k]; [reflexivity|]. cbn [list_set firstn skipn app]. f_equal. apply IH. lia.
  Qed.

  (* (5a) READING field k returns exactly field k *)
  Theorem slice_field (fields : list (list A)) k d : (k < length fields)%nat ->
    slice (concat fields) (field_offset fields k) (length (nth k fields d)) = Ok (nth k fields d).
  Proof.
    intro Hk. unfold slice, field_offset.
    rewrite (concat_split_field fields k d Hk).
    rewrite !app_length.
    destruct (Nat.leb_spec (length (concat (firstn k fields)) + length (nth k fields d))
      (length (concat (firstn k fields)) + (length (nth k fields d) + length (concat (skipn (S k) fields)))));
      [|lia].
    rewrite skipn_app_exact by reflexivity. rewrite firstn_app_exact by reflexivity. reflexivity.
  Qed.

  (* (5b) WRITING field k replaces exactly that field (the new value must have its length) *)
  Theorem splice_field (fields : list (list A)) k d value : (k < length fields)%nat ->
    length value = length (nth k fields d) ->
    splice (concat fields) (field_offset fields k) (length (nth k fields d)) value
    = Ok (concat (list_set fields k value)).
  Proof.
    intros Hk Hv. unfold splice, field_offset.
    rewrite (concat_split_field fields k d Hk).
    rewrite !app_length, Hv, Nat.eqb_refl.
    destruct (Nat.leb_spec (length (concat (firstn k fields)) + length (nth k fields d))
      (length (concat (firstn k fields)) + (length (nth k fields d) + length (concat (skipn (S k) fields)))));
      [|lia].
    cbn [andb]. rewrite firstn_app_exact by reflexivity.
    rewrite (app_assoc (concat (firstn k fields)) (nth k fields d)).
    rewrite skipn_app_exact by (rewrite app_length; reflexivity).
    rewrite list_set_split by exact Hk. rewrite concat_app. reflexivity.
  Qed.

  (* a value of another length is refused (copy_from_slice panics) *)
  Theorem splice_field_wrong_length (fields : list (list A)) k d value :
    length value <> length (nth k fields d) ->
    splice (concat fields) (field_offset fields k) (length (nth k fields d)) value = Crash.
  Proof.
    intro Hv. unfold splice. destruct (Nat.eqb_spec (length value) (length (nth k fields d))); [contradiction|].
    now rewrite Bool.andb_false_r.
  Qed.

  (* the offsets depend on the lengths of the fields only *)
  Lemma field_offset_list_set (fields : list (list A)) : forall k j value d, (k < length fields)%nat ->
    length value = length (nth k fields d) ->
    field_offset (list_set fields k value) j = field_offset fields j.
  Proof.
    unfold field_offset. induction fields as [|f r IH]; intros k j value d Hk Hv; cbn [length] in Hk; [lia|].
    destruct j as [|j]; [reflexivity|].
    destruct k as [|k]; cbn [list_set firstn concat nth] in *; rewrite !app_length.
    - now rewrite Hv.
    - f_equal. apply (IH k j value d); [lia|exact Hv].
  Qed.

  (* read after write: the written field reads back the value, every other field is untouched *)
  Corollary slice_splice_same (fields : list (list A)) k d value v' : (k < length fields)%nat ->
    length value = length (nth k fields d) ->
    splice (concat fields) (field_offset fields k) (length (nth k fields d)) value = Ok v' ->
    slice v' (field_offset fields k) (length (nth k fields d)) = Ok value.
  Proof.
    intros Hk Hv. rewrite splice_field by assumption. intros [= <-].
    pose proof (slice_field (list_set fields k value) k d) as Hs.
    rewrite list_set_length, (list_set_nth_same fields k value d Hk),
      (field_offset_list_set fields k k value d Hk Hv) in Hs.
    rewrite <- Hv. exact (Hs Hk).
  Qed.

  Corollary slice_splice_other (fields : list (list A)) k j d value v' :
    (k < length fields)%nat -> (j < length fields)%nat -> j <> k ->
    length value = length (nth k fields d) ->
    splice (concat fields) (field_offset fields k) (length (nth k fields d)) value = Ok v' ->
    slice v' (field_offset fields j) (length (nth j fields d)) = Ok (nth j fields d).
  Proof.
    intros Hk Hj Hjk Hv. rewrite splice_field by assumption. intros [= <-].
    pose proof (slice_field (list_set fields k value) j d) as Hs.
    rewrite list_set_length, (list_set_nth_other fields k j value d Hjk),
      (field_offset_list_set fields k j value d Hk Hv) in Hs.
    exact (Hs Hj).
  Qed.
End Fields.
Print Assumptions slice_field.
Print Assumptions splice_field.
Print Assumptions splice_field_wrong_length.
Print Assumptions slice_splice_same.
Print Assumptions slice_splice_other.

(* ------------------------------------------------------------------ 6. consequences *)

Lemma tsem_index_layers_nil eb : forall (bits : list bool) (o : pobs),
  index_layers tops bits [] eb o = Ok ([], o).
Proof.
  induction bits as [|s r IH]; intro o; [reflexivity|].
  cbn [index_layers]. unfold mbind. destruct (eb =? 0)%nat; cbn [index_layer length]; unfold ret; apply IH.
Qed.

(* reading an array without elements: all-false bits, and always OutOfBounds *)
Theorem tsem_array_read_empty (idx : list bool) eb m (o : pobs) : (length idx <= USZ)%nat ->
  array_read tops [] idx eb 0 m o
  = Ok ((repeat false eb, extend_s idx false USZ), push_spec o true OutOfBounds (ploc_of m)).
Proof.
  intro Hl. unfold array_read. unfold mbind at 1. rewrite tsem_m_extend_index by exact Hl.
  unfold mbind at 1. rewrite tsem_index_layers_nil. unfold mbind.
  rewrite tsem_bounds_check; [|now apply extend_s_length|cbn; lia].
  destruct (N.leb_spec (N.of_nat 0) (bits_to_N (extend_s idx false USZ))); [reflexivity|lia].
Qed.
Print Assumptions tsem_array_read_empty.

(* READ AFTER WRITE, through the circuits: after a[i] = value (i in bounds), a[j] reads the
   value when j = i and what it read before when j <> i; the write leaves the observation alone *)
Theorem tsem_array_read_after_write elems (idx jdx value : list bool) eb n m m' (o : pobs) arr' o' :
  (1 <= eb)%nat -> all_len eb elems -> length elems = n -> N.of_nat n < 2 ^ 32 ->
  (length idx <= USZ)%nat -> (length jdx <= USZ)%nat -> length value = eb ->
  bits_to_N idx < N.of_nat n ->
  array_write tops (concat elems) eb (length elems) idx value m o = Ok (arr', o') ->
  o' = o /\
  array_read tops arr' jdx eb n m' o'
  = Ok ((if bits_to_N jdx =? bits_to_N idx then value
         else nth (N.to_nat (bits_to_N jdx)) elems (repeat true eb), extend_s jdx false USZ),
        push_spec o (N.of_nat n <=? bits_to_N jdx) OutOfBounds (ploc_of m')).
Proof.
  intros Heb Hall Hlen Hn Hli Hlj Hv HI.
  rewrite tsem_array_write_in_bounds by (unfold lenN; rewrite ?Hlen; assumption).
  intros [= <- <-]. split; [reflexivity|].
  rewrite tsem_array_read; try assumption.
  - f_equal. f_equal. f_equal. destruct (N.eqb_spec (bits_to_N jdx) (bits_to_N idx)) as [->|NE].
    + apply list_set_nth_same. lia.
    + apply list_set_nth_other. lia.
  - now apply list_set_all_len.
  - now rewrite list_set_length.
  - lia.
Qed.
Print Assumptions tsem_array_read_after_write.

Print Assumptions pair_layers_nth.
Print Assumptions tsem_index_layers_gen.
Print Assumptions tsem_bounds_check_mod.
Print Assumptions tsem_write_chain.
Print Assumptions tsem_write_elem.
Print Assumptions tsem_write_elems.
Print Assumptions field_offset_fold.
