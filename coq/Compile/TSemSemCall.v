(* Phase 3: the agreement of Compile/TSemSemStmt.v extended by FUNCTION CALLS and FOR LOOPS
   OVER A RANGE (partial correctness, as before).

   Fragment ([imp2_expr] / [imp2_stmt], boolean, syntactic): everything of TSemSemStmt.v, plus
     `f(args)` (arguments: fragment expressions with effects) and
     `for x in lo..hi { body }` (identifier pattern, collection an [ERange], body in the fragment).
   Checker ([sc2_expr] / [sc2_block] / [sc2_stmt], boolean; [sc2_implies_wt]: a restriction of
     Lang/Wt.v): call sites check the argument types against the parameter types and the
     declared return type (EQUAL annotations); the bodies of the functions are checked once per
     function ([sc2_fn], [sc2_fns]: every function of the program is in the fragment), in the
     context of their parameters over the empty global scope.  Ranges: unsigned element type of
     width 8/16/32/64, lo <= hi <= 2^width, the annotated length is hi - lo.
   Hypotheses kept: programs WITHOUT GLOBAL CONSTANTS (the outermost scope is the empty scope
     on both sides, [G2]); this makes the frame condition of calls trivial.

   Calls.  The lowering compiles every argument in a fresh EMPTY scope that is popped again
   ([lower_args]), whereas Sem.v evaluates it in the caller's environment as it is.  The
   environment relation is generalised by a mask [ph : list bool] that marks the scopes of the
   bit-level environment which are such PHANTOM empty scopes ([relS], [relP]); without phantoms
   it is [env_rel3] ([relP_of_env_rel3], [env_rel3_of_relP]).  Part 1 of TSemSemStmt.v is
   replayed for this relation (Section Control2, again for an arbitrary value relation VR: same
   node lemmas with suffix 2), with the new nodes [args_node], [call_node], [for_iter_node];
   scalars: the operator nodes with suffix 2 and [for_node2].
   Theorems: [keys_preserved2], [agree_all2], [tsem_sem_imp2_expr] / [_stmt] / [_block],
   [tsem_sem_program2], [in_imp_fragment2] with [in_imp_fragment2_sound]. *)
From Coq Require Import Lia ZArith.
From GV Require Import Base.Util Base.Bits Base.BitsProofs Lang.Ast Lang.Wt Lang.WtShape Gadgets.Gadgets
  Gadgets.GadgetSpec Gadgets.Arith Panic.PanicRec Panic.PanicSem Compile.Lower
  Compile.TSem Compile.TSemFacts Compile.TSemArith1 Compile.TSemArith2 Compile.TSemControl
  Compile.TSemSemExpr Compile.TSemSticky Compile.TSemSemStmt.
From GV Require Lang.Sem.
Local Open Scope N_scope.

Section Control2.
  Variable P : program.
  Variable VR : ty -> Sem.value -> list bool -> Prop.
  Hypothesis VR_bool : forall v w, VR TBool v w -> exists b, v = Sem.VBool b /\ w = [b].
  Hypothesis VR_unit : VR unit_ty Sem.unit_val [].

  (* [relS ph ss E g]: the scopes of E marked [true] in [ph] are phantom empty scopes; the
     others are related, in order, to the scopes of the source environment and of the context *)
  Inductive relS : list bool -> list (list (N * Sem.value)) -> @cenv bool -> tenv -> Prop :=
  | relS_nil : relS [] [] [] []
  | relS_real ph s cs gs ss E g :
      scope_rel VR s cs gs -> relS ph ss E g -> relS (false :: ph) (s :: ss) (cs :: E) (gs :: g)
  | relS_phantom ph ss E g : relS ph ss E g -> relS (true :: ph) ss ([] :: E) g.

  Definition relP (ph : list bool) (en : Sem.env) (E : @cenv bool) (g : tenv) : Prop :=
    relS ph (Sem.scopes en) E g.

  (* without phantoms this is the relation of TSemSemStmt.v *)
  Lemma relP_of_env_rel3 en E g : env_rel3 VR en E g -> relP (repeat false (length E)) en E g.
  Proof.
    unfold env_rel3, relP. induction 1; cbn [length repeat]; [constructor|]. now constructor.
  Qed.

  Lemma env_rel3_of_relP ph en E g : relP ph en E g -> forallb negb ph = true -> env_rel3 VR en E g.
  Proof.
    unfold env_rel3, relP. induction 1; cbn [forallb negb]; intro Hph; try discriminate Hph; constructor; auto.
  Qed.

  Lemma rel2_wf {ph} en E g : relP ph en E g -> wf_env E.
  Proof.
    unfold relP, wf_env. induction 1 as [|ph s cs gs ss E g [Hs _] _ IH|ph ss E g _ IH]; constructor; try assumption.
    exact I.
  Qed.

  Lemma rel2_scopes {ph} en en' E g : Sem.scopes en' = Sem.scopes en -> relP ph en E g -> relP ph en' E g.
  Proof. unfold relP. now intros ->. Qed.

  Lemma rel2_lookup {ph} en E g x t mu : relP ph en E g -> tlookup g x = Some (t, mu) ->
    exists v w, Sem.lookup_var en x = Some v /\ env_get E x = Some w /\ VR t v w.
  Proof.
    unfold relP, Sem.lookup_var.
    induction 1 as [|ph s cs gs ss E g [_ Hs] _ IH|ph ss E g _ IH]; cbn [tlookup]; try discriminate.
    - cbn [Sem.lookup_scopes env_get]. specialize (Hs x). destruct (assocN x gs) as [[t' mu']|].
      + intros [= -> ->]. destruct Hs as (v & w & -> & -> & HV). eauto.
      + destruct Hs as [-> ->]. exact IH.
    - cbn [env_get assocN]. exact IH.
  Qed.

  Lemma rel2_push {ph} en E g : relP ph en E g -> relP (false :: ph) (Sem.push_scope en) (env_push E) ([] :: g).
  Proof.
    intro H. unfold relP, Sem.push_scope, env_push. cbn [Sem.scopes]. constructor; [|exact H].
    split; [exact I|]. intro x. cbn [assocN]. auto.
  Qed.

  Lemma relS_pop ph ss E g E2 : relS (false :: ph) ss E g -> env_pop E = Ok E2 -> relS ph (tl ss) E2 (tl g).
  Proof. intros H Hp. inversion H; subst. cbn [env_pop] in Hp. injection Hp as <-. assumption. Qed.

  Lemma rel2_pop {ph} en E g E2 : relP (false :: ph) en E g -> env_pop E = Ok E2 ->
    relP ph (Sem.pop_scope en) E2 (tl g).
  Proof. unfold relP, Sem.pop_scope. cbn [Sem.scopes]. apply relS_pop. Qed.

  (* a phantom scope is pushed ... and popped *)
  Lemma rel2_phantom {ph} en E g : relP ph en E g -> relP (true :: ph) en (env_push E) g.
  Proof. intro H. unfold relP, env_push. now constructor. Qed.

  Lemma rel2_unphantom {ph} en E g E2 : relP (true :: ph) en E g -> env_pop E = Ok E2 -> relP ph en E2 g.
  Proof.
    unfold relP. intros H Hp. inversion H; subst. cbn [env_pop] in Hp. injection Hp as <-. assumption.
  Qed.

  Lemma relS_let ph ss E g x t mu v w E' : relS (false :: ph) ss E g -> VR t v w -> env_let E x w = Ok E' ->
    relS (false :: ph) (match ss with s :: r => ((x, v) :: s) :: r | [] => [[(x, v)]] end) E' (tbind g x t mu).
  Proof.
    intros H HV Hl. inversion H as [|ph' s cs gs ss0 E0 g0 [Hso Hs] Hr|]; subst.
    cbn [env_let] in Hl. injection Hl as <-. cbn [tbind].
    constructor; [|exact Hr].
    split; [now apply scope_insert_sorted|]. intro y. cbn [assocN].
    destruct (N.eqb_spec y x) as [->|Hne].
    - exists v, w. rewrite scope_insert_get. auto.
    - rewrite scope_insert_other by exact Hne. apply Hs.
  Qed.

  Lemma rel2_let {ph} en E g x t mu v w E' : relP (false :: ph) en E g -> VR t v w -> env_let E x w = Ok E' ->
    relP (false :: ph) (Sem.bind_var en x v) E' (tbind g x t mu).
  Proof.
    unfold relP, Sem.bind_var. intros H HV Hl.
    pose proof (relS_let _ _ _ _ x t mu v w E' H HV Hl) as H1.
    destruct (Sem.scopes en); exact H1.
  Qed.

  Lemma rel2_assign {ph} en E g x t mu v w E' : relP ph en E g -> tlookup g x = Some (t, mu) -> VR t v w ->
    env_assign E x w = Ok E' ->
    exists en', Sem.assign_var en x v = Some en' /\ relP ph en' E' g.
  Proof.
    unfold relP, Sem.assign_var. intros H Hl HV Ha.
    assert (exists ss', Sem.assign_scopes (Sem.scopes en) x v = Some ss' /\ relS ph ss' E' g) as (ss' & -> & Hr).
    2:{ eexists. split; [reflexivity|exact Hr]. }
    revert E' Hl Ha.
    induction H as [|ph s cs gs ss E g [Hso Hs] Hr0 IH|ph ss E g Hr0 IH]; intros E' Hl Ha; cbn [tlookup] in Hl;
      try discriminate Hl.
    - cbn [env_assign Sem.assign_scopes] in *. pose proof (Hs x) as Hx.
      destruct (assocN x gs) as [[t' mu']|] eqn:Eg.
      + injection Hl as -> ->. destruct Hx as (v0 & w0 & Hv0 & Hw0 & _).
        destruct (update_assoc_some s x v v0 Hv0) as (s' & -> & Hs').
        destruct (scope_replace_some cs x w w0 Hw0) as (cs' & Hcs'). rewrite Hcs' in Ha.
        injection Ha as <-. eexists. split; [reflexivity|]. constructor; [|assumption].
        split; [unfold ssorted; rewrite (scope_replace_keys _ _ _ _ Hcs'); exact Hso|].
        intro y. rewrite Hs', (scope_replace_lookup _ _ _ _ Hcs').
        destruct (N.eqb_spec y x) as [->|Hne]; [|apply Hs]. rewrite Eg. eauto.
      + destruct Hx as [Hsn Hcn]. rewrite (update_assoc_none s x v Hsn).
        rewrite (scope_replace_none' cs x w Hcn) in Ha.
        destruct (env_assign E x w) as [r'| |] eqn:Er; cbn [bind] in Ha; try discriminate. injection Ha as <-.
        destruct (IH r' Hl eq_refl) as (ss' & -> & Hr). eexists. split; [reflexivity|].
        constructor; [split; assumption|exact Hr].
    - cbn [env_assign scope_replace] in Ha.
      destruct (env_assign E x w) as [r'| |] eqn:Er; cbn [bind] in Ha; try discriminate. injection Ha as <-.
      destruct (IH r' Hl eq_refl) as (ss' & Hss & Hr). exists ss'. split; [exact Hss|]. now constructor.
  Qed.

  (* ---------------------------------------------------------------- the agreement predicates and the
     node lemmas of TSemSemStmt.v, for the relation with phantom scopes *)

  Definition AgE2 (fuel : nat) (g : tenv) (e : expr) : Prop :=
    forall ph en E fT w E' o',
    relP ph en E g -> lower_expr tops fT P e E None = Ok ((w, E'), o') ->
    match Sem.eval fuel P en e with
    | Sem.Done (v, en') => o' = None /\ VR (e_ty e) v w /\ relP ph en' E' g
    | Sem.Panicked r m => o' = Some (pcode r m)
    | _ => True
    end.

  (* a statement: [g'] the context after it, [t] its type *)
  Definition AgS2 (fuel : nat) (g g' : tenv) (t : ty) (s : stmt) : Prop :=
    forall ph en E fT w E' o',
    relP (false :: ph) en E g -> lower_stmt tops fT P s E None = Ok ((w, E'), o') ->
    match Sem.exec fuel P en s with
    | Sem.Done (v, en') => o' = None /\ VR t v w /\ relP (false :: ph) en' E' g'
    | Sem.Panicked r m => o' = Some (pcode r m)
    | _ => True
    end.


  Lemma if_node2 f g c a b m t :
    AgE2 f g c -> AgE2 f g a -> AgE2 f g b -> KP P a -> KP P b ->
    e_ty c = TBool -> e_ty a = t -> e_ty b = t ->
    AgE2 (S f) g (Ex (EIf c a b) m t).
  Proof.
    intros IHc IHa IHb Ka Kb Etc Eta Etb ph en E fT w E' o' Hrel Hrun.
    destruct fT as [|fT]; [discriminate Hrun|]. rewrite lower_expr_S in Hrun.
    apply if_run_inv in Hrun.
    destruct Hrun as (cb & E0 & o0 & tw & ET & oT & fw & EF & oF & oM & Hc & Ha & Hb & Hmux & -> & ->).
    rewrite sem_eval_if. pose proof (IHc ph en E fT _ _ _ Hrel Hc) as IH1. revert IH1.
    destruct (Sem.eval f P en c) as [[vc en1]|r1 m1|c1|]; intro IH1; cbn [Sem.obind]; try exact I.
    - destruct IH1 as (-> & HV & Hrel1). rewrite Etc in HV. destruct (VR_bool _ _ HV) as (cb' & -> & [= <-]).
      pose proof (rel2_wf _ _ _ Hrel1) as Hwf0.
      pose proof (Ka _ _ _ _ _ _ Ha) as Hka. pose proof (Kb _ _ _ _ _ _ Hb) as Hkb.
      apply mux_envs_inv in Hmux; [|congruence|now apply (wf_env_keys E0)]. destruct Hmux as [-> _].
      destruct cb.
      + pose proof (IHa ph en1 E0 fT _ _ _ Hrel1 Ha) as IH2. revert IH2.
        destruct (Sem.eval f P en1 a) as [[va en2]|r2 m2|c2|]; intro IH2; try exact I; [|exact IH2].
        cbn [e_ty]. rewrite Eta in IH2. exact IH2.
      + pose proof (IHb ph en1 E0 fT _ _ _ Hrel1 Hb) as IH2. revert IH2.
        destruct (Sem.eval f P en1 b) as [[vb en2]|r2 m2|c2|]; intro IH2; try exact I; [|exact IH2].
        cbn [e_ty]. rewrite Etb in IH2. exact IH2.
    - subst o0. rewrite (sticky_e P _ _ _ _ _ _ _ Ha), (sticky_e P _ _ _ _ _ _ _ Hb). now destruct cb.
  Qed.


  Lemma logic_node2 f g (land : bool) x y m :
    AgE2 f g x -> AgE2 f g y -> KP P y -> e_ty x = TBool -> e_ty y = TBool ->
    AgE2 (S f) g (Ex (EOp (if land then OLAnd else OLOr) x y) m TBool).
  Proof.
    intros IHx IHy Ky Etx Ety ph en E fT w E' o' Hrel Hrun.
    destruct fT as [|fT]; [discriminate Hrun|]. rewrite lower_expr_S in Hrun.
    apply logic_run_inv in Hrun.
    destruct Hrun as (bx & E1 & o1 & by_ & E2 & o2 & oM & Hx & Hy & Hmux & -> & ->).
    assert (Sem.eval (S f) P en (Ex (EOp (if land then OLAnd else OLOr) x y) m TBool) =
            Sem.obind (Sem.eval f P en x) (fun '(vx, en1) =>
              match vx with
              | Sem.VBool bx =>
                  if Bool.eqb bx land then Sem.eval f P en1 y else Sem.Done (Sem.VBool bx, en1)
              | _ => Sem.Stuck (if land then 44 else 45)
              end)) as ->.
    { destruct land; [rewrite sem_eval_land|rewrite sem_eval_lor];
        destruct (Sem.eval f P en x) as [[[[]| | | |] ?]| | |]; reflexivity. }
    pose proof (IHx ph en E fT _ _ _ Hrel Hx) as IH1. revert IH1.
    destruct (Sem.eval f P en x) as [[vx en1]|r1 m1|c1|]; intro IH1; cbn [Sem.obind]; try exact I.
    - destruct IH1 as (-> & HV & Hrel1). rewrite Etx in HV.
      destruct (VR_bool _ _ HV) as (b' & -> & [= <-]).
      pose proof (Ky _ _ _ _ _ _ Hy) as Hk. pose proof (rel2_wf _ _ _ Hrel1) as Hwf1.
      assert (E' = (if Bool.eqb bx land then E2 else E1) /\ oM = o2) as [-> ->].
      { destruct land.
        - apply mux_envs_inv in Hmux; [|exact Hk|exact Hwf1]. destruct Hmux as [-> ->]. now destruct bx.
        - apply mux_envs_inv in Hmux; [|now symmetry|now apply (wf_env_keys E1)].
          destruct Hmux as [-> ->]. now destruct bx. }
      destruct (Bool.eqb bx land) eqn:Hbl.
      + apply Bool.eqb_prop in Hbl. subst bx.
        pose proof (IHy ph en1 E1 fT _ _ _ Hrel1 Hy) as IH2. revert IH2.
        destruct (Sem.eval f P en1 y) as [[vy en2]|r2 m2|c2|]; intro IH2; try exact I.
        * destruct IH2 as (-> & HVy & Hrel2). rewrite Ety in HVy.
          destruct (VR_bool _ _ HVy) as (b' & -> & [= <-]). cbn [e_ty].
          destruct land; cbn [andb orb]; auto.
        * subst o2. now destruct land.
      + cbn [e_ty]. destruct land, bx; try discriminate Hbl; cbn [andb orb]; auto.
    - subst o1. pose proof (sticky_e P _ _ _ _ _ _ _ Hy) as ->.
      assert (oM = Some (pcode r1 m1)) as ->.
      { destruct land; eapply stkx_mux_envs; exact Hmux. }
      now destruct land, bx.
  Qed.


  Lemma sexpr_node2 f g e m : AgE2 f g e -> AgS2 (S f) g g (e_ty e) (St (SExpr e) m).
  Proof.
    intros IH ph en E fT w E' o' Hrel Hrun. destruct fT as [|fT]; [discriminate Hrun|].
    rewrite lower_stmt_S in Hrun. cbn [lower_stmt_body] in Hrun.
    change (Sem.exec (S f) P en (St (SExpr e) m)) with (Sem.eval f P en e).
    exact (IH (false :: ph) en E fT _ _ _ Hrel Hrun).
  Qed.


  Lemma letmut_node2 f g x e m :
    AgE2 f g e -> AgS2 (S f) g (tbind g x (e_ty e) true) unit_ty (St (SLetMut x e) m).
  Proof.
    intros IH ph en E fT w E' o' Hrel Hrun. destruct fT as [|fT]; [discriminate Hrun|].
    rewrite lower_stmt_S in Hrun. cbn [lower_stmt_body] in Hrun.
    minva Hrun as [w1 E1] o1 He. minva Hrun as E2 o2 Hl. apply lift_res_inv in Hl. destruct Hl as [Hl ->].
    apply ret_inv in Hrun. destruct Hrun as [Heq ->]. injection Heq as -> ->.
    rewrite sem_exec_letmut. pose proof (IH (false :: ph) en E fT _ _ _ Hrel He) as IH1. revert IH1.
    destruct (Sem.eval f P en e) as [[v en1]|r1 m1|c1|]; intro IH1; cbn [Sem.obind]; try exact I; [|exact IH1].
    destruct IH1 as (-> & HV & Hrel1). split; [reflexivity|]. split; [exact VR_unit|].
    eapply rel2_let; eassumption.
  Qed.

  Lemma let_node2 f g x mp e m :
    AgE2 f g e -> AgS2 (S f) g (tbind g x (e_ty e) false) unit_ty (St (SLet (Pat (PId x) mp (e_ty e)) e) m).
  Proof.
    intros IH ph en E fT w E' o' Hrel Hrun. destruct fT as [|fT]; [discriminate Hrun|].
    rewrite lower_stmt_S in Hrun. cbn [lower_stmt_body] in Hrun.
    minva Hrun as [w1 E1] o1 He. minva Hrun as [c2 E2] o2 Hp.
    apply ret_inv in Hrun. destruct Hrun as [Heq ->]. injection Heq as -> ->.
    destruct fT as [|fT']; [discriminate Hp|].
    change (lower_pattern tops (S fT') P (Pat (PId x) mp (e_ty e)) w1 E1 o1)
      with (lower_pattern_body tops P (lower_pattern tops fT' P) (Pat (PId x) mp (e_ty e)) w1 E1 o1) in Hp.
    cbn [lower_pattern_body] in Hp. minva Hp as E3 o3 Hl. apply lift_res_inv in Hl. destruct Hl as [Hl ->].
    apply ret_inv in Hp. destruct Hp as [Heq ->]. injection Heq as _ ->.
    rewrite sem_exec_let_id. pose proof (IH (false :: ph) en E (S fT') _ _ _ Hrel He) as IH1. revert IH1.
    destruct (Sem.eval f P en e) as [[v en1]|r1 m1|c1|]; intro IH1; cbn [Sem.obind]; try exact I; [|exact IH1].
    destruct IH1 as (-> & HV & Hrel1). split; [reflexivity|]. split; [exact VR_unit|].
    eapply rel2_let; eassumption.
  Qed.


  Lemma assign_node2 f g x e m mu :
    AgE2 f g e -> tlookup g x = Some (e_ty e, mu) -> AgS2 (S f) g g unit_ty (St (SAssign x [] e) m).
  Proof.
    intros IH Hlk ph en E fT w E' o' Hrel Hrun. destruct fT as [|fT]; [discriminate Hrun|].
    rewrite lower_stmt_S in Hrun. cbn [lower_stmt_body assign_indexes assign_forward assign_backward] in Hrun.
    minva Hrun as [w1 E1] o1 He.
    minva Hrun as [idxs E2] o2 H2. apply ret_inv in H2. destruct H2 as [Heq ->]. injection Heq as -> ->.
    minva Hrun as coll o3 H3.
    minva Hrun as acc o4 H4. apply ret_inv in H4. destruct H4 as [-> ->].
    minva Hrun as v' o5 H5. apply ret_inv in H5. destruct H5 as [-> ->].
    minva Hrun as E3 o6 H6. apply lift_res_inv in H6. destruct H6 as [Ha ->].
    apply ret_inv in Hrun. destruct Hrun as [Heq ->]. injection Heq as -> ->.
    rewrite sem_exec_assign0. pose proof (IH (false :: ph) en E fT _ _ _ Hrel He) as IH1. revert IH1.
    destruct (Sem.eval f P en e) as [[v en1]|r1 m1|c1|]; intro IH1; cbn [Sem.obind]; try exact I.
    - destruct IH1 as (-> & HV & Hrel1).
      destruct (rel2_lookup _ _ _ _ _ _ Hrel1 Hlk) as (v0 & w0 & Hv0 & Hw0 & _). rewrite Hv0.
      rewrite Hw0 in H3. apply ret_inv in H3. destruct H3 as [_ ->].
      destruct (rel2_assign _ _ _ _ _ _ _ _ _ Hrel1 Hlk HV Ha) as (en3 & -> & Hrel3).
      split; [reflexivity|]. split; [exact VR_unit|exact Hrel3].
    - subst o1. destruct (env_get E1 x); [|discriminate H3]. apply ret_inv in H3. now destruct H3 as [_ ->].
  Qed.


  (* every statement of the list agrees, the contexts are threaded: context before, the
     statements, type of the value so far, context after, type of the value *)
  Inductive AgSS2 (f : nat) : tenv -> list stmt -> ty -> tenv -> ty -> Prop :=
  | AgSS22_nil g t : AgSS2 f g [] t g t
  | AgSS22_cons g s r g1 t1 t0 g' t :
      AgS2 f g g1 t1 s -> AgSS2 f g1 r t1 g' t -> AgSS2 f g (s :: r) t0 g' t.

  Lemma stmts_node2 f g ss t0 g' t : AgSS2 f g ss t0 g' t ->
    forall ph en E fT last lw w E' o',
    relP (false :: ph) en E g -> VR t0 last lw ->
    block_stmts (lower_stmt tops fT P) ss lw E None = Ok ((w, E'), o') ->
    match sem_stmts P f ss last en with
    | Sem.Done (v, en') => o' = None /\ VR t v w /\ relP (false :: ph) en' E' g'
    | Sem.Panicked r m => o' = Some (pcode r m)
    | _ => True
    end.
  Proof.
    induction 1 as [g t|g s r g1 t1 t0 g' t Hs _ IH]; intros ph en E fT last lw w E' o' Hrel HV Hrun.
    - cbn [block_stmts] in Hrun. apply ret_inv in Hrun. destruct Hrun as [Heq ->]. injection Heq as -> ->.
      cbn [sem_stmts]. auto.
    - cbn [block_stmts] in Hrun. minva Hrun as [w1 E1] o1 H1. cbn [sem_stmts].
      pose proof (Hs ph en E fT _ _ _ Hrel H1) as IH1. revert IH1.
      destruct (Sem.exec f P en s) as [[v en1]|r1 m1|c1|]; intro IH1; cbn [Sem.obind]; try exact I.
      + destruct IH1 as (-> & HV1 & Hrel1). exact (IH ph en1 E1 fT v w1 _ _ _ Hrel1 HV1 Hrun).
      + subst o1. destruct (tsem_sticky_fuel (pcode r1 m1) P fT) as (_ & _ & Hss & _).
        exact (stkx_block_stmts _ _ Hss r w1 E1 _ _ Hrun).
  Qed.


  Lemma block_run_agrees2 f g ss g1 t : AgSS2 f ([] :: g) ss unit_ty g1 t -> tl g1 = g ->
    forall ph en E fT w E' o',
    relP ph en E g -> lower_block tops fT P ss E None = Ok ((w, E'), o') ->
    match Sem.obind (Sem.exec_block (S f) P (Sem.push_scope en) ss)
                    (fun '(v, en1) => Sem.Done (v, Sem.pop_scope en1)) with
    | Sem.Done (v, en') => o' = None /\ VR t v w /\ relP ph en' E' g
    | Sem.Panicked r m => o' = Some (pcode r m)
    | _ => True
    end.
  Proof.
    intros Hss Htl ph en E fT w E' o' Hrel Hrun.
    destruct fT as [|fT]; [discriminate Hrun|]. rewrite lower_block_S in Hrun. unfold lower_block_body in Hrun.
    minva Hrun as [w1 E1] o1 H1. minva Hrun as E2 o2 H2. apply lift_res_inv in H2. destruct H2 as [Hp ->].
    apply ret_inv in Hrun. destruct Hrun as [Heq ->]. injection Heq as -> ->.
    rewrite exec_block_S.
    pose proof (stmts_node2 f _ _ _ _ _ Hss ph (Sem.push_scope en) (env_push E) fT Sem.unit_val [] _ _ _
                  (rel2_push _ _ _ Hrel) VR_unit H1) as IH1. revert IH1.
    destruct (sem_stmts P f ss Sem.unit_val (Sem.push_scope en)) as [[v en1]|r1 m1|c1|]; intro IH1;
      cbn [Sem.obind]; try exact I; [|exact IH1].
    destruct IH1 as (-> & HV & Hrel1). split; [reflexivity|]. split; [exact HV|].
    rewrite <- Htl. eapply rel2_pop; eassumption.
  Qed.

  Lemma block_node2 f g ss m t g1 : AgSS2 f ([] :: g) ss unit_ty g1 t -> tl g1 = g ->
    AgE2 (S (S f)) g (Ex (EBlock ss) m t).
  Proof.
    intros Hss Htl ph en E fT w E' o' Hrel Hrun. rewrite sem_eval_block.
    destruct fT as [|fT]; [discriminate Hrun|]. rewrite lower_expr_S in Hrun. cbn [lower_expr_body] in Hrun.
    cbn [e_ty]. exact (block_run_agrees2 f g ss g1 t Hss Htl ph en E fT _ _ _ Hrel Hrun).
  Qed.


  (* ---------------------------------------------------------------- function calls *)

  (* the body of a block (its own scope pushed and popped) agrees *)
  Definition AgB2 (fuel : nat) (g : tenv) (b : list stmt) (t : ty) : Prop :=
    forall ph en E fT w E' o',
    relP ph en E g -> lower_block tops fT P b E None = Ok ((w, E'), o') ->
    match Sem.obind (Sem.exec_block fuel P (Sem.push_scope en) b)
                    (fun '(v, en1) => Sem.Done (v, Sem.pop_scope en1)) with
    | Sem.Done (v, en') => o' = None /\ VR t v w /\ relP ph en' E' g
    | Sem.Panicked r m => o' = Some (pcode r m)
    | _ => True
    end.

  (* the loop of [Sem.eval] over argument lists *)
  Fixpoint sem_list (f : nat) (es : list expr) (en : Sem.env) : Sem.outcome (list Sem.value * Sem.env) :=
    match es with
    | [] => Sem.Done ([], en)
    | e :: r =>
        Sem.obind (Sem.eval f P en e) (fun '(v, en1) =>
        Sem.obind (sem_list f r en1) (fun '(vs, en2) => Sem.Done (v :: vs, en2)))
    end.

  Lemma sem_eval_call f en fn args m t :
    Sem.eval (S f) P en (Ex (ECall fn args) m t) =
    match find_fn P fn with
    | Some d =>
        Sem.obind (sem_list f args en) (fun '(vs, en1) =>
          if negb (length vs =? length (fn_params d))%nat then Sem.Stuck 46 else
          Sem.obind (Sem.exec_block f P
                       (Sem.push_scope (Sem.bind_all (Sem.mkEnv [[]; last (Sem.scopes en1) []] (Sem.lenient en1))
                                          (combine (map fst (fn_params d)) vs)))
                       (fn_body d))
                    (fun '(v, en2) => Sem.Done (v, Sem.mkEnv (Sem.scopes en1) (Sem.lenient en2))))
    | None => Sem.Stuck 47
    end.
  Proof.
    cbn [Sem.eval]. destruct (find_fn P fn) as [d|]; [|reflexivity].
    match goal with |- Sem.obind (?F args en) _ = _ =>
      assert (HF : forall es en0, F es en0 = sem_list f es en0) end.
    { induction es as [|e r IH]; intro en0; [reflexivity|]. cbn [sem_list].
      destruct (Sem.eval f P en0 e) as [[v en1]|r1 m1|c1|]; cbn [Sem.obind]; try reflexivity.
      rewrite IH. reflexivity. }
    rewrite HF. reflexivity.
  Qed.

  Lemma sticky_b fT b E x w E' o' : lower_block tops fT P b E (Some x) = Ok ((w, E'), o') -> o' = Some x.
  Proof. intro H. destruct (tsem_sticky_all P fT x) as (_ & Hb & _). eapply Hb; eassumption. Qed.

  (* arguments: each one in a phantom scope *)
  Lemma args_node f g : forall args params,
    Forall2 (fun a (p : N * ty) => AgE2 f g a /\ e_ty a = snd p) args params ->
    forall ph en E fT bs E1 o1, relP ph en E g ->
    lower_args (lower_expr tops fT P) params args E None = Ok ((bs, E1), o1) ->
    match sem_list f args en with
    | Sem.Done (vs, en1) =>
        o1 = None /\ relP ph en1 E1 g /\
        Forall3 (fun v (b : N * list bool) (p : N * ty) => fst b = fst p /\ VR (snd p) v (snd b)) vs bs params
    | Sem.Panicked r m => o1 = Some (pcode r m)
    | _ => True
    end.
  Proof.
    induction 1 as [|a [pn pt] ar pr [IHa Eta] _ IH]; intros ph en E fT bs E1 o1 Hrel Hrun.
    - cbn [lower_args] in Hrun. apply ret_inv in Hrun. destruct Hrun as [Heq ->]. injection Heq as -> ->.
      cbn [sem_list]. repeat split; [exact Hrel|constructor].
    - cbn [lower_args] in Hrun. minva Hrun as [w Ea] oa Ha. minva Hrun as Eb ob Hp.
      apply lift_res_inv in Hp. destruct Hp as [Hp ->]. minva Hrun as [bs' Ec] oc Hr.
      apply ret_inv in Hrun. destruct Hrun as [Heq ->]. injection Heq as -> ->.
      cbn [sem_list]. pose proof (IHa (true :: ph) en (env_push E) fT _ _ _ (rel2_phantom _ _ _ Hrel) Ha) as IH1.
      revert IH1. destruct (Sem.eval f P en a) as [[v en1]|r1 m1|c1|]; intro IH1; cbn [Sem.obind]; try exact I.
      + destruct IH1 as (-> & HV & Hrel1). pose proof (rel2_unphantom _ _ _ _ Hrel1 Hp) as Hrel2.
        pose proof (IH ph en1 Eb fT _ _ _ Hrel2 Hr) as IH2. revert IH2.
        destruct (sem_list f ar en1) as [[vs en2]|r2 m2|c2|]; intro IH2; cbn [Sem.obind]; try exact I; [|exact IH2].
        destruct IH2 as (-> & Hrel3 & HF). repeat split; [exact Hrel3|].
        constructor; [|exact HF]. cbn [fst snd] in *. split; [reflexivity|]. now rewrite <- Eta.
      + subst oa. destruct (tsem_sticky_fuel (pcode r1 m1) P fT) as (He & _).
        exact (stkx_lower_args _ _ He pr ar Eb _ _ Hr).
  Qed.

  Lemma scope_rel_nil s cs : scope_rel VR s cs [] -> s = [] /\ cs = [].
  Proof.
    intros [_ H]. split.
    - destruct s as [|[k v] s]; [reflexivity|]. destruct (H k) as [H1 _]. cbn [assocN] in H1.
      rewrite N.eqb_refl in H1. discriminate H1.
    - destruct cs as [|[k v] cs]; [reflexivity|]. destruct (H k) as [_ H1]. cbn [assocN] in H1.
      rewrite N.eqb_refl in H1. discriminate H1.
  Qed.

  Lemma last_cons_ne {A} (a : A) l d : l <> [] -> last (a :: l) d = last l d.
  Proof. destruct l; [congruence|reflexivity]. Qed.

  Lemma relS_nil_g' ph ss E g : relS ph ss E g -> g = [] -> ss = [] /\ last ([] :: E) [] = [].
  Proof.
    induction 1 as [|ph s cs gs ss E g _ _ _|ph ss E g _ IH]; intro Eg; try discriminate Eg.
    - auto.
    - destruct (IH Eg) as [-> Hl]. split; [reflexivity|]. destruct E; [reflexivity|]. exact Hl.
  Qed.

  Lemma relS_nil_g ph ss E : relS ph ss E [] -> ss = [] /\ last ([] :: E) [] = [].
  Proof. intro H. now apply (relS_nil_g' _ _ _ _ H). Qed.

  (* the outermost scope is the empty scope of the (absent) global constants *)
  Lemma rel_last ph ss E g : relS ph ss E g -> g <> [] -> last g [] = [] ->
    last ss [] = [] /\ last E [] = [] /\ ss <> [] /\ E <> [].
  Proof.
    induction 1 as [|ph s cs gs ss E g Hs Hr IH|ph ss E g Hr IH]; intros Hne Hl; [congruence| |].
    - destruct g as [|g1 g'].
      + cbn [last] in Hl. subst gs. destruct (scope_rel_nil _ _ Hs) as [-> ->].
        destruct (relS_nil_g _ _ _ Hr) as [-> HE]. repeat split; try discriminate. exact HE.
      + rewrite last_cons_ne in Hl by discriminate.
        destruct (IH ltac:(discriminate) Hl) as (H1 & H2 & H3 & H4).
        rewrite !last_cons_ne by assumption. repeat split; try discriminate; assumption.
    - destruct (IH Hne Hl) as (H1 & H2 & H3 & H4).
      rewrite last_cons_ne by assumption. repeat split; try discriminate; assumption.
  Qed.

  Lemma tbind_all_cons gs g bs mu : exists gs', tbind_all (gs :: g) bs mu = gs' :: g.
  Proof.
    revert gs. induction bs as [|[x t] r IH]; intro gs; [exists gs; reflexivity|]. unfold tbind_all in *. cbn [fold_left tbind fst snd].
    apply IH.
  Qed.

  (* the environment of the callee: the parameters in a scope of their own over the global scope *)
  Lemma callee_rel : forall vs bs params,
    Forall3 (fun v (b : N * list bool) (p : N * ty) => fst b = fst p /\ VR (snd p) v (snd b)) vs bs params ->
    forall en E g E', relP [false; false] en E g ->
    fold_left (fun Er b => let* E0 := Er in env_let E0 (fst b) (snd b)) bs (Ok E) = Ok E' ->
    relP [false; false] (Sem.bind_all en (combine (map fst params) vs)) E' (tbind_all g params true).
  Proof.
    induction 1 as [|v [bn bw] [pn pt] vs bs params [Hn HV] _ IH]; intros en E g E' Hrel Hf.
    - cbn in Hf. injection Hf as <-. exact Hrel.
    - cbn [fst snd] in Hn, HV. subst bn. cbn [fold_left bind fst snd] in Hf.
      destruct (env_let E pn bw) as [E1| |] eqn:El;
        [|exfalso; eapply fold_env_let_not_ok; [|exact Hf]; intros ? Hq; discriminate Hq
         |exfalso; eapply fold_env_let_not_ok; [|exact Hf]; intros ? Hq; discriminate Hq].
      unfold Sem.bind_all, tbind_all. cbn [map fst combine fold_left snd].
      apply (IH _ E1 _ E'); [|exact Hf]. eapply rel2_let; eassumption.
  Qed.

  Lemma call_node f g fn args m t d :
    find_fn P fn = Some d ->
    Forall2 (fun a (p : N * ty) => AgE2 f g a /\ e_ty a = snd p) args (fn_params d) ->
    AgB2 f (tbind_all [[]; []] (fn_params d) true) (fn_body d) t ->
    g <> [] -> last g [] = [] ->
    AgE2 (S f) g (Ex (ECall fn args) m t).
  Proof.
    intros Hfind Hargs Hbody Hgne Hgl ph en E fT w E' o' Hrel Hrun.
    destruct fT as [|fT]; [discriminate Hrun|]. rewrite lower_expr_S in Hrun. cbn [lower_expr_body] in Hrun.
    rewrite Hfind in Hrun. minva Hrun as [bs E1] o1 Ha.
    destruct (rev E1) as [|glob crev] eqn:Erev; [discriminate Hrun|].
    minva Hrun as Ecallee o2 Hbind. apply lift_res_inv in Hbind. destruct Hbind as [Hbind ->].
    minva Hrun as [bw E2] o3 Hb. minva Hrun as E3 o4 Hp. apply lift_res_inv in Hp. destruct Hp as [Hp ->].
    apply ret_inv in Hrun. destruct Hrun as [Heq ->]. injection Heq as -> ->.
    rewrite sem_eval_call, Hfind.
    pose proof (args_node f g args (fn_params d) Hargs ph en E fT _ _ _ Hrel Ha) as IH1. revert IH1.
    destruct (sem_list f args en) as [[vs en1]|r1 m1|c1|]; intro IH1; cbn [Sem.obind]; try exact I.
    - destruct IH1 as (-> & Hrel1 & HF).
      assert (length vs = length (fn_params d)) as Hlen.
      { clear - HF. induction HF; cbn [length]; congruence. }
      rewrite Hlen, Nat.eqb_refl. cbn [negb].
      destruct (rel_last _ _ _ _ Hrel1 Hgne Hgl) as (Hls & HlE & _ & _).
      assert (E1 = rev crev ++ [glob]) as HE1.
      { rewrite <- (rev_involutive E1), Erev. reflexivity. }
      assert (glob = []) as ->.
      { rewrite HE1, last_last in HlE. exact HlE. }
      rewrite Hls.
      assert (Hrel0 : relP [false; false] (Sem.mkEnv [[]; []] (Sem.lenient en1)) (env_push [[]]) [[]; []]).
      { unfold relP, env_push. cbn [Sem.scopes].
        assert (scope_rel VR [] [] []) as Hnil by (split; [exact I|intro x; cbn; auto]).
        repeat constructor; exact Hnil. }
      unfold Lower.bind_all in Hbind.
      pose proof (callee_rel _ _ _ HF _ _ _ _ Hrel0 Hbind) as Hrelc.
      pose proof (Hbody [false; false] _ _ fT _ _ _ Hrelc Hb) as IH2. revert IH2.
      destruct (Sem.exec_block f P _ (fn_body d)) as [[v en2]|r2 m2|c2|]; intro IH2; cbn [Sem.obind]; try exact I;
        [|exact IH2].
      destruct IH2 as (-> & HV & Hrel2). cbn [e_ty]. split; [reflexivity|]. split; [exact HV|].
      (* the callee leaves the (empty) global scope as it is *)
      destruct (tbind_all_cons [] [[]] (fn_params d) true) as [gs' Hg]. rewrite Hg in Hrel2.
      unfold relP in Hrel2. inversion Hrel2 as [|? s1 cs1 ? ss1 Ex1 ? Hs1 Hr1|]; subst.
      inversion Hr1 as [|? s2 cs2 ? ss2 Ex2 ? Hs2 Hr2|]; subst. inversion Hr2; subst.
      destruct (scope_rel_nil _ _ Hs2) as [_ ->].
      cbn [env_pop] in Hp. injection Hp as <-.
      eapply rel2_scopes; [|exact Hrel1]. reflexivity.
    - subst o1. pose proof (sticky_b _ _ _ _ _ _ _ Hb) as ->. reflexivity.
  Qed.

  (* ---------------------------------------------------------------- for loops *)

  (* the loop of [Sem.exec] for [SFor] with an identifier pattern *)
  Fixpoint sem_for (f : nat) (x : N) (body : list stmt) (vs : list Sem.value) (en : Sem.env)
    : Sem.outcome Sem.env :=
    match vs with
    | [] => Sem.Done en
    | v :: r =>
        Sem.obind (Sem.exec_block f P (Sem.bind_var (Sem.push_scope en) x v) body)
                  (fun '(_, en1) => sem_for f x body r (Sem.pop_scope en1))
    end.

  (* [lower_stmts] is [block_stmts] without the value *)
  Lemma lower_stmts_block (rs : stmt -> @cenv bool -> MB (list bool * @cenv bool)) :
    forall ss last E (o : pobs) E' o', lower_stmts rs ss E o = Ok (E', o') ->
    exists w, block_stmts rs ss last E o = Ok ((w, E'), o').
  Proof.
    induction ss as [|s r IH]; intros last E o E' o' H; cbn [lower_stmts block_stmts] in *.
    - apply ret_inv in H. destruct H as [-> ->]. eexists. reflexivity.
    - minva H as [w1 E1] o1 H1. destruct (IH w1 E1 o1 E' o' H) as [w Hw]. exists w.
      unfold mbind. rewrite H1. exact Hw.
  Qed.

  (* the iterations: one chunk of wires per element *)
  Lemma for_iter_node f' g x mp tel body g1 tb eb :
    AgSS2 f' (tbind ([] :: g) x tel false) body unit_ty g1 tb -> tl g1 = g ->
    forall vs chunks, Forall2 (VR tel) vs chunks -> (forall c, In c chunks -> length c = eb) ->
    forall ph en E fT E' o', relP ph en E g ->
    for_iterations (lower_pattern tops fT P) (lower_stmt tops fT P) (Pat (PId x) mp tel) body eb
      (length chunks) (concat chunks) E None = Ok (E', o') ->
    match sem_for (S f') x body vs en with
    | Sem.Done en' => o' = None /\ relP ph en' E' g
    | Sem.Panicked r m => o' = Some (pcode r m)
    | _ => True
    end.
  Proof.
    intros Hss Htl. induction 1 as [|v c vs cs HV _ IH]; intros Hlen ph en E fT E' o' Hrel Hrun.
    - cbn [length for_iterations] in Hrun. apply ret_inv in Hrun. destruct Hrun as [-> ->]. cbn [sem_for]. auto.
    - cbn [length concat for_iterations] in Hrun.
      assert (Hc : length c = eb) by (apply Hlen; now left).
      minva Hrun as bnd o1 Hsl. apply lift_res_inv in Hsl. destruct Hsl as [Hsl ->].
      unfold slice in Hsl. cbn [Nat.add skipn] in Hsl.
      destruct (eb <=? length (c ++ concat cs))%nat; [|discriminate Hsl]. injection Hsl as <-.
      rewrite <- Hc, firstn_app, Nat.sub_diag, firstn_all in Hrun. cbn [firstn] in Hrun. rewrite app_nil_r in Hrun.
      rewrite skipn_app, Nat.sub_diag, skipn_all in Hrun. cbn [skipn app] in Hrun. rewrite Hc in Hrun.
      minva Hrun as [cm Ea] o2 Hp. minva Hrun as Eb o3 Hb. minva Hrun as Ec o4 Hpop.
      apply lift_res_inv in Hpop. destruct Hpop as [Hpop ->].
      destruct fT as [|fT']; [discriminate Hp|].
      change (lower_pattern tops (S fT') P (Pat (PId x) mp tel) c (env_push E) None)
        with (lower_pattern_body tops P (lower_pattern tops fT' P) (Pat (PId x) mp tel) c (env_push E) None) in Hp.
      cbn [lower_pattern_body] in Hp. minva Hp as Ea' o5 Hl. apply lift_res_inv in Hl. destruct Hl as [Hl ->].
      apply ret_inv in Hp. destruct Hp as [Heq ->]. injection Heq as _ ->.
      pose proof (rel2_let _ _ _ x tel false v c _ (rel2_push _ _ _ Hrel) HV Hl) as Hrel1.
      destruct (lower_stmts_block _ body [] _ _ _ _ Hb) as [wb Hbb].
      cbn [sem_for]. rewrite exec_block_S.
      pose proof (stmts_node2 f' _ _ _ _ _ Hss ph _ _ (S fT') Sem.unit_val [] _ _ _ Hrel1 VR_unit Hbb) as IH1.
      revert IH1.
      destruct (sem_stmts P f' body Sem.unit_val (Sem.bind_var (Sem.push_scope en) x v)) as [[vb en1]|r1 m1|c1|];
        intro IH1; cbn [Sem.obind]; try exact I.
      + destruct IH1 as (-> & _ & Hrel2). pose proof (rel2_pop _ _ _ _ Hrel2 Hpop) as Hrel3. rewrite Htl in Hrel3.
        apply (IH (fun c0 Hin => Hlen c0 (or_intror Hin)) ph _ _ (S fT') _ _ Hrel3 Hrun).
      + subst o3. destruct (tsem_sticky_fuel (pcode r1 m1) P (S fT')) as (_ & _ & Hs & Hpp).
        exact (stkx_for_iterations _ _ _ Hpp Hs _ _ _ _ _ _ _ _ Hrun).
  Qed.

End Control2.

(* ------------------------------------------------------------------ scalars: the operator nodes of
   TSemSemStmt.v, for the relation with phantom scopes *)

Section Scalar2.
  Variable P : program.
  Notation AgE' := (AgE2 P VRs).
  

  Lemma lit_true_node2 f g m : AgE' f g (Ex ETrue m TBool).
  Proof.
    intros ph en E fT w E' o' Hrel Hrun. destruct fT as [|fT]; [discriminate Hrun|].
    apply ret_inv in Hrun. destruct Hrun as [Heq ->]. injection Heq as -> ->.
    destruct f; [exact I|]. cbn [Sem.eval e_ty]. repeat split; [|exact Hrel]. now apply VRs_intro.
  Qed.

  Lemma lit_false_node2 f g m : AgE' f g (Ex EFalse m TBool).
  Proof.
    intros ph en E fT w E' o' Hrel Hrun. destruct fT as [|fT]; [discriminate Hrun|].
    apply ret_inv in Hrun. destruct Hrun as [Heq ->]. injection Heq as -> ->.
    destruct f; [exact I|]. cbn [Sem.eval e_ty]. repeat split; [|exact Hrel]. now apply VRs_intro.
  Qed.

  Lemma lit_numU_node2 f g n lb m sg b : ok_width b = true -> lit_fits (TInt sg b) (Z.of_N n) = true ->
    AgE' f g (Ex (ENumU n lb) m (TInt sg b)).
  Proof.
    intros Hb Hl ph en E fT w E' o' Hrel Hrun. destruct fT as [|fT]; [discriminate Hrun|].
    apply ret_inv in Hrun. destruct Hrun as [Heq ->]. injection Heq as -> ->.
    destruct f; [exact I|]. cbn [Sem.eval e_ty]. repeat split; [|exact Hrel].
    rewrite tsem_unsigned_as_wires. apply (VRs_intro (TInt sg b) (Sem.VInt (Z.of_N n))); [exact Hb|].
    cbn [val_ok]. now rewrite <- lit_fits_in_range.
  Qed.

  Lemma lit_numS_node2 f g z lb m sg b : ok_width b = true -> lit_fits (TInt sg b) z = true ->
    AgE' f g (Ex (ENumS z lb) m (TInt sg b)).
  Proof.
    intros Hb Hl ph en E fT w E' o' Hrel Hrun. destruct fT as [|fT]; [discriminate Hrun|].
    apply ret_inv in Hrun. destruct Hrun as [Heq ->]. injection Heq as -> ->.
    destruct f; [exact I|]. cbn [Sem.eval e_ty]. repeat split; [|exact Hrel].
    rewrite tsem_signed_as_wires. apply (VRs_intro (TInt sg b) (Sem.VInt z)); [exact Hb|].
    cbn [val_ok]. now rewrite <- lit_fits_in_range.
  Qed.

  Lemma id_node2 f g x m t mu : tlookup g x = Some (t, mu) -> AgE' f g (Ex (EId x) m t).
  Proof.
    intros Hl ph en E fT w E' o' Hrel Hrun. destruct fT as [|fT]; [discriminate Hrun|].
    rewrite lower_expr_S in Hrun. cbn [lower_expr_body] in Hrun.
    destruct (rel2_lookup _ _ _ _ _ _ _ Hrel Hl) as (v & w0 & Hv & Hw & HV). rewrite Hw in Hrun.
    apply ret_inv in Hrun. destruct Hrun as [Heq ->]. injection Heq as -> ->.
    destruct f; [exact I|]. cbn [Sem.eval e_ty]. rewrite Hv. auto.
  Qed.

  (* ---------------------------------------------------------------- + - * / % & ^ | < > == != *)

  Lemma binop_node_p2 f g o x y m t tx :
    op_arith o || op_cmp o || op_eq o = true ->
    (o = OMul -> is_num_lit x = false /\ is_num_lit y = false) ->
    e_ty x = tx -> e_ty y = tx -> scalar_ty tx = true -> scalar_ty t = true ->
    (forall vx vy len, val_ok tx vx -> val_ok tx vy -> binop_agrees o m t tx vx vy len) ->
    AgE' f g x -> AgE' f g y -> AgE' (S f) g (Ex (EOp o x y) m t).
  Proof.
    intros Ho Hm Etx Ety Hsx Hst Hag IHx IHy ph en E fT w E' o' Hrel Hrun.
    destruct fT as [|fT]; [discriminate Hrun|]. rewrite lower_expr_S in Hrun.
    apply binop_run_inv in Hrun; [|exact Ho|exact Hm].
    destruct Hrun as (xw & E1 & o1 & yw & o2 & Hx & Hy & Hb).
    rewrite (sem_eval_op P f en o x y m t Ho).
    pose proof (IHx ph en E fT _ _ _ Hrel Hx) as IH1. revert IH1.
    destruct (Sem.eval f P en x) as [[vx en1]|r1 m1|c1|]; intro IH1; cbn [Sem.obind]; try exact I.
    - destruct IH1 as (-> & HVx & Hrel1). rewrite Etx in HVx.
      destruct (VRs_scalar _ _ _ Hsx HVx) as [Hokx ->].
      pose proof (IHy ph en1 E1 fT _ _ _ Hrel1 Hy) as IH2. revert IH2.
      destruct (Sem.eval f P en1 y) as [[vy en2]|r2 m2|c2|]; intro IH2; cbn [Sem.obind]; try exact I.
      + destruct IH2 as (-> & HVy & Hrel2). rewrite Ety in HVy.
        destruct (VRs_scalar _ _ _ Hsx HVy) as [Hoky ->].
        pose proof (Hag vx vy (Sem.lenient en2) Hokx Hoky) as HA. unfold binop_agrees in HA.
        rewrite Etx, Ety in Hb. rewrite Etx. revert HA.
        destruct (Sem.eval_binop o m t tx vx vy (Sem.lenient en2)) as [[v len]|r3 m3|c3|];
          intro HA; cbn [Sem.obind]; try contradiction.
        * destruct HA as [Hokv HB]. rewrite HB in Hb. injection Hb as <- <-. cbn [e_ty].
          split; [reflexivity|]. split; [now apply VRs_intro|]. eapply rel2_scopes; [|exact Hrel2]. reflexivity.
        * destruct HA as [-> [w' HB]]. rewrite HB in Hb. now injection Hb as _ <-.
      + subst o2. exact (stkx_lower_binop _ _ _ _ _ _ _ _ _ _ Hb).
    - subst o1. pose proof (sticky_e P _ _ _ _ _ _ _ Hy) as ->.
      exact (stkx_lower_binop _ _ _ _ _ _ _ _ _ _ Hb).
  Qed.

  (* ---------------------------------------------------------------- << >> *)

  Lemma shift_node_p2 f g (left : bool) x y m sg b :
    ok_width b = true -> e_ty x = TInt sg b -> e_ty y = TInt false 8 ->
    AgE' f g x -> AgE' f g y -> AgE' (S f) g (Ex (EOp (if left then OShl else OShr) x y) m (TInt sg b)).
  Proof.
    intros Hb Etx Ety IHx IHy ph en E fT w E' o' Hrel Hrun.
    destruct fT as [|fT]; [discriminate Hrun|]. rewrite lower_expr_S in Hrun.
    apply shift_run_inv in Hrun. destruct Hrun as (xw & E1 & o1 & yw & o2 & Hx & Hy & Hs).
    rewrite (sem_eval_shift P f en (if left then OShl else OShr) x y m (TInt sg b) ltac:(now destruct left)).
    pose proof (IHx ph en E fT _ _ _ Hrel Hx) as IH1. revert IH1.
    destruct (Sem.eval f P en x) as [[vx en1]|r1 m1|c1|]; intro IH1; cbn [Sem.obind]; try exact I.
    - destruct IH1 as (-> & HVx & Hrel1). rewrite Etx in HVx.
      destruct (VRs_scalar (TInt sg b) _ _ Hb HVx) as [Hokx ->].
      pose proof (IHy ph en1 E1 fT _ _ _ Hrel1 Hy) as IH2. revert IH2.
      destruct (Sem.eval f P en1 y) as [[vy en2]|r2 m2|c2|]; intro IH2; cbn [Sem.obind]; try exact I.
      + destruct IH2 as (-> & HVy & Hrel2). rewrite Ety in HVy.
        destruct (VRs_scalar (TInt false 8) _ _ eq_refl HVy) as [Hoky ->].
        destruct vx as [|a| | |]; try contradiction. destruct vy as [|s| | |]; try contradiction.
        cbn [val_ok enc_val] in *. change (N.to_nat 8) with 8%nat in Hs.
        rewrite Etx, is_signed_int in Hs.
        rewrite (tsem_lower_shift left sg _ _ m None (length_enc 8 s)
                   (eq_ind_r (fun k => In k [8; 16; 32; 64]%nat) (ok_width_in b Hb) (length_enc (N.to_nat b) a))) in Hs.
        pose proof (shift_agrees left m sg b a s (Sem.lenient en2) Hb Hokx Hoky) as HA. cbv zeta in HA.
        rewrite Etx. revert HA.
        destruct (Sem.eval_binop (if left then OShl else OShr) m (TInt sg b) (TInt sg b) (Sem.VInt a) (Sem.VInt s)
                    (Sem.lenient en2)) as [[v len]|r3 m3|c3|]; intro HA; cbn [Sem.obind]; try contradiction.
        * destruct HA as (Hokv & Hval & Hcond). rewrite Hval, Hcond in Hs. injection Hs as <- <-. cbn [e_ty].
          split; [reflexivity|]. split; [now apply VRs_intro|]. eapply rel2_scopes; [|exact Hrel2]. reflexivity.
        * destruct HA as (-> & -> & Hcond). rewrite Hcond in Hs. now injection Hs as _ <-.
      + subst o2. exact (stkx_lower_shift _ _ _ _ _ _ _ _ Hs).
    - subst o1. pose proof (sticky_e P _ _ _ _ _ _ _ Hy) as ->.
      exact (stkx_lower_shift _ _ _ _ _ _ _ _ Hs).
  Qed.

  (* ---------------------------------------------------------------- unary minus, `!`, casts *)

  Lemma neg_node_p2 f g e1 m b : ok_width b = true -> e_ty e1 = TInt true b ->
    AgE' f g e1 -> AgE' (S f) g (Ex (ENeg e1) m (TInt true b)).
  Proof.
    intros Hb Et1 IH ph en E fT w E' o' Hrel Hrun.
    destruct fT as [|fT]; [discriminate Hrun|]. rewrite lower_expr_S, lower_neg_case in Hrun.
    minva Hrun as [x E1] o1 He. cbv beta iota in Hrun.
    rewrite (sem_eval_neg P). pose proof (ok_width_pos b Hb) as Hb2.
    pose proof (IH ph en E fT _ _ _ Hrel He) as IH1. revert IH1.
    destruct (Sem.eval f P en e1) as [[v en1]|r1 m1|c1|]; intro IH1; cbn [Sem.obind]; try exact I.
    - destruct IH1 as (-> & HV & Hrel1). rewrite Et1 in HV.
      destruct (VRs_scalar (TInt true b) _ _ Hb HV) as [Hok ->].
      destruct v as [|z| | |]; try contradiction. cbn [val_ok enc_val Sem.int_ty] in *.
      rewrite neg_steps_correct in Hrun by (apply enc_nonempty; lia).
      rewrite length_enc, N2Nat.id, (sval_enc_ok b z) in Hrun by (assumption || lia).
      apply ret_inv in Hrun. destruct Hrun as [Heq ->]. injection Heq as -> ->.
      unfold Sem.checked. destruct (Sem.in_range true b (- z)) eqn:Hr; cbn [Sem.obind negb push_spec e_ty].
      + split; [reflexivity|]. split; [|exact Hrel1]. now apply (VRs_intro (TInt true b) (Sem.VInt (- z))).
      + reflexivity.
    - subst o1. refine (stkx_neg_steps _ x m _ _ _ _ Hrun). intro r. apply stkx_ret.
  Qed.

  Lemma not_node_p2 f g e1 m t : scalar_ty t = true -> e_ty e1 = t ->
    AgE' f g e1 -> AgE' (S f) g (Ex (ENot e1) m t).
  Proof.
    intros Hsc Et1 IH ph en E fT w E' o' Hrel Hrun.
    destruct fT as [|fT]; [discriminate Hrun|]. rewrite lower_expr_S in Hrun.
    apply not_run_inv in Hrun. destruct Hrun as (x & He & ->).
    rewrite (sem_eval_not P). pose proof (IH ph en E fT _ _ _ Hrel He) as IH1. revert IH1.
    destruct (Sem.eval f P en e1) as [[v en1]|r1 m1|c1|]; intro IH1; cbn [Sem.obind]; try exact I; [|exact IH1].
    destruct IH1 as (-> & HV & Hrel1). rewrite Et1 in HV. destruct (VRs_scalar _ _ _ Hsc HV) as [Hok ->].
    destruct t as [|sg b| | | |]; try discriminate Hsc; destruct v as [p|z| | |]; try contradiction;
      cbn [e_ty val_ok enc_val map] in *.
    - split; [reflexivity|]. split; [|exact Hrel1]. now apply (VRs_intro TBool (Sem.VBool (negb p))).
    - pose proof (ok_width_pos b Hsc) as Hb2. split; [reflexivity|]. split; [|exact Hrel1].
      rewrite map_negb_enc, <- (enc_wrap sg b).
      apply (VRs_intro (TInt sg b) (Sem.VInt (Sem.wrap sg b (Z.lnot z)))); [exact Hsc|].
      apply wrap_in_range. lia.
  Qed.

  Lemma cast_node_p2 f g e1 m t : scalar_ty t = true -> scalar_ty (e_ty e1) = true ->
    AgE' f g e1 -> AgE' (S f) g (Ex (ECast t e1) m t).
  Proof.
    intros Hsc Hsc1 IH ph en E fT w E' o' Hrel Hrun.
    destruct fT as [|fT]; [discriminate Hrun|]. rewrite lower_expr_S in Hrun.
    pose proof Hrun as H0. cbn [lower_expr_body] in H0. minva H0 as [x E1] o1 He. clear H0.
    destruct (tsem_cast_correct P _ (lower_pattern tops fT P) (lower_block tops fT P) t e1 m t E None x E1 o1 He)
      as (r & HR & _).
    rewrite (sem_eval_cast P). pose proof (IH ph en E fT _ _ _ Hrel He) as IH1. revert IH1.
    destruct (Sem.eval f P en e1) as [[v en1]|r1 m1|c1|]; intro IH1; cbn [Sem.obind]; try exact I.
    - destruct IH1 as (-> & HV & Hrel1). destruct (VRs_scalar _ _ _ Hsc1 HV) as [Hok ->].
      pose proof (cast_agrees P _ (lower_pattern tops fT P) (lower_block tops fT P) t e1 m E None v E1 None
                    Hsc Hsc1 Hok He) as HC. revert HC.
      destruct (Sem.eval_cast t (e_ty e1) v) as [v'| | |]; intro HC; try contradiction; cbn [Sem.obind].
      destruct HC as [Hokv HB]. rewrite HB in Hrun. injection Hrun as <- <- <-. cbn [e_ty].
      split; [reflexivity|]. split; [now apply VRs_intro|exact Hrel1].
    - subst o1. rewrite HR in Hrun. now injection Hrun as _ _ <-.
  Qed.
End Scalar2.

(* ------------------------------------------------------------------ for loops over a range *)

Section ForRange.
  Variable P : program.

  Lemma sem_exec_for f en x mp tp lo hi bits ma ta body m :
    Sem.exec (S (S f)) P en (St (SFor (Pat (PId x) mp tp) (Ex (ERange lo hi bits) ma ta) body) m) =
    Sem.obind (sem_for P (S f) x body
                 (map (fun k => Sem.VInt (Z.of_N lo + Z.of_nat k)) (seq 0 (N.to_nat (hi - lo)))) en)
              (fun en2 => Sem.Done (Sem.unit_val, en2)).
  Proof.
    cbn [Sem.exec Sem.eval Sem.obind]. unfold Sem.andthen.
    match goal with |- Sem.obind (?F ?vs en) _ = _ =>
      assert (HF : forall l e0, F l e0 = sem_for P (S f) x body l e0) end.
    { induction l as [|v r IH]; intro e0; [reflexivity|]. cbn [sem_for Sem.pmatch Sem.bind_all fold_left fst snd].
      destruct (Sem.exec_block (S f) P (Sem.bind_var (Sem.push_scope e0) x v) body) as [[vb en1]|r1 m1|c1|];
        cbn [Sem.obind]; try reflexivity. apply IH. }
    rewrite HF. reflexivity.
  Qed.

  Lemma Forall2_map_in {A B C} (R : B -> C -> Prop) (f : A -> B) (h : A -> C) l :
    (forall k, In k l -> R (f k) (h k)) -> Forall2 R (map f l) (map h l).
  Proof.
    induction l as [|a l IH]; intro H; cbn [map]; constructor; [apply H; now left|].
    apply IH. intros k Hk. apply H. now right.
  Qed.

  Lemma for_node2 f' g x mp lo hi bits ma body m g1 tb :
    ok_width bits = true -> lo <= hi -> hi <= 2 ^ bits ->
    AgSS2 P VRs f' (tbind ([] :: g) x (TInt false bits) false) body unit_ty g1 tb -> tl g1 = g ->
    AgS2 P VRs (S (S f')) g g unit_ty
      (St (SFor (Pat (PId x) mp (TInt false bits))
                (Ex (ERange lo hi bits) ma (TArr (TInt false bits) (hi - lo))) body) m).
  Proof.
    intros Hb Hlo Hhi Hss Htl ph en E fT w E' o' Hrel Hrun.
    destruct fT as [|fT]; [discriminate Hrun|]. rewrite lower_stmt_S in Hrun.
    cbn [lower_stmt_body e_ty array_size] in Hrun.
    minva Hrun as [eb n] o1 H1. apply lift_res_inv in H1. destruct H1 as [H1 ->]. injection H1 as <- <-.
    minva Hrun as [aw E1] o2 Ha.
    destruct fT as [|fT']; [discriminate Ha|]. rewrite lower_expr_S in Ha. cbn [lower_expr_body] in Ha.
    destruct (N.ltb_spec hi lo) as [Hlt|_]; [lia|]. apply ret_inv in Ha. destruct Ha as [Heq ->].
    injection Heq as -> ->.
    minva Hrun as E2 o3 Hf. apply ret_inv in Hrun. destruct Hrun as [Heq ->]. injection Heq as -> ->.
    set (chunks := map (fun k => unsigned_as_wires tops (lo + N.of_nat k) (N.to_nat bits)) (seq 0 (N.to_nat (hi - lo)))) in *.
    assert (Hn : N.to_nat (hi - lo) = length chunks) by (unfold chunks; now rewrite map_length, seq_length).
    rewrite Hn in Hf.
    rewrite sem_exec_for.
    assert (HF2 : Forall2 (VRs (TInt false bits))
              (map (fun k => Sem.VInt (Z.of_N lo + Z.of_nat k)) (seq 0 (N.to_nat (hi - lo)))) chunks).
    { unfold chunks. apply Forall2_map_in. intros k Hk. apply in_seq in Hk.
      rewrite tsem_unsigned_as_wires.
      replace (Z.of_N (lo + N.of_nat k)) with (Z.of_N lo + Z.of_nat k)%Z by lia.
      apply (VRs_intro (TInt false bits) (Sem.VInt (Z.of_N lo + Z.of_nat k))); [exact Hb|].
      cbn [val_ok]. apply (in_range_of_bounds false). split; [lia|].
      rewrite <- pow2_N_Z. lia. }
    assert (Hlen : forall c, In c chunks -> length c = szn P (TInt false bits)).
    { intros c Hc. unfold chunks in Hc. apply in_map_iff in Hc. destruct Hc as (k & <- & _).
      rewrite tsem_unsigned_as_wires. apply length_enc. }
    pose proof (for_iter_node P VRs VRs_unit f' g x mp (TInt false bits) body g1 tb _ Hss Htl _ _ HF2 Hlen
                  (false :: ph) en E (S fT') _ _ Hrel Hf) as IH1. revert IH1.
    destruct (sem_for P (S f') x body _ en) as [en'|r1 m1|c1|]; intro IH1; cbn [Sem.obind]; try exact I; [|exact IH1].
    destruct IH1 as [-> Hrel2]. split; [reflexivity|]. split; [exact VRs_unit|exact Hrel2].
  Qed.
End ForRange.

(* ------------------------------------------------------------------ the fragment with calls *)

Fixpoint imp2_expr (e : expr) : bool :=
  match e with
  | Ex ei _ _ =>
    match ei with
    | ETrue | EFalse | ENumU _ _ | ENumS _ _ | EId _ => true
    | ENeg e1 | ENot e1 | ECast _ e1 => imp2_expr e1
    | EOp o x y =>
        imp2_expr x && imp2_expr y &&
        match o with OMul => negb (is_num_lit x) && negb (is_num_lit y) | _ => true end
    | EIf c a b => imp2_expr c && imp2_expr a && imp2_expr b
    | EBlock b => forallb imp2_stmt b
    | ECall _ args => forallb imp2_expr args
    | _ => false
    end
  end
with imp2_stmt (s : stmt) : bool :=
  match s with
  | St si _ =>
    match si with
    | SLet (Pat (PId _) _ _) e => imp2_expr e
    | SLetMut _ e => imp2_expr e
    | SAssign _ [] e => imp2_expr e
    | SFor (Pat (PId _) _ _) (Ex (ERange _ _ _) _ _) body => forallb imp2_stmt body
    | SExpr e => imp2_expr e
    | _ => false
    end
  end.

Section Keys2.
  Variable P : program.
  Hypothesis Hfns : forallb (fun d => forallb imp2_stmt (fn_body d)) (p_fns P) = true.

  Lemma find_fn_body fn d : find_fn P fn = Some d -> forallb imp2_stmt (fn_body d) = true.
  Proof.
    intro H. unfold find_fn in H. apply find_some in H. destruct H as [Hin _].
    rewrite forallb_forall in Hfns. now apply Hfns.
  Qed.

  Definition KPe2 (fT : nat) : Prop := forall e, imp2_expr e = true ->
    forall E o w E' o', lower_expr tops fT P e E o = Ok ((w, E'), o') -> keys E' = keys E.
  Definition KPs2 (fT : nat) : Prop := forall s, imp2_stmt s = true ->
    forall E o w E' o', lower_stmt tops fT P s E o = Ok ((w, E'), o') -> SKP E E'.


  Lemma block_keys fT : KPs2 fT -> forall b, forallb imp2_stmt b = true ->
    forall E o w E' o', lower_block tops (S fT) P b E o = Ok ((w, E'), o') -> keys E' = keys E.
  Proof.
    intros IHs b Hi E o w E' o' H. rewrite lower_block_S in H. unfold lower_block_body in H.
    minva H as [w1 E1] o1 H1. minva H as E2 o2 H2. apply lift_res_inv in H2. destruct H2 as [Hp _].
    apply ret_inv in H. destruct H as [Heq _]. injection Heq as _ ->.
    apply block_stmts_keys in H1.
    - destruct H1 as [Hk Hl]. destruct E1 as [|s1 E1']; [discriminate Hp|]. cbn [env_pop] in Hp.
      injection Hp as <-. exact Hk.
    - intros s Hin. apply IHs. rewrite forallb_forall in Hi. now apply Hi.
  Qed.

  Lemma args_keys fT : KPe2 fT -> forall args, forallb imp2_expr args = true ->
    forall params E o bs E1 o1,
    lower_args (lower_expr tops fT P) params args E o = Ok ((bs, E1), o1) -> keys E1 = keys E.
  Proof.
    intros IHe. induction args as [|a ar IH]; intros Hi params E o bs E1 o1 H.
    - destruct params as [|[pn pt] pr]; cbn [lower_args] in H; apply ret_inv in H; destruct H as [Heq _];
        injection Heq as _ ->; reflexivity.
    - cbn [forallb] in Hi. apply andb_prop in Hi. destruct Hi as [Hi1 Hi2].
      destruct params as [|[pn pt] pr]; cbn [lower_args] in H.
      + apply ret_inv in H. destruct H as [Heq _]. injection Heq as _ ->. reflexivity.
      + minva H as [w Ea] oa Ha. minva H as Eb ob Hp. apply lift_res_inv in Hp. destruct Hp as [Hp _].
        minva H as [bs' Ec] oc Hr. apply ret_inv in H. destruct H as [Heq _]. injection Heq as _ ->.
        rewrite (IH Hi2 _ _ _ _ _ _ Hr). pose proof (IHe a Hi1 _ _ _ _ _ Ha) as Hk.
        destruct Ea as [|s Ea']; [discriminate Hp|]. cbn [env_pop] in Hp. injection Hp as <-.
        unfold keys, env_push in Hk. cbn [map] in Hk. now injection Hk.
  Qed.

  Lemma bind_all_keys : forall (bs : list (N * list bool)) (E E' : @cenv bool),
    fold_left (fun Er b => let* E0 := Er in env_let E0 (fst b) (snd b)) bs (Ok E) = Ok E' -> SKP E E'.
  Proof.
    induction bs as [|[x w] r IH]; intros E E' H; cbn [fold_left bind fst snd] in H.
    - injection H as <-. now apply SKP_of_keys.
    - destruct (env_let E x w) as [E1| |] eqn:El;
        [|exfalso; eapply fold_env_let_not_ok; [|exact H]; intros ? Hq; discriminate Hq
         |exfalso; eapply fold_env_let_not_ok; [|exact H]; intros ? Hq; discriminate Hq].
      eapply SKP_trans; [exact (env_let_keys _ _ _ _ El)|now apply IH].
  Qed.

  Lemma keys_app (A B : @cenv bool) : keys (A ++ B) = keys A ++ keys B.
  Proof. apply map_app. Qed.


  Lemma for_iterations_keys fT x mp tp body eb : KPs2 fT -> forallb imp2_stmt body = true ->
    forall n aw E o E' o',
    for_iterations (lower_pattern tops fT P) (lower_stmt tops fT P) (Pat (PId x) mp tp) body eb n aw E o = Ok (E', o') ->
    keys E' = keys E.
  Proof.
    intros IHs Hi. induction n as [|k IH]; intros aw E o E' o' H; cbn [for_iterations] in H.
    - apply ret_inv in H. now destruct H as [-> _].
    - minva H as bnd o1 Hsl. minva H as [cm Ea] o2 Hp. minva H as Eb o3 Hb. minva H as Ec o4 Hpop.
      apply lift_res_inv in Hpop. destruct Hpop as [Hpop _].
      rewrite (IH _ _ _ _ _ H).
      destruct fT as [|fT']; [discriminate Hp|].
      change (lower_pattern tops (S fT') P (Pat (PId x) mp tp) bnd (env_push E) o1)
        with (lower_pattern_body tops P (lower_pattern tops fT' P) (Pat (PId x) mp tp) bnd (env_push E) o1) in Hp.
      cbn [lower_pattern_body] in Hp. minva Hp as Ea' o5 Hl. apply lift_res_inv in Hl. destruct Hl as [Hl _].
      apply ret_inv in Hp. destruct Hp as [Heq _]. injection Heq as _ ->.
      destruct (lower_stmts_block _ body [] _ _ _ _ Hb) as [wb Hbb].
      apply block_stmts_keys in Hbb; [|intros s Hin; apply IHs; rewrite forallb_forall in Hi; now apply Hi].
      destruct (env_let_keys _ _ _ _ Hl) as [Hk1 _]. destruct Hbb as [Hk2 _].
      destruct Eb as [|sb Eb']; [discriminate Hpop|]. cbn [env_pop] in Hpop. injection Hpop as <-.
      unfold keys in *. cbn [map tl] in *. unfold env_push in Hk1. cbn [map tl] in Hk1. congruence.
  Qed.

  Ltac kp2 IHe := (eapply IHe; [|eassumption]; assumption).

  Lemma KPe_step2 fT : (forall k, (k < S fT)%nat -> KPe2 k /\ KPs2 k) -> KPe2 (S fT).
  Proof.
    intros IH [ei m t] Hi E o w E' o' H. rewrite lower_expr_S in H.
    destruct (IH fT (le_n _)) as [IHe _].
    destruct ei; try discriminate Hi; cbn [imp2_expr] in Hi.
    - apply ret_inv in H. destruct H as [Heq _]. injection Heq as _ ->. reflexivity.
    - apply ret_inv in H. destruct H as [Heq _]. injection Heq as _ ->. reflexivity.
    - apply ret_inv in H. destruct H as [Heq _]. injection Heq as _ ->. reflexivity.
    - apply ret_inv in H. destruct H as [Heq _]. injection Heq as _ ->. reflexivity.
    - cbn [lower_expr_body] in H. destruct (env_get E name); [|discriminate H].
      apply ret_inv in H. destruct H as [Heq _]. injection Heq as _ ->. reflexivity.
    - rewrite lower_neg_case in H. minva H as [x E1] o1 He. cbv beta iota in H.
      apply neg_steps_inv in H. subst E'. kp2 IHe.
    - apply not_run_inv in H. destruct H as (x & He & _). kp2 IHe.
    - bsplit. destruct o0; cbv iota in *; bsplit.
      all: try (apply binop_run_inv in H; [|reflexivity|
                  first [intros Hmul; discriminate Hmul
                        |intros _; split; apply negb_true_iff; assumption]];
                destruct H as (xw & E1 & o1 & yw & o2 & Hx & Hy & _);
                transitivity (keys E1); kp2 IHe).
      + apply (shift_run_inv P _ _ _ true) in H. destruct H as (xw & E1 & o1 & yw & o2 & Hx & Hy & _).
        transitivity (keys E1); kp2 IHe.
      + apply (shift_run_inv P _ _ _ false) in H. destruct H as (xw & E1 & o1 & yw & o2 & Hx & Hy & _).
        transitivity (keys E1); kp2 IHe.
      + apply (logic_run_inv P _ _ _ true) in H.
        destruct H as (bx & E1 & o1 & by_ & E2 & o2 & oM & Hx & Hy & Hmux & _).
        rewrite (mux_envs_keys _ _ _ _ _ _ Hmux). transitivity (keys E1); kp2 IHe.
      + apply (logic_run_inv P _ _ _ false) in H.
        destruct H as (bx & E1 & o1 & by_ & E2 & o2 & oM & Hx & Hy & Hmux & _).
        rewrite (mux_envs_keys _ _ _ _ _ _ Hmux). kp2 IHe.
    - (* block *)
      cbn [lower_expr_body] in H. destruct fT as [|fT']; [discriminate H|].
      destruct (IH fT' (le_S _ _ (le_n _))) as [_ IHs]. exact (block_keys fT' IHs _ Hi _ _ _ _ _ H).
    - (* call *)
      cbn [lower_expr_body] in H. destruct (find_fn P f) as [d|] eqn:Ef; [|discriminate H].
      minva H as [bs E1] o1 Ha. destruct (rev E1) as [|glob crev] eqn:Erev; [discriminate H|].
      minva H as Ec o2 Hb. apply lift_res_inv in Hb. destruct Hb as [Hb _].
      minva H as [bw E2] o3 Hbody. minva H as E3 o4 Hp. apply lift_res_inv in Hp. destruct Hp as [Hp _].
      apply ret_inv in H. destruct H as [Heq _]. injection Heq as _ ->.
      rewrite <- (args_keys fT IHe _ Hi _ _ _ _ _ _ Ha).
      assert (E1 = rev crev ++ [glob]) as -> by (rewrite <- (rev_involutive E1), Erev; reflexivity).
      destruct fT as [|fT']; [discriminate Hbody|].
      destruct (IH fT' (le_S _ _ (le_n _))) as [_ IHs].
      pose proof (block_keys fT' IHs _ (find_fn_body _ _ Ef) _ _ _ _ _ Hbody) as Hk2.
      destruct (bind_all_keys _ _ _ Hb) as [Hk3 Hl3].
      destruct E2 as [|s2 E2']; [discriminate Hp|]. cbn [env_pop] in Hp. injection Hp as <-.
      rewrite !keys_app. f_equal.
      assert (tl (keys (s2 :: E2')) = tl (keys Ec)) as Ht by (now rewrite Hk2).
      rewrite Hk3 in Ht. exact Ht.
    - (* if *)
      bsplit. apply if_run_inv in H.
      destruct H as (cb & E0 & o0 & tw & ET & oT & fw & EF & oF & oM & Hc & Ha & Hb & Hmux & _).
      rewrite (mux_envs_keys _ _ _ _ _ _ Hmux). transitivity (keys E0); kp2 IHe.
    - (* cast *)
      pose proof H as H0. cbn [lower_expr_body] in H0. minva H0 as [x E1] o1 He. clear H0.
      destruct (tsem_cast_correct P _ (lower_pattern tops fT P) (lower_block tops fT P) to e m t E o x E1 o1 He)
        as (r & HR & _).
      rewrite HR in H. injection H as _ <- _. kp2 IHe.
  Qed.

  Lemma KPs_step2 fT : (forall k, (k < S fT)%nat -> KPe2 k /\ KPs2 k) -> KPs2 (S fT).
  Proof.
    intros IH [si m] Hi E o w E' o' H. rewrite lower_stmt_S in H.
    destruct (IH fT (le_n _)) as [IHe _].
    destruct si; try discriminate Hi; cbn [imp2_stmt] in Hi; cbn [lower_stmt_body] in H.
    - (* let *)
      destruct p as [[] mp tp]; try discriminate Hi.
      minva H as [w1 E1] o1 He. minva H as [c2 E2] o2 Hp. apply ret_inv in H. destruct H as [Heq _].
      injection Heq as _ ->. destruct fT as [|fT']; [discriminate Hp|].
      change (lower_pattern tops (S fT') P (Pat (PId name) mp tp) w1 E1 o1)
        with (lower_pattern_body tops P (lower_pattern tops fT' P) (Pat (PId name) mp tp) w1 E1 o1) in Hp.
      cbn [lower_pattern_body] in Hp. minva Hp as E3 o3 Hl. apply lift_res_inv in Hl. destruct Hl as [Hl _].
      apply ret_inv in Hp. destruct Hp as [Heq _]. injection Heq as _ ->.
      eapply SKP_trans; [apply SKP_of_keys; eapply IHe; eassumption|]. exact (env_let_keys _ _ _ _ Hl).
    - minva H as [w1 E1] o1 He. minva H as E2 o2 Hl. apply lift_res_inv in Hl. destruct Hl as [Hl _].
      apply ret_inv in H. destruct H as [Heq _]. injection Heq as _ ->.
      eapply SKP_trans; [apply SKP_of_keys; eapply IHe; eassumption|]. exact (env_let_keys _ _ _ _ Hl).
    - destruct accs; [|discriminate Hi]. cbn [assign_indexes assign_forward assign_backward] in H.
      minva H as [w1 E1] o1 He.
      minva H as [idxs E2] o2 H2. apply ret_inv in H2. destruct H2 as [Heq _]. injection Heq as _ ->.
      minva H as coll o3 H3. minva H as acc o4 H4. minva H as v' o5 H5.
      minva H as E3 o6 H6. apply lift_res_inv in H6. destruct H6 as [Ha _].
      apply ret_inv in H. destruct H as [Heq _]. injection Heq as _ ->.
      apply SKP_of_keys. rewrite (env_assign_keys _ _ _ _ Ha). eapply IHe; eassumption.
    - (* for *)
      destruct p as [[] mp tp]; try discriminate Hi. destruct arr as [[] ma ta]; try discriminate Hi.
      minva H as [eb n] o1 H1. minva H as [aw E1] o2 Ha.
      destruct fT as [|fT']; [discriminate Ha|]. rewrite lower_expr_S in Ha. cbn [lower_expr_body] in Ha.
      destruct (hi <? lo); [discriminate Ha|]. apply ret_inv in Ha. destruct Ha as [Heq _]. injection Heq as _ ->.
      minva H as E2 o3 Hf. apply ret_inv in H. destruct H as [Heq _]. injection Heq as _ ->.
      apply SKP_of_keys. destruct (IH (S fT') (le_n _)) as [_ IHs].
      exact (for_iterations_keys _ _ _ _ _ _ IHs Hi _ _ _ _ _ _ Hf).
    - apply SKP_of_keys. eapply IHe; eassumption.
  Qed.

  Theorem keys_preserved2 : forall fT, KPe2 fT /\ KPs2 fT.
  Proof.
    induction fT as [fT IH] using lt_wf_ind. destruct fT as [|fT].
    - split; intros ? ? ? ? ? ? ? H; discriminate H.
    - split; [now apply KPe_step2|now apply KPs_step2].
  Qed.

  Corollary KP_imp2 e : imp2_expr e = true -> KP P e.
  Proof. intros Hi fT E o w E' o' H. exact (proj1 (keys_preserved2 fT) e Hi E o w E' o' H). Qed.
End Keys2.

(* ------------------------------------------------------------------ the strict checker with calls
   (the body of the callee is checked once per function: [sc2_fn], [sc2_fns]) *)

Fixpoint sc2_expr (fuel : nat) (P : program) (g : tenv) (e : expr) {struct fuel} : bool :=
  match fuel with
  | O => false
  | S f =>
    match e with
    | Ex ei _ t =>
      match ei with
      | ETrue | EFalse => sty_eqb t TBool
      | ENumU n _ => match t with TInt _ b => ok_width b && lit_fits t (Z.of_N n) | _ => false end
      | ENumS z _ => match t with TInt _ b => ok_width b && lit_fits t z | _ => false end
      | EId x => match tlookup g x with Some (tx, _) => vt_eqb tx t | None => false end
      | ENeg e1 =>
          match t with
          | TInt true b => ok_width b && sty_eqb (e_ty e1) t && sc2_expr f P g e1
          | _ => false
          end
      | ENot e1 => scalar_ty t && sty_eqb (e_ty e1) t && sc2_expr f P g e1
      | ECast to e1 => scalar_ty t && sty_eqb to t && scalar_ty (e_ty e1) && sc2_expr f P g e1
      | EOp o x y => sc2_expr f P g x && sc2_expr f P g y && sc_op o x y t
      | EIf c a b =>
          sty_eqb (e_ty c) TBool && vt_eqb (e_ty a) t && vt_eqb (e_ty b) t &&
          sc2_expr f P g c && sc2_expr f P g a && sc2_expr f P g b
      | EBlock b => match sc2_block f P ([] :: g) b with Some tb => vt_eqb tb t | None => false end
      | ECall fn args =>
          match find_fn P fn with
          | Some d =>
              vt_eqb (fn_ret d) t &&
              forallb2 (fun a (p : N * ty) => vt_eqb (e_ty a) (snd p) && sc2_expr f P g a) args (fn_params d)
          | None => false
          end
      | _ => false
      end
    end
  end
with sc2_block (fuel : nat) (P : program) (g : tenv) (b : list stmt) {struct fuel} : option ty :=
  match fuel with
  | O => None
  | S f =>
      (fix go (ss : list stmt) (g : tenv) (last : ty) : option ty :=
         match ss with
         | [] => Some last
         | s :: r => match sc2_stmt f P g s with Some (g', t) => go r g' t | None => None end
         end) b g unit_ty
  end
with sc2_stmt (fuel : nat) (P : program) (g : tenv) (s : stmt) {struct fuel} : option (tenv * ty) :=
  match fuel with
  | O => None
  | S f =>
    match s with
    | St si _ =>
      match si with
      | SLet (Pat (PId x) _ tp) e =>
          if sc2_expr f P g e && vt_eqb tp (e_ty e) then Some (tbind g x tp false, unit_ty) else None
      | SLetMut x e => if sc2_expr f P g e then Some (tbind g x (e_ty e) true, unit_ty) else None
      | SAssign x [] e =>
          match tlookup g x with
          | Some (tx, true) => if vt_eqb tx (e_ty e) && sc2_expr f P g e then Some (g, unit_ty) else None
          | _ => None
          end
      | SFor (Pat (PId x) _ tp) (Ex (ERange lo hi bits) _ ta) body =>
          if ok_width bits && (lo <=? hi) && (hi <=? 2 ^ bits) && sty_eqb tp (TInt false bits) &&
             match ta with
             | TArr (TInt false b2) n2 => (b2 =? bits) && (n2 =? hi - lo)
             | _ => false
             end
          then match sc2_block f P (tbind ([] :: g) x tp false) body with
               | Some _ => Some (g, unit_ty)
               | None => None
               end
          else None
      | SExpr e => if sc2_expr f P g e then Some (g, e_ty e) else None
      | _ => None
      end
    end
  end.

Fixpoint sc2_stmts (f : nat) (P : program) (ss : list stmt) (g : tenv) (last : ty) : option (tenv * ty) :=
  match ss with
  | [] => Some (g, last)
  | s :: r => match sc2_stmt f P g s with Some (g', t) => sc2_stmts f P r g' t | None => None end
  end.

Lemma sc2_block_S f P g b : sc2_block (S f) P g b = option_map snd (sc2_stmts f P b g unit_ty).
Proof.
  cbn [sc2_block]. generalize unit_ty. revert g. induction b as [|s r IH]; intros g last; [reflexivity|].
  cbn [sc2_stmts]. destruct (sc2_stmt f P g s) as [[g' t]|]; [apply IH|reflexivity].
Qed.


Lemma sc2_stmt_tl fw P g s g' t : sc2_stmt fw P g s = Some (g', t) -> tl g' = tl g.
Proof.
  destruct fw as [|f]; [discriminate|]. destruct s as [si m]. cbn [sc2_stmt].
  destruct si; try discriminate.
  - destruct p as [[] mp tp]; try discriminate. destruct (_ && _); [|discriminate].
    intros [= <- _]. apply tl_tbind.
  - destruct (sc2_expr f P g e); [|discriminate]. intros [= <- _]. apply tl_tbind.
  - destruct accs; [|discriminate]. destruct (tlookup g name) as [[tx []]|]; try discriminate.
    destruct (_ && _); [|discriminate]. now intros [= <- _].
  - destruct p as [[] mp tp]; try discriminate. destruct arr as [[] ma ta]; try discriminate.
    destruct (_ && _); [|discriminate]. destruct (sc2_block f P _ body); [|discriminate]. now intros [= <- _].
  - destruct (sc2_expr f P g e); [|discriminate]. now intros [= <- _].
Qed.

(* ------------------------------------------------------------------ the theorem *)

(* ------------------------------------------------------------------ the theorem with calls *)

(* the outermost scope of the context is the empty scope of the global constants (programs
   without constants), under at least one more scope *)
Definition G2 (g : tenv) : Prop := (2 <= length g)%nat /\ last g [] = [].

Lemma G2_push g : G2 g -> G2 ([] :: g).
Proof. intros [Hl Hla]. split; [cbn [length]; lia|]. destruct g; [cbn in Hl; lia|exact Hla]. Qed.

Lemma G2_tbind g x t mu : G2 g -> G2 (tbind g x t mu).
Proof.
  intros [Hl Hla]. destruct g as [|gs [|g2 g']]; cbn [length] in Hl; try lia.
  cbn [tbind]. split; [cbn [length]; lia|exact Hla].
Qed.

Lemma G2_ne g : G2 g -> g <> [] /\ last g [] = [].
Proof. intros [Hl Hla]. split; [|exact Hla]. destruct g; [cbn in Hl; lia|discriminate]. Qed.

Lemma sc2_stmt_G2 fw P g s g' t : sc2_stmt fw P g s = Some (g', t) -> G2 g -> G2 g'.
Proof.
  intros H Hg. destruct fw as [|f]; [discriminate|]. destruct s as [si m]. cbn [sc2_stmt] in H.
  destruct si; try discriminate.
  - destruct p as [[] mp tp]; try discriminate. destruct (_ && _); [|discriminate].
    injection H as <- _. now apply G2_tbind.
  - destruct (sc2_expr f P g e); [|discriminate]. injection H as <- _. now apply G2_tbind.
  - destruct accs; [|discriminate]. destruct (tlookup g name) as [[tx []]|]; try discriminate.
    destruct (_ && _); [|discriminate]. now injection H as <- _.
  - destruct p as [[] mp tp]; try discriminate. destruct arr as [[] ma ta]; try discriminate.
    destruct (_ && _); [|discriminate]. destruct (sc2_block f P _ body); [|discriminate]. now injection H as <- _.
  - destruct (sc2_expr f P g e); [|discriminate]. now injection H as <- _.
Qed.

(* a function of the program is in the fragment: its body is checked in the context of its
   parameters (a scope of their own over the empty global scope), and has the declared type *)
Definition sc2_fn (fw : nat) (P : program) (d : fndef) : bool :=
  match sc2_block fw P ([] :: tbind_all [[]; []] (fn_params d) true) (fn_body d) with
  | Some t => vt_eqb t (fn_ret d)
  | None => false
  end && forallb imp2_stmt (fn_body d).

Definition sc2_fns (fw : nat) (P : program) : bool := forallb (sc2_fn fw P) (p_fns P).

Section Main2.
  Variable P : program.
  Variable fwp : nat.
  Hypothesis Hfns : sc2_fns fwp P = true.
  Notation AgE' := (AgE2 P VRs).
  Notation AgS' := (AgS2 P VRs).

  Lemma Hfns_imp : forallb (fun d => forallb imp2_stmt (fn_body d)) (p_fns P) = true.
  Proof.
    unfold sc2_fns in Hfns. rewrite forallb_forall in *. intros d Hin. specialize (Hfns d Hin).
    unfold sc2_fn in Hfns. apply andb_prop in Hfns. now destruct Hfns.
  Qed.

  Lemma find_fn_sc fn d : find_fn P fn = Some d ->
    sc2_block fwp P ([] :: tbind_all [[]; []] (fn_params d) true) (fn_body d) = Some (fn_ret d) /\
    forallb imp2_stmt (fn_body d) = true.
  Proof.
    intro H. unfold find_fn in H. apply find_some in H. destruct H as [Hin _].
    unfold sc2_fns in Hfns. rewrite forallb_forall in Hfns. specialize (Hfns d Hin). unfold sc2_fn in Hfns.
    apply andb_prop in Hfns. destruct Hfns as [H1 H2]. split; [|exact H2].
    destruct (sc2_block fwp P _ (fn_body d)) as [tb|]; [|discriminate H1]. apply vt_eqb_eq in H1. now subst tb.
  Qed.

  Definition InvE2 (fuel : nat) : Prop :=
    forall fw g e, G2 g -> sc2_expr fw P g e = true -> imp2_expr e = true -> AgE' fuel g e.
  Definition InvS2 (fuel : nat) : Prop :=
    forall fw g s g' t, G2 g -> sc2_stmt fw P g s = Some (g', t) -> imp2_stmt s = true -> AgS' fuel g g' t s.

  Lemma stmts_AgSS2 f : InvS2 f -> forall fw ss g last g1 t, G2 g ->
    sc2_stmts fw P ss g last = Some (g1, t) -> forallb imp2_stmt ss = true ->
    AgSS2 P VRs f g ss last g1 t /\ tl g1 = tl g.
  Proof.
    intros IHs fw. induction ss as [|s r IH]; intros g last g1 t Hg Hsc Hi; cbn [sc2_stmts] in Hsc.
    - injection Hsc as <- <-. split; [constructor|reflexivity].
    - cbn [forallb] in Hi. apply andb_prop in Hi. destruct Hi as [Hi1 Hi2].
      destruct (sc2_stmt fw P g s) as [[g' t']|] eqn:Es; [|discriminate Hsc].
      destruct (IH g' t' g1 t (sc2_stmt_G2 _ _ _ _ _ _ Es Hg) Hsc Hi2) as [HA Htl]. split.
      + econstructor; [eapply IHs; eassumption|exact HA].
      + rewrite Htl. eapply sc2_stmt_tl; eassumption.
  Qed.

  Lemma block_AgB2 f : (forall k, (k < f)%nat -> InvS2 k) -> forall fw g b t, G2 g ->
    sc2_block fw P ([] :: g) b = Some t -> forallb imp2_stmt b = true -> AgB2 P VRs f g b t.
  Proof.
    intros IH fw g b t Hg Hsc Hi. destruct f as [|f']; [intros ph en E fT w E' o' _ _; exact I|].
    destruct fw as [|fw']; [discriminate Hsc|]. rewrite sc2_block_S in Hsc.
    destruct (sc2_stmts fw' P b ([] :: g) unit_ty) as [[g1 tb]|] eqn:Es; [|discriminate Hsc].
    cbn [option_map snd] in Hsc. injection Hsc as ->.
    destruct (stmts_AgSS2 f' (IH f' (le_n _)) fw' b _ _ _ _ (G2_push _ Hg) Es Hi) as [HA Htl].
    exact (block_run_agrees2 P VRs VRs_unit f' g b g1 t HA Htl).
  Qed.

  Ltac eqs :=
    repeat match goal with
    | H : sty_eqb _ _ = true |- _ => apply sty_eqb_eq in H
    | H : vt_eqb _ _ = true |- _ => apply vt_eqb_eq in H
    end.

  Lemma op_step2 f g o x y m t :
    sc_op o x y t = true -> imp2_expr x = true -> imp2_expr y = true ->
    AgE' f g x -> AgE' f g y -> AgE' (S f) g (Ex (EOp o x y) m t).
  Proof.
    intros Hop Hix Hiy IHx IHy.
    destruct o; cbn [sc_op] in Hop.
    (* arithmetic and bitwise *)
    1-8: destruct t as [|sg b| | | |]; try discriminate Hop; bsplit; try discriminate; eqs;
         match goal with
         | |- AgE2 _ _ _ _ (Ex _ _ TBool) =>
             eapply (binop_node_p2 P f g _ x y m TBool TBool); try eassumption; try reflexivity;
             [ intro Hmul; discriminate Hmul | apply bool_agrees; reflexivity ]
         | |- _ =>
             eapply (binop_node_p2 P f g _ x y m (TInt sg b) (TInt sg b)); try eassumption; try reflexivity;
             [ first [ intro Hmul; discriminate Hmul
                     | intros _; split; apply negb_true_iff; assumption ]
             | apply int_agrees; [assumption|left; split; reflexivity] ]
         end.
    - (* > *) bsplit. eqs. subst t. destruct (e_ty x) as [|sg b| | | |] eqn:Etx; try discriminate. bsplit. eqs.
      eapply (binop_node_p2 P f g OGt x y m TBool (TInt sg b)); try eassumption; try reflexivity.
      + intro Hmul; discriminate Hmul.
      + apply int_agrees; [assumption|right; split; reflexivity].
    - (* < *) bsplit. eqs. subst t. destruct (e_ty x) as [|sg b| | | |] eqn:Etx; try discriminate. bsplit. eqs.
      eapply (binop_node_p2 P f g OLt x y m TBool (TInt sg b)); try eassumption; try reflexivity.
      + intro Hmul; discriminate Hmul.
      + apply int_agrees; [assumption|right; split; reflexivity].
    - (* == *) bsplit. eqs. subst t.
      eapply (binop_node_p2 P f g OEq x y m TBool (e_ty x)); try eassumption; try reflexivity.
      + intro Hmul; discriminate Hmul.
      + destruct (e_ty x) as [|sg b| | | |]; try discriminate.
        * apply bool_agrees; reflexivity.
        * apply int_agrees; [assumption|right; split; reflexivity].
    - (* != *) bsplit. eqs. subst t.
      eapply (binop_node_p2 P f g ONe x y m TBool (e_ty x)); try eassumption; try reflexivity.
      + intro Hmul; discriminate Hmul.
      + destruct (e_ty x) as [|sg b| | | |]; try discriminate.
        * apply bool_agrees; reflexivity.
        * apply int_agrees; [assumption|right; split; reflexivity].
    - destruct t as [|sg b| | | |]; try discriminate Hop. bsplit. eqs.
      apply (shift_node_p2 P f g true x y m sg b); assumption.
    - destruct t as [|sg b| | | |]; try discriminate Hop. bsplit. eqs.
      apply (shift_node_p2 P f g false x y m sg b); assumption.
    - bsplit. eqs. subst t.
      apply (logic_node2 P VRs VRs_bool f g true x y m); try assumption. now apply (KP_imp2 P Hfns_imp).
    - bsplit. eqs. subst t.
      apply (logic_node2 P VRs VRs_bool f g false x y m); try assumption. now apply (KP_imp2 P Hfns_imp).
  Qed.


  Lemma args_AgE f fw g : InvE2 f -> G2 g -> forall args params,
    forallb2 (fun a (p : N * ty) => vt_eqb (e_ty a) (snd p) && sc2_expr fw P g a) args params = true ->
    forallb imp2_expr args = true ->
    Forall2 (fun a (p : N * ty) => AgE' f g a /\ e_ty a = snd p) args params.
  Proof.
    intros IHe Hg. induction args as [|a ar IH]; intros [|p pr] H Hi; cbn [forallb2] in H; try discriminate H.
    - constructor.
    - cbn [forallb] in Hi. bsplit. eqs. constructor; [|now apply IH]. split; [|assumption].
      eapply IHe; eassumption.
  Qed.

  Lemma InvE2_step f : (forall k, (k <= f)%nat -> InvE2 k /\ InvS2 k) -> InvE2 (S f).
  Proof.
    intros IH fw g [ei m t] Hg Hsc Hi. destruct fw as [|fw]; [discriminate Hsc|]. cbn [sc2_expr] in Hsc.
    destruct (IH f (le_n _)) as [IHe _].
    destruct ei; try discriminate Hsc; cbn [imp2_expr] in Hi.
    - eqs. subst t. apply lit_true_node2.
    - eqs. subst t. apply lit_false_node2.
    - destruct t as [|sg b| | | |]; try discriminate Hsc. bsplit. now apply lit_numU_node2.
    - destruct t as [|sg b| | | |]; try discriminate Hsc. bsplit. now apply lit_numS_node2.
    - destruct (tlookup g name) as [[tx mu]|] eqn:El; [|discriminate Hsc]. eqs. subst tx.
      eapply id_node2; eassumption.
    - destruct t as [|[] b| | | |]; try discriminate Hsc. bsplit. eqs.
      apply neg_node_p2; try assumption. eapply IHe; eassumption.
    - bsplit. eqs. apply not_node_p2; try assumption. eapply IHe; eassumption.
    - bsplit. apply op_step2; try assumption; eapply IHe; eassumption.
    - (* block *)
      destruct (sc2_block fw P ([] :: g) b) as [tb|] eqn:Eb; [|discriminate Hsc]. eqs. subst tb.
      destruct f as [|f']; [intros ph en E fT w E' o' _ _; exact I|].
      destruct fw as [|fw']; [discriminate Eb|]. rewrite sc2_block_S in Eb.
      destruct (sc2_stmts fw' P b ([] :: g) unit_ty) as [[g1 tb]|] eqn:Es; [|discriminate Eb].
      cbn [option_map snd] in Eb. injection Eb as ->.
      destruct (IH f' (le_S _ _ (le_n _))) as [_ IHs].
      destruct (stmts_AgSS2 f' IHs fw' b _ _ _ _ (G2_push _ Hg) Es Hi) as [HA Htl].
      eapply (block_node2 P VRs VRs_unit f' g b m t g1); assumption.
    - (* call *)
      match type of Hsc with context [find_fn P ?fn] => destruct (find_fn P fn) as [d|] eqn:Ef end;
        [|discriminate Hsc].
      bsplit. eqs. subst t. destruct (find_fn_sc _ _ Ef) as [Hb Hib]. destruct (G2_ne _ Hg) as [Hne Hla].
      eapply (call_node P VRs); try exact VRs_bool; try exact VRs_unit; try eassumption.
      + eapply args_AgE; eassumption.
      + eapply block_AgB2; try eassumption.
        * intros k Hk. apply (IH k). lia.
        * destruct (tbind_all_cons [] [[]] (fn_params d) true) as [gs' ->]. split; [cbn; lia|reflexivity].
    - bsplit. eqs.
      apply (if_node2 P VRs VRs_bool f g c t0 e m t); try assumption;
        try (eapply IHe; eassumption); now apply (KP_imp2 P Hfns_imp).
    - bsplit. eqs. subst to. apply cast_node_p2; try assumption. eapply IHe; eassumption.
  Qed.

  Lemma InvS2_step f : (forall k, (k <= f)%nat -> InvE2 k /\ InvS2 k) -> InvS2 (S f).
  Proof.
    intros IH fw g [si m] g' t Hg Hsc Hi. destruct (IH f (le_n _)) as [IHe _]. destruct fw as [|fw]; [discriminate Hsc|]. cbn [sc2_stmt] in Hsc.
    destruct si; try discriminate Hsc; cbn [imp2_stmt] in Hi.
    - destruct p as [[] mp tp]; try discriminate Hsc.
      destruct (sc2_expr fw P g e) eqn:He; [|discriminate Hsc].
      destruct (vt_eqb tp (e_ty e)) eqn:Ht; [|discriminate Hsc]. cbn [andb] in Hsc. injection Hsc as <- <-.
      eqs. subst tp. apply (let_node2 P VRs VRs_unit). eapply IHe; eassumption.
    - destruct (sc2_expr fw P g e) eqn:He; [|discriminate Hsc]. injection Hsc as <- <-.
      apply (letmut_node2 P VRs VRs_unit). eapply IHe; eassumption.
    - destruct accs; [|discriminate Hsc]. destruct (tlookup g name) as [[tx []]|] eqn:El; try discriminate Hsc.
      destruct (vt_eqb tx (e_ty e)) eqn:Ht; [|discriminate Hsc].
      destruct (sc2_expr fw P g e) eqn:He; [|discriminate Hsc]. cbn [andb] in Hsc. injection Hsc as <- <-.
      eqs. subst tx. eapply (assign_node2 P VRs VRs_unit); [eapply IHe; eassumption|exact El].
    - (* for *)
      destruct p as [[] mp tp]; try discriminate Hsc. destruct arr as [[] ma ta]; try discriminate Hsc.
      match type of Hsc with (if ?c then _ else _) = _ => destruct c eqn:Hc end; [|discriminate Hsc].
      destruct (sc2_block fw P (tbind ([] :: g) name tp false) body) as [tb|] eqn:Eb; [|discriminate Hsc].
      injection Hsc as <- <-. bsplit. eqs. subst tp.
      destruct ta as [| |[|[] b2| | | |] n2| | |]; try discriminate. bsplit.
      repeat match goal with Hq : (_ =? _) = true |- _ => apply N.eqb_eq in Hq end. subst b2 n2.
      repeat match goal with Hq : (_ <=? _) = true |- _ => apply N.leb_le in Hq end.
      destruct f as [|f']; [intros ph en E fT w E' o' _ _; exact I|].
      destruct fw as [|fw']; [discriminate Eb|]. rewrite sc2_block_S in Eb.
      destruct (sc2_stmts fw' P body (tbind ([] :: g) name (TInt false bits) false) unit_ty) as [[g1 tb']|] eqn:Es;
        [|discriminate Eb].
      destruct (IH f' (le_S _ _ (le_n _))) as [_ IHs].
      destruct (stmts_AgSS2 f' IHs fw' body _ _ _ _ (G2_tbind _ _ _ _ (G2_push _ Hg)) Es Hi) as [HA Htl].
      rewrite tl_tbind in Htl. cbn [tl] in Htl.
      eapply (for_node2 P f' g name mp lo hi bits ma body m g1 tb'); eassumption.
    - destruct (sc2_expr fw P g e) eqn:He; [|discriminate Hsc]. injection Hsc as <- <-.
      apply sexpr_node2. eapply IHe; eassumption.
  Qed.

  Theorem agree_all2 : forall fuel, InvE2 fuel /\ InvS2 fuel.
  Proof.
    induction fuel as [fuel IH] using lt_wf_ind. destruct fuel as [|f].
    - split; [intros fw g e _ _ _ ph en E fT w E' o' _ _|intros fw g s g' t _ _ _ ph en E fT w E' o' _ _]; exact I.
    - split.
      + apply InvE2_step. intros k Hk. apply IH. lia.
      + apply InvS2_step. intros k Hk. apply IH. lia.
  Qed.
End Main2.
Print Assumptions agree_all2.

(* ------------------------------------------------------------------ the theorems, spelled out *)

Lemma forallb_negb_repeat n : forallb negb (repeat false n) = true.
Proof. induction n; [reflexivity|exact IHn]. Qed.

(* AGREEMENT with calls, expressions.  [sc2_fns fwp P]: every function of the program is in the
   fragment; [G2 g]: the context has the empty global scope under at least one more scope *)
Theorem tsem_sem_imp2_expr P fwp fuel fw g e en E fT w E' o' :
  sc2_fns fwp P = true -> G2 g -> sc2_expr fw P g e = true -> imp2_expr e = true ->
  env_rel3 VRs en E g -> lower_expr tops fT P e E None = Ok ((w, E'), o') ->
  match Sem.eval fuel P en e with
  | Sem.Done (v, en') => o' = None /\ VRs (e_ty e) v w /\ env_rel3 VRs en' E' g
  | Sem.Panicked r m => o' = Some (preason_num (pr r), ploc32 (ploc_of m))
  | Sem.Stuck _ | Sem.NoFuel => True
  end.
Proof.
  intros Hf Hg Hsc Hi Hrel Hrun.
  pose proof (proj1 (agree_all2 P fwp Hf fuel) fw g e Hg Hsc Hi _ en E fT w E' o'
                (relP_of_env_rel3 VRs en E g Hrel) Hrun) as H. revert H.
  destruct (Sem.eval fuel P en e) as [[v en']|r m|c|]; intro H; try exact H.
  destruct H as (-> & HV & Hr). repeat split; [exact HV|].
  eapply env_rel3_of_relP; [exact Hr|apply forallb_negb_repeat].
Qed.
Print Assumptions tsem_sem_imp2_expr.

Theorem tsem_sem_imp2_stmt P fwp fuel fw g s g' t en E fT w E' o' :
  sc2_fns fwp P = true -> G2 g -> sc2_stmt fw P g s = Some (g', t) -> imp2_stmt s = true ->
  env_rel3 VRs en E g -> lower_stmt tops fT P s E None = Ok ((w, E'), o') ->
  match Sem.exec fuel P en s with
  | Sem.Done (v, en') => o' = None /\ VRs t v w /\ env_rel3 VRs en' E' g'
  | Sem.Panicked r m => o' = Some (preason_num (pr r), ploc32 (ploc_of m))
  | Sem.Stuck _ | Sem.NoFuel => True
  end.
Proof.
  intros Hf Hg Hsc Hi Hrel Hrun. destruct E as [|cs E0].
  { (* no scope at all: impossible for related environments with G2 g *)
    exfalso. unfold env_rel3 in Hrel. inversion Hrel; subst. destruct Hg as [Hl _]. cbn in Hl. lia. }
  pose proof (relP_of_env_rel3 VRs en (cs :: E0) g Hrel) as Hr0. cbn [length repeat] in Hr0.
  pose proof (proj2 (agree_all2 P fwp Hf fuel) fw g s g' t Hg Hsc Hi _ en (cs :: E0) fT w E' o' Hr0 Hrun) as H.
  revert H. destruct (Sem.exec fuel P en s) as [[v en']|r m|c|]; intro H; try exact H.
  destruct H as (-> & HV & Hr). repeat split; [exact HV|].
  eapply env_rel3_of_relP; [exact Hr|]. cbn [forallb negb andb]. apply forallb_negb_repeat.
Qed.
Print Assumptions tsem_sem_imp2_stmt.

Theorem tsem_sem_imp2_block P fwp fuel fw g b t en E fT w E' o' :
  sc2_fns fwp P = true -> G2 g -> sc2_block fw P ([] :: g) b = Some t -> forallb imp2_stmt b = true ->
  env_rel3 VRs en E g -> lower_block tops fT P b E None = Ok ((w, E'), o') ->
  match Sem.obind (Sem.exec_block fuel P (Sem.push_scope en) b)
                  (fun '(v, en1) => Sem.Done (v, Sem.pop_scope en1)) with
  | Sem.Done (v, en') => o' = None /\ VRs t v w /\ env_rel3 VRs en' E' g
  | Sem.Panicked r m => o' = Some (preason_num (pr r), ploc32 (ploc_of m))
  | Sem.Stuck _ | Sem.NoFuel => True
  end.
Proof.
  intros Hf Hg Hsc Hi Hrel Hrun.
  pose proof (block_AgB2 P fuel (fun k _ => proj2 (agree_all2 P fwp Hf k)) fw g b t Hg Hsc Hi
                _ en E fT w E' o' (relP_of_env_rel3 VRs en E g Hrel) Hrun) as H. revert H.
  destruct (Sem.obind (Sem.exec_block fuel P (Sem.push_scope en) b) _) as [[v en']|r m|c|]; intro H; try exact H.
  destruct H as (-> & HV & Hr). repeat split; [exact HV|].
  eapply env_rel3_of_relP; [exact Hr|apply forallb_negb_repeat].
Qed.
Print Assumptions tsem_sem_imp2_block.

(* ------------------------------------------------------------------ whole programs with calls *)

Theorem tsem_sem_program2 P d fuel fw fT args o outs :
  p_consts P = [] -> find_fn P (p_main P) = Some d ->
  forallb (fun p : N * ty => scalar_ty (snd p)) (fn_params d) = true ->
  sc2_fns fw P = true ->
  tsem_program fT P args = Ok (o, outs) ->
  match Sem.run_main fuel P args with
  | Sem.RunOk bits _ => o = None /\ outs = bits
  | Sem.RunPanic r m => o = Some (preason_num (pr r), ploc32 (ploc_of m))
  | Sem.RunStuck _ | Sem.RunNoFuel => True
  end.
Proof.
  intros Hc Hfind Hsp Hf Hrun.
  destruct (find_fn_sc P fw Hf _ _ Hfind) as [Hsc Hi].
  unfold tsem_program in Hrun. rewrite Hfind in Hrun.
  destruct (negb (same_len (fn_params d) args)); [discriminate Hrun|].
  unfold main_env, global_scope in Hrun. rewrite Hc in Hrun. cbn [fold_left bind] in Hrun.
  destruct (fold_left (fun Er b => let* E := Er in env_let E (fst b) (snd b))
              (combine (map fst (fn_params d)) args) (Ok (env_push [[]]))) as [E0| |] eqn:Ef;
    cbn [bind] in Hrun; try discriminate Hrun.
  destruct (lower_block tops fT P (fn_body d) E0 None) as [[[w E'] o1]| |] eqn:Hb; cbn [bind] in Hrun;
    try discriminate Hrun. injection Hrun as <- <-.
  unfold Sem.run_main. rewrite Hfind.
  destruct (Sem.decode_args P (fn_params d) args) as [vals|] eqn:Ed; [|exact I].
  unfold Sem.eval_consts. rewrite Hc.
  assert (Hrel0 : env_rel3 VRs (Sem.push_scope (Sem.mkEnv [[]] false)) (env_push [[]]) ([] :: [[]])).
  { apply rel_push. unfold env_rel3. cbn [Sem.scopes]. constructor; [|constructor].
    split; [exact I|]. intro x. cbn. auto. }
  pose proof (init_rel P _ _ _ Ed Hsp _ _ _ _ Hrel0 Ef) as Hrel.
  assert (Hg : G2 (tbind_all [[]; []] (fn_params d) true)).
  { destruct (tbind_all_cons [] [[]] (fn_params d) true) as [gs' ->]. split; [cbn; lia|reflexivity]. }
  pose proof (tsem_sem_imp2_block P fw fuel fw _ _ _ _ _ fT _ _ _ Hf Hg Hsc Hi Hrel Hb) as H. revert H.
  destruct (Sem.exec_block fuel P (Sem.push_scope (Sem.bind_all (Sem.push_scope (Sem.mkEnv [[]] false)) vals))
              (fn_body d)) as [[v en1]|r m|c|]; cbn [Sem.obind]; intro H; try exact I; [|exact H].
  destruct H as (-> & HV & _).
  destruct (Sem.encode Sem.ty_fuel P (fn_ret d) v) as [bits|] eqn:Ee; [|exact I].
  split; [reflexivity|]. symmetry. eapply encode_VRs; eassumption.
Qed.
Print Assumptions tsem_sem_program2.

(* the boolean membership test of the fragment (programs without global constants, scalar
   parameters of main, every function of the program in the fragment) and its soundness *)
Definition in_imp_fragment2 (fw : nat) (P : program) : bool :=
  match p_consts P, find_fn P (p_main P) with
  | [], Some d => forallb (fun p : N * ty => scalar_ty (snd p)) (fn_params d) && sc2_fns fw P
  | _, _ => false
  end.

Theorem in_imp_fragment2_sound P fuel fw fT args o outs :
  in_imp_fragment2 fw P = true -> tsem_program fT P args = Ok (o, outs) ->
  match Sem.run_main fuel P args with
  | Sem.RunOk bits _ => o = None /\ outs = bits
  | Sem.RunPanic r m => o = Some (preason_num (pr r), ploc32 (ploc_of m))
  | _ => True
  end.
Proof.
  unfold in_imp_fragment2. intros H Hrun.
  destruct (p_consts P) eqn:Hc; [|discriminate H].
  destruct (find_fn P (p_main P)) as [d|] eqn:Hfind; [|discriminate H].
  apply andb_prop in H. destruct H as [Hsp Hf].
  pose proof (tsem_sem_program2 P d fuel fw fT args o outs Hc Hfind Hsp Hf Hrun) as HH.
  destruct (Sem.run_main fuel P args); exact HH || exact I.
Qed.
Print Assumptions in_imp_fragment2_sound.


(* ------------------------------------------------------------------ the strict checker is still a
   restriction of Lang/Wt.v *)

Lemma forallb2_impl {A B} (F G : A -> B -> bool) l1 l2 :
  (forall a b, F a b = true -> G a b = true) -> forallb2 F l1 l2 = true -> forallb2 G l1 l2 = true.
Proof.
  intro HFG. revert l2. induction l1 as [|a l1 IH]; intros [|b l2] H; cbn [forallb2] in *; try discriminate; [reflexivity|].
  apply andb_prop in H. destruct H as [H1 H2]. now rewrite (HFG _ _ H1), (IH _ H2).
Qed.

Theorem sc2_implies_wt P : forall fw,
  (forall g e, sc2_expr fw P g e = true -> wt_expr fw P g e = true) /\
  (forall g b t, sc2_block fw P g b = Some t -> wt_block fw P g b = Some t) /\
  (forall g s g' t, sc2_stmt fw P g s = Some (g', t) -> wt_stmt fw P g s = Some (g', t)).
Proof.
  induction fw as [|f (IHe & IHb & IHs)]; [repeat split; intros; discriminate|].
  split; [|split].
  - intros g [ei m t] H. cbn [sc2_expr] in H. cbn [wt_expr].
    destruct ei; try discriminate H.
    + apply sty_eqb_eq in H. now subst t.
    + apply sty_eqb_eq in H. now subst t.
    + destruct t; try discriminate H. now bsplit.
    + destruct t; try discriminate H. now bsplit.
    + destruct (tlookup g name) as [[tx mu]|]; [|discriminate H]. now apply vt_ty_eqb.
    + destruct t as [|[] b| | | |]; try discriminate H. bsplit.
      match goal with Hs : sty_eqb _ _ = true |- _ => apply sty_ty_eqb in Hs; rewrite Hs end.
      now rewrite (IHe _ _ ltac:(eassumption)).
    + bsplit.
      match goal with Hs : sty_eqb _ _ = true |- _ => apply sty_ty_eqb in Hs; rewrite Hs end.
      rewrite (IHe _ _ ltac:(eassumption)). rewrite orb_comm, scalar_int_or_bool by assumption. reflexivity.
    + bsplit. rewrite (IHe g x) by assumption. rewrite (IHe g y) by assumption. cbn [andb].
      now apply sc_op_wt.
    + destruct (sc2_block f P ([] :: g) b) as [tb|] eqn:Eb; [|discriminate H].
      rewrite (IHb _ _ _ Eb). now apply vt_ty_eqb.
    + match type of H with context [find_fn P ?fn] => destruct (find_fn P fn) as [d|] end; [|discriminate H].
      bsplit. rewrite (vt_ty_eqb _ _ ltac:(eassumption)). cbn [andb].
      eapply forallb2_impl; [|eassumption]. intros a p Hq. cbn beta in Hq. bsplit.
      rewrite (vt_ty_eqb _ _ ltac:(eassumption)). now rewrite (IHe _ _ ltac:(eassumption)).
    + bsplit.
      repeat match goal with
      | Hs : sty_eqb _ _ = true |- _ => apply sty_eqb_eq in Hs; rewrite Hs
      | Hs : vt_eqb _ _ = true |- _ => apply vt_ty_eqb in Hs; rewrite Hs
      end.
      rewrite (IHe g c), (IHe g t0), (IHe g e) by assumption. reflexivity.
    + bsplit.
      match goal with Hs : sty_eqb _ _ = true |- _ => apply sty_ty_eqb in Hs; rewrite Hs end.
      rewrite (IHe _ _ ltac:(eassumption)).
      rewrite !scalar_int_or_bool by assumption. reflexivity.
  - intros g b t H. cbn [sc2_block] in H. cbn [wt_block]. revert g H. generalize unit_ty.
    induction b as [|s r IH]; intros last g H; [exact H|].
    destruct (sc2_stmt f P g s) as [[g' t']|] eqn:Es; [|discriminate H].
    rewrite (IHs _ _ _ _ Es). now apply IH.
  - intros g [si m] g' t H. cbn [sc2_stmt] in H. cbn [wt_stmt].
    destruct si; try discriminate H.
    + destruct p as [[] mp tp]; try discriminate H.
      destruct (sc2_expr f P g e) eqn:He; [|discriminate H].
      destruct (vt_eqb tp (e_ty e)) eqn:Ht; [|discriminate H]. cbn [andb] in H.
      rewrite (IHe _ _ He). cbn [p_ty]. rewrite (vt_ty_eqb _ _ Ht). cbn [andb wt_pat tbind_all fold_left fst snd].
      exact H.
    + destruct (sc2_expr f P g e) eqn:He; [|discriminate H]. now rewrite (IHe _ _ He).
    + destruct accs; [|discriminate H]. destruct (tlookup g name) as [[tx []]|]; try discriminate H.
      destruct (vt_eqb tx (e_ty e)) eqn:Ht; [|discriminate H].
      destruct (sc2_expr f P g e) eqn:He; [|discriminate H]. cbn [andb] in H.
      now rewrite (vt_ty_eqb _ _ Ht), (IHe _ _ He).
    + destruct p as [[] mp tp]; try discriminate H. destruct arr as [[] ma ta]; try discriminate H.
      match type of H with (if ?c then _ else _) = _ => destruct c eqn:Hc end; [|discriminate H].
      destruct (sc2_block f P (tbind ([] :: g) name tp false) body) as [tb|] eqn:Eb; [|discriminate H].
      bsplit. destruct ta as [| |[|[] b2| | | |] n2| | |]; try discriminate. bsplit.
      repeat match goal with Hq : (_ =? _) = true |- _ => apply N.eqb_eq in Hq end. subst b2 n2.
      match goal with Hs : sty_eqb _ _ = true |- _ => apply sty_eqb_eq in Hs; subst tp end.
      cbn [e_ty wt_expr p_ty wt_pat tbind_all fold_left fst snd].
      destruct f as [|f']; [discriminate Eb|]. cbn [wt_expr ty_eqb].
      match goal with Hq : (lo <=? hi) = true |- _ => rewrite Hq end.
      rewrite !N.eqb_refl. cbn [Bool.eqb andb orb].
      rewrite (IHb _ _ _ Eb). exact H.
    + destruct (sc2_expr f P g e) eqn:He; [|discriminate H]. now rewrite (IHe _ _ He).
Qed.
Print Assumptions sc2_implies_wt.

(* ------------------------------------------------------------------ sanity: a program with a call
   is accepted by [in_imp_fragment2]; the theorem applies; the callee panics *)
Module SanityCall.
  Definition mm (k : N) : meta := mkMeta k 1 k 9.
  Definition u8 := TInt false 8.
  (* fn add(a: u8, b: u8) -> u8 { a + b }      names: a = 0, b = 1; add = 10, main = 11
     pub fn main(x: u8, y: u8) -> u8 { let z = add(x, y); if z < x { z } else { add(z, 1u8) } } *)
  Definition add_fn : fndef :=
    mkFn 10 [(0, u8); (1, u8)] u8
      [St (SExpr (Ex (EOp OAdd (Ex (EId 0) (mm 1) u8) (Ex (EId 1) (mm 2) u8)) (mm 3) u8)) (mm 4)].
  Definition main_fn : fndef :=
    mkFn 11 [(2, u8); (3, u8)] u8
      [ St (SLet (Pat (PId 4) (mm 5) u8)
                 (Ex (ECall 10 [Ex (EId 2) (mm 6) u8; Ex (EId 3) (mm 7) u8]) (mm 8) u8)) (mm 9);
        St (SExpr (Ex (EIf (Ex (EOp OLt (Ex (EId 4) (mm 10) u8) (Ex (EId 2) (mm 11) u8)) (mm 12) TBool)
                           (Ex (EBlock [St (SExpr (Ex (EId 4) (mm 13) u8)) (mm 14)]) (mm 15) u8)
                           (Ex (EBlock [St (SExpr (Ex (ECall 10 [Ex (EId 4) (mm 16) u8; Ex (ENumU 1 8) (mm 17) u8])
                                                      (mm 18) u8)) (mm 19)]) (mm 20) u8))
                      (mm 21) u8)) (mm 22) ].
  Definition P0 : program := mkProgram [] [] [add_fn; main_fn] [] 11.

  Example accepted : in_imp_fragment2 12 P0 = true.
  Proof. vm_compute. reflexivity. Qed.

  (* x = 200, y = 100: the first call overflows *)
  Example agrees_on_panic :
    exists o outs, tsem_program 12 P0 [enc 8 200; enc 8 100] = Ok (o, outs) /\
    Sem.run_main 12 P0 [enc 8 200; enc 8 100] = Sem.RunPanic Sem.ROverflow (mm 3) /\
    o = Some (preason_num Overflow, ploc32 (ploc_of (mm 3))).
  Proof.
    destruct (tsem_program 12 P0 [enc 8 200; enc 8 100]) as [[o outs]| |] eqn:Hrun;
      [|vm_compute in Hrun; discriminate Hrun|vm_compute in Hrun; discriminate Hrun].
    pose proof (in_imp_fragment2_sound P0 12 12 12 _ o outs accepted Hrun) as H.
    assert (Sem.run_main 12 P0 [enc 8 200; enc 8 100] = Sem.RunPanic Sem.ROverflow (mm 3)) as Ev
      by (vm_compute; reflexivity).
    rewrite Ev in H. eauto.
  Qed.

  (* x = 3, y = 4: 7, then 8 *)
  Example agrees_on_value :
    exists o outs l, tsem_program 12 P0 [enc 8 3; enc 8 4] = Ok (o, outs) /\
    Sem.run_main 12 P0 [enc 8 3; enc 8 4] = Sem.RunOk (enc 8 8) l /\ o = None /\ outs = enc 8 8.
  Proof.
    destruct (tsem_program 12 P0 [enc 8 3; enc 8 4]) as [[o outs]| |] eqn:Hrun;
      [|vm_compute in Hrun; discriminate Hrun|vm_compute in Hrun; discriminate Hrun].
    pose proof (in_imp_fragment2_sound P0 12 12 12 _ o outs accepted Hrun) as H.
    assert (exists l, Sem.run_main 12 P0 [enc 8 3; enc 8 4] = Sem.RunOk (enc 8 8) l) as [l Ev]
      by (eexists; vm_compute; reflexivity).
    rewrite Ev in H. destruct H as [-> ->]. exists None, (enc 8 8), l. repeat split; assumption || reflexivity.
  Qed.
End SanityCall.

(* ------------------------------------------------------------------ sanity: a for loop over a range,
   with a call in its body *)
Module SanityFor.
  Definition mm (k : N) : meta := mkMeta k 1 k 9.
  Definition u8 := TInt false 8.
  (* fn add(a: u8, b: u8) -> u8 { a + b }
     pub fn main(x: u8) -> u8 { let mut s = x; for i in 0u8..5u8 { s = add(s, i); } s } *)
  Definition add_fn : fndef :=
    mkFn 10 [(0, u8); (1, u8)] u8
      [St (SExpr (Ex (EOp OAdd (Ex (EId 0) (mm 1) u8) (Ex (EId 1) (mm 2) u8)) (mm 3) u8)) (mm 4)].
  Definition main_fn : fndef :=
    mkFn 11 [(2, u8)] u8
      [ St (SLetMut 3 (Ex (EId 2) (mm 5) u8)) (mm 6);
        St (SFor (Pat (PId 4) (mm 7) u8) (Ex (ERange 0 5 8) (mm 8) (TArr u8 5))
                 [St (SAssign 3 [] (Ex (ECall 10 [Ex (EId 3) (mm 9) u8; Ex (EId 4) (mm 10) u8]) (mm 11) u8)) (mm 12)])
           (mm 13);
        St (SExpr (Ex (EId 3) (mm 14) u8)) (mm 15) ].
  Definition P0 : program := mkProgram [] [] [add_fn; main_fn] [] 11.

  Example accepted : in_imp_fragment2 12 P0 = true.
  Proof. vm_compute. reflexivity. Qed.

  (* x = 250: 250 + 0 + 1 + 2 + 3 = 256 overflows in the fourth iteration *)
  Example agrees_on_panic :
    exists o outs, tsem_program 14 P0 [enc 8 250] = Ok (o, outs) /\
    Sem.run_main 14 P0 [enc 8 250] = Sem.RunPanic Sem.ROverflow (mm 3) /\
    o = Some (preason_num Overflow, ploc32 (ploc_of (mm 3))).
  Proof.
    destruct (tsem_program 14 P0 [enc 8 250]) as [[o outs]| |] eqn:Hrun;
      [|vm_compute in Hrun; discriminate Hrun|vm_compute in Hrun; discriminate Hrun].
    pose proof (in_imp_fragment2_sound P0 14 12 14 _ o outs accepted Hrun) as H.
    assert (Sem.run_main 14 P0 [enc 8 250] = Sem.RunPanic Sem.ROverflow (mm 3)) as Ev by (vm_compute; reflexivity).
    rewrite Ev in H. eauto.
  Qed.

  Example agrees_on_value :
    exists o outs l, tsem_program 14 P0 [enc 8 7] = Ok (o, outs) /\
    Sem.run_main 14 P0 [enc 8 7] = Sem.RunOk (enc 8 17) l /\ o = None /\ outs = enc 8 17.
  Proof.
    destruct (tsem_program 14 P0 [enc 8 7]) as [[o outs]| |] eqn:Hrun;
      [|vm_compute in Hrun; discriminate Hrun|vm_compute in Hrun; discriminate Hrun].
    pose proof (in_imp_fragment2_sound P0 14 12 14 _ o outs accepted Hrun) as H.
    assert (exists l, Sem.run_main 14 P0 [enc 8 7] = Sem.RunOk (enc 8 17) l) as [l Ev]
      by (eexists; vm_compute; reflexivity).
    rewrite Ev in H. destruct H as [-> ->]. exists None, (enc 8 17), l. repeat split; assumption || reflexivity.
  Qed.
End SanityFor.
