(* C15 for COMPILED circuits: the builder state the model of the compiler ends with
   (Lower.lower_main_with over bops) is [reachable] in the sense of Builder/StructSpec.v --
   it is produced from new_builder by a well-formed list of the six requests -- and the wires
   handed to build (the panic record and the outputs) are valid.  Hence the structure
   theorems pinned in Props/C15.v, which quantify over reachable builders, hold for every
   compiled circuit.

   Method: every operation of bops is a composition of the six requests whose operands are
   constants, inputs or results of earlier requests.  [Inv key b l]: b is reachable with some
   handle list in which all wires of l can be named.  Every gadget, sorting network and
   panic-record operation preserves it (part 1, by induction over their loops); the
   lowering itself through the parametricity theorem ParamLower.lower_param, with a logging
   copy of bops on one side (part 2). *)
From Coq Require Import Lia Permutation.
From GV Require Import Base.Util Base.NMap Lang.Ast Circuit.Ssa
  Builder.Builder Builder.Build Builder.BuilderSem Builder.BuilderSpec Builder.BuilderProofs
  Builder.BuildProofs Builder.Requests Builder.StructSpec Builder.StructProofs
  Gadgets.Gadgets Panic.PanicRec Compile.Lower Compile.LowerSound
  Compile.ParamBase Compile.ParamHelpers Compile.ParamLower.
Local Open Scope N_scope.

(* ================================================================ part 1: reachable builders *)

Lemma run_reqs_app rs1 : forall rs2 b hs,
  run_reqs b hs (rs1 ++ rs2) = let* (b1, hs1) := run_reqs b hs rs1 in run_reqs b1 hs1 rs2.
Proof.
  induction rs1 as [|r rs1 IH]; intros rs2 b hs; cbn [app run_reqs bind]; [reflexivity|].
  destruct (run_req b hs r) as [[w b1]| |]; cbn [bind]; try reflexivity. apply IH.
Qed.

(* one more request *)
Lemma reach_step b hs r w b' : reachable b hs -> req_ok (b_shift b) r -> run_req b hs r = Ok (w, b') ->
  reachable b' (hs ++ [w]) /\ b_shift b' = b_shift b /\ b_dedup b' = b_dedup b.
Proof.
  intros (dedup & inputs & rs & Hr & E) Hok Hrun.
  destruct (run_reqs_post rs _ _ _ _ (inv_new dedup inputs) (Forall_nil _) Hr E) as (_ & I & X & V).
  assert (Hs : b_shift b = 2 + sumN inputs) by (destruct X as [Hs _]; exact Hs).
  destruct (run_req_post _ _ _ _ _ I V Hok Hrun) as (_ & _ & X' & _).
  split; [|destruct X' as (Xs & _ & Xd & _); split; assumption].
  exists dedup, inputs, (rs ++ [r]). split.
  - apply Forall_app. split; [exact Hr|]. constructor; [rewrite <- Hs; exact Hok|constructor].
  - rewrite run_reqs_app, E. cbn [bind run_reqs]. rewrite Hrun. reflexivity.
Qed.

(* a wire that a request can name: a constant, an input, or a handle *)
Definition nm (b : builder) (hs : list N) (w : N) : Prop := w < b_shift b \/ In w hs.

Lemma nm_opnd b hs w : nm b hs w -> exists o, opnd_ok (b_shift b) o /\ resolve hs o = Some w.
Proof.
  intros [H|H].
  - exists (Raw w). split; [exact H|reflexivity].
  - apply In_nth_error in H. destruct H as [k Hk]. exists (Hnd k). split; [exact I|exact Hk].
Qed.

(* [b] (with shift [fst key] and de-duplication flag [snd key]) is reachable with a handle
   list that names all of [l] *)
Definition Inv (key : N * bool) (b : builder) (l : list N) : Prop :=
  (b_shift b = fst key /\ b_dedup b = snd key) /\ exists hs, reachable b hs /\ Forall (nm b hs) l.

Lemma Inv_sub key b l l' : Inv key b l -> incl l' l -> Inv key b l'.
Proof.
  intros (Hs & hs & R & N) Hi. split; [exact Hs|]. exists hs. split; [exact R|].
  apply Forall_forall. intros w Hw. rewrite Forall_forall in N. auto.
Qed.

Lemma Inv_consts key b l : Inv key b l -> Inv key b (0 :: 1 :: l).
Proof.
  intros (Hs & hs & R & N). split; [exact Hs|]. exists hs. split; [exact R|].
  destruct (reachable_inv _ _ R) as [I _]. pose proof (inv_shift b I).
  constructor; [left; lia|]. constructor; [left; lia|exact N].
Qed.

Lemma Inv_valid key b l w : Inv key b l -> In w l -> valid b w.
Proof.
  intros (_ & hs & R & N) Hw. rewrite Forall_forall in N. destruct (reachable_inv _ _ R) as [I V].
  destruct (N w Hw) as [H|H]; [unfold valid, counter; lia|]. unfold valids in V. rewrite Forall_forall in V. auto.
Qed.

(* the general step: a request whose operands are named *)
Lemma Inv_req key b l r w b' : Inv key b l ->
  (forall hs, Forall (nm b hs) l -> exists r', req_ok (b_shift b) r' /\ run_req b hs r' = r) ->
  r = Ok (w, b') -> Inv key b' (w :: l).
Proof.
  intros (Hs & hs & R & N) Hreq E. destruct (Hreq hs N) as (r' & Hok & Hrun). rewrite E in Hrun.
  destruct (reach_step b hs r' w b' R Hok Hrun) as (R' & Hs' & Hd'). destruct Hs as [Hs Hd].
  split; [split; congruence|]. exists (hs ++ [w]). split; [exact R'|].
  constructor; [right; apply in_or_app; right; now left|].
  apply Forall_forall. intros x Hx. rewrite Forall_forall in N. destruct (N x Hx) as [H|H]; [left; lia|right; apply in_or_app; now left].
Qed.

Ltac named H N x := let Hx := fresh in
  assert (Hx : nm _ _ x) by (rewrite Forall_forall in N; apply N; exact H).

Lemma xor_reach key b l x y r b' : Inv key b l -> In x l -> In y l -> push_xor_top b x y = Ok (r, b') -> Inv key b' (r :: l).
Proof.
  intros I Hx Hy E. eapply Inv_req; [exact I| |exact E]. intros hs N. rewrite Forall_forall in N.
  destruct (nm_opnd b hs x (N x Hx)) as (ox & Ox & Rx). destruct (nm_opnd b hs y (N y Hy)) as (oy & Oy & Ry).
  exists (RXor ox oy). split; [split; assumption|]. cbn [run_req]. rewrite Rx, Ry. reflexivity.
Qed.

Lemma and_reach key b l x y r b' : Inv key b l -> In x l -> In y l -> push_and_top b x y = Ok (r, b') -> Inv key b' (r :: l).
Proof.
  intros I Hx Hy E. eapply Inv_req; [exact I| |exact E]. intros hs N. rewrite Forall_forall in N.
  destruct (nm_opnd b hs x (N x Hx)) as (ox & Ox & Rx). destruct (nm_opnd b hs y (N y Hy)) as (oy & Oy & Ry).
  exists (RAnd ox oy). split; [split; assumption|]. cbn [run_req]. rewrite Rx, Ry. reflexivity.
Qed.

Lemma or_reach key b l x y r b' : Inv key b l -> In x l -> In y l -> push_or b x y = Ok (r, b') -> Inv key b' (r :: l).
Proof.
  intros I Hx Hy E. eapply Inv_req; [exact I| |exact E]. intros hs N. rewrite Forall_forall in N.
  destruct (nm_opnd b hs x (N x Hx)) as (ox & Ox & Rx). destruct (nm_opnd b hs y (N y Hy)) as (oy & Oy & Ry).
  exists (ROr ox oy). split; [split; assumption|]. cbn [run_req]. rewrite Rx, Ry. reflexivity.
Qed.

Lemma eq_reach key b l x y r b' : Inv key b l -> In x l -> In y l -> push_eq b x y = Ok (r, b') -> Inv key b' (r :: l).
Proof.
  intros I Hx Hy E. eapply Inv_req; [exact I| |exact E]. intros hs N. rewrite Forall_forall in N.
  destruct (nm_opnd b hs x (N x Hx)) as (ox & Ox & Rx). destruct (nm_opnd b hs y (N y Hy)) as (oy & Oy & Ry).
  exists (REq ox oy). split; [split; assumption|]. cbn [run_req]. rewrite Rx, Ry. reflexivity.
Qed.

Lemma not_reach key b l x r b' : Inv key b l -> In x l -> push_not b x = Ok (r, b') -> Inv key b' (r :: l).
Proof.
  intros I Hx E. eapply Inv_req; [exact I| |exact E]. intros hs N. rewrite Forall_forall in N.
  destruct (nm_opnd b hs x (N x Hx)) as (ox & Ox & Rx).
  exists (RNot ox). split; [assumption|]. cbn [run_req]. rewrite Rx. reflexivity.
Qed.

Lemma mux_reach key b l s x y r b' : Inv key b l -> In s l -> In x l -> In y l ->
  push_mux b s x y = Ok (r, b') -> Inv key b' (r :: l).
Proof.
  intros I Hs Hx Hy E. eapply Inv_req; [exact I| |exact E]. intros hs N. rewrite Forall_forall in N.
  destruct (nm_opnd b hs s (N s Hs)) as (os & Os & Rs).
  destruct (nm_opnd b hs x (N x Hx)) as (ox & Ox & Rx). destruct (nm_opnd b hs y (N y Hy)) as (oy & Oy & Ry).
  exists (RMux os ox oy). split; [repeat split; assumption|]. cbn [run_req]. rewrite Rs, Rx, Ry. reflexivity.
Qed.

(* ---------------------------------------------------------------- automation *)

Ltac insolve := first [assumption | solve [auto 40 with datatypes]].
Ltac inc := let z := fresh "z" in let Hz := fresh "Hz" in
  intros z Hz; cbn [In] in *; repeat rewrite in_app_iff in *; cbn [In] in *; repeat rewrite in_app_iff in *; cbn [In] in *; tauto.

(* run the head computation of H with the closure lemma [lem]; [I] is the current invariant *)
Ltac rs H I lem :=
  match type of H with
  | bind ?m _ = _ =>
      let E := fresh "E" in
      destruct m as [[? ?]| |] eqn:E; cbn [bind] in H; try discriminate H;
      eapply lem in E; [|first [exact I | insolve] ..]; clear I; rename E into I
  end.

(* destruct the head computation of H *)
Tactic Notation "dh" hyp(H) "as" simple_intropattern(p) ident(E) :=
  match type of H with bind ?m _ = _ => destruct m as p eqn:E; cbn [bind] in H; try discriminate H end.

Ltac dif H := match type of H with (if ?c then _ else _) = _ => destruct c end.

Definition pin (l : list N) (p : N * N) : Prop := In (fst p) l /\ In (snd p) l.

Lemma pin_combine l x : forall y, incl x l -> incl y l -> Forall (pin l) (combine x y).
Proof.
  induction x as [|a x IH]; intros [|c y] Hx Hy; cbn [combine]; constructor.
  - split; [apply Hx|apply Hy]; now left.
  - apply IH; intros z Hz; [apply Hx|apply Hy]; now right.
Qed.

Lemma pin_mono l l' ps : incl l l' -> Forall (pin l) ps -> Forall (pin l') ps.
Proof. intros Hi. apply Forall_impl. intros p [H1 H2]. split; auto. Qed.

Lemma Forall_rev' {A} (Q : A -> Prop) l : Forall Q l -> Forall Q (rev l).
Proof. intro H. apply Forall_forall. intros x Hx. apply in_rev in Hx. rewrite Forall_forall in H. auto. Qed.

Lemma In_firstn' {A} n : forall (x : list A) z, In z (firstn n x) -> In z x.
Proof. induction n as [|n IH]; intros [|a x] z Hz; cbn [firstn In] in *; try tauto. destruct Hz; auto. Qed.
Lemma In_skipn' {A} n : forall (x : list A) z, In z (skipn n x) -> In z x.
Proof. induction n as [|n IH]; intros [|a x] z Hz; cbn [skipn In] in *; try tauto. right. auto. Qed.
Lemma incl_firstn {A} n (x l : list A) : incl x l -> incl (firstn n x) l.
Proof. intros H z Hz. apply H. eapply In_firstn'; eauto. Qed.
Lemma incl_skipn {A} n (x l : list A) : incl x l -> incl (skipn n x) l.
Proof. intros H z Hz. apply H. eapply In_skipn'; eauto. Qed.
Lemma incl_tl' {A} (x l : list A) : incl x l -> incl (tl x) l.
Proof. intros H z Hz. apply H. destruct x; [exact Hz|now right]. Qed.
Lemma hd_res_in (x l : list N) a : incl x l -> hd_res x = Ok a -> In a l.
Proof. destruct x; [discriminate|]. intros H [= <-]. apply H. now left. Qed.
Lemma incl_repeat (a : N) n l : In a l -> incl (repeat a n) l.
Proof. intros H z Hz. apply repeat_spec in Hz. now subst. Qed.

Lemma incl_rev' {A} (x l : list A) : incl x l -> incl (rev x) l.
Proof. intros H z Hz. apply H. now apply in_rev. Qed.

#[local] Hint Resolve incl_firstn incl_skipn incl_tl' incl_repeat incl_rev' : datatypes.

Lemma In_tl' {A} (x : list A) z : In z (tl x) -> In z x.
Proof. destruct x; [auto|now right]. Qed.
Lemma In_rev' {A} (x : list A) z : In z (rev x) -> In z x.
Proof. apply in_rev. Qed.
Lemma In_repeat' {A} (a : A) n z : In z (repeat a n) -> z = a.
Proof. apply repeat_spec. Qed.

(* membership / inclusion goals over lists built from :: and ++ *)
Ltac mem_pre :=
  repeat match goal with
  | H : In _ (firstn _ _) |- _ => apply In_firstn' in H
  | H : In _ (skipn _ _) |- _ => apply In_skipn' in H
  | H : In _ (tl _) |- _ => apply In_tl' in H
  | H : In _ (rev _) |- _ => apply In_rev' in H
  | H : In _ (repeat _ _) |- _ => apply In_repeat' in H
  | H : In _ (_ ++ _) |- _ => apply in_app_or in H
  | H : In _ (_ :: _) |- _ => cbn [In] in H
  | H : _ \/ _ |- _ => destruct H as [H|H]
  | H : In _ [] |- _ => destruct H
  | H : False |- _ => destruct H
  end.
Ltac mem_norm := repeat (progress (cbn [In]; repeat rewrite in_app_iff)).
Ltac mem_fin :=
  subst; mem_norm;
  first [ assumption
        | match goal with H : incl ?x _, H' : In ?z ?x |- _ => apply H in H'; revert H' end;
          mem_norm; solve [intuition auto]
        | solve [intuition auto] ].
Ltac mem :=
  let z := fresh "z" in let Hz := fresh "Hz" in
  try (intros z Hz); mem_pre; mem_fin.

(* ---------------------------------------------------------------- arithmetic gadgets *)

Section Gad.
  Variable key : N * bool.

  Lemma eq_go_reach xys : forall b l acc r b', Inv key b l -> In acc l -> Forall (pin l) xys ->
    GadgetHoare.eq_go b acc xys = Ok (r, b') -> Inv key b' (r :: l).
  Proof.
    induction xys as [|[x y] xys IH]; intros b l acc r b' I Ha Hp H; cbn [GadgetHoare.eq_go] in H.
    - injection H as <- <-. eapply Inv_sub; [exact I|]. intros z [<-|Hz]; assumption.
    - inversion Hp as [|p ps [Hx Hy] Hps]; subst. cbn [fst snd] in Hx, Hy.
      rs H I eq_reach. rs H I and_reach.
      eapply IH in H; [|exact I|insolve|]; [eapply Inv_sub; [exact H|]; insolve|].
      eapply pin_mono; [|exact Hps]. insolve.
  Qed.

  Lemma eq_circuit_reach b l x y r b' : Inv key b l -> incl x l -> incl y l ->
    push_eq_circuit b x y = Ok (r, b') -> Inv key b' (r :: l).
  Proof.
    intros I Hx Hy H. rewrite GadgetHoare.push_eq_circuit_eq in H. apply Inv_consts in I.
    destruct (negb _).
    - injection H as <- <-. eapply Inv_sub; [exact I|]. insolve.
    - eapply eq_go_reach in H; [|exact I|insolve|apply pin_combine; insolve]. eapply Inv_sub; [exact H|]. insolve.
  Qed.

  Lemma adder_reach b l x y c r b' : Inv key b l -> In x l -> In y l -> In c l ->
    push_adder b x y c = Ok (r, b') -> Inv key b' (fst r :: snd r :: l).
  Proof.
    intros I Hx Hy Hc H. unfold push_adder in H.
    rs H I xor_reach. rs H I and_reach. rs H I xor_reach. rs H I and_reach. rs H I or_reach.
    injection H as <- <-. cbn [fst snd]. eapply Inv_sub; [exact I|]. insolve.
  Qed.

  Lemma multiplier_reach b l x y z c r b' : Inv key b l -> In x l -> In y l -> In z l -> In c l ->
    push_multiplier b x y z c = Ok (r, b') -> Inv key b' (fst r :: snd r :: l).
  Proof.
    intros I Hx Hy Hz Hc H. unfold push_multiplier in H. rs H I and_reach.
    eapply adder_reach in H; [|exact I|insolve..]. eapply Inv_sub; [exact H|]. insolve.
  Qed.

  Lemma add_loop_reach xys : forall b l carry cp acc r b', Inv key b l -> Forall (pin l) xys ->
    In carry l -> In cp l -> incl acc l ->
    add_loop b xys carry cp acc = Ok (r, b') -> Inv key b' (snd (fst r) :: snd r :: fst (fst r) ++ l).
  Proof.
    induction xys as [|[x y] xys IH]; intros b l carry cp acc r b' I Hp Hc Hcp Ha H; cbn [add_loop] in H.
    - injection H as <- <-. cbn [fst snd]. eapply Inv_sub; [exact I|]. intros z [<-|[<-|Hz]]; try assumption.
      apply in_app_or in Hz. destruct Hz; auto.
    - inversion Hp as [|p ps [Hx Hy] Hps]; subst. cbn [fst snd] in Hx, Hy.
      destruct (push_adder b x y carry) as [[[s c] b1]| |] eqn:E; cbn [bind] in H; try discriminate H.
      eapply adder_reach in E; [|exact I|insolve..]. cbn [fst snd] in E.
      eapply IH in H; [|exact E|eapply pin_mono; [|exact Hps]; insolve|insolve|insolve|].
      + eapply Inv_sub; [exact H|]. inc.
      + intros z [<-|Hz]; [insolve|]. right. right. auto.
  Qed.

  Lemma addition_reach b l x y r b' : Inv key b l -> incl x l -> incl y l ->
    push_addition_circuit b x y = Ok (r, b') -> Inv key b' (snd (fst r) :: snd r :: fst (fst r) ++ l).
  Proof.
    intros I Hx Hy H. unfold push_addition_circuit in H. destruct (negb _); [discriminate|].
    apply Inv_consts in I. eapply add_loop_reach in H; [|exact I|apply Forall_rev', pin_combine; insolve|insolve|insolve|intros z []].
    eapply Inv_sub; [exact H|]. inc.
  Qed.

  Lemma neg_loop_reach xs : forall b l carry acc r b', Inv key b l -> incl xs l -> In carry l -> incl acc l ->
    neg_loop b xs carry acc = Ok (r, b') -> Inv key b' (r ++ l).
  Proof.
    induction xs as [|x xs IH]; intros b l carry acc r b' I Hx Hc Ha H; cbn [neg_loop] in H.
    - injection H as <- <-. eapply Inv_sub; [exact I|]. intros z Hz. apply in_app_or in Hz. destruct Hz; auto.
    - rs H I not_reach. rs H I xor_reach. rs H I and_reach.
      eapply IH in H; [|exact I|..].
      + eapply Inv_sub; [exact H|]. inc.
      + intros z Hz. right. right. right. apply Hx. now right.
      + insolve.
      + intros z [<-|Hz]; [insolve|]. right. right. right. auto.
  Qed.

  Lemma negation_reach b l x r b' : Inv key b l -> incl x l ->
    push_negation_circuit b x = Ok (r, b') -> Inv key b' (r ++ l).
  Proof.
    intros I Hx H. unfold push_negation_circuit in H. apply Inv_consts in I.
    eapply neg_loop_reach in H; [|exact I|insolve|insolve|intros z []].
    eapply Inv_sub; [exact H|]. inc.
  Qed.

  Lemma subtraction_reach b l x y sg r b' : Inv key b l -> incl x l -> incl y l ->
    push_subtraction_circuit b x y sg = Ok (r, b') -> Inv key b' (snd r :: fst r ++ l).
  Proof.
    intros I Hx Hy H. unfold push_subtraction_circuit in H. unfold W, B in *. destruct (negb _); [discriminate|].
    apply Inv_consts in I.
    assert (Core : forall x0 y0 yn b1 se c1 c2 b2, In x0 (0 :: 1 :: l) -> In y0 (0 :: 1 :: l) ->
      push_negation_circuit b (y0 :: y) = Ok (yn, b1) -> push_addition_circuit b1 (x0 :: x) yn = Ok ((se, c1, c2), b2) ->
      Inv key b2 (c1 :: c2 :: se ++ yn ++ 0 :: 1 :: l)).
    { intros x0 y0 yn b1 se c1 c2 b2 Hx0 Hy0 En Ea.
      eapply negation_reach in En; [|exact I|intros z [<-|Hz]; [exact Hy0|right; right; auto]].
      eapply addition_reach in Ea; [|exact En|intros z [<-|Hz]; [insolve|apply in_or_app; right; right; right; auto]|insolve].
      exact Ea. }
    destruct sg.
    - dh H as [x0| |] Ex0. dh H as [y0| |] Ey0. dh H as [[yn b1]| |] En. dh H as [[[[se c1] c2] b2]| |] Ea.
      pose proof (Core x0 y0 yn b1 se c1 c2 b2 (or_intror (or_intror (hd_res_in x l x0 Hx Ex0)))
                    (or_intror (or_intror (hd_res_in y l y0 Hy Ey0))) En Ea) as I2.
      dh H as [sign| |] Es. dh H as [s0| |] Es0.
      assert (Hse : incl se (c1 :: c2 :: se ++ yn ++ 0 :: 1 :: l)) by insolve.
      pose proof (hd_res_in _ _ _ Hse Es) as Hsign. pose proof (hd_res_in _ _ _ (incl_tl' _ _ Hse) Es0) as Hs0.
      dh H as [[ov b3]| |] Eo. eapply xor_reach in Eo; [|exact I2|exact Hsign|exact Hs0].
      injection H as <- <-. cbn [fst snd]. eapply Inv_sub; [exact Eo|].
      intros z [<-|Hz]; [now left|]. apply in_app_or in Hz. destruct Hz as [Hz|Hz]; [right; apply (incl_tl' _ _ Hse); exact Hz|].
      right. right. right. apply in_or_app. right. apply in_or_app. right. right. right. exact Hz.
    - cbn [bind] in H. dh H as [[yn b1]| |] En. dh H as [[[[se c1] c2] b2]| |] Ea.
      pose proof (Core 0 0 yn b1 se c1 c2 b2 (or_introl eq_refl) (or_introl eq_refl) En Ea) as I2.
      dh H as [sign| |] Es.
      assert (Hse : incl se (c1 :: c2 :: se ++ yn ++ 0 :: 1 :: l)) by insolve.
      pose proof (hd_res_in _ _ _ Hse Es) as Hsign.
      injection H as <- <-. cbn [fst snd]. eapply Inv_sub; [exact I2|].
      intros z [<-|Hz]; [exact Hsign|]. apply in_app_or in Hz. destruct Hz as [Hz|Hz]; [apply (incl_tl' _ _ Hse); exact Hz|].
      right. right. apply in_or_app. right. apply in_or_app. right. right. right. exact Hz.
  Qed.
  Lemma or_all_reach ys : forall b l acc r b', Inv key b l -> In acc l -> incl ys l ->
    or_all b acc ys = Ok (r, b') -> Inv key b' (r :: l).
  Proof.
    induction ys as [|y ys IH]; intros b l acc r b' I Ha Hy H; cbn [or_all] in H.
    - injection H as <- <-. eapply Inv_sub; [exact I|]. intros z [<-|Hz]; assumption.
    - assert (Hy0 : In y l) by (apply Hy; now left).
      assert (Hys : incl ys l) by (intros z Hz; apply Hy; now right).
      rs H I or_reach. eapply IH in H; [|exact I|insolve|insolve].
      eapply Inv_sub; [exact H|]. inc.
  Qed.

  Lemma mux_all_reach xs : forall ys b l s r b', Inv key b l -> In s l -> incl xs l -> incl ys l ->
    mux_all b s xs ys = Ok (r, b') -> Inv key b' (r ++ l).
  Proof.
    induction xs as [|x xs IH]; intros [|y ys] b l s r b' I Hs Hx Hy H; cbn [mux_all] in H;
      try (injection H as <- <-; exact I).
    assert (Hx0 : In x l) by (apply Hx; now left).
    assert (Hxs : incl xs l) by (intros z Hz; apply Hx; now right).
    assert (Hy0 : In y l) by (apply Hy; now left).
    assert (Hys : incl ys l) by (intros z Hz; apply Hy; now right).
    dh H as [[m b1]| |] Em. eapply mux_reach in Em; [|exact I|assumption..].
    dh H as [[rest b2]| |] Er. eapply IH in Er; [|exact Em|insolve..].
    injection H as <- <-. eapply Inv_sub; [exact Er|]. inc.
  Qed.
  Lemma udiv_step_reach b l y bits sa rem r b' : Inv key b l -> incl y l -> incl rem l ->
    udiv_step b y bits sa rem = Ok (r, b') -> Inv key b' (snd r :: fst r ++ 0 :: 1 :: l).
  Proof.
    intros I Hy Hr H. unfold udiv_step in H. apply Inv_consts in I.
    dh H as [[ov b1]| |] E1. eapply or_all_reach in E1; [|exact I|mem|mem].
    dh H as [[[xsub carry] b2]| |] E2.
    eapply subtraction_reach in E2; [|exact E1|mem|mem]; cbn [fst snd] in E2.
    dh H as [[coo b3]| |] E3. eapply or_reach in E3; [|exact E2|mem|mem].
    dh H as [[rem' b4]| |] E4. eapply mux_all_reach in E4; [|exact E3|mem|mem|mem].
    dh H as [[qb b5]| |] E5. eapply not_reach in E5; [|exact E4|mem].
    dh H as [[q b6]| |] E6. eapply mux_reach in E6; [|exact E5|mem|mem|mem].
    injection H as <- <-. cbn [fst snd]. eapply Inv_sub; [exact E6|]. mem.
  Qed.

  Lemma udiv_loop_reach y bits sas : forall b l rem qr r b', Inv key b l -> incl y l -> incl rem l -> incl qr l ->
    udiv_loop b y bits sas rem qr = Ok (r, b') -> Inv key b' (fst r ++ snd r ++ l).
  Proof.
    induction sas as [|sa sas IH]; intros b l rem qr r b' I Hy Hr Hq H; cbn [udiv_loop] in H.
    - injection H as <- <-. cbn [fst snd]. eapply Inv_sub; [exact I|]. mem.
    - dh H as [[[rem' q] b1]| |] E1. eapply udiv_step_reach in E1; [|exact I|assumption..]. cbn [fst snd] in E1.
      eapply IH in H; [|exact E1|mem..].
      eapply Inv_sub; [exact H|]. mem.
  Qed.

  Lemma udiv_reach b l x y r b' : Inv key b l -> incl x l -> incl y l ->
    push_unsigned_division_circuit b x y = Ok (r, b') -> Inv key b' (fst r ++ snd r ++ l).
  Proof.
    intros I Hx Hy H. unfold push_unsigned_division_circuit in H. destruct (negb _); [discriminate|].
    eapply udiv_loop_reach in H; [exact H|exact I|assumption|assumption|intros z []].
  Qed.

  Lemma sdiv_reach b l x y r b' : Inv key b l -> incl x l -> incl y l ->
    push_signed_division_circuit b x y = Ok (r, b') -> Inv key b' (fst r ++ snd r ++ l).
  Proof.
    intros I Hx Hy H. unfold push_signed_division_circuit in H. unfold W, B in *. destruct (negb _); [discriminate|].
    dh H as [x0| |] Ex0. dh H as [y0| |] Ey0.
    pose proof (hd_res_in _ _ _ Hx Ex0) as Hx0. pose proof (hd_res_in _ _ _ Hy Ey0) as Hy0.
    dh H as [[isneg b1]| |] E1. eapply xor_reach in E1; [|exact I|assumption..].
    dh H as [[xneg b2]| |] E2. eapply negation_reach in E2; [|exact E1|mem].
    dh H as [[xa b3]| |] E3. eapply mux_all_reach in E3; [|exact E2|mem..].
    dh H as [[yneg b4]| |] E4. eapply negation_reach in E4; [|exact E3|mem].
    dh H as [[ya b5]| |] E5. eapply mux_all_reach in E5; [|exact E4|mem..].
    dh H as [[[q r0] b6]| |] E6. eapply udiv_reach in E6; [|exact E5|mem..]; cbn [fst snd] in E6.
    dh H as [[qneg b7]| |] E7. eapply negation_reach in E7; [|exact E6|mem].
    dh H as [[q' b8]| |] E8. eapply mux_all_reach in E8; [|exact E7|mem..].
    dh H as [[rneg b9]| |] E9. eapply negation_reach in E9; [|exact E8|mem].
    dh H as [[r' b10]| |] E10. eapply mux_all_reach in E10; [|exact E9|mem..].
    injection H as <- <-. cbn [fst snd]. eapply Inv_sub; [exact E10|]. mem.
  Qed.
  Lemma gt_loop_reach xys : forall b l carry r b', Inv key b l -> Forall (pin l) xys -> In carry l ->
    gt_loop b xys carry = Ok (r, b') -> Inv key b' (r :: l).
  Proof.
    induction xys as [|[x y] xys IH]; intros b l carry r b' I Hp Hc H; cbn [gt_loop] in H.
    - injection H as <- <-. eapply Inv_sub; [exact I|]. mem.
    - inversion Hp as [|p ps [Hx Hy] Hps]; subst p ps. cbn [fst snd] in Hx, Hy.
      dh H as [[xc b1]| |] E1. eapply xor_reach in E1; [|exact I|mem..].
      dh H as [[yc b2]| |] E2. eapply xor_reach in E2; [|exact E1|mem..].
      dh H as [[nyc b3]| |] E3. eapply not_reach in E3; [|exact E2|mem..].
      dh H as [[an b4]| |] E4. eapply and_reach in E4; [|exact E3|mem..].
      dh H as [[c b5]| |] E5. eapply xor_reach in E5; [|exact E4|mem..].
      eapply IH in H; [|exact E5| |mem].
      + eapply Inv_sub; [exact H|]. mem.
      + eapply pin_mono; [|exact Hps]. mem.
  Qed.

  Lemma gt_reach b l bits x y r b' : Inv key b l -> incl x l -> incl y l ->
    push_gt_circuit b bits x y = Ok (r, b') -> Inv key b' (r :: l).
  Proof.
    intros I Hx Hy H. unfold push_gt_circuit in H. destruct (_ || _)%bool; [discriminate|].
    apply Inv_consts in I.
    eapply gt_loop_reach in H; [|exact I| |mem].
    - eapply Inv_sub; [exact H|]. mem.
    - apply Forall_rev', pin_combine; mem.
  Qed.

  Lemma cmp_loop_reach xys : forall b l first sg ag al r b', Inv key b l -> Forall (pin l) xys -> In ag l -> In al l ->
    cmp_loop b first sg xys ag al = Ok (r, b') -> Inv key b' (fst r :: snd r :: l).
  Proof.
    induction xys as [|[x y] xys IH]; intros b l first sg ag al r b' I Hp Hg Hl H; cbn [cmp_loop] in H.
    - injection H as <- <-. cbn [fst snd]. eapply Inv_sub; [exact I|]. mem.
    - inversion Hp as [|p ps [Hx Hy] Hps]; subst p ps. cbn [fst snd] in Hx, Hy.
      dh H as [[xo b1]| |] E1. eapply xor_reach in E1; [|exact I|mem..].
      dh H as [[xa b2]| |] E2. eapply and_reach in E2; [|exact E1|mem..].
      dh H as [[ya b3]| |] E3. eapply and_reach in E3; [|exact E2|mem..].
      assert (Hgl : exists gt lt, (if (first && sg)%bool then (ya, xa) else (xa, ya)) = (gt, lt)
                 /\ In gt (ya :: xa :: xo :: l) /\ In lt (ya :: xa :: xo :: l)).
      { destruct (first && sg)%bool; eexists; eexists; (split; [reflexivity|split; mem]). }
      destruct Hgl as (gt & lt & Egl & Hgt & Hlt). rewrite Egl in H.
      dh H as [[gt' b4]| |] E4. eapply or_reach in E4; [|exact E3|mem..].
      dh H as [[lt' b5]| |] E5. eapply or_reach in E5; [|exact E4|mem..].
      dh H as [[nag b6]| |] E6. eapply not_reach in E6; [|exact E5|mem..].
      dh H as [[nal b7]| |] E7. eapply not_reach in E7; [|exact E6|mem..].
      dh H as [[ag' b8]| |] E8. eapply and_reach in E8; [|exact E7|mem..].
      dh H as [[al' b9]| |] E9. eapply and_reach in E9; [|exact E8|mem..].
      eapply IH in H; [|exact E9| |mem|mem].
      + eapply Inv_sub; [exact H|]. mem.
      + eapply pin_mono; [|exact Hps]. mem.
  Qed.

  Lemma comparator_reach b l bits x sx y sy r b' : Inv key b l -> incl x l -> incl y l ->
    push_comparator_circuit b bits x sx y sy = Ok (r, b') -> Inv key b' (fst r :: snd r :: l).
  Proof.
    intros I Hx Hy H. unfold push_comparator_circuit in H. destruct (_ || _)%bool; [discriminate|].
    apply Inv_consts in I.
    eapply cmp_loop_reach in H; [|exact I| |mem|mem].
    - eapply Inv_sub; [exact H|]. mem.
    - apply pin_combine; mem.
  Qed.

  Lemma condswap_reach b l s x y r b' : Inv key b l -> In s l -> In x l -> In y l ->
    push_condswap b s x y = Ok (r, b') -> Inv key b' (fst r :: snd r :: l).
  Proof.
    intros I Hs Hx Hy H. unfold push_condswap in H. destruct (x =? y).
    - injection H as <- <-. cbn [fst snd]. eapply Inv_sub; [exact I|]. mem.
    - dh H as [[xy b1]| |] E1. eapply xor_reach in E1; [|exact I|mem..].
      dh H as [[sw b2]| |] E2. eapply and_reach in E2; [|exact E1|mem..].
      dh H as [[xs b3]| |] E3. eapply xor_reach in E3; [|exact E2|mem..].
      dh H as [[ys b4]| |] E4. eapply xor_reach in E4; [|exact E3|mem..].
      injection H as <- <-. cbn [fst snd]. eapply Inv_sub; [exact E4|]. mem.
  Qed.

  Lemma condswap_all_reach xys : forall b l s r b', Inv key b l -> In s l -> Forall (pin l) xys ->
    condswap_all b s xys = Ok (r, b') -> Inv key b' (fst r ++ snd r ++ l).
  Proof.
    induction xys as [|[x y] xys IH]; intros b l s r b' I Hs Hp H; cbn [condswap_all] in H.
    - injection H as <- <-. exact I.
    - inversion Hp as [|p ps [Hx Hy] Hps]; subst p ps. cbn [fst snd] in Hx, Hy.
      dh H as [[[a c] b1]| |] E1. eapply condswap_reach in E1; [|exact I|mem..]. cbn [fst snd] in E1.
      dh H as [[[mn mx] b2]| |] E2. eapply IH in E2; [|exact E1|mem|]. cbn [fst snd] in E2.
      + injection H as <- <-. cbn [fst snd]. eapply Inv_sub; [exact E2|]. mem.
      + eapply pin_mono; [|exact Hps]. mem.
  Qed.

  Lemma sorter2_reach b l bits x y r b' : Inv key b l -> incl x l -> incl y l ->
    push_sorter b bits x y = Ok (r, b') -> Inv key b' (fst r ++ snd r ++ l).
  Proof.
    intros I Hx Hy H. unfold push_sorter in H.
    dh H as [[gt b1]| |] E1. eapply gt_reach in E1; [|exact I|mem..].
    eapply condswap_all_reach in H; [|exact E1|mem|apply pin_combine; mem].
    eapply Inv_sub; [exact H|]. mem.
  Qed.
  Lemma incl_concat_firstn {A} n (v : list (list A)) l : incl (concat v) l -> incl (concat (firstn n v)) l.
  Proof.
    intros H z Hz. apply H. apply in_concat in Hz. destruct Hz as (x & Hx & Hzx). apply in_concat.
    exists x. split; [eapply In_firstn'; exact Hx|exact Hzx].
  Qed.
  Lemma incl_concat_skipn {A} n (v : list (list A)) l : incl (concat v) l -> incl (concat (skipn n v)) l.
  Proof.
    intros H z Hz. apply H. apply in_concat in Hz. destruct Hz as (x & Hx & Hzx). apply in_concat.
    exists x. split; [eapply In_skipn'; exact Hx|exact Hzx].
  Qed.

  Lemma merge_pairs_reach bits asc lower : forall upper b l r b', Inv key b l ->
    incl (concat lower) l -> incl (concat upper) l ->
    merge_pairs b bits asc lower upper = Ok (r, b') -> Inv key b' (concat (fst r) ++ concat (snd r) ++ l).
  Proof.
    induction lower as [|x lr IH]; intros [|y ur] b l r b' I Hl Hu H; cbn [merge_pairs] in H;
      try (injection H as <- <-; cbn [fst snd]; eapply Inv_sub; [exact I|]; mem).
    cbn [concat] in Hl, Hu.
    assert (Hx : incl x l) by (intros z Hz; apply Hl; apply in_or_app; now left).
    assert (Hlr : incl (concat lr) l) by (intros z Hz; apply Hl; apply in_or_app; now right).
    assert (Hy : incl y l) by (intros z Hz; apply Hu; apply in_or_app; now left).
    assert (Hur : incl (concat ur) l) by (intros z Hz; apply Hu; apply in_or_app; now right).
    dh H as [[[mn mx] b1]| |] E1. eapply sorter2_reach in E1; [|exact I|assumption..]. cbn [fst snd] in E1.
    assert (Hlh : exists lo hi, (if asc then (mn, mx) else (mx, mn)) = (lo, hi)
               /\ incl lo (mn ++ mx ++ l) /\ incl hi (mn ++ mx ++ l)).
    { destruct asc; eexists; eexists; (split; [reflexivity|split; mem]). }
    destruct Hlh as (lo & hi & Elh & Hlo & Hhi). rewrite Elh in H.
    dh H as [[[lr' ur'] b2]| |] E2. eapply IH in E2; [|exact E1|mem..]. cbn [fst snd] in E2.
    injection H as <- <-. cbn [fst snd concat]. eapply Inv_sub; [exact E2|]. mem.
  Qed.

  Lemma merger_reach bits fuel : forall b l asc v r b', Inv key b l -> incl (concat v) l ->
    push_bitonic_merger fuel b bits asc v = Ok (r, b') -> Inv key b' (concat r ++ l).
  Proof.
    induction fuel as [|f IH]; intros b l asc v r b' I Hv H; cbn [push_bitonic_merger] in H; [discriminate|].
    dif H.
    - injection H as <- <-. eapply Inv_sub; [exact I|]. mem.
    - cbv zeta in H.
      dh H as [[[lower upper] b1]| |] E1.
      eapply merge_pairs_reach in E1; [|exact I|apply incl_concat_firstn; exact Hv|apply incl_concat_skipn; exact Hv].
      cbn [fst snd] in E1.
      dh H as [[lower' b2]| |] E2. eapply IH in E2; [|exact E1|mem].
      dh H as [[upper' b3]| |] E3. eapply IH in E3; [|exact E2|mem].
      injection H as <- <-. rewrite concat_app. eapply Inv_sub; [exact E3|]. mem.
  Qed.

  Lemma sorter_inner_reach bits fuel : forall b l asc v r b', Inv key b l -> incl (concat v) l ->
    sorter_inner fuel b bits asc v = Ok (r, b') -> Inv key b' (concat r ++ l).
  Proof.
    induction fuel as [|f IH]; intros b l asc v r b' I Hv H; cbn [sorter_inner] in H; [discriminate|].
    dif H.
    - injection H as <- <-. eapply Inv_sub; [exact I|]. mem.
    - cbv zeta in H.
      dh H as [[lower b1]| |] E1. eapply IH in E1; [|exact I|apply incl_concat_firstn; exact Hv].
      dh H as [[upper b2]| |] E2. eapply IH in E2; [|exact E1|].
      2:{ apply incl_concat_skipn. mem. }
      eapply merger_reach in H; [|exact E2|rewrite concat_app; mem].
      eapply Inv_sub; [exact H|]. mem.
  Qed.

  Lemma sorter_reach b l bits v r b' : Inv key b l -> incl (concat v) l ->
    push_bitonic_sorter b bits v = Ok (r, b') -> Inv key b' (concat r ++ l).
  Proof. intros I Hv H. eapply sorter_inner_reach; eassumption. Qed.
End Gad.

(* ---------------------------------------------------------------- panic record *)

Lemma nth_in0 i (xs l : list N) : In 0 l -> incl xs l -> In (nth i xs 0) l.
Proof. intros H0 Hx. destruct (nth_in_or_default i xs 0) as [H|H]; [apply Hx; exact H|rewrite H; exact H0]. Qed.

Lemma nth_concat {A} k (rs : list (list A)) : incl (nth k rs []) (concat rs).
Proof.
  intros z Hz. destruct (nth_in_or_default k rs []) as [H|H].
  - apply in_concat. eexists; split; [exact H|exact Hz].
  - rewrite H in Hz. destruct Hz.
Qed.

Lemma col_incl k rs l : In 0 l -> incl (concat rs) l -> incl (col k rs) l.
Proof.
  intros H0 H z Hz. unfold col in Hz. apply in_map_iff in Hz. destruct Hz as (r & <- & Hr).
  apply nth_in0; [exact H0|]. intros y Hy. apply H. apply in_concat. eexists; split; [exact Hr|exact Hy].
Qed.

Lemma usize_bits_incl n l : In 0 l -> In 1 l -> incl (usize_bits n) l.
Proof.
  intros H0 H1 z Hz. unfold usize_bits in Hz. apply in_map_iff in Hz. destruct Hz as (i & <- & _).
  destruct (N.testbit _ _); assumption.
Qed.

Lemma pairs32_pin xs ys l : In 0 l -> incl xs l -> incl ys l -> Forall (pin l) (pairs32 xs ys).
Proof.
  intros H0 Hx Hy. unfold pairs32. apply Forall_forall. intros p Hp. apply in_map_iff in Hp.
  destruct Hp as (i & <- & _). split; cbn [fst snd]; apply nth_in0; assumption.
Qed.

Lemma prec_wires_split p l : incl (prec_wires p) l ->
  In (pr_flag p) l /\ incl (pr_type p) l /\ incl (pr_sl p) l /\ incl (pr_sc p) l /\ incl (pr_el p) l /\ incl (pr_ec p) l.
Proof.
  intros H. unfold prec_wires in H. repeat split; try (apply H; now left);
    intros z Hz; apply H; right; repeat rewrite in_app_iff; tauto.
Qed.

Lemma panic_ok_wires l : In 0 l -> In 1 l -> incl (prec_wires panic_ok) l.
Proof.
  intros H0 H1 z Hz. unfold prec_wires, panic_ok in Hz. cbn [pr_flag pr_type pr_sl pr_sc pr_el pr_ec] in Hz.
  destruct Hz as [<-|Hz]; [exact H0|].
  repeat (apply in_app_or in Hz; destruct Hz as [Hz|Hz]);
    try (apply repeat_spec in Hz; subst z; exact H0).
  eapply usize_bits_incl; eassumption.
Qed.

Section Pan.
  Variable key : N * bool.

  Lemma mux_seq_reach pairs : forall b l s r b', Inv key b l -> In s l -> Forall (pin l) pairs ->
    mux_seq b s pairs = Ok (r, b') -> Inv key b' (r ++ l).
  Proof.
    induction pairs as [|[x y] ps IH]; intros b l s r b' I Hs Hp H; cbn [mux_seq] in H.
    - injection H as <- <-. exact I.
    - inversion Hp as [|p ps' [Hx Hy] Hps]; subst p ps'. cbn [fst snd] in Hx, Hy.
      dh H as [[w b1]| |] E1. eapply mux_reach in E1; [|exact I|assumption..].
      dh H as [[ws b2]| |] E2. eapply IH in E2; [|exact E1|mem|eapply pin_mono; [|exact Hps]; mem].
      injection H as <- <-. eapply Inv_sub; [exact E2|]. mem.
  Qed.

  Lemma mux_rows_reach rows : forall b l s r b', Inv key b l -> In s l -> Forall (Forall (pin l)) rows ->
    mux_rows b s rows = Ok (r, b') -> Inv key b' (concat r ++ l).
  Proof.
    induction rows as [|row rows IH]; intros b l s r b' I Hs Hp H; cbn [mux_rows] in H.
    - injection H as <- <-. exact I.
    - inversion Hp as [|p ps' Hrow Hrows]; subst p ps'.
      dh H as [[ws b1]| |] E1. eapply mux_seq_reach in E1; [|exact I|assumption..].
      dh H as [[wss b2]| |] E2. eapply IH in E2; [|exact E1|mem|].
      + injection H as <- <-. cbn [concat]. eapply Inv_sub; [exact E2|]. mem.
      + eapply Forall_impl; [|exact Hrows]. intros a Ha. eapply pin_mono; [|exact Ha]. mem.
  Qed.

  Lemma mux_uncached_reach b l c t f r b' : Inv key b l -> In c l ->
    incl (prec_wires t) l -> incl (prec_wires f) l ->
    mux_uncached_panic b c t f = Ok (r, b') -> Inv key b' (prec_wires r ++ l).
  Proof.
    intros I Hc Ht Hf H. unfold mux_uncached_panic in H. apply Inv_consts in I.
    apply prec_wires_split in Ht. destruct Ht as (Ht0 & Ht1 & Ht2 & Ht3 & Ht4 & Ht5).
    apply prec_wires_split in Hf. destruct Hf as (Hf0 & Hf1 & Hf2 & Hf3 & Hf4 & Hf5).
    dh H as [[fl b1]| |] E1. eapply mux_reach in E1; [|exact I|mem..].
    dh H as [[rs b2]| |] E2. eapply mux_rows_reach in E2; [|exact E1|mem|].
    2:{ repeat (apply Forall_cons; [apply pairs32_pin; mem|]). apply Forall_nil. }
    injection H as <- <-. eapply Inv_sub; [exact E2|].
    unfold prec_wires. cbn [pr_flag pr_type pr_sl pr_sc pr_el pr_ec].
    pose proof (nth_concat 0 rs) as N0. pose proof (nth_concat 1 rs) as N1. pose proof (nth_concat 2 rs) as N2.
    pose proof (nth_concat 3 rs) as N3. pose proof (nth_concat 4 rs) as N4.
    mem.
  Qed.

  Lemma push_record_reach b l p cond rsn m r b' : Inv key b l -> In cond l -> incl (prec_wires p) l ->
    push_record b p cond rsn m = Ok (r, b') -> Inv key b' (prec_wires r ++ l).
  Proof.
    intros I Hc Hp H. unfold push_record in H. cbv zeta in H. apply Inv_consts in I.
    apply prec_wires_split in Hp. destruct Hp as (Hp0 & Hp1 & Hp2 & Hp3 & Hp4 & Hp5).
    dh H as [[fl b1]| |] E1. eapply or_reach in E1; [|exact I|mem..].
    dh H as [[rs b2]| |] E2. eapply mux_rows_reach in E2; [|exact E1|mem|].
    2:{ apply Forall_forall. intros row Hrow. apply in_map_iff in Hrow. destruct Hrow as (i & <- & _).
        repeat (apply Forall_cons; [split; cbn [fst snd]; apply nth_in0; try (apply usize_bits_incl); mem|]).
        apply Forall_nil. }
    unfold mux_field in H.
    dh H as [[ty b3]| |] E3. eapply mux_seq_reach in E3; [|exact E2|mem|].
    2:{ apply pairs32_pin; [mem|mem|apply usize_bits_incl; mem]. }
    injection H as <- <-. eapply Inv_sub; [exact E3|].
    unfold prec_wires. cbn [pr_flag pr_type pr_sl pr_sc pr_el pr_ec].
    assert (H0 : In 0 (concat rs ++ fl :: 0 :: 1 :: l)) by mem.
    assert (Hrs : incl (concat rs) (concat rs ++ fl :: 0 :: 1 :: l)) by mem.
    pose proof (col_incl 0 rs _ H0 Hrs) as C0. pose proof (col_incl 1 rs _ H0 Hrs) as C1.
    pose proof (col_incl 2 rs _ H0 Hrs) as C2. pose proof (col_incl 3 rs _ H0 Hrs) as C3.
    clear Hrs. mem.
  Qed.

  Lemma panic_if_reach b l P cond rsn m r b' : Inv key b l -> In cond l -> incl (prec_wires (ps_rec P)) l ->
    push_panic_if b P cond rsn m = Ok (r, b') -> Inv key b' (prec_wires (ps_rec r) ++ l).
  Proof.
    intros I Hc Hp H. unfold push_panic_if in H. dif H.
    - injection H as <- <-. eapply Inv_sub; [exact I|]. mem.
    - dh H as [[p' b1]| |] E1. eapply push_record_reach in E1; [|exact I|assumption..].
      injection H as <- <-. exact E1.
  Qed.

  Lemma mux_panic_reach b l c T F r b' : Inv key b l -> In c l ->
    incl (prec_wires (ps_rec T)) l -> incl (prec_wires (ps_rec F)) l ->
    mux_panic b c T F = Ok (r, b') -> Inv key b' (prec_wires (ps_rec r) ++ l).
  Proof.
    intros I Hc Ht Hf H. unfold mux_panic in H.
    dh H as [[p b1]| |] E1. eapply mux_uncached_reach in E1; [|exact I|assumption..].
    injection H as <- <-. exact E1.
  Qed.
End Pan.

(* ================================================================ part 2: the lowering *)

Lemma Inv_add key b l ws : Inv key b l -> Forall (fun w => w < fst key \/ In w l) ws -> Inv key b (ws ++ l).
Proof.
  intros ([Hs Hd] & hs & R & N) H. split; [split; assumption|]. exists hs. split; [exact R|].
  apply Forall_app. split; [|exact N]. eapply Forall_impl; [|exact H]. intros w [Hw|Hw]; cbn beta.
  - left. rewrite Hs. exact Hw.
  - rewrite Forall_forall in N. auto.
Qed.

(* the logging instance: the builder instance, with a log of every wire an operation returned *)
Definition lst : Type := cst * list N.

Definition lg {A} (wires : A -> list N) (m : cst -> res (A * cst)) : lst -> res (A * lst) :=
  fun sL => match m (fst sL) with
            | Ok (a, s') => Ok (a, (s', wires a ++ snd sL))
            | Crash => Crash
            | OutOfFuel => OutOfFuel
            end.

Definition w1l (r : N) : list N := [r].
Definition w2l (r : N * N) : list N := [fst r; snd r].
Definition wadd (r : list N * N * N) : list N := snd (fst r) :: snd r :: fst (fst r).
Definition wsub (r : list N * N) : list N := snd r :: fst r.
Definition wdiv (r : list N * list N) : list N := fst r ++ snd r.
Definition wpst (P : pstate) : list N := prec_wires (ps_rec P).

Definition lops : ops N lst pstate := {|
  w0 := 0;
  w1 := 1;
  o_xor := fun x y => lg w1l (o_xor bops x y);
  o_and := fun x y => lg w1l (o_and bops x y);
  o_or := fun x y => lg w1l (o_or bops x y);
  o_eq := fun x y => lg w1l (o_eq bops x y);
  o_not := fun x => lg w1l (o_not bops x);
  o_mux := fun s x0 x1 => lg w1l (o_mux bops s x0 x1);
  o_negation := fun x => lg (fun r => r) (o_negation bops x);
  o_addition := fun x y => lg wadd (o_addition bops x y);
  o_subtraction := fun x y sg => lg wsub (o_subtraction bops x y sg);
  o_multiplier := fun x y z c => lg w2l (o_multiplier bops x y z c);
  o_udiv := fun x y => lg wdiv (o_udiv bops x y);
  o_sdiv := fun x y => lg wdiv (o_sdiv bops x y);
  o_comparator := fun bits x sx y sy => lg w2l (o_comparator bops bits x sx y sy);
  o_eq_circuit := fun x y => lg w1l (o_eq_circuit bops x y);
  o_merger := fun bits asc v => lg (@concat N) (o_merger bops bits asc v);
  o_sorter := fun bits v => lg (@concat N) (o_sorter bops bits v);
  o_panic_if := fun c r m => lg (fun _ => []) (o_panic_if bops c r m);
  o_peek := lg wpst (o_peek bops);
  o_replace := fun P => lg wpst (o_replace bops P);
  o_mux_panic := fun c T F => lg wpst (o_mux_panic bops c T F)
|}.

Section Rel.
  Variable key : N * bool.

  Definition nmL (L : list N) (w : N) : Prop := w < fst key \/ In w L.

  Definition l_extS (s s' : lst) : Prop := incl (snd s) (snd s').
  Definition l_Rw (s : lst) (w v : N) : Prop := w = v /\ nmL (snd s) w.
  Definition l_RP (s : lst) (P Q : pstate) : Prop := P = Q /\ Forall (nmL (snd s)) (wpst P).
  Definition l_RS (s : lst) (o : cst) : Prop := fst s = o /\ Inv key (cb o) (wpst (cp o) ++ snd s).

  Lemma nmL_mono L L' w : incl L L' -> nmL L w -> nmL L' w.
  Proof. intros H [Hw|Hw]; [left; exact Hw|right; auto]. Qed.

  Lemma F2_diag L x vx : Forall2 (fun w v => w = v /\ nmL L w) x vx -> x = vx /\ Forall (nmL L) x.
  Proof.
    induction 1 as [|w v x vx [-> Hw] _ [-> IH]]; [split; [reflexivity|constructor]|].
    split; [reflexivity|constructor; assumption].
  Qed.

  Lemma F2_diag2 L v vv : Forall2 (Forall2 (fun w v => w = v /\ nmL L w)) v vv -> v = vv /\ Forall (nmL L) (concat v).
  Proof.
    induction 1 as [|x vx v vv Hx _ [-> IH]]; [split; [reflexivity|constructor]|].
    apply F2_diag in Hx. destruct Hx as [-> Hx]. split; [reflexivity|]. cbn [concat]. apply Forall_app. split; assumption.
  Qed.

  Lemma diag_F2 L ws : incl ws L -> Forall2 (fun w v => w = v /\ nmL L w) ws ws.
  Proof.
    intros H. induction ws as [|w ws IH]; constructor.
    - split; [reflexivity|]. right. apply H. now left.
    - apply IH. intros z Hz. apply H. now right.
  Qed.

  Lemma diag_F22 L v : incl (concat v) L -> Forall2 (Forall2 (fun w v => w = v /\ nmL L w)) v v.
  Proof.
    intros H. induction v as [|x v IH]; constructor.
    - apply diag_F2. intros z Hz. apply H. cbn [concat]. apply in_or_app. now left.
    - apply IH. intros z Hz. apply H. cbn [concat]. apply in_or_app. now right.
  Qed.

  Lemma nmL_weak L pw ws : Forall (nmL L) ws -> Forall (fun w => w < fst key \/ In w (pw ++ L)) ws.
  Proof. apply Forall_impl. intros w [H|H]; [left; exact H|right; apply in_or_app; now right]. Qed.

  (* one operation of the builder instance that runs a composition of requests on operands
     [opers] and returns the wires [wires y] *)
  Lemma lg_sim {A} (wires : A -> list N) (f : builder -> res (A * builder)) (opers : list N) s L y o' :
    l_RS (s, L) s -> Forall (nmL L) opers ->
    (forall l b', Inv key (cb s) l -> incl opers l -> f (cb s) = Ok (y, b') -> Inv key b' (wires y ++ l)) ->
    liftb f s = Ok (y, o') ->
    lg wires (liftb f) (s, L) = Ok (y, (o', wires y ++ L)) /\ l_RS (o', wires y ++ L) o'.
  Proof.
    intros [_ I] Hop Hcl Hrun. cbn [fst snd] in I.
    assert (Hlg : lg wires (liftb f) (s, L) = Ok (y, (o', wires y ++ L))).
    { unfold lg. cbn [fst snd]. rewrite Hrun. reflexivity. }
    split; [exact Hlg|]. unfold liftb in Hrun.
    destruct (f (cb s)) as [[a b']| |] eqn:E; cbn [bind] in Hrun; try discriminate Hrun.
    injection Hrun as <- <-. split; [reflexivity|]. cbn [fst snd cb cp].
    pose proof (Inv_add _ _ _ _ I (nmL_weak L (wpst (cp s)) opers Hop)) as I2.
    eapply Hcl in I2; [|intros z Hz; apply in_or_app; now left|reflexivity].
    eapply Inv_sub; [exact I2|]. intros z Hz. repeat rewrite in_app_iff in *. tauto.
  Qed.

  Tactic Notation "start" ident(s) ident(L) ident(o) ident(HS) :=
    let Es := fresh "Es" in destruct s as [s L]; pose proof HS as [Es _]; cbn [fst] in Es; subst o.
  Ltac fin Hl HS2 := let z := fresh "z" in let Hz := fresh "Hz" in
                     eexists; eexists; split; [exact Hl|]; split; [intros z Hz; apply in_or_app; right; exact Hz|];
                     split; [exact HS2|].
  Ltac ops_ok := repeat (apply Forall_cons; [assumption|]); try apply Forall_nil;
                 repeat (apply Forall_app; split); assumption.
  Ltac hin Hi := apply Hi; mem_norm; tauto.
  Ltac hincl Hi := let z := fresh "z" in let Hz := fresh "Hz" in
                   intros z Hz; apply Hi; mem_norm; tauto.
  Ltac rw1 := split; [reflexivity|right; unfold w1l, w2l, wadd, wsub, wdiv; cbn [snd app In]; mem_norm; tauto].
  Ltac rws := apply diag_F2; unfold w1l, w2l, wadd, wsub, wdiv; cbn [snd app]; let z := fresh "z" in let Hz := fresh "Hz" in
              intros z Hz; mem_norm; tauto.

  Lemma l_xor s o x y vx vy : l_RS s o -> l_Rw s x vx -> l_Rw s y vy ->
    simG l_extS l_RS s o (o_xor lops x y) (o_xor bops vx vy) (fun s' r v => l_Rw s' r v).
  Proof.
    intros HS [<- Hx] [<- Hy] r o' Hrun. start s L o HS.
    edestruct (lg_sim w1l (fun b => push_xor_top b x y) [x; y] s L r o' HS) as [Hl HS2];
      [ops_ok|intros l b' I Hi E; eapply xor_reach in E; [exact E|exact I|hin Hi|hin Hi]|exact Hrun|].
    fin Hl HS2. rw1.
  Qed.
  Lemma l_and s o x y vx vy : l_RS s o -> l_Rw s x vx -> l_Rw s y vy ->
    simG l_extS l_RS s o (o_and lops x y) (o_and bops vx vy) (fun s' r v => l_Rw s' r v).
  Proof.
    intros HS [<- Hx] [<- Hy] r o' Hrun. start s L o HS.
    edestruct (lg_sim w1l (fun b => push_and_top b x y) [x; y] s L r o' HS) as [Hl HS2];
      [ops_ok|intros l b' I Hi E; eapply and_reach in E; [exact E|exact I|hin Hi|hin Hi]|exact Hrun|].
    fin Hl HS2. rw1.
  Qed.
  Lemma l_or s o x y vx vy : l_RS s o -> l_Rw s x vx -> l_Rw s y vy ->
    simG l_extS l_RS s o (o_or lops x y) (o_or bops vx vy) (fun s' r v => l_Rw s' r v).
  Proof.
    intros HS [<- Hx] [<- Hy] r o' Hrun. start s L o HS.
    edestruct (lg_sim w1l (fun b => push_or b x y) [x; y] s L r o' HS) as [Hl HS2];
      [ops_ok|intros l b' I Hi E; eapply or_reach in E; [exact E|exact I|hin Hi|hin Hi]|exact Hrun|].
    fin Hl HS2. rw1.
  Qed.
  Lemma l_eq s o x y vx vy : l_RS s o -> l_Rw s x vx -> l_Rw s y vy ->
    simG l_extS l_RS s o (o_eq lops x y) (o_eq bops vx vy) (fun s' r v => l_Rw s' r v).
  Proof.
    intros HS [<- Hx] [<- Hy] r o' Hrun. start s L o HS.
    edestruct (lg_sim w1l (fun b => push_eq b x y) [x; y] s L r o' HS) as [Hl HS2];
      [ops_ok|intros l b' I Hi E; eapply eq_reach in E; [exact E|exact I|hin Hi|hin Hi]|exact Hrun|].
    fin Hl HS2. rw1.
  Qed.
  Lemma l_not s o x vx : l_RS s o -> l_Rw s x vx ->
    simG l_extS l_RS s o (o_not lops x) (o_not bops vx) (fun s' r v => l_Rw s' r v).
  Proof.
    intros HS [<- Hx] r o' Hrun. start s L o HS.
    edestruct (lg_sim w1l (fun b => push_not b x) [x] s L r o' HS) as [Hl HS2];
      [ops_ok|intros l b' I Hi E; eapply not_reach in E; [exact E|exact I|hin Hi]|exact Hrun|].
    fin Hl HS2. rw1.
  Qed.
  Lemma l_mux s o c x0 x1 vc v0 v1 : l_RS s o -> l_Rw s c vc -> l_Rw s x0 v0 -> l_Rw s x1 v1 ->
    simG l_extS l_RS s o (o_mux lops c x0 x1) (o_mux bops vc v0 v1) (fun s' r v => l_Rw s' r v).
  Proof.
    intros HS [<- Hc] [<- Hx] [<- Hy] r o' Hrun. start s L o HS.
    edestruct (lg_sim w1l (fun b => push_mux b c x0 x1) [c; x0; x1] s L r o' HS) as [Hl HS2];
      [ops_ok|intros l b' I Hi E; eapply mux_reach in E; [exact E|exact I|hin Hi|hin Hi|hin Hi]|exact Hrun|].
    fin Hl HS2. rw1.
  Qed.
  Lemma l_negation s o x vx : l_RS s o -> Forall2 (l_Rw s) x vx ->
    simG l_extS l_RS s o (o_negation lops x) (o_negation bops vx) (fun s' r v => Forall2 (l_Rw s') r v).
  Proof.
    intros HS Hx r o' Hrun. apply F2_diag in Hx. destruct Hx as [<- Hx]. start s L o HS.
    edestruct (lg_sim (fun r => r) (fun b => push_negation_circuit b x) x s L r o' HS) as [Hl HS2];
      [ops_ok|intros l b' I Hi E; eapply negation_reach in E; [exact E|exact I|hincl Hi]|exact Hrun|].
    fin Hl HS2. rws.
  Qed.
  Lemma l_addition s o x y vx vy : l_RS s o -> Forall2 (l_Rw s) x vx -> Forall2 (l_Rw s) y vy ->
    simG l_extS l_RS s o (o_addition lops x y) (o_addition bops vx vy)
      (fun s' r v => Forall2 (l_Rw s') (fst (fst r)) (fst (fst v)) /\ l_Rw s' (snd (fst r)) (snd (fst v))
                     /\ l_Rw s' (snd r) (snd v)).
  Proof.
    intros HS Hx Hy r o' Hrun. apply F2_diag in Hx, Hy. destruct Hx as [<- Hx]. destruct Hy as [<- Hy]. start s L o HS.
    edestruct (lg_sim wadd (fun b => push_addition_circuit b x y) (x ++ y) s L r o' HS) as [Hl HS2];
      [ops_ok|intros l b' I Hi E; eapply addition_reach in E; [exact E|exact I|hincl Hi|hincl Hi]|exact Hrun|].
    fin Hl HS2. split; [rws|split; rw1].
  Qed.
  Lemma l_subtraction s o x y sg vx vy : l_RS s o -> Forall2 (l_Rw s) x vx -> Forall2 (l_Rw s) y vy ->
    simG l_extS l_RS s o (o_subtraction lops x y sg) (o_subtraction bops vx vy sg)
      (fun s' r v => Forall2 (l_Rw s') (fst r) (fst v) /\ l_Rw s' (snd r) (snd v)).
  Proof.
    intros HS Hx Hy r o' Hrun. apply F2_diag in Hx, Hy. destruct Hx as [<- Hx]. destruct Hy as [<- Hy]. start s L o HS.
    edestruct (lg_sim wsub (fun b => push_subtraction_circuit b x y sg) (x ++ y) s L r o' HS) as [Hl HS2];
      [ops_ok|intros l b' I Hi E; eapply subtraction_reach in E; [exact E|exact I|hincl Hi|hincl Hi]|exact Hrun|].
    fin Hl HS2. split; [rws|rw1].
  Qed.
  Lemma l_multiplier s o x y z c vx vy vz vc : l_RS s o -> l_Rw s x vx -> l_Rw s y vy -> l_Rw s z vz -> l_Rw s c vc ->
    simG l_extS l_RS s o (o_multiplier lops x y z c) (o_multiplier bops vx vy vz vc)
      (fun s' r v => l_Rw s' (fst r) (fst v) /\ l_Rw s' (snd r) (snd v)).
  Proof.
    intros HS [<- Hx] [<- Hy] [<- Hz] [<- Hc] r o' Hrun. start s L o HS.
    edestruct (lg_sim w2l (fun b => push_multiplier b x y z c) [x; y; z; c] s L r o' HS) as [Hl HS2];
      [ops_ok|intros l b' I Hi E; eapply multiplier_reach in E; [exact E|exact I|hin Hi|hin Hi|hin Hi|hin Hi]|exact Hrun|].
    fin Hl HS2. split; rw1.
  Qed.
  Lemma l_udiv s o x y vx vy : l_RS s o -> Forall2 (l_Rw s) x vx -> Forall2 (l_Rw s) y vy ->
    simG l_extS l_RS s o (o_udiv lops x y) (o_udiv bops vx vy)
      (fun s' r v => Forall2 (l_Rw s') (fst r) (fst v) /\ Forall2 (l_Rw s') (snd r) (snd v)).
  Proof.
    intros HS Hx Hy r o' Hrun. apply F2_diag in Hx, Hy. destruct Hx as [<- Hx]. destruct Hy as [<- Hy]. start s L o HS.
    edestruct (lg_sim wdiv (fun b => push_unsigned_division_circuit b x y) (x ++ y) s L r o' HS) as [Hl HS2];
      [ops_ok|intros l b' I Hi E; eapply udiv_reach in E; [unfold wdiv; rewrite <- app_assoc; exact E|exact I|hincl Hi|hincl Hi]|exact Hrun|].
    fin Hl HS2. split; rws.
  Qed.
  Lemma l_sdiv s o x y vx vy : l_RS s o -> Forall2 (l_Rw s) x vx -> Forall2 (l_Rw s) y vy ->
    simG l_extS l_RS s o (o_sdiv lops x y) (o_sdiv bops vx vy)
      (fun s' r v => Forall2 (l_Rw s') (fst r) (fst v) /\ Forall2 (l_Rw s') (snd r) (snd v)).
  Proof.
    intros HS Hx Hy r o' Hrun. apply F2_diag in Hx, Hy. destruct Hx as [<- Hx]. destruct Hy as [<- Hy]. start s L o HS.
    edestruct (lg_sim wdiv (fun b => push_signed_division_circuit b x y) (x ++ y) s L r o' HS) as [Hl HS2];
      [ops_ok|intros l b' I Hi E; eapply sdiv_reach in E; [unfold wdiv; rewrite <- app_assoc; exact E|exact I|hincl Hi|hincl Hi]|exact Hrun|].
    fin Hl HS2. split; rws.
  Qed.
  Lemma l_comparator s o bits x sx y sy vx vy : l_RS s o -> Forall2 (l_Rw s) x vx -> Forall2 (l_Rw s) y vy ->
    simG l_extS l_RS s o (o_comparator lops bits x sx y sy) (o_comparator bops bits vx sx vy sy)
      (fun s' r v => l_Rw s' (fst r) (fst v) /\ l_Rw s' (snd r) (snd v)).
  Proof.
    intros HS Hx Hy r o' Hrun. apply F2_diag in Hx, Hy. destruct Hx as [<- Hx]. destruct Hy as [<- Hy]. start s L o HS.
    edestruct (lg_sim w2l (fun b => push_comparator_circuit b bits x sx y sy) (x ++ y) s L r o' HS) as [Hl HS2];
      [ops_ok|intros l b' I Hi E; eapply comparator_reach in E; [exact E|exact I|hincl Hi|hincl Hi]|exact Hrun|].
    fin Hl HS2. split; rw1.
  Qed.
  Lemma l_eq_circuit s o x y vx vy : l_RS s o -> Forall2 (l_Rw s) x vx -> Forall2 (l_Rw s) y vy ->
    simG l_extS l_RS s o (o_eq_circuit lops x y) (o_eq_circuit bops vx vy) (fun s' r v => l_Rw s' r v).
  Proof.
    intros HS Hx Hy r o' Hrun. apply F2_diag in Hx, Hy. destruct Hx as [<- Hx]. destruct Hy as [<- Hy]. start s L o HS.
    edestruct (lg_sim w1l (fun b => push_eq_circuit b x y) (x ++ y) s L r o' HS) as [Hl HS2];
      [ops_ok|intros l b' I Hi E; eapply eq_circuit_reach in E; [exact E|exact I|hincl Hi|hincl Hi]|exact Hrun|].
    fin Hl HS2. rw1.
  Qed.
  Lemma l_merger s o bits asc v vv : l_RS s o -> Forall2 (Forall2 (l_Rw s)) v vv ->
    simG l_extS l_RS s o (o_merger lops bits asc v) (o_merger bops bits asc vv)
      (fun s' r w => Forall2 (Forall2 (l_Rw s')) r w).
  Proof.
    intros HS Hv r o' Hrun. apply F2_diag2 in Hv. destruct Hv as [<- Hv]. start s L o HS.
    edestruct (lg_sim (@concat N) (fun b => push_bitonic_merger (S (length v)) b bits asc v) (concat v) s L r o' HS) as [Hl HS2];
      [ops_ok|intros l b' I Hi E; eapply merger_reach in E; [exact E|exact I|exact Hi]|exact Hrun|].
    fin Hl HS2. apply diag_F22. cbn [snd]. intros z Hz. apply in_or_app. now left.
  Qed.
  Lemma l_sorter s o bits v vv : l_RS s o -> Forall2 (Forall2 (l_Rw s)) v vv ->
    simG l_extS l_RS s o (o_sorter lops bits v) (o_sorter bops bits vv)
      (fun s' r w => Forall2 (Forall2 (l_Rw s')) r w).
  Proof.
    intros HS Hv r o' Hrun. apply F2_diag2 in Hv. destruct Hv as [<- Hv]. start s L o HS.
    edestruct (lg_sim (@concat N) (fun b => push_bitonic_sorter b bits v) (concat v) s L r o' HS) as [Hl HS2];
      [ops_ok|intros l b' I Hi E; eapply sorter_reach in E; [exact E|exact I|exact Hi]|exact Hrun|].
    fin Hl HS2. apply diag_F22. cbn [snd]. intros z Hz. apply in_or_app. now left.
  Qed.
  Lemma l_panic_if s o c vc r m : l_RS s o -> l_Rw s c vc ->
    simG l_extS l_RS s o (o_panic_if lops c r m) (o_panic_if bops vc r m) (fun _ _ _ => True).
  Proof.
    intros HS [<- Hc] y o' Hrun. start s L o HS. destruct HS as [_ I]. cbn [fst snd] in I.
    assert (Hl : o_panic_if lops c r m (s, L) = Ok (y, (o', L))).
    { cbn [o_panic_if lops]. unfold lg. cbn [fst snd]. rewrite Hrun. reflexivity. }
    exists y, (o', L). split; [exact Hl|]. split; [intros z Hz; exact Hz|]. split; [|exact Logic.I].
    cbn [o_panic_if bops] in Hrun. unfold b_panic_if in Hrun.
    dh Hrun as [[P' b']| |] E. injection Hrun as <- <-. split; [reflexivity|]. cbn [fst snd cb cp].
    pose proof (Inv_add _ _ _ [c] I) as I2. specialize (I2 ltac:(constructor; [destruct Hc as [Hc|Hc]; [left; exact Hc|right; apply in_or_app; now right]|constructor])).
    eapply panic_if_reach in E; [|exact I2|now left|intros z Hz; unfold wpst; cbn [app]; mem_norm; tauto].
    eapply Inv_sub; [exact E|]. intros z Hz. cbn [app]. unfold wpst in *. mem_norm. repeat rewrite in_app_iff in Hz. tauto.
  Qed.

  Lemma l_peek s o : l_RS s o ->
    simG l_extS l_RS s o (o_peek lops) (o_peek bops) (fun s' P ob => l_RP s' P ob).
  Proof.
    intros HS y o' Hrun. start s L o HS. destruct HS as [_ I]. cbn [fst snd] in I.
    cbn [o_peek bops] in Hrun. injection Hrun as <- <-.
    exists (cp s), (s, wpst (cp s) ++ L). split; [reflexivity|]. split; [intros z Hz; apply in_or_app; now right|].
    split; [split; [reflexivity|]|split; [reflexivity|]]; cbn [fst snd].
    - eapply Inv_sub; [exact I|]. intros z Hz. repeat rewrite in_app_iff in *. tauto.
    - apply Forall_forall. intros z Hz. right. apply in_or_app. now left.
  Qed.

  Lemma l_replace s o P ob : l_RS s o -> l_RP s P ob ->
    simG l_extS l_RS s o (o_replace lops P) (o_replace bops ob) (fun s' P1 o1 => l_RP s' P1 o1).
  Proof.
    intros HS [<- HP] y o' Hrun. start s L o HS. destruct HS as [_ I]. cbn [fst snd] in I, HP.
    cbn [o_replace bops] in Hrun. injection Hrun as <- <-.
    exists (cp s), (mkCst (cb s) P, wpst (cp s) ++ L). split; [reflexivity|].
    split; [intros z Hz; apply in_or_app; now right|].
    split; [split; [reflexivity|]|split; [reflexivity|]]; cbn [fst snd cb cp].
    - pose proof (Inv_add _ _ _ _ I (nmL_weak L (wpst (cp s)) _ HP)) as I2.
      eapply Inv_sub; [exact I2|]. intros z Hz. repeat rewrite in_app_iff in *. tauto.
    - apply Forall_forall. intros z Hz. right. apply in_or_app. now left.
  Qed.

  Lemma l_mux_panic s o c vc T F oT oF : l_RS s o -> l_Rw s c vc -> l_RP s T oT -> l_RP s F oF ->
    simG l_extS l_RS s o (o_mux_panic lops c T F) (o_mux_panic bops vc oT oF) (fun s' P1 o1 => l_RP s' P1 o1).
  Proof.
    intros HS [<- Hc] [<- HT] [<- HF] y o' Hrun. start s L o HS. pose proof HS as [_ I]. cbn [fst snd] in I, Hc, HT, HF.
    assert (Hl : o_mux_panic lops c T F (s, L) = Ok (y, (o', wpst y ++ L))).
    { cbn [o_mux_panic lops]. unfold lg. cbn [fst snd]. rewrite Hrun. reflexivity. }
    exists y, (o', wpst y ++ L). split; [exact Hl|]. split; [intros z Hz; apply in_or_app; now right|].
    cbn [o_mux_panic bops] in Hrun. unfold b_mux_panic in Hrun.
    dh Hrun as [[P' b']| |] E. injection Hrun as <- <-.
    split; [split; [reflexivity|]|split; [reflexivity|]]; cbn [fst snd cb cp].
    - assert (Hops : Forall (nmL L) (c :: wpst T ++ wpst F)).
      { constructor; [exact Hc|]. apply Forall_app. split; assumption. }
      pose proof (Inv_add _ _ _ _ I (nmL_weak L (wpst (cp s)) _ Hops)) as I2.
      eapply mux_panic_reach in E; [|exact I2|now left| |].
      + eapply Inv_sub; [exact E|]. intros z Hz. unfold wpst in *. cbn [app]. mem_norm. repeat rewrite in_app_iff in Hz. tauto.
      + intros z Hz. unfold wpst. cbn [app]. mem_norm. tauto.
      + intros z Hz. unfold wpst. cbn [app]. mem_norm. tauto.
    - apply Forall_forall. intros z Hz. right. apply in_or_app. now left.
  Qed.

  Definition reach_rel : param_rel lops bops.
  Proof.
    refine (mkParamRel _ _ _ _ _ _ lops bops l_extS (fun _ => True) l_Rw l_RP l_RS _ _ _ _ _ _ _
              l_xor l_and l_or l_eq l_not l_mux l_negation l_addition l_subtraction l_multiplier l_udiv l_sdiv
              l_comparator l_eq_circuit l_merger l_sorter l_panic_if l_peek l_replace l_mux_panic).
    - intros s z Hz. exact Hz.
    - intros s1 s2 s3 H1 H2 z Hz. apply H2, H1, Hz.
    - intros s o _. exact Logic.I.
    - intros s s' w v He _ [E Hw]. split; [exact E|eapply nmL_mono; eassumption].
    - intros s s' p q He _ [E Hp]. split; [exact E|]. eapply Forall_impl; [|exact Hp]. intros a. apply nmL_mono. exact He.
    - intros [s L] o [_ I]. split; [reflexivity|]. left. cbn [snd fst] in I. destruct I as ([Hs _] & hs & R & _).
      destruct (reachable_inv _ _ R) as [Ib _]. pose proof (inv_shift _ Ib). rewrite <- Hs. unfold wF. cbn [w0 lops]. lia.
    - intros [s L] o [_ I]. split; [reflexivity|]. left. cbn [snd fst] in I. destruct I as ([Hs _] & hs & R & _).
      destruct (reachable_inv _ _ R) as [Ib _]. pose proof (inv_shift _ Ib). rewrite <- Hs. unfold wT. cbn [w1 lops]. lia.
  Defined.
End Rel.

(* ================================================================ the theorems *)

Section Compiled.
Variable fuel : nat.
Variable dedup : bool.
Variable P : program.

(* THE BUILDER STATE OF A COMPILED PROGRAM IS REACHABLE.  The final builder of the model of
   compile.rs is the result of a list of gate REQUESTS (Builder/StructSpec.reachable) on a
   fresh builder with the same de-duplication flag; every wire of the panic record and every
   result wire is a constant, an input wire, or a handle returned by one of those requests;
   in particular they are valid wires, which is what build and the C15 theorems require. *)
Theorem compiled_builder_reachable s outs :
  lower_main_with fuel dedup P = Ok (PreOk s outs) ->
  exists hs,
    reachable (cb s) hs /\ b_dedup (cb s) = dedup /\
    Forall (nm (cb s) hs) (prec_wires (ps_rec (cp s)) ++ outs) /\
    valids (cb s) (prec_wires (ps_rec (cp s))) /\ valids (cb s) outs.
Proof.
  intro Hmain. unfold lower_main_with in Hmain.
  destruct (find_fn P (p_main P)) as [fd|]; [|discriminate].
  destruct (param_wiring P (fn_params fd)) as [igs bindings] eqn:Epw.
  destruct (sumN igs =? 0); [discriminate|].
  destruct (main_env bops P bindings) as [E0| |] eqn:EE0; cbn [bind] in Hmain; try discriminate.
  destruct (lower_block bops fuel P (fn_body fd) E0 (initial_cst dedup igs)) as [[[outs' Eend] s1]| |] eqn:Eblk;
    cbn [bind] in Hmain; try discriminate.
  injection Hmain as <- <-.
  set (key := (2 + sumN igs, dedup)). set (s0 := initial_cst dedup igs) in *.
  destruct (param_wiring_range _ _ _ _ Epw) as [Hrange _].
  assert (HS0 : RS (reach_rel key) (s0, []) s0).
  { split; [reflexivity|]. cbn [fst snd]. split; [split; reflexivity|]. exists []. split.
    - exists dedup, igs, []. split; [constructor|reflexivity].
    - rewrite app_nil_r. apply Forall_forall. intros z Hz. left.
      assert (Hz' : In z [0; 1]) by (eapply panic_ok_wires; [now left|right; now left|exact Hz]).
      cbn [s0 initial_cst cb new_builder b_shift]. destruct Hz' as [<-|[<-|[]]]; lia. }
  assert (HB : Forall2 (Rbind (reach_rel key) (s0, [])) bindings bindings).
  { clear - Hrange. induction bindings as [|[x ws] bs IH]; constructor.
    - split; [reflexivity|]. cbn [fst snd]. inversion Hrange as [|b0 l0 Hw _]; subst. cbn [snd] in Hw.
      clear - Hw. induction ws as [|w ws IHw]; constructor.
      + inversion Hw as [|w0 l0 Hlt _]; subst. split; [reflexivity|]. left. exact Hlt.
      + apply IHw. now inversion Hw.
    - apply IH. now inversion Hrange. }
  destruct (rel_main_env (reach_rel key) (s0, []) s0 P _ _ _ HS0 HB EE0) as (EA0 & _ & HE0).
  destruct (lower_param (reach_rel key) P fuel) as (_ & _ & _ & Hblk).
  destruct (Hblk (fn_body fd) (s0, []) s0 EA0 E0 HS0 HE0 _ _ Eblk) as ([outsA EA] & [s1' L1] & _ & _ & HS1 & Houts & _).
  cbn [fst] in Houts. destruct HS1 as [Es1 I1]. cbn [fst snd] in Es1, I1. subst s1'.
  apply F2_diag in Houts. destruct Houts as [-> Houts]. cbn [snd] in Houts.
  pose proof (Inv_add _ _ _ _ I1 (nmL_weak key L1 (wpst (cp s1)) _ Houts)) as I2.
  assert (Vall : forall w, In w (prec_wires (ps_rec (cp s1)) ++ outs') -> valid (cb s1) w).
  { intros w Hw. eapply Inv_valid; [exact I2|]. unfold wpst. repeat rewrite in_app_iff in *. tauto. }
  destruct I2 as ([_ Hd] & hs & R & N). exists hs. split; [exact R|]. split; [exact Hd|]. split.
  - apply Forall_forall. intros w Hw. rewrite Forall_forall in N. apply N. unfold wpst. repeat rewrite in_app_iff in *. tauto.
  - split; apply Forall_forall; intros w Hw; apply Vall; apply in_or_app; [now left|now right].
Qed.

(* a compiled circuit is build of a reachable builder on valid wires *)
Lemma compiled_is_built c :
  lower_program_with fuel dedup P = Ok (LCircuit c) ->
  exists s outs hs,
    lower_main_with fuel dedup P = Ok (PreOk s outs) /\
    reachable (cb s) hs /\ b_dedup (cb s) = dedup /\
    valids (cb s) (prec_wires (ps_rec (cp s))) /\ valids (cb s) outs /\
    build (cb s) (prec_wires (ps_rec (cp s))) outs = Ok c.
Proof.
  intro H. unfold lower_program_with in H.
  destruct (lower_main_with fuel dedup P) as [[s outs| |]| |] eqn:Em; cbn [bind] in H; try discriminate.
  destruct (build (cb s) (prec_wires (ps_rec (cp s))) outs) as [c'| |] eqn:Eb; cbn [bind] in H; try discriminate.
  injection H as <-.
  destruct (compiled_builder_reachable s outs Em) as (hs & R & Hd & _ & Vp & Vo).
  exists s, outs, hs. repeat split; assumption.
Qed.

(* C15 FOR COMPILED CIRCUITS: the formulations of Props/C15.v (C15_const_gates, C15_all_used,
   C15_no_constant_operand, C15_no_self_operand, C15_and_unique), with the hypothesis
   "reachable builder, valid wires, build = Ok c" replaced by "the model of the compiler
   returns c". *)

(* the first two gates are the constant gates *)
Theorem compiled_const_gates c :
  lower_program_with fuel dedup P = Ok (LCircuit c) ->
  nthN (gates c) 0 = Some (GXor 0 0) /\ nthN (gates c) 1 = Some (GNot (num_inputs c)).
Proof.
  intro H. destruct (compiled_is_built c H) as (s & outs & hs & _ & R & _ & Vp & Vo & Eb).
  exact (build_const_gates _ _ _ _ _ R Vp Vo Eb).
Qed.

(* every other gate contributes to an output *)
Theorem compiled_all_used c :
  lower_program_with fuel dedup P = Ok (LCircuit c) ->
  forall k, 2 <= k < lenN (gates c) -> reaches c (num_inputs c + k).
Proof.
  intro H. destruct (compiled_is_built c H) as (s & outs & hs & _ & R & _ & Vp & Vo & Eb).
  exact (build_all_used _ _ _ _ _ R Vp Vo Eb).
Qed.

(* no gate other than those two has a constant wire as operand *)
Theorem compiled_no_constant_operand c :
  lower_program_with fuel dedup P = Ok (LCircuit c) ->
  forall k g w, 2 <= k -> nthN (gates c) k = Some g -> In w (g_ops g) ->
    w <> num_inputs c /\ w <> num_inputs c + 1.
Proof.
  intro H. destruct (compiled_is_built c H) as (s & outs & hs & _ & R & _ & Vp & Vo & Eb).
  exact (build_no_constant_operand _ _ _ _ _ R Vp Vo Eb).
Qed.

(* no AND gate has the same wire twice; with de-duplication no XOR either *)
Theorem compiled_no_self_operand c :
  lower_program_with fuel dedup P = Ok (LCircuit c) ->
  (forall k x y, nthN (gates c) k = Some (GAnd x y) -> x <> y) /\
  (dedup = true -> forall k x y, 2 <= k -> nthN (gates c) k = Some (GXor x y) -> x <> y).
Proof.
  intro H. destruct (compiled_is_built c H) as (s & outs & hs & _ & R & Hd & Vp & Vo & Eb).
  rewrite <- Hd. exact (build_no_self_operand _ _ _ _ _ R Vp Vo Eb).
Qed.

(* with de-duplication no two AND gates have the same unordered operand pair *)
Theorem compiled_and_unique c :
  lower_program_with fuel dedup P = Ok (LCircuit c) ->
  dedup = true ->
  forall k1 k2 x y x' y',
    nthN (gates c) k1 = Some (GAnd x y) -> nthN (gates c) k2 = Some (GAnd x' y') ->
    same_pair x y x' y' -> k1 = k2.
Proof.
  intros H Hdd. destruct (compiled_is_built c H) as (s & outs & hs & _ & R & Hd & Vp & Vo & Eb).
  rewrite <- Hd in Hdd. exact (build_and_unique _ _ _ _ _ R Vp Vo Eb Hdd).
Qed.

(* build never fails on the final state of the compiler (C15_build_total) *)
Theorem compiled_build_total s outs :
  lower_main_with fuel dedup P = Ok (PreOk s outs) ->
  exists c, lower_program_with fuel dedup P = Ok (LCircuit c).
Proof.
  intro H. destruct (compiled_builder_reachable s outs H) as (hs & R & _ & _ & Vp & Vo).
  destruct (build_total _ _ _ _ R Vp Vo) as [c Ec]. exists c.
  unfold lower_program_with. rewrite H. cbn [bind]. rewrite Ec. reflexivity.
Qed.

(* the gate store of the compiler before pruning (C15_store_gate_shape, C15_store_and_unique) *)
Theorem compiled_store_gate_shape s outs :
  lower_main_with fuel dedup P = Ok (PreOk s outs) ->
  forall i g, nthN (rev (b_gates_rev (cb s))) i = Some g ->
    match g with
    | BAnd x y => 2 <= x /\ 2 <= y /\ x <> y
    | BXor x y => x <> 0 /\ y <> 0 /\ (x = y -> dedup = false /\ 2 <= x)
    end.
Proof.
  intro H. destruct (compiled_builder_reachable s outs H) as (hs & R & Hd & _).
  rewrite <- Hd. exact (store_gate_shape _ _ R).
Qed.

Theorem compiled_store_and_unique s outs :
  lower_main_with fuel dedup P = Ok (PreOk s outs) -> dedup = true ->
  forall i j x y x' y',
    nthN (rev (b_gates_rev (cb s))) i = Some (BAnd x y) -> nthN (rev (b_gates_rev (cb s))) j = Some (BAnd x' y') ->
    same_pair x y x' y' -> i = j.
Proof.
  intros H Hdd. destruct (compiled_builder_reachable s outs H) as (hs & R & Hd & _).
  rewrite <- Hd in Hdd. exact (store_and_unique _ _ R Hdd).
Qed.

End Compiled.

Print Assumptions compiled_builder_reachable.
Print Assumptions compiled_const_gates.
Print Assumptions compiled_all_used.
Print Assumptions compiled_no_constant_operand.
Print Assumptions compiled_no_self_operand.
Print Assumptions compiled_and_unique.
Print Assumptions compiled_build_total.
Print Assumptions compiled_store_gate_shape.
Print Assumptions compiled_store_and_unique.

(* ================================================================ non-vacuity *)

Module ReachExamples.
Definition m0 : meta := mkMeta 0 0 0 0.
Definition u8 := TInt false 8.
Definition id_ (x : N) (t : ty) : expr := Ex (EId x) m0 t.
Definition st (s : stmt_inner) : stmt := St s m0.

(* fn main(x: u8, y: u8) -> u8 { if x < y { x + (x & y) } else { y / x } }
   : comparator, adder, divider, bitwise AND, muxes, and the panic record (overflow, division by
   zero) *)
Definition arith_prog : program :=
  mkProgram [] [] [mkFn 9 [(1, u8); (2, u8)] u8
    [st (SExpr (Ex (EIf (Ex (EOp OLt (id_ 1 u8) (id_ 2 u8)) m0 TBool)
                        (Ex (EOp OAdd (id_ 1 u8) (Ex (EOp OBitAnd (id_ 1 u8) (id_ 2 u8)) m0 u8)) m0 u8)
                        (Ex (EOp ODiv (id_ 2 u8) (id_ 1 u8)) m0 u8)) m0 u8))]] [] 9.

Definition summary (r : res lowered) : option (N * N) :=
  match r with Ok (LCircuit c) => Some (lenN (gates c), and_gates c) | _ => None end.

(* the model of the compiler, run: a few hundred gates, many ANDs *)
Example arith_prog_compiles :
  summary (lower_program_with 50 true arith_prog) <> None /\
  summary (lower_program_with 50 false arith_prog) <> None.
Proof. vm_compute. split; discriminate. Qed.

Example arith_prog_size :
  match summary (lower_program_with 50 true arith_prog), summary (lower_program_with 50 false arith_prog) with
  | Some (g1, a1), Some (g2, a2) => (2 <? g1) && (0 <? a1) && (g1 <=? g2) && (a1 <=? a2)
  | _, _ => false
  end = true.
Proof. vm_compute. reflexivity. Qed.

(* hence (theorems): its circuit has the C15 structure, with and without de-duplication *)
Example arith_prog_structure dedup :
  exists c, lower_program_with 50 dedup arith_prog = Ok (LCircuit c) /\
    (nthN (gates c) 0 = Some (GXor 0 0) /\ nthN (gates c) 1 = Some (GNot (num_inputs c))) /\
    (forall k, 2 <= k < lenN (gates c) -> reaches c (num_inputs c + k)) /\
    (forall k g w, 2 <= k -> nthN (gates c) k = Some g -> In w (g_ops g) ->
       w <> num_inputs c /\ w <> num_inputs c + 1) /\
    (forall k x y, nthN (gates c) k = Some (GAnd x y) -> x <> y) /\
    (dedup = true -> forall k1 k2 x y x' y',
       nthN (gates c) k1 = Some (GAnd x y) -> nthN (gates c) k2 = Some (GAnd x' y') ->
       same_pair x y x' y' -> k1 = k2).
Proof.
  assert (H : exists c, lower_program_with 50 dedup arith_prog = Ok (LCircuit c)).
  { destruct dedup.
    - destruct (lower_program_with 50 true arith_prog) as [[c| |]| |] eqn:E; try (exfalso; revert E; vm_compute; discriminate).
      exists c. reflexivity.
    - destruct (lower_program_with 50 false arith_prog) as [[c| |]| |] eqn:E; try (exfalso; revert E; vm_compute; discriminate).
      exists c. reflexivity. }
  destruct H as [c Hc]. exists c. split; [exact Hc|].
  split; [exact (compiled_const_gates _ _ _ c Hc)|].
  split; [exact (compiled_all_used _ _ _ c Hc)|].
  split; [exact (compiled_no_constant_operand _ _ _ c Hc)|].
  split; [exact (proj1 (compiled_no_self_operand _ _ _ c Hc))|].
  exact (compiled_and_unique _ _ _ c Hc).
Qed.
End ReachExamples.

Print Assumptions ReachExamples.arith_prog_structure.
