(* The operator lowering of Compile/Lower.v on the Boolean instance ([TSem.tops]) is bit-exact
   checked two's-complement arithmetic, part 2: casts (zero / sign extension, truncation),
   shifts (the mux layers of << and >>) and multiplication (the array multiplier, unsigned
   and signed).  Every statement is for an arbitrary width n >= 1 unless the code itself
   restricts the width (shifts: 8, 16, 32, 64).  Bit vectors are most significant bit first;
   [bits_to_N] is the unsigned and [bits_to_Z_signed] the two's-complement reading. *)
From Coq Require Import Lia ZArith.
From GV Require Import Base.Util Base.Bits Base.BitsProofs Lang.Ast Gadgets.Gadgets Gadgets.GadgetSpec
  Gadgets.Arith Gadgets.Extend Gadgets.ExtendProofs Panic.PanicRec Panic.PanicSem
  Compile.Lower Compile.TSem Compile.TSemFacts.
Local Open Scope N_scope.

(* ------------------------------------------------------------------ 1. casts *)

(* on Booleans [extend_g] is the pure function [extend_s] whenever the target is not narrower *)
Lemma tsem_extend_g v sg bits : (length v <= bits)%nat ->
  extend_g tops v sg bits = Ok (extend_s v sg bits).
Proof.
  intro Hl. unfold extend_g, extend_s. destruct v as [|b r]; [reflexivity|].
  change (wF tops) with false.
  destruct (Nat.eqb_spec (length (b :: r)) bits) as [E|NE].
  - rewrite E, Nat.sub_diag. reflexivity.
  - destruct (Nat.ltb_spec bits (length (b :: r))); [lia|reflexivity].
Qed.

(* ... and a debug-build panic when it is *)
Lemma tsem_extend_g_narrower v sg bits : (bits < length v)%nat -> extend_g tops v sg bits = Crash.
Proof.
  intro Hl. unfold extend_g. destruct v as [|b r]; [cbn in Hl; lia|].
  destruct (Nat.eqb_spec (length (b :: r)) bits); [lia|].
  destruct (Nat.ltb_spec bits (length (b :: r))); [reflexivity|lia].
Qed.

(* a no-op at the same non-zero width (what [lower_binop] does to operands of equal lengths) *)
Lemma tsem_extend_g_same v sg : v <> [] -> extend_g tops v sg (length v) = Ok v.
Proof.
  intro Hne. unfold extend_g. destruct v as [|b r]; [congruence|]. now rewrite Nat.eqb_refl.
Qed.

Lemma bits_to_Z_signed_repeat_false k : bits_to_Z_signed (repeat false k) = 0%Z.
Proof.
  destruct k as [|k]; [reflexivity|]. cbn [repeat]. unfold bits_to_Z_signed.
  rewrite bits_to_N_repeat_false. cbn. lia.
Qed.

(* sign extension keeps the two's-complement value (also for the empty vector: 0) *)
Lemma sext_correct' v bits : bits_to_Z_signed (extend_s v true bits) = bits_to_Z_signed v.
Proof.
  destruct v as [|b r].
  - cbn [extend_s]. apply bits_to_Z_signed_repeat_false.
  - apply sext_correct. discriminate.
Qed.

(* zero extension: the unsigned value is preserved *)
Theorem tsem_zext_correct v bits : (length v <= bits)%nat ->
  exists r, extend_g tops v false bits = Ok r /\ length r = bits /\ bits_to_N r = bits_to_N v.
Proof.
  intro Hl. exists (extend_s v false bits). split; [now apply tsem_extend_g|].
  split; [now apply extend_s_length|apply zext_correct].
Qed.
Print Assumptions tsem_zext_correct.

(* sign extension: the signed value is preserved *)
Theorem tsem_sext_correct v bits : (length v <= bits)%nat ->
  exists r, extend_g tops v true bits = Ok r /\ length r = bits /\
            bits_to_Z_signed r = bits_to_Z_signed v.
Proof.
  intro Hl. exists (extend_s v true bits). split; [now apply tsem_extend_g|].
  split; [now apply extend_s_length|apply sext_correct'].
Qed.
Print Assumptions tsem_sext_correct.

(* truncation to the low k bits: the value modulo 2^k *)
Theorem tsem_truncate_correct (v : list bool) k : (k <= length v)%nat ->
  length (cast_truncate v k) = k /\
  bits_to_N (cast_truncate v k) = bits_to_N v mod 2 ^ N.of_nat k.
Proof. apply truncate_correct. Qed.
Print Assumptions tsem_truncate_correct.

(* the two's-complement reading of the truncation: the signed value, wrapped to k bits *)
Lemma signed_mod_unsigned l : l <> [] ->
  (bits_to_Z_signed l mod 2 ^ Z.of_N (lenN l) = Z.of_N (bits_to_N l))%Z.
Proof.
  intro Hne. destruct (signed_facts l Hne) as (HX & HP & _ & _ & HS). cbv zeta in *.
  rewrite HS, N2Z.inj_pow. change (Z.of_N 2) with 2%Z.
  assert (0 <= Z.of_N (bits_to_N l) < 2 ^ Z.of_N (lenN l))%Z as Hr.
  { rewrite <- (N2Z.inj_pow 2). lia. }
  destruct (hd false l).
  - replace (Z.of_N (bits_to_N l) - 2 ^ Z.of_N (lenN l))%Z
      with (Z.of_N (bits_to_N l) + (-1) * 2 ^ Z.of_N (lenN l))%Z by lia.
    rewrite Z.mod_add by lia. now apply Z.mod_small.
  - rewrite Z.sub_0_r. now apply Z.mod_small.
Qed.

Theorem tsem_truncate_signed (v : list bool) k : (1 <= k <= length v)%nat ->
  (Z.of_N (bits_to_N (cast_truncate v k)) = bits_to_Z_signed v mod 2 ^ Z.of_nat k)%Z.
Proof.
  intros [Hk1 Hk]. destruct (truncate_correct v k Hk) as [_ HV]. rewrite HV.
  assert (v <> []) as Hne by (destruct v; [cbn in Hk; lia|discriminate]).
  rewrite N2Z.inj_mod, N2Z.inj_pow, nat_N_Z. change (Z.of_N 2) with 2%Z.
  rewrite <- (signed_mod_unsigned v Hne).
  unfold lenN. rewrite nat_N_Z.
  replace (Z.of_nat (length v)) with (Z.of_nat k + Z.of_nat (length v - k))%Z by lia.
  rewrite Z.pow_add_r by lia.
  assert (0 < 2 ^ Z.of_nat k)%Z by (apply Z.pow_pos_nonneg; lia).
  assert (0 < 2 ^ Z.of_nat (length v - k))%Z by (apply Z.pow_pos_nonneg; lia).
  rewrite Z.rem_mul_r by lia.
  rewrite Z.mul_comm, Z.mod_add by lia. apply Z.mod_mod. lia.
Qed.
Print Assumptions tsem_truncate_signed.

(* the ECast case of the expression lowering: whatever the operand compiles to, the cast
   has exactly the target width; narrowing keeps the value modulo 2^width, widening keeps
   the unsigned value of an unsigned operand and the signed value of a signed one; the
   environment and the panic observation are those of the operand *)
Theorem tsem_cast_correct P rec_e rec_p rec_b to e1 m t E o w E1 o1 :
  rec_e e1 E o = Ok ((w, E1), o1) ->
  exists r,
    lower_expr_body tops P rec_e rec_p rec_b (Ex (ECast to e1) m t) E o = Ok ((r, E1), o1) /\
    length r = szn P to /\
    ((szn P to <= length w)%nat -> bits_to_N r = bits_to_N w mod 2 ^ N.of_nat (szn P to)) /\
    ((length w <= szn P to)%nat ->
       if is_signed (e_ty e1) then bits_to_Z_signed r = bits_to_Z_signed w
       else bits_to_N r = bits_to_N w).
Proof.
  intro He. cbn [lower_expr_body]. unfold mbind. rewrite He. cbn iota beta.
  destruct (Nat.eqb_spec (szn P to) (length w)) as [E0|NE].
  - exists w. unfold ret. split; [reflexivity|]. split; [now symmetry|]. split.
    + intros _. rewrite E0. symmetry. apply N.mod_small. apply bits_to_N_lt.
    + intros _. destruct (is_signed (e_ty e1)); reflexivity.
  - destruct (Nat.ltb_spec (szn P to) (length w)) as [Hlt|Hge].
    + exists (cast_truncate w (szn P to)). unfold ret. split; [reflexivity|].
      destruct (truncate_correct w (szn P to)) as [HL HV]; [lia|].
      split; [exact HL|]. split; [intros _; exact HV|]. lia.
    + assert (length w <= szn P to)%nat as Hl by lia.
      exists (extend_s w (is_signed (e_ty e1)) (szn P to)).
      unfold m_extend, lift_res. rewrite (tsem_extend_g _ _ _ Hl). unfold ret.
      split; [reflexivity|]. split; [now apply extend_s_length|]. split; [lia|].
      intros _. destruct (is_signed (e_ty e1)); [apply sext_correct'|apply zext_correct].
Qed.
Print Assumptions tsem_cast_correct.

(* ------------------------------------------------------------------ 2. shifts *)

Lemma nth_map_seq {A} (f : nat -> A) n i d : (i < n)%nat -> nth i (map f (seq 0 n)) d = f i.
Proof.
  intro Hi. rewrite (nth_indep _ d (f 0%nat)) by (rewrite map_length, seq_length; exact Hi).
  rewrite map_nth, seq_nth by exact Hi. reflexivity.
Qed.

Lemma nth_skipn' {A} k : forall (l : list A) i d, nth i (skipn k l) d = nth (k + i) l d.
Proof.
  induction k as [|k IH]; intros l i d; [reflexivity|].
  destruct l as [|a l]; [destruct i; reflexivity|]. cbn [skipn Nat.add nth]. apply IH.
Qed.

Lemma nth_firstn' {A} k : forall (l : list A) i d, (i < k)%nat -> nth i (firstn k l) d = nth i l d.
Proof.
  induction k as [|k IH]; intros l i d Hi; [lia|].
  destruct l as [|a l]; [reflexivity|]. destruct i as [|i]; [reflexivity|].
  cbn [firstn nth]. apply IH. lia.
Qed.

(* one mux layer's "shifted" input: a shift of the whole vector by [k] positions *)
Lemma shift_once_length left fill (v : list bool) k : length (shift_once tops left fill v k) = length v.
Proof. unfold shift_once. now rewrite map_length, seq_length. Qed.

Lemma shift_once_nth left fill (v : list bool) k i : (i < length v)%nat ->
  nth i (shift_once tops left fill v k) false =
  if left then (if (length v <=? i + k)%nat then false else nth (i + k) v false)
  else (if (i <? k)%nat then fill else nth (i - k) v false).
Proof. intro Hi. unfold shift_once. rewrite nth_map_seq by exact Hi. reflexivity. Qed.

Lemma shift_once_0 left fill (v : list bool) : shift_once tops left fill v 0 = v.
Proof.
  apply (nth_ext _ _ false false); [apply shift_once_length|].
  intros i Hi. rewrite shift_once_length in Hi. rewrite shift_once_nth by exact Hi.
  destruct left.
  - rewrite Nat.add_0_r. destruct (Nat.leb_spec (length v) i); [lia|reflexivity].
  - rewrite Nat.sub_0_r. reflexivity.
Qed.

Lemma shift_once_add left fill (v : list bool) a b :
  shift_once tops left fill (shift_once tops left fill v a) b = shift_once tops left fill v (a + b).
Proof.
  apply (nth_ext _ _ false false); [now rewrite !shift_once_length|].
  intros i Hi. rewrite !shift_once_length in Hi.
  rewrite shift_once_nth by (now rewrite shift_once_length).
  rewrite (shift_once_nth left fill v (a + b)) by exact Hi. rewrite shift_once_length.
  destruct left.
  - destruct (Nat.leb_spec (length v) (i + b)) as [H1|H1].
    + destruct (Nat.leb_spec (length v) (i + (a + b))); [reflexivity|lia].
    + rewrite shift_once_nth by exact H1. replace (i + b + a)%nat with (i + (a + b))%nat by lia.
      reflexivity.
  - destruct (Nat.ltb_spec i b) as [H1|H1].
    + destruct (Nat.ltb_spec i (a + b)); [reflexivity|lia].
    + rewrite shift_once_nth by lia. replace (i - b - a)%nat with (i - (a + b))%nat by lia.
      destruct (Nat.ltb_spec (i - b) a); destruct (Nat.ltb_spec i (a + b)); try lia; reflexivity.
Qed.

(* THE GENERIC LEMMA: k mux layers with strides sh, 2 sh, 4 sh, ... controlled by the bits of
   a k-bit amount (least significant first) shift by sh * amount -- any width, any k *)
Lemma tsem_shift_layers left fill : forall (y_rev v : list bool) sh o,
  shift_layers tops left fill v y_rev sh o
  = Ok (shift_once tops left fill v (sh * N.to_nat (lsb_to_N y_rev)), o).
Proof.
  induction y_rev as [|s r IH]; intros v sh o; cbn [shift_layers lsb_to_N].
  - change (N.to_nat 0) with 0%nat. rewrite Nat.mul_0_r, shift_once_0. reflexivity.
  - unfold mbind.
    change (fun shifted unshifted : bool => m_mux tops s shifted unshifted) with (m_mux tops s).
    rewrite (tsem_map2_mux s) by apply shift_once_length. rewrite IH. f_equal. f_equal.
    destruct s; cbn [N.b2n].
    + rewrite shift_once_add. f_equal. lia.
    + f_equal. lia.
Qed.

Theorem tsem_shift_layers_value left fill (y v : list bool) o :
  shift_layers tops left fill v (rev y) 1 o
  = Ok (shift_once tops left fill v (N.to_nat (bits_to_N y)), o).
Proof. rewrite tsem_shift_layers, lsb_to_N_rev, Nat.mul_1_l. reflexivity. Qed.
Print Assumptions tsem_shift_layers_value.

(* the shifted vector, structurally *)
Lemma shift_once_left_struct fill (v : list bool) k :
  shift_once tops true fill v k = skipn k v ++ repeat false (Nat.min k (length v)).
Proof.
  apply (nth_ext _ _ false false).
  - rewrite shift_once_length, app_length, skipn_length, repeat_length. lia.
  - intros i Hi. rewrite shift_once_length in Hi. rewrite shift_once_nth by exact Hi.
    destruct (Nat.leb_spec (length v) (i + k)) as [H1|H1].
    + rewrite app_nth2 by (rewrite skipn_length; lia). symmetry. apply nth_repeat.
    + rewrite app_nth1 by (rewrite skipn_length; lia). rewrite nth_skipn'. f_equal. lia.
Qed.

Lemma shift_once_right_struct fill (v : list bool) k :
  shift_once tops false fill v k = repeat fill (Nat.min k (length v)) ++ firstn (length v - k) v.
Proof.
  apply (nth_ext _ _ false fill).
  - rewrite shift_once_length, app_length, firstn_length, repeat_length. lia.
  - intros i Hi. rewrite shift_once_length in Hi. rewrite shift_once_nth by exact Hi.
    destruct (Nat.ltb_spec i k) as [H1|H1].
    + rewrite app_nth1 by (rewrite repeat_length; lia). symmetry. apply nth_repeat.
    + rewrite app_nth2 by (rewrite repeat_length; lia). rewrite repeat_length.
      replace (Nat.min k (length v)) with k by lia.
      rewrite nth_firstn' by lia. apply nth_indep. lia.
Qed.

Lemma pow2_le a b : a <= b -> 2 ^ a <= 2 ^ b.
Proof. intro H. apply N.pow_le_mono_r; lia. Qed.

(* logical left shift: X * 2^k modulo 2^n *)
Theorem shift_once_shl fill (v : list bool) k :
  bits_to_N (shift_once tops true fill v k) = (bits_to_N v * 2 ^ N.of_nat k) mod 2 ^ lenN v.
Proof.
  rewrite shift_once_left_struct, bits_to_N_app, lenN_repeat, bits_to_N_repeat_false, N.add_0_r.
  pose proof (pow2_pos (lenN v)) as Hp.
  destruct (Nat.le_gt_cases k (length v)) as [Hk|Hk].
  - replace (Nat.min k (length v)) with k by lia.
    rewrite <- (firstn_skipn k v) at 2 3.
    rewrite bits_to_N_app, lenN_app.
    assert (lenN (firstn k v) = N.of_nat k) as -> by (unfold lenN; rewrite firstn_length; lia).
    pose proof (bits_to_N_lt (skipn k v)) as Hs.
    pose proof (pow2_pos (N.of_nat k)) as Hpk.
    rewrite N.pow_add_r in *.
    replace ((bits_to_N (firstn k v) * 2 ^ lenN (skipn k v) + bits_to_N (skipn k v)) * 2 ^ N.of_nat k)
      with (bits_to_N (skipn k v) * 2 ^ N.of_nat k
            + bits_to_N (firstn k v) * (2 ^ N.of_nat k * 2 ^ lenN (skipn k v))) by lia.
    rewrite N.mod_add by lia. symmetry. apply N.mod_small. nia.
  - rewrite skipn_all2 by lia. cbn [bits_to_N]. rewrite N.mul_0_l.
    replace (N.of_nat k) with (N.of_nat k - lenN v + lenN v) by (unfold lenN; lia).
    rewrite N.pow_add_r, N.mul_assoc, N.mod_mul by lia. reflexivity.
Qed.
Print Assumptions shift_once_shl.

(* logical right shift: X / 2^k *)
Theorem shift_once_shr (v : list bool) k :
  bits_to_N (shift_once tops false false v k) = bits_to_N v / 2 ^ N.of_nat k.
Proof.
  rewrite shift_once_right_struct, bits_to_N_repeat_false_app.
  destruct (Nat.le_gt_cases k (length v)) as [Hk|Hk].
  - rewrite <- (firstn_skipn (length v - k) v) at 3. rewrite bits_to_N_app.
    assert (lenN (skipn (length v - k) v) = N.of_nat k) as El
      by (unfold lenN; rewrite skipn_length; lia).
    pose proof (bits_to_N_lt (skipn (length v - k) v)) as Hs. rewrite El in *.
    pose proof (pow2_pos (N.of_nat k)) as Hpk.
    rewrite N.div_add_l by lia. rewrite (N.div_small _ _ Hs). lia.
  - replace (length v - k)%nat with 0%nat by lia. cbn [firstn bits_to_N].
    symmetry. apply N.div_small. pose proof (bits_to_N_lt v) as Hv.
    assert (2 ^ lenN v <= 2 ^ N.of_nat k) by (apply pow2_le; unfold lenN; lia). lia.
Qed.
Print Assumptions shift_once_shr.

Lemma bits_to_Z_signed_repeat_true k : bits_to_Z_signed (repeat true (S k)) = (-1)%Z.
Proof.
  cbn [repeat]. unfold bits_to_Z_signed. rewrite lenN_repeat. cbn [N.b2n].
  pose proof (bits_to_N_repeat_true k). lia.
Qed.

(* the high part of a two's-complement number is its floor quotient by the weight of the low part *)
Lemma signed_app_div (f s : list bool) : f <> [] ->
  (bits_to_Z_signed (f ++ s) / 2 ^ Z.of_N (lenN s) = bits_to_Z_signed f)%Z.
Proof.
  intro Hne. destruct f as [|b f]; [congruence|].
  rewrite (bits_to_Z_signed_cons b f). change ((b :: f) ++ s) with (b :: (f ++ s)).
  rewrite (bits_to_Z_signed_cons b (f ++ s)). change (b :: f ++ s) with ((b :: f) ++ s).
  rewrite bits_to_N_app, lenN_app.
  pose proof (bits_to_N_lt s) as Hs.
  assert (0 < 2 ^ Z.of_N (lenN s))%Z as Hp by (apply Z.pow_pos_nonneg; lia).
  assert (Z.of_N (bits_to_N s) < 2 ^ Z.of_N (lenN s))%Z as Hs' by (rewrite <- (N2Z.inj_pow 2); lia).
  rewrite (N2Z.inj_add (lenN (b :: f)) (lenN s)), Z.pow_add_r by lia.
  rewrite N2Z.inj_add, N2Z.inj_mul, N2Z.inj_pow. change (Z.of_N 2) with 2%Z.
  symmetry. apply Z.div_unique with (r := Z.of_N (bits_to_N s)); [lia|].
  destruct b; lia.
Qed.

(* arithmetic right shift: floor (SX / 2^k) *)
Theorem shift_once_sar (v : list bool) k : v <> [] ->
  (bits_to_Z_signed (shift_once tops false (hd false v) v k) = bits_to_Z_signed v / 2 ^ Z.of_nat k)%Z.
Proof.
  intro Hne. rewrite shift_once_right_struct.
  destruct (Nat.lt_ge_cases k (length v)) as [Hk|Hk].
  - replace (Nat.min k (length v)) with k by lia.
    assert (firstn (length v - k) v <> []) as Hfne.
    { destruct v as [|b r]; [congruence|]. cbn [length] in *.
      replace (S (length r) - k)%nat with (S (length r - k)) by lia. discriminate. }
    assert (hd false (firstn (length v - k) v) = hd false v) as Hhd.
    { destruct v as [|b r]; [congruence|]. cbn [length] in *.
      replace (S (length r) - k)%nat with (S (length r - k)) by lia. reflexivity. }
    assert (repeat (hd false v) k ++ firstn (length v - k) v
            = extend_s (firstn (length v - k) v) true (length v)) as ->.
    { unfold extend_s. destruct (firstn (length v - k) v) as [|b f] eqn:Ef; [congruence|].
      cbn [hd] in Hhd. rewrite <- Hhd. rewrite <- Ef, firstn_length.
      replace (length v - Nat.min (length v - k) (length v))%nat with k by lia. reflexivity. }
    rewrite sext_correct by exact Hfne.
    rewrite <- (signed_app_div (firstn (length v - k) v) (skipn (length v - k) v) Hfne), firstn_skipn.
    replace (Z.of_nat k) with (Z.of_N (lenN (skipn (length v - k) v)))
      by (unfold lenN; rewrite skipn_length; lia).
    reflexivity.
  - replace (length v - k)%nat with 0%nat by lia. cbn [firstn]. rewrite app_nil_r.
    replace (Nat.min k (length v)) with (length v) by lia.
    pose proof (bits_to_Z_signed_range v Hne) as Hr.
    destruct (signed_facts v Hne) as (HX & HP & H1 & H0 & HS). cbv zeta in *.
    assert (2 ^ Z.of_N (lenN v - 1) <= 2 ^ Z.of_nat k)%Z as Hle
      by (apply Z.pow_le_mono_r; unfold lenN; lia).
    assert (0 < 2 ^ Z.of_nat k)%Z as Hp by (apply Z.pow_pos_nonneg; lia).
    destruct v as [|b r]; [congruence|]. cbn [hd length] in *.
    destruct b.
    + rewrite bits_to_Z_signed_repeat_true. specialize (H1 eq_refl).
      apply Z.div_unique with (r := (bits_to_Z_signed (true :: r) + 2 ^ Z.of_nat k)%Z); lia.
    + rewrite bits_to_Z_signed_repeat_false. specialize (H0 eq_refl).
      symmetry. apply Z.div_small. lia.
Qed.
Print Assumptions shift_once_sar.

Lemma tsem_or_all_M : forall (ws : list bool) acc o, or_all_M tops acc ws o = Ok (or_all_s acc ws, o).
Proof.
  induction ws as [|w r IH]; intros acc o; cbn [or_all_M or_all_s]; [reflexivity|].
  unfold mbind. change (m_or tops acc w o) with (Ok (orb acc w, o)). cbn iota beta. apply IH.
Qed.

(* the OR of the top j bits of the amount: the amount is at least 2^(remaining bits) *)
Lemma top_bits_overflow (y : list bool) j : (j <= length y)%nat ->
  negb (bits_to_N (firstn j y) =? 0) = (2 ^ N.of_nat (length y - j) <=? bits_to_N y).
Proof.
  intro Hj. pose proof (bits_to_N_app (firstn j y) (skipn j y)) as H. rewrite firstn_skipn in H.
  rewrite H. pose proof (bits_to_N_lt (skipn j y)) as Hs.
  assert (lenN (skipn j y) = N.of_nat (length y - j)) as El by (unfold lenN; now rewrite skipn_length).
  rewrite El in *. pose proof (pow2_pos (N.of_nat (length y - j))) as Hp.
  destruct (N.eqb_spec (bits_to_N (firstn j y)) 0) as [E|E]; cbn [negb];
    destruct (N.leb_spec (2 ^ N.of_nat (length y - j))
               (bits_to_N (firstn j y) * 2 ^ N.of_nat (length y - j) + bits_to_N (skipn j y)));
    try reflexivity; nia.
Qed.

(* the fill bit of the shift: the sign for >> on a signed operand, 0 otherwise *)
Definition shift_fill (left sg : bool) (x : list bool) : bool :=
  if sg && negb left then hd false x else false.

(* << and >> as compiled: the operand shifted by the value of the 8-bit amount; Overflow iff
   the amount is >= the width (the OR of the top 8 - log2 n bits of the amount) *)
Theorem tsem_lower_shift left sg (x y : list bool) m o :
  length y = 8%nat -> In (length x) [8; 16; 32; 64]%nat ->
  lower_shift tops left sg x y m o
  = Ok (shift_once tops left (shift_fill left sg x) x (N.to_nat (bits_to_N y)),
        push_spec o (lenN x <=? bits_to_N y) Overflow (ploc_of m)).
Proof.
  intros Hy Hin. unfold lower_shift. rewrite Hy. cbn [Nat.eqb negb]. unfold mbind.
  assert (x <> []) as Hne by (intros ->; cbn in Hin; lia).
  assert ((if sg && negb left then lift_res (hd_res x) else ret (wF tops)) o
          = Ok (shift_fill left sg x, o)) as ->.
  { unfold shift_fill. destruct (sg && negb left); [|reflexivity].
    destruct x as [|b r]; [congruence|reflexivity]. }
  rewrite tsem_shift_layers_value. unfold lenN.
  destruct Hin as [E|[E|[E|[E|[]]]]]; rewrite <- E; cbn [max_filled_bits Nat.eqb lift_res Nat.sub];
    rewrite tsem_or_all_M, or_all_s_spec; cbn [orb];
    rewrite top_bits_overflow by (rewrite Hy; lia); rewrite Hy; reflexivity.
Qed.
Print Assumptions tsem_lower_shift.

(* any other width is refused (compile.rs: max_filled_bits panics) *)
Theorem tsem_lower_shift_other_width left sg (x y : list bool) m o :
  ~ In (length x) [8; 16; 32; 64]%nat -> lower_shift tops left sg x y m o = Crash.
Proof.
  intro Hnin. unfold lower_shift. destruct (negb (length y =? 8)%nat); [reflexivity|].
  unfold mbind.
  destruct ((if sg && negb left then lift_res (hd_res x) else ret (wF tops)) o) as [[fill o1]| |] eqn:Ef.
  - rewrite tsem_shift_layers_value.
    assert (max_filled_bits (length x) = Crash) as ->; [|reflexivity].
    unfold max_filled_bits.
    destruct (Nat.eqb_spec (length x) 8); [cbn in Hnin; lia|].
    destruct (Nat.eqb_spec (length x) 16); [cbn in Hnin; lia|].
    destruct (Nat.eqb_spec (length x) 32); [cbn in Hnin; lia|].
    destruct (Nat.eqb_spec (length x) 64); [cbn in Hnin; lia|]. reflexivity.
  - reflexivity.
  - destruct (sg && negb left); [|discriminate]. destruct x; discriminate.
Qed.
Print Assumptions tsem_lower_shift_other_width.

(* the three readings of the result, for an n-bit operand, n in {8, 16, 32, 64}, and the
   8-bit amount of value S *)
Theorem tsem_shift_correct left sg (x y : list bool) m o :
  length y = 8%nat -> In (length x) [8; 16; 32; 64]%nat ->
  let n := lenN x in let S := bits_to_N y in
  exists r,
    lower_shift tops left sg x y m o = Ok (r, push_spec o (n <=? S) Overflow (ploc_of m)) /\
    length r = length x /\
    (left = true -> bits_to_N r = (bits_to_N x * 2 ^ S) mod 2 ^ n) /\
    (left = false -> sg = false -> bits_to_N r = bits_to_N x / 2 ^ S) /\
    (left = false -> sg = true ->
       bits_to_Z_signed r = (bits_to_Z_signed x / 2 ^ Z.of_N S)%Z).
Proof.
  intros Hy Hin n S. eexists. split; [apply (tsem_lower_shift left sg x y m o Hy Hin)|].
  assert (x <> []) as Hne by (intros ->; cbn in Hin; lia).
  split; [apply shift_once_length|]. split; [|split].
  - intros ->. rewrite shift_once_shl, N2Nat.id. reflexivity.
  - intros -> ->. unfold shift_fill. cbn [andb]. rewrite shift_once_shr, N2Nat.id. reflexivity.
  - intros -> ->. unfold shift_fill. cbn [andb negb]. rewrite shift_once_sar by exact Hne.
    rewrite N_nat_Z. reflexivity.
Qed.
Print Assumptions tsem_shift_correct.

(* the four widths *)
Corollary tsem_shift_correct_8 left sg (x y : list bool) m o :
  length y = 8%nat -> length x = 8%nat ->
  let S := bits_to_N y in
  exists r,
    lower_shift tops left sg x y m o = Ok (r, push_spec o (8 <=? S) Overflow (ploc_of m)) /\
    length r = 8%nat /\
    (left = true -> bits_to_N r = (bits_to_N x * 2 ^ S) mod 2 ^ 8) /\
    (left = false -> sg = false -> bits_to_N r = bits_to_N x / 2 ^ S) /\
    (left = false -> sg = true -> bits_to_Z_signed r = (bits_to_Z_signed x / 2 ^ Z.of_N S)%Z).
Proof.
  intros Hy Hx. assert (In (length x) [8; 16; 32; 64]%nat) as Hin by (rewrite Hx; cbn; tauto).
  pose proof (tsem_shift_correct left sg x y m o Hy Hin) as H. unfold lenN in H. rewrite Hx in H.
  exact H.
Qed.

Corollary tsem_shift_correct_16 left sg (x y : list bool) m o :
  length y = 8%nat -> length x = 16%nat ->
  let S := bits_to_N y in
  exists r,
    lower_shift tops left sg x y m o = Ok (r, push_spec o (16 <=? S) Overflow (ploc_of m)) /\
    length r = 16%nat /\
    (left = true -> bits_to_N r = (bits_to_N x * 2 ^ S) mod 2 ^ 16) /\
    (left = false -> sg = false -> bits_to_N r = bits_to_N x / 2 ^ S) /\
    (left = false -> sg = true -> bits_to_Z_signed r = (bits_to_Z_signed x / 2 ^ Z.of_N S)%Z).
Proof.
  intros Hy Hx. assert (In (length x) [8; 16; 32; 64]%nat) as Hin by (rewrite Hx; cbn; tauto).
  pose proof (tsem_shift_correct left sg x y m o Hy Hin) as H. unfold lenN in H. rewrite Hx in H.
  exact H.
Qed.

Corollary tsem_shift_correct_32 left sg (x y : list bool) m o :
  length y = 8%nat -> length x = 32%nat ->
  let S := bits_to_N y in
  exists r,
    lower_shift tops left sg x y m o = Ok (r, push_spec o (32 <=? S) Overflow (ploc_of m)) /\
    length r = 32%nat /\
    (left = true -> bits_to_N r = (bits_to_N x * 2 ^ S) mod 2 ^ 32) /\
    (left = false -> sg = false -> bits_to_N r = bits_to_N x / 2 ^ S) /\
    (left = false -> sg = true -> bits_to_Z_signed r = (bits_to_Z_signed x / 2 ^ Z.of_N S)%Z).
Proof.
  intros Hy Hx. assert (In (length x) [8; 16; 32; 64]%nat) as Hin by (rewrite Hx; cbn; tauto).
  pose proof (tsem_shift_correct left sg x y m o Hy Hin) as H. unfold lenN in H. rewrite Hx in H.
  exact H.
Qed.

Corollary tsem_shift_correct_64 left sg (x y : list bool) m o :
  length y = 8%nat -> length x = 64%nat ->
  let S := bits_to_N y in
  exists r,
    lower_shift tops left sg x y m o = Ok (r, push_spec o (64 <=? S) Overflow (ploc_of m)) /\
    length r = 64%nat /\
    (left = true -> bits_to_N r = (bits_to_N x * 2 ^ S) mod 2 ^ 64) /\
    (left = false -> sg = false -> bits_to_N r = bits_to_N x / 2 ^ S) /\
    (left = false -> sg = true -> bits_to_Z_signed r = (bits_to_Z_signed x / 2 ^ Z.of_N S)%Z).
Proof.
  intros Hy Hx. assert (In (length x) [8; 16; 32; 64]%nat) as Hin by (rewrite Hx; cbn; tauto).
  pose proof (tsem_shift_correct left sg x y m o Hy Hin) as H. unfold lenN in H. rewrite Hx in H.
  exact H.
Qed.
Print Assumptions tsem_shift_correct_64.

(* ------------------------------------------------------------------ 3. unsigned multiplication *)

(* one row of the array multiplier: sums + 2^n carry = xi * Y + Z + carry-in
   ([yzs]: least significant column first) *)
Lemma tsem_mul_row xi : forall (yzs : list (bool * bool)) c acc o,
  exists S cf, mul_row tops xi yzs c acc o = Ok ((S ++ acc, cf), o) /\ length S = length yzs /\
    bits_to_N S + 2 ^ lenN yzs * N.b2n cf
    = N.b2n xi * lsb_to_N (map fst yzs) + lsb_to_N (map snd yzs) + N.b2n c.
Proof.
  induction yzs as [|[yj z] r IH]; intros c acc o.
  - exists [], c. cbn. repeat split. lia.
  - cbn [mul_row]. unfold mbind.
    change (o_multiplier tops xi yj z c o) with (Ok (multiplier_s xi yj z c, o)). cbn iota beta.
    pose proof (multiplier_s_spec xi yj z c) as Hm.
    destruct (multiplier_s xi yj z c) as [s c1]. cbn [fst snd] in Hm.
    destruct (IH c1 (s :: acc) o) as (S & cf & HS & HL & HV).
    exists (S ++ [s]), cf. rewrite <- app_assoc. cbn [app]. split; [exact HS|]. split.
    + rewrite app_length. cbn [length]. lia.
    + rewrite bits_to_N_snoc, lenN_cons, pow2_succ. cbn [map fst snd lsb_to_N]. nia.
Qed.

(* the addend the next row receives from the previous one: (carry, sums) shifted right once *)
Definition mul_zs (y : list bool) (prev : option (list bool * bool)) : list bool :=
  match prev with
  | None => repeat false (length y)
  | Some (sums, c0) => c0 :: removelast sums
  end.

Definition mul_prev_wf (y : list bool) (prev : option (list bool * bool)) : Prop :=
  match prev with None => True | Some (sums, _) => length sums = length y end.

Lemma mul_zs_length y prev : y <> [] -> mul_prev_wf y prev -> length (mul_zs y prev) = length y.
Proof.
  intros Hne Hwf. destruct prev as [[sums c0]|]; cbn [mul_zs mul_prev_wf] in *.
  - cbn [length]. rewrite removelast_firstn_len, firstn_length.
    destruct y; [congruence|]. cbn [length] in *. lia.
  - apply repeat_length.
Qed.

Lemma mul_rows_cons xi r (y : list bool) prev acc :
  mul_rows tops (xi :: r) y prev acc
  = mbind (mul_row tops xi (rev (combine y (mul_zs y prev))) (wF tops) [])
          (fun '(sums, c0) => mul_rows tops r y (Some (sums, c0)) (last sums (wF tops) :: acc)).
Proof. reflexivity. Qed.

(* the rows: with R the result bits collected so far and Z the pending addend,
   (Z', R') after the rows for [xs_rev] satisfy  Z' 2^k + R' = Xs Y + Z *)
Lemma tsem_mul_rows (y : list bool) : y <> [] ->
  forall (xs_rev : list bool) prev acc o, mul_prev_wf y prev ->
  exists res prev',
    mul_rows tops xs_rev y prev acc o = Ok ((res ++ acc, prev'), o) /\
    length res = length xs_rev /\ mul_prev_wf y prev' /\
    (prev <> None \/ xs_rev <> [] -> prev' <> None) /\
    bits_to_N (mul_zs y prev') * 2 ^ lenN xs_rev + bits_to_N res
    = lsb_to_N xs_rev * bits_to_N y + bits_to_N (mul_zs y prev).
Proof.
  intro Hne. induction xs_rev as [|xi r IH]; intros prev acc o Hwf.
  - exists [], prev. cbn [mul_rows app length lsb_to_N bits_to_N]. unfold ret.
    repeat split; try assumption; [intros [H|H]; congruence|]. rewrite lenN_nil. cbn. lia.
  - rewrite mul_rows_cons. unfold mbind.
    pose proof (mul_zs_length y prev Hne Hwf) as HLz.
    destruct (tsem_mul_row xi (rev (combine y (mul_zs y prev))) (wF tops) [] o)
      as (S & cf & HS & HL & HV).
    rewrite HS, app_nil_r. cbn iota beta.
    rewrite rev_length, combine_length_eq in HL by (now symmetry).
    rewrite lenN_rev, !map_rev, !lsb_to_N_rev in HV.
    rewrite map_fst_combine, map_snd_combine in HV by (now symmetry).
    unfold lenN in HV. rewrite combine_length_eq in HV by (now symmetry). fold (lenN y) in HV.
    change (N.b2n (wF tops)) with 0 in HV.
    destruct (IH (Some (S, cf)) (last S (wF tops) :: acc) o HL) as (res & prev' & HR & HLr & Hwf' & Hnn & HVr).
    exists (res ++ [last S (wF tops)]), prev'. rewrite <- app_assoc. cbn [app].
    split; [exact HR|]. split; [rewrite app_length; cbn [length]; lia|].
    split; [exact Hwf'|]. split.
    + intros _. apply Hnn. left. discriminate.
    + rewrite bits_to_N_snoc, lenN_cons, pow2_succ. cbn [lsb_to_N].
      cbn [mul_zs] in HVr.
      assert (S <> []) as HSne by (destruct S, y; cbn [length] in HL; congruence).
      pose proof (app_removelast_last (wF tops) HSne) as HSd.
      assert (bits_to_N S = 2 * bits_to_N (removelast S) + N.b2n (last S (wF tops))) as HSv.
      { rewrite HSd at 1. apply bits_to_N_snoc. }
      rewrite bits_to_N_cons in HVr.
      assert (2 * 2 ^ lenN (removelast S) = 2 ^ lenN y) as HP.
      { rewrite <- pow2_succ. f_equal. unfold lenN. rewrite <- HL. rewrite HSd at 2.
        rewrite app_length. cbn [length]. lia. }
      nia.
Qed.

(* the whole array: the low n bits of X * Y, and the OR of the bits above them *)
Lemma tsem_mul_core (x y : list bool) o : x <> [] -> length x = length y ->
  exists result sums0 c00,
    mul_rows tops (rev x) y None [] o = Ok ((result, Some (sums0, c00)), o) /\
    length result = length x /\
    bits_to_N result = (bits_to_N x * bits_to_N y) mod 2 ^ lenN x /\
    or_all_s c00 (removelast sums0) = (2 ^ lenN x <=? bits_to_N x * bits_to_N y).
Proof.
  intros Hne Hl. assert (y <> []) as Hyne by (destruct x, y; try discriminate; congruence).
  destruct (tsem_mul_rows y Hyne (rev x) None [] o I) as (res & prev' & HR & HLr & _ & Hnn & HV).
  rewrite app_nil_r in HR. rewrite rev_length in HLr.
  destruct prev' as [[sums0 c00]|].
  2:{ exfalso. apply Hnn; [|reflexivity]. right. destruct x; [congruence|].
      cbn [rev]. intro H. apply app_eq_nil in H. destruct H; discriminate. }
  exists res, sums0, c00. split; [exact HR|]. split; [exact HLr|].
  rewrite lenN_rev, lsb_to_N_rev in HV. cbn [mul_zs] in HV. rewrite bits_to_N_repeat_false, N.add_0_r in HV.
  pose proof (bits_to_N_lt res) as Hlt. rewrite (lenN_length _ _ HLr) in Hlt.
  pose proof (pow2_pos (lenN x)) as Hp.
  change (or_all_s c00 (removelast sums0)) with (or_all_s false (c00 :: removelast sums0)).
  rewrite or_all_s_spec. cbn [orb].
  remember (bits_to_N (c00 :: removelast sums0)) as Z eqn:EZ.
  destruct (divmod_unique (2 ^ lenN x) (bits_to_N res) Z (bits_to_N x * bits_to_N y) Hlt) as [Hm Hd]; [lia|].
  split; [exact Hm|].
  destruct (N.eqb_spec Z 0) as [E0|E0]; cbn [negb];
    destruct (N.leb_spec (2 ^ lenN x) (bits_to_N x * bits_to_N y)); try reflexivity; nia.
Qed.

(* x * y on unsigned operands: the low n bits of X Y; Overflow iff X Y >= 2^n *)
Theorem tsem_mul_unsigned (x y : list bool) m o : x <> [] -> length x = length y ->
  exists r,
    lower_mul tops false x y m o
    = Ok (r, push_spec o (2 ^ lenN x <=? bits_to_N x * bits_to_N y) Overflow (ploc_of m)) /\
    length r = length x /\
    bits_to_N r = (bits_to_N x * bits_to_N y) mod 2 ^ lenN x.
Proof.
  intros Hne Hl. destruct (tsem_mul_core x y o Hne Hl) as (res & sums0 & c00 & HR & HLr & HV & HO).
  exists res. split; [|split; assumption].
  unfold lower_mul. unfold mbind at 1. unfold ret at 1. cbn iota beta.
  unfold mbind at 1. rewrite HR. cbn iota beta.
  unfold mbind. cbn [of_option lift_res]. rewrite tsem_or_all_M, HO. reflexivity.
Qed.
Print Assumptions tsem_mul_unsigned.

(* through [lower_binop]: operands of equal non-zero lengths are not extended *)
Lemma tsem_binop_extend (x y : list bool) tx ty_ o : x <> [] -> length x = length y ->
  m_extend tops x tx (Nat.max (length x) (length y)) o = Ok (x, o) /\
  m_extend tops y ty_ (Nat.max (length x) (length y)) o = Ok (y, o).
Proof.
  intros Hne Hl. assert (y <> []) as Hyne by (destruct x, y; try discriminate; congruence).
  rewrite <- Hl, Nat.max_id. unfold m_extend, lift_res. rewrite tsem_extend_g_same by exact Hne.
  rewrite Hl, tsem_extend_g_same by exact Hyne. split; reflexivity.
Qed.

Theorem tsem_binop_mul_unsigned t tx ty_ (x y : list bool) m o :
  is_signed t = false -> x <> [] -> length x = length y ->
  exists r,
    lower_binop tops OMul t tx ty_ x y m o
    = Ok (r, push_spec o (2 ^ lenN x <=? bits_to_N x * bits_to_N y) Overflow (ploc_of m)) /\
    length r = length x /\
    bits_to_N r = (bits_to_N x * bits_to_N y) mod 2 ^ lenN x.
Proof.
  intros Hs Hne Hl. destruct (tsem_binop_extend x y tx ty_ o Hne Hl) as [Ex Ey].
  unfold lower_binop. unfold mbind at 1. rewrite Ex. cbn iota beta.
  unfold mbind at 1. rewrite Ey. cbn iota beta. rewrite Hs.
  now apply tsem_mul_unsigned.
Qed.
Print Assumptions tsem_binop_mul_unsigned.

(* ------------------------------------------------------------------ 4. signed multiplication *)

Lemma tsem_and_not_all : forall (ws : list bool) acc o,
  and_not_all tops acc ws o = Ok (acc && (bits_to_N ws =? 0), o).
Proof.
  induction ws as [|w r IH]; intros acc o; cbn [and_not_all].
  - unfold ret. cbn. now rewrite andb_true_r.
  - unfold mbind. change (m_not tops w o) with (Ok (negb w, o)). cbn iota beta.
    change (m_and tops acc (negb w) o) with (Ok (acc && negb w, o)). cbn iota beta.
    rewrite IH, bits_to_N_cons. f_equal. f_equal.
    pose proof (pow2_pos (lenN r)) as Hp.
    destruct w; cbn [negb N.b2n]; rewrite ?N.mul_1_l, ?N.mul_0_l, ?N.add_0_l.
    + rewrite andb_false_r. cbn [andb]. destruct (N.eqb_spec (2 ^ lenN r + bits_to_N r) 0); [lia|].
      now rewrite andb_false_r.
    + now rewrite andb_true_r.
Qed.

(* the overflow signal of the signed multiplier, arithmetically: A = |SP| is the unsigned
   product of the absolute values, R its low n bits, r0 / tlv the top bit and the rest of R *)
Lemma smul_overflow_arith (P Hh A R tlv : N) (SP : Z) (rn r0 : bool) :
  P = 2 * Hh -> 0 < Hh -> R = A mod P -> Z.of_N A = Z.abs SP ->
  (rn = true -> (SP <= 0)%Z) -> (rn = false -> (0 <= SP)%Z) ->
  N.b2n r0 = R / Hh -> tlv = R mod Hh ->
  ((P <=? A) || (r0 && (negb (tlv =? 0) || negb rn)))
  = negb ((- Z.of_N Hh <=? SP)%Z && (SP <? Z.of_N Hh)%Z).
Proof.
  intros HP HH HR HA Hn1 Hn0 Hr0 Htl.
  pose proof (N.div_mod R Hh) as Hdm. rewrite <- Hr0, <- Htl in Hdm. specialize (Hdm ltac:(lia)).
  assert (tlv < Hh) as Htlt by (subst tlv; apply N.mod_lt; lia).
  destruct (N.leb_spec P A) as [Hov|Hno]; cbn [orb].
  - symmetry. apply negb_true_iff, andb_false_iff.
    destruct (Z.leb_spec (- Z.of_N Hh) SP); [right|left; reflexivity].
    apply Z.ltb_ge. lia.
  - rewrite N.mod_small in HR by lia. subst R.
    destruct (Z.leb_spec (- Z.of_N Hh) SP); destruct (Z.ltb_spec SP (Z.of_N Hh));
      destruct (N.eqb_spec tlv 0); destruct r0, rn; cbn [N.b2n andb orb negb] in *;
      try specialize (Hn1 eq_refl); try specialize (Hn0 eq_refl); try reflexivity; exfalso; lia.
Qed.

(* the result bits: the product modulo 2^n *)
Lemma smul_value_arith (P A R : N) (SP : Z) (rn : bool) :
  0 < P -> R = A mod P -> Z.of_N A = Z.abs SP ->
  (rn = true -> (SP <= 0)%Z) -> (rn = false -> (0 <= SP)%Z) ->
  Z.of_N (if rn then (P - R) mod P else R) = (SP mod Z.of_N P)%Z.
Proof.
  intros HP HR HA Hn1 Hn0.
  assert (R < P) as HRlt by (subst R; apply N.mod_lt; lia).
  pose proof (N.div_mod A P ltac:(lia)) as Hdm. rewrite <- HR in Hdm.
  destruct rn.
  - specialize (Hn1 eq_refl). rewrite neg_mod_Z by assumption.
    assert (SP = - Z.of_N R + (- Z.of_N (A / P)) * Z.of_N P)%Z as -> by lia.
    rewrite Z.mod_add by lia. reflexivity.
  - specialize (Hn0 eq_refl).
    assert (SP = Z.of_N R + Z.of_N (A / P) * Z.of_N P)%Z as -> by lia.
    rewrite Z.mod_add by lia. symmetry. apply Z.mod_small. lia.
Qed.

Lemma mbind_ok {A C} (mm : M (Cs:=pobs) A) (k : A -> M (Cs:=pobs) C) s a s' :
  mm s = Ok (a, s') -> mbind mm k s = k a s'.
Proof. intro E. unfold mbind. now rewrite E. Qed.

Lemma tsem_hd_res (x : list bool) (o : pobs) : x <> [] ->
  lift_res (Cs:=pobs) (hd_res x) o = Ok (hd false x, o).
Proof. destruct x; [congruence|reflexivity]. Qed.

Theorem tsem_mul_signed (x y : list bool) m o : x <> [] -> length x = length y ->
  let SP := (bits_to_Z_signed x * bits_to_Z_signed y)%Z in
  let H := Z.of_N (2 ^ (lenN x - 1)) in
  exists r,
    lower_mul tops true x y m o
    = Ok (r, push_spec o (negb ((- H <=? SP)%Z && (SP <? H)%Z)) Overflow (ploc_of m)) /\
    length r = length x /\
    Z.of_N (bits_to_N r) = (SP mod Z.of_N (2 ^ lenN x))%Z /\
    ((- H <= SP < H)%Z -> bits_to_Z_signed r = SP).
Proof.
  intros Hne Hl SP H.
  assert (y <> []) as Hyne by (destruct x, y; try discriminate; congruence).
  destruct (neg_correct x) as [HLxn _]. destruct (neg_correct y) as [HLyn _].
  destruct (hd_mux_all_abs x Hne) as (HLxa & _ & HVxa).
  destruct (hd_mux_all_abs y Hyne) as (HLya & _ & HVya).
  rewrite mux_all_correct in HLxa, HVxa by exact HLxn.
  rewrite mux_all_correct in HLya, HVya by exact HLyn.
  remember (if hd false x then negation_s x else x) as xa eqn:Exa.
  remember (if hd false y then negation_s y else y) as ya eqn:Eya.
  assert (xa <> []) as Hxane by (destruct xa, x; try discriminate; congruence).
  destruct (tsem_mul_core xa ya o Hxane ltac:(lia)) as (res & sums0 & c00 & HR & HLr & HV & HO).
  unfold lower_mul.
  erewrite mbind_ok.
  2:{ erewrite mbind_ok by (apply tsem_hd_res; exact Hne).
      erewrite mbind_ok by (apply tsem_hd_res; exact Hyne).
      erewrite mbind_ok by reflexivity.
      erewrite mbind_ok by reflexivity.
      erewrite mbind_ok by (apply (tsem_map2_mux (hd false x)); exact HLxn).
      erewrite mbind_ok by (apply (tsem_map2_mux (hd false y)); exact HLyn).
      erewrite mbind_ok by reflexivity.
      rewrite <- Exa, <- Eya. reflexivity. }
  cbn iota beta.
  set (rn := xorb (hd false x) (hd false y)).
  assert (res <> []) as Hrne by (destruct res, xa; try discriminate; congruence).
  destruct (neg_correct res) as [HLrn HVrn].
  assert (lenN xa = lenN x) as ELa by (now apply lenN_length).
  assert (lenN res = lenN x) as ELr by (apply lenN_length; lia).
  rewrite ELa in HV, HO. rewrite ELr in HVrn.
  (* the arithmetic facts *)
  pose proof (pow2_half x Hne) as HPH. pose proof (pow2_pos (lenN x - 1)) as HHpos.
  assert (Z.of_N (bits_to_N xa * bits_to_N ya) = Z.abs SP) as HA.
  { unfold SP. rewrite N2Z.inj_mul, HVxa, HVya, Z.abs_mul. reflexivity. }
  assert ((rn = true -> (SP <= 0)%Z) /\ (rn = false -> (0 <= SP)%Z)) as [Hn1 Hn0].
  { destruct (signed_facts x Hne) as (HX & _ & _ & _ & HSX).
    destruct (signed_facts y Hyne) as (HY & _ & _ & _ & HSY). cbv zeta in *.
    unfold SP, rn. rewrite HSX, HSY.
    destruct (hd false x), (hd false y); cbn [xorb]; split; intro; try discriminate; nia. }
  assert (N.b2n (hd false res) = bits_to_N res / 2 ^ (lenN x - 1) /\
          bits_to_N (tl res) = bits_to_N res mod 2 ^ (lenN x - 1)) as [Hr0 Htl].
  { destruct res as [|r0 rt]; [congruence|]. cbn [hd tl].
    assert (lenN rt = lenN x - 1) as <- by (rewrite <- ELr, lenN_cons; lia).
    split; [apply bits_to_N_hd|apply bits_to_N_tl]. }
  exists (if rn then negation_s res else res). split; [|split; [|split]].
  - erewrite mbind_ok by exact HR. cbn iota beta.
    erewrite mbind_ok by reflexivity. cbn iota beta.
    erewrite mbind_ok by apply tsem_or_all_M.
    erewrite mbind_ok.
    2:{ erewrite mbind_ok by apply tsem_and_not_all.
        erewrite mbind_ok by (apply tsem_hd_res; exact Hrne).
        erewrite mbind_ok by reflexivity.
        erewrite mbind_ok by reflexivity.
        erewrite mbind_ok by reflexivity.
        erewrite mbind_ok by reflexivity.
        erewrite mbind_ok by reflexivity.
        erewrite mbind_ok by reflexivity.
        erewrite mbind_ok by (apply (tsem_map2_mux rn); exact HLrn).
        reflexivity. }
    cbn iota beta. unfold mbind, ret, m_panic_if. cbn [o_panic_if tops].
    f_equal. f_equal. f_equal. rewrite HO. change (wT tops) with true. cbn [andb].
    apply (smul_overflow_arith (2 ^ lenN x) (2 ^ (lenN x - 1)) (bits_to_N xa * bits_to_N ya)
             (bits_to_N res) (bits_to_N (tl res)) SP rn (hd false res)); assumption.
  - destruct rn; [rewrite HLrn|]; lia.
  - assert (bits_to_N (if rn then negation_s res else res)
            = if rn then (2 ^ lenN x - bits_to_N res) mod 2 ^ lenN x else bits_to_N res) as ->
      by (destruct rn; [exact HVrn|reflexivity]).
    apply (smul_value_arith (2 ^ lenN x) (bits_to_N xa * bits_to_N ya)); try assumption.
    apply pow2_pos.
  - intro Hrange.
    assert ((if rn then negation_s res else res) <> []) as Hne'.
    { destruct rn; [|exact Hrne]. destruct (negation_s res), res; try discriminate; congruence. }
    assert (lenN (if rn then negation_s res else res) = lenN x) as EL'.
    { destruct rn; [|exact ELr]. rewrite <- ELr. now apply lenN_length. }
    apply signed_of_mod; [exact Hne'|rewrite EL'; exact Hrange|]. rewrite EL'.
    assert (bits_to_N (if rn then negation_s res else res)
            = if rn then (2 ^ lenN x - bits_to_N res) mod 2 ^ lenN x else bits_to_N res) as ->
      by (destruct rn; [exact HVrn|reflexivity]).
    apply (smul_value_arith (2 ^ lenN x) (bits_to_N xa * bits_to_N ya)); try assumption.
    apply pow2_pos.
Qed.
Print Assumptions tsem_mul_signed.

Theorem tsem_binop_mul_signed t tx ty_ (x y : list bool) m o :
  is_signed t = true -> x <> [] -> length x = length y ->
  let SP := (bits_to_Z_signed x * bits_to_Z_signed y)%Z in
  let H := Z.of_N (2 ^ (lenN x - 1)) in
  exists r,
    lower_binop tops OMul t tx ty_ x y m o
    = Ok (r, push_spec o (negb ((- H <=? SP)%Z && (SP <? H)%Z)) Overflow (ploc_of m)) /\
    length r = length x /\
    Z.of_N (bits_to_N r) = (SP mod Z.of_N (2 ^ lenN x))%Z /\
    ((- H <= SP < H)%Z -> bits_to_Z_signed r = SP).
Proof.
  intros Hs Hne Hl. destruct (tsem_binop_extend x y tx ty_ o Hne Hl) as [Ex Ey].
  unfold lower_binop. unfold mbind at 1. rewrite Ex. cbn iota beta.
  unfold mbind at 1. rewrite Ey. cbn iota beta. rewrite Hs.
  now apply tsem_mul_signed.
Qed.
Print Assumptions tsem_binop_mul_signed.

(* ------------------------------------------------------------------ in the vocabulary of Lang/Sem.v *)

(* the two's-complement reading of the n-bit encoding of v mod 2^n is [wrap true n v] *)
Lemma signed_wrap (l : list bool) (v : Z) : l <> [] ->
  Z.of_N (bits_to_N l) = (v mod 2 ^ Z.of_N (lenN l))%Z ->
  bits_to_Z_signed l = Sem.wrap true (lenN l) v.
Proof.
  intros Hne Hm. destruct (signed_facts l Hne) as (HX & HP & H1 & H0 & HS). cbv zeta in *.
  unfold Sem.wrap. cbn [andb]. rewrite <- Hm, HS.
  pose proof (pow2_half l Hne) as HPH.
  assert (2 ^ Z.of_N (lenN l) = Z.of_N (2 ^ lenN l))%Z as -> by (now rewrite N2Z.inj_pow).
  assert (2 ^ (Z.of_N (lenN l) - 1) = Z.of_N (2 ^ (lenN l - 1)))%Z as ->.
  { rewrite N2Z.inj_pow. f_equal. destruct l; [congruence|]. rewrite lenN_cons. lia. }
  destruct (Z.leb_spec (Z.of_N (2 ^ (lenN l - 1))) (Z.of_N (bits_to_N l)));
    destruct (hd false l); try specialize (H1 eq_refl); try specialize (H0 eq_refl); lia.
Qed.

Lemma in_range_signed_pow (n : N) (z : Z) : 1 <= n ->
  Sem.in_range true n z = ((- Z.of_N (2 ^ (n - 1)) <=? z)%Z && (z <? Z.of_N (2 ^ (n - 1)))%Z).
Proof.
  intro Hn. unfold Sem.in_range. rewrite N2Z.inj_pow. change (Z.of_N 2) with 2%Z.
  replace (Z.of_N (n - 1)) with (Z.of_N n - 1)%Z by lia. reflexivity.
Qed.

Lemma in_range_unsigned_pow (n a : N) :
  Sem.in_range false n (Z.of_N a) = negb (2 ^ n <=? a).
Proof.
  unfold Sem.in_range. rewrite <- (N2Z.inj_pow 2).
  destruct (Z.leb_spec 0 (Z.of_N a)); [|lia]. cbn [andb].
  destruct (Z.ltb_spec (Z.of_N a) (Z.of_N (2 ^ n))); destruct (N.leb_spec (2 ^ n) a);
    try reflexivity; lia.
Qed.

(* the value of an n-bit vector as an integer of the given signedness *)
Definition int_val (sg : bool) (l : list bool) : Z :=
  if sg then bits_to_Z_signed l else Z.of_N (bits_to_N l).

(* x * y as compiled is the checked multiplication of Lang/Sem.v: the result is the wrapped
   product and the Overflow panic is raised exactly when the product is not [in_range] *)
Theorem tsem_binop_mul_checked t tx ty_ (x y : list bool) m o :
  x <> [] -> length x = length y ->
  let sg := is_signed t in let n := lenN x in
  let p := (int_val sg x * int_val sg y)%Z in
  exists r,
    lower_binop tops OMul t tx ty_ x y m o
    = Ok (r, push_spec o (negb (Sem.in_range sg n p)) Overflow (ploc_of m)) /\
    length r = length x /\
    int_val sg r = Sem.wrap sg n p.
Proof.
  intros Hne Hl sg n p. subst sg p. unfold int_val.
  assert (1 <= lenN x) as Hn1 by (destruct x; [congruence|rewrite lenN_cons; lia]).
  destruct (is_signed t) eqn:Hs.
  - destruct (tsem_binop_mul_signed t tx ty_ x y m o Hs Hne Hl) as (r & HE & HL & HV & _).
    exists r. subst n. rewrite in_range_signed_pow by exact Hn1.
    split; [exact HE|]. split; [exact HL|].
    assert (r <> []) as Hrne by (destruct r, x; try discriminate; congruence).
    rewrite <- (lenN_length _ _ HL). apply signed_wrap; [exact Hrne|].
    rewrite HV, (lenN_length _ _ HL), N2Z.inj_pow. reflexivity.
  - destruct (tsem_binop_mul_unsigned t tx ty_ x y m o Hs Hne Hl) as (r & HE & HL & HV).
    exists r. subst n. rewrite <- N2Z.inj_mul, in_range_unsigned_pow, negb_involutive.
    split; [exact HE|]. split; [exact HL|].
    unfold Sem.wrap. cbn [andb]. rewrite HV, N2Z.inj_mod, N2Z.inj_pow. reflexivity.
Qed.
Print Assumptions tsem_binop_mul_checked.

(* ------------------------------------------------------------------ the shift case of the expression lowering *)

Theorem tsem_shift_expr P rec_e rec_p rec_b (left : bool) x y m t E o xw E1 o1 yw E2 o2 :
  rec_e x E o = Ok ((xw, E1), o1) -> rec_e y E1 o1 = Ok ((yw, E2), o2) ->
  length yw = 8%nat -> In (length xw) [8; 16; 32; 64]%nat ->
  lower_expr_body tops P rec_e rec_p rec_b (Ex (EOp (if left then OShl else OShr) x y) m t) E o
  = Ok ((shift_once tops left (shift_fill left (is_signed (e_ty x)) xw) xw (N.to_nat (bits_to_N yw)), E2),
        push_spec o2 (lenN xw <=? bits_to_N yw) Overflow (ploc_of m)).
Proof.
  intros Hx Hy Hl8 Hin.
  assert (forall A (k : list bool -> M (Cs:=pobs) A),
    mbind (lower_shift tops left (is_signed (e_ty x)) xw yw m) k o2
    = k (shift_once tops left (shift_fill left (is_signed (e_ty x)) xw) xw (N.to_nat (bits_to_N yw)))
        (push_spec o2 (lenN xw <=? bits_to_N yw) Overflow (ploc_of m))) as Hk.
  { intros A k. apply mbind_ok. now apply tsem_lower_shift. }
  destruct left; cbn [lower_expr_body]; unfold mbind at 1; rewrite Hx; cbn iota beta;
    unfold mbind at 1; rewrite Hy; cbn iota beta; rewrite Hk; reflexivity.
Qed.
Print Assumptions tsem_shift_expr.
