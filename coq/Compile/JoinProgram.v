(* For-join programs (Compile/TSemSemFullJoin.v) with the other program-level results: accepted by
   the re-checker Wt.v, enough fuel for Sem.v -- the run of Sem.v ends with the bits or the panic
   the bit-level semantics shows, under the run-time precondition [join_inputs_sorted].
   The remaining disjunct (a pattern-match Stuck code) is the one of [wt_covered_fuel_agrees]:
   [frag_program] is false on every program with a for-join loop; the exhaustiveness results of
   Exhaust/ are stated for the checker with calls ([scf2_*]) and do not cover this shape yet.
   The circuit-level theorem (Compile/EndToEnd.v) needs the crash-freedom of the lowering
   (Compile/TSemSafe.v), which excludes for-join loops. *)
From Coq Require Import Lia ZArith List. Import ListNotations.
From GV Require Import Base.Util Lang.Ast Lang.Wt Lang.ValTy Panic.PanicRec Panic.PanicSem Compile.Lower Compile.TSem
  Compile.TSemSemExpr Compile.TSemSemFull Compile.TSemSemJoin Compile.TSemSemFullJoin Compile.TSemSemFullWt Compile.SemFuel.
From GV Require Lang.Sem.

Definition join_covered (fw : nat) (P : program) : bool :=
  join_main_ok fw P && wt_program P && main_ret_fits P.

Lemma join_main_ok_small fw P : join_main_ok fw P = true -> enums_small P = true.
Proof.
  unfold join_main_ok. destruct (p_consts P); [|discriminate].
  destruct (main_join_site P) as [[[[d pre] js] post]|]; [|discriminate].
  intro H. apply andb_prop in H. destruct H as [H _]. apply andb_prop in H. destruct H as [H _]. exact H.
Qed.

Theorem join_covered_agrees P fuel fw fT args o outs :
  join_covered fw P = true -> sem_fuel_enough fuel P = true ->
  join_inputs_sorted P args -> canonical_main_args P args = true ->
  tsem_program fT P args = Ok (o, outs) ->
  (exists bits l, Sem.run_main fuel P args = Sem.RunOk bits l /\ o = None /\ outs = bits) \/
  (exists r m, Sem.run_main fuel P args = Sem.RunPanic r m /\ o = Some (preason_num (pr r), ploc32 (ploc_of m))) \/
  (frag_program P = false /\ exists c, Sem.run_main fuel P args = Sem.RunStuck c /\ In c stuck_allowed).
Proof.
  intros Hc Hf Hs Hcan Hrun. unfold join_covered in Hc. apply andb_prop in Hc. destruct Hc as [Hc Hfit].
  apply andb_prop in Hc. destruct Hc as [Hj Hwt].
  pose proof (tsem_sem_program_join P (join_main_ok_small fw P Hj) fuel fw fT args o outs Hj Hs Hcan Hrun) as Hobs.
  pose proof (run_main_no_nofuel P fuel args Hf) as Hn.
  destruct (agree_obs_cases P fuel args o outs Hwt Hfit Hcan Hobs) as [H|[H|[H|H]]]; auto. contradiction.
Qed.
Print Assumptions join_covered_agrees.

(* a program of tools/gen_join.py (LoopProgram, key u8, with the overflowing addition), as exported by the real checker:
   pub fn main(a: [(u8, u8); 3], b: [(u8, u8); 1]) -> (u64, u8, bool) {
       let mut acc = 1u64;
       let mut cnt = 0u8;
       let mut ok = true;
       for joined in join_iter(a, b) {
           let ((ka, x0), (kb, y0)) = joined;
           let s = x0 + y0;
           acc = acc * 31u64 + (x0 as u64) * 3u64 + (y0 as u64) * 5u64 + (s as u64);
           cnt = cnt + 1u8;
           ok = ok & (ka == kb);
       }
       (acc, cnt, ok)
   }
   
*)
Local Open Scope N_scope.
Definition gen_join_loop : program := (mkProgram [] [] [(mkFn 7 [(0, (TArr (TTup [(TInt false 8); (TInt false 8)]) 3)); (2, (TArr (TTup [(TInt false 8); (TInt false 8)]) 1))] (TTup [(TInt false 64); (TInt false 8); TBool]) [(St (SLetMut 1 (Ex (ENumU 1 64) (mkMeta 1 18 1 22) (TInt false 64))) (mkMeta 1 4 1 22)); (St (SLetMut 3 (Ex (ENumU 0 8) (mkMeta 2 18 2 21) (TInt false 8))) (mkMeta 2 4 2 21)); (St (SLetMut 8 (Ex ETrue (mkMeta 3 17 3 21) TBool)) (mkMeta 3 4 3 21)); (St (SJoinLoop (Pat (PId 4) (mkMeta 4 8 4 14) (TTup [(TTup [(TInt false 8); (TInt false 8)]); (TTup [(TInt false 8); (TInt false 8)])])) (TInt false 8) (Ex (EId 0) (mkMeta 4 28 4 29) (TArr (TTup [(TInt false 8); (TInt false 8)]) 3)) (Ex (EId 2) (mkMeta 4 31 4 32) (TArr (TTup [(TInt false 8); (TInt false 8)]) 1)) [(St (SLet (Pat (PTup [(Pat (PTup [(Pat (PId 5) (mkMeta 5 14 5 16) (TInt false 8)); (Pat (PId 10) (mkMeta 5 18 5 20) (TInt false 8))]) (mkMeta 5 13 5 21) (TTup [(TInt false 8); (TInt false 8)])); (Pat (PTup [(Pat (PId 6) (mkMeta 5 24 5 26) (TInt false 8)); (Pat (PId 11) (mkMeta 5 28 5 30) (TInt false 8))]) (mkMeta 5 23 5 31) (TTup [(TInt false 8); (TInt false 8)]))]) (mkMeta 5 12 5 32) (TTup [(TTup [(TInt false 8); (TInt false 8)]); (TTup [(TInt false 8); (TInt false 8)])])) (Ex (EId 4) (mkMeta 5 35 5 41) (TTup [(TTup [(TInt false 8); (TInt false 8)]); (TTup [(TInt false 8); (TInt false 8)])]))) (mkMeta 5 8 5 41)); (St (SLet (Pat (PId 9) (mkMeta 6 12 6 13) (TInt false 8)) (Ex (EOp OAdd (Ex (EId 10) (mkMeta 6 16 6 18) (TInt false 8)) (Ex (EId 11) (mkMeta 6 21 6 23) (TInt false 8))) (mkMeta 6 16 6 23) (TInt false 8))) (mkMeta 6 8 6 23)); (St (SAssign 1 [] (Ex (EOp OAdd (Ex (EOp OAdd (Ex (EOp OAdd (Ex (EOp OMul (Ex (EId 1) (mkMeta 7 14 7 17) (TInt false 64)) (Ex (ENumU 31 64) (mkMeta 7 20 7 25) (TInt false 64))) (mkMeta 7 14 7 25) (TInt false 64)) (Ex (EOp OMul (Ex (ECast (TInt false 64) (Ex (EId 10) (mkMeta 7 29 7 31) (TInt false 8))) (mkMeta 7 29 7 38) (TInt false 64)) (Ex (ENumU 3 64) (mkMeta 7 42 7 46) (TInt false 64))) (mkMeta 7 29 7 46) (TInt false 64))) (mkMeta 7 14 7 46) (TInt false 64)) (Ex (EOp OMul (Ex (ECast (TInt false 64) (Ex (EId 11) (mkMeta 7 50 7 52) (TInt false 8))) (mkMeta 7 50 7 59) (TInt false 64)) (Ex (ENumU 5 64) (mkMeta 7 63 7 67) (TInt false 64))) (mkMeta 7 50 7 67) (TInt false 64))) (mkMeta 7 14 7 67) (TInt false 64)) (Ex (ECast (TInt false 64) (Ex (EId 9) (mkMeta 7 71 7 72) (TInt false 8))) (mkMeta 7 71 7 79) (TInt false 64))) (mkMeta 7 14 7 79) (TInt false 64))) (mkMeta 7 8 7 79)); (St (SAssign 3 [] (Ex (EOp OAdd (Ex (EId 3) (mkMeta 8 14 8 17) (TInt false 8)) (Ex (ENumU 1 8) (mkMeta 8 20 8 23) (TInt false 8))) (mkMeta 8 14 8 23) (TInt false 8))) (mkMeta 8 8 8 23)); (St (SAssign 8 [] (Ex (EOp OBitAnd (Ex (EId 8) (mkMeta 9 13 9 15) TBool) (Ex (EOp OEq (Ex (EId 5) (mkMeta 9 19 9 21) (TInt false 8)) (Ex (EId 6) (mkMeta 9 25 9 27) (TInt false 8))) (mkMeta 9 19 9 27) TBool)) (mkMeta 9 13 9 27) TBool)) (mkMeta 9 8 9 27))]) (mkMeta 4 4 10 5)); (St (SExpr (Ex (ETupLit [(Ex (EId 1) (mkMeta 11 5 11 8) (TInt false 64)); (Ex (EId 3) (mkMeta 11 10 11 13) (TInt false 8)); (Ex (EId 8) (mkMeta 11 15 11 17) TBool)]) (mkMeta 11 4 11 18) (TTup [(TInt false 64); (TInt false 8); TBool]))) (mkMeta 11 4 11 18))])] [] 7).

Example gen_join_loop_covered : join_covered 400 gen_join_loop = true /\ sem_fuel_enough 2000 gen_join_loop = true.
Proof. vm_compute. split; reflexivity. Qed.
