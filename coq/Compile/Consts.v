(* Const parameters (property C12; order arguments for C06).

   Model of
     - check.rs:369-459   the checker's treatment of const definitions (types of literals and
                          references, collection of const_deps),
     - compile.rs:93-320  compile_with_constants: the two passes over const_deps, const_sizes,
                          the resolution of const definitions in source order, the wiring of the
                          parameters of main (a single array parameter = one party per element),
                          the binding of the consts as constant wires, error collection + sort,
     - compile.rs:322-380 the macro-generated resolve_const_expr_{usize,unsigned,signed},
   and of the documented meaning of const definitions ([const_spec]: min/max/+/- evaluated in
   wrapping arithmetic of the const's own type).

   The Rust code iterates three HashMaps; every such iteration takes its order as an explicit
   argument (a list of keys).  The record [cfg] selects between the code as found ([original])
   and the code with the proposed repairs applied ([repaired]); the tie runs [repaired] against
   the repaired tree, the [_refuted] examples of ConstsProofs.v run [original].

   Names are numbers (interned by the driver by rank of their byte strings).
   Definitions only; proofs are in ConstsProofs.v. *)
From GV Require Import Base.Util.

(* ------------------------------------------------------------------ types *)

Inductive uty := Usize | U8 | U16 | U32 | U64 | UX.      (* UX = UnsignedNumType::Unspecified *)
Inductive sty := I8 | I16 | I32 | I64 | IX.
Inductive cty := TBool | TU (u : uty) | TS (s : sty).

Definition uty_eqb (a b : uty) : bool :=
  match a, b with
  | Usize, Usize | U8, U8 | U16, U16 | U32, U32 | U64, U64 | UX, UX => true
  | _, _ => false
  end.
Definition sty_eqb (a b : sty) : bool :=
  match a, b with
  | I8, I8 | I16, I16 | I32, I32 | I64, I64 | IX, IX => true
  | _, _ => false
  end.
Definition cty_eqb (a b : cty) : bool :=
  match a, b with
  | TBool, TBool => true
  | TU x, TU y => uty_eqb x y
  | TS x, TS y => sty_eqb x y
  | _, _ => false
  end.

(* Type::size_in_bits_for_defs on the scalar types (USIZE_BITS = 32) *)
Definition ubits (u : uty) : N :=
  match u with Usize => 32 | U8 => 8 | U16 => 16 | U32 => 32 | U64 => 64 | UX => 32 end.
Definition sbits (s : sty) : N :=
  match s with I8 => 8 | I16 => 16 | I32 => 32 | I64 => 64 | IX => 32 end.
Definition cty_bits (t : cty) : N :=
  match t with TBool => 1 | TU u => ubits u | TS s => sbits s end.

(* ------------------------------------------------------------------ const expressions *)

Inductive cexpr :=
| ETrue | EFalse
| EUns (n : N) (t : uty)
| ESig (z : Z) (t : sty)
| EExt (party name : N)
| EId (name : N)
| EMax (args : list cexpr)
| EMin (args : list cexpr)
| EAdd (a b : cexpr)
| ESub (a b : cexpr).

Record cdef := { cd_name : N; cd_ty : cty; cd_val : cexpr }.

(* literals supplied for the external constants ([LOther]: any non-scalar literal) *)
Inductive lit := LTrue | LFalse | LUns (n : N) (t : uty) | LSig (z : Z) (t : sty) | LOther.

(* ------------------------------------------------------------------ configuration *)

Record cfg := {
  c_bind_source_order : bool;  (* fix 1: bind consts in source order, not HashMap order *)
  c_max_from_min : bool;       (* fix 2: max starts from <ty>::MIN, not from 0 *)
  c_signed_lit : bool;         (* fix 3: NumSigned literals are values, not a panic *)
  c_own_width : bool;          (* fix 4: + and - wrap in the const's own width *)
  c_early_typecheck : bool;    (* fix 5: mistyped constants reported in the first pass *)
  c_all_numeric : bool;        (* fix 6: every number const is registered for later const exprs *)
  c_reject_zero : bool;        (* fix 7: zero input bits is a CompilerError *)
  c_check_arith : bool;        (* fix 8: checker rejects max/min/+/- in non-number consts *)
  c_one_type : bool            (* fix 9: one external constant declared with two types is a type error *)
}.
Definition repaired : cfg := Build_cfg true true true true true true true true true.
Definition original : cfg := Build_cfg false false false false false false false false false.

(* ------------------------------------------------------------------ maps keyed by names *)

(* keys of const_sizes / consts_unsigned / consts_signed / env: a const name or the string
   "PARTY::NAME" (identifiers contain no ':', so the two kinds never collide) *)
Inductive key := KC (n : N) | KE (p n : N).
Definition key_eqb (a b : key) : bool :=
  match a, b with
  | KC x, KC y => N.eqb x y
  | KE p x, KE q y => N.eqb p q && N.eqb x y
  | _, _ => false
  end.

Definition kmap (V : Type) := list (key * V).
Fixpoint kget {V} (m : kmap V) (k : key) : option V :=
  match m with
  | [] => None
  | (k', v) :: r => if key_eqb k k' then Some v else kget r k
  end.
Definition kset {V} (m : kmap V) (k : key) (v : V) : kmap V := (k, v) :: m.

Fixpoint assocN {V} (m : list (N * V)) (k : N) : option V :=
  match m with
  | [] => None
  | (k', v) :: r => if N.eqb k k' then Some v else assocN r k
  end.

(* the constants supplied by the parties: HashMap<String, HashMap<String, Literal>> *)
Definition supplied := list (N * list (N * lit)).
Definition sup_get (s : supplied) (p n : N) : option lit :=
  match assocN s p with
  | None => None
  | Some m => assocN m n
  end.

(* const_deps, flattened: (party, name) -> (type of the const that uses it, meta).
   [meta] is the position of the ExternalValue expression in the source (a counter of the
   const expressions in source order); the key list has no duplicates. *)
Definition dkey := (N * N)%type.
Definition dkey_eqb (a b : dkey) : bool := N.eqb (fst a) (fst b) && N.eqb (snd a) (snd b).
Definition deps := list (dkey * (cty * N)).
Fixpoint dget (d : deps) (k : dkey) : option (cty * N) :=
  match d with
  | [] => None
  | (k', v) :: r => if dkey_eqb k k' then Some v else dget r k
  end.
(* HashMap::insert: replaces the value of an existing key *)
Fixpoint dset (d : deps) (k : dkey) (v : cty * N) : deps :=
  match d with
  | [] => [(k, v)]
  | (k', v') :: r => if dkey_eqb k k' then (k, v) :: r else (k', v') :: dset r k v
  end.

(* ------------------------------------------------------------------ the checker (check.rs) *)

Inductive terr := TUnexpectedType | TUnknownIdentifier | TExpectedNumberType.

Definition is_num (t : cty) : bool := match t with TBool => false | _ => true end.

Record chk := { k_errs : list terr; k_deps : deps; k_meta : N }.

(* check_const_expr: [decl] = the const definitions declared before this one *)
Fixpoint check_cexpr (c : cfg) (decl : list (N * cty)) (ty : cty) (e : cexpr) (s : chk) : chk :=
  let meta := k_meta s in
  let s := Build_chk (k_errs s) (k_deps s) (meta + 1) in
  let err x := Build_chk (k_errs s ++ [x]) (k_deps s) (k_meta s) in
  match e with
  | ETrue | EFalse => if cty_eqb ty TBool then s else err TUnexpectedType
  | EUns _ t => if cty_eqb ty (TU t) then s else err TUnexpectedType
  | ESig _ t => if cty_eqb ty (TS t) then s else err TUnexpectedType
  | EExt p n =>
      match dget (k_deps s) (p, n) with
      | Some (t', _) =>
          if c_one_type c && negb (cty_eqb t' ty) then err TUnexpectedType
          else Build_chk (k_errs s) (dset (k_deps s) (p, n) (ty, meta)) (k_meta s)
      | None => Build_chk (k_errs s) (dset (k_deps s) (p, n) (ty, meta)) (k_meta s)
      end
  | EId i =>
      match assocN decl i with
      | Some t => if cty_eqb ty t then s else err TUnexpectedType
      | None => err TUnknownIdentifier
      end
  | EMax args | EMin args =>
      if c_check_arith c && negb (is_num ty) then err TExpectedNumberType
      else fold_left (fun s a => check_cexpr c decl ty a s) args s
  | EAdd a b | ESub a b =>
      if c_check_arith c && negb (is_num ty) then err TExpectedNumberType
      else check_cexpr c decl ty b (check_cexpr c decl ty a s)
  end.

(* the loop over the const definitions in source order; errors are tagged with the index of
   the definition (the generator writes one definition per line) *)
Fixpoint check_defs_from (c : cfg) (i : N) (decl : list (N * cty)) (defs : list cdef)
         (errs : list (N * terr)) (d : deps) (meta : N) : list (N * terr) * deps :=
  match defs with
  | [] => (errs, d)
  | x :: r =>
      let s := check_cexpr c decl (cd_ty x) (cd_val x) (Build_chk [] d meta) in
      check_defs_from c (i + 1) ((cd_name x, cd_ty x) :: decl) r
                      (errs ++ map (fun e => (i, e)) (k_errs s)) (k_deps s) (k_meta s)
  end.
Definition check_defs (c : cfg) (defs : list cdef) : list (N * terr) * deps :=
  check_defs_from c 0 [] defs [] [] 0.

(* ------------------------------------------------------------------ machine integers *)

(* the three instantiations of make_resolve_const_function! (usize is 64 bits on the host) *)
Inductive kind := KUsize | KU64 | KI64.

Definition smod (bits : N) (z : Z) : Z :=
  ((z + 2 ^ (Z.of_N bits - 1)) mod 2 ^ Z.of_N bits - 2 ^ (Z.of_N bits - 1))%Z.
Definition umod (bits : N) (z : Z) : Z := (z mod 2 ^ Z.of_N bits)%Z.

(* wrapping_add / wrapping_sub / `as` casts at the host width *)
Definition wrap64 (k : kind) (z : Z) : Z :=
  match k with KI64 => smod 64 z | _ => umod 64 z end.
Definition kmin (k : kind) : Z := match k with KI64 => (- 2 ^ 63)%Z | _ => 0%Z end.
Definition kmax (k : kind) : Z := match k with KI64 => (2 ^ 63 - 1)%Z | _ => (2 ^ 64 - 1)%Z end.

(* the closure `wrap` of fix 4: (n << (BITS - bits)) >> (BITS - bits).
   BITS - bits underflows for bits > 64 and a shift by 64 overflows: both panic. *)
Definition truncw (k : kind) (bits : N) (z : Z) : res Z :=
  if (64 <? bits) || (bits =? 0) then Crash
  else Ok (match k with KI64 => smod bits z | _ => umod bits z end).

Definition arith (c : cfg) (k : kind) (bits : N) (z : Z) : res Z :=
  if c_own_width c then truncw k bits (wrap64 k z) else Ok (wrap64 k z).

Definition max_init (c : cfg) (k : kind) : Z := if c_max_from_min c then kmin k else 0%Z.

(* resolve_const_expr_<k>(expr, consts, bits) *)
Fixpoint resolve (c : cfg) (k : kind) (bits : N) (m : kmap Z) (e : cexpr) : res Z :=
  match e with
  | EUns n _ => Ok (wrap64 k (Z.of_N n))
  | ESig z _ => if c_signed_lit c then Ok (wrap64 k z) else Crash
  | EExt p n => of_option (kget m (KE p n))
  | EMax args =>
      fold_left (fun acc a => let* r := acc in let* v := resolve c k bits m a in Ok (Z.max r v))
                args (Ok (max_init c k))
  | EMin args =>
      fold_left (fun acc a => let* r := acc in let* v := resolve c k bits m a in Ok (Z.min r v))
                args (Ok (kmax k))
  | EAdd a b =>
      let* x := resolve c k bits m a in let* y := resolve c k bits m b in arith c k bits (x + y)
  | ESub a b =>
      let* x := resolve c k bits m a in let* y := resolve c k bits m b in arith c k bits (x - y)
  | EId i => of_option (kget m (KC i))
  | ETrue | EFalse => Crash
  end.

Definition resolve_usize c := resolve c KUsize.
Definition resolve_unsigned c := resolve c KU64.
Definition resolve_signed c := resolve c KI64.

(* ------------------------------------------------------------------ literals and bits *)

Definition is_of_type (l : lit) (t : cty) : bool :=
  match l, t with
  | LTrue, TBool | LFalse, TBool => true
  | LUns _ a, TU b => uty_eqb a b
  | LSig _ a, TS b => sty_eqb a b
  | _, _ => false
  end.

(* unsigned_to_bits / signed_to_bits: bit (size-1-i) of n at position i (MSB first) *)
Definition to_bits (z : Z) (size : N) : list bool :=
  map (fun i => Z.testbit z (Z.of_nat i)) (rev (seq 0 (N.to_nat size))).

(* Literal::as_bits on scalar literals *)
Definition lit_bits (l : lit) : list bool :=
  match l with
  | LTrue => [true]
  | LFalse => [false]
  | LUns n t => to_bits (Z.of_N n) (ubits t)
  | LSig z t => to_bits z (sbits t)
  | LOther => []
  end.

(* reading a constant back (used by the driver to print values) *)
Definition bits_unsigned (l : list bool) : Z :=
  fold_left (fun (acc : Z) (b : bool) => (2 * acc + (if b then 1 else 0))%Z) l 0%Z.
Definition bits_signed (l : list bool) : Z :=
  match l with
  | [] => 0%Z
  | s :: r => (bits_unsigned r - (if s then 2 ^ Z.of_nat (length r) else 0))%Z
  end.

(* ------------------------------------------------------------------ errors and their order *)

Inductive cerr :=
| EMissing (p n meta : N)          (* CompilerError::MissingConstant(party, name, meta) *)
| EBadType (l : lit) (t : cty)     (* CompilerError::InvalidLiteralType(literal, type) *)
| EZeroInputs.                     (* CompilerError::ZeroSizedInputs (fix 7) *)

Definition uty_rank (u : uty) : N :=
  match u with Usize => 0 | U8 => 1 | U16 => 2 | U32 => 3 | U64 => 4 | UX => 5 end.
Definition sty_rank (s : sty) : N :=
  match s with I8 => 0 | I16 => 1 | I32 => 2 | I64 => 3 | IX => 4 end.

(* derived Ord of Literal, restricted to the literals of the model *)
Definition lit_leb (a b : lit) : bool :=
  match a, b with
  | LTrue, _ => true
  | LFalse, LTrue => false
  | LFalse, _ => true
  | LUns _ _, (LTrue | LFalse) => false
  | LUns x t, LUns y u => (x <? y) || ((x =? y) && (uty_rank t <=? uty_rank u))
  | LUns _ _, _ => true
  | LSig _ _, (LTrue | LFalse | LUns _ _) => false
  | LSig x t, LSig y u => (x <? y)%Z || ((x =? y)%Z && (sty_rank t <=? sty_rank u))
  | LSig _ _, LOther => true
  | LOther, LOther => true
  | LOther, _ => false
  end.

(* impl Ord for CompilerError: InvalidLiteralType (by literal) < MissingConstant (by meta)
   < ZeroSizedInputs *)
Definition cerr_leb (a b : cerr) : bool :=
  match a, b with
  | EBadType l _, EBadType l' _ => lit_leb l l'
  | EBadType _ _, _ => true
  | EMissing _ _ _, EBadType _ _ => false
  | EMissing _ _ m, EMissing _ _ m' => m <=? m'
  | EMissing _ _ _, EZeroInputs => true
  | EZeroInputs, EZeroInputs => true
  | EZeroInputs, _ => false
  end.

(* Vec::sort is stable: insertion before the first element that is not smaller *)
Fixpoint insert_err (x : cerr) (l : list cerr) : list cerr :=
  match l with
  | [] => [x]
  | y :: r => if cerr_leb x y then x :: y :: r else y :: insert_err x r
  end.
Definition sort_errs (l : list cerr) : list cerr := fold_right insert_err [] l.

(* ------------------------------------------------------------------ compile_with_constants *)

Record st1 := { s_errs : list cerr; s_cu : kmap Z; s_cs : kmap Z; s_sizes : kmap Z }.

(* first loop over const_deps (compile.rs:105-146) *)
Definition pass1_step (c : cfg) (d : deps) (sup : supplied) (s : res st1) (k : dkey) : res st1 :=
  let* s := s in
  let* tm := of_option (dget d k) in
  let '(ty, meta) := tm in
  let '(p, n) := k in
  match sup_get sup p n with
  | None => Ok (Build_st1 (s_errs s ++ [EMissing p n meta]) (s_cu s) (s_cs s) (s_sizes s))
  | Some l =>
      let s :=
        match l with
        | LUns v _ => Build_st1 (s_errs s) (kset (s_cu s) (KE p n) (Z.of_N v)) (s_cs s) (s_sizes s)
        | LSig z _ => Build_st1 (s_errs s) (s_cu s) (kset (s_cs s) (KE p n) z) (s_sizes s)
        | _ => s
        end in
      if is_of_type l ty then
        match l with
        | LUns v Usize =>
            Ok (Build_st1 (s_errs s) (s_cu s) (s_cs s) (kset (s_sizes s) (KE p n) (Z.of_N v)))
        | _ => Ok s
        end
      else if c_early_typecheck c then
        Ok (Build_st1 (s_errs s ++ [EBadType l ty]) (s_cu s) (s_cs s) (s_sizes s))
      else Ok s
  end.
Definition pass1 (c : cfg) (o : list dkey) (d : deps) (sup : supplied) : res st1 :=
  fold_left (pass1_step c d sup) o (Ok (Build_st1 [] [] [] [])).

(* loop over the const definitions in source order (compile.rs:151-177) *)
Definition sorted_step (c : cfg) (s : res st1) (d : cdef) : res st1 :=
  let* s := s in
  let name := KC (cd_name d) in
  match cd_ty d with
  | TU Usize =>
      let* sz :=
        match cd_val d with
        | EExt p n => let* v := of_option (kget (s_sizes s) (KE p n)) in Ok (kset (s_sizes s) name v)
        | _ => Ok (s_sizes s)
        end in
      let* n := resolve_unsigned c 32 (s_cu s) (cd_val d) in
      Ok (Build_st1 (s_errs s) (kset (s_cu s) name n) (s_cs s) (kset sz name n))
  | TU u =>
      if c_all_numeric c then
        let* n := resolve_unsigned c (ubits u) (s_cu s) (cd_val d) in
        Ok (Build_st1 (s_errs s) (kset (s_cu s) name n) (s_cs s) (s_sizes s))
      else Ok s
  | TS t =>
      if c_all_numeric c then
        let* n := resolve_signed c (sbits t) (s_cs s) (cd_val d) in
        Ok (Build_st1 (s_errs s) (s_cu s) (kset (s_cs s) name n) (s_sizes s))
      else Ok s
  | TBool => Ok s
  end.
Definition sorted_loop (c : cfg) (defs : list cdef) (s : st1) : res st1 :=
  fold_left (sorted_step c) defs (Ok s).

(* second loop over const_deps (compile.rs:179-206): binds the supplied literals *)
Definition env := kmap (list bool).
Definition pass2_step (d : deps) (sup : supplied) (s : res (list cerr * env)) (k : dkey)
  : res (list cerr * env) :=
  let* s := s in
  let* tm := of_option (dget d k) in
  let '(ty, _) := tm in
  let '(p, n) := k in
  match sup_get sup p n with
  | None => Ok s
  | Some l =>
      if is_of_type l ty then Ok (fst s, kset (snd s) (KE p n) (lit_bits l))
      else Ok (fst s ++ [EBadType l ty], snd s)
  end.
Definition pass2 (o : list dkey) (d : deps) (sup : supplied) : res (list cerr * env) :=
  fold_left (pass2_step d sup) o (Ok ([], [])).

(* parameter types of main (scalars, arrays of literal / const / const-expression size, tuples) *)
Inductive pty :=
| PBool | PU (u : uty) | PS (s : sty)
| PArr (e : pty) (n : N)
| PArrC (e : pty) (c : N)
| PArrE (e : pty) (x : cexpr)
| PTup (l : list pty).

(* Type::size_in_bits_for_defs (usize products are assumed not to overflow) *)
Fixpoint psize (c : cfg) (sizes : kmap Z) (t : pty) : res Z :=
  match t with
  | PBool => Ok 1%Z
  | PU u => Ok (Z.of_N (ubits u))
  | PS s => Ok (Z.of_N (sbits s))
  | PArr e n => let* s := psize c sizes e in Ok (s * Z.of_N n)%Z
  | PArrC e k => let* s := psize c sizes e in let* n := of_option (kget sizes (KC k)) in Ok (s * n)%Z
  | PArrE e x => let* s := psize c sizes e in let* n := resolve_usize c 32 sizes x in Ok (s * n)%Z
  | PTup l => fold_left (fun acc t => let* a := acc in let* s := psize c sizes t in Ok (a + s)%Z) l (Ok 0%Z)
  end.

(* input_gates in run-length form: (number of parties, bits of each).  A single parameter of
   type Array / ArrayConst / ArrayConstExpr becomes one party per element (the element size is only computed
   inside the loop, i.e. not at all for 0 elements). *)
Definition wire_params (c : cfg) (sizes : kmap Z) (params : list pty) : res (list (Z * Z)) :=
  let split e (n : Z) :=
    if (n =? 0)%Z then Ok [] else let* s := psize c sizes e in Ok [(n, s)] in
  match params with
  | [PArr e n] => split e (Z.of_N n)
  | [PArrC e k] => let* n := of_option (kget sizes (KC k)) in split e n
  | [PArrE e x] => let* n := resolve_usize c 32 sizes x in split e n     (* 99088d3 *)
  | _ => mapM_res (fun t => let* s := psize c sizes t in Ok (1%Z, s)) params
  end.
Definition total_bits (ig : list (Z * Z)) : Z :=
  fold_left (fun acc x => (acc + fst x * snd x)%Z) ig 0%Z.

(* binding of the consts as constant wires (compile.rs:253-338) *)
Definition bind_step (c : cfg) (cu cs : kmap Z) (e : res env) (d : cdef) : res env :=
  let* e := e in
  let name := KC (cd_name d) in
  match cd_val d with
  | ETrue => Ok (kset e name [true])
  | EFalse => Ok (kset e name [false])
  | EUns n t => Ok (kset e name (to_bits (Z.of_N n) (ubits t)))
  | ESig z t => Ok (kset e name (to_bits z (sbits t)))
  | EExt p n => let* b := of_option (kget e (KE p n)) in Ok (kset e name b)
  | EId i => let* b := of_option (kget e (KC i)) in Ok (kset e name b)
  | _ =>
      match cd_ty d with
      | TU u =>
          let* r := resolve_unsigned c (ubits u) cu (cd_val d) in
          Ok (kset e name (to_bits r (ubits u)))
      | t =>
          let* r := resolve_signed c (cty_bits t) cs (cd_val d) in
          Ok (kset e name (to_bits r (cty_bits t)))
      end
  end.

Fixpoint find_def (defs : list cdef) (n : N) : option cdef :=
  match defs with
  | [] => None
  | d :: r => if N.eqb (cd_name d) n then Some d else find_def r n
  end.

(* [ob]: the iteration order of the HashMap const_defs (ignored once fix 1 is applied) *)
Definition bind_consts (c : cfg) (ob : list N) (defs : list cdef) (cu cs : kmap Z) (e : env)
  : res env :=
  if c_bind_source_order c then fold_left (bind_step c cu cs) defs (Ok e)
  else
    fold_left (fun acc n => let* d := of_option (find_def defs n) in bind_step c cu cs acc d)
              ob (Ok e).

(* what the outside can observe of a successful compilation *)
Record cout := {
  co_sizes : list (key * Z);            (* const_sizes (listed over the candidate keys) *)
  co_ig : list (Z * Z);                 (* input_gates, run-length *)
  co_vals : list (N * option (list bool)) (* the constant wires each const is bound to *)
}.

Definition list_sizes (d : deps) (defs : list cdef) (sizes : kmap Z) : list (key * Z) :=
  let keys := map (fun x => KE (fst (fst x)) (snd (fst x))) d ++ map (fun x => KC (cd_name x)) defs in
  fold_right (fun k acc => match kget sizes k with Some v => (k, v) :: acc | None => acc end) [] keys.

(* compile_with_constants up to the compilation of the body of main.
   o1, o2: iteration orders of const_deps in the two passes; ob: of const_defs. *)
Definition compile_consts (c : cfg) (o1 o2 : list dkey) (ob : list N)
           (defs : list cdef) (d : deps) (params : list pty) (sup : supplied)
  : res (list cerr + cout) :=
  let* s1 := pass1 c o1 d sup in
  if negb (lenN (s_errs s1) =? 0) then Ok (inl (sort_errs (s_errs s1))) else
  let* s2 := sorted_loop c defs s1 in
  let* p2 := pass2 o2 d sup in
  if negb (lenN (fst p2) =? 0) then Ok (inl (sort_errs (fst p2))) else
  let* ig := wire_params c (s_sizes s2) params in
  if c_reject_zero c && (total_bits ig =? 0)%Z then Ok (inl [EZeroInputs]) else
  let* e := bind_consts c ob defs (s_cu s2) (s_cs s2) (snd p2) in
  Ok (inr (Build_cout (list_sizes d defs (s_sizes s2)) ig
                      (map (fun x => (cd_name x, kget e (KC (cd_name x)))) defs))).

(* ------------------------------------------------------------------ the specification *)

(* wrapping arithmetic of the const's own type *)
Definition wrap_ty (t : cty) (z : Z) : Z :=
  match t with
  | TBool => z
  | TU u => umod (ubits u) z
  | TS s => smod (sbits s) z
  end.

Definition in_range (t : cty) (z : Z) : bool :=
  match t with
  | TBool => ((0 <=? z) && (z <=? 1))%Z
  | TU u => ((0 <=? z) && (z <? 2 ^ Z.of_N (ubits u)))%Z
  | TS s => ((- 2 ^ (Z.of_N (sbits s) - 1) <=? z) && (z <? 2 ^ (Z.of_N (sbits s) - 1)))%Z
  end.

Definition lit_val (l : lit) : option Z :=
  match l with
  | LTrue => Some 1%Z
  | LFalse => Some 0%Z
  | LUns n _ => Some (Z.of_N n)
  | LSig z _ => Some z
  | LOther => None
  end.

Definition opt2 (f : Z -> Z -> Z) (a b : option Z) : option Z :=
  match a, b with Some x, Some y => Some (f x y) | _, _ => None end.

(* the documented meaning of a const expression of type t *)
Fixpoint spec_expr (t : cty) (sup : supplied) (cv : list (N * Z)) (e : cexpr) : option Z :=
  match e with
  | ETrue => Some 1%Z
  | EFalse => Some 0%Z
  | EUns n _ => Some (Z.of_N n)
  | ESig z _ => Some z
  | EExt p n => match sup_get sup p n with Some l => lit_val l | None => None end
  | EId i => assocN cv i
  | EMax [] | EMin [] => None
  | EMax (a :: r) =>
      fold_left (fun acc x => opt2 Z.max acc (spec_expr t sup cv x)) r (spec_expr t sup cv a)
  | EMin (a :: r) =>
      fold_left (fun acc x => opt2 Z.min acc (spec_expr t sup cv x)) r (spec_expr t sup cv a)
  | EAdd a b => opt2 (fun x y => wrap_ty t (x + y)) (spec_expr t sup cv a) (spec_expr t sup cv b)
  | ESub a b => opt2 (fun x y => wrap_ty t (x - y)) (spec_expr t sup cv a) (spec_expr t sup cv b)
  end.

(* values of all consts, in source order *)
Fixpoint const_spec_from (sup : supplied) (cv : list (N * Z)) (defs : list cdef)
  : option (list (N * Z)) :=
  match defs with
  | [] => Some []
  | d :: r =>
      match spec_expr (cd_ty d) sup cv (cd_val d) with
      | None => None
      | Some v =>
          match const_spec_from sup ((cd_name d, v) :: cv) r with
          | None => None
          | Some vs => Some ((cd_name d, v) :: vs)
          end
      end
  end.
Definition const_spec (sup : supplied) (defs : list cdef) : option (list (N * Z)) :=
  const_spec_from sup [] defs.

(* ------------------------------------------------------------------ well-formedness *)

Definition uty_ok (u : uty) : bool := negb (uty_eqb u UX).
Definition sty_ok (s : sty) : bool := negb (sty_eqb s IX).
Definition cty_ok (t : cty) : bool :=
  match t with TBool => true | TU u => uty_ok u | TS s => sty_ok s end.

(* the checker's rules for a const expression of a const of type t, given the consts declared
   before it (so: no forward or cyclic references), plus: arithmetic only in number consts,
   max/min of at least one argument, literals within the range of their type *)
Fixpoint wt_cexpr (dp : deps) (decl : list (N * cty)) (t : cty) (e : cexpr) : bool :=
  match e with
  | ETrue | EFalse => cty_eqb t TBool
  | EUns n u => cty_eqb t (TU u) && in_range t (Z.of_N n)
  | ESig z s => cty_eqb t (TS s) && in_range t z
  | EExt p n => match dget dp (p, n) with Some (t', _) => cty_eqb t t' | None => false end
  | EId i => match assocN decl i with Some t' => cty_eqb t t' | None => false end
  | EMax args | EMin args =>
      is_num t && negb (lenN args =? 0) && forallb (wt_cexpr dp decl t) args
  | EAdd a b | ESub a b => is_num t && wt_cexpr dp decl t a && wt_cexpr dp decl t b
  end.

(* [dp] = the const_deps the checker collected: every external constant is used at the type
   recorded for it (i.e. at one type only); names are declared once *)
Fixpoint wt_defs_from (dp : deps) (decl : list (N * cty)) (defs : list cdef) : bool :=
  match defs with
  | [] => true
  | d :: r =>
      cty_ok (cd_ty d) && wt_cexpr dp decl (cd_ty d) (cd_val d)
      && match assocN decl (cd_name d) with None => true | Some _ => false end
      && wt_defs_from dp ((cd_name d, cd_ty d) :: decl) r
  end.
Definition wt_defs (dp : deps) (defs : list cdef) : bool := wt_defs_from dp [] defs.

(* a supplied literal is acceptable for a declared constant of type t *)
Definition lit_ok (l : lit) (t : cty) : bool :=
  is_of_type l t && match lit_val l with Some v => in_range t v | None => false end.

(* every declared external constant is supplied with an acceptable literal *)
Definition sup_ok (d : deps) (sup : supplied) : bool :=
  forallb (fun x => match sup_get sup (fst (fst x)) (snd (fst x)) with
                    | Some l => lit_ok l (fst (snd x))
                    | None => false
                    end) d.

(* the declared external constants that are missing / of the wrong type *)
Definition dep_missing (sup : supplied) (x : dkey * (cty * N)) : bool :=
  match sup_get sup (fst (fst x)) (snd (fst x)) with None => true | Some _ => false end.
Definition dep_mistyped (sup : supplied) (x : dkey * (cty * N)) : bool :=
  match sup_get sup (fst (fst x)) (snd (fst x)) with
  | Some l => negb (is_of_type l (fst (snd x)))
  | None => false
  end.

(* an iteration order of a HashMap: the keys, each exactly once, in any order *)
Fixpoint count_dkey (k : dkey) (l : list dkey) : nat :=
  match l with [] => O | x :: r => ((if dkey_eqb k x then 1 else 0) + count_dkey k r)%nat end.
Definition is_order (o : list dkey) (d : deps) : bool :=
  forallb (fun k => match dget d k with Some _ => true | None => false end) o
  && forallb (fun x => Nat.eqb (count_dkey (fst x) o) 1) d.
