(* Phase 3b: `match` on a scalar scrutinee with scalar patterns (identifier, true / false,
   number literals, inclusive ranges), arm bodies in the fragment with effects.

   Bit level: ALL arms are run, each from the entry environment and the entry panic state; the
   results are merged by "this arm is the first match" ([lower_arms]).  Sem.v: the first arm
   whose pattern matches.  Part 1 (Section Match2) is for an arbitrary value relation VR, with
   a per-pattern hypothesis [PatOK] (the match bit is the verdict of [Sem.pmatch], the
   bindings are related) that Part 2 discharges for the scalar patterns. *)
From Coq Require Import Lia ZArith.
From GV Require Import Base.Util Base.Bits Base.BitsProofs Lang.Ast Lang.Wt Lang.WtShape Gadgets.Gadgets
  Gadgets.GadgetSpec Gadgets.Arith Panic.PanicRec Panic.PanicSem Compile.Lower
  Compile.TSem Compile.TSemFacts Compile.TSemArith1 Compile.TSemArith2 Compile.TSemControl
  Compile.TSemSemExpr Compile.TSemSticky Compile.TSemSemStmt Compile.TSemSemCall.
From GV Require Lang.Sem.
Local Open Scope N_scope.

Lemma map2_mux_inv s : forall (xs ys : list bool) (o : pobs) r o',
  map2_M (fun x0 x1 => m_mux tops s x0 x1) xs ys o = Ok (r, o') ->
  length xs = length ys /\ r = (if s then xs else ys) /\ o' = o.
Proof.
  induction xs as [|x xs IH]; intros [|y ys] o r o' H; cbn [map2_M] in H; try discriminate H.
  - apply ret_inv in H. destruct H as [-> ->]. now destruct s.
  - minva H as w o1 H1. cbn in H1. injection H1 as <- <-. minva H as ws o2 H2.
    destruct (IH ys _ _ _ H2) as (Hl & -> & ->). apply ret_inv in H. destruct H as [-> ->].
    cbn [length]. split; [congruence|]. now destruct s.
Qed.

Section Match2.
  Variable P : program.
  Variable VR : ty -> Sem.value -> list bool -> Prop.
  Hypothesis VR_bool : forall v w, VR TBool v w -> exists b, v = Sem.VBool b /\ w = [b].
  Hypothesis VR_unit : VR unit_ty Sem.unit_val [].
  Hypothesis VR_szn : forall t v w, VR t v w -> length w = szn P t.

  Notation relP := (relP VR).
  Notation AgE2 := (AgE2 P VR).

  (* the loop of [Sem.eval] over the arms *)
  Fixpoint sem_arms (f : nat) (v : Sem.value) (en : Sem.env) (arms : list (pattern * expr))
    : Sem.outcome (Sem.value * Sem.env) :=
    match arms with
    | [] => Sem.Stuck 41
    | (p, body) :: r =>
        match Sem.pmatch P p v with
        | Some bs =>
            Sem.obind (Sem.eval f P (Sem.bind_all (Sem.push_scope en) bs) body)
                      (fun '(res, en1) => Sem.Done (res, Sem.pop_scope en1))
        | None => sem_arms f v en r
        end
    end.

  Lemma sem_eval_match f en scrut arms m t :
    Sem.eval (S f) P en (Ex (EMatch scrut arms) m t) =
    Sem.obind (Sem.eval f P en scrut) (fun '(v, en1) => sem_arms f v en1 arms).
  Proof.
    cbn [Sem.eval]. destruct (Sem.eval f P en scrut) as [[v en1]|r1 m1|c1|]; cbn [Sem.obind]; try reflexivity.
    induction arms as [|[p body] r IH]; [reflexivity|]. cbn [sem_arms].
    destruct (Sem.pmatch P p v); [reflexivity|exact IH].
  Qed.

  (* a pattern: the observation is not touched, only the innermost scope may change *)
  Definition PatK (p : pattern) : Prop :=
    forall fT sw E (o : pobs) im E1 o1,
    lower_pattern tops fT P p sw E o = Ok ((im, E1), o1) -> o1 = o /\ SKP E E1.

  (* ... its match bit is the verdict of [Sem.pmatch], and its bindings are related;
     [ts]: the type of the scrutinee, [tbs]: the typed bindings of the pattern *)
  Definition PatOK (g : tenv) (ts : ty) (p : pattern) (tbs : list (N * ty)) : Prop :=
    forall ph en E0 v sw fT (o : pobs) im E1 o1,
    relP ph en E0 g -> VR ts v sw ->
    lower_pattern tops fT P p sw (env_push E0) o = Ok ((im, E1), o1) ->
    match Sem.pmatch P p v with
    | Some bs => im = true /\
                 relP (false :: ph) (Sem.bind_all (Sem.push_scope en) bs) E1 (tbind_all ([] :: g) tbs false)
    | None => im = false
    end.

  (* one arm of [lower_arms] *)
  Lemma arms_step_inv re rp bits sw E0 P0 pat body r hp mret mpanic menv (o : pobs) res o' :
    lower_arms tops re rp bits sw E0 P0 ((pat, body) :: r) hp mret mpanic menv o = Ok (res, o') ->
    exists im E1 o1 rw E2 o2 E3 menv1 oM,
      rp pat sw (env_push E0) P0 = Ok ((im, E1), o1) /\ re body E1 o1 = Ok ((rw, E2), o2) /\
      env_pop E2 = Ok E3 /\ mux_envs tops (negb hp && im) E3 menv o2 = Ok (menv1, oM) /\
      length (firstn bits rw) = length mret /\
      lower_arms tops re rp bits sw E0 P0 r (hp || im)
        (if negb hp && im then firstn bits rw else mret)
        (if negb hp && im then o2 else mpanic) menv1 oM = Ok (res, o').
  Proof.
    intro H. cbn [lower_arms] in H. mprim H.
    minva H as [im E1] o1 Hp. minva H as [rw E2] o2 Hb. mprim H. mprim H.
    minva H as E3 o3 Hpop. apply lift_res_inv in Hpop. destruct Hpop as [Hpop ->]. mprim H. mprim H.
    minva H as menv1 oM Hmux.
    minva H as mret1 o4 Hret.
    destruct (length rw <? bits)%nat; [discriminate Hret|].
    apply map2_mux_inv in Hret. destruct Hret as (Hl & -> & ->). mprim H.
    exists im, E1, o1, rw, E2, o2, E3, menv1, oM. repeat split; assumption.
  Qed.

  (* the keys facts of an arm, for the runs with fuel [fT] *)
  Definition ArmK (fT : nat) (arm : pattern * expr) : Prop :=
    PatK (fst arm) /\
    forall E (o : pobs) w E' o', lower_expr tops fT P (snd arm) E o = Ok ((w, E'), o') -> keys E' = keys E.

  Lemma arm_keys fT pat body : ArmK fT (pat, body) ->
    forall sw E0 (o : pobs) im E1 o1 rw E2 o2 E3,
    lower_pattern tops fT P pat sw (env_push E0) o = Ok ((im, E1), o1) ->
    lower_expr tops fT P body E1 o1 = Ok ((rw, E2), o2) -> env_pop E2 = Ok E3 ->
    o1 = o /\ keys E3 = keys E0.
  Proof.
    intros [HK HB] sw E0 o im E1 o1 rw E2 o2 E3 Hp Hb Hpop. cbn [fst snd] in *.
    destruct (HK _ _ _ _ _ _ _ Hp) as [-> [Hk1 _]]. split; [reflexivity|].
    pose proof (HB _ _ _ _ _ Hb) as Hk2.
    destruct E2 as [|s2 E2']; [discriminate Hpop|]. cbn [env_pop] in Hpop. injection Hpop as <-.
    assert (tl (keys (s2 :: E2')) = tl (keys E1)) as Ht by (now rewrite Hk2). rewrite Hk1 in Ht. exact Ht.
  Qed.

  (* after the first match the accumulators are not changed any more *)
  Lemma arms_stable fT bits sw E0 P0 : forall arms, Forall (ArmK fT) arms ->
    forall mret mpanic menv (o : pobs) mret' mp' menv' hp' o',
    wf_env menv -> keys menv = keys E0 ->
    lower_arms tops (lower_expr tops fT P) (lower_pattern tops fT P) bits sw E0 P0 arms true mret mpanic menv o
      = Ok ((mret', mp', menv', hp'), o') ->
    mret' = mret /\ mp' = mpanic /\ menv' = menv.
  Proof.
    induction 1 as [|[pat body] r HA _ IH]; intros mret mpanic menv o mret' mp' menv' hp' o' Hwf Hk H.
    - cbn [lower_arms] in H. apply ret_inv in H. destruct H as [Heq _]. now injection Heq as -> -> ->.
    - apply arms_step_inv in H.
      destruct H as (im & E1 & o1 & rw & E2 & o2 & E3 & menv1 & oM & Hp & Hb & Hpop & Hmux & _ & Hrest).
      destruct (arm_keys _ _ _ HA _ _ _ _ _ _ _ _ _ _ Hp Hb Hpop) as [_ Hk3].
      cbn [negb andb] in *. apply mux_envs_inv in Hmux; [|congruence|exact Hwf]. destruct Hmux as [-> _].
      exact (IH _ _ _ _ _ _ _ _ _ Hwf Hk Hrest).
  Qed.

  (* what the arms need *)
  Definition ArmOK (f : nat) (g : tenv) (ts t : ty) (arm : pattern * expr) : Prop :=
    (forall fT, ArmK fT arm) /\ e_ty (snd arm) = t /\
    exists tbs, PatOK g ts (fst arm) tbs /\ AgE2 f (tbind_all ([] :: g) tbs false) (snd arm).

  Lemma arms_node f g ts t : forall arms, Forall (ArmOK f g ts t) arms ->
    forall ph en E0 v sw fT mret mpanic menv (o : pobs) mret' mp' menv' hp' o',
    relP ph en E0 g -> VR ts v sw -> wf_env menv -> keys menv = keys E0 ->
    lower_arms tops (lower_expr tops fT P) (lower_pattern tops fT P) (szn P t) sw E0 None arms false
      mret mpanic menv o = Ok ((mret', mp', menv', hp'), o') ->
    match sem_arms f v en arms with
    | Sem.Done (res, en') => mp' = None /\ VR t res mret' /\ relP ph en' menv' g
    | Sem.Panicked r m => mp' = Some (pcode r m)
    | _ => True
    end.
  Proof.
    induction 1 as [|[pat body] r (HA & Et & tbs & HP & HB) Hr IH];
      intros ph en E0 v sw fT mret mpanic menv o mret' mp' menv' hp' o' Hrel HV Hwf Hk H.
    - exact I.
    - cbn [fst snd] in *. apply arms_step_inv in H.
      destruct H as (im & E1 & o1 & rw & E2 & o2 & E3 & menv1 & oM & Hp & Hb & Hpop & Hmux & _ & Hrest).
      destruct (arm_keys _ _ _ (HA fT) _ _ _ _ _ _ _ _ _ _ Hp Hb Hpop) as [-> Hk3].
      pose proof (HP ph en E0 v sw fT None im E1 None Hrel HV Hp) as HPm. cbn [sem_arms]. revert HPm.
      destruct (Sem.pmatch P pat v) as [bs|]; intro HPm.
      + destruct HPm as [-> Hrel1]. cbn [negb andb orb] in *.
        assert (HKr : Forall (ArmK fT) r) by (eapply Forall_impl; [|exact Hr]; intros a Ha; exact (proj1 Ha fT)).
        pose proof (HB (false :: ph) _ E1 fT _ _ _ Hrel1 Hb) as IH1. revert IH1.
        destruct (Sem.eval f P (Sem.bind_all (Sem.push_scope en) bs) body) as [[res en1]|r1 m1|c1|];
          intro IH1; cbn [Sem.obind]; try exact I.
        * destruct IH1 as (-> & HVr & Hrel2). rewrite Et in HVr.
          pose proof (rel2_pop VR _ _ _ _ Hrel2 Hpop) as Hrel3.
          destruct (tbind_all_cons [] g tbs false) as [gs' Hg]. rewrite Hg in Hrel3. cbn [tl] in Hrel3.
          apply mux_envs_inv in Hmux; [|congruence|exact Hwf]. destruct Hmux as [-> _].
          destruct (arms_stable fT _ sw E0 None r HKr _ _ _ _ _ _ _ _ _ (rel2_wf VR _ _ _ Hrel3) Hk3 Hrest)
            as (-> & -> & ->).
          rewrite firstn_all2 by (rewrite (VR_szn _ _ _ HVr); lia). auto.
        * subst o2. apply mux_envs_inv in Hmux; [|congruence|exact Hwf]. destruct Hmux as [-> _].
          assert (wf_env E3) as Hwf3.
          { apply (wf_env_keys E0); [exact Hk3|]. exact (rel2_wf VR _ _ _ Hrel). }
          destruct (arms_stable fT _ sw E0 None r HKr _ _ _ _ _ _ _ _ _ Hwf3 Hk3 Hrest) as (_ & -> & _).
          reflexivity.
      + subst im. cbn [negb andb orb] in *.
        apply mux_envs_inv in Hmux; [|congruence|exact Hwf]. destruct Hmux as [-> _].
        exact (IH ph en E0 v sw fT _ _ _ _ _ _ _ _ _ Hrel HV Hwf Hk Hrest).
  Qed.

  Lemma match_node2 f g scrut arms m t ts :
    AgE2 f g scrut -> e_ty scrut = ts -> Forall (ArmOK f g ts t) arms ->
    AgE2 (S f) g (Ex (EMatch scrut arms) m t).
  Proof.
    intros IHs Ets Harms ph en E fT w E' o' Hrel Hrun.
    destruct fT as [|fT]; [discriminate Hrun|]. rewrite lower_expr_S in Hrun. cbn [lower_expr_body] in Hrun.
    minva Hrun as [sw E0] o0 Hs. mprim Hrun.
    minva Hrun as [[[rw mp] me] hpf] o1 Ha. mprim Hrun.
    apply ret_inv in Hrun. destruct Hrun as [Heq ->]. injection Heq as -> ->.
    rewrite sem_eval_match.
    pose proof (IHs ph en E fT _ _ _ Hrel Hs) as IH1. revert IH1.
    destruct (Sem.eval f P en scrut) as [[v en1]|r1 m1|c1|]; intro IH1; cbn [Sem.obind]; try exact I.
    - destruct IH1 as (-> & HV & Hrel1). rewrite Ets in HV.
      pose proof (arms_node f g ts t arms Harms ph en1 E0 v sw fT _ _ _ _ _ _ _ _ _ Hrel1 HV
                    (rel2_wf VR _ _ _ Hrel1) eq_refl Ha) as IH2.
      cbn [e_ty]. exact IH2.
    - subst o0. destruct (tsem_sticky_fuel (pcode r1 m1) P fT) as (He & _ & _ & Hp).
      destruct (stkxQ_lower_arms _ _ _ He Hp _ _ _ _ _ _ _ _ _ Ha) as [_ HQ]. cbn [fst snd] in HQ. exact HQ.
  Qed.

  (* the keys of the merged environment *)
  Lemma arms_keys fT bits sw E0 P0 : forall arms, Forall (ArmK fT) arms ->
    forall hp mret mpanic menv (o : pobs) mret' mp' menv' hp' o',
    keys menv = keys E0 ->
    lower_arms tops (lower_expr tops fT P) (lower_pattern tops fT P) bits sw E0 P0 arms hp mret mpanic menv o
      = Ok ((mret', mp', menv', hp'), o') ->
    keys menv' = keys E0.
  Proof.
    induction 1 as [|[pat body] r HA _ IH]; intros hp mret mpanic menv o mret' mp' menv' hp' o' Hk H.
    - cbn [lower_arms] in H. apply ret_inv in H. destruct H as [Heq _]. now injection Heq as _ _ <- _.
    - apply arms_step_inv in H.
      destruct H as (im & E1 & o1 & rw & E2 & o2 & E3 & menv1 & oM & Hp & Hb & Hpop & Hmux & _ & Hrest).
      destruct (arm_keys _ _ _ HA _ _ _ _ _ _ _ _ _ _ Hp Hb Hpop) as [_ Hk3].
      apply (IH _ _ _ _ _ _ _ _ _ _ (eq_trans (mux_envs_keys _ _ _ _ _ _ Hmux) Hk3) Hrest).
  Qed.
End Match2.

(* ------------------------------------------------------------------ PART 2: the scalar patterns *)

(* the bindings of a scalar pattern (as [Wt.wt_pat]), with the side conditions on literals *)
Definition sc_pat (p : pattern) : option (list (N * ty)) :=
  match p with
  | Pat pi _ t =>
    match pi with
    | PId x => Some [(x, t)]
    | PTrue | PFalse => if sty_eqb t TBool then Some [] else None
    | PNumU n => match t with TInt _ b => if ok_width b && lit_fits t (Z.of_N n) then Some [] else None | _ => None end
    | PNumS z => match t with TInt _ b => if ok_width b && lit_fits t z then Some [] else None | _ => None end
    | PURange lo hi =>
        match t with
        | TInt _ b => if ok_width b && lit_fits t (Z.of_N lo) && lit_fits t (Z.of_N hi) then Some [] else None
        | _ => None
        end
    | PSRange lo hi =>
        match t with
        | TInt _ b => if ok_width b && lit_fits t lo && lit_fits t hi then Some [] else None
        | _ => None
        end
    | _ => None
    end
  end.

Lemma sc_pat_wt P p tbs : sc_pat p = Some tbs -> wt_pat P p = Some tbs.
Proof.
  destruct p as [pi m t]. cbn [sc_pat wt_pat].
  destruct pi; try (intro H; discriminate H); try (intro H; exact H).
  - destruct t; try (intro H; discriminate H). destruct (ok_width bits); cbn [andb]; intro H; [exact H|discriminate H].
  - destruct t; try (intro H; discriminate H). destruct (ok_width bits); cbn [andb]; intro H; [exact H|discriminate H].
  - destruct t; try (intro H; discriminate H). destruct (ok_width bits); cbn [andb]; intro H; [exact H|discriminate H].
  - destruct t; try (intro H; discriminate H). destruct (ok_width bits); cbn [andb]; intro H; [exact H|discriminate H].
Qed.

Section ScalarPat.
  Variable P : program.

  Lemma lower_pattern_S fuel p mw E :
    lower_pattern tops (S fuel) P p mw E = lower_pattern_body tops P (lower_pattern tops fuel P) p mw E.
  Proof. reflexivity. Qed.

  (* the patterns that bind nothing: the run is determined *)
  Definition LitRun (ts : ty) (p : pattern) : Prop :=
    forall v sw fT (E : @cenv bool) (o : pobs), VRs ts v sw ->
    lower_pattern tops (S fT) P p sw E o = Ok ((pmatches P p v, E), o).

  Lemma lit_pat_OK g ts p : LitRun ts p -> (forall v bs, Sem.pmatch P p v = Some bs -> bs = []) ->
    PatOK P VRs g ts p [].
  Proof.
    intros HL Hbs ph en E0 v sw fT o im E1 o1 Hrel HV Hrun.
    destruct fT as [|fT]; [discriminate Hrun|]. rewrite (HL v sw fT _ o HV) in Hrun.
    injection Hrun as <- <- <-. unfold pmatches. destruct (Sem.pmatch P p v) as [bs|] eqn:Ep; [|reflexivity].
    rewrite (Hbs _ _ Ep). split; [reflexivity|]. exact (rel2_push VRs _ _ _ Hrel).
  Qed.

  Lemma sc_pat_PatOK g p tbs : sc_pat p = Some tbs -> scalar_ty (p_ty p) = true ->
    PatOK P VRs g (p_ty p) p tbs.
  Proof.
    destruct p as [pi m t]. cbn [sc_pat p_ty]. intros H Hs. destruct pi; try discriminate H.
    - (* identifier *)
      injection H as <-. intros ph en E0 v sw fT o im E1 o1 Hrel HV Hrun.
      destruct fT as [|fT]; [discriminate Hrun|]. rewrite lower_pattern_S in Hrun. cbn [lower_pattern_body] in Hrun.
      minva Hrun as E2 o2 Hl. apply lift_res_inv in Hl. destruct Hl as [Hl ->].
      apply ret_inv in Hrun. destruct Hrun as [Heq ->]. injection Heq as -> ->.
      cbn [Sem.pmatch]. split; [reflexivity|].
      exact (rel2_let VRs _ _ _ name t false v sw _ (rel2_push VRs _ _ _ Hrel) HV Hl).
    - (* true *)
      destruct (sty_eqb t TBool) eqn:E; [|discriminate H]. apply sty_eqb_eq in E. subst t. injection H as <-.
      apply lit_pat_OK.
      + intros v sw fT E o HV. destruct (VRs_bool _ _ HV) as (b & -> & ->).
        rewrite lower_pattern_S. apply tsem_pat_true.
      + intros v bs Hp. cbn [Sem.pmatch] in Hp. destruct v as [[]| | | |]; congruence.
    - (* false *)
      destruct (sty_eqb t TBool) eqn:E; [|discriminate H]. apply sty_eqb_eq in E. subst t. injection H as <-.
      apply lit_pat_OK.
      + intros v sw fT E o HV. destruct (VRs_bool _ _ HV) as (b & -> & ->).
        rewrite lower_pattern_S. apply tsem_pat_false.
      + intros v bs Hp. cbn [Sem.pmatch] in Hp. destruct v as [[]| | | |]; congruence.
    - (* unsigned literal *)
      destruct t as [|sg b| | | |]; try discriminate H. destruct (ok_width b) eqn:Hb; [|discriminate H].
      cbn [andb] in H. destruct (lit_fits (TInt sg b) (Z.of_N n)) eqn:Hf; [|discriminate H]. injection H as <-.
      rewrite lit_fits_in_range in Hf. apply lit_pat_OK.
      + intros v sw fT E o HV. destruct (VRs_scalar (TInt sg b) _ _ Hb HV) as [Hok ->].
        destruct v as [|z| | |]; try contradiction. cbn [val_ok enc_val] in *.
        rewrite lower_pattern_S, tsem_pat_numU_pmatch.
        * rewrite is_signed_int, int_val_enc by (now rewrite N2Nat.id). reflexivity.
        * apply length_enc.
        * rewrite is_signed_int. change (szn P (TInt sg b)) with (N.to_nat b). now rewrite N2Nat.id.
      + intros v bs Hp. cbn [Sem.pmatch] in Hp. destruct v; try discriminate Hp.
        destruct (z =? Z.of_N n)%Z; congruence.
    - (* signed literal *)
      destruct t as [|sg b| | | |]; try discriminate H. destruct (ok_width b) eqn:Hb; [|discriminate H].
      cbn [andb] in H. destruct (lit_fits (TInt sg b) z) eqn:Hf; [|discriminate H]. injection H as <-.
      rewrite lit_fits_in_range in Hf. apply lit_pat_OK.
      + intros v sw fT E o HV. destruct (VRs_scalar (TInt sg b) _ _ Hb HV) as [Hok ->].
        destruct v as [|z0| | |]; try contradiction. cbn [val_ok enc_val] in *.
        rewrite lower_pattern_S, tsem_pat_numS_pmatch.
        * rewrite is_signed_int, int_val_enc by (now rewrite N2Nat.id). reflexivity.
        * apply length_enc.
        * rewrite is_signed_int. change (szn P (TInt sg b)) with (N.to_nat b). now rewrite N2Nat.id.
      + intros v bs Hp. cbn [Sem.pmatch] in Hp. destruct v; try discriminate Hp.
        destruct (z0 =? z)%Z; congruence.
    - (* unsigned range *)
      destruct t as [|sg b| | | |]; try discriminate H. destruct (ok_width b) eqn:Hb; [|discriminate H].
      cbn [andb] in H. destruct (lit_fits (TInt sg b) (Z.of_N lo)) eqn:Hf1; [|discriminate H].
      destruct (lit_fits (TInt sg b) (Z.of_N hi)) eqn:Hf2; [|discriminate H]. injection H as <-.
      rewrite lit_fits_in_range in Hf1, Hf2. apply lit_pat_OK.
      + intros v sw fT E o HV. destruct (VRs_scalar (TInt sg b) _ _ Hb HV) as [Hok ->].
        destruct v as [|z| | |]; try contradiction. cbn [val_ok enc_val] in *.
        rewrite lower_pattern_S, tsem_pat_urange_pmatch.
        * rewrite is_signed_int, int_val_enc by (now rewrite N2Nat.id). reflexivity.
        * apply length_enc.
        * rewrite is_signed_int. change (szn P (TInt sg b)) with (N.to_nat b). now rewrite N2Nat.id.
        * rewrite is_signed_int. change (szn P (TInt sg b)) with (N.to_nat b). now rewrite N2Nat.id.
      + intros v bs Hp. cbn [Sem.pmatch] in Hp. destruct v; try discriminate Hp.
        destruct ((Z.of_N lo <=? z) && (z <=? Z.of_N hi))%Z; congruence.
    - (* signed range *)
      destruct t as [|sg b| | | |]; try discriminate H. destruct (ok_width b) eqn:Hb; [|discriminate H].
      cbn [andb] in H. destruct (lit_fits (TInt sg b) lo) eqn:Hf1; [|discriminate H].
      destruct (lit_fits (TInt sg b) hi) eqn:Hf2; [|discriminate H]. injection H as <-.
      rewrite lit_fits_in_range in Hf1, Hf2. apply lit_pat_OK.
      + intros v sw fT E o HV. destruct (VRs_scalar (TInt sg b) _ _ Hb HV) as [Hok ->].
        destruct v as [|z| | |]; try contradiction. cbn [val_ok enc_val] in *.
        rewrite lower_pattern_S, tsem_pat_srange_pmatch.
        * rewrite is_signed_int, int_val_enc by (now rewrite N2Nat.id). reflexivity.
        * apply length_enc.
        * rewrite is_signed_int. change (szn P (TInt sg b)) with (N.to_nat b). now rewrite N2Nat.id.
        * rewrite is_signed_int. change (szn P (TInt sg b)) with (N.to_nat b). now rewrite N2Nat.id.
      + intros v bs Hp. cbn [Sem.pmatch] in Hp. destruct v; try discriminate Hp.
        destruct ((lo <=? z) && (z <=? hi))%Z; congruence.
  Qed.
End ScalarPat.

Lemma sc_pat_PatK P p tbs : sc_pat p = Some tbs -> PatK P p.
Proof.
  destruct p as [pi m t]. intros Hsc fT sw E o im E1 o1 H.
  destruct fT as [|fT]; [discriminate H|]. rewrite lower_pattern_S in H.
  destruct pi; try discriminate Hsc; cbn [lower_pattern_body] in H.
  - minva H as E2 o2 Hl. apply lift_res_inv in Hl. destruct Hl as [Hl ->].
    apply ret_inv in H. destruct H as [Heq ->]. injection Heq as _ ->. split; [reflexivity|].
    exact (env_let_keys _ _ _ _ Hl).
  - minva H as w o2 Hw. apply one_wire_inv in Hw. destruct Hw as [_ ->].
    apply ret_inv in H. destruct H as [Heq ->]. injection Heq as _ ->. split; [reflexivity|now apply SKP_of_keys].
  - minva H as w o2 Hw. apply one_wire_inv in Hw. destruct Hw as [_ ->]. mprim H.
    apply ret_inv in H. destruct H as [Heq ->]. injection Heq as _ ->. split; [reflexivity|now apply SKP_of_keys].
  - destruct (length sw <? szn P t)%nat; [discriminate H|]. minva H as acc o2 Ha. rewrite eq_acc_tops in Ha.
    injection Ha as _ <-. apply ret_inv in H. destruct H as [Heq ->]. injection Heq as _ ->.
    split; [reflexivity|now apply SKP_of_keys].
  - destruct (length sw <? szn P t)%nat; [discriminate H|]. minva H as acc o2 Ha. rewrite eq_acc_tops in Ha.
    injection Ha as _ <-. apply ret_inv in H. destruct H as [Heq ->]. injection Heq as _ ->.
    split; [reflexivity|now apply SKP_of_keys].
  - minva H as [lt1 gt1] o2 H1. apply pure_comparator in H1. subst o2.
    minva H as [lt2 gt2] o3 H2. apply pure_comparator in H2. subst o3. mprim H. mprim H. mprim H.
    apply ret_inv in H. destruct H as [Heq ->]. injection Heq as _ ->. split; [reflexivity|now apply SKP_of_keys].
  - minva H as [lt1 gt1] o2 H1. apply pure_comparator in H1. subst o2.
    minva H as [lt2 gt2] o3 H2. apply pure_comparator in H2. subst o3. mprim H. mprim H. mprim H.
    apply ret_inv in H. destruct H as [Heq ->]. injection Heq as _ ->. split; [reflexivity|now apply SKP_of_keys].
Qed.

(* ------------------------------------------------------------------ the fragment with match *)

Lemma VRs_szn P t v w : VRs t v w -> length w = szn P t.
Proof.
  intros [(Hs & Hv & ->)|(-> & _ & ->)]; [|reflexivity].
  rewrite (length_enc_val _ _ Hs Hv). symmetry. now apply szn_tw.
Qed.

Lemma G2_tbind_all g bs mu : G2 g -> G2 (tbind_all ([] :: g) bs mu).
Proof.
  intros [Hl Hla]. destruct (tbind_all_cons [] g bs mu) as [gs' ->]. split; [cbn [length]; lia|].
  destruct g; [cbn in Hl; lia|exact Hla].
Qed.

(* ------------------------------------------------------------------ the fragment with calls *)

Fixpoint imp3_expr (e : expr) : bool :=
  match e with
  | Ex ei _ _ =>
    match ei with
    | ETrue | EFalse | ENumU _ _ | ENumS _ _ | EId _ => true
    | ENeg e1 | ENot e1 | ECast _ e1 => imp3_expr e1
    | EOp o x y =>
        imp3_expr x && imp3_expr y &&
        match o with OMul => negb (is_num_lit x) && negb (is_num_lit y) | _ => true end
    | EIf c a b => imp3_expr c && imp3_expr a && imp3_expr b
    | EBlock b => forallb imp3_stmt b
    | ECall _ args => forallb imp3_expr args
    | EMatch s arms =>
        imp3_expr s &&
        forallb (fun arm => match sc_pat (fst arm) with Some _ => true | None => false end && imp3_expr (snd arm)) arms
    | _ => false
    end
  end
with imp3_stmt (s : stmt) : bool :=
  match s with
  | St si _ =>
    match si with
    | SLet (Pat (PId _) _ _) e => imp3_expr e
    | SLetMut _ e => imp3_expr e
    | SAssign _ [] e => imp3_expr e
    | SFor (Pat (PId _) _ _) (Ex (ERange _ _ _) _ _) body => forallb imp3_stmt body
    | SExpr e => imp3_expr e
    | _ => false
    end
  end.

Section Keys3.
  Variable P : program.
  Hypothesis Hfns : forallb (fun d => forallb imp3_stmt (fn_body d)) (p_fns P) = true.

  Lemma find_fn_body3 fn d : find_fn P fn = Some d -> forallb imp3_stmt (fn_body d) = true.
  Proof.
    intro H. unfold find_fn in H. apply find_some in H. destruct H as [Hin _].
    rewrite forallb_forall in Hfns. now apply Hfns.
  Qed.

  Definition KPe3 (fT : nat) : Prop := forall e, imp3_expr e = true ->
    forall E o w E' o', lower_expr tops fT P e E o = Ok ((w, E'), o') -> keys E' = keys E.
  Definition KPs3 (fT : nat) : Prop := forall s, imp3_stmt s = true ->
    forall E o w E' o', lower_stmt tops fT P s E o = Ok ((w, E'), o') -> SKP E E'.


  Lemma block_keys3 fT : KPs3 fT -> forall b, forallb imp3_stmt b = true ->
    forall E o w E' o', lower_block tops (S fT) P b E o = Ok ((w, E'), o') -> keys E' = keys E.
  Proof.
    intros IHs b Hi E o w E' o' H. rewrite lower_block_S in H. unfold lower_block_body in H.
    minva H as [w1 E1] o1 H1. minva H as E2 o2 H2. apply lift_res_inv in H2. destruct H2 as [Hp _].
    apply ret_inv in H. destruct H as [Heq _]. injection Heq as _ ->.
    apply block_stmts_keys in H1.
    - destruct H1 as [Hk Hl]. destruct E1 as [|s1 E1']; [discriminate Hp|]. cbn [env_pop] in Hp.
      injection Hp as <-. exact Hk.
    - intros s Hin. apply IHs. rewrite forallb_forall in Hi. now apply Hi.
  Qed.

  Lemma args_keys3 fT : KPe3 fT -> forall args, forallb imp3_expr args = true ->
    forall params E o bs E1 o1,
    lower_args (lower_expr tops fT P) params args E o = Ok ((bs, E1), o1) -> keys E1 = keys E.
  Proof.
    intros IHe. induction args as [|a ar IH]; intros Hi params E o bs E1 o1 H.
    - destruct params as [|[pn pt] pr]; cbn [lower_args] in H; apply ret_inv in H; destruct H as [Heq _];
        injection Heq as _ ->; reflexivity.
    - cbn [forallb] in Hi. apply andb_prop in Hi. destruct Hi as [Hi1 Hi2].
      destruct params as [|[pn pt] pr]; cbn [lower_args] in H.
      + apply ret_inv in H. destruct H as [Heq _]. injection Heq as _ ->. reflexivity.
      + minva H as [w Ea] oa Ha. minva H as Eb ob Hp. apply lift_res_inv in Hp. destruct Hp as [Hp _].
        minva H as [bs' Ec] oc Hr. apply ret_inv in H. destruct H as [Heq _]. injection Heq as _ ->.
        rewrite (IH Hi2 _ _ _ _ _ _ Hr). pose proof (IHe a Hi1 _ _ _ _ _ Ha) as Hk.
        destruct Ea as [|s Ea']; [discriminate Hp|]. cbn [env_pop] in Hp. injection Hp as <-.
        unfold keys, env_push in Hk. cbn [map] in Hk. now injection Hk.
  Qed.

  Lemma bind_all_keys3 : forall (bs : list (N * list bool)) (E E' : @cenv bool),
    fold_left (fun Er b => let* E0 := Er in env_let E0 (fst b) (snd b)) bs (Ok E) = Ok E' -> SKP E E'.
  Proof.
    induction bs as [|[x w] r IH]; intros E E' H; cbn [fold_left bind fst snd] in H.
    - injection H as <-. now apply SKP_of_keys.
    - destruct (env_let E x w) as [E1| |] eqn:El;
        [|exfalso; eapply fold_env_let_not_ok; [|exact H]; intros ? Hq; discriminate Hq
         |exfalso; eapply fold_env_let_not_ok; [|exact H]; intros ? Hq; discriminate Hq].
      eapply SKP_trans; [exact (env_let_keys _ _ _ _ El)|now apply IH].
  Qed.

  Lemma keys_app3 (A B : @cenv bool) : keys (A ++ B) = keys A ++ keys B.
  Proof. apply map_app. Qed.


  Lemma for_iterations_keys3 fT x mp tp body eb : KPs3 fT -> forallb imp3_stmt body = true ->
    forall n aw E o E' o',
    for_iterations (lower_pattern tops fT P) (lower_stmt tops fT P) (Pat (PId x) mp tp) body eb n aw E o = Ok (E', o') ->
    keys E' = keys E.
  Proof.
    intros IHs Hi. induction n as [|k IH]; intros aw E o E' o' H; cbn [for_iterations] in H.
    - apply ret_inv in H. now destruct H as [-> _].
    - minva H as bnd o1 Hsl. minva H as [cm Ea] o2 Hp. minva H as Eb o3 Hb. minva H as Ec o4 Hpop.
      apply lift_res_inv in Hpop. destruct Hpop as [Hpop _].
      rewrite (IH _ _ _ _ _ H).
      destruct fT as [|fT']; [discriminate Hp|].
      change (lower_pattern tops (S fT') P (Pat (PId x) mp tp) bnd (env_push E) o1)
        with (lower_pattern_body tops P (lower_pattern tops fT' P) (Pat (PId x) mp tp) bnd (env_push E) o1) in Hp.
      cbn [lower_pattern_body] in Hp. minva Hp as Ea' o5 Hl. apply lift_res_inv in Hl. destruct Hl as [Hl _].
      apply ret_inv in Hp. destruct Hp as [Heq _]. injection Heq as _ ->.
      destruct (lower_stmts_block _ body [] _ _ _ _ Hb) as [wb Hbb].
      apply block_stmts_keys in Hbb; [|intros s Hin; apply IHs; rewrite forallb_forall in Hi; now apply Hi].
      destruct (env_let_keys _ _ _ _ Hl) as [Hk1 _]. destruct Hbb as [Hk2 _].
      destruct Eb as [|sb Eb']; [discriminate Hpop|]. cbn [env_pop] in Hpop. injection Hpop as <-.
      unfold keys in *. cbn [map tl] in *. unfold env_push in Hk1. cbn [map tl] in Hk1. congruence.
  Qed.

  Ltac kp3 IHe := (eapply IHe; [|eassumption]; assumption).

  Lemma KPe_step2 fT : (forall k, (k < S fT)%nat -> KPe3 k /\ KPs3 k) -> KPe3 (S fT).
  Proof.
    intros IH [ei m t] Hi E o w E' o' H. rewrite lower_expr_S in H.
    destruct (IH fT (le_n _)) as [IHe _].
    destruct ei; try discriminate Hi; cbn [imp3_expr] in Hi.
    - apply ret_inv in H. destruct H as [Heq _]. injection Heq as _ ->. reflexivity.
    - apply ret_inv in H. destruct H as [Heq _]. injection Heq as _ ->. reflexivity.
    - apply ret_inv in H. destruct H as [Heq _]. injection Heq as _ ->. reflexivity.
    - apply ret_inv in H. destruct H as [Heq _]. injection Heq as _ ->. reflexivity.
    - cbn [lower_expr_body] in H. destruct (env_get E name); [|discriminate H].
      apply ret_inv in H. destruct H as [Heq _]. injection Heq as _ ->. reflexivity.
    - (* match *)
      bsplit. cbn [lower_expr_body] in H. minva H as [sw E0] o0 Hs. mprim H.
      minva H as [[[rw mp] me] hpf] o1 Ha. mprim H. apply ret_inv in H. destruct H as [Heq _]. injection Heq as _ ->.
      assert (HA : Forall (ArmK P fT) arms).
      { apply Forall_forall. intros [pat body] Hin.
        match goal with Hf : forallb _ arms = true |- _ => rewrite forallb_forall in Hf; specialize (Hf _ Hin) end.
        cbn [fst snd] in *. bsplit. split; cbn [fst snd].
        - destruct (sc_pat pat) as [tbs|] eqn:Ep; [|discriminate]. eapply sc_pat_PatK; eassumption.
        - intros E2 o2 w2 E2' o2' Hr. eapply IHe; eassumption. }
      rewrite (arms_keys P fT _ sw E0 o0 arms HA _ _ _ _ _ _ _ _ _ _ eq_refl Ha). kp3 IHe.
    - rewrite lower_neg_case in H. minva H as [x E1] o1 He. cbv beta iota in H.
      apply neg_steps_inv in H. subst E'. kp3 IHe.
    - apply not_run_inv in H. destruct H as (x & He & _). kp3 IHe.
    - bsplit. destruct o0; cbv iota in *; bsplit.
      all: try (apply binop_run_inv in H; [|reflexivity|
                  first [intros Hmul; discriminate Hmul
                        |intros _; split; apply negb_true_iff; assumption]];
                destruct H as (xw & E1 & o1 & yw & o2 & Hx & Hy & _);
                transitivity (keys E1); kp3 IHe).
      + apply (shift_run_inv P _ _ _ true) in H. destruct H as (xw & E1 & o1 & yw & o2 & Hx & Hy & _).
        transitivity (keys E1); kp3 IHe.
      + apply (shift_run_inv P _ _ _ false) in H. destruct H as (xw & E1 & o1 & yw & o2 & Hx & Hy & _).
        transitivity (keys E1); kp3 IHe.
      + apply (logic_run_inv P _ _ _ true) in H.
        destruct H as (bx & E1 & o1 & by_ & E2 & o2 & oM & Hx & Hy & Hmux & _).
        rewrite (mux_envs_keys _ _ _ _ _ _ Hmux). transitivity (keys E1); kp3 IHe.
      + apply (logic_run_inv P _ _ _ false) in H.
        destruct H as (bx & E1 & o1 & by_ & E2 & o2 & oM & Hx & Hy & Hmux & _).
        rewrite (mux_envs_keys _ _ _ _ _ _ Hmux). kp3 IHe.
    - (* block *)
      cbn [lower_expr_body] in H. destruct fT as [|fT']; [discriminate H|].
      destruct (IH fT' (le_S _ _ (le_n _))) as [_ IHs]. exact (block_keys3 fT' IHs _ Hi _ _ _ _ _ H).
    - (* call *)
      cbn [lower_expr_body] in H. destruct (find_fn P f) as [d|] eqn:Ef; [|discriminate H].
      minva H as [bs E1] o1 Ha. destruct (rev E1) as [|glob crev] eqn:Erev; [discriminate H|].
      minva H as Ec o2 Hb. apply lift_res_inv in Hb. destruct Hb as [Hb _].
      minva H as [bw E2] o3 Hbody. minva H as E3 o4 Hp. apply lift_res_inv in Hp. destruct Hp as [Hp _].
      apply ret_inv in H. destruct H as [Heq _]. injection Heq as _ ->.
      rewrite <- (args_keys3 fT IHe _ Hi _ _ _ _ _ _ Ha).
      assert (E1 = rev crev ++ [glob]) as -> by (rewrite <- (rev_involutive E1), Erev; reflexivity).
      destruct fT as [|fT']; [discriminate Hbody|].
      destruct (IH fT' (le_S _ _ (le_n _))) as [_ IHs].
      pose proof (block_keys3 fT' IHs _ (find_fn_body3 _ _ Ef) _ _ _ _ _ Hbody) as Hk2.
      destruct (bind_all_keys3 _ _ _ Hb) as [Hk3 Hl3].
      destruct E2 as [|s2 E2']; [discriminate Hp|]. cbn [env_pop] in Hp. injection Hp as <-.
      rewrite !keys_app3. f_equal.
      assert (tl (keys (s2 :: E2')) = tl (keys Ec)) as Ht by (now rewrite Hk2).
      rewrite Hk3 in Ht. exact Ht.
    - (* if *)
      bsplit. apply if_run_inv in H.
      destruct H as (cb & E0 & o0 & tw & ET & oT & fw & EF & oF & oM & Hc & Ha & Hb & Hmux & _).
      rewrite (mux_envs_keys _ _ _ _ _ _ Hmux). transitivity (keys E0); kp3 IHe.
    - (* cast *)
      pose proof H as H0. cbn [lower_expr_body] in H0. minva H0 as [x E1] o1 He. clear H0.
      destruct (tsem_cast_correct P _ (lower_pattern tops fT P) (lower_block tops fT P) to e m t E o x E1 o1 He)
        as (r & HR & _).
      rewrite HR in H. injection H as _ <- _. kp3 IHe.
  Qed.

  Lemma KPs_step2 fT : (forall k, (k < S fT)%nat -> KPe3 k /\ KPs3 k) -> KPs3 (S fT).
  Proof.
    intros IH [si m] Hi E o w E' o' H. rewrite lower_stmt_S in H.
    destruct (IH fT (le_n _)) as [IHe _].
    destruct si; try discriminate Hi; cbn [imp3_stmt] in Hi; cbn [lower_stmt_body] in H.
    - (* let *)
      destruct p as [[] mp tp]; try discriminate Hi.
      minva H as [w1 E1] o1 He. minva H as [c2 E2] o2 Hp. apply ret_inv in H. destruct H as [Heq _].
      injection Heq as _ ->. destruct fT as [|fT']; [discriminate Hp|].
      change (lower_pattern tops (S fT') P (Pat (PId name) mp tp) w1 E1 o1)
        with (lower_pattern_body tops P (lower_pattern tops fT' P) (Pat (PId name) mp tp) w1 E1 o1) in Hp.
      cbn [lower_pattern_body] in Hp. minva Hp as E3 o3 Hl. apply lift_res_inv in Hl. destruct Hl as [Hl _].
      apply ret_inv in Hp. destruct Hp as [Heq _]. injection Heq as _ ->.
      eapply SKP_trans; [apply SKP_of_keys; eapply IHe; eassumption|]. exact (env_let_keys _ _ _ _ Hl).
    - minva H as [w1 E1] o1 He. minva H as E2 o2 Hl. apply lift_res_inv in Hl. destruct Hl as [Hl _].
      apply ret_inv in H. destruct H as [Heq _]. injection Heq as _ ->.
      eapply SKP_trans; [apply SKP_of_keys; eapply IHe; eassumption|]. exact (env_let_keys _ _ _ _ Hl).
    - destruct accs; [|discriminate Hi]. cbn [assign_indexes assign_forward assign_backward] in H.
      minva H as [w1 E1] o1 He.
      minva H as [idxs E2] o2 H2. apply ret_inv in H2. destruct H2 as [Heq _]. injection Heq as _ ->.
      minva H as coll o3 H3. minva H as acc o4 H4. minva H as v' o5 H5.
      minva H as E3 o6 H6. apply lift_res_inv in H6. destruct H6 as [Ha _].
      apply ret_inv in H. destruct H as [Heq _]. injection Heq as _ ->.
      apply SKP_of_keys. rewrite (env_assign_keys _ _ _ _ Ha). eapply IHe; eassumption.
    - (* for *)
      destruct p as [[] mp tp]; try discriminate Hi. destruct arr as [[] ma ta]; try discriminate Hi.
      minva H as [eb n] o1 H1. minva H as [aw E1] o2 Ha.
      destruct fT as [|fT']; [discriminate Ha|]. rewrite lower_expr_S in Ha. cbn [lower_expr_body] in Ha.
      destruct (hi <? lo); [discriminate Ha|]. apply ret_inv in Ha. destruct Ha as [Heq _]. injection Heq as _ ->.
      minva H as E2 o3 Hf. apply ret_inv in H. destruct H as [Heq _]. injection Heq as _ ->.
      apply SKP_of_keys. destruct (IH (S fT') (le_n _)) as [_ IHs].
      exact (for_iterations_keys3 _ _ _ _ _ _ IHs Hi _ _ _ _ _ _ Hf).
    - apply SKP_of_keys. eapply IHe; eassumption.
  Qed.

  Theorem keys_preserved3 : forall fT, KPe3 fT /\ KPs3 fT.
  Proof.
    induction fT as [fT IH] using lt_wf_ind. destruct fT as [|fT].
    - split; intros ? ? ? ? ? ? ? H; discriminate H.
    - split; [now apply KPe_step2|now apply KPs_step2].
  Qed.

  Corollary KP_imp3 e : imp3_expr e = true -> KP P e.
  Proof. intros Hi fT E o w E' o' H. exact (proj1 (keys_preserved3 fT) e Hi E o w E' o' H). Qed.
End Keys3.

(* ------------------------------------------------------------------ the strict checker with calls
   (the body of the callee is checked once per function: [sc3_fn], [sc3_fns]) *)

Fixpoint sc3_expr (fuel : nat) (P : program) (g : tenv) (e : expr) {struct fuel} : bool :=
  match fuel with
  | O => false
  | S f =>
    match e with
    | Ex ei _ t =>
      match ei with
      | ETrue | EFalse => sty_eqb t TBool
      | ENumU n _ => match t with TInt _ b => ok_width b && lit_fits t (Z.of_N n) | _ => false end
      | ENumS z _ => match t with TInt _ b => ok_width b && lit_fits t z | _ => false end
      | EId x => match tlookup g x with Some (tx, _) => vt_eqb tx t | None => false end
      | ENeg e1 =>
          match t with
          | TInt true b => ok_width b && sty_eqb (e_ty e1) t && sc3_expr f P g e1
          | _ => false
          end
      | ENot e1 => scalar_ty t && sty_eqb (e_ty e1) t && sc3_expr f P g e1
      | ECast to e1 => scalar_ty t && sty_eqb to t && scalar_ty (e_ty e1) && sc3_expr f P g e1
      | EOp o x y => sc3_expr f P g x && sc3_expr f P g y && sc_op o x y t
      | EIf c a b =>
          sty_eqb (e_ty c) TBool && vt_eqb (e_ty a) t && vt_eqb (e_ty b) t &&
          sc3_expr f P g c && sc3_expr f P g a && sc3_expr f P g b
      | EBlock b => match sc3_block f P ([] :: g) b with Some tb => vt_eqb tb t | None => false end
      | EMatch s arms =>
          sc3_expr f P g s && scalar_ty (e_ty s) &&
          forallb (fun arm =>
                     vt_eqb (p_ty (fst arm)) (e_ty s) && vt_eqb (e_ty (snd arm)) t &&
                     match sc_pat (fst arm) with
                     | Some bs => sc3_expr f P (tbind_all ([] :: g) bs false) (snd arm)
                     | None => false
                     end) arms
      | ECall fn args =>
          match find_fn P fn with
          | Some d =>
              vt_eqb (fn_ret d) t &&
              forallb2 (fun a (p : N * ty) => vt_eqb (e_ty a) (snd p) && sc3_expr f P g a) args (fn_params d)
          | None => false
          end
      | _ => false
      end
    end
  end
with sc3_block (fuel : nat) (P : program) (g : tenv) (b : list stmt) {struct fuel} : option ty :=
  match fuel with
  | O => None
  | S f =>
      (fix go (ss : list stmt) (g : tenv) (last : ty) : option ty :=
         match ss with
         | [] => Some last
         | s :: r => match sc3_stmt f P g s with Some (g', t) => go r g' t | None => None end
         end) b g unit_ty
  end
with sc3_stmt (fuel : nat) (P : program) (g : tenv) (s : stmt) {struct fuel} : option (tenv * ty) :=
  match fuel with
  | O => None
  | S f =>
    match s with
    | St si _ =>
      match si with
      | SLet (Pat (PId x) _ tp) e =>
          if sc3_expr f P g e && vt_eqb tp (e_ty e) then Some (tbind g x tp false, unit_ty) else None
      | SLetMut x e => if sc3_expr f P g e then Some (tbind g x (e_ty e) true, unit_ty) else None
      | SAssign x [] e =>
          match tlookup g x with
          | Some (tx, true) => if vt_eqb tx (e_ty e) && sc3_expr f P g e then Some (g, unit_ty) else None
          | _ => None
          end
      | SFor (Pat (PId x) _ tp) (Ex (ERange lo hi bits) _ ta) body =>
          if ok_width bits && (lo <=? hi) && (hi <=? 2 ^ bits) && sty_eqb tp (TInt false bits) &&
             match ta with
             | TArr (TInt false b2) n2 => (b2 =? bits) && (n2 =? hi - lo)
             | _ => false
             end
          then match sc3_block f P (tbind ([] :: g) x tp false) body with
               | Some _ => Some (g, unit_ty)
               | None => None
               end
          else None
      | SExpr e => if sc3_expr f P g e then Some (g, e_ty e) else None
      | _ => None
      end
    end
  end.

Fixpoint sc3_stmts (f : nat) (P : program) (ss : list stmt) (g : tenv) (last : ty) : option (tenv * ty) :=
  match ss with
  | [] => Some (g, last)
  | s :: r => match sc3_stmt f P g s with Some (g', t) => sc3_stmts f P r g' t | None => None end
  end.

Lemma sc3_block_S f P g b : sc3_block (S f) P g b = option_map snd (sc3_stmts f P b g unit_ty).
Proof.
  cbn [sc3_block]. generalize unit_ty. revert g. induction b as [|s r IH]; intros g last; [reflexivity|].
  cbn [sc3_stmts]. destruct (sc3_stmt f P g s) as [[g' t]|]; [apply IH|reflexivity].
Qed.


Lemma sc3_stmt_tl fw P g s g' t : sc3_stmt fw P g s = Some (g', t) -> tl g' = tl g.
Proof.
  destruct fw as [|f]; [discriminate|]. destruct s as [si m]. cbn [sc3_stmt].
  destruct si; try discriminate.
  - destruct p as [[] mp tp]; try discriminate. destruct (_ && _); [|discriminate].
    intros [= <- _]. apply tl_tbind.
  - destruct (sc3_expr f P g e); [|discriminate]. intros [= <- _]. apply tl_tbind.
  - destruct accs; [|discriminate]. destruct (tlookup g name) as [[tx []]|]; try discriminate.
    destruct (_ && _); [|discriminate]. now intros [= <- _].
  - destruct p as [[] mp tp]; try discriminate. destruct arr as [[] ma ta]; try discriminate.
    destruct (_ && _); [|discriminate]. destruct (sc3_block f P _ body); [|discriminate]. now intros [= <- _].
  - destruct (sc3_expr f P g e); [|discriminate]. now intros [= <- _].
Qed.

(* ------------------------------------------------------------------ the theorem *)

(* ------------------------------------------------------------------ the theorem with calls *)

Lemma sc3_stmt_G2 fw P g s g' t : sc3_stmt fw P g s = Some (g', t) -> G2 g -> G2 g'.
Proof.
  intros H Hg. destruct fw as [|f]; [discriminate|]. destruct s as [si m]. cbn [sc3_stmt] in H.
  destruct si; try discriminate.
  - destruct p as [[] mp tp]; try discriminate. destruct (_ && _); [|discriminate].
    injection H as <- _. now apply G2_tbind.
  - destruct (sc3_expr f P g e); [|discriminate]. injection H as <- _. now apply G2_tbind.
  - destruct accs; [|discriminate]. destruct (tlookup g name) as [[tx []]|]; try discriminate.
    destruct (_ && _); [|discriminate]. now injection H as <- _.
  - destruct p as [[] mp tp]; try discriminate. destruct arr as [[] ma ta]; try discriminate.
    destruct (_ && _); [|discriminate]. destruct (sc3_block f P _ body); [|discriminate]. now injection H as <- _.
  - destruct (sc3_expr f P g e); [|discriminate]. now injection H as <- _.
Qed.

(* a function of the program is in the fragment: its body is checked in the context of its
   parameters (a scope of their own over the empty global scope), and has the declared type *)
Definition sc3_fn (fw : nat) (P : program) (d : fndef) : bool :=
  match sc3_block fw P ([] :: tbind_all [[]; []] (fn_params d) true) (fn_body d) with
  | Some t => vt_eqb t (fn_ret d)
  | None => false
  end && forallb imp3_stmt (fn_body d).

Definition sc3_fns (fw : nat) (P : program) : bool := forallb (sc3_fn fw P) (p_fns P).

Section Main3.
  Variable P : program.
  Variable fwp : nat.
  Hypothesis Hfns : sc3_fns fwp P = true.
  Notation AgE' := (AgE2 P VRs).
  Notation AgS' := (AgS2 P VRs).

  Lemma Hfns_imp3 : forallb (fun d => forallb imp3_stmt (fn_body d)) (p_fns P) = true.
  Proof.
    unfold sc3_fns in Hfns. rewrite forallb_forall in *. intros d Hin. specialize (Hfns d Hin).
    unfold sc3_fn in Hfns. apply andb_prop in Hfns. now destruct Hfns.
  Qed.

  Lemma find_fn_sc3 fn d : find_fn P fn = Some d ->
    sc3_block fwp P ([] :: tbind_all [[]; []] (fn_params d) true) (fn_body d) = Some (fn_ret d) /\
    forallb imp3_stmt (fn_body d) = true.
  Proof.
    intro H. unfold find_fn in H. apply find_some in H. destruct H as [Hin _].
    unfold sc3_fns in Hfns. rewrite forallb_forall in Hfns. specialize (Hfns d Hin). unfold sc3_fn in Hfns.
    apply andb_prop in Hfns. destruct Hfns as [H1 H2]. split; [|exact H2].
    destruct (sc3_block fwp P _ (fn_body d)) as [tb|]; [|discriminate H1]. apply vt_eqb_eq in H1. now subst tb.
  Qed.

  Definition InvE3 (fuel : nat) : Prop :=
    forall fw g e, G2 g -> sc3_expr fw P g e = true -> imp3_expr e = true -> AgE' fuel g e.
  Definition InvS3 (fuel : nat) : Prop :=
    forall fw g s g' t, G2 g -> sc3_stmt fw P g s = Some (g', t) -> imp3_stmt s = true -> AgS' fuel g g' t s.

  Lemma stmts_AgSS3 f : InvS3 f -> forall fw ss g last g1 t, G2 g ->
    sc3_stmts fw P ss g last = Some (g1, t) -> forallb imp3_stmt ss = true ->
    AgSS2 P VRs f g ss last g1 t /\ tl g1 = tl g.
  Proof.
    intros IHs fw. induction ss as [|s r IH]; intros g last g1 t Hg Hsc Hi; cbn [sc3_stmts] in Hsc.
    - injection Hsc as <- <-. split; [constructor|reflexivity].
    - cbn [forallb] in Hi. apply andb_prop in Hi. destruct Hi as [Hi1 Hi2].
      destruct (sc3_stmt fw P g s) as [[g' t']|] eqn:Es; [|discriminate Hsc].
      destruct (IH g' t' g1 t (sc3_stmt_G2 _ _ _ _ _ _ Es Hg) Hsc Hi2) as [HA Htl]. split.
      + econstructor; [eapply IHs; eassumption|exact HA].
      + rewrite Htl. eapply sc3_stmt_tl; eassumption.
  Qed.

  Lemma block_AgB3 f : (forall k, (k < f)%nat -> InvS3 k) -> forall fw g b t, G2 g ->
    sc3_block fw P ([] :: g) b = Some t -> forallb imp3_stmt b = true -> AgB2 P VRs f g b t.
  Proof.
    intros IH fw g b t Hg Hsc Hi. destruct f as [|f']; [intros ph en E fT w E' o' _ _; exact I|].
    destruct fw as [|fw']; [discriminate Hsc|]. rewrite sc3_block_S in Hsc.
    destruct (sc3_stmts fw' P b ([] :: g) unit_ty) as [[g1 tb]|] eqn:Es; [|discriminate Hsc].
    cbn [option_map snd] in Hsc. injection Hsc as ->.
    destruct (stmts_AgSS3 f' (IH f' (le_n _)) fw' b _ _ _ _ (G2_push _ Hg) Es Hi) as [HA Htl].
    exact (block_run_agrees2 P VRs VRs_unit f' g b g1 t HA Htl).
  Qed.

  Ltac eqs :=
    repeat match goal with
    | H : sty_eqb _ _ = true |- _ => apply sty_eqb_eq in H
    | H : vt_eqb _ _ = true |- _ => apply vt_eqb_eq in H
    end.

  Lemma op_step3 f g o x y m t :
    sc_op o x y t = true -> imp3_expr x = true -> imp3_expr y = true ->
    AgE' f g x -> AgE' f g y -> AgE' (S f) g (Ex (EOp o x y) m t).
  Proof.
    intros Hop Hix Hiy IHx IHy.
    destruct o; cbn [sc_op] in Hop.
    (* arithmetic and bitwise *)
    1-8: destruct t as [|sg b| | | |]; try discriminate Hop; bsplit; try discriminate; eqs;
         match goal with
         | |- AgE2 _ _ _ _ (Ex _ _ TBool) =>
             eapply (binop_node_p2 P f g _ x y m TBool TBool); try eassumption; try reflexivity;
             [ intro Hmul; discriminate Hmul | apply bool_agrees; reflexivity ]
         | |- _ =>
             eapply (binop_node_p2 P f g _ x y m (TInt sg b) (TInt sg b)); try eassumption; try reflexivity;
             [ first [ intro Hmul; discriminate Hmul
                     | intros _; split; apply negb_true_iff; assumption ]
             | apply int_agrees; [assumption|left; split; reflexivity] ]
         end.
    - (* > *) bsplit. eqs. subst t. destruct (e_ty x) as [|sg b| | | |] eqn:Etx; try discriminate. bsplit. eqs.
      eapply (binop_node_p2 P f g OGt x y m TBool (TInt sg b)); try eassumption; try reflexivity.
      + intro Hmul; discriminate Hmul.
      + apply int_agrees; [assumption|right; split; reflexivity].
    - (* < *) bsplit. eqs. subst t. destruct (e_ty x) as [|sg b| | | |] eqn:Etx; try discriminate. bsplit. eqs.
      eapply (binop_node_p2 P f g OLt x y m TBool (TInt sg b)); try eassumption; try reflexivity.
      + intro Hmul; discriminate Hmul.
      + apply int_agrees; [assumption|right; split; reflexivity].
    - (* == *) bsplit. eqs. subst t.
      eapply (binop_node_p2 P f g OEq x y m TBool (e_ty x)); try eassumption; try reflexivity.
      + intro Hmul; discriminate Hmul.
      + destruct (e_ty x) as [|sg b| | | |]; try discriminate.
        * apply bool_agrees; reflexivity.
        * apply int_agrees; [assumption|right; split; reflexivity].
    - (* != *) bsplit. eqs. subst t.
      eapply (binop_node_p2 P f g ONe x y m TBool (e_ty x)); try eassumption; try reflexivity.
      + intro Hmul; discriminate Hmul.
      + destruct (e_ty x) as [|sg b| | | |]; try discriminate.
        * apply bool_agrees; reflexivity.
        * apply int_agrees; [assumption|right; split; reflexivity].
    - destruct t as [|sg b| | | |]; try discriminate Hop. bsplit. eqs.
      apply (shift_node_p2 P f g true x y m sg b); assumption.
    - destruct t as [|sg b| | | |]; try discriminate Hop. bsplit. eqs.
      apply (shift_node_p2 P f g false x y m sg b); assumption.
    - bsplit. eqs. subst t.
      apply (logic_node2 P VRs VRs_bool f g true x y m); try assumption. now apply (KP_imp3 P Hfns_imp3).
    - bsplit. eqs. subst t.
      apply (logic_node2 P VRs VRs_bool f g false x y m); try assumption. now apply (KP_imp3 P Hfns_imp3).
  Qed.


  Lemma args_AgE3 f fw g : InvE3 f -> G2 g -> forall args params,
    forallb2 (fun a (p : N * ty) => vt_eqb (e_ty a) (snd p) && sc3_expr fw P g a) args params = true ->
    forallb imp3_expr args = true ->
    Forall2 (fun a (p : N * ty) => AgE' f g a /\ e_ty a = snd p) args params.
  Proof.
    intros IHe Hg. induction args as [|a ar IH]; intros [|p pr] H Hi; cbn [forallb2] in H; try discriminate H.
    - constructor.
    - cbn [forallb] in Hi. bsplit. eqs. constructor; [|now apply IH]. split; [|assumption].
      eapply IHe; eassumption.
  Qed.

  Lemma InvE3_step f : (forall k, (k <= f)%nat -> InvE3 k /\ InvS3 k) -> InvE3 (S f).
  Proof.
    intros IH fw g [ei m t] Hg Hsc Hi. destruct fw as [|fw]; [discriminate Hsc|]. cbn [sc3_expr] in Hsc.
    destruct (IH f (le_n _)) as [IHe _].
    destruct ei; try discriminate Hsc; cbn [imp3_expr] in Hi.
    - eqs. subst t. apply lit_true_node2.
    - eqs. subst t. apply lit_false_node2.
    - destruct t as [|sg b| | | |]; try discriminate Hsc. bsplit. now apply lit_numU_node2.
    - destruct t as [|sg b| | | |]; try discriminate Hsc. bsplit. now apply lit_numS_node2.
    - destruct (tlookup g name) as [[tx mu]|] eqn:El; [|discriminate Hsc]. eqs. subst tx.
      eapply id_node2; eassumption.
    - (* match *)
      bsplit.
      eapply (match_node2 P VRs); try exact VRs_bool; try exact VRs_unit; try exact (VRs_szn P);
        [eapply IHe; eassumption|reflexivity|].
      apply Forall_forall. intros [pat body] Hin.
      repeat match goal with Hf : forallb _ arms = true |- _ => rewrite forallb_forall in Hf; specialize (Hf _ Hin) end.
      cbn [fst snd] in *. bsplit. eqs.
      destruct (sc_pat pat) as [tbs|] eqn:Ep; try discriminate.
      split; [|split; [assumption|]].
      + intro fT0. split; cbn [fst snd]; [eapply sc_pat_PatK; eassumption|].
        intros E2 o2 w2 E2' o2' Hr. eapply (KP_imp3 P Hfns_imp3); eassumption.
      + exists tbs. cbn [fst snd]. split.
        * match goal with Hq : p_ty pat = _ |- _ => rewrite <- Hq end.
          apply sc_pat_PatOK; [assumption|]. congruence.
        * eapply IHe; try eassumption. now apply G2_tbind_all.
    - destruct t as [|[] b| | | |]; try discriminate Hsc. bsplit. eqs.
      apply neg_node_p2; try assumption. eapply IHe; eassumption.
    - bsplit. eqs. apply not_node_p2; try assumption. eapply IHe; eassumption.
    - bsplit. apply op_step3; try assumption; eapply IHe; eassumption.
    - (* block *)
      destruct (sc3_block fw P ([] :: g) b) as [tb|] eqn:Eb; [|discriminate Hsc]. eqs. subst tb.
      destruct f as [|f']; [intros ph en E fT w E' o' _ _; exact I|].
      destruct fw as [|fw']; [discriminate Eb|]. rewrite sc3_block_S in Eb.
      destruct (sc3_stmts fw' P b ([] :: g) unit_ty) as [[g1 tb]|] eqn:Es; [|discriminate Eb].
      cbn [option_map snd] in Eb. injection Eb as ->.
      destruct (IH f' (le_S _ _ (le_n _))) as [_ IHs].
      destruct (stmts_AgSS3 f' IHs fw' b _ _ _ _ (G2_push _ Hg) Es Hi) as [HA Htl].
      eapply (block_node2 P VRs VRs_unit f' g b m t g1); assumption.
    - (* call *)
      match type of Hsc with context [find_fn P ?fn] => destruct (find_fn P fn) as [d|] eqn:Ef end;
        [|discriminate Hsc].
      bsplit. eqs. subst t. destruct (find_fn_sc3 _ _ Ef) as [Hb Hib]. destruct (G2_ne _ Hg) as [Hne Hla].
      eapply (call_node P VRs); try exact VRs_bool; try exact VRs_unit; try eassumption.
      + eapply args_AgE3; eassumption.
      + eapply block_AgB3; try eassumption.
        * intros k Hk. apply (IH k). lia.
        * destruct (tbind_all_cons [] [[]] (fn_params d) true) as [gs' ->]. split; [cbn; lia|reflexivity].
    - bsplit. eqs.
      apply (if_node2 P VRs VRs_bool f g c t0 e m t); try assumption;
        try (eapply IHe; eassumption); now apply (KP_imp3 P Hfns_imp3).
    - bsplit. eqs. subst to. apply cast_node_p2; try assumption. eapply IHe; eassumption.
  Qed.

  Lemma InvS3_step f : (forall k, (k <= f)%nat -> InvE3 k /\ InvS3 k) -> InvS3 (S f).
  Proof.
    intros IH fw g [si m] g' t Hg Hsc Hi. destruct (IH f (le_n _)) as [IHe _]. destruct fw as [|fw]; [discriminate Hsc|]. cbn [sc3_stmt] in Hsc.
    destruct si; try discriminate Hsc; cbn [imp3_stmt] in Hi.
    - destruct p as [[] mp tp]; try discriminate Hsc.
      destruct (sc3_expr fw P g e) eqn:He; [|discriminate Hsc].
      destruct (vt_eqb tp (e_ty e)) eqn:Ht; [|discriminate Hsc]. cbn [andb] in Hsc. injection Hsc as <- <-.
      eqs. subst tp. apply (let_node2 P VRs VRs_unit). eapply IHe; eassumption.
    - destruct (sc3_expr fw P g e) eqn:He; [|discriminate Hsc]. injection Hsc as <- <-.
      apply (letmut_node2 P VRs VRs_unit). eapply IHe; eassumption.
    - destruct accs; [|discriminate Hsc]. destruct (tlookup g name) as [[tx []]|] eqn:El; try discriminate Hsc.
      destruct (vt_eqb tx (e_ty e)) eqn:Ht; [|discriminate Hsc].
      destruct (sc3_expr fw P g e) eqn:He; [|discriminate Hsc]. cbn [andb] in Hsc. injection Hsc as <- <-.
      eqs. subst tx. eapply (assign_node2 P VRs VRs_unit); [eapply IHe; eassumption|exact El].
    - (* for *)
      destruct p as [[] mp tp]; try discriminate Hsc. destruct arr as [[] ma ta]; try discriminate Hsc.
      match type of Hsc with (if ?c then _ else _) = _ => destruct c eqn:Hc end; [|discriminate Hsc].
      destruct (sc3_block fw P (tbind ([] :: g) name tp false) body) as [tb|] eqn:Eb; [|discriminate Hsc].
      injection Hsc as <- <-. bsplit. eqs. subst tp.
      destruct ta as [| |[|[] b2| | | |] n2| | |]; try discriminate. bsplit.
      repeat match goal with Hq : (_ =? _) = true |- _ => apply N.eqb_eq in Hq end. subst b2 n2.
      repeat match goal with Hq : (_ <=? _) = true |- _ => apply N.leb_le in Hq end.
      destruct f as [|f']; [intros ph en E fT w E' o' _ _; exact I|].
      destruct fw as [|fw']; [discriminate Eb|]. rewrite sc3_block_S in Eb.
      destruct (sc3_stmts fw' P body (tbind ([] :: g) name (TInt false bits) false) unit_ty) as [[g1 tb']|] eqn:Es;
        [|discriminate Eb].
      destruct (IH f' (le_S _ _ (le_n _))) as [_ IHs].
      destruct (stmts_AgSS3 f' IHs fw' body _ _ _ _ (G2_tbind _ _ _ _ (G2_push _ Hg)) Es Hi) as [HA Htl].
      rewrite tl_tbind in Htl. cbn [tl] in Htl.
      eapply (for_node2 P f' g name mp lo hi bits ma body m g1 tb'); eassumption.
    - destruct (sc3_expr fw P g e) eqn:He; [|discriminate Hsc]. injection Hsc as <- <-.
      apply sexpr_node2. eapply IHe; eassumption.
  Qed.

  Theorem agree_all3 : forall fuel, InvE3 fuel /\ InvS3 fuel.
  Proof.
    induction fuel as [fuel IH] using lt_wf_ind. destruct fuel as [|f].
    - split; [intros fw g e _ _ _ ph en E fT w E' o' _ _|intros fw g s g' t _ _ _ ph en E fT w E' o' _ _]; exact I.
    - split.
      + apply InvE3_step. intros k Hk. apply IH. lia.
      + apply InvS3_step. intros k Hk. apply IH. lia.
  Qed.
End Main3.
Print Assumptions agree_all3.

(* ------------------------------------------------------------------ the theorems, spelled out *)

(* AGREEMENT with calls, expressions.  [sc3_fns fwp P]: every function of the program is in the
   fragment; [G2 g]: the context has the empty global scope under at least one more scope *)
Theorem tsem_sem_imp3_expr P fwp fuel fw g e en E fT w E' o' :
  sc3_fns fwp P = true -> G2 g -> sc3_expr fw P g e = true -> imp3_expr e = true ->
  env_rel3 VRs en E g -> lower_expr tops fT P e E None = Ok ((w, E'), o') ->
  match Sem.eval fuel P en e with
  | Sem.Done (v, en') => o' = None /\ VRs (e_ty e) v w /\ env_rel3 VRs en' E' g
  | Sem.Panicked r m => o' = Some (preason_num (pr r), ploc32 (ploc_of m))
  | Sem.Stuck _ | Sem.NoFuel => True
  end.
Proof.
  intros Hf Hg Hsc Hi Hrel Hrun.
  pose proof (proj1 (agree_all3 P fwp Hf fuel) fw g e Hg Hsc Hi _ en E fT w E' o'
                (relP_of_env_rel3 VRs en E g Hrel) Hrun) as H. revert H.
  destruct (Sem.eval fuel P en e) as [[v en']|r m|c|]; intro H; try exact H.
  destruct H as (-> & HV & Hr). repeat split; [exact HV|].
  eapply env_rel3_of_relP; [exact Hr|apply forallb_negb_repeat].
Qed.
Print Assumptions tsem_sem_imp3_expr.

Theorem tsem_sem_imp3_stmt P fwp fuel fw g s g' t en E fT w E' o' :
  sc3_fns fwp P = true -> G2 g -> sc3_stmt fw P g s = Some (g', t) -> imp3_stmt s = true ->
  env_rel3 VRs en E g -> lower_stmt tops fT P s E None = Ok ((w, E'), o') ->
  match Sem.exec fuel P en s with
  | Sem.Done (v, en') => o' = None /\ VRs t v w /\ env_rel3 VRs en' E' g'
  | Sem.Panicked r m => o' = Some (preason_num (pr r), ploc32 (ploc_of m))
  | Sem.Stuck _ | Sem.NoFuel => True
  end.
Proof.
  intros Hf Hg Hsc Hi Hrel Hrun. destruct E as [|cs E0].
  { (* no scope at all: impossible for related environments with G2 g *)
    exfalso. unfold env_rel3 in Hrel. inversion Hrel; subst. destruct Hg as [Hl _]. cbn in Hl. lia. }
  pose proof (relP_of_env_rel3 VRs en (cs :: E0) g Hrel) as Hr0. cbn [length repeat] in Hr0.
  pose proof (proj2 (agree_all3 P fwp Hf fuel) fw g s g' t Hg Hsc Hi _ en (cs :: E0) fT w E' o' Hr0 Hrun) as H.
  revert H. destruct (Sem.exec fuel P en s) as [[v en']|r m|c|]; intro H; try exact H.
  destruct H as (-> & HV & Hr). repeat split; [exact HV|].
  eapply env_rel3_of_relP; [exact Hr|]. cbn [forallb negb andb]. apply forallb_negb_repeat.
Qed.
Print Assumptions tsem_sem_imp3_stmt.

Theorem tsem_sem_imp3_block P fwp fuel fw g b t en E fT w E' o' :
  sc3_fns fwp P = true -> G2 g -> sc3_block fw P ([] :: g) b = Some t -> forallb imp3_stmt b = true ->
  env_rel3 VRs en E g -> lower_block tops fT P b E None = Ok ((w, E'), o') ->
  match Sem.obind (Sem.exec_block fuel P (Sem.push_scope en) b)
                  (fun '(v, en1) => Sem.Done (v, Sem.pop_scope en1)) with
  | Sem.Done (v, en') => o' = None /\ VRs t v w /\ env_rel3 VRs en' E' g
  | Sem.Panicked r m => o' = Some (preason_num (pr r), ploc32 (ploc_of m))
  | Sem.Stuck _ | Sem.NoFuel => True
  end.
Proof.
  intros Hf Hg Hsc Hi Hrel Hrun.
  pose proof (block_AgB3 P fuel (fun k _ => proj2 (agree_all3 P fwp Hf k)) fw g b t Hg Hsc Hi
                _ en E fT w E' o' (relP_of_env_rel3 VRs en E g Hrel) Hrun) as H. revert H.
  destruct (Sem.obind (Sem.exec_block fuel P (Sem.push_scope en) b) _) as [[v en']|r m|c|]; intro H; try exact H.
  destruct H as (-> & HV & Hr). repeat split; [exact HV|].
  eapply env_rel3_of_relP; [exact Hr|apply forallb_negb_repeat].
Qed.
Print Assumptions tsem_sem_imp3_block.

(* ------------------------------------------------------------------ whole programs with calls *)

Theorem tsem_sem_program3 P d fuel fw fT args o outs :
  p_consts P = [] -> find_fn P (p_main P) = Some d ->
  forallb (fun p : N * ty => scalar_ty (snd p)) (fn_params d) = true ->
  sc3_fns fw P = true ->
  tsem_program fT P args = Ok (o, outs) ->
  match Sem.run_main fuel P args with
  | Sem.RunOk bits _ => o = None /\ outs = bits
  | Sem.RunPanic r m => o = Some (preason_num (pr r), ploc32 (ploc_of m))
  | Sem.RunStuck _ | Sem.RunNoFuel => True
  end.
Proof.
  intros Hc Hfind Hsp Hf Hrun.
  destruct (find_fn_sc3 P fw Hf _ _ Hfind) as [Hsc Hi].
  unfold tsem_program in Hrun. rewrite Hfind in Hrun.
  destruct (negb (same_len (fn_params d) args)); [discriminate Hrun|].
  unfold main_env, global_scope in Hrun. rewrite Hc in Hrun. cbn [fold_left bind] in Hrun.
  destruct (fold_left (fun Er b => let* E := Er in env_let E (fst b) (snd b))
              (combine (map fst (fn_params d)) args) (Ok (env_push [[]]))) as [E0| |] eqn:Ef;
    cbn [bind] in Hrun; try discriminate Hrun.
  destruct (lower_block tops fT P (fn_body d) E0 None) as [[[w E'] o1]| |] eqn:Hb; cbn [bind] in Hrun;
    try discriminate Hrun. injection Hrun as <- <-.
  unfold Sem.run_main. rewrite Hfind.
  destruct (Sem.decode_args P (fn_params d) args) as [vals|] eqn:Ed; [|exact I].
  unfold Sem.eval_consts. rewrite Hc.
  assert (Hrel0 : env_rel3 VRs (Sem.push_scope (Sem.mkEnv [[]] false)) (env_push [[]]) ([] :: [[]])).
  { apply rel_push. unfold env_rel3. cbn [Sem.scopes]. constructor; [|constructor].
    split; [exact I|]. intro x. cbn. auto. }
  pose proof (init_rel P _ _ _ Ed Hsp _ _ _ _ Hrel0 Ef) as Hrel.
  assert (Hg : G2 (tbind_all [[]; []] (fn_params d) true)).
  { destruct (tbind_all_cons [] [[]] (fn_params d) true) as [gs' ->]. split; [cbn; lia|reflexivity]. }
  pose proof (tsem_sem_imp3_block P fw fuel fw _ _ _ _ _ fT _ _ _ Hf Hg Hsc Hi Hrel Hb) as H. revert H.
  destruct (Sem.exec_block fuel P (Sem.push_scope (Sem.bind_all (Sem.push_scope (Sem.mkEnv [[]] false)) vals))
              (fn_body d)) as [[v en1]|r m|c|]; cbn [Sem.obind]; intro H; try exact I; [|exact H].
  destruct H as (-> & HV & _).
  destruct (Sem.encode Sem.ty_fuel P (fn_ret d) v) as [bits|] eqn:Ee; [|exact I].
  split; [reflexivity|]. symmetry. eapply encode_VRs; eassumption.
Qed.
Print Assumptions tsem_sem_program3.

(* the boolean membership test of the fragment (programs without global constants, scalar
   parameters of main, every function of the program in the fragment) and its soundness *)
Definition in_imp_fragment3 (fw : nat) (P : program) : bool :=
  match p_consts P, find_fn P (p_main P) with
  | [], Some d => forallb (fun p : N * ty => scalar_ty (snd p)) (fn_params d) && sc3_fns fw P
  | _, _ => false
  end.

Theorem in_imp_fragment3_sound P fuel fw fT args o outs :
  in_imp_fragment3 fw P = true -> tsem_program fT P args = Ok (o, outs) ->
  match Sem.run_main fuel P args with
  | Sem.RunOk bits _ => o = None /\ outs = bits
  | Sem.RunPanic r m => o = Some (preason_num (pr r), ploc32 (ploc_of m))
  | _ => True
  end.
Proof.
  unfold in_imp_fragment3. intros H Hrun.
  destruct (p_consts P) eqn:Hc; [|discriminate H].
  destruct (find_fn P (p_main P)) as [d|] eqn:Hfind; [|discriminate H].
  apply andb_prop in H. destruct H as [Hsp Hf].
  pose proof (tsem_sem_program3 P d fuel fw fT args o outs Hc Hfind Hsp Hf Hrun) as HH.
  destruct (Sem.run_main fuel P args); exact HH || exact I.
Qed.
Print Assumptions in_imp_fragment3_sound.

(* ------------------------------------------------------------------ sanity: match with literal,
   range and identifier patterns; an arm that assigns; an arm that panics *)
Module SanityMatch.
  Definition mm (k : N) : meta := mkMeta k 1 k 9.
  Definition u8 := TInt false 8.
  (* pub fn main(x: u8, y: u8) -> u8 {
       let mut r = y;
       let z = match x { 0 => { r = 1u8; 7u8 }, 1..=9 => x + y, 200 => y + 100u8, n => n - y };
       z + r } *)
  Definition vx := Ex (EId 2) (mm 1) u8.
  Definition vy := Ex (EId 3) (mm 2) u8.
  Definition main_fn : fndef :=
    mkFn 11 [(2, u8); (3, u8)] u8
      [ St (SLetMut 5 vy) (mm 3);
        St (SLet (Pat (PId 6) (mm 4) u8)
             (Ex (EMatch vx
                [ (Pat (PNumU 0) (mm 5) u8,
                   Ex (EBlock [St (SAssign 5 [] (Ex (ENumU 1 8) (mm 6) u8)) (mm 7);
                               St (SExpr (Ex (ENumU 7 8) (mm 8) u8)) (mm 9)]) (mm 10) u8);
                  (Pat (PURange 1 9) (mm 11) u8, Ex (EOp OAdd vx vy) (mm 12) u8);
                  (Pat (PNumU 200) (mm 13) u8, Ex (EOp OAdd vy (Ex (ENumU 100 8) (mm 14) u8)) (mm 15) u8);
                  (Pat (PId 7) (mm 16) u8, Ex (EOp OSub (Ex (EId 7) (mm 17) u8) vy) (mm 18) u8) ])
                (mm 19) u8)) (mm 20);
        St (SExpr (Ex (EOp OAdd (Ex (EId 6) (mm 21) u8) (Ex (EId 5) (mm 22) u8)) (mm 23) u8)) (mm 24) ].
  Definition P0 : program := mkProgram [] [] [main_fn] [] 11.

  Example accepted : in_imp_fragment3 12 P0 = true.
  Proof. vm_compute. reflexivity. Qed.

  Ltac run a b :=
    destruct (tsem_program 14 P0 [enc 8 a; enc 8 b]) as [[o outs]| |] eqn:Hrun;
      [|vm_compute in Hrun; discriminate Hrun|vm_compute in Hrun; discriminate Hrun];
    pose proof (in_imp_fragment3_sound P0 14 12 14 _ o outs accepted Hrun) as H.

  (* first arm: the assignment in the arm is visible afterwards: 7 + 1 *)
  Example arm0 : exists o outs l, tsem_program 14 P0 [enc 8 0; enc 8 50] = Ok (o, outs) /\
    Sem.run_main 14 P0 [enc 8 0; enc 8 50] = Sem.RunOk (enc 8 8) l /\ o = None /\ outs = enc 8 8.
  Proof.
    run 0%Z 50%Z.
    assert (exists l, Sem.run_main 14 P0 [enc 8 0; enc 8 50] = Sem.RunOk (enc 8 8) l) as [l Ev]
      by (eexists; vm_compute; reflexivity).
    rewrite Ev in H. destruct H as [-> ->]. exists None, (enc 8 8), l. repeat split; assumption || reflexivity.
  Qed.

  (* third arm selected and panics (200 + 100), although the fourth arm (200 - 200 = 0) does not *)
  Example arm2_panics : exists o outs, tsem_program 14 P0 [enc 8 200; enc 8 200] = Ok (o, outs) /\
    Sem.run_main 14 P0 [enc 8 200; enc 8 200] = Sem.RunPanic Sem.ROverflow (mm 15) /\
    o = Some (preason_num Overflow, ploc32 (ploc_of (mm 15))).
  Proof.
    run 200%Z 200%Z.
    assert (Sem.run_main 14 P0 [enc 8 200; enc 8 200] = Sem.RunPanic Sem.ROverflow (mm 15)) as Ev
      by (vm_compute; reflexivity).
    rewrite Ev in H. eauto.
  Qed.

  (* last arm (identifier): 250 - 200 = 50, then + 200.  The second and the third arm are evaluated
     by the circuit too and both overflow (250 + 200, 200 + 100): these panics are masked *)
  Example arm3_masks : exists o outs l, tsem_program 14 P0 [enc 8 250; enc 8 200] = Ok (o, outs) /\
    Sem.run_main 14 P0 [enc 8 250; enc 8 200] = Sem.RunOk (enc 8 250) l /\ o = None /\ outs = enc 8 250.
  Proof.
    run 250%Z 200%Z.
    assert (exists l, Sem.run_main 14 P0 [enc 8 250; enc 8 200] = Sem.RunOk (enc 8 250) l) as [l Ev]
      by (eexists; vm_compute; reflexivity).
    rewrite Ev in H. destruct H as [-> ->]. exists None, (enc 8 250), l. repeat split; assumption || reflexivity.
  Qed.
End SanityMatch.
