(* Fuel sufficiency for the Boolean instance of the lowering: a computable bound
   [fuel_needed P] such that [tsem_program] with at least that much fuel never answers
   [OutOfFuel]; with Compile/TSemSafe.v: on accepted programs it answers [Ok], with a result
   of the size of main's return type ([tsem_program_terminates]).

   [OutOfFuel] arises only where a fuel reaches 0: the fuel of the four fixpoints
   [lower_expr] / [lower_block] / [lower_stmt] / [lower_pattern] (one unit per level of the
   tree; a call continues in the callee's body; [x * literal] continues in the sum the
   product is rewritten to) and the local fuels of [index_layer] and [write_elems], which are
   always sufficient ([S (length arr)]).  So absence of [OutOfFuel] is a property of the tree
   alone ([nff]: "never out of fuel", whatever environment and state), independent of typing. *)
From Coq Require Import Lia.
From GV Require Import Base.Util Base.NMap Lang.Ast Lang.Wt Lang.ValTy Circuit.Ssa Builder.Builder Builder.Build
  Gadgets.Gadgets Gadgets.Extend Panic.PanicRec Panic.PanicSem
  Compile.Lower Compile.TSem Compile.SimBase Compile.LowerSound Compile.TSemShape Compile.TSemSafe.
From GV Require Lang.Sem.
Local Open Scope nat_scope.

(* ------------------------------------------------------------------ never out of fuel *)

Definition rnf {A} (r : res A) : Prop := match r with OutOfFuel => False | _ => True end.
Definition nff {A} (m : pobs -> res (A * pobs)) : Prop := forall o, rnf (m o).

Lemma nff_ret {A} (a : A) : nff (ret a). Proof. intro o. exact I. Qed.
Lemma nff_crash {A} : nff (crash (A:=A)). Proof. intro o. exact I. Qed.
Lemma nff_lift {A} (r : res A) : rnf r -> nff (lift_res r).
Proof. intros H o. destruct r; [exact I|exact I|contradiction]. Qed.
Lemma nff_bind {A B} (m : pobs -> res (A * pobs)) (k : A -> pobs -> res (B * pobs)) :
  nff m -> (forall a, nff (k a)) -> nff (mbind m k).
Proof.
  intros Hm Hk o. unfold mbind. specialize (Hm o). destruct (m o) as [[a o']| |]; [apply Hk|exact I|contradiction].
Qed.
Lemma rnf_bind {A B} (r : res A) (f : A -> res B) : rnf r -> (forall a, rnf (f a)) -> rnf (bind r f).
Proof. intros Hr Hf. destruct r; [apply Hf|exact I|contradiction]. Qed.
Lemma rnf_ok {A} (a : A) : rnf (Ok a). Proof. exact I. Qed.
Lemma rnf_crash {A} : rnf (Crash (A:=A)). Proof. exact I. Qed.

(* the operations of the Boolean instance answer Ok or Crash *)
Ltac prim :=
  let o := fresh "o" in
  intro o;
  cbv [m_xor m_and m_or m_eq m_not m_mux m_panic_if m_peek m_replace m_mux_panic
       o_xor o_and o_or o_eq o_not o_mux o_negation o_addition o_subtraction o_multiplier o_udiv o_sdiv
       o_comparator o_eq_circuit o_merger o_sorter o_panic_if o_peek o_replace o_mux_panic tops tret rnf];
  repeat match goal with |- context [if ?c then _ else _] => destruct c end; exact I.

Create HintDb nff.
#[local] Hint Resolve nff_ret nff_crash rnf_ok rnf_crash : nff.

Ltac nf_step :=
  match goal with
  | |- nff (ret _) => apply nff_ret
  | |- nff crash => apply nff_crash
  | |- nff (lift_res _) => apply nff_lift
  | |- nff (mbind _ _) => apply nff_bind; [|intros; cbv beta]
  | |- rnf (bind _ _) => apply rnf_bind; [|intros; cbv beta]
  | |- rnf (Ok _) => exact I
  | |- rnf Crash => exact I
  | |- nff (match ?x with _ => _ end) => destruct x
  | |- rnf (match ?x with _ => _ end) => destruct x
  | |- _ => solve [auto with nff]
  | |- nff _ => solve [prim]
  end.
Ltac nf := repeat nf_step.

(* ------------------------------------------------------------------ pure helpers *)

Lemma rnf_slice {A} (v : list A) a n : rnf (slice v a n).
Proof. unfold slice. nf. Qed.
Lemma rnf_splice {A} (v : list A) a n w : rnf (splice v a n w).
Proof. unfold splice. nf. Qed.
Lemma rnf_hd {A} (l : list A) : rnf (hd_res l).
Proof. unfold hd_res. nf. Qed.
Lemma rnf_of_option {A} (o : option A) : rnf (of_option o).
Proof. unfold of_option. nf. Qed.
Lemma rnf_extend (v : list bool) sg bits : rnf (extend_g tops v sg bits).
Proof. unfold extend_g. nf. Qed.
Lemma rnf_array_size P t : rnf (array_size P t).
Proof. unfold array_size. nf. Qed.
Lemma rnf_tuple_offsets P t i : rnf (tuple_offsets P t i).
Proof. unfold tuple_offsets. nf. Qed.
Lemma rnf_field_offsets P : forall fs f b, rnf (field_offsets P fs f b).
Proof. induction fs as [|[k t] fs IH]; intros f b; cbn [field_offsets]; nf. Qed.
Lemma rnf_struct_offsets P t f : rnf (struct_offsets P t f).
Proof. unfold struct_offsets. nf; apply rnf_field_offsets. Qed.
Lemma rnf_max_filled b : rnf (max_filled_bits b).
Proof. unfold max_filled_bits. nf. Qed.
Lemma rnf_env_let (E : @cenv bool) x v : rnf (env_let E x v).
Proof. unfold env_let. nf. Qed.
Lemma rnf_env_pop (E : @cenv bool) : rnf (env_pop E).
Proof. unfold env_pop. nf. Qed.
Lemma rnf_env_assign : forall (E : @cenv bool) x v, rnf (env_assign E x v).
Proof. induction E as [|s r IH]; intros x v; cbn [env_assign]; nf. Qed.
Lemma rnf_insert_at (v : list bool) i x : rnf (insert_at v i x).
Proof. unfold insert_at. nf. Qed.
Lemma rnf_remove_at (v : list bool) i : rnf (remove_at v i).
Proof. unfold remove_at. nf. Qed.
Lemma rnf_mapM_res {A B} (f : A -> res B) : (forall a, rnf (f a)) -> forall l, rnf (mapM_res f l).
Proof. intros Hf. induction l as [|a l IH]; cbn [mapM_res]; nf; try apply Hf. Qed.
Lemma rnf_chunks fuel eb : forall n (v : list bool), rnf (chunks fuel v eb n).
Proof. induction n as [|k IH]; intro v; cbn [chunks]; nf; try apply rnf_slice. Qed.
Lemma rnf_bitonic_input (a b : list bool) eba na ebb nb jts : rnf (bitonic_input tops a b eba na ebb nb jts).
Proof.
  unfold bitonic_input. nf; try apply rnf_chunks; apply rnf_mapM_res; intro; apply rnf_insert_at.
Qed.
Lemma rnf_fold_let : forall (bs : list (N * list bool)) (r : res (@cenv bool)), rnf r ->
  rnf (fold_left (fun Er b => let* E' := Er in env_let E' (fst b) (snd b)) bs r).
Proof.
  induction bs as [|b bs IH]; intros r Hr; cbn [fold_left]; [exact Hr|].
  apply IH. apply rnf_bind; [exact Hr|]. intro E'. apply rnf_env_let.
Qed.
Lemma rnf_bind_all (bs : list (N * list bool)) (E : @cenv bool) : rnf (bind_all E bs).
Proof. unfold bind_all. apply rnf_fold_let. exact I. Qed.

#[local] Hint Resolve rnf_slice rnf_splice rnf_hd rnf_of_option rnf_extend rnf_array_size rnf_tuple_offsets
  rnf_struct_offsets rnf_max_filled rnf_env_let rnf_env_pop rnf_env_assign rnf_remove_at
  rnf_bitonic_input rnf_bind_all : nff.

(* ------------------------------------------------------------------ monadic helpers *)

Notation MBt A := (pobs -> res (A * pobs)).

Lemma nff_mapM {A C} (f : A -> MBt C) : (forall a, nff (f a)) -> forall l, nff (mapM_M f l).
Proof. intro Hf. induction l as [|a l IH]; cbn [mapM_M]; nf. Qed.

Lemma nff_map2 (f : bool -> bool -> MBt bool) : (forall a b, nff (f a b)) -> forall xs ys, nff (map2_M f xs ys).
Proof. intro Hf. induction xs as [|x xs IH]; intros [|y ys]; cbn [map2_M]; nf. Qed.

Lemma nff_extend (v : list bool) t bits : nff (m_extend tops v t bits).
Proof. unfold m_extend. nf. Qed.
#[local] Hint Resolve nff_extend : nff.

Lemma nff_mux_bits c (xs ys : list bool) : nff (mux_bits tops c xs ys).
Proof. unfold mux_bits. nf. apply nff_map2. intros; prim. Qed.
#[local] Hint Resolve nff_mux_bits : nff.

Lemma nff_mux_scope c (b : @scope bool) : forall a, nff (mux_scope tops c a b).
Proof. induction a as [|[k va] a IH]; cbn [mux_scope]; nf. Qed.

Lemma nff_mux_scopes c : forall (sa sb : list (@scope bool)), nff (mux_scopes tops c sa sb).
Proof. induction sa as [|a sa IH]; intros [|b sb]; cbn [mux_scopes]; nf. apply nff_mux_scope. Qed.

Lemma nff_mux_envs c (a b : @cenv bool) : nff (mux_envs tops c a b).
Proof. unfold mux_envs. nf. apply nff_mux_scopes. Qed.
#[local] Hint Resolve nff_mux_envs : nff.

(* the local fuels are sufficient *)
Lemma nff_index_layer s eb : 0 < eb -> forall fuel (arr : list bool), length arr < fuel ->
  nff (index_layer tops fuel s arr eb).
Proof.
  intro Heb. induction fuel as [|f IH]; intros arr L; [lia|]. cbn [index_layer].
  destruct arr as [|a0 arr0] eqn:Ea; [nf|]. rewrite <- Ea in *.
  assert (1 <= length arr) by (rewrite Ea; cbn [length]; lia). clear Ea a0 arr0. cbv zeta.
  destruct (skipn eb arr) as [|b0 r0] eqn:Er.
  - apply nff_mapM. intro; prim.
  - apply nff_bind; [apply nff_map2; intros; prim|]. intro ws.
    apply nff_bind; [|intro; nf]. apply IH.
    rewrite <- Er, !skipn_length. lia.
Qed.

Lemma nff_index_layers eb : forall (idx arr : list bool), nff (index_layers tops idx arr eb).
Proof.
  induction idx as [|s idx IH]; intro arr; cbn [index_layers]; [nf|].
  apply nff_bind; [|intro; apply IH]. destruct (Nat.eqb_spec eb 0); [nf|].
  apply nff_index_layer; lia.
Qed.
#[local] Hint Resolve nff_index_layers : nff.

Lemma nff_bounds_check (index : list bool) n m : nff (bounds_check tops index n m).
Proof. unfold bounds_check. nf. Qed.
#[local] Hint Resolve nff_bounds_check : nff.

Lemma nff_array_read (arr idx : list bool) eb n m : nff (array_read tops arr idx eb n m).
Proof. unfold array_read. nf. Qed.
#[local] Hint Resolve nff_array_read : nff.

Lemma nff_write_chain x0 i : forall (index neg : list bool) x1, nff (write_chain tops x0 x1 i index neg).
Proof. induction index as [|ix ir IH]; intros [|nx nr] x1; cbn [write_chain]; nf. Qed.

Lemma nff_write_elem i (index neg : list bool) : forall (elem value : list bool),
  nff (write_elem tops elem value i index neg).
Proof. induction elem as [|x0 er IH]; intros [|v vr]; cbn [write_elem]; nf. apply nff_write_chain. Qed.

Lemma nff_write_elems eb (value index neg : list bool) : forall fuel (arr : list bool) i,
  0 < eb \/ arr = [] -> length arr < fuel -> nff (write_elems tops fuel arr eb value i index neg).
Proof.
  induction fuel as [|f IH]; intros arr i Hc L; [lia|]. cbn [write_elems].
  destruct (Nat.ltb_spec (length arr) eb) as [Hlt|Hge]; [nf|].
  destruct arr as [|a0 arr0] eqn:Ea; [nf|]. rewrite <- Ea in *.
  assert (1 <= length arr) by (rewrite Ea; cbn [length]; lia).
  destruct Hc as [Heb|Hnil]; [|rewrite Hnil in Ea; discriminate Ea]. clear Ea a0 arr0.
  apply nff_bind; [apply nff_write_elem|]. intro e.
  apply nff_bind; [|intro; nf]. apply IH; [now left|]. rewrite skipn_length. lia.
Qed.

Lemma nff_array_write (arr : list bool) eb size (iw value : list bool) m : nff (array_write tops arr eb size iw value m).
Proof.
  unfold array_write. nf.
  - apply nff_mapM. intro; prim.
  - apply nff_write_elems.
    + destruct eb as [|eb]; [right; now rewrite Nat.mul_0_r|left; lia].
    + rewrite firstn_length. lia.
Qed.
#[local] Hint Resolve nff_array_write : nff.

(* operators *)
Lemma nff_shift_layers left fill : forall (y_rev v : list bool) sh, nff (shift_layers tops left fill v y_rev sh).
Proof. induction y_rev as [|s r IH]; intros v sh; cbn [shift_layers]; nf. apply nff_map2. intros; prim. Qed.
Lemma nff_or_all : forall (ws : list bool) acc, nff (or_all_M tops acc ws).
Proof. induction ws as [|w r IH]; intro acc; cbn [or_all_M]; nf. Qed.
Lemma nff_eq_acc : forall (xys : list (bool * bool)) acc, nff (eq_acc tops acc xys).
Proof. induction xys as [|[x y] r IH]; intro acc; cbn [eq_acc]; nf. Qed.
Lemma nff_and_not_all : forall (ws : list bool) acc, nff (and_not_all tops acc ws).
Proof. induction ws as [|w r IH]; intro acc; cbn [and_not_all]; nf. Qed.
Lemma nff_mul_row xi : forall (yzs : list (bool * bool)) c acc, nff (mul_row tops xi yzs c acc).
Proof. induction yzs as [|[yj z] r IH]; intros c acc; cbn [mul_row]; nf. Qed.
Lemma nff_mul_rows (y : list bool) : forall (xs : list bool) prev acc, nff (mul_rows tops xs y prev acc).
Proof. induction xs as [|xi r IH]; intros prev acc; cbn [mul_rows]; nf. apply nff_mul_row. Qed.
#[local] Hint Resolve nff_shift_layers nff_or_all nff_eq_acc nff_and_not_all nff_mul_rows : nff.

Lemma nff_lower_mul sg (x y : list bool) m : nff (lower_mul tops sg x y m).
Proof. unfold lower_mul. nf; apply nff_map2; intros; prim. Qed.
#[local] Hint Resolve nff_lower_mul : nff.

Lemma nff_lower_binop o t tx ty_ (x y : list bool) m : nff (lower_binop tops o t tx ty_ x y m).
Proof. unfold lower_binop. nf; apply nff_map2; intros; prim. Qed.
Lemma nff_lower_shift left sg (x y : list bool) m : nff (lower_shift tops left sg x y m).
Proof. unfold lower_shift. nf. Qed.
#[local] Hint Resolve nff_lower_binop nff_lower_shift : nff.

Lemma nff_one_wire (w : list bool) : nff (one_wire (Cs:=pobs) w).
Proof. unfold one_wire. nf. Qed.
#[local] Hint Resolve nff_one_wire : nff.

Lemma nff_window_binding (w0_ w1_ : list bool) eba ebb jts f ib : nff (window_binding tops w0_ w1_ eba ebb jts f ib).
Proof. unfold window_binding. nf. Qed.
#[local] Hint Resolve nff_window_binding : nff.

Lemma nff_join_func_windows eba ebb jts ha : forall (ws : list (list bool)), nff (join_func_windows tops eba ebb jts ha ws).
Proof.
  induction ws as [|w0_ ws IH]; [cbn [join_func_windows]; nf|].
  destruct ws as [|w1_ r]; [cbn [join_func_windows]; nf|].
  change (join_func_windows tops eba ebb jts ha (w0_ :: w1_ :: r)) with
    (mbind (window_binding tops w0_ w1_ eba ebb jts true ha) (fun '(je, binding) =>
     mbind (match binding with
            | [] => ret []
            | h :: tlb => mbind (mapM_M (fun g => m_mux tops je g (wF tops)) tlb) (fun tl' => ret (h :: tl'))
            end) (fun bd =>
     mbind (join_func_windows tops eba ebb jts ha (w1_ :: r)) (fun rest => ret (bd :: rest))))).
  revert IH. generalize (join_func_windows tops eba ebb jts ha (w1_ :: r)) as X. intros X HX.
  nf. apply nff_mapM. intro; prim.
Qed.
#[local] Hint Resolve nff_join_func_windows : nff.

(* ------------------------------------------------------------------ the fuel a tree needs *)

Definition maxl {A} (f : A -> nat) (l : list A) : nat := fold_right (fun a m => Nat.max (f a) m) 0 l.

Lemma maxl_cons {A} (f : A -> nat) a l k : maxl f (a :: l) <= k -> f a <= k /\ maxl f l <= k.
Proof. cbn [maxl fold_right]. fold (maxl f l). intro H. apply Nat.max_lub_iff in H. exact H. Qed.

Lemma maxl_in {A} (f : A -> nat) l k : maxl f l <= k -> forall a, In a l -> f a <= k.
Proof.
  induction l as [|b l IH]; intros H a Hin; [contradiction|]. apply maxl_cons in H as [H1 H2].
  destruct Hin as [<-|Hin]; [exact H1|now apply IH].
Qed.

(* [need_* f]: one more than the greatest fuel-depth below the node, following calls into the
   callee's body and products by small literals into the sum they are rewritten to; the
   parameter [f] only bounds the exploration (recursive programs): the value is meaningful
   when it is at most [f] *)
Fixpoint need_p (f : nat) (p : pattern) {struct f} : nat :=
  match f with
  | O => 1
  | S f' =>
      S (match p with
         | Pat pi _ _ =>
             match pi with
             | PTup ps | PEnumTup _ _ ps => maxl (need_p f') ps
             | PStruct _ _ fields => maxl (fun fp => need_p f' (snd fp)) fields
             | _ => 0
             end
         end)
  end.

Fixpoint need_e (f : nat) (P : program) (e : expr) {struct f} : nat :=
  match f with
  | O => 1
  | S f' =>
      S (match e with
         | Ex ei m t =>
             match ei with
             | ETrue | EFalse | ENumU _ _ | ENumS _ _ | EId _ | ERange _ _ _ => 0
             | EArrLit es | ETupLit es | EEnumLit _ _ es => maxl (need_e f' P) es
             | EArrRep e1 _ | ETupAcc e1 _ | EFld e1 _ | ENeg e1 | ENot e1 | ECast _ e1 => need_e f' P e1
             | EIdx a i => Nat.max (need_e f' P a) (need_e f' P i)
             | EStructLit _ fields => maxl (fun fe => need_e f' P (snd fe)) fields
             | EMatch s arms =>
                 Nat.max (need_e f' P s)
                         (maxl (fun arm => Nat.max (need_p f' (fst arm)) (need_e f' P (snd arm))) arms)
             | EOp o x y =>
                 match (match o with OMul => mul_rewrite x y m t | _ => None end) with
                 | Some (operand, e') => Nat.max (need_e f' P operand) (need_e f' P e')
                 | None => Nat.max (need_e f' P x) (need_e f' P y)
                 end
             | EBlock b => need_b f' P b
             | ECall fn args =>
                 Nat.max (maxl (need_e f' P) args)
                         (match find_fn P fn with Some fd => need_b f' P (fn_body fd) | None => 0 end)
             | EJoin _ _ a b => Nat.max (need_e f' P a) (need_e f' P b)
             | EIf c a b => Nat.max (need_e f' P c) (Nat.max (need_e f' P a) (need_e f' P b))
             end
         end)
  end
with need_b (f : nat) (P : program) (b : list stmt) {struct f} : nat :=
  match f with
  | O => 1
  | S f' => S (maxl (need_s f' P) b)
  end
with need_s (f : nat) (P : program) (s : stmt) {struct f} : nat :=
  match f with
  | O => 1
  | S f' =>
      S (match s with
         | St si _ =>
             match si with
             | SLet p e => Nat.max (need_e f' P e) (need_p f' p)
             | SLetMut _ e | SExpr e => need_e f' P e
             | SAssign _ accs e =>
                 Nat.max (need_e f' P e)
                         (maxl (fun a => match a with AIdx _ i => need_e f' P i | _ => 0 end) accs)
             | SFor p arr body =>
                 Nat.max (need_e f' P arr) (Nat.max (need_p f' p) (maxl (need_s f' P) body))
             | SJoinLoop p _ a b body =>
                 Nat.max (Nat.max (need_e f' P a) (need_e f' P b))
                         (Nat.max (need_p f' p) (maxl (need_s f' P) body))
             end
         end)
  end.

Ltac mx :=
  repeat match goal with
         | H : Nat.max _ _ <= _ |- _ => apply Nat.max_lub_iff in H; destruct H
         | H : maxl _ (_ :: _) <= _ |- _ => apply maxl_cons in H; destruct H
         end.

Section NStep.
  Variable P : program.
  Variables f0 k : nat.
  Variable eB : expr -> @cenv bool -> MBt (list bool * @cenv bool).
  Variable pB : pattern -> list bool -> @cenv bool -> MBt (bool * @cenv bool).
  Variable sB : stmt -> @cenv bool -> MBt (list bool * @cenv bool).
  Variable bB : list stmt -> @cenv bool -> MBt (list bool * @cenv bool).
  Hypothesis HeN : forall c E, need_e f0 P c <= k -> nff (eB c E).
  Hypothesis HpN : forall p mw E, need_p f0 p <= k -> nff (pB p mw E).
  Hypothesis HsN : forall s E, need_s f0 P s <= k -> nff (sB s E).
  Hypothesis HbN : forall b E, need_b f0 P b <= k -> nff (bB b E).

  Lemma nff_lower_list : forall es E, maxl (need_e f0 P) es <= k -> nff (lower_list eB es E).
  Proof. induction es as [|e es IH]; intros E H; cbn [lower_list]; [nf|]. mx. nf. Qed.

  Lemma nff_lower_struct_fields fields : maxl (fun fe => need_e f0 P (snd fe)) fields <= k ->
    forall ds E, nff (lower_struct_fields eB fields ds E).
  Proof.
    intros H. induction ds as [|[fname fty] ds IH]; intro E; cbn [lower_struct_fields]; [nf|].
    destruct (assocN fname (rev fields)) as [fe|] eqn:Ef; [|nf].
    assert (need_e f0 P fe <= k) as Hfe.
    { apply assocN_In' in Ef. apply in_rev in Ef. exact (maxl_in _ _ _ H _ Ef). }
    nf.
  Qed.

  Lemma nff_fields_match (mw : list bool) : forall (ps : list (pattern * nat)) w im E,
    maxl (fun q => need_p f0 (fst q)) ps <= k -> nff (fields_match tops pB mw ps w im E).
  Proof. induction ps as [|[fp fb] ps IH]; intros w im E H; cbn [fields_match]; [nf|]. mx. cbn [fst] in *. nf. Qed.

  Lemma nff_struct_match (mw : list bool) fields : maxl (fun fp => need_p f0 (snd fp)) fields <= k ->
    forall ds w im E, nff (struct_match tops P pB mw fields ds w im E).
  Proof.
    intro H. induction ds as [|[fname fty] ds IH]; intros w im E; cbn [struct_match]; [nf|]. cbv zeta.
    destruct (assocN fname (rev fields)) as [fp|] eqn:Ef; [|apply IH].
    assert (need_p f0 fp <= k) as Hfp.
    { apply assocN_In' in Ef. apply in_rev in Ef. exact (maxl_in _ _ _ H _ Ef). }
    nf.
  Qed.

  Lemma nff_lower_arms bits (sw : list bool) E0 P0 : forall arms hp mret mp menv,
    maxl (fun arm => Nat.max (need_p f0 (fst arm)) (need_e f0 P (snd arm))) arms <= k ->
    nff (lower_arms tops eB pB bits sw E0 P0 arms hp mret mp menv).
  Proof.
    induction arms as [|[pat body] arms IH]; intros hp mret mp menv H; cbn [lower_arms]; [nf|].
    mx. cbn [fst snd] in *. nf. apply nff_map2. intros; prim.
  Qed.

  Lemma nff_lower_args : forall (ps : list (N * ty)) args E, maxl (need_e f0 P) args <= k ->
    nff (lower_args eB ps args E).
  Proof.
    induction ps as [|[pn pt] ps IH]; intros [|a ar] E H; cbn [lower_args]; try solve [nf]. mx. nf.
  Qed.

  Lemma nff_lower_stmts : forall ss E, maxl (need_s f0 P) ss <= k -> nff (lower_stmts sB ss E).
  Proof. induction ss as [|s ss IH]; intros E H; cbn [lower_stmts]; [nf|]. mx. nf. Qed.

  Lemma nff_block_stmts : forall ss last E, maxl (need_s f0 P) ss <= k -> nff (block_stmts sB ss last E).
  Proof. induction ss as [|s ss IH]; intros last E H; cbn [block_stmts]; [nf|]. mx. nf. Qed.

  Lemma nff_for_iterations pat body eb : need_p f0 pat <= k -> maxl (need_s f0 P) body <= k ->
    forall n (aw : list bool) E, nff (for_iterations pB sB pat body eb n aw E).
  Proof.
    intros Hp Hb. induction n as [|n IH]; intros aw E; cbn [for_iterations]; [nf|]. nf. now apply nff_lower_stmts.
  Qed.

  Lemma nff_join_loop_windows pt body eba ebb jts : need_p f0 pt <= k -> maxl (need_s f0 P) body <= k ->
    forall (ws : list (list bool)) E, nff (join_loop_windows tops pB sB pt body eba ebb jts ws E).
  Proof.
    intros Hp Hb. induction ws as [|w0_ ws IH]; intro E; [cbn [join_loop_windows]; nf|].
    destruct ws as [|w1_ r]; [cbn [join_loop_windows]; nf|].
    change (join_loop_windows tops pB sB pt body eba ebb jts (w0_ :: w1_ :: r) E) with
      (mbind (window_binding tops w0_ w1_ eba ebb jts false true) (fun '(je, binding) =>
       mbind (m_peek tops) (fun Pb =>
       mbind (pB pt binding (env_push E)) (fun '(_, Ej) =>
       mbind (lower_stmts sB body Ej) (fun Ej =>
       mbind (lift_res (env_pop Ej)) (fun Ej =>
       mbind (m_replace tops Pb) (fun Pj =>
       mbind (mux_envs tops je Ej E) (fun E' =>
       mbind (m_mux_panic tops je Pj Pb) (fun Pm =>
       mbind (m_replace tops Pm) (fun _ =>
       join_loop_windows tops pB sB pt body eba ebb jts (w1_ :: r) E')))))))))).
    nf. now apply nff_lower_stmts.
  Qed.

  Lemma nff_assign_indexes m : forall accs E acc_rev,
    maxl (fun a => match a with AIdx _ i => need_e f0 P i | _ => 0 end) accs <= k ->
    nff (assign_indexes tops P eB m accs E acc_rev).
  Proof.
    induction accs as [|a accs IH]; intros E acc_rev H; cbn [assign_indexes]; [nf|]. mx.
    destruct a; nf.
  Qed.

  Lemma nff_assign_forward : forall accs (coll : list bool) idxs acc, nff (assign_forward tops P accs coll idxs acc).
  Proof. induction accs as [|a accs IH]; intros coll idxs acc; cbn [assign_forward]; [nf|]. destruct a; nf. Qed.

  Lemma nff_assign_backward m : forall acc (value : list bool), nff (assign_backward tops m acc value).
  Proof. induction acc as [|[[[before a] n] [iw|]] acc IH]; intro value; cbn [assign_backward]; nf. Qed.

  Hint Resolve nff_lower_list nff_lower_struct_fields nff_fields_match nff_struct_match nff_lower_arms
    nff_lower_args nff_lower_stmts nff_block_stmts nff_for_iterations nff_join_loop_windows
    nff_assign_indexes nff_assign_forward nff_assign_backward : nff.

  Lemma expr_nff e E : need_e (S f0) P e <= S k -> nff (lower_expr_body tops P eB pB bB e E).
  Proof.
    destruct e as [ei m t]. destruct ei; cbn [need_e lower_expr_body];
      try (intro H; apply le_S_n in H; mx; solve [nf]).
    - (* ENot *) intro H; apply le_S_n in H. nf. apply nff_mapM. intro; prim.
    - (* EOp *) destruct o; cbn [lower_expr_body];
        try (intro H; apply le_S_n in H; mx; solve [nf]).
      destruct (mul_rewrite x y m t) as [[operand e']|]; intro H; apply le_S_n in H; mx; nf.
  Qed.

  Lemma maxl_zip_sizes : forall ps fts,
    maxl (fun q : pattern * nat => need_p f0 (fst q)) (zip_sizes P ps fts) <= maxl (need_p f0) ps.
  Proof.
    induction ps as [|p ps IH]; intros [|ft fts]; cbn [zip_sizes maxl fold_right fst]; try lia.
    fold (maxl (fun q : pattern * nat => need_p f0 (fst q)) (zip_sizes P ps fts)). fold (maxl (need_p f0) ps).
    specialize (IH fts). lia.
  Qed.

  Lemma maxl_map_sizes : forall ps,
    maxl (fun q : pattern * nat => need_p f0 (fst q)) (map (fun fp => (fp, szn P (p_ty fp))) ps) = maxl (need_p f0) ps.
  Proof.
    induction ps as [|p ps IH]; cbn [map maxl fold_right fst]; [reflexivity|].
    fold (maxl (fun q : pattern * nat => need_p f0 (fst q)) (map (fun fp => (fp, szn P (p_ty fp))) ps)).
    fold (maxl (need_p f0) ps). now rewrite IH.
  Qed.

  Lemma pattern_nff p mw E : need_p (S f0) p <= S k -> nff (lower_pattern_body tops P pB p mw E).
  Proof.
    destruct p as [pi m t]. destruct pi; cbn [need_p lower_pattern_body]; intro H; apply le_S_n in H; try solve [nf].
    - apply nff_fields_match. now rewrite maxl_map_sizes.
    - nf. apply nff_fields_match. etransitivity; [apply maxl_zip_sizes|exact H].
  Qed.

  Lemma stmt_nff s E : need_s (S f0) P s <= S k -> nff (lower_stmt_body tops P eB pB sB s E).
  Proof.
    destruct s as [si m]. destruct si; cbn [need_s lower_stmt_body]; intro H; apply le_S_n in H; mx; nf.
  Qed.

  Lemma block_nff b E : need_b (S f0) P b <= S k -> nff (lower_block_body sB b E).
  Proof. cbn [need_b]. intro H. apply le_S_n in H. unfold lower_block_body. nf. Qed.
End NStep.

Theorem need_sound P : forall f,
  (forall f' e E, f' <= f -> need_e f P e <= f' -> nff (lower_expr tops f' P e E)) /\
  (forall f' p mw E, f' <= f -> need_p f p <= f' -> nff (lower_pattern tops f' P p mw E)) /\
  (forall f' s E, f' <= f -> need_s f P s <= f' -> nff (lower_stmt tops f' P s E)) /\
  (forall f' b E, f' <= f -> need_b f P b <= f' -> nff (lower_block tops f' P b E)).
Proof.
  induction f as [|f (IHe & IHp & IHs & IHb)].
  - repeat split; intros f' ? ; intros; exfalso; cbn in *; lia.
  - assert (forall k, k <= f ->
      (forall c E, need_e f P c <= k -> nff (lower_expr tops k P c E)) /\
      (forall p mw E, need_p f p <= k -> nff (lower_pattern tops k P p mw E)) /\
      (forall s E, need_s f P s <= k -> nff (lower_stmt tops k P s E)) /\
      (forall b E, need_b f P b <= k -> nff (lower_block tops k P b E))) as Hk.
    { intros k Hk. repeat split; intros; [apply IHe|apply IHp|apply IHs|apply IHb]; assumption. }
    repeat split; intros [|k] ? ; intros; try (exfalso; cbn in *; lia);
      destruct (Hk k ltac:(lia)) as (He & Hp & Hs & Hb).
    + rewrite lower_expr_S. eapply expr_nff; eassumption.
    + rewrite lower_pattern_S. eapply pattern_nff; eassumption.
    + rewrite lower_stmt_S. eapply stmt_nff; eassumption.
    + rewrite lower_block_S. eapply block_nff; eassumption.
Qed.
Print Assumptions need_sound.

(* ------------------------------------------------------------------ fuel monotonicity, for every
   operation set: a run that answers [Ok] answers the same with any larger fuel *)

Section Mono.
  Context {Wt Cs Pst : Type}.
  Variable OPS : ops Wt Cs Pst.
  Notation MG A := (Cs -> res (A * Cs)).

  Definition le_m {A} (m m' : MG A) : Prop := forall s r, m s = Ok r -> m' s = Ok r.

  Lemma le_refl {A} (m : MG A) : le_m m m.
  Proof. intros s r H. exact H. Qed.

  Lemma le_bind {A B} (m m' : MG A) (k k' : A -> MG B) :
    le_m m m' -> (forall a, le_m (k a) (k' a)) -> le_m (mbind m k) (mbind m' k').
  Proof.
    intros Hm Hk s r. unfold mbind. destruct (m s) as [[a s1]| |] eqn:E; try discriminate.
    rewrite (Hm _ _ E). apply Hk.
  Qed.

  Ltac mono_step :=
    match goal with
    | |- le_m ?m ?m => apply le_refl
    | |- le_m (mbind _ _) (mbind _ _) => apply le_bind; [|intros; cbv beta]
    | |- le_m (match ?x with _ => _ end) (match ?x with _ => _ end) => destruct x
    | |- _ => solve [auto]
    end.
  Ltac mono := repeat mono_step.

  Section Bodies.
    Variable P : program.
    Notation CE := (@cenv Wt).
    Variables eB eB' : expr -> CE -> MG (list Wt * CE).
    Variables pB pB' : pattern -> list Wt -> CE -> MG (Wt * CE).
    Variables sB sB' : stmt -> CE -> MG (list Wt * CE).
    Variables bB bB' : list stmt -> CE -> MG (list Wt * CE).
    Hypothesis He : forall e E, le_m (eB e E) (eB' e E).
    Hypothesis Hp : forall p mw E, le_m (pB p mw E) (pB' p mw E).
    Hypothesis Hs : forall s E, le_m (sB s E) (sB' s E).
    Hypothesis Hb : forall b E, le_m (bB b E) (bB' b E).

    Lemma le_lower_list : forall es E, le_m (lower_list eB es E) (lower_list eB' es E).
    Proof. induction es as [|e es IH]; intro E; cbn [lower_list]; mono. Qed.

    Lemma le_lower_struct_fields fields : forall ds E,
      le_m (lower_struct_fields eB fields ds E) (lower_struct_fields eB' fields ds E).
    Proof. induction ds as [|[fn ft] ds IH]; intro E; cbn [lower_struct_fields]; mono. Qed.

    Lemma le_lower_arms bits sw E0 P0 : forall arms hp mret mp menv,
      le_m (lower_arms OPS eB pB bits sw E0 P0 arms hp mret mp menv)
           (lower_arms OPS eB' pB' bits sw E0 P0 arms hp mret mp menv).
    Proof. induction arms as [|[pt body] arms IH]; intros hp mret mp menv; cbn [lower_arms]; mono. Qed.

    Lemma le_lower_args : forall ps args E, le_m (lower_args eB ps args E) (lower_args eB' ps args E).
    Proof. induction ps as [|[pn pt] ps IH]; intros [|a ar] E; cbn [lower_args]; mono. Qed.

    Lemma le_lower_stmts : forall ss E, le_m (lower_stmts sB ss E) (lower_stmts sB' ss E).
    Proof. induction ss as [|s ss IH]; intro E; cbn [lower_stmts]; mono. Qed.

    Lemma le_block_stmts : forall ss last E, le_m (block_stmts sB ss last E) (block_stmts sB' ss last E).
    Proof. induction ss as [|s ss IH]; intros last E; cbn [block_stmts]; mono. Qed.

    Lemma le_for_iterations pt body eb : forall n aw E,
      le_m (for_iterations pB sB pt body eb n aw E) (for_iterations pB' sB' pt body eb n aw E).
    Proof.
      induction n as [|n IH]; intros aw E; cbn [for_iterations]; mono. apply le_lower_stmts.
    Qed.

    Lemma le_join_loop_windows pt body eba ebb jts : forall ws E,
      le_m (join_loop_windows OPS pB sB pt body eba ebb jts ws E)
           (join_loop_windows OPS pB' sB' pt body eba ebb jts ws E).
    Proof.
      induction ws as [|w0_ ws IH]; intro E; [cbn [join_loop_windows]; mono|].
      destruct ws as [|w1_ r]; [cbn [join_loop_windows]; mono|].
      change (le_m
        (mbind (window_binding OPS w0_ w1_ eba ebb jts false true) (fun '(je, binding) =>
         mbind (m_peek OPS) (fun Pb =>
         mbind (pB pt binding (env_push E)) (fun '(_, Ej) =>
         mbind (lower_stmts sB body Ej) (fun Ej =>
         mbind (lift_res (env_pop Ej)) (fun Ej =>
         mbind (m_replace OPS Pb) (fun Pj =>
         mbind (mux_envs OPS je Ej E) (fun E' =>
         mbind (m_mux_panic OPS je Pj Pb) (fun Pm =>
         mbind (m_replace OPS Pm) (fun _ =>
         join_loop_windows OPS pB sB pt body eba ebb jts (w1_ :: r) E'))))))))))
        (mbind (window_binding OPS w0_ w1_ eba ebb jts false true) (fun '(je, binding) =>
         mbind (m_peek OPS) (fun Pb =>
         mbind (pB' pt binding (env_push E)) (fun '(_, Ej) =>
         mbind (lower_stmts sB' body Ej) (fun Ej =>
         mbind (lift_res (env_pop Ej)) (fun Ej =>
         mbind (m_replace OPS Pb) (fun Pj =>
         mbind (mux_envs OPS je Ej E) (fun E' =>
         mbind (m_mux_panic OPS je Pj Pb) (fun Pm =>
         mbind (m_replace OPS Pm) (fun _ =>
         join_loop_windows OPS pB' sB' pt body eba ebb jts (w1_ :: r) E'))))))))))).
      mono. apply le_lower_stmts.
    Qed.

    Lemma le_assign_indexes m : forall accs E acc_rev,
      le_m (assign_indexes OPS P eB m accs E acc_rev) (assign_indexes OPS P eB' m accs E acc_rev).
    Proof. induction accs as [|a accs IH]; intros E acc_rev; cbn [assign_indexes]; [mono|]. destruct a; mono. Qed.

    Lemma le_fields_match mw : forall ps w im E,
      le_m (fields_match OPS pB mw ps w im E) (fields_match OPS pB' mw ps w im E).
    Proof. induction ps as [|[fp fb] ps IH]; intros w im E; cbn [fields_match]; mono. Qed.

    Lemma le_struct_match mw fields : forall ds w im E,
      le_m (struct_match OPS P pB mw fields ds w im E) (struct_match OPS P pB' mw fields ds w im E).
    Proof. induction ds as [|[fn ft] ds IH]; intros w im E; cbn [struct_match]; cbv zeta; mono. Qed.

    Hint Resolve le_lower_list le_lower_struct_fields le_lower_arms le_lower_args le_lower_stmts le_block_stmts
      le_for_iterations le_join_loop_windows le_assign_indexes le_fields_match le_struct_match : core.

    Lemma le_expr_body e E : le_m (lower_expr_body OPS P eB pB bB e E) (lower_expr_body OPS P eB' pB' bB' e E).
    Proof.
      destruct e as [ei m t]. destruct ei; cbn [lower_expr_body]; mono.
    Qed.

    Lemma le_pattern_body p mw E : le_m (lower_pattern_body OPS P pB p mw E) (lower_pattern_body OPS P pB' p mw E).
    Proof. destruct p as [pi m t]. destruct pi; cbn [lower_pattern_body]; cbv zeta; mono. Qed.

    Lemma le_stmt_body s E : le_m (lower_stmt_body OPS P eB pB sB s E) (lower_stmt_body OPS P eB' pB' sB' s E).
    Proof. destruct s as [si m]. destruct si; cbn [lower_stmt_body]; cbv zeta; mono. Qed.

    Lemma le_block_body b E : le_m (lower_block_body sB b E) (lower_block_body sB' b E).
    Proof. unfold lower_block_body. mono. Qed.
  End Bodies.

  Theorem lower_fuel_mono P : forall f f', f <= f' ->
    (forall e E, le_m (lower_expr OPS f P e E) (lower_expr OPS f' P e E)) /\
    (forall p mw E, le_m (lower_pattern OPS f P p mw E) (lower_pattern OPS f' P p mw E)) /\
    (forall s E, le_m (lower_stmt OPS f P s E) (lower_stmt OPS f' P s E)) /\
    (forall b E, le_m (lower_block OPS f P b E) (lower_block OPS f' P b E)).
  Proof.
    induction f as [|f IH]; intros f' Hle.
    - repeat split; intros; intros s0 r0 H0; discriminate H0.
    - destruct f' as [|f']; [lia|]. destruct (IH f' ltac:(lia)) as (He & Hp & Hs & Hb).
      repeat split; intros.
      + change (le_m (lower_expr_body OPS P (lower_expr OPS f P) (lower_pattern OPS f P) (lower_block OPS f P) e E)
                     (lower_expr_body OPS P (lower_expr OPS f' P) (lower_pattern OPS f' P) (lower_block OPS f' P) e E)).
        now apply le_expr_body.
      + change (le_m (lower_pattern_body OPS P (lower_pattern OPS f P) p mw E)
                     (lower_pattern_body OPS P (lower_pattern OPS f' P) p mw E)).
        now apply le_pattern_body.
      + change (le_m (lower_stmt_body OPS P (lower_expr OPS f P) (lower_pattern OPS f P) (lower_stmt OPS f P) s E)
                     (lower_stmt_body OPS P (lower_expr OPS f' P) (lower_pattern OPS f' P) (lower_stmt OPS f' P) s E)).
        now apply le_stmt_body.
      + change (le_m (lower_block_body (lower_stmt OPS f P) b E) (lower_block_body (lower_stmt OPS f' P) b E)).
        now apply le_block_body.
  Qed.
End Mono.
Print Assumptions lower_fuel_mono.

(* ------------------------------------------------------------------ whole programs *)

(* exploration bound of [need_*]: more than any fuel in use (the runner uses 2000) *)
Definition fuel_cap : nat := 100 * 100.

(* the fuel [tsem_program] / [lower_main_with] need on [P]: one more than the depth of main's
   body with calls inlined and products by small literals expanded.  Meaningful when it is at
   most [fuel_cap] (for a recursive program it exceeds [fuel_cap]). *)
Definition fuel_needed (P : program) : nat :=
  match find_fn P (p_main P) with
  | Some fd => need_b fuel_cap P (fn_body fd)
  | None => 0
  end.

(* what the extracted checker evaluates *)
Definition fuel_enough (fuel : nat) (P : program) : bool :=
  (fuel_needed P <=? fuel) && (fuel_needed P <=? fuel_cap).

Lemma rnf_const_wires e : rnf (const_wires tops e).
Proof. destruct e as [ei m t]. destruct ei; exact I. Qed.

Lemma rnf_global_fold : forall (cs : list (N * expr)) (r : res (@cenv bool)), rnf r ->
  rnf (fold_left (fun Er '(x, e) => let* E := Er in let* w := const_wires tops e in env_let E x w) cs r).
Proof.
  induction cs as [|[x e] cs IH]; intros r Hr; cbn [fold_left]; [exact Hr|].
  apply IH. apply rnf_bind; [exact Hr|]. intro E. apply rnf_bind; [apply rnf_const_wires|]. intro w. apply rnf_env_let.
Qed.

Lemma rnf_main_env P bs : rnf (main_env tops P bs).
Proof.
  unfold main_env, global_scope. apply rnf_bind; [apply rnf_global_fold; exact I|]. intro glob.
  apply rnf_fold_let. exact I.
Qed.

(* with enough fuel the bit-level semantics never answers OutOfFuel (any program, any arguments) *)
Theorem tsem_program_fuel P args fuel : fuel_needed P <= fuel -> fuel <= fuel_cap -> rnf (tsem_program fuel P args).
Proof.
  unfold fuel_needed, tsem_program. intros Hn Hc. destruct (find_fn P (p_main P)) as [fd|]; [|exact I].
  destruct (negb (same_len (fn_params fd) args)); [exact I|].
  apply rnf_bind; [apply rnf_main_env|]. intro E0.
  destruct (need_sound P fuel_cap) as (_ & _ & _ & Hb). specialize (Hb fuel (fn_body fd) E0 Hc Hn None).
  destruct (lower_block tops fuel P (fn_body fd) E0 None) as [[[w E'] o']| |]; [exact I|exact I|contradiction].
Qed.

(* fuel monotonicity of the whole semantics *)
Theorem tsem_program_mono P args f f' r : f <= f' -> tsem_program f P args = Ok r -> tsem_program f' P args = Ok r.
Proof.
  unfold tsem_program. intros Hle. destruct (find_fn P (p_main P)) as [fd|]; [|discriminate].
  destruct (negb (same_len (fn_params fd) args)); [discriminate|].
  destruct (main_env tops P (combine (map fst (fn_params fd)) args)) as [E0| |]; cbn [bind]; try discriminate.
  destruct (lower_fuel_mono tops P f f' Hle) as (_ & _ & _ & Hb).
  destruct (lower_block tops f P (fn_body fd) E0 None) as [[[w E'] o']| |] eqn:Eb; cbn [bind]; try discriminate.
  rewrite (Hb _ _ _ _ Eb). cbn [bind]. exact (fun H => H).
Qed.

(* accepted programs, enough fuel: the semantics is defined on all arguments of the parameters'
   sizes and the result has the size of main's return type *)
Theorem tsem_program_terminates P fuel args fd :
  safe_program_ok P = true -> fuel_needed P <= fuel_cap -> fuel_needed P <= fuel ->
  find_fn P (p_main P) = Some fd ->
  Forall2 (fun p a => length a = szn P (snd p)) (fn_params fd) args ->
  exists o outs, tsem_program fuel P args = Ok (o, outs) /\ length outs = szn P (fn_ret fd).
Proof.
  intros Hok Hcap Hn Hmain Hargs.
  assert (exists f1, f1 <= fuel /\ f1 <= fuel_cap /\ fuel_needed P <= f1) as (f1 & H1 & H2 & H3).
  { exists (Nat.min fuel fuel_cap). repeat split; lia. }
  pose proof (tsem_program_fuel P args f1 H3 H2) as Hnf.
  unfold safe_program_ok in Hok. apply andb_prop in Hok as [Hok _]. apply andb_prop in Hok as [Hok Hc].
  apply andb_prop in Hok as [Hwt Hf].
  pose proof (tsem_program_safe f1 P args fd Hwt Hf Hc Hmain Hargs) as Hs.
  destruct (tsem_program f1 P args) as [[o outs]| |] eqn:Et; [|contradiction|contradiction].
  exists o, outs. split; [|exact Hs]. eapply tsem_program_mono; eassumption.
Qed.
Print Assumptions tsem_program_terminates.

Corollary tsem_program_terminates_b P fuel args fd :
  safe_program_ok P = true -> fuel_enough fuel P = true ->
  find_fn P (p_main P) = Some fd ->
  Forall2 (fun p a => length a = szn P (snd p)) (fn_params fd) args ->
  exists o outs, tsem_program fuel P args = Ok (o, outs) /\ length outs = szn P (fn_ret fd).
Proof.
  unfold fuel_enough. intros Hok He. apply andb_prop in He as [H1 H2]. apply Nat.leb_le in H1, H2.
  now apply tsem_program_terminates.
Qed.

(* ------------------------------------------------------------------ the builder instance: with
   enough fuel no run-time witness is needed for LowerSound.lower_program_sound *)


(* the types of main's parameters are explored within [Sem.ty_fuel] (a single array parameter is
   wired element by element) *)
Definition params_ok (P : program) : bool :=
  match find_fn P (p_main P) with
  | Some fd => forallb (fun p => ty_ok Sem.ty_fuel P (snd p)) (fn_params fd)
  | None => true
  end.

Lemma fold_wiring_shape P params : forall (ps0 : list (N * ty)) (igs : list N) (bs : list (N * list N)) (wire : N),
  Forall2 (fun p b => length (snd b) = szn P (snd p)) ps0 bs ->
  let '(_, bs', _) :=
    fold_left (fun '(igs, bs, wire) '(x, t) =>
                 let s := szn P t in
                 (igs ++ [N.of_nat s], bs ++ [(x, wire_range wire s)], (wire + N.of_nat s)%N))
              params (igs, bs, wire) in
  Forall2 (fun p b => length (snd b) = szn P (snd p)) (ps0 ++ params) bs'.
Proof.
  induction params as [|[x t] params IH]; intros ps0 igs bs wire H; cbn [fold_left].
  - now rewrite app_nil_r.
  - specialize (IH (ps0 ++ [(x, t)]) (igs ++ [N.of_nat (szn P t)]) (bs ++ [(x, wire_range wire (szn P t))])
                   (wire + N.of_nat (szn P t))%N).
    rewrite <- app_assoc in IH. apply IH. apply Forall2_app; [exact H|].
    constructor; [|constructor]. cbn [snd]. apply wire_range_length.
Qed.

Lemma param_wiring_shape P params igs bs : param_wiring P params = (igs, bs) ->
  forallb (fun p => ty_ok Sem.ty_fuel P (snd p)) params = true ->
  Forall2 (fun p b => length (snd b) = szn P (snd p)) params bs.
Proof.
  unfold param_wiring. intros H Hok.
  assert (Gen : forall igs bs,
    (let '(igs0, bs0, _) :=
       fold_left (fun '(igs, bs, wire) '(x, t) =>
                    let s := szn P t in
                    (igs ++ [N.of_nat s], bs ++ [(x, wire_range wire s)], (wire + N.of_nat s)%N))
                 params ([], [], 2%N) in (igs0, bs0)) = (igs, bs) ->
    Forall2 (fun p b => length (snd b) = szn P (snd p)) params bs).
  { intros igs0 bs0. pose proof (fold_wiring_shape P params [] [] [] 2%N (Forall2_nil _)) as H0.
    destruct (fold_left _ params _) as [[i b] w]. intros [= <- <-]. exact H0. }
  destruct params as [|[x t] [|p2 ps]]; [exact (Gen igs bs H)| |destruct t; exact (Gen igs bs H)].
  destruct t; try exact (Gen igs bs H).
  injection H as <- <-. constructor; [|constructor]. cbn [snd forallb] in *.
  rewrite wire_range_length. apply andb_prop in Hok as [Hok _]. symmetry. now apply szn_arr.
Qed.

Section Total.
  Variable fuel : nat.
  Variable dedup : bool.
  Variable P : program.

  Theorem lower_program_total s1 outs :
    safe_program_ok P = true -> params_ok P = true ->
    fuel_needed P <= fuel_cap -> fuel_needed P <= fuel ->
    lower_main_with fuel dedup P = Ok (PreOk s1 outs) ->
    (counter (cb s1) + (b_shift (cb s1) - 2) <= MAX_GATES)%N ->
    exists fd igs bindings,
      find_fn P (p_main P) = Some fd /\ param_wiring P (fn_params fd) = (igs, bindings) /\
      forall ins inp,
        load_inputs igs ins = Some inp ->
        exists o vouts c out,
          tsem_program fuel P (param_args bindings inp) = Ok (o, vouts) /\
          length vouts = szn P (fn_ret fd) /\
          lower_program_with fuel dedup P = Ok (LCircuit c) /\
          ssa_validate c = None /\ input_gates c = igs /\
          length (output_gates c) = (161 + length vouts)%nat /\
          ssa_eval c ins = Some out /\
          parse_panic out = parse_spec o vouts /\
          (o = None -> skipn 161 out = vouts).
  Proof.
    intros Hok Hpar Hcap Hn Hmain Hmax.
    destruct (lower_program_sound_one_witness fuel dedup P s1 outs Hmain Hmax) as (fd & igs & bindings & Efd & Epw & H).
    exists fd, igs, bindings. split; [exact Efd|]. split; [exact Epw|]. intros ins inp Hload.
    unfold params_ok in Hpar. rewrite Efd in Hpar.
    pose proof (param_wiring_shape P _ _ _ Epw Hpar) as Hsh.
    set (args0 := map (fun b : N * list N => repeat false (length (snd b))) bindings).
    assert (Forall2 (fun b a => length a = length (snd b)) bindings args0) as H0.
    { unfold args0. clear. induction bindings as [|b bs IH]; cbn [map]; constructor; [apply repeat_length|exact IH]. }
    assert (Forall2 (fun p a => length a = szn P (snd p)) (fn_params fd) args0) as H1.
    { unfold args0. clear - Hsh. induction Hsh as [|p b ps bs Hl _ IH]; cbn [map]; constructor; [|exact IH].
      now rewrite repeat_length. }
    destruct (tsem_program_terminates P fuel args0 fd Hok Hcap Hn Efd H1) as (o0 & outs0 & Ht0 & L0).
    destruct (H args0 (o0, outs0) H0 Ht0 ins inp Hload) as (o & vouts & c & out & Ht & Hl & Hrest).
    exists o, vouts, c, out. split; [exact Ht|]. split; [cbn [snd] in Hl; congruence|exact Hrest].
  Qed.
End Total.
Print Assumptions lower_program_total.

(* ------------------------------------------------------------------ examples *)

Module FuelExamples.
  Import Findings.
  Local Open Scope N_scope.
  Definition u32 := TInt false 32.
  (* fn f(x: u32) -> u32 { x * 3 }   fn main(a: u32) -> u32 { f(f(a)) + 1 } *)
  Definition fbody := [St (SExpr (Ex (EOp OMul (Ex (EId 1) m0 u32) (Ex (ENumU 3 32) m0 u32)) m0 u32)) m0].
  Definition mbody :=
    [St (SExpr (Ex (EOp OAdd (Ex (ECall 7 [Ex (ECall 7 [Ex (EId 2) m0 u32]) m0 u32]) m0 u32)
                             (Ex (ENumU 1 32) m0 u32)) m0 u32)) m0].
  Definition PP : program := mkProgram [] [] [mkFn 7 [(1, u32)] u32 fbody; mkFn 0 [(2, u32)] u32 mbody] [] 0.
  Definition status (f : nat) : N :=
    match tsem_program f PP [repeat true 32] with Ok _ => 0 | Crash => 1 | OutOfFuel => 2 end.
  (* the bound is exact here: defined with 11, out of fuel with 10 *)
  Example fuel_needed_exact :
    safe_program_ok PP = true /\ fuel_needed PP = 11%nat /\ fuel_enough 2000 PP = true /\
    status 11 = 0 /\ status 10 = 2.
  Proof. vm_compute. repeat split. Qed.

  (* fn main(a: u32) -> u32 { main(a) }: [wt_program] (hence [safe_program_ok]) accepts a recursive
     program -- a call is checked against the signature only; the semantics is OutOfFuel for every
     fuel, and [fuel_needed] exceeds [fuel_cap] *)
  Definition rbody := [St (SExpr (Ex (ECall 0 [Ex (EId 2) m0 u32]) m0 u32)) m0].
  Definition PR : program := mkProgram [] [] [mkFn 0 [(2, u32)] u32 rbody] [] 0.
  Example recursion_accepted :
    safe_program_ok PR = true /\ fuel_enough 2000 PR = false /\ Nat.ltb fuel_cap (fuel_needed PR) = true.
  Proof. vm_compute. repeat split. Qed.
End FuelExamples.
